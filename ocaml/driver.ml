(* Generic driver around an extracted model (module Model, produced by coq/Cxx/Extract.v).
   Reads a trace:
     C <case-id> <label>
     I <ints...>            input, flat-integer wire format
     O <ints...>            observable logged by the implementation
   and prints, per case:
     R <case-id> <corr 0|1> <prop-code> <nontrivial 0|1> <finding-sig> <label>
     M <ints...>            model observable (only when corr = 0)
   Integers never pass through OCaml int: decimal text <-> Coq Z via zarith bit tests. *)

let rec pos_of_z (z : Z.t) : Model.positive =
  if Z.equal z Z.one then Model.XH
  else if Z.testbit z 0 then Model.XI (pos_of_z (Z.shift_right z 1))
  else Model.XO (pos_of_z (Z.shift_right z 1))

let coq_of_z (z : Z.t) : Model.z =
  let s = Z.sign z in
  if s = 0 then Model.Z0
  else if s > 0 then Model.Zpos (pos_of_z z)
  else Model.Zneg (pos_of_z (Z.neg z))

let rec z_of_pos (p : Model.positive) : Z.t =
  match p with
  | Model.XH -> Z.one
  | Model.XO q -> Z.shift_left (z_of_pos q) 1
  | Model.XI q -> Z.succ (Z.shift_left (z_of_pos q) 1)

let z_of_coq (z : Model.z) : Z.t =
  match z with
  | Model.Z0 -> Z.zero
  | Model.Zpos p -> z_of_pos p
  | Model.Zneg p -> Z.neg (z_of_pos p)

let parse_ints (s : string) : Model.z list =
  String.split_on_char ' ' s
  |> List.filter (fun t -> t <> "")
  |> List.map (fun t -> coq_of_z (Z.of_string t))

let show_ints (l : Model.z list) : string =
  String.concat " " (List.map (fun z -> Z.to_string (z_of_coq z)) l)

let rec eq_list a b =
  match a, b with
  | [], [] -> true
  | x :: a', y :: b' -> Z.equal (z_of_coq x) (z_of_coq y) && eq_list a' b'
  | _ -> false

let () =
  let ic = if Array.length Sys.argv > 1 then open_in Sys.argv.(1) else stdin in
  let cid = ref "" and label = ref "" and inp = ref [] in
  (try
     while true do
       let line = input_line ic in
       let n = String.length line in
       if n >= 2 then begin
         let rest = String.sub line 2 (n - 2) in
         match line.[0] with
         | 'C' ->
           (match String.index_opt rest ' ' with
            | Some i -> cid := String.sub rest 0 i;
              label := String.sub rest (i + 1) (String.length rest - i - 1)
            | None -> cid := rest; label := "")
         | 'I' -> inp := parse_ints rest
         | 'O' ->
           let obs = parse_ints rest in
           let m = Model.run_case !inp in
           let corr = eq_list m obs in
           let code = z_of_coq (Model.prop_case !inp obs) in
           let nt = Model.nontrivial_case !inp in
           let fs = z_of_coq (Model.finding_sig !inp obs) in
           Printf.printf "R %s %d %s %d %s %s\n" !cid (if corr then 1 else 0)
             (Z.to_string code) (if nt then 1 else 0) (Z.to_string fs) !label;
           if not corr then Printf.printf "M %s\n" (show_ints m)
         | _ -> ()
       end
     done
   with End_of_file -> ());
  flush stdout
