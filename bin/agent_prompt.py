#!/usr/bin/env python3
"""Prints the standard work order for a builder sub-agent (coordinator tooling)."""
import sys, json
pid = sys.argv[1]
extra = sys.argv[2] if len(sys.argv) > 2 else ""
prop = [json.loads(l) for l in open('/verif/properties.jsonl') if json.loads(l)['id'] == pid][0]
print(f"""You are building one part of a machine-checked-proof verification framework (Rocq/Coq 8.16.1) for the Go project koordinator-sh/koordinator (source at /repo, framework at /verif). Your property is {pid}.

READ FIRST, in this order: /verif/HOWTO.md (the rules and the wire protocol — follow it exactly), /verif/DESIGN.md §1–§4 and the "### {pid}" entry of §5 (the planned model M, theorems T, harness H, limits L, findings F for your property), then the worked template: /verif/coq/C02/*.v, /verif/harness/C02/, /verif/props/C02.json, /verif/harness/common/zz_verif_common_test.go.tmpl, /verif/ocaml/driver.ml and skim /verif/bin/check. Then read the anchored Go code of your property carefully — the model must be faithful to the code AS IT IS NOW in /repo (note: /repo HEAD already contains eight small "fix:" commits, see `git -C /repo log --oneline` and /verif/known_findings.txt; model the current, fixed behaviour).

THE PROPERTY (fixed text, do not change it):
id: {pid}
title: {prop['title']}
statement: {prop['statement']}
quantifier: {prop['quantifier']['text']}
anchors: {json.dumps(prop['anchors'])}

DELIVERABLES (all under /verif, only in your own paths coq/{pid}/, harness/{pid}/, props/{pid}.json, corpus/{pid}/, findings/{pid}-*.md, and new files coq/Lib/<YourNew>.v if you need shared lemmas):
1. coq/{pid}/Model.v — small, total, executable Gallina model of the mechanism (pure functions for input-quantified parts; state + step for history-quantified parts). No proofs in it.
2. coq/{pid}/Spec.v — the property as Props over (input/history, observable) plus the decision procedure `prop_code` (Z: 0 = holds, else clause id), ideally with a lemma connecting them.
3. coq/{pid}/Proofs*.v and coq/{pid}/Properties.v — the theorems: for ALL inputs / ALL finite histories (induction over the op list, invariants, refinement to a from-scratch spec), no bounds. Properties.v contains only `Theorem … Proof. exact …. Qed.` + `Print Assumptions …` + non-vacuity Examples. Target: every theorem "Closed under the global context". No Axiom/Parameter/Admitted/admit anywhere.
4. coq/{pid}/Extract.v (or Extract_<stream>.v per stream) defining run_case / prop_case / nontrivial_case / finding_sig over the flat-integer wire format, and harness/{pid}/zz_verif_*_test.go (//go:build verif, in-package) with Gen/Exec/TestVerif… that drive the REAL entry points of /repo and log projected observables after every operation.
5. props/{pid}.json — streams, case counts (quick run of the whole check ≲ 90 s warm; thorough ≈ 30×), nontrivial_rule, trusted_base, assumptions.
6. `cd /verif && bin/check {pid} quick` must exit 0 on the unchanged /repo with 0 correspondence mismatches, and must be deterministic for a fixed VERIF_SEED (run it 3× with different seeds: `VERIF_SEED=7 bin/check {pid} quick`). Then validate that it DETECTS breakage: make a scratch worktree (`git -C /repo worktree add /tmp/wt-{pid} HEAD`), seed 2–3 realistic property-breaking edits there one at a time (the kind listed for {pid} in DESIGN.md's table "What a breaking change looks like"), run `VERIF_REPO=/tmp/wt-{pid} bin/check {pid} quick` and confirm a VIOLATION with a replay file whose `prop_case` fails (not merely a correspondence mismatch) — strengthen the generator/observables/prop_code until it does; finally remove the worktree (`git -C /repo worktree remove --force /tmp/wt-{pid}`).

WORK ORDER: get the pipeline end to end FIRST with a small faithful model and 1–2 proved theorems (model → Extract → harness → `bin/check {pid} quick` green), then widen the model to everything the property statement covers, then prove the full-strength theorems listed in DESIGN §5 for {pid} (keep statements at full strength; `…_partial` with a stated gap if you cannot finish one; `…_refuted` with a vm_compute witness if the faithful model violates it — then replay the witness on the real code and follow HOWTO "Findings"). Prefer depth of proof on the central invariant over many shallow lemmas, and make sure the main theorem is stated over the same definitions that Extract.v runs (so what is proved is what is compared with the code). Keep going until the property is covered as fully as you can; there is no reward for stopping early, but do not leave the tree in a state where `bin/check {pid} quick` fails.

RULES: never modify /repo (use -overlay via bin/check; scratch worktrees under /tmp only and remove them); do not git commit; do not edit bin/, MANIFEST.json, DESIGN.md, other properties' directories or existing coq/Lib files; build Coq only through `bin/coqmake {pid}` / `bin/check` (shared lock); Go env: `export GOFLAGS=-mod=mod GOPROXY=off` only. Put `timeout` on every long command. Other agents are working in parallel in sibling directories and share the CPU.
{extra}
FINAL MESSAGE (this is all the coordinator sees): (a) the list of theorems in Properties.v with one line each on what it states and any hypothesis; (b) what is modelled vs not, partial labels; (c) harness streams, case counts, timings, nontrivial counts; (d) which seeded breaking edits you tried and whether each was caught by prop_case or only by correspondence; (e) any finding (defect in /repo) with its replay input; (f) text to paste into DESIGN.md for {pid} (≤ 25 lines: what was built, trusted base, limits).""")
