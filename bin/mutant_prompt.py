#!/usr/bin/env python3
"""Work order for an independent 'seeded breakage' sub-agent: property text + scratch worktree only."""
import sys, json
pid, wt, outdir = sys.argv[1], sys.argv[2], sys.argv[3]
hint = sys.argv[4] if len(sys.argv) > 4 else ""
prop = [json.loads(l) for l in open('/verif/properties.jsonl') if json.loads(l)['id'] == pid][0]
print(f"""You are testing how well a verification effort would catch regressions in the Go project koordinator-sh/koordinator (a QoS-based Kubernetes scheduler / descheduler / node agent). You have your own scratch git worktree of the project at {wt} (work ONLY there and in {outdir}; never touch /repo or /verif, and do not read anything under /verif).

The following semantic property is supposed to hold for the code:

  id: {pid}
  title: {prop['title']}
  statement: {prop['statement']}
  quantified over: {prop['quantifier']['text']}
  code it is anchored in: {', '.join(prop['anchors']['files'])}

YOUR TASK: produce TWO different, realistic changes ("mutants") to the project's non-test Go source, each of which
  (1) BREAKS the property above (a real semantic violation of the statement, not a crash on every call),
  (2) still compiles (`go build ./...` of the touched packages and `go vet`-free is not required),
  (3) still PASSES the existing unit tests of the touched package(s) and their direct dependents, UNEDITED (run them: `cd {wt} && GOFLAGS=-mod=mod GOPROXY=off go test -vet=off -count=1 ./<pkg>/...`; do not set GOSUMDB or GOTOOLCHAIN; koordlet packages under pkg/koordlet/qosmanager, pkg/koordlet/runtimehooks need cgo headers that are missing here — if your change is there, verify with `go vet`-less `go build` of the package being impossible, then instead run the tests with the overlay `-overlay {outdir}/perf_overlay.json` described below),
  (4) needs something SPECIFIC to manifest — a particular interleaving, a fault at a particular point, a multi-step sequence of operations, an unusual/boundary input, or two cooperating sites that each look fine alone — i.e. NOT something ordinary use or the existing tests would expose at once. Think like a plausible refactoring slip, off-by-one, lost update, wrong comparison operator on a boundary, forgotten rollback, stale cache entry, wrong map key, etc. The two mutants should be of different kinds and in different functions.
For each mutant also write a DEMONSTRATION: a new Go test file (e.g. `zz_demo_test.go` in the relevant package, in-package so it can reach unexported identifiers) containing one test that FAILS with the mutant applied and PASSES on the unmodified worktree, and whose assertion expresses the property (not an implementation detail). Run it both ways and confirm.

{hint}

DELIVER in {outdir}/ (create it): for i in 1,2:  `m<i>.patch` (output of `git -C {wt} diff` for the mutant ONLY, source change only, no test file), `m<i>_demo_test.go` (the demonstration test file, plus a first-line comment saying in which package directory it must be placed), `m<i>.md` (what the change is, why it breaks the property, what it needs in order to manifest, the exact commands you ran and their outcomes: existing tests pass with mutant; demo fails with mutant; demo passes without). Apply/revert with `git -C {wt} apply` / `git -C {wt} checkout -- .` so that the worktree is clean (except nothing) when you finish. Environment: offline; `export GOFLAGS=-mod=mod GOPROXY=off`; first build of a package is slow (minutes). Put `-timeout 300s` on go test. If (for koordlet qosmanager/runtimehooks packages only) you need the cgo workaround, create {outdir}/perf_overlay.json with content {{"Replace":{{"{wt}/pkg/koordlet/util/perf_group/perf_group_linux.go":"/verif/harness/stubs/perf_group_stub.go","{wt}/pkg/koordlet/util/perf_group/perf_group_linux_test.go":""}}}} (that one stub file is the only thing under /verif you may reference) and pass `-overlay` to go build/test.

FINAL MESSAGE: for each mutant one paragraph: file/function changed, what it needs to manifest, and confirmation of the three runs (existing tests pass / demo fails with / demo passes without).""")
