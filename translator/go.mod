module verif/go2coq

go 1.21
