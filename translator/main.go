// go2coq — regenerates coq/Gen/*.v from the current source tree of koordinator.
//
// Two kinds of definitions are produced (spec.json says which):
//   - named constants / package-level variables with a literal initialiser:
//     integers -> Z, strings -> string, decimal floats -> an exact rational (num, den) : Z * Z
//   - functions in the straight-line integer subset: parameters and locals of integer (or bool) type,
//     := / =, if / else if / else, return, + - * / % (Go's truncated division -> Z.quot/Z.rem),
//     comparisons, && || !, integer conversions (identity: theorems carry the range guard),
//     references to constants, and string-typed named constants as return values.
//     Anything else makes the translator FAIL (exit 1): the tie to the source is then
//     reported broken by bin/check, never silently kept.
//
// Only go/ast + go/parser are used (no type checker, no dependencies).
package main

import (
	"encoding/json"
	"flag"
	"fmt"
	"go/ast"
	"go/parser"
	"go/token"
	"math/big"
	"os"
	"os/exec"
	"path/filepath"
	"sort"
	"strconv"
	"strings"
)

type constSpec struct {
	File  string   `json:"file"`
	Names []string `json:"names"`
	// Module: the file lives in a dependency (resolved with `go list -m` from the repo's go.mod),
	// e.g. k8s.io/kube-scheduler for fwktype.MaxNodeScore
	Module string `json:"module"`
}
type funcSpec struct {
	File string `json:"file"`
	Name string `json:"name"`
	// NilFalse: pointer parameters are modelled by their pointee; `p == nil` is false
	NilFalse bool `json:"nil_false"`
	// As: name of the generated definition (several packages define a function of the same name)
	As string `json:"as"`
}
type moduleSpec struct {
	Out    string      `json:"out"` // e.g. Gen_consts.v
	Consts []constSpec `json:"consts"`
	Funcs  []funcSpec  `json:"funcs"`
	Import []string    `json:"import"`
}
type spec struct {
	Modules []moduleSpec `json:"modules"`
}

func die(f string, a ...interface{}) {
	fmt.Fprintf(os.Stderr, "go2coq: "+f+"\n", a...)
	os.Exit(1)
}

var fset = token.NewFileSet()
var parsed = map[string]*ast.File{}

func parse(repo, file string) *ast.File {
	p := filepath.Join(repo, file)
	if f, ok := parsed[p]; ok {
		return f
	}
	f, err := parser.ParseFile(fset, p, nil, 0)
	if err != nil {
		die("parse %s: %v", p, err)
	}
	parsed[p] = f
	return f
}

// ---------------------------------------------------------------- constants

type value struct {
	kind string // "int", "string", "rat"
	i    *big.Int
	s    string
	num  *big.Int
	den  *big.Int
}

// package-level value specs of one file, by name
func valueSpecs(f *ast.File) map[string]ast.Expr {
	out := map[string]ast.Expr{}
	for _, d := range f.Decls {
		gd, ok := d.(*ast.GenDecl)
		if !ok || (gd.Tok != token.CONST && gd.Tok != token.VAR) {
			continue
		}
		for _, s := range gd.Specs {
			vs := s.(*ast.ValueSpec)
			for i, n := range vs.Names {
				if i < len(vs.Values) {
					out[n.Name] = vs.Values[i]
				}
			}
		}
	}
	return out
}

func evalConst(e ast.Expr, env map[string]ast.Expr, depth int) value {
	if depth > 20 {
		die("constant expression too deep")
	}
	switch x := e.(type) {
	case *ast.BasicLit:
		switch x.Kind {
		case token.INT:
			i := new(big.Int)
			if _, ok := i.SetString(strings.ReplaceAll(x.Value, "_", ""), 0); !ok {
				die("bad int literal %s", x.Value)
			}
			return value{kind: "int", i: i}
		case token.STRING:
			s, err := strconv.Unquote(x.Value)
			if err != nil {
				die("bad string literal %s", x.Value)
			}
			return value{kind: "string", s: s}
		case token.FLOAT:
			r := new(big.Rat)
			if _, ok := r.SetString(x.Value); !ok {
				die("bad float literal %s", x.Value)
			}
			return value{kind: "rat", num: new(big.Int).Set(r.Num()), den: new(big.Int).Set(r.Denom())}
		}
	case *ast.ParenExpr:
		return evalConst(x.X, env, depth+1)
	case *ast.Ident:
		if v, ok := env[x.Name]; ok {
			return evalConst(v, env, depth+1)
		}
		die("constant %s: unknown identifier", x.Name)
	case *ast.CallExpr: // conversion T(x)
		if len(x.Args) == 1 {
			return evalConst(x.Args[0], env, depth+1)
		}
	case *ast.UnaryExpr:
		v := evalConst(x.X, env, depth+1)
		if x.Op == token.SUB && v.kind == "int" {
			return value{kind: "int", i: new(big.Int).Neg(v.i)}
		}
	case *ast.BinaryExpr:
		a, b := evalConst(x.X, env, depth+1), evalConst(x.Y, env, depth+1)
		if a.kind == "int" && b.kind == "int" {
			r := new(big.Int)
			switch x.Op {
			case token.ADD:
				return value{kind: "int", i: r.Add(a.i, b.i)}
			case token.SUB:
				return value{kind: "int", i: r.Sub(a.i, b.i)}
			case token.MUL:
				return value{kind: "int", i: r.Mul(a.i, b.i)}
			case token.QUO:
				return value{kind: "int", i: r.Quo(a.i, b.i)}
			case token.SHL:
				return value{kind: "int", i: r.Lsh(a.i, uint(b.i.Uint64()))}
			}
		}
	}
	die("constant expression outside the translatable subset: %T", e)
	return value{}
}

func coqZ(i *big.Int) string {
	if i.Sign() < 0 {
		return "(" + i.String() + ")"
	}
	return i.String()
}

func coqString(s string) string { return "\"" + strings.ReplaceAll(s, "\"", "\"\"") + "\"" }

// ---------------------------------------------------------------- functions

type fctx struct {
	nilFalse bool
	ptr      map[string]bool
	retKind  string // "Z", "string", "bool"
}

func (c *fctx) expr(e ast.Expr) string {
	switch x := e.(type) {
	case *ast.BasicLit:
		if x.Kind == token.INT {
			i := new(big.Int)
			i.SetString(strings.ReplaceAll(x.Value, "_", ""), 0)
			return coqZ(i)
		}
		if x.Kind == token.STRING {
			s, _ := strconv.Unquote(x.Value)
			return coqString(s)
		}
	case *ast.Ident:
		return x.Name
	case *ast.SelectorExpr: // pkg.Const -> Const
		return x.Sel.Name
	case *ast.ParenExpr:
		return "(" + c.expr(x.X) + ")"
	case *ast.StarExpr:
		if id, ok := x.X.(*ast.Ident); ok && c.ptr[id.Name] {
			return id.Name
		}
	case *ast.CallExpr:
		if len(x.Args) == 1 {
			if id, ok := x.Fun.(*ast.Ident); ok {
				switch id.Name {
				case "int", "int32", "int64", "uint", "uint32", "uint64":
					return c.expr(x.Args[0])
				}
			}
		}
	case *ast.UnaryExpr:
		if x.Op == token.SUB {
			return "(- " + c.expr(x.X) + ")"
		}
	case *ast.BinaryExpr:
		a, b := c.expr(x.X), c.expr(x.Y)
		switch x.Op {
		case token.ADD:
			return "(" + a + " + " + b + ")"
		case token.SUB:
			return "(" + a + " - " + b + ")"
		case token.MUL:
			return "(" + a + " * " + b + ")"
		case token.QUO:
			return "(Z.quot " + a + " " + b + ")"
		case token.REM:
			return "(Z.rem " + a + " " + b + ")"
		}
	}
	die("expression outside the straight-line integer subset at %s: %T", fset.Position(e.Pos()), e)
	return ""
}

func isLogCall(e ast.Expr) bool {
	call, ok := e.(*ast.CallExpr)
	if !ok {
		return false
	}
	for {
		sel, ok := call.Fun.(*ast.SelectorExpr)
		if !ok {
			return false
		}
		switch r := sel.X.(type) {
		case *ast.Ident:
			return r.Name == "klog"
		case *ast.CallExpr: // klog.V(4).Infof(...)
			call = r
		default:
			return false
		}
	}
}

func (c *fctx) cond(e ast.Expr) string {
	switch x := e.(type) {
	case *ast.Ident: // true / false / a bool-typed local or parameter
		return x.Name
	case *ast.ParenExpr:
		return "(" + c.cond(x.X) + ")"
	case *ast.UnaryExpr:
		if x.Op == token.NOT {
			return "(negb " + c.cond(x.X) + ")"
		}
	case *ast.BinaryExpr:
		switch x.Op {
		case token.LAND:
			return "(" + c.cond(x.X) + " && " + c.cond(x.Y) + ")"
		case token.LOR:
			return "(" + c.cond(x.X) + " || " + c.cond(x.Y) + ")"
		}
		// nil tests on pointer parameters
		if id, ok := x.Y.(*ast.Ident); ok && id.Name == "nil" {
			if !c.nilFalse {
				die("nil comparison at %s (set nil_false to model the pointee)", fset.Position(e.Pos()))
			}
			if x.Op == token.EQL {
				return "false"
			}
			return "true"
		}
		a, b := c.expr(x.X), c.expr(x.Y)
		switch x.Op {
		case token.LSS:
			return "(" + a + " <? " + b + ")"
		case token.LEQ:
			return "(" + a + " <=? " + b + ")"
		case token.GTR:
			return "(" + b + " <? " + a + ")"
		case token.GEQ:
			return "(" + b + " <=? " + a + ")"
		case token.EQL:
			return "(" + a + " =? " + b + ")"
		case token.NEQ:
			return "(negb (" + a + " =? " + b + "))"
		}
	}
	die("condition outside the subset at %s: %T", fset.Position(e.Pos()), e)
	return ""
}

// stmts translates a statement list followed by continuation `rest` (nil = must have returned)
func (c *fctx) stmts(ss []ast.Stmt, ind string) string {
	if len(ss) == 0 {
		die("function body falls off the end without return (outside the subset)")
	}
	s, rest := ss[0], ss[1:]
	switch x := s.(type) {
	case *ast.ReturnStmt:
		if len(x.Results) != 1 {
			die("return with %d results at %s", len(x.Results), fset.Position(s.Pos()))
		}
		if c.retKind == "bool" {
			return ind + c.cond(x.Results[0])
		}
		return ind + c.expr(x.Results[0])
	case *ast.ExprStmt:
		// logging has no effect on the result: klog.X(...) / klog.V(n).X(...) statements are dropped
		if isLogCall(x.X) {
			return c.stmts(rest, ind)
		}
	case *ast.AssignStmt:
		if len(x.Lhs) != 1 || len(x.Rhs) != 1 {
			die("multi-assignment at %s", fset.Position(s.Pos()))
		}
		id, ok := x.Lhs[0].(*ast.Ident)
		if !ok {
			die("assignment to non-identifier at %s", fset.Position(s.Pos()))
		}
		rhs := ""
		switch x.Tok {
		case token.DEFINE, token.ASSIGN:
			rhs = c.expr(x.Rhs[0])
		case token.ADD_ASSIGN:
			rhs = "(" + id.Name + " + " + c.expr(x.Rhs[0]) + ")"
		case token.SUB_ASSIGN:
			rhs = "(" + id.Name + " - " + c.expr(x.Rhs[0]) + ")"
		default:
			die("assignment operator %s at %s", x.Tok, fset.Position(s.Pos()))
		}
		return ind + "let " + id.Name + " := " + rhs + " in\n" + c.stmts(rest, ind)
	case *ast.IfStmt:
		if x.Init != nil {
			die("if with init statement at %s", fset.Position(s.Pos()))
		}
		thenB := append(append([]ast.Stmt{}, x.Body.List...), rest...)
		var elseB []ast.Stmt
		switch e := x.Else.(type) {
		case nil:
			elseB = rest
		case *ast.BlockStmt:
			elseB = append(append([]ast.Stmt{}, e.List...), rest...)
		case *ast.IfStmt:
			elseB = append([]ast.Stmt{e}, rest...)
		}
		return ind + "if " + c.cond(x.Cond) + " then\n" + c.stmts(thenB, ind+"  ") + "\n" + ind + "else\n" + c.stmts(elseB, ind+"  ")
	case *ast.BlockStmt:
		return c.stmts(append(append([]ast.Stmt{}, x.List...), rest...), ind)
	}
	die("statement outside the straight-line integer subset at %s: %T", fset.Position(s.Pos()), s)
	return ""
}

func typeKind(t ast.Expr) (kind string, ptr bool) {
	switch x := t.(type) {
	case *ast.StarExpr:
		k, _ := typeKind(x.X)
		return k, true
	case *ast.Ident:
		switch x.Name {
		case "int", "int32", "int64", "uint", "uint32", "uint64":
			return "Z", false
		case "bool":
			return "bool", false
		case "string":
			return "string", false
		default: // named type: in the translated files these are string-kinded enums
			return "string", false
		}
	case *ast.SelectorExpr:
		return "string", false
	}
	die("type outside the subset: %T", t)
	return "", false
}

func translateFunc(repo string, fs funcSpec) string {
	f := parse(repo, fs.File)
	for _, d := range f.Decls {
		fd, ok := d.(*ast.FuncDecl)
		if !ok || fd.Name.Name != fs.Name || fd.Recv != nil {
			continue
		}
		c := &fctx{nilFalse: fs.NilFalse, ptr: map[string]bool{}}
		var params []string
		for _, fl := range fd.Type.Params.List {
			k, ptr := typeKind(fl.Type)
			for _, n := range fl.Names {
				if ptr {
					c.ptr[n.Name] = true
				}
				params = append(params, "("+n.Name+" : "+k+")")
			}
		}
		if fd.Type.Results == nil || len(fd.Type.Results.List) != 1 {
			die("%s: exactly one result expected", fs.Name)
		}
		rk, _ := typeKind(fd.Type.Results.List[0].Type)
		c.retKind = rk
		body := c.stmts(fd.Body.List, "  ")
		name, orig := fs.Name, ""
		if fs.As != "" {
			name, orig = fs.As, " "+fs.Name
		}
		return fmt.Sprintf("(* %s:%d%s *)\nDefinition %s %s : %s :=\n%s.\n", fs.File, fset.Position(fd.Pos()).Line, orig, name, strings.Join(params, " "), rk, body)
	}
	die("function %s not found in %s", fs.Name, fs.File)
	return ""
}

func moduleDir(repo, module string) string {
	cmd := exec.Command("go", "list", "-m", "-f", "{{.Dir}}", module)
	cmd.Dir = repo
	cmd.Env = append(os.Environ(), "GOFLAGS=-mod=mod", "GOPROXY=off")
	out, err := cmd.Output()
	if err != nil || strings.TrimSpace(string(out)) == "" {
		die("cannot locate module %s from %s: %v", module, repo, err)
	}
	return strings.TrimSpace(string(out))
}

func main() {
	repo := flag.String("repo", "/repo", "source tree")
	specPath := flag.String("spec", "spec.json", "what to translate")
	out := flag.String("out", ".", "output directory")
	flag.Parse()
	raw, err := os.ReadFile(*specPath)
	if err != nil {
		die("%v", err)
	}
	var sp spec
	if err := json.Unmarshal(raw, &sp); err != nil {
		die("spec: %v", err)
	}
	for _, m := range sp.Modules {
		var sb strings.Builder
		sb.WriteString("(* GENERATED by /verif/translator (go2coq) from the current source tree — do not edit. *)\n")
		sb.WriteString("From Coq Require Import ZArith String Bool.\n")
		for _, im := range m.Import {
			sb.WriteString("From Verif Require Import " + im + ".\n")
		}
		sb.WriteString("Open Scope Z_scope.\nOpen Scope bool_scope.\n\n")
		for _, cs := range m.Consts {
			if cs.Module != "" {
				dir := moduleDir(*repo, cs.Module)
				f := parse(dir, cs.File)
				env := valueSpecs(f)
				sb.WriteString("(* " + cs.Module + " " + cs.File + " (dependency, version pinned by go.mod) *)\n")
				for _, n := range cs.Names {
					e, ok := env[n]
					if !ok {
						die("constant %s not found in %s/%s", n, cs.Module, cs.File)
					}
					v := evalConst(e, env, 0)
					if v.kind != "int" {
						die("dependency constant %s: only integers are supported", n)
					}
					sb.WriteString(fmt.Sprintf("Definition %s : Z := %s.\n", n, coqZ(v.i)))
				}
				sb.WriteString("\n")
				continue
			}
			f := parse(*repo, cs.File)
			env := valueSpecs(f)
			// constants may refer to other files of the same package
			dir := filepath.Dir(filepath.Join(*repo, cs.File))
			if ents, err := os.ReadDir(dir); err == nil {
				var names []string
				for _, e := range ents {
					if strings.HasSuffix(e.Name(), ".go") && !strings.HasSuffix(e.Name(), "_test.go") {
						names = append(names, e.Name())
					}
				}
				sort.Strings(names)
				for _, n := range names {
					rel, _ := filepath.Rel(*repo, filepath.Join(dir, n))
					if rel == cs.File {
						continue
					}
					pf, err := parser.ParseFile(fset, filepath.Join(dir, n), nil, 0)
					if err != nil {
						continue
					}
					for k, v := range valueSpecs(pf) {
						if _, ok := env[k]; !ok {
							env[k] = v
						}
					}
				}
			}
			sb.WriteString("(* " + cs.File + " *)\n")
			for _, n := range cs.Names {
				e, ok := env[n]
				if !ok {
					die("constant %s not found in %s", n, cs.File)
				}
				v := evalConst(e, env, 0)
				switch v.kind {
				case "int":
					sb.WriteString(fmt.Sprintf("Definition %s : Z := %s.\n", n, coqZ(v.i)))
				case "string":
					sb.WriteString(fmt.Sprintf("Definition %s : string := %s.\n", n, coqString(v.s)))
				case "rat":
					sb.WriteString(fmt.Sprintf("Definition %s : Z * Z := (%s, %s). (* exact rational num/den *)\n", n, coqZ(v.num), coqZ(v.den)))
				}
			}
			sb.WriteString("\n")
		}
		for _, fs := range m.Funcs {
			sb.WriteString(translateFunc(*repo, fs))
			sb.WriteString("\n")
		}
		if err := os.WriteFile(filepath.Join(*out, m.Out), []byte(sb.String()), 0o644); err != nil {
			die("%v", err)
		}
	}
}
