(* C18 — proofs, part 3b: the detector invariant along the POOL STEPS of a multi-pool history, and
   the passage from pool steps to Balance rounds. *)
From Coq Require Import String List ZArith Bool Lia.
From Verif Require Import C18.Model C18.Spec C18.Proofs_Vec C18.Proofs_Pass C18.Proofs_Round C18.Proofs_Gate.
Import ListNotations.
Open Scope Z_scope.

(* ---------------------------------------------------------------- measures over pool steps *)
Definition srcb (prod : bool) (x : Z) (s : stepT) : bool := was_src prod x (snd s).
Definition count_steps (prod : bool) (x : Z) (h : list stepT) : Z := countf (srcb prod x) h.
Fixpoint streak_steps (prod : bool) (x : Z) (h : list stepT) : Z :=
  match h with
  | [] => 0
  | s :: h' => if srcb prod x s then 1 + streak_steps prod x h'
               else if memz x (fst s) then 0 else streak_steps prod x h'
  end.

Lemma countf_app {A} (f : A -> bool) l1 l2 : countf f (l1 ++ l2) = countf f l1 + countf f l2.
Proof. unfold countf. rewrite filter_app, app_length. lia. Qed.
Lemma countf_nonneg {A} (f : A -> bool) l : 0 <= countf f l.
Proof. unfold countf. lia. Qed.
Lemma countf_cons {A} (f : A -> bool) a l : countf f (a :: l) = (if f a then 1 else 0) + countf f l.
Proof. unfold countf. cbn [filter]. destruct (f a); cbn [length]; lia. Qed.
Lemma countf_rev {A} (f : A -> bool) l : countf f (rev l) = countf f l.
Proof.
  induction l as [|a l IH]; [reflexivity|]. cbn [rev]. rewrite countf_app, IH, !countf_cons.
  unfold countf at 2. cbn [filter length]. lia.
Qed.
Lemma countf_zero {A} (f : A -> bool) l : (forall a, In a l -> f a = false) -> countf f l = 0.
Proof.
  induction l as [|a l IH]; intros H; [reflexivity|]. rewrite countf_cons, (H a (or_introl eq_refl)).
  rewrite IH; [reflexivity|]. intros b Hb. apply H. right; exact Hb.
Qed.

Lemma count_steps_nonneg prod x h : 0 <= count_steps prod x h.
Proof. apply countf_nonneg. Qed.
Lemma count_steps_src prod x (t : stepT) h :
  was_src prod x (snd t) = true -> count_steps prod x (t :: h) = 1 + count_steps prod x h.
Proof. intros H. unfold count_steps. rewrite countf_cons. unfold srcb at 1. rewrite H. reflexivity. Qed.
Lemma streak_steps_nonneg prod x h : 0 <= streak_steps prod x h.
Proof.
  induction h as [|s h IH]; cbn [streak_steps]; [lia|].
  destruct (srcb prod x s); [lia|]. destruct (memz x (fst s)); lia.
Qed.
Lemma streak_steps_src prod x (t : stepT) h :
  was_src prod x (snd t) = true -> streak_steps prod x (t :: h) = 1 + streak_steps prod x h.
Proof. intros H. cbn [streak_steps]. unfold srcb. rewrite H. reflexivity. Qed.

Lemma memz_in x l : memz x l = true <-> In x l.
Proof.
  unfold memz. rewrite existsb_exists. split.
  - intros [y [Hy E]]. apply Z.eqb_eq in E. subst y. exact Hy.
  - intros H. exists x. split; [exact H|apply Z.eqb_refl].
Qed.
Lemma memz_false x l : memz x l = false <-> ~ In x l.
Proof.
  rewrite <- memz_in. destruct (memz x l); split; intros H.
  - discriminate.
  - exfalso. apply H. reflexivity.
  - intros H'. discriminate.
  - reflexivity.
Qed.

Lemma was_src_in prod x tbl : was_src prod x tbl = true -> In x (map rid tbl).
Proof.
  unfold was_src. destruct (find_row x tbl) as [r|] eqn:E; [|discriminate]. intros _.
  destruct (find_row_some _ _ _ E) as [H1 H2]. subst x. apply in_map. exact H1.
Qed.

(* ---------------------------------------------------------------- forgetNonSourceNodes *)
Lemma dget_forget pool src m x :
  dget x (forget pool src m) = if negb (memz x pool) || memz x (map rid src) then dget x m else None.
Proof.
  unfold forget. induction m as [|[k d] t IH]; cbn [filter dget fst].
  - destruct (_ || _); reflexivity.
  - destruct (negb (memz k pool) || memz k (map rid src)) eqn:Ek; cbn [dget].
    + destruct (k =? x) eqn:E; [|exact IH]. apply Z.eqb_eq in E. subst k. rewrite Ek. reflexivity.
    + rewrite IH. destruct (k =? x) eqn:E; [|reflexivity]. apply Z.eqb_eq in E. subst k. rewrite Ek. reflexivity.
Qed.

Lemma dget_forget_some pool src m x d :
  dget x (forget pool src m) = Some d -> (~ In x pool \/ In x (map rid src)) /\ dget x m = Some d.
Proof.
  rewrite dget_forget. destruct (negb (memz x pool) || memz x (map rid src)) eqn:E; [|discriminate].
  intros H. split; [|exact H]. apply orb_true_iff in E. destruct E as [E|E].
  - left. apply memz_false. apply negb_true_iff. exact E.
  - right. apply memz_in. exact E.
Qed.

(* ---------------------------------------------------------------- instance 1: all earlier source steps *)
Lemma count_det_mono kof prod h t x d :
  det_inv kof count_steps prod h x d -> det_inv kof count_steps prod (t :: h) x d.
Proof.
  unfold det_inv, count_steps. rewrite countf_cons. intros [H1 [H2 H3]].
  split; [exact H1|]. split; intros H; [specialize (H2 H)|specialize (H3 H)];
    destruct (srcb prod x t); lia.
Qed.

Lemma count_pre kof fx ids tbl h ds :
  dstate_inv kof count_steps h ds -> pre_inv kof count_steps ids tbl h (pre_round fx ids tbl ds).
Proof.
  intros [Hn Hp] prod x d Hd.
  assert (det_inv kof count_steps prod h x d) as H.
  { destruct fx; cbn [pre_round fst snd] in Hd.
    - destruct prod; apply dget_forget_some in Hd; destruct Hd as [_ Hd]; [apply Hp|apply Hn]; exact Hd.
    - destruct prod; [apply Hp|apply Hn]; exact Hd. }
  split; intros _; [exact H|apply count_det_mono; exact H].
Qed.

(* ---------------------------------------------------------------- instance 2: consecutive steps *)
Lemma streak_pre kof ids tbl h ds :
  (forall r, In r tbl -> In (rid r) ids) ->
  dstate_inv kof streak_steps h ds -> pre_inv kof streak_steps ids tbl h (pre_round true ids tbl ds).
Proof.
  intros Hids [Hn Hp] prod x d Hd. cbn [pre_round fst snd] in Hd.
  assert (det_inv kof streak_steps prod h x d /\
          (~ In x ids \/ In x (map rid (filter (has_cls (src_cls prod)) tbl)))) as [H Hc].
  { destruct prod; apply dget_forget_some in Hd; destruct Hd as [Hc Hd]; cbn [src_cls];
      (split; [|exact Hc]); [apply Hp|apply Hn]; exact Hd. }
  split; [intros _; exact H|]. intros Hns. destruct Hc as [Hc|Hc]; [|contradiction].
  (* the step did not look at x: its streak is unchanged *)
  unfold det_inv in *. cbn [streak_steps]. unfold srcb. cbn [fst snd].
  assert (was_src prod x tbl = false) as ->.
  { destruct (was_src prod x tbl) eqn:E; [|reflexivity]. exfalso. apply Hc.
    apply was_src_in in E. apply in_map_iff in E. destruct E as [r [<- Hr]]. apply Hids. exact Hr. }
  apply memz_false in Hc. rewrite Hc. exact H.
Qed.

(* ---------------------------------------------------------------- along a multi-pool history *)
Section MultiMu.
Variable kof : Z -> Z.
Variable mu : bool -> Z -> list stepT -> Z.
Hypothesis mu_nonneg : forall prod x h, 0 <= mu prod x h.
Hypothesis mu_src : forall prod x (t : stepT) h, was_src prod x (snd t) = true -> mu prod x (t :: h) = 1 + mu prod x h.
Variable fx fxp : bool.
Variable bc : list cfg.
Variable ns : list nstat.
Hypothesis Hpre : forall ids tbl h ds,
  (forall r, In r tbl -> In (rid r) ids) ->
  dstate_inv kof mu h ds -> pre_inv kof mu ids tbl h (pre_round fx ids tbl ds).
(* the table rows of a pool are nodes of that pool *)
Hypothesis Hkof : forall c processed rs r,
  In c bc -> In r (table_of c (pool_nodes fxp c processed ns rs)) -> kof (rid r) = cK c.

(* the gate facts collected along the pool steps of a Balance call *)
Fixpoint steps_mu (L : list (ptab * list ev)) (h : list stepT) : Prop :=
  match L with
  | [] => True
  | (pt, evs) :: t =>
    gate_mu (pt_cfg pt) mu h (pt_tbl pt) evs /\ steps_mu t ((pt_ids pt, pt_tbl pt) :: h)
  end.

Lemma pool_step_mu c rs processed ds h :
  wf_round rs = true -> In c bc -> dstate_inv kof mu h ds ->
  let res := pool_step fx fxp c ns rs processed ds in
  gate_mu (pt_cfg (fst (fst res))) mu h (pt_tbl (fst (fst res))) (snd (fst res)) /\
  dstate_inv kof mu ((pt_ids (fst (fst res)), pt_tbl (fst (fst res))) :: h) (snd (snd res)).
Proof.
  intros Hwf Hc Hinv. unfold pool_step.
  set (pool := pool_nodes fxp c processed ns rs). set (ids := map mid pool). set (tbl := table_of c pool).
  set (ps := Z.of_nat (length ids)). set (ds0 := pre_round fx ids tbl ds).
  assert (tbl_wf c tbl) as Htw by (apply table_wf; exact Hwf).
  assert (forall r, In r tbl -> In (rid r) ids) as Hids by (intros r Hr; apply (table_of_ids c pool r Hr)).
  destruct (process_pool_gate c kof mu mu_nonneg mu_src ids tbl ps ds0 h Htw
              (fun r Hr => Hkof c processed rs r Hc Hr) (Hpre ids tbl h ds Hids Hinv)) as [Hi Hg].
  destruct (process_pool c tbl ps ds0) as [evs ds']. cbn zeta. cbn [fst snd pt_cfg pt_tbl pt_ids].
  split; assumption.
Qed.

Lemma pools_run_mu rs : wf_round rs = true -> forall l processed ds h,
  incl l bc -> dstate_inv kof mu h ds ->
  steps_mu (fst (pools_run fx fxp l ns rs processed ds)) h /\
  dstate_inv kof mu (rev (steps_of (map fst (fst (pools_run fx fxp l ns rs processed ds)))) ++ h)
             (snd (pools_run fx fxp l ns rs processed ds)).
Proof.
  intros Hwf. induction l as [|c t IH]; intros processed ds h Hincl Hinv; cbn [pools_run].
  - cbn. split; [exact I|exact Hinv].
  - pose proof (pool_step_mu c rs processed ds h Hwf (Hincl c (or_introl eq_refl)) Hinv) as Hs.
    destruct (pool_step fx fxp c ns rs processed ds) as [[pt evs] [processed' ds']].
    cbn zeta in Hs. cbn [fst snd] in Hs. destruct Hs as [Hg Hi].
    assert (incl t bc) as Hincl' by (intros a Ha; apply Hincl; right; exact Ha).
    specialize (IH processed' ds' ((pt_ids pt, pt_tbl pt) :: h) Hincl' Hi).
    destruct (pools_run fx fxp t ns rs processed' ds') as [l' ds'']. cbn [fst snd] in *.
    destruct IH as [I1 I2]. cbn [steps_mu map steps_of rev fst]. split; [split; assumption|].
    unfold steps_of in *. cbn [map rev]. rewrite <- app_assoc. exact I2.
Qed.

Fixpoint rounds_mu (res : list (list (ptab * list ev) * dstate)) (h : list stepT) : Prop :=
  match res with
  | [] => True
  | (L, _) :: t => steps_mu L h /\ rounds_mu t (rev (steps_of (map fst L)) ++ h)
  end.

Theorem run_gen_mu : forall rounds ds h,
  wf_rounds rounds = true -> dstate_inv kof mu h ds ->
  rounds_mu (run_gen fx fxp bc ns rounds ds) h.
Proof.
  induction rounds as [|rs t IH]; intros ds h Hwf Hinv; cbn [run_gen rounds_mu]; [exact I|].
  unfold wf_rounds in Hwf. cbn [forallb] in Hwf. apply andb_true_iff in Hwf. destruct Hwf as [Hw1 Hw2].
  unfold balance_gen.
  destruct (pools_run_mu rs Hw1 bc [] ds h (incl_refl bc) Hinv) as [H1 H2].
  destruct (pools_run fx fxp bc ns rs [] ds) as [L ds']. cbn [fst snd rounds_mu] in *.
  split; [exact H1|]. apply IH; assumption.
Qed.
End MultiMu.

Lemma dstate_inv_init kof mu : dstate_inv kof mu [] ([], []).
Proof. split; intros x d H; discriminate. Qed.

(* ---------------------------------------------------------------- from pool steps to rounds *)
(* the pools of a round look at pairwise different nodes, and a pool's table rows are nodes of
   that pool *)
Definition round_wf (R : list stepT) : Prop :=
  NoDup (concat (map fst R)) /\ forall s r, In s R -> In r (snd s) -> In (rid r) (fst s).

Definition flat (hist : list (list stepT)) : list stepT := concat (map (@rev stepT) hist).

Lemma NoDup_app_r {A} (l1 l2 : list A) : NoDup (l1 ++ l2) -> NoDup l2.
Proof. induction l1 as [|a l1 IH]; cbn [app]; intros H; [exact H|]. inversion H; subst. apply IH. assumption. Qed.

Lemma round_wf_tail s R : round_wf (s :: R) -> round_wf R.
Proof.
  intros [H1 H2]. split.
  - cbn [map concat] in H1. apply NoDup_app_r in H1. exact H1.
  - intros s' r Hs Hr. apply (H2 s' r); [right; exact Hs|exact Hr].
Qed.
Lemma round_wf_head_excl s R x :
  round_wf (s :: R) -> In x (fst s) -> forall s', In s' R -> ~ In x (fst s').
Proof.
  intros [H1 _] Hx s' Hs' Hx'. cbn [map concat] in H1.
  assert (In x (concat (map fst R))) as Hc.
  { apply in_concat. exists (fst s'). split; [apply in_map; exact Hs'|exact Hx']. }
  revert H1 Hx Hc. generalize (concat (map fst R)). generalize (fst s).
  induction l as [|a l IH]; intros l' Hnd Hx Hc; [destruct Hx|].
  cbn [app] in Hnd. inversion Hnd as [|? ? Hni Hnd']; subst.
  destruct Hx as [->|Hx]; [apply Hni; apply in_or_app; right; exact Hc|eapply IH; eauto].
Qed.

Lemma srcb_in prod x s R : round_wf R -> In s R -> srcb prod x s = true -> In x (fst s).
Proof.
  intros [_ H2] Hs Hb. unfold srcb in Hb. apply was_src_in in Hb. apply in_map_iff in Hb.
  destruct Hb as [r [<- Hr]]. apply (H2 s r Hs Hr).
Qed.

Lemma not_in_round x (R : list stepT) :
  (forall s, In s R -> ~ In x (fst s)) -> in_round x R = false.
Proof.
  intros H. unfold in_round. destruct (existsb _ R) eqn:E; [|reflexivity].
  apply existsb_exists in E. destruct E as [s [Hs Hm]]. apply memz_in in Hm. exfalso. exact (H s Hs Hm).
Qed.
Lemma not_src_round prod x (R : list stepT) :
  (forall s, In s R -> srcb prod x s = false) -> was_src_r prod x R = false.
Proof.
  intros H. unfold was_src_r. destruct (existsb _ R) eqn:E; [|reflexivity].
  apply existsb_exists in E. destruct E as [s [Hs Hm]]. fold (srcb prod x s) in Hm. rewrite (H s Hs) in Hm. discriminate.
Qed.

(* in a well-formed round a node is a source in at most one pool *)
Lemma count_round prod x R : round_wf R ->
  count_steps prod x R = if was_src_r prod x R then 1 else 0.
Proof.
  induction R as [|s R IH]; intros Hwf; [reflexivity|].
  unfold count_steps in *. rewrite countf_cons. unfold was_src_r in *. cbn [existsb]. fold (srcb prod x s).
  destruct (srcb prod x s) eqn:E; cbn [orb].
  - rewrite countf_zero; [reflexivity|]. intros s' Hs'.
    destruct (srcb prod x s') eqn:E'; [|reflexivity]. exfalso.
    apply (round_wf_head_excl s R x Hwf (srcb_in prod x s (s :: R) Hwf (or_introl eq_refl) E) s' Hs').
    apply (srcb_in prod x s' (s :: R) Hwf (or_intror Hs') E').
  - rewrite (IH (round_wf_tail s R Hwf)). reflexivity.
Qed.

Lemma count_flat prod x hist :
  (forall R, In R hist -> round_wf R) -> count_steps prod x (flat hist) = count_src prod x hist.
Proof.
  induction hist as [|R hist IH]; intros Hwf; [reflexivity|].
  unfold flat, count_steps, count_src in *. cbn [map concat]. rewrite countf_app, countf_rev.
  rewrite (countf_cons (was_src_r prod x)).
  fold (count_steps prod x R). rewrite (count_round prod x R (Hwf R (or_introl eq_refl))).
  rewrite IH; [reflexivity|]. intros R' H'. apply Hwf. right; exact H'.
Qed.

Lemma streak_skip prod x l h :
  (forall s, In s l -> srcb prod x s = false /\ ~ In x (fst s)) ->
  streak_steps prod x (l ++ h) = streak_steps prod x h.
Proof.
  induction l as [|s l IH]; intros H; [reflexivity|]. cbn [app streak_steps].
  destruct (H s (or_introl eq_refl)) as [H1 H2]. rewrite H1. apply memz_false in H2. rewrite H2.
  apply IH. intros s' Hs'. apply H. right; exact Hs'.
Qed.

Lemma streak_round prod x R : round_wf R -> forall h,
  streak_steps prod x (rev R ++ h) =
    if was_src_r prod x R then 1 + streak_steps prod x h
    else if in_round x R then 0 else streak_steps prod x h.
Proof.
  induction R as [|s R IH]; intros Hwf h; [reflexivity|].
  cbn [rev]. rewrite <- app_assoc. cbn [app]. rewrite (IH (round_wf_tail s R Hwf)).
  unfold was_src_r, in_round. cbn [existsb]. fold (srcb prod x s).
  fold (was_src_r prod x R). fold (in_round x R).
  destruct (was_src_r prod x R) eqn:E1.
  - (* a later pool has x as a source: s does not look at x *)
    unfold was_src_r in E1. apply existsb_exists in E1. destruct E1 as [s' [Hs' Hb]]. fold (srcb prod x s') in Hb.
    pose proof (srcb_in prod x s' (s :: R) Hwf (or_intror Hs') Hb) as Hx'.
    assert (~ In x (fst s)) as Hn by (intros Hx; exact (round_wf_head_excl s R x Hwf Hx s' Hs' Hx')).
    assert (srcb prod x s = false) as Hsb.
    { destruct (srcb prod x s) eqn:E; [|reflexivity]. exfalso. apply Hn.
      apply (srcb_in prod x s (s :: R) Hwf (or_introl eq_refl) E). }
    rewrite Hsb. cbn [orb streak_steps]. rewrite Hsb. apply memz_false in Hn. rewrite Hn. reflexivity.
  - destruct (in_round x R) eqn:E2.
    + unfold in_round in E2. apply existsb_exists in E2. destruct E2 as [s' [Hs' Hm]]. apply memz_in in Hm.
      assert (~ In x (fst s)) as Hn by (intros Hx; exact (round_wf_head_excl s R x Hwf Hx s' Hs' Hm)).
      assert (srcb prod x s = false) as Hsb.
      { destruct (srcb prod x s) eqn:E; [|reflexivity]. exfalso. apply Hn.
        apply (srcb_in prod x s (s :: R) Hwf (or_introl eq_refl) E). }
      rewrite Hsb. apply memz_false in Hn. rewrite Hn. reflexivity.
    + cbn [orb streak_steps]. rewrite !orb_false_r. reflexivity.
Qed.

Lemma streak_flat prod x hist :
  (forall R, In R hist -> round_wf R) -> streak_steps prod x (flat hist) = streak_src prod x hist.
Proof.
  induction hist as [|R hist IH]; intros Hwf; [reflexivity|].
  unfold flat in *. cbn [map concat streak_src]. rewrite (streak_round prod x R (Hwf R (or_introl eq_refl))).
  rewrite IH; [reflexivity|]. intros R' H'. apply Hwf. right; exact H'.
Qed.

(* the step history seen by a pool of the current round: the earlier pools of this round
   ([pre], in pool order) on top of the earlier rounds *)
Lemma count_here prod x pre hist :
  (forall s, In s pre -> ~ In x (fst s)) -> (forall s r, In s pre -> In r (snd s) -> In (rid r) (fst s)) ->
  (forall R, In R hist -> round_wf R) ->
  count_steps prod x (rev pre ++ flat hist) = count_src prod x hist.
Proof.
  intros Hpre Hsub Hwf. unfold count_steps. rewrite countf_app, countf_rev.
  rewrite countf_zero.
  - fold (count_steps prod x (flat hist)). rewrite (count_flat prod x hist Hwf). lia.
  - intros s Hs. destruct (srcb prod x s) eqn:E; [|reflexivity]. exfalso. apply (Hpre s Hs).
    unfold srcb in E. apply was_src_in in E. apply in_map_iff in E. destruct E as [r [<- Hr]].
    apply (Hsub s r Hs Hr).
Qed.
Lemma streak_here prod x pre hist :
  (forall s, In s pre -> ~ In x (fst s)) -> (forall s r, In s pre -> In r (snd s) -> In (rid r) (fst s)) ->
  (forall R, In R hist -> round_wf R) ->
  streak_steps prod x (rev pre ++ flat hist) = streak_src prod x hist.
Proof.
  intros Hpre Hsub Hwf. rewrite streak_skip; [apply streak_flat; exact Hwf|].
  intros s Hs. apply in_rev in Hs. split; [|apply Hpre; exact Hs].
  destruct (srcb prod x s) eqn:E; [|reflexivity]. exfalso. apply (Hpre s Hs).
  unfold srcb in E. apply was_src_in in E. apply in_map_iff in E. destruct E as [r [<- Hr]].
  apply (Hsub s r Hs Hr).
Qed.
