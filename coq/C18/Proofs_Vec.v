(* C18 — proofs, part 0: vectors, dimensions of the table rows, monotonicity of the tests. *)
From Coq Require Import String List ZArith Bool Lia.
From Verif Require Import C18.Model C18.Spec.
Import ListNotations.
Open Scope Z_scope.

Fixpoint vle (a b : vec) : Prop :=
  match a, b with
  | x :: a', y :: b' => x <= y /\ vle a' b'
  | [], [] => True
  | _, _ => False
  end.
Definition vnonneg (v : vec) : Prop := Forall (fun x => 0 <= x) v.

Lemma vle_refl a : vle a a.
Proof. induction a; cbn; [exact I|split; [lia|assumption]]. Qed.
Lemma vle_trans a : forall b d, vle a b -> vle b d -> vle a d.
Proof.
  induction a as [|x a IH]; intros [|y b] [|z d]; cbn; try tauto.
  intros [H1 H2] [H3 H4]. split; [lia|eapply IH; eauto].
Qed.
Lemma vsub_vle a : forall q, length q = length a -> vnonneg q -> vle (vsub a q) a.
Proof.
  induction a as [|x a IH]; intros [|y q] Hl Hq; cbn in *; try discriminate; [exact I|].
  inversion Hq; subst. split; [lia|apply IH; [lia|assumption]].
Qed.
Lemma over_mono t : forall u u', vle u' u -> over u' t = true -> over u t = true.
Proof.
  unfold over. induction t as [|y t IH]; intros [|x u] [|x' u'] Hle; cbn in *; try tauto; try discriminate.
  destruct Hle as [H1 H2]. intros H. apply orb_true_iff in H. apply orb_true_iff.
  destruct H as [H|H]; [left; apply Z.ltb_lt in H; apply Z.ltb_lt; lia|right; eapply IH; eauto].
Qed.
Lemma all_pos_mono : forall v v', vle v' v -> all_pos v' = true -> all_pos v = true.
Proof.
  unfold all_pos. induction v as [|x v IH]; intros [|x' v'] Hle; cbn in *; try tauto.
  destruct Hle as [H1 H2]. intros H. apply andb_true_iff in H. destruct H as [Ha Hb].
  apply andb_true_iff. split; [apply Z.ltb_lt in Ha; apply Z.ltb_lt; lia|eapply IH; eauto].
Qed.

Lemma uget_uset x y v m : uget x (uset y v m) = if y =? x then v else uget x m.
Proof.
  induction m as [|[k v0] t IH]; cbn [uset uget].
  - reflexivity.
  - destruct (k =? y) eqn:E1.
    + apply Z.eqb_eq in E1. subst k. cbn [uget]. destruct (y =? x); reflexivity.
    + cbn [uget]. destruct (k =? x) eqn:E2.
      * apply Z.eqb_eq in E2. subst k. rewrite Z.eqb_sym, E1. reflexivity.
      * exact IH.
Qed.


(* ---------------------------------------------------------------- dimensions *)
Lemma vmap2_length f : forall a b, length a = length b -> length (vmap2 f a b) = length a.
Proof.
  induction a as [|x a IH]; intros [|y b] H; cbn in *; try discriminate; [reflexivity|].
  f_equal. apply IH. lia.
Qed.

Lemma proj_length {A} (m : list bool) : forall (v : list A), length m = length v ->
  length (proj m v) = length (filter (fun b => b) m).
Proof.
  induction m as [|b m IH]; intros [|x v] H; cbn in *; try discriminate; [reflexivity|].
  destruct b; cbn [length]; [f_equal|]; apply IH; lia.
Qed.

Lemma active_length c : length (active c) = 3%nat.
Proof.
  unfold active. destruct (cthr c) as [|a [|b [|d [|e t]]]]; reflexivity.
Qed.

Lemma proj3_length c (v : list Z) : length v = 3%nat -> length (proj (active c) v) = dims c.
Proof. intros H. unfold dims. apply proj_length. rewrite active_length, H. reflexivity. Qed.

Definition row_dims (d : nat) (r : row) : Prop :=
  length (ruse r) = d /\ length (rpuse r) = d /\ length (rhigh r) = d /\ length (rphigh r) = d.
Definition tbl_dims (d : nat) (tbl : list row) : Prop := forall r, In r tbl -> row_dims d r.

Lemma mk_row_dims c a p m : row_dims (dims c) (mk_row c a p m).
Proof.
  unfold row_dims, mk_row. cbn [ruse rpuse rhigh rphigh].
  repeat split; apply proj3_length; reflexivity.
Qed.
Lemma table_dims c pool : tbl_dims (dims c) (table_of c pool).
Proof.
  unfold table_of. intros r Hr. apply in_map_iff in Hr. destruct Hr as [m [<- _]]. apply mk_row_dims.
Qed.

Lemma vsum_length d l : (forall v, In v l -> length v = d) -> length (vsum d l) = d.
Proof.
  unfold vsum. assert (length (vzero d) = d) as H0 by apply repeat_length.
  revert H0. generalize (vzero d). induction l as [|v l IH]; intros acc Ha Hl; cbn [fold_left]; [exact Ha|].
  apply IH; [|intros w Hw; apply Hl; right; exact Hw].
  unfold vadd. rewrite vmap2_length; [exact Ha|]. rewrite Ha. symmetry. apply Hl. left; reflexivity.
Qed.

Lemma headroom_length d prod r : row_dims d r -> length (headroom prod r) = d.
Proof.
  intros [H1 [H2 [H3 H4]]]. unfold headroom, vsub, r_high, r_use.
  destruct prod; rewrite vmap2_length; congruence.
Qed.

Lemma node_avail_length d tbl : tbl_dims d tbl -> length (node_avail d tbl) = d.
Proof.
  intros H. unfold node_avail. apply vsum_length. intros v Hv. apply in_map_iff in Hv.
  destruct Hv as [r [<- Hr]]. apply headroom_length. apply H. unfold node_targets in Hr.
  apply in_app_or in Hr. destruct Hr as [Hr|Hr]; apply filter_In in Hr; apply Hr.
Qed.

Lemma prod_avail_length d tbl left : tbl_dims d tbl -> length left = d -> length (prod_avail d tbl left) = d.
Proof.
  intros H Hl. unfold prod_avail.
  assert (forall k pr, length (vsum d (map (headroom pr) (filter (has_cls k) tbl))) = d) as Hs.
  { intros k pr. apply vsum_length. intros v Hv. apply in_map_iff in Hv. destruct Hv as [r [<- Hr]].
    apply headroom_length. apply H. apply filter_In in Hr. apply Hr. }
  assert (forall f a b, length a = d -> length b = d -> length (vmap2 f a b) = d) as Hm
    by (intros f a b Ha Hb; rewrite vmap2_length; congruence).
  unfold vadd, vmin. apply Hm; [apply Hs|]. apply Hm; [apply Hs|]. apply Hm; [apply Hs|exact Hl].
Qed.


Definition pods_nonneg (tbl : list row) : Prop :=
  forall r p, In r tbl -> In p (rall r) -> 0 <= pcpu p /\ 0 <= pmem p.

Lemma proj_Forall {A} (P : A -> Prop) (m : list bool) : forall v, Forall P v -> Forall P (proj m v).
Proof.
  induction m as [|b m IH]; intros v Hv; destruct v as [|x v]; cbn [proj]; try constructor.
  inversion Hv; subst. destruct b; [constructor; [assumption|]|]; apply IH; assumption.
Qed.

Lemma pdec_props c p : 0 <= pcpu p -> 0 <= pmem p -> vnonneg (pdec c p) /\ length (pdec c p) = dims c.
Proof.
  intros H1 H2. unfold pdec. split; [|apply proj3_length; reflexivity].
  apply proj_Forall. unfold pdec3. repeat constructor; lia.
Qed.


(* ---------------------------------------------------------------- reservations only add *)
Lemma vle_length a : forall b, vle a b -> length a = length b.
Proof.
  induction a as [|x a IH]; intros [|y b]; cbn; try tauto. intros [_ H]. f_equal. apply IH. exact H.
Qed.
Lemma vadd_vle_mono q : forall a b, vle a b -> vle (vadd a q) (vadd b q).
Proof.
  unfold vadd. induction q as [|z q IH]; intros [|x a] [|y b]; cbn; try tauto.
  intros [H1 H2]. split; [lia|apply IH; exact H2].
Qed.
Lemma vle_vadd_nonneg a : forall q, length q = length a -> vnonneg q -> vle a (vadd a q).
Proof.
  unfold vadd. induction a as [|x a IH]; intros [|z q] Hl Hq; cbn in *; try discriminate; [exact I|].
  inversion Hq; subst. split; [lia|apply IH; [lia|assumption]].
Qed.

Lemma pfit_props c p : 0 <= pcpu p -> 0 <= pmem p -> vnonneg (pfit c p) /\ length (pfit c p) = dims c.
Proof.
  intros H1 H2. unfold pfit. split; [|apply proj3_length; reflexivity].
  apply proj_Forall. repeat constructor; lia.
Qed.

Lemma uget_init prod tbl x :
  uget x (init_umap prod tbl) = match find_row x tbl with Some r => r_use prod r | None => [] end.
Proof.
  unfold init_umap. induction tbl as [|a t IH]; cbn [map uget find_row]; [reflexivity|].
  destruct (rid a =? x); [reflexivity|exact IH].
Qed.
