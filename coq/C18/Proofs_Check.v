(* C18 — proofs, part 4: the decision procedure decides the Prop; consequences. *)
From Coq Require Import String List ZArith Bool Lia.
From Verif Require Import C18.Model C18.Spec C18.Proofs_Vec C18.Proofs_Pass C18.Proofs_Round C18.Proofs_Gate
  C18.Proofs_Steps C18.Proofs_Multi.
Import ListNotations.
Open Scope Z_scope.

Lemma check_round_from_sound c tbl psize um pum evs :
  check_round_from c tbl psize um pum evs = 0 -> round_holds_from c tbl psize um pum evs.
Proof.
  unfold check_round_from, round_holds_from.
  destruct (cdry c && negb (is_nil evs)) eqn:E1; [discriminate|].
  destruct (nothing_cond tbl psize && negb (is_nil evs)) eqn:E2; [discriminate|].
  destruct (forallb (fun e => ev_in tbl false e || ev_in tbl true e) evs) eqn:E3; cbn [negb]; [|discriminate].
  destruct (check_pass c tbl false (filter (ev_in tbl false) evs)
              (um, node_avail (dims c) tbl)) as [k1 st1] eqn:E4.
  destruct (k1 =? 0) eqn:E5; cbn [negb]; [|intros ->; discriminate].
  apply Z.eqb_eq in E5. subst k1. intros H.
  split.
  { intros Hd. rewrite Hd in E1. cbn [andb] in E1. apply negb_false_iff in E1. apply is_nil_true. exact E1. }
  split.
  { intros Hn. rewrite Hn in E2. cbn [andb] in E2. apply negb_false_iff in E2. apply is_nil_true. exact E2. }
  split.
  { intros e He. rewrite forallb_forall in E3. apply orb_true_iff. apply E3. exact He. }
  apply check_pass_code0 in H. destruct H as [st2 H].
  exists st1, st2. split; apply check_pass_sound; assumption.
Qed.

Lemma check_round_from_complete c tbl psize um pum evs :
  round_holds_from c tbl psize um pum evs -> check_round_from c tbl psize um pum evs = 0.
Proof.
  unfold check_round_from, round_holds_from. intros [H1 [H2 [H3 [stN [stP [H4 H5]]]]]].
  destruct (cdry c) eqn:Ed; cbn [andb].
  { rewrite (H1 eq_refl). cbn. destruct (nothing_cond tbl psize); reflexivity. }
  destruct (nothing_cond tbl psize) eqn:En; cbn [andb].
  { rewrite (H2 eq_refl). reflexivity. }
  assert (forallb (fun e => ev_in tbl false e || ev_in tbl true e) evs = true) as ->.
  { apply forallb_forall. intros e He. apply orb_true_iff. apply H3. exact He. }
  cbn [negb].
  rewrite (check_pass_complete c tbl false _ _ _ H4). cbn [negb Z.eqb snd].
  rewrite (check_pass_complete c tbl true _ _ _ H5). reflexivity.
Qed.

Lemma check_round_sound c tbl psize evs :
  check_round c tbl psize evs = 0 -> round_holds c tbl psize evs.
Proof. apply check_round_from_sound. Qed.
Lemma check_round_complete c tbl psize evs :
  round_holds c tbl psize evs -> check_round c tbl psize evs = 0.
Proof. apply check_round_from_complete. Qed.

Lemma gate_ok_iff c h tbl evs : gate_ok c h tbl evs = true <-> gate_holds c h tbl evs.
Proof.
  unfold gate_ok, gate_holds. destruct (gating c); cbn [negb orb].
  - rewrite forallb_forall. split.
    + intros H _ e He. apply Z.leb_le. apply H. exact He.
    + intros H e He. apply Z.leb_le. apply H; [reflexivity|exact He].
  - split; [intros _ H; discriminate|reflexivity].
Qed.
Lemma strict_gate_ok_iff c h tbl evs : strict_gate_ok c h tbl evs = true <-> strict_gate_holds c h tbl evs.
Proof.
  unfold strict_gate_ok, strict_gate_holds. destruct (gating c); cbn [negb orb].
  - rewrite forallb_forall. split.
    + intros H _ e He. apply Z.leb_le. apply H. exact He.
    + intros H e He. apply Z.leb_le. apply H; [reflexivity|exact He].
  - split; [intros _ H; discriminate|reflexivity].
Qed.

(* one segment *)
Lemma seg_ok_iff strict pt cum hist seg : seg_ok strict pt cum hist seg = true <-> seg_holds strict pt cum hist seg.
Proof.
  unfold seg_ok, seg_code, seg_holds.
  set (k := check_round_from _ _ _ _ _ seg).
  split.
  - intros H. apply Z.eqb_eq in H. destruct (k =? 0) eqn:Ek; cbn [negb] in H.
    2:{ destruct (check_round _ _ _ seg =? 0); [discriminate|]. rewrite H in Ek. discriminate. }
    apply Z.eqb_eq in Ek. destruct (gate_ok _ hist _ seg) eqn:Eg; cbn [negb] in H; [|discriminate].
    split; [apply check_round_from_sound; exact Ek|]. split; [apply gate_ok_iff; exact Eg|].
    intros ->. cbn [andb] in H. destruct (strict_gate_ok _ hist _ seg) eqn:Es; cbn [negb] in H; [|discriminate].
    apply strict_gate_ok_iff. exact Es.
  - intros [H1 [H2 H3]]. apply Z.eqb_eq. apply check_round_from_complete in H1. fold k in H1. rewrite H1.
    cbn [Z.eqb negb]. apply gate_ok_iff in H2. rewrite H2. cbn [negb].
    destruct strict; cbn [andb]; [|reflexivity].
    specialize (H3 eq_refl). apply strict_gate_ok_iff in H3. rewrite H3. reflexivity.
Qed.

(* the pools of a Balance call: some split of the calls works *)
Lemma pools_ok_iff strict : forall pts cum hist evs,
  pools_ok strict pts cum hist evs = true <-> pools_hold strict pts cum hist evs.
Proof.
  induction pts as [|pt t IH]; intros cum hist evs; cbn [pools_ok pools_hold].
  - apply is_nil_true.
  - rewrite existsb_exists. split.
    + intros [k [_ H]]. apply andb_true_iff in H. destruct H as [H1 H2].
      exists (firstn k evs), (skipn k evs). split; [symmetry; apply firstn_skipn|].
      split; [apply seg_ok_iff; exact H1|apply IH; exact H2].
    + intros [seg [rest [-> [H1 H2]]]]. exists (length seg). split.
      * apply in_seq. rewrite app_length. lia.
      * rewrite firstn_app, Nat.sub_diag, firstn_all. cbn [firstn]. rewrite app_nil_r.
        rewrite skipn_app, Nat.sub_diag, skipn_all. cbn [skipn app].
        apply andb_true_iff. split; [apply seg_ok_iff; exact H1|apply IH; exact H2].
Qed.

Lemma hist_ok_iff strict : forall tbls obs h, hist_ok strict tbls obs h = true <-> hist_holds strict tbls obs h.
Proof.
  induction tbls as [|pts t IH]; intros [|evs ot] h; cbn [hist_ok hist_holds]; try tauto;
    try (split; [discriminate|intros []]).
  rewrite andb_true_iff, pools_ok_iff, IH. tauto.
Qed.

(* the strict reading implies the counting one *)
Lemma pools_hold_weaken : forall pts cum hist evs,
  pools_hold true pts cum hist evs -> pools_hold false pts cum hist evs.
Proof.
  induction pts as [|pt t IH]; intros cum hist evs; cbn [pools_hold]; [tauto|].
  intros [seg [rest [H1 [[A [B _]] H3]]]]. exists seg, rest. split; [exact H1|].
  split; [split; [exact A|split; [exact B|discriminate]]|apply IH; exact H3].
Qed.
Lemma hist_holds_weaken : forall tbls obs h, hist_holds true tbls obs h -> hist_holds false tbls obs h.
Proof.
  induction tbls as [|pts t IH]; intros [|evs ot] h; cbn [hist_holds]; try tauto.
  intros [H1 H2]. split; [apply pools_hold_weaken; exact H1|apply IH; exact H2].
Qed.

Lemma hist_code_nonzero : forall tbls obs h, hist_ok false tbls obs h = false -> hist_code tbls obs h <> 0.
Proof.
  induction tbls as [|pts t IH]; intros [|evs ot] h E2; cbn [hist_ok hist_code] in *; try discriminate.
  destruct (pools_ok false pts [] h evs); cbn [andb] in E2.
  - apply IH. exact E2.
  - destruct (pools_code pts [] h evs =? 0) eqn:Ek; [discriminate|]. intros H. rewrite H in Ek. discriminate.
Qed.

Theorem prop_code_iff tbls obs : prop_code tbls obs = 0 <-> C18_holds true tbls obs.
Proof.
  unfold prop_code, C18_holds. destruct (hist_ok true tbls obs []) eqn:E.
  - apply hist_ok_iff in E. tauto.
  - split.
    + destruct (hist_ok false tbls obs []) eqn:E2; [discriminate|].
      intros H. exfalso. exact (hist_code_nonzero tbls obs [] E2 H).
    + intros H. apply hist_ok_iff in H. congruence.
Qed.

(* ---------------------------------------------------------------- readable consequences *)

(* every Evict call of a valid pass: overloaded source at that moment, a target exists,
   headroom left, pod of the node passing the filters *)
Lemma valid_pass_event c tbl prod : forall st evs st', valid_pass c tbl prod st evs st' ->
  forall pre x pv post, evs = pre ++ (x, pv) :: post ->
  exists stm r p,
    valid_pass c tbl prod st pre stm /\
    find_row x tbl = Some r /\ rcls r = src_cls prod /\
    over (uget x (fst stm)) (r_high prod r) = true /\
    targets prod tbl <> [] /\ all_pos (snd stm) = true /\
    find_pod pv (r_pods prod r) = Some p /\ pfilt_ok p = true /\ fit_ok c prod tbl p = true.
Proof.
  induction 1 as [st|st x0 pv0 r p evs st' Hr Hc Ho Ht Ha Hp Hf Hfit Hv IH]; intros pre x pv post E.
  - destruct pre; discriminate.
  - destruct pre as [|e pre]; cbn [app] in E.
    + inversion E; subst. exists st, r, p. split; [constructor|].
      unfold node_over in Ho. destruct (find_row_some _ _ _ Hr) as [_ Hid]. rewrite Hid in Ho. tauto.
    + inversion E; subst. destruct (IH pre x pv post eq_refl) as [stm [r' [p' [Hv' H']]]].
      exists stm, r', p'. split; [eapply vp_cons; eauto|exact H'].
Qed.

(* no balancing in a pool in which nobody is overloaded, nobody is underused, or everybody is
   underused *)
Theorem nothing_when fx fxp bc ns rs ds q :
  wf_round rs = true -> In q (fst (balance_gen fx fxp bc ns rs ds)) ->
  nothing_cond (pt_tbl (fst q)) (pt_size (fst q)) = true -> snd q = [].
Proof.
  intros Hwf Hq Hn. unfold balance_gen in Hq.
  destruct (pools_run_steps fx fxp ns rs bc [] ds q Hq) as [c [_ Hst]].
  destruct (is_step_props fx fxp c ns rs q Hwf Hst) as [_ [_ [_ [[_ [H _]] _]]]].
  apply H. exact Hn.
Qed.

Theorem dry_run_silent fx fxp bc ns rs ds :
  wf_round rs = true -> (forall c, In c bc -> cdry c = true) ->
  evs_of (fst (balance_gen fx fxp bc ns rs ds)) = [].
Proof.
  intros Hwf Hd. unfold balance_gen, evs_of.
  pose proof (pools_run_steps fx fxp ns rs bc [] ds) as Hs.
  induction (fst (pools_run fx fxp bc ns rs [] ds)) as [|q L IH]; [reflexivity|]. cbn [map concat].
  destruct (Hs q (or_introl eq_refl)) as [c [Hc Hst]].
  destruct (is_step_props fx fxp c ns rs q Hwf Hst) as [_ [_ [_ [[H _] _]]]].
  rewrite (H (Hd c Hc)). cbn [app]. apply IH. intros q' Hq'. apply Hs. right; exact Hq'.
Qed.

(* ---------------------------------------------------------------- main theorems *)
(* pairwise disjoint pools: every variant of the code; strict gate for the variant with the anomaly repair *)
Theorem main_disjoint fx fxp bc ns rounds :
  wf_rounds rounds = true -> disjoint_pools bc ns = true ->
  C18_holds fx (tables fx fxp bc ns rounds) (observed (run_gen fx fxp bc ns rounds ([], []))).
Proof.
  intros Hwf Hd. unfold C18_holds, tables.
  apply (hist_holds_disjoint fx fxp bc ns Hd rounds ([], []) [] Hwf).
  - intros R [].
  - apply (run_gen_mu (kof bc ns) count_steps count_steps_nonneg count_steps_src fx fxp bc ns
             (fun ids tbl h ds _ H => count_pre (kof bc ns) fx ids tbl h ds H)
             (kof_ok fxp bc ns Hd) rounds ([], []) [] Hwf (dstate_inv_init _ _)).
  - intros ->.
    apply (run_gen_mu (kof bc ns) streak_steps streak_steps_nonneg streak_steps_src true fxp bc ns
             (streak_pre (kof bc ns))
             (kof_ok fxp bc ns Hd) rounds ([], []) [] Hwf (dstate_inv_init _ _)).
Qed.

(* overlapping pools, no anomaly gating, processedNodes repaired *)
Theorem main_repaired fx bc ns rounds :
  wf_rounds rounds = true -> no_gating bc = true ->
  C18_holds true (tables fx true bc ns rounds) (observed (run_gen fx true bc ns rounds ([], []))).
Proof. intros Hwf Hg. unfold C18_holds, tables. apply (hist_holds_repaired fx bc ns Hg rounds ([], []) [] Hwf). Qed.

(* overlapping pools, no anomaly gating, any variant: re-entry is the only way to fail *)
Theorem main_noreentry fx fxp bc ns rounds :
  wf_rounds rounds = true -> no_gating bc = true ->
  run_no_reentry (run_gen fx fxp bc ns rounds ([], [])) ->
  C18_holds true (tables fx fxp bc ns rounds) (observed (run_gen fx fxp bc ns rounds ([], []))).
Proof. intros Hwf Hg Hre. unfold C18_holds, tables. apply (hist_holds_noreentry fx fxp bc ns Hg rounds ([], []) [] Hwf Hre). Qed.

Theorem main_prop_code fxp bc ns rounds :
  wf_rounds rounds = true -> disjoint_pools bc ns = true ->
  prop_code (tables true fxp bc ns rounds) (observed (run_gen true fxp bc ns rounds ([], []))) = 0.
Proof. intros H1 H2. apply prop_code_iff. apply (main_disjoint true fxp bc ns rounds H1 H2). Qed.

Theorem main_prop_code_repaired fx bc ns rounds :
  wf_rounds rounds = true -> no_gating bc = true ->
  prop_code (tables fx true bc ns rounds) (observed (run_gen fx true bc ns rounds ([], []))) = 0.
Proof. intros H1 H2. apply prop_code_iff. apply (main_repaired fx bc ns rounds H1 H2). Qed.

(* ---------------------------------------------------------------- "only while it helps" *)
(* with non-negative pod usage the estimates only go down, so once the stop condition of a
   node holds it holds for the rest of the pass: "stops as soon as" = "never evicts once
   the condition is false" *)
(* the estimates of state [s'] are below those of [s] *)
Definition st_le (s' s : ustate) : Prop :=
  (forall x, uget x (fst s') = uget x (fst s) \/ vle (uget x (fst s')) (uget x (fst s))) /\
  vle (snd s') (snd s).

Lemma apply_ev_le c x p st :
  vnonneg (pdec c p) -> length (pdec c p) = length (uget x (fst st)) ->
  length (pdec c p) = length (snd st) -> st_le (apply_ev c x p st) st.
Proof.
  intros Hq Hl1 Hl2. unfold apply_ev, charge, st_le.
  destruct (pevok p && pmet p); [|split; [intros y; left; reflexivity|apply vle_refl]].
  cbn [fst snd]. split.
  - intros y. rewrite uget_uset. destruct (x =? y) eqn:E; [|left; reflexivity].
    apply Z.eqb_eq in E. subst y. right. apply vsub_vle; assumption.
  - apply vsub_vle; assumption.
Qed.

Lemma cont_mono prod r s s' : st_le s' s -> cont prod r s' = true -> cont prod r s = true.
Proof.
  unfold cont, node_over. intros [H1 H2] H. apply andb_true_iff in H. destruct H as [Ha Hb].
  apply andb_true_iff. split; [|eapply all_pos_mono; eauto].
  destruct (H1 (rid r)) as [E|E]; [rewrite <- E; exact Ha|eapply over_mono; eauto].
Qed.

(* ---------------------------------------------------------------- per-round view of a history *)
Lemma hist_holds_nth strict : forall tbls obs h i pts evs,
  hist_holds strict tbls obs h ->
  nth_error tbls i = Some pts -> nth_error obs i = Some evs ->
  pools_hold strict pts [] (rev (map steps_of (firstn i tbls)) ++ h) evs.
Proof.
  induction tbls as [|pts0 t IH]; intros obs h i pts evs H Ht Ho.
  - destruct i; discriminate.
  - destruct obs as [|evs0 ot]; cbn [hist_holds] in H; [contradiction|].
    destruct H as [H1 H2]. destruct i as [|i]; cbn [nth_error firstn map rev] in *.
    + inversion Ht; inversion Ho; subst. exact H1.
    + rewrite <- app_assoc. apply (IH ot (steps_of pts0 :: h) i pts evs H2 Ht Ho).
Qed.

(* every segment of a split is a valid round of its pool, from the estimates left by the earlier
   pools *)
Lemma pools_hold_seg strict : forall pts cum hist evs, pools_hold strict pts cum hist evs ->
  forall pt, In pt pts -> exists cum' seg, incl seg evs /\ seg_holds strict pt cum' hist seg.
Proof.
  induction pts as [|pt0 t IH]; intros cum hist evs H pt Hpt; [destruct Hpt|].
  cbn [pools_hold] in H. destruct H as [seg [rest [-> [H1 H2]]]]. destruct Hpt as [<-|Hpt].
  - exists cum, seg. split; [apply incl_appl; apply incl_refl|exact H1].
  - destruct (IH _ _ _ H2 pt Hpt) as [cum' [seg' [Hi Hs]]]. exists cum', seg'.
    split; [apply incl_appr; exact Hi|exact Hs].
Qed.
