(* C18 — proofs, part 4: the decision procedure decides the Prop; consequences. *)
From Coq Require Import String List ZArith Bool Lia.
From Verif Require Import C18.Model C18.Spec C18.Proofs_Vec C18.Proofs_Pass C18.Proofs_Round C18.Proofs_Gate.
Import ListNotations.
Open Scope Z_scope.

Lemma check_round_sound c tbl psize evs :
  check_round c tbl psize evs = 0 -> round_holds c tbl psize evs.
Proof.
  unfold check_round, round_holds.
  destruct (cdry c && negb (is_nil evs)) eqn:E1; [discriminate|].
  destruct (nothing_cond tbl psize && negb (is_nil evs)) eqn:E2; [discriminate|].
  destruct (forallb (fun e => ev_in tbl false e || ev_in tbl true e) evs) eqn:E3; cbn [negb]; [|discriminate].
  destruct (check_pass c tbl false (filter (ev_in tbl false) evs)
              (init_state tbl false (node_avail (dims c) tbl))) as [k1 st1] eqn:E4.
  destruct (k1 =? 0) eqn:E5; cbn [negb]; [|intros ->; discriminate].
  apply Z.eqb_eq in E5. subst k1. intros H.
  split.
  { intros Hd. rewrite Hd in E1. cbn [andb] in E1. apply negb_false_iff in E1. apply is_nil_true. exact E1. }
  split.
  { intros Hn. rewrite Hn in E2. cbn [andb] in E2. apply negb_false_iff in E2. apply is_nil_true. exact E2. }
  split.
  { intros e He. rewrite forallb_forall in E3. apply orb_true_iff. apply E3. exact He. }
  apply check_pass_code0 in H. destruct H as [st2 H].
  exists st1, st2. split; apply check_pass_sound; assumption.
Qed.

Lemma check_round_complete c tbl psize evs :
  round_holds c tbl psize evs -> check_round c tbl psize evs = 0.
Proof.
  unfold check_round, round_holds. intros [H1 [H2 [H3 [stN [stP [H4 H5]]]]]].
  destruct (cdry c) eqn:Ed; cbn [andb].
  { rewrite (H1 eq_refl). cbn. destruct (nothing_cond tbl psize); reflexivity. }
  destruct (nothing_cond tbl psize) eqn:En; cbn [andb].
  { rewrite (H2 eq_refl). reflexivity. }
  assert (forallb (fun e => ev_in tbl false e || ev_in tbl true e) evs = true) as ->.
  { apply forallb_forall. intros e He. apply orb_true_iff. apply H3. exact He. }
  cbn [negb].
  rewrite (check_pass_complete c tbl false _ _ _ H4). cbn [negb Z.eqb snd].
  rewrite (check_pass_complete c tbl true _ _ _ H5). reflexivity.
Qed.

Lemma gate_ok_iff c h tbl evs : gate_ok c h tbl evs = true <-> gate_holds c h tbl evs.
Proof.
  unfold gate_ok, gate_holds. destruct (gating c); cbn [negb orb].
  - rewrite forallb_forall. split.
    + intros H _ e He. apply Z.leb_le. apply H. exact He.
    + intros H e He. apply Z.leb_le. apply H; [reflexivity|exact He].
  - split; [intros _ H; discriminate|reflexivity].
Qed.

Lemma check_hist_sound c : forall tbls obs h, check_hist c tbls obs h = 0 -> hist_holds c tbls obs h.
Proof.
  induction tbls as [|[tbl psize] t IH]; intros obs h; destruct obs as [|evs ot]; cbn [check_hist hist_holds];
    try discriminate; [intros _; exact I|].
  destruct (check_round c tbl psize evs =? 0) eqn:E1; cbn [negb]; [|intros H; rewrite H in E1; discriminate].
  destruct (gate_ok c h tbl evs) eqn:E2; cbn [negb]; [|discriminate].
  intros H. split; [apply check_round_sound; apply Z.eqb_eq; exact E1|].
  split; [apply gate_ok_iff; exact E2|apply IH; exact H].
Qed.

Lemma check_hist_complete c : forall tbls obs h, hist_holds c tbls obs h -> check_hist c tbls obs h = 0.
Proof.
  induction tbls as [|[tbl psize] t IH]; intros obs h; destruct obs as [|evs ot]; cbn [check_hist hist_holds];
    try tauto.
  intros [H1 [H2 H3]]. rewrite (check_round_complete _ _ _ _ H1). cbn [Z.eqb negb].
  apply gate_ok_iff in H2. rewrite H2. cbn [negb]. apply IH. exact H3.
Qed.

Theorem prop_code_iff c ns rounds obs : prop_code c ns rounds obs = 0 <-> C18_holds c ns rounds obs.
Proof. split; [apply check_hist_sound|apply check_hist_complete]. Qed.

Theorem main_prop_code fx c ns rounds :
  wf_rounds rounds = true -> prop_code c ns rounds (map fst (run_gen fx c ns rounds ([], []))) = 0.
Proof. intros H. apply prop_code_iff. apply main_holds_gen. exact H. Qed.

(* the strict gate: decision procedure and Prop *)
Lemma strict_gate_ok_iff c h tbl evs : strict_gate_ok c h tbl evs = true <-> strict_gate_holds c h tbl evs.
Proof.
  unfold strict_gate_ok, strict_gate_holds. destruct (gating c); cbn [negb orb].
  - rewrite forallb_forall. split.
    + intros H _ e He. apply Z.leb_le. apply H. exact He.
    + intros H e He. apply Z.leb_le. apply H; [reflexivity|exact He].
  - split; [intros _ H; discriminate|reflexivity].
Qed.
Lemma check_strict_iff c : forall tbls obs h, check_strict c tbls obs h = 0 <-> strict_hist_holds c tbls obs h.
Proof.
  induction tbls as [|[tbl ps] t IH]; intros [|evs ot] h; cbn [check_strict strict_hist_holds]; try tauto.
  destruct (strict_gate_ok c h tbl evs) eqn:E; cbn [negb].
  - rewrite IH. apply strict_gate_ok_iff in E. tauto.
  - split; [discriminate|]. intros [H _]. apply strict_gate_ok_iff in H. congruence.
Qed.
Theorem main_strict_code_fixed c ns rounds :
  wf_rounds rounds = true -> strict_code c ns rounds (map fst (run_gen true c ns rounds ([], []))) = 0.
Proof. intros H. apply check_strict_iff. apply strict_holds_fixed. exact H. Qed.

Lemma strict_hist_nth c : forall tbls obs h i tbl ps evs,
  strict_hist_holds c tbls obs h ->
  nth_error tbls i = Some (tbl, ps) -> nth_error obs i = Some evs ->
  strict_gate_holds c (rev (map fst (firstn i tbls)) ++ h) tbl evs.
Proof.
  induction tbls as [|[tbl0 ps0] t IH]; intros obs h i tbl ps evs H Ht Ho.
  - destruct i; discriminate.
  - destruct obs as [|evs0 ot]; [destruct i; discriminate|]. cbn [strict_hist_holds] in H.
    destruct H as [H1 H2]. destruct i as [|i]; cbn [nth_error firstn map rev] in *.
    + inversion Ht; inversion Ho; subst. exact H1.
    + rewrite <- app_assoc. apply (IH ot (tbl0 :: h) i tbl ps evs H2 Ht Ho).
Qed.

(* ---------------------------------------------------------------- readable consequences *)

(* every Evict call of a valid pass: overloaded source at that moment, a target exists,
   headroom left, pod of the node passing the filters *)
Lemma valid_pass_event c tbl prod : forall st evs st', valid_pass c tbl prod st evs st' ->
  forall pre x pv post, evs = pre ++ (x, pv) :: post ->
  exists stm r p,
    valid_pass c tbl prod st pre stm /\
    find_row x tbl = Some r /\ rcls r = src_cls prod /\
    over (uget x (fst stm)) (r_high prod r) = true /\
    targets prod tbl <> [] /\ all_pos (snd stm) = true /\
    find_pod pv (r_pods prod r) = Some p /\ pfilt_ok p = true /\ fit_ok c prod tbl p = true.
Proof.
  induction 1 as [st|st x0 pv0 r p evs st' Hr Hc Ho Ht Ha Hp Hf Hfit Hv IH]; intros pre x pv post E.
  - destruct pre; discriminate.
  - destruct pre as [|e pre]; cbn [app] in E.
    + inversion E; subst. exists st, r, p. split; [constructor|].
      unfold node_over in Ho. destruct (find_row_some _ _ _ Hr) as [_ Hid]. rewrite Hid in Ho. tauto.
    + inversion E; subst. destruct (IH pre x pv post eq_refl) as [stm [r' [p' [Hv' H']]]].
      exists stm, r', p'. split; [eapply vp_cons; eauto|exact H'].
Qed.

(* no balancing when nobody is overloaded, nobody is underused, or everybody is underused *)
Theorem nothing_when fx c ns rs ds :
  wf_round rs = true ->
  nothing_cond (table c ns rs) (pool_size c ns rs) = true -> fst (balance_gen fx c ns rs ds) = [].
Proof.
  intros Hwf Hn. unfold balance_gen.
  destruct (process_pool_round c (table c ns rs) (pool_size c ns rs) (pre_round fx (table c ns rs) ds)
              (table_wf c ns rs Hwf)) as [_ [H _]].
  apply H. exact Hn.
Qed.

Theorem dry_run_silent fx c ns rs ds :
  wf_round rs = true -> cdry c = true -> fst (balance_gen fx c ns rs ds) = [].
Proof.
  intros Hwf Hd. unfold balance_gen.
  destruct (process_pool_round c (table c ns rs) (pool_size c ns rs) (pre_round fx (table c ns rs) ds)
              (table_wf c ns rs Hwf)) as [H _].
  apply H. exact Hd.
Qed.

(* ---------------------------------------------------------------- "only while it helps" *)
(* with non-negative pod usage the estimates only go down, so once the stop condition of a
   node holds it holds for the rest of the pass: "stops as soon as" = "never evicts once
   the condition is false" *)
(* the estimates of state [s'] are below those of [s] *)
Definition st_le (s' s : ustate) : Prop :=
  (forall x, uget x (fst s') = uget x (fst s) \/ vle (uget x (fst s')) (uget x (fst s))) /\
  vle (snd s') (snd s).

Lemma apply_ev_le c x p st :
  vnonneg (pdec c p) -> length (pdec c p) = length (uget x (fst st)) ->
  length (pdec c p) = length (snd st) -> st_le (apply_ev c x p st) st.
Proof.
  intros Hq Hl1 Hl2. unfold apply_ev, charge, st_le.
  destruct (pevok p && pmet p); [|split; [intros y; left; reflexivity|apply vle_refl]].
  cbn [fst snd]. split.
  - intros y. rewrite uget_uset. destruct (x =? y) eqn:E; [|left; reflexivity].
    apply Z.eqb_eq in E. subst y. right. apply vsub_vle; assumption.
  - apply vsub_vle; assumption.
Qed.

Lemma cont_mono prod r s s' : st_le s' s -> cont prod r s' = true -> cont prod r s = true.
Proof.
  unfold cont, node_over. intros [H1 H2] H. apply andb_true_iff in H. destruct H as [Ha Hb].
  apply andb_true_iff. split; [|eapply all_pos_mono; eauto].
  destruct (H1 (rid r)) as [E|E]; [rewrite <- E; exact Ha|eapply over_mono; eauto].
Qed.

(* ---------------------------------------------------------------- per-round view of a history *)
Lemma hist_holds_nth c : forall tbls obs h i tbl ps evs,
  hist_holds c tbls obs h ->
  nth_error tbls i = Some (tbl, ps) -> nth_error obs i = Some evs ->
  round_holds c tbl ps evs /\ gate_holds c (rev (map fst (firstn i tbls)) ++ h) tbl evs.
Proof.
  induction tbls as [|[tbl0 ps0] t IH]; intros obs h i tbl ps evs H Ht Ho.
  - destruct i; discriminate.
  - destruct obs as [|evs0 ot]; cbn [hist_holds] in H; [contradiction|].
    destruct H as [H1 [H2 H3]]. destruct i as [|i]; cbn [nth_error firstn map rev] in *.
    + inversion Ht; inversion Ho; subst. split; assumption.
    + destruct (IH ot (tbl0 :: h) i tbl ps evs H3 Ht Ho) as [I1 I2]. split; [exact I1|].
      rewrite <- app_assoc. exact I2.
Qed.
