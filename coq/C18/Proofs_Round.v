(* C18 — proofs, part 2: the table is well formed, one Balance round satisfies the property. *)
From Coq Require Import String List ZArith Bool Lia.
From Verif Require Import C18.Model C18.Spec C18.Proofs_Vec C18.Proofs_Pass.
Import ListNotations.
Open Scope Z_scope.

(* ---------------------------------------------------------------- well-formed tables *)
Definition row_wf (c : cfg) (r : row) : Prop :=
  NoDup (map pkey (rall r)) /\ NoDup (map pkey (rprodpods r)) /\ row_dims (dims c) r /\
  (forall p, In p (rall r) -> 0 <= pcpu p /\ 0 <= pmem p) /\
  (forall p, In p (rprodpods r) -> In p (rall r)).
Definition tbl_wf (c : cfg) (tbl : list row) : Prop :=
  NoDup (map rid tbl) /\ forall r, In r tbl -> row_wf c r.

Definition wf_round (rs : list nround) : bool := forallb wf_nround rs.

Lemma number_props {A B} (a : list A) : forall (b : list B) i,
  NoDup (map (fun t => fst (fst t)) (number i a b)) /\
  (forall t, In t (number i a b) -> i <= fst (fst t) /\ In (snd t) b).
Proof.
  induction a as [|x a IH]; intros b i; cbn [number]; [split; [constructor|intros t []]|].
  destruct b as [|y b]; [split; [constructor|intros t []]|].
  destruct (IH b (i + 1)) as [H1 H2]. cbn [map fst snd]. split.
  - constructor; [|exact H1]. intros Hin. apply in_map_iff in Hin.
    destruct Hin as [t [Ht Hin]]. apply H2 in Hin. lia.
  - intros t [<-|Hin]; cbn [fst snd]; [split; [lia|left; reflexivity]|].
    destruct (H2 t Hin). split; [lia|right; assumption].
Qed.

Lemma rid_mk_row c a p m : rid (mk_row c a p m) = mid m.
Proof. reflexivity. Qed.
Lemma rall_mk_row c a p m : rall (mk_row c a p m) = rpods (mrnd m).
Proof. reflexivity. Qed.
Lemma rprodpods_mk_row c a p m : rprodpods (mk_row c a p m) = filter is_prod (rpods (mrnd m)).
Proof. reflexivity. Qed.

Lemma wf_nround_props r : wf_nround r = true ->
  NoDup (map pkey (rpods r)) /\ forall p, In p (rpods r) -> 0 <= pcpu p /\ 0 <= pmem p.
Proof.
  unfold wf_nround. intros H. apply andb_true_iff in H. destruct H as [H1 H2].
  split; [apply nodupb_NoDup; exact H1|]. intros p Hp. rewrite forallb_forall in H2.
  specialize (H2 p Hp). apply andb_true_iff in H2. destruct H2 as [A B].
  apply Z.leb_le in A. apply Z.leb_le in B. split; assumption.
Qed.

Lemma rows_wf c a p ms :
  NoDup (map mid ms) -> (forall m, In m ms -> wf_nround (mrnd m) = true) ->
  tbl_wf c (map (mk_row c a p) ms).
Proof.
  intros Hms Hp. split.
  - rewrite map_map. erewrite map_ext; [exact Hms|]. intros m. apply rid_mk_row.
  - intros r Hr. apply in_map_iff in Hr. destruct Hr as [m [<- Hm]].
    destruct (wf_nround_props _ (Hp m Hm)) as [H1 H2].
    unfold row_wf. rewrite rall_mk_row, rprodpods_mk_row.
    split; [exact H1|]. split; [apply NoDup_map_filter; exact H1|].
    split; [apply mk_row_dims|]. split; [exact H2|].
    intros q Hq. apply filter_In in Hq. apply Hq.
Qed.

Lemma pool_nodes_props fxp c processed ns rs :
  NoDup (map mid (pool_nodes fxp c processed ns rs)) /\
  forall m, In m (pool_nodes fxp c processed ns rs) ->
    In (mid m, mstat m, mrnd m) (number 1 ns rs) /\ In (mrnd m) rs /\
    in_pool fxp c processed (mid m) (mstat m) = true.
Proof.
  destruct (number_props ns rs 1) as [Hnd Hin]. unfold pool_nodes. split.
  - rewrite map_map. cbn [mid]. apply NoDup_map_filter. exact Hnd.
  - intros m Hm. apply in_map_iff in Hm. destruct Hm as [t [<- Ht]]. apply filter_In in Ht.
    destruct Ht as [Ht Hp]. cbn [mid mstat mrnd]. destruct t as [[i a] b]. cbn [fst snd] in *.
    split; [exact Ht|]. split; [apply (Hin _ Ht)|exact Hp].
Qed.

Lemma table_of_wf c pool :
  NoDup (map mid pool) -> (forall m, In m pool -> wf_nround (mrnd m) = true) -> tbl_wf c (table_of c pool).
Proof.
  intros Hnd Hwf. unfold table_of. apply rows_wf.
  - unfold fresh_nodes. apply NoDup_map_filter. exact Hnd.
  - intros m Hm. unfold fresh_nodes in Hm. apply filter_In in Hm. apply Hwf. apply Hm.
Qed.

Lemma table_wf fxp c processed ns rs :
  wf_round rs = true -> tbl_wf c (table_of c (pool_nodes fxp c processed ns rs)).
Proof.
  intros Hwf. destruct (pool_nodes_props fxp c processed ns rs) as [Hnd Hin].
  apply table_of_wf; [exact Hnd|]. intros m Hm. unfold wf_round in Hwf. rewrite forallb_forall in Hwf.
  apply Hwf. apply (Hin m Hm).
Qed.

(* the table's nodes are nodes of the pool *)
Lemma table_of_ids c pool r : In r (table_of c pool) -> In (rid r) (map mid pool).
Proof.
  unfold table_of. intros H. apply in_map_iff in H. destruct H as [m [<- Hm]].
  rewrite rid_mk_row. unfold fresh_nodes in Hm. apply filter_In in Hm. apply in_map. apply Hm.
Qed.

Lemma tbl_wf_dims c tbl : tbl_wf c tbl -> tbl_dims (dims c) tbl.
Proof. intros [_ H] r Hr. apply (H r Hr). Qed.

(* ---------------------------------------------------------------- small facts *)
Lemma has_cls_true k r : has_cls k r = true <-> rcls r = k.
Proof. unfold has_cls. apply Z.eqb_eq. Qed.

Lemma filter_app_split {A} (f : A -> bool) l1 l2 :
  (forall e, In e l1 -> f e = true) -> (forall e, In e l2 -> f e = false) -> filter f (l1 ++ l2) = l1.
Proof.
  intros H1 H2. rewrite filter_app.
  assert (filter f l1 = l1) as ->.
  { induction l1 as [|a t IH]; cbn [filter]; [reflexivity|].
    rewrite (H1 a (or_introl eq_refl)). f_equal. apply IH. intros e He. apply H1. right; exact He. }
  assert (filter f l2 = []) as ->.
  { induction l2 as [|a t IH]; cbn [filter]; [reflexivity|].
    rewrite (H2 a (or_introl eq_refl)). apply IH. intros e He. apply H2. right; exact He. }
  apply app_nil_r.
Qed.
Lemma filter_app_split_r {A} (f : A -> bool) l1 l2 :
  (forall e, In e l1 -> f e = false) -> (forall e, In e l2 -> f e = true) -> filter f (l1 ++ l2) = l2.
Proof.
  intros H1 H2. rewrite filter_app.
  assert (filter f l1 = []) as ->.
  { induction l1 as [|a t IH]; cbn [filter]; [reflexivity|].
    rewrite (H1 a (or_introl eq_refl)). apply IH. intros e He. apply H1. right; exact He. }
  assert (filter f l2 = l2) as ->.
  { induction l2 as [|a t IH]; cbn [filter]; [reflexivity|].
    rewrite (H2 a (or_introl eq_refl)). f_equal. apply IH. intros e He. apply H2. right; exact He. }
  reflexivity.
Qed.

Lemma round_holds_nil c tbl psize : round_holds c tbl psize [].
Proof.
  unfold round_holds, round_holds_from. split; [reflexivity|]. split; [reflexivity|]. split; [intros e []|].
  cbn [filter]. eexists. eexists. split; constructor.
Qed.

(* ---------------------------------------------------------------- evictPodsFromSourceNodes *)
Section Sources.
  Variable c : cfg.
  Variable tbl : list row.
  Hypothesis Hwf : tbl_wf c tbl.

  Lemma src_ok_of prod r : In r tbl -> rcls r = src_cls prod -> src_ok tbl prod r.
  Proof.
    intros Hin Hc. destruct Hwf as [Hnd Hp]. split; [apply find_row_in; assumption|].
    split; [exact Hc|]. destruct (Hp r Hin) as [H1 [H2 [_ [H4 H5]]]].
    destruct prod; cbn [r_pods]; split; try assumption. intros p Hq. apply H4. apply H5. exact Hq.
  Qed.

  Lemma ev_in_of prod e r : In r tbl -> rcls r = src_cls prod -> fst e = rid r ->
    ev_in tbl prod e = true /\ ev_in tbl (negb prod) e = false.
  Proof.
    intros Hin Hc He. destruct Hwf as [Hnd _]. unfold ev_in, ev_cls. rewrite He.
    rewrite (find_row_in tbl r Hnd Hin). rewrite Hc. destruct prod; cbn; split; reflexivity.
  Qed.

  Lemma efs_dry abn pabn ds : cdry c = true -> fst (evict_from_sources c tbl abn pabn ds) = [].
  Proof.
    intros Hd. unfold evict_from_sources.
    set (st0 := (init_umap false tbl, node_avail (dims c) tbl)).
    assert (fst (fst (if is_nil (node_targets tbl) then ([], st0, fst ds)
                      else balance_pods c false (node_targets tbl) abn st0 (init_umap false tbl) (fst ds))) = []) as H1.
    { destruct (is_nil (node_targets tbl)); [reflexivity|apply balance_pods_dry; exact Hd]. }
    destruct (if is_nil (node_targets tbl) then _ else _) as [[evs1 st1] dn]. cbn [fst] in H1. subst evs1.
    set (pst0 := (init_umap true tbl, prod_avail (dims c) tbl (snd st1))).
    assert (fst (fst (if is_nil (prod_targets tbl) then ([], pst0, snd ds)
                      else balance_pods c true (prod_targets tbl) pabn pst0 (init_umap true tbl) (snd ds))) = []) as H2.
    { destruct (is_nil (prod_targets tbl)); [reflexivity|apply balance_pods_dry; exact Hd]. }
    destruct (if is_nil (prod_targets tbl) then _ else _) as [[evs2 st2] dp]. cbn [fst] in *. subst evs2.
    reflexivity.
  Qed.

  Lemma efs_round abn pabn ds :
    cdry c = false ->
    (forall r, In r abn -> In r tbl /\ rcls r = cHigh) ->
    (forall r, In r pabn -> In r tbl /\ rcls r = cProdHigh) ->
    let evs := fst (evict_from_sources c tbl abn pabn ds) in
    (forall e, In e evs ->
       (ev_in tbl false e = true /\ ev_in tbl true e = false /\ exists r, In r abn /\ fst e = rid r) \/
       (ev_in tbl true e = true /\ exists r, In r pabn /\ fst e = rid r)) /\
    exists stN stP,
      valid_pass c tbl false (init_state tbl false (node_avail (dims c) tbl))
                 (filter (ev_in tbl false) evs) stN /\
      valid_pass c tbl true (init_state tbl true (prod_avail (dims c) tbl (snd stN)))
                 (filter (ev_in tbl true) evs) stP.
  Proof.
    intros Hd Habn Hpabn. unfold evict_from_sources.
    set (st0 := (init_umap false tbl, node_avail (dims c) tbl)).
    assert (forall r, In r abn -> src_ok tbl false r) as Hs1
      by (intros r Hr; destruct (Habn r Hr); apply src_ok_of; assumption).
    assert (forall r, In r pabn -> src_ok tbl true r) as Hs2
      by (intros r Hr; destruct (Hpabn r Hr); apply src_ok_of; assumption).
    (* node pass *)
    assert (let res := (if is_nil (node_targets tbl) then ([], st0, fst ds)
                        else balance_pods c false (node_targets tbl) abn st0 (init_umap false tbl) (fst ds)) in
            valid_pass c tbl false st0 (fst (fst res)) (snd (fst res)) /\
            forall e, In e (fst (fst res)) -> exists r, In r abn /\ fst e = rid r) as H1.
    { destruct (is_nil (node_targets tbl)) eqn:Et; cbn zeta.
      - split; [constructor|intros e []].
      - split.
        + apply (balance_pods_valid c tbl (proj1 Hwf) (tbl_wf_dims c tbl Hwf) false abn Hd);
            [apply is_nil_false; exact Et|exact Hs1|apply resv_inv_init; apply Hwf].
        + apply balance_pods_node. }
    destruct (if is_nil (node_targets tbl) then _ else _) as [[evs1 st1] dn].
    cbn zeta in H1. cbn [fst snd] in H1. destruct H1 as [Hv1 Hn1].
    set (pst0 := (init_umap true tbl, prod_avail (dims c) tbl (snd st1))).
    assert (let res := (if is_nil (prod_targets tbl) then ([], pst0, snd ds)
                        else balance_pods c true (prod_targets tbl) pabn pst0 (init_umap true tbl) (snd ds)) in
            valid_pass c tbl true pst0 (fst (fst res)) (snd (fst res)) /\
            forall e, In e (fst (fst res)) -> exists r, In r pabn /\ fst e = rid r) as H2.
    { destruct (is_nil (prod_targets tbl)) eqn:Et; cbn zeta.
      - split; [constructor|intros e []].
      - split.
        + apply (balance_pods_valid c tbl (proj1 Hwf) (tbl_wf_dims c tbl Hwf) true pabn Hd);
            [apply is_nil_false; exact Et|exact Hs2|apply resv_inv_init; apply Hwf].
        + apply balance_pods_node. }
    destruct (if is_nil (prod_targets tbl) then _ else _) as [[evs2 st2] dp].
    cbn zeta in H2. cbn [fst snd] in H2. destruct H2 as [Hv2 Hn2].
    cbn zeta. cbn [fst].
    assert (forall e, In e evs1 -> ev_in tbl false e = true /\ ev_in tbl true e = false) as Hc1.
    { intros e He. destruct (Hn1 e He) as [r [Hr Hf]]. destruct (Habn r Hr).
      apply (ev_in_of false e r); assumption. }
    assert (forall e, In e evs2 -> ev_in tbl true e = true /\ ev_in tbl false e = false) as Hc2.
    { intros e He. destruct (Hn2 e He) as [r [Hr Hf]]. destruct (Hpabn r Hr).
      apply (ev_in_of true e r); assumption. }
    split.
    - intros e He. apply in_app_or in He. destruct He as [He|He].
      + left. split; [apply Hc1; exact He|]. split; [apply Hc1; exact He|apply Hn1; exact He].
      + right. split; [apply Hc2; exact He|apply Hn2; exact He].
    - exists st1, st2.
      assert (filter (ev_in tbl false) (evs1 ++ evs2) = evs1) as ->
        by (apply filter_app_split; intros e He; [apply Hc1|apply Hc2]; exact He).
      assert (filter (ev_in tbl true) (evs1 ++ evs2) = evs2) as ->
        by (apply filter_app_split_r; intros e He; [apply Hc1|apply Hc2]; exact He).
      split; [exact Hv1|exact Hv2].
  Qed.
End Sources.

(* ---------------------------------------------------------------- processOneNodePool *)
Lemma filter_abnormal_in c src : forall m r, In r (fst (filter_abnormal c src m)) -> In r src.
Proof.
  induction src as [|a t IH]; intros m r; cbn [filter_abnormal]; [intros []|].
  set (d1 := mark_abn _).
  destruct (filter_abnormal c t (dset (rid a) d1 m)) as [abn m'] eqn:E.
  specialize (IH (dset (rid a) d1 m) r). rewrite E in IH. cbn [fst] in *.
  destruct (dst d1); cbn [In]; intros H; [destruct H as [->|H]; [left; reflexivity|right; auto]|right; auto].
Qed.
Lemma real_abnormal_in c src m r : In r (fst (real_abnormal c src m)) -> In r src.
Proof. unfold real_abnormal. destruct (gating c); [apply filter_abnormal_in|cbn; auto]. Qed.

Lemma nothing_cond_exits tbl psize :
  nothing_cond tbl psize = true ->
  is_nil (filter (has_cls cHigh) tbl) && is_nil (filter (has_cls cProdHigh) tbl) = false ->
  is_nil (filter (has_cls cLow) tbl) && is_nil (filter (has_cls cProdLow) tbl)
    && is_nil (filter (has_cls cBothLow) tbl) = false ->
  (Z.of_nat (length (filter (has_cls cLow) tbl) + length (filter (has_cls cProdLow) tbl)
             + length (filter (has_cls cBothLow) tbl)) =? psize) = false -> False.
Proof.
  unfold nothing_cond, no_source, n_low, countf. intros H E1 E3 E5.
  rewrite E1 in H. cbn [orb] in H. apply orb_true_iff in H. destruct H as [H|H].
  - apply Z.eqb_eq in H.
    destruct (filter (has_cls cLow) tbl); [|cbn [length] in H; lia].
    destruct (filter (has_cls cProdLow) tbl); [|cbn [length] in H; lia].
    destruct (filter (has_cls cBothLow) tbl); [|cbn [length] in H; lia].
    cbn in E3. discriminate.
  - rewrite !Nat2Z.inj_add in E5. rewrite H in E5. discriminate.
Qed.

Lemma process_pool_round c tbl psize ds :
  tbl_wf c tbl -> round_holds c tbl psize (fst (process_pool c tbl psize ds)).
Proof.
  intros Hwf. unfold process_pool.
  destruct (is_nil (filter (has_cls cHigh) tbl) && is_nil (filter (has_cls cProdHigh) tbl)) eqn:E1;
    [apply round_holds_nil|].
  pose proof (real_abnormal_in c (filter (has_cls cHigh) tbl) (fst ds)) as Ha.
  destruct (real_abnormal c (filter (has_cls cHigh) tbl) (fst ds)) as [abn dn].
  pose proof (real_abnormal_in c (filter (has_cls cProdHigh) tbl) (snd ds)) as Hp.
  destruct (real_abnormal c (filter (has_cls cProdHigh) tbl) (snd ds)) as [pabn dp].
  cbn [fst] in Ha, Hp.
  destruct (is_nil abn && is_nil pabn); [apply round_holds_nil|].
  destruct (is_nil (filter (has_cls cLow) tbl) && is_nil (filter (has_cls cProdLow) tbl)
            && is_nil (filter (has_cls cBothLow) tbl)) eqn:E3; [apply round_holds_nil|].
  destruct (_ <=? cN c); [apply round_holds_nil|].
  destruct (_ =? psize) eqn:E5; [apply round_holds_nil|].
  set (abn' := sort_by (score_geb false) abn). set (pabn' := sort_by (score_geb true) pabn).
  set (dn' := reset_nodes _ (reset_nodes _ dn)). set (dp' := reset_nodes _ dp).
  assert (forall r, In r abn' -> In r tbl /\ rcls r = cHigh) as Habn.
  { intros r Hr. apply sort_by_in in Hr. apply Ha in Hr. apply filter_In in Hr.
    destruct Hr as [Hr Hc]. split; [exact Hr|apply has_cls_true; exact Hc]. }
  assert (forall r, In r pabn' -> In r tbl /\ rcls r = cProdHigh) as Hpabn.
  { intros r Hr. apply sort_by_in in Hr. apply Hp in Hr. apply filter_In in Hr.
    destruct Hr as [Hr Hc]. split; [exact Hr|apply has_cls_true; exact Hc]. }
  destruct (cdry c) eqn:Hd.
  - pose proof (efs_dry c tbl abn' pabn' (dn', dp') Hd) as H.
    destruct (evict_from_sources c tbl abn' pabn' (dn', dp')) as [evs [dn2 dp2]].
    cbn [fst] in *. subst evs. apply round_holds_nil.
  - pose proof (efs_round c tbl Hwf abn' pabn' (dn', dp') Hd Habn Hpabn) as H.
    destruct (evict_from_sources c tbl abn' pabn' (dn', dp')) as [evs [dn2 dp2]].
    cbn zeta in H. cbn [fst] in *. destruct H as [H1 H2].
    unfold round_holds, round_holds_from. split; [intros Hx; rewrite Hd in Hx; discriminate|].
    split.
    + intros Hn. exfalso. eapply nothing_cond_exits; eauto.
    + split; [|exact H2]. intros e He. destruct (H1 e He) as [[H _]|[H _]]; [left|right]; exact H.
Qed.
