(* C18 — proofs, part 5: "stops as soon as ...": with non-negative pod usage the running
   estimates only decrease, hence after the first moment at which a node is back under its
   high threshold (or some headroom is used up) no later Evict call of the pass is on it. *)
From Coq Require Import String List ZArith Bool Lia.
From Verif Require Import C18.Model C18.Spec C18.Proofs_Pass C18.Proofs_Round C18.Proofs_Gate C18.Proofs_Check.
Import ListNotations.
Open Scope Z_scope.

(* ---------------------------------------------------------------- dimensions *)
Lemma vmap2_length f : forall a b, length a = length b -> length (vmap2 f a b) = length a.
Proof.
  induction a as [|x a IH]; intros [|y b] H; cbn in *; try discriminate; [reflexivity|].
  f_equal. apply IH. lia.
Qed.

Lemma proj_length {A} (m : list bool) : forall (v : list A), length m = length v ->
  length (proj m v) = length (filter (fun b => b) m).
Proof.
  induction m as [|b m IH]; intros [|x v] H; cbn in *; try discriminate; [reflexivity|].
  destruct b; cbn [length]; [f_equal|]; apply IH; lia.
Qed.

Lemma active_length c : length (active c) = 3%nat.
Proof.
  unfold active. destruct (cthr c) as [|a [|b [|d [|e t]]]]; reflexivity.
Qed.

Lemma proj3_length c (v : list Z) : length v = 3%nat -> length (proj (active c) v) = dims c.
Proof. intros H. unfold dims. apply proj_length. rewrite active_length, H. reflexivity. Qed.

Definition row_dims (d : nat) (r : row) : Prop :=
  length (ruse r) = d /\ length (rpuse r) = d /\ length (rhigh r) = d /\ length (rphigh r) = d.
Definition tbl_dims (d : nat) (tbl : list row) : Prop := forall r, In r tbl -> row_dims d r.

Lemma mk_row_dims c a p m : row_dims (dims c) (mk_row c a p m).
Proof.
  unfold row_dims, mk_row. cbn [ruse rpuse rhigh rphigh].
  repeat split; apply proj3_length; reflexivity.
Qed.
Lemma table_dims c ns rs : tbl_dims (dims c) (table c ns rs).
Proof.
  unfold table. intros r Hr. apply in_map_iff in Hr. destruct Hr as [m [<- _]]. apply mk_row_dims.
Qed.

Lemma vsum_length d l : (forall v, In v l -> length v = d) -> length (vsum d l) = d.
Proof.
  unfold vsum. assert (length (vzero d) = d) as H0 by apply repeat_length.
  revert H0. generalize (vzero d). induction l as [|v l IH]; intros acc Ha Hl; cbn [fold_left]; [exact Ha|].
  apply IH; [|intros w Hw; apply Hl; right; exact Hw].
  unfold vadd. rewrite vmap2_length; [exact Ha|]. rewrite Ha. symmetry. apply Hl. left; reflexivity.
Qed.

Lemma headroom_length d prod r : row_dims d r -> length (headroom prod r) = d.
Proof.
  intros [H1 [H2 [H3 H4]]]. unfold headroom, vsub, r_high, r_use.
  destruct prod; rewrite vmap2_length; congruence.
Qed.

Lemma node_avail_length d tbl : tbl_dims d tbl -> length (node_avail d tbl) = d.
Proof.
  intros H. unfold node_avail. apply vsum_length. intros v Hv. apply in_map_iff in Hv.
  destruct Hv as [r [<- Hr]]. apply headroom_length. apply H. unfold node_targets in Hr.
  apply in_app_or in Hr. destruct Hr as [Hr|Hr]; apply filter_In in Hr; apply Hr.
Qed.

Lemma prod_avail_length d tbl left : tbl_dims d tbl -> length left = d -> length (prod_avail d tbl left) = d.
Proof.
  intros H Hl. unfold prod_avail.
  assert (forall k pr, length (vsum d (map (headroom pr) (filter (has_cls k) tbl))) = d) as Hs.
  { intros k pr. apply vsum_length. intros v Hv. apply in_map_iff in Hv. destruct Hv as [r [<- Hr]].
    apply headroom_length. apply H. apply filter_In in Hr. apply Hr. }
  assert (forall f a b, length a = d -> length b = d -> length (vmap2 f a b) = d) as Hm
    by (intros f a b Ha Hb; rewrite vmap2_length; congruence).
  unfold vadd, vmin. apply Hm; [apply Hs|]. apply Hm; [apply Hs|]. apply Hm; [apply Hs|exact Hl].
Qed.

(* ---------------------------------------------------------------- monotone estimates *)
Lemma uget_init prod tbl x :
  uget x (init_umap prod tbl) = match find_row x tbl with Some r => r_use prod r | None => [] end.
Proof.
  unfold init_umap. induction tbl as [|a t IH]; cbn [map uget find_row]; [reflexivity|].
  destruct (rid a =? x); [reflexivity|exact IH].
Qed.

Definition pods_nonneg (tbl : list row) : Prop :=
  forall r p, In r tbl -> In p (rall r) -> 0 <= pcpu p /\ 0 <= pmem p.

Lemma proj_Forall {A} (P : A -> Prop) (m : list bool) : forall v, Forall P v -> Forall P (proj m v).
Proof.
  induction m as [|b m IH]; intros v Hv; destruct v as [|x v]; cbn [proj]; try constructor.
  inversion Hv; subst. destruct b; [constructor; [assumption|]|]; apply IH; assumption.
Qed.

Lemma pdec_props c p : 0 <= pcpu p -> 0 <= pmem p -> vnonneg (pdec c p) /\ length (pdec c p) = dims c.
Proof.
  intros H1 H2. unfold pdec. split; [|apply proj3_length; reflexivity].
  apply proj_Forall. unfold pdec3. repeat constructor; lia.
Qed.

Definition st_dims (d : nat) (tbl : list row) (st : ustate) : Prop :=
  (forall r, In r tbl -> length (uget (rid r) (fst st)) = d) /\ length (snd st) = d.

Lemma st_le_refl s : st_le s s.
Proof. split; [intros x; left; reflexivity|apply vle_refl]. Qed.
Lemma st_le_trans s1 s2 s3 : st_le s1 s2 -> st_le s2 s3 -> st_le s1 s3.
Proof.
  intros [H1 H2] [H3 H4]. split; [|eapply vle_trans; eauto].
  intros x. destruct (H1 x) as [E|L]; destruct (H3 x) as [E'|L'].
  - left; congruence.
  - right; rewrite E; exact L'.
  - right; rewrite <- E'; exact L.
  - right; eapply vle_trans; eauto.
Qed.

Section Stop.
  Variable c : cfg.
  Variable tbl : list row.
  Variable prod : bool.
  Hypothesis Hnn : pods_nonneg tbl.
  Hypothesis Hprodpods : forall r p, In r tbl -> In p (rprodpods r) -> In p (rall r).

  Lemma valid_pass_le st evs st' :
    valid_pass c tbl prod st evs st' -> st_dims (dims c) tbl st ->
    st_le st' st /\ st_dims (dims c) tbl st'.
  Proof.
    induction 1 as [st|st x pv r p evs st' Hr Hc Ho Ht Ha Hp Hf Hv IH]; intros Hd.
    - split; [apply st_le_refl|exact Hd].
    - destruct (find_row_some _ _ _ Hr) as [Hin Hid]. subst x.
      destruct (find_pod_some _ _ _ Hp) as [Hpin _].
      assert (In p (rall r)) as Hpall by (destruct prod; cbn [r_pods] in Hpin; [apply Hprodpods|]; assumption).
      destruct (Hnn r p Hin Hpall) as [N1 N2].
      destruct (pdec_props c p N1 N2) as [Q1 Q2].
      destruct Hd as [D1 D2].
      assert (st_le (apply_ev c (rid r) p st) st) as Hle.
      { apply apply_ev_le; [exact Q1|rewrite Q2, (D1 r Hin); reflexivity|rewrite Q2, D2; reflexivity]. }
      assert (st_dims (dims c) tbl (apply_ev c (rid r) p st)) as Hd'.
      { unfold apply_ev, charge, st_dims. destruct (pevok p && pmet p); [|split; assumption].
        cbn [fst snd]. split.
        - intros r' Hr'. rewrite uget_uset. destruct (rid r =? rid r'); [|apply D1; exact Hr'].
          unfold vsub. rewrite vmap2_length; [apply D1; exact Hin|rewrite Q2; apply D1; exact Hin].
        - unfold vsub. rewrite vmap2_length; [exact D2|rewrite Q2; exact D2]. }
      destruct (IH Hd') as [I1 I2]. split; [eapply st_le_trans; eauto|exact I2].
  Qed.

  Lemma valid_pass_app_inv : forall pre post st st',
    valid_pass c tbl prod st (pre ++ post) st' ->
    exists stm, valid_pass c tbl prod st pre stm /\ valid_pass c tbl prod stm post st'.
  Proof.
    induction pre as [|e pre IH]; intros post st st' H; cbn [app] in H.
    - exists st. split; [constructor|exact H].
    - inversion H as [|? x pv r p evs ? Hr Hc Ho Ht Ha Hp Hf Hv]; subst.
      destruct (IH post _ _ Hv) as [stm [H1 H2]].
      exists stm. split; [eapply vp_cons; eauto|exact H2].
  Qed.

  Lemma valid_pass_det st evs s1 s2 :
    valid_pass c tbl prod st evs s1 -> valid_pass c tbl prod st evs s2 -> s1 = s2.
  Proof.
    intros H1 H2. apply check_pass_complete in H1. apply check_pass_complete in H2. congruence.
  Qed.

  (* after the first moment at which the stop condition of node r holds, the pass has no
     further Evict call on r *)
  Theorem stop_forever st evs st' pre post stm r :
    st_dims (dims c) tbl st ->
    valid_pass c tbl prod st evs st' -> evs = pre ++ post ->
    valid_pass c tbl prod st pre stm ->
    cont prod r stm = false ->
    forall e, In e post -> find_row (fst e) tbl = Some r -> False.
  Proof.
    intros Hd Hv -> Hpre Hstop e He Hfr.
    apply in_split in He. destruct He as [p1 [p2 ->]].
    destruct e as [x pv]. cbn [fst] in Hfr.
    rewrite app_assoc in Hv.
    destruct (valid_pass_event c tbl prod _ _ _ Hv (pre ++ p1) x pv p2 eq_refl)
      as [stm' [r' [p' [Hv' [Hr' [_ [Ho [_ [Ha _]]]]]]]]].
    rewrite Hfr in Hr'. inversion Hr'; subst r'.
    destruct (valid_pass_app_inv pre p1 st stm' Hv') as [s [Hs1 Hs2]].
    rewrite (valid_pass_det _ _ _ _ Hs1 Hpre) in Hs2.
    destruct (valid_pass_le _ _ _ Hpre Hd) as [_ Hdm].
    destruct (valid_pass_le _ _ _ Hs2 Hdm) as [Hle _].
    assert (cont prod r stm' = true) as Hc.
    { unfold cont, node_over. destruct (find_row_some _ _ _ Hfr) as [_ Hid]. rewrite Hid, Ho, Ha. reflexivity. }
    rewrite (cont_mono prod r stm stm' Hle Hc) in Hstop. discriminate.
  Qed.
End Stop.

Lemma init_state_dims d tbl prod avail :
  tbl_dims d tbl -> NoDup (map rid tbl) -> length avail = d -> st_dims d tbl (init_state tbl prod avail).
Proof.
  intros Hd Hnd Ha. unfold init_state. split; [|exact Ha]. cbn [fst]. intros r Hr.
  rewrite uget_init, (find_row_in tbl r Hnd Hr). destruct (Hd r Hr) as [H1 [H2 _]].
  destruct prod; assumption.
Qed.
