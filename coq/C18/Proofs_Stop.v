(* C18 — proofs, part 5: "stops as soon as ...": with non-negative pod usage the running
   estimates only decrease, hence after the first moment at which a node is back under its
   high threshold (or some headroom is used up) no later Evict call of the pass is on it. *)
From Coq Require Import String List ZArith Bool Lia.
From Verif Require Import C18.Model C18.Spec C18.Proofs_Vec C18.Proofs_Pass C18.Proofs_Round C18.Proofs_Gate C18.Proofs_Check.
Import ListNotations.
Open Scope Z_scope.

(* ---------------------------------------------------------------- monotone estimates *)

Definition st_dims (d : nat) (tbl : list row) (st : ustate) : Prop :=
  (forall r, In r tbl -> length (uget (rid r) (fst st)) = d) /\ length (snd st) = d.

Lemma st_le_refl s : st_le s s.
Proof. split; [intros x; left; reflexivity|apply vle_refl]. Qed.
Lemma st_le_trans s1 s2 s3 : st_le s1 s2 -> st_le s2 s3 -> st_le s1 s3.
Proof.
  intros [H1 H2] [H3 H4]. split; [|eapply vle_trans; eauto].
  intros x. destruct (H1 x) as [E|L]; destruct (H3 x) as [E'|L'].
  - left; congruence.
  - right; rewrite E; exact L'.
  - right; rewrite <- E'; exact L.
  - right; eapply vle_trans; eauto.
Qed.

Section Stop.
  Variable c : cfg.
  Variable tbl : list row.
  Variable prod : bool.
  Hypothesis Hnn : pods_nonneg tbl.
  Hypothesis Hprodpods : forall r p, In r tbl -> In p (rprodpods r) -> In p (rall r).

  Lemma valid_pass_le st evs st' :
    valid_pass c tbl prod st evs st' -> st_dims (dims c) tbl st ->
    st_le st' st /\ st_dims (dims c) tbl st'.
  Proof.
    induction 1 as [st|st x pv r p evs st' Hr Hc Ho Ht Ha Hp Hf Hfit Hv IH]; intros Hd.
    - split; [apply st_le_refl|exact Hd].
    - destruct (find_row_some _ _ _ Hr) as [Hin Hid]. subst x.
      destruct (find_pod_some _ _ _ Hp) as [Hpin _].
      assert (In p (rall r)) as Hpall by (destruct prod; cbn [r_pods] in Hpin; [apply Hprodpods|]; assumption).
      destruct (Hnn r p Hin Hpall) as [N1 N2].
      destruct (pdec_props c p N1 N2) as [Q1 Q2].
      destruct Hd as [D1 D2].
      assert (st_le (apply_ev c (rid r) p st) st) as Hle.
      { apply apply_ev_le; [exact Q1|rewrite Q2, (D1 r Hin); reflexivity|rewrite Q2, D2; reflexivity]. }
      assert (st_dims (dims c) tbl (apply_ev c (rid r) p st)) as Hd'.
      { unfold apply_ev, charge, st_dims. destruct (pevok p && pmet p); [|split; assumption].
        cbn [fst snd]. split.
        - intros r' Hr'. rewrite uget_uset. destruct (rid r =? rid r'); [|apply D1; exact Hr'].
          unfold vsub. rewrite vmap2_length; [apply D1; exact Hin|rewrite Q2; apply D1; exact Hin].
        - unfold vsub. rewrite vmap2_length; [exact D2|rewrite Q2; exact D2]. }
      destruct (IH Hd') as [I1 I2]. split; [eapply st_le_trans; eauto|exact I2].
  Qed.

  Lemma valid_pass_app_inv : forall pre post st st',
    valid_pass c tbl prod st (pre ++ post) st' ->
    exists stm, valid_pass c tbl prod st pre stm /\ valid_pass c tbl prod stm post st'.
  Proof.
    induction pre as [|e pre IH]; intros post st st' H; cbn [app] in H.
    - exists st. split; [constructor|exact H].
    - inversion H as [|? x pv r p evs ? Hr Hc Ho Ht Ha Hp Hf Hfit Hv]; subst.
      destruct (IH post _ _ Hv) as [stm [H1 H2]].
      exists stm. split; [eapply vp_cons; eauto|exact H2].
  Qed.

  Lemma valid_pass_det st evs s1 s2 :
    valid_pass c tbl prod st evs s1 -> valid_pass c tbl prod st evs s2 -> s1 = s2.
  Proof.
    intros H1 H2. apply check_pass_complete in H1. apply check_pass_complete in H2. congruence.
  Qed.

  (* after the first moment at which the stop condition of node r holds, the pass has no
     further Evict call on r *)
  Theorem stop_forever st evs st' pre post stm r :
    st_dims (dims c) tbl st ->
    valid_pass c tbl prod st evs st' -> evs = pre ++ post ->
    valid_pass c tbl prod st pre stm ->
    cont prod r stm = false ->
    forall e, In e post -> find_row (fst e) tbl = Some r -> False.
  Proof.
    intros Hd Hv -> Hpre Hstop e He Hfr.
    apply in_split in He. destruct He as [p1 [p2 ->]].
    destruct e as [x pv]. cbn [fst] in Hfr.
    rewrite app_assoc in Hv.
    destruct (valid_pass_event c tbl prod _ _ _ Hv (pre ++ p1) x pv p2 eq_refl)
      as [stm' [r' [p' [Hv' [Hr' [_ [Ho [_ [Ha _]]]]]]]]].
    rewrite Hfr in Hr'. inversion Hr'; subst r'.
    destruct (valid_pass_app_inv pre p1 st stm' Hv') as [s [Hs1 Hs2]].
    rewrite (valid_pass_det _ _ _ _ Hs1 Hpre) in Hs2.
    destruct (valid_pass_le _ _ _ Hpre Hd) as [_ Hdm].
    destruct (valid_pass_le _ _ _ Hs2 Hdm) as [Hle _].
    assert (cont prod r stm' = true) as Hc.
    { unfold cont, node_over. destruct (find_row_some _ _ _ Hfr) as [_ Hid]. rewrite Hid, Ho, Ha. reflexivity. }
    rewrite (cont_mono prod r stm stm' Hle Hc) in Hstop. discriminate.
  Qed.
End Stop.

Lemma init_state_dims d tbl prod avail :
  tbl_dims d tbl -> NoDup (map rid tbl) -> length avail = d -> st_dims d tbl (init_state tbl prod avail).
Proof.
  intros Hd Hnd Ha. unfold init_state. split; [|exact Ha]. cbn [fst]. intros r Hr.
  rewrite uget_init, (find_row_in tbl r Hnd Hr). destruct (Hd r Hr) as [H1 [H2 _]].
  destruct prod; assumption.
Qed.
