(* C18 — proofs, part 1: lookups, the checker is the Prop, one eviction pass is valid. *)
From Coq Require Import String List ZArith Bool Lia.
From Verif Require Import C18.Model C18.Spec C18.Proofs_Vec.
Import ListNotations.
Open Scope Z_scope.

(* ---------------------------------------------------------------- lookups *)
Lemma find_row_some x tbl r : find_row x tbl = Some r -> In r tbl /\ rid r = x.
Proof.
  induction tbl as [|a t IH]; cbn [find_row]; [discriminate|].
  destruct (rid a =? x) eqn:E.
  - intros H; inversion H; subst. apply Z.eqb_eq in E. split; [left; reflexivity|exact E].
  - intros H. destruct (IH H) as [H1 H2]. split; [right; exact H1|exact H2].
Qed.

Lemma find_row_in tbl r : NoDup (map rid tbl) -> In r tbl -> find_row (rid r) tbl = Some r.
Proof.
  induction tbl as [|a t IH]; cbn [find_row map]; intros Hnd Hin; [destruct Hin|].
  inversion Hnd as [|? ? Hni Hnd']; subst.
  destruct Hin as [->|Hin]; [rewrite Z.eqb_refl; reflexivity|].
  destruct (rid a =? rid r) eqn:E; [|apply IH; assumption].
  apply Z.eqb_eq in E. exfalso. apply Hni. rewrite E. apply in_map. exact Hin.
Qed.

Lemma pkey_eqb_eq a b : pkey_eqb a b = true <-> a = b.
Proof.
  unfold pkey_eqb. destruct a as [a1 a2], b as [b1 b2]. cbn [fst snd]. rewrite andb_true_iff, !Z.eqb_eq.
  split; [intros [-> ->]; reflexivity|intros H; inversion H; split; reflexivity].
Qed.
Lemma pkey_eqb_refl a : pkey_eqb a a = true.
Proof. apply pkey_eqb_eq. reflexivity. Qed.

Lemma find_pod_some pv ps p : find_pod pv ps = Some p -> In p ps /\ pkey p = pv.
Proof.
  induction ps as [|a t IH]; cbn [find_pod]; [discriminate|].
  destruct (pkey_eqb (pkey a) pv) eqn:E.
  - intros H; inversion H; subst. apply pkey_eqb_eq in E. split; [left; reflexivity|exact E].
  - intros H. destruct (IH H) as [H1 H2]. split; [right; exact H1|exact H2].
Qed.

Lemma find_pod_in ps p : NoDup (map pkey ps) -> In p ps -> find_pod (pkey p) ps = Some p.
Proof.
  induction ps as [|a t IH]; cbn [find_pod map]; intros Hnd Hin; [destruct Hin|].
  inversion Hnd as [|? ? Hni Hnd']; subst.
  destruct Hin as [->|Hin]; [rewrite pkey_eqb_refl; reflexivity|].
  destruct (pkey_eqb (pkey a) (pkey p)) eqn:E; [|apply IH; assumption].
  apply pkey_eqb_eq in E. exfalso. apply Hni. rewrite E. apply in_map. exact Hin.
Qed.

Lemma nodupb_NoDup l : nodupb l = true -> NoDup l.
Proof.
  induction l as [|x t IH]; cbn [nodupb]; intros H; [constructor|].
  apply andb_true_iff in H. destruct H as [H1 H2]. constructor; [|apply IH; exact H2].
  intros Hin. apply negb_true_iff in H1.
  assert (existsb (pkey_eqb x) t = true) as E.
  { apply existsb_exists. exists x. split; [exact Hin|apply pkey_eqb_refl]. }
  rewrite E in H1. discriminate.
Qed.

Lemma NoDup_map_filter {A B} (f : A -> B) (p : A -> bool) l :
  NoDup (map f l) -> NoDup (map f (filter p l)).
Proof.
  induction l as [|a t IH]; cbn [map filter]; intros H; [constructor|].
  inversion H as [|? ? Hni Hnd]; subst.
  destruct (p a); cbn [map]; [|apply IH; exact Hnd].
  constructor; [|apply IH; exact Hnd].
  intros Hin. apply Hni. apply in_map_iff in Hin. destruct Hin as [y [Hy Hin]].
  apply filter_In in Hin. rewrite <- Hy. apply in_map. apply Hin.
Qed.

Lemma is_nil_true {A} (l : list A) : is_nil l = true <-> l = [].
Proof. destruct l; cbn; split; intros H; try reflexivity; discriminate. Qed.
Lemma is_nil_false {A} (l : list A) : is_nil l = false <-> l <> [].
Proof. destruct l; cbn; split; intros H; try discriminate; try reflexivity; congruence. Qed.

(* ---------------------------------------------------------------- sorting keeps the elements *)
Lemma insert_by_in {A} (leb : A -> A -> bool) x y l : In y (insert_by leb x l) <-> y = x \/ In y l.
Proof.
  induction l as [|a t IH]; cbn [insert_by].
  - cbn. intuition.
  - destruct (leb x a); cbn [In]; [intuition|]. rewrite IH. cbn [In]. intuition.
Qed.
Lemma sort_by_in {A} (leb : A -> A -> bool) y l : In y (sort_by leb l) <-> In y l.
Proof.
  unfold sort_by. induction l as [|a t IH]; cbn [fold_right]; [reflexivity|].
  rewrite insert_by_in, IH. cbn [In]. intuition.
Qed.

(* ---------------------------------------------------------------- the checker is the Prop *)
Section Pass.
  Variable c : cfg.
  Variable tbl : list row.

  Lemma check_pass_sound prod evs : forall st st',
    check_pass c tbl prod evs st = (0, st') -> valid_pass c tbl prod st evs st'.
  Proof.
    induction evs as [|[x pv] t IH]; intros st st'; cbn [check_pass].
    - intros H; inversion H; subst. constructor.
    - destruct (find_row x tbl) as [r|] eqn:Er; [|discriminate].
      destruct (rcls r =? src_cls prod) eqn:Ec; cbn [negb]; [|discriminate].
      destruct (node_over prod r st) eqn:Eo; cbn [negb]; [|discriminate].
      destruct (is_nil (targets prod tbl)) eqn:Et; [discriminate|].
      destruct (all_pos (snd st)) eqn:Ea; cbn [negb]; [|discriminate].
      destruct (find_pod pv (r_pods prod r)) as [p|] eqn:Ep; [|discriminate].
      destruct (pfilt_ok p) eqn:Ef; cbn [negb]; [|discriminate].
      destruct (fit_ok c prod tbl p) eqn:Efit; cbn [negb]; [|discriminate].
      intros H. eapply vp_cons; eauto.
      + apply Z.eqb_eq. exact Ec.
      + apply is_nil_false. exact Et.
  Qed.

  Lemma check_pass_complete prod st evs st' :
    valid_pass c tbl prod st evs st' -> check_pass c tbl prod evs st = (0, st').
  Proof.
    induction 1 as [st|st x pv r p evs st' Hr Hc Ho Ht Ha Hp Hf Hfit Hv IH]; cbn [check_pass]; [reflexivity|].
    rewrite Hr. rewrite Hc, Z.eqb_refl. cbn [negb]. rewrite Ho. cbn [negb].
    apply is_nil_false in Ht. rewrite Ht. rewrite Ha. cbn [negb]. rewrite Hp, Hf. cbn [negb].
    rewrite Hfit. cbn [negb]. exact IH.
  Qed.

  Lemma check_pass_code0 prod evs st : fst (check_pass c tbl prod evs st) = 0 ->
    exists st', check_pass c tbl prod evs st = (0, st').
  Proof. destruct (check_pass c tbl prod evs st) as [k s]; cbn. intros ->. eauto. Qed.

  Lemma valid_pass_app prod st evs1 st1 evs2 st2 :
    valid_pass c tbl prod st evs1 st1 -> valid_pass c tbl prod st1 evs2 st2 ->
    valid_pass c tbl prod st (evs1 ++ evs2) st2.
  Proof.
    induction 1; intros Hsnd; cbn [app]; [exact Hsnd|]. eapply vp_cons; eauto.
  Qed.

  (* ---------------------------------------------------------------- evictPods *)
  Lemma evict_pods_dry prod r ps : forall st dm,
    cdry c = true -> fst (fst (evict_pods c prod r ps st dm)) = [].
  Proof.
    induction ps as [|p t IH]; intros st dm Hd; cbn [evict_pods]; [reflexivity|].
    destruct (node_over prod r st); cbn [negb]; [|reflexivity].
    destruct (all_pos (snd st)); cbn [negb]; [|reflexivity].
    destruct (pfilt_ok p); cbn [negb]; [|apply IH; exact Hd].
    rewrite Hd. apply IH. exact Hd.
  Qed.

  Lemma evict_pods_node prod r ps : forall st dm e,
    In e (fst (fst (evict_pods c prod r ps st dm))) -> fst e = rid r.
  Proof.
    induction ps as [|p t IH]; intros st dm e; cbn [evict_pods]; [intros []|].
    destruct (node_over prod r st); cbn [negb]; [|intros []].
    destruct (all_pos (snd st)); cbn [negb]; [|intros []].
    destruct (pfilt_ok p); cbn [negb]; [|apply IH].
    destruct (cdry c); [apply IH|].
    destruct (evict_pods c prod r t (apply_ev c (rid r) p st) dm) as [[evs st'] dm'] eqn:E.
    cbn [fst In]. intros [<-|Hin]; [reflexivity|].
    apply (IH (apply_ev c (rid r) p st) dm e). rewrite E. exact Hin.
  Qed.

  Lemma evict_pods_valid prod r :
    cdry c = false ->
    find_row (rid r) tbl = Some r -> rcls r = src_cls prod -> targets prod tbl <> [] ->
    forall ps st dm,
      (forall p, In p ps -> find_pod (pkey p) (r_pods prod r) = Some p /\ fit_ok c prod tbl p = true) ->
      valid_pass c tbl prod st (fst (fst (evict_pods c prod r ps st dm)))
                              (snd (fst (evict_pods c prod r ps st dm))).
  Proof.
    intros Hd Hr Hc Ht. induction ps as [|p t IH]; intros st dm Hps; cbn [evict_pods]; [constructor|].
    assert (forall q, In q t -> find_pod (pkey q) (r_pods prod r) = Some q /\ fit_ok c prod tbl q = true) as Hps'
      by (intros q Hq; apply Hps; right; exact Hq).
    destruct (node_over prod r st) eqn:Eo; cbn [negb]; [|constructor].
    destruct (all_pos (snd st)) eqn:Ea; cbn [negb]; [|constructor].
    destruct (pfilt_ok p) eqn:Ef; cbn [negb]; [|apply IH; exact Hps'].
    rewrite Hd.
    specialize (IH (apply_ev c (rid r) p st) dm Hps').
    destruct (evict_pods c prod r t (apply_ev c (rid r) p st) dm) as [[evs st'] dm'] eqn:E.
    cbn [fst snd] in *.
    destruct (Hps p (or_introl eq_refl)) as [Hfp Hfit].
    eapply vp_cons; eauto.
  Qed.

  (* the loop stops at once when the node is back under its high threshold or some headroom
     is used up *)
  Lemma evict_pods_stop prod r ps st dm :
    cont prod r st = false -> fst (fst (evict_pods c prod r ps st dm)) = [].
  Proof.
    unfold cont. intros H. destruct ps as [|p t]; cbn [evict_pods]; [reflexivity|].
    destruct (node_over prod r st) eqn:E1; cbn [negb andb] in *; [|reflexivity].
    rewrite H. reflexivity.
  Qed.

  (* ---------------------------------------------------------------- balancePods *)
  Lemma removable_in prod tg ps : forall um p,
    In p (fst (removable c prod tg ps um)) -> In p ps.
  Proof.
    induction ps as [|a t IH]; intros um p; cbn [removable]; [intros []|].
    destruct (pfilt_ok a); cbn [negb]; [|intros H; right; eapply IH; exact H].
    destruct (cfit c); cbn [negb].
    - destruct (pmet a); cbn [negb]; [|intros H; right; eapply IH; exact H].
      destruct (fit_any c prod a tg um) as [ok um1].
      destruct (removable c prod tg t um1) as [l um'] eqn:E.
      specialize (IH um1 p). rewrite E in IH. cbn [fst] in *.
      destruct ok; cbn [In]; intros H; [destruct H as [->|H]; [left; reflexivity|right; auto]|right; auto].
    - destruct (removable c prod tg t um) as [l um'] eqn:E.
      specialize (IH um p). rewrite E in IH. cbn [fst In] in *.
      intros [->|H]; [left; reflexivity|right; auto].
  Qed.

  Definition src_ok (prod : bool) (r : row) : Prop :=
    find_row (rid r) tbl = Some r /\ rcls r = src_cls prod /\ NoDup (map pkey (r_pods prod r)) /\
    (forall p, In p (r_pods prod r) -> 0 <= pcpu p /\ 0 <= pmem p).

  (* ---------------------------------------------------------------- NodeFit reservations *)
  (* what podFitsAnyNodeWithThreshold has reserved on a target is never below its measured usage *)
  Definition resv_inv (prod : bool) (resv : umap) : Prop :=
    forall t, In t (targets prod tbl) -> vle (r_use prod t) (uget (rid t) resv).

  Hypothesis Hids : NoDup (map rid tbl).
  Hypothesis Hdims : tbl_dims (dims c) tbl.

  Lemma targets_in prod t : In t (targets prod tbl) -> In t tbl.
  Proof.
    unfold targets, prod_targets, node_targets. destruct prod; intros H; apply in_app_or in H;
      destruct H as [H|H]; apply filter_In in H; apply H.
  Qed.

  Lemma r_use_length prod t : In t tbl -> length (r_use prod t) = dims c.
  Proof. intros H. destruct (Hdims t H) as [H1 [H2 _]]. destruct prod; assumption. Qed.

  Lemma resv_inv_init prod : resv_inv prod (init_umap prod tbl).
  Proof.
    intros t Ht. apply targets_in in Ht. rewrite uget_init, (find_row_in tbl t Hids Ht). apply vle_refl.
  Qed.

  Lemma fit_any_props prod p : 0 <= pcpu p -> 0 <= pmem p ->
    forall ts resv, (forall t, In t ts -> In t (targets prod tbl)) -> resv_inv prod resv ->
      resv_inv prod (snd (fit_any c prod p ts resv)) /\
      (fst (fit_any c prod p ts resv) = true ->
       existsb (fun t => negb (over (vadd (r_use prod t) (pfit c p)) (r_high prod t))) ts = true).
  Proof.
    intros N1 N2. destruct (pfit_props c p N1 N2) as [Q1 Q2].
    induction ts as [|t ts IH]; intros resv Hsub Hinv; cbn [fit_any existsb fst snd].
    - split; [exact Hinv|discriminate].
    - assert (In t (targets prod tbl)) as Ht by (apply Hsub; left; reflexivity).
      assert (forall t', In t' ts -> In t' (targets prod tbl)) as Hsub' by (intros t' H'; apply Hsub; right; exact H').
      destruct (over (vadd (uget (rid t) resv) (pfit c p)) (r_high prod t)) eqn:Eo.
      + destruct (IH resv Hsub' Hinv) as [I1 I2]. split; [exact I1|].
        intros H. apply orb_true_iff. right. apply I2. exact H.
      + cbn [fst snd]. pose proof (Hinv t Ht) as Hle. split.
        * intros t2 Ht2. rewrite uget_uset. destruct (rid t =? rid t2) eqn:E; [|apply Hinv; exact Ht2].
          apply Z.eqb_eq in E.
          assert (t2 = t) as ->.
          { pose proof (find_row_in tbl t Hids (targets_in prod t Ht)) as F1.
            pose proof (find_row_in tbl t2 Hids (targets_in prod t2 Ht2)) as F2.
            rewrite E in F1. congruence. }
          eapply vle_trans; [exact Hle|]. apply vle_vadd_nonneg; [|exact Q1].
          rewrite Q2, <- (vle_length _ _ Hle). symmetry. apply r_use_length. apply targets_in with prod. exact Ht.
        * intros _. apply orb_true_iff. left. apply negb_true_iff.
          destruct (over (vadd (r_use prod t) (pfit c p)) (r_high prod t)) eqn:Eo2; [|reflexivity].
          rewrite (over_mono (r_high prod t) _ _ (vadd_vle_mono (pfit c p) _ _ Hle) Eo2) in Eo. discriminate.
  Qed.

  Lemma removable_props prod ps : forall resv,
    (forall p, In p ps -> 0 <= pcpu p /\ 0 <= pmem p) -> resv_inv prod resv ->
    resv_inv prod (snd (removable c prod (targets prod tbl) ps resv)) /\
    forall p, In p (fst (removable c prod (targets prod tbl) ps resv)) ->
      In p ps /\ fit_ok c prod tbl p = true.
  Proof.
    induction ps as [|a t IH]; intros resv Hnn Hinv; cbn [removable fst snd]; [split; [exact Hinv|intros p []]|].
    assert (forall p, In p t -> 0 <= pcpu p /\ 0 <= pmem p) as Hnn' by (intros p H; apply Hnn; right; exact H).
    assert (forall resv', resv_inv prod resv' ->
              resv_inv prod (snd (removable c prod (targets prod tbl) t resv')) /\
              forall p, In p (fst (removable c prod (targets prod tbl) t resv')) ->
                In p (a :: t) /\ fit_ok c prod tbl p = true) as IH'.
    { intros resv' H'. destruct (IH resv' Hnn' H') as [I1 I2]. split; [exact I1|].
      intros p Hp. destruct (I2 p Hp). split; [right|]; assumption. }
    destruct (pfilt_ok a); cbn [negb]; [|apply IH'; exact Hinv].
    destruct (cfit c) eqn:Ef; cbn [negb].
    - destruct (pmet a) eqn:Em; cbn [negb]; [|apply IH'; exact Hinv].
      destruct (Hnn a (or_introl eq_refl)) as [N1 N2].
      destruct (fit_any_props prod a N1 N2 (targets prod tbl) resv (fun t H => H) Hinv) as [F1 F2].
      destruct (fit_any c prod a (targets prod tbl) resv) as [ok um1]. cbn [fst snd] in F1, F2.
      destruct (IH' um1 F1) as [I1 I2].
      destruct (removable c prod (targets prod tbl) t um1) as [l um']. cbn [fst snd] in *.
      split; [exact I1|]. destruct ok; cbn [In]; [|exact I2].
      intros p [<-|Hp]; [|apply I2; exact Hp].
      split; [left; reflexivity|]. unfold fit_ok. rewrite Ef, Em, (F2 eq_refl). reflexivity.
    - destruct (IH' resv Hinv) as [I1 I2].
      destruct (removable c prod (targets prod tbl) t resv) as [l um']. cbn [fst snd In] in *.
      split; [exact I1|]. intros p [<-|Hp]; [|apply I2; exact Hp].
      split; [left; reflexivity|]. unfold fit_ok. rewrite Ef. reflexivity.
  Qed.

  Lemma balance_pods_dry prod tg srcs : forall st resv dm,
    cdry c = true -> fst (fst (balance_pods c prod tg srcs st resv dm)) = [].
  Proof.
    induction srcs as [|r t IH]; intros st resv dm Hd; cbn [balance_pods]; [reflexivity|].
    destruct (removable c prod tg (r_pods prod r) resv) as [rem resv1].
    pose proof (evict_pods_dry prod r (sort_by pod_leb rem) st dm Hd) as H1.
    destruct (evict_pods c prod r (sort_by pod_leb rem) st dm) as [[evs1 st2] dm2].
    specialize (IH st2 resv1 dm2 Hd).
    destruct (balance_pods c prod tg t st2 resv1 dm2) as [[evs2 st3] dm3].
    cbn [fst] in *. subst. reflexivity.
  Qed.

  Lemma balance_pods_node prod tg srcs : forall st resv dm e,
    In e (fst (fst (balance_pods c prod tg srcs st resv dm))) -> exists r, In r srcs /\ fst e = rid r.
  Proof.
    induction srcs as [|r t IH]; intros st resv dm e; cbn [balance_pods]; [intros []|].
    destruct (removable c prod tg (r_pods prod r) resv) as [rem resv1].
    pose proof (evict_pods_node prod r (sort_by pod_leb rem) st dm e) as H1.
    destruct (evict_pods c prod r (sort_by pod_leb rem) st dm) as [[evs1 st2] dm2].
    specialize (IH st2 resv1 dm2 e).
    destruct (balance_pods c prod tg t st2 resv1 dm2) as [[evs2 st3] dm3].
    cbn [fst] in *. intros Hin. apply in_app_or in Hin. destruct Hin as [Hin|Hin].
    - exists r. split; [left; reflexivity|auto].
    - destruct (IH Hin) as [r' [Hr' He]]. exists r'. split; [right; exact Hr'|exact He].
  Qed.

  Lemma balance_pods_valid prod srcs :
    cdry c = false -> targets prod tbl <> [] ->
    forall st resv dm, (forall r, In r srcs -> src_ok prod r) -> resv_inv prod resv ->
      valid_pass c tbl prod st (fst (fst (balance_pods c prod (targets prod tbl) srcs st resv dm)))
                              (snd (fst (balance_pods c prod (targets prod tbl) srcs st resv dm))).
  Proof.
    intros Hd Ht. induction srcs as [|r t IH]; intros st resv dm Hs Hinv; cbn [balance_pods]; [constructor|].
    destruct (Hs r (or_introl eq_refl)) as [Hr [Hc [Hnd Hnn]]].
    destruct (removable_props prod (r_pods prod r) resv Hnn Hinv) as [Hinv1 Hrem].
    destruct (removable c prod (targets prod tbl) (r_pods prod r) resv) as [rem resv1].
    cbn [fst snd] in Hrem, Hinv1.
    assert (forall p, In p (sort_by pod_leb rem) ->
              find_pod (pkey p) (r_pods prod r) = Some p /\ fit_ok c prod tbl p = true) as Hps.
    { intros p Hp. apply sort_by_in in Hp. destruct (Hrem p Hp) as [H1 H2].
      split; [apply find_pod_in; assumption|exact H2]. }
    pose proof (evict_pods_valid prod r Hd Hr Hc Ht (sort_by pod_leb rem) st dm Hps) as H1.
    destruct (evict_pods c prod r (sort_by pod_leb rem) st dm) as [[evs1 st2] dm2].
    assert (forall r', In r' t -> src_ok prod r') as Hs' by (intros r' H'; apply Hs; right; exact H').
    specialize (IH st2 resv1 dm2 Hs' Hinv1).
    destruct (balance_pods c prod (targets prod tbl) t st2 resv1 dm2) as [[evs2 st3] dm3].
    cbn [fst snd] in *. eapply valid_pass_app; eauto.
  Qed.
End Pass.
