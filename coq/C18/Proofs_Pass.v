(* C18 — proofs, part 1: lookups, the checker is the Prop, one eviction pass is valid. *)
From Coq Require Import String List ZArith Bool Lia.
From Verif Require Import C18.Model C18.Spec.
Import ListNotations.
Open Scope Z_scope.

(* ---------------------------------------------------------------- lookups *)
Lemma find_row_some x tbl r : find_row x tbl = Some r -> In r tbl /\ rid r = x.
Proof.
  induction tbl as [|a t IH]; cbn [find_row]; [discriminate|].
  destruct (rid a =? x) eqn:E.
  - intros H; inversion H; subst. apply Z.eqb_eq in E. split; [left; reflexivity|exact E].
  - intros H. destruct (IH H) as [H1 H2]. split; [right; exact H1|exact H2].
Qed.

Lemma find_row_in tbl r : NoDup (map rid tbl) -> In r tbl -> find_row (rid r) tbl = Some r.
Proof.
  induction tbl as [|a t IH]; cbn [find_row map]; intros Hnd Hin; [destruct Hin|].
  inversion Hnd as [|? ? Hni Hnd']; subst.
  destruct Hin as [->|Hin]; [rewrite Z.eqb_refl; reflexivity|].
  destruct (rid a =? rid r) eqn:E; [|apply IH; assumption].
  apply Z.eqb_eq in E. exfalso. apply Hni. rewrite E. apply in_map. exact Hin.
Qed.

Lemma find_pod_some pv ps p : find_pod pv ps = Some p -> In p ps /\ pid p = pv.
Proof.
  induction ps as [|a t IH]; cbn [find_pod]; [discriminate|].
  destruct (pid a =? pv) eqn:E.
  - intros H; inversion H; subst. apply Z.eqb_eq in E. split; [left; reflexivity|exact E].
  - intros H. destruct (IH H) as [H1 H2]. split; [right; exact H1|exact H2].
Qed.

Lemma find_pod_in ps p : NoDup (map pid ps) -> In p ps -> find_pod (pid p) ps = Some p.
Proof.
  induction ps as [|a t IH]; cbn [find_pod map]; intros Hnd Hin; [destruct Hin|].
  inversion Hnd as [|? ? Hni Hnd']; subst.
  destruct Hin as [->|Hin]; [rewrite Z.eqb_refl; reflexivity|].
  destruct (pid a =? pid p) eqn:E; [|apply IH; assumption].
  apply Z.eqb_eq in E. exfalso. apply Hni. rewrite E. apply in_map. exact Hin.
Qed.

Lemma nodupb_NoDup l : nodupb l = true -> NoDup l.
Proof.
  induction l as [|x t IH]; cbn [nodupb]; intros H; [constructor|].
  apply andb_true_iff in H. destruct H as [H1 H2]. constructor; [|apply IH; exact H2].
  intros Hin. apply negb_true_iff in H1.
  assert (existsb (Z.eqb x) t = true) as E.
  { apply existsb_exists. exists x. split; [exact Hin|apply Z.eqb_refl]. }
  rewrite E in H1. discriminate.
Qed.

Lemma NoDup_map_filter {A B} (f : A -> B) (p : A -> bool) l :
  NoDup (map f l) -> NoDup (map f (filter p l)).
Proof.
  induction l as [|a t IH]; cbn [map filter]; intros H; [constructor|].
  inversion H as [|? ? Hni Hnd]; subst.
  destruct (p a); cbn [map]; [|apply IH; exact Hnd].
  constructor; [|apply IH; exact Hnd].
  intros Hin. apply Hni. apply in_map_iff in Hin. destruct Hin as [y [Hy Hin]].
  apply filter_In in Hin. rewrite <- Hy. apply in_map. apply Hin.
Qed.

Lemma is_nil_true {A} (l : list A) : is_nil l = true <-> l = [].
Proof. destruct l; cbn; split; intros H; try reflexivity; discriminate. Qed.
Lemma is_nil_false {A} (l : list A) : is_nil l = false <-> l <> [].
Proof. destruct l; cbn; split; intros H; try discriminate; try reflexivity; congruence. Qed.

(* ---------------------------------------------------------------- sorting keeps the elements *)
Lemma insert_by_in {A} (leb : A -> A -> bool) x y l : In y (insert_by leb x l) <-> y = x \/ In y l.
Proof.
  induction l as [|a t IH]; cbn [insert_by].
  - cbn. intuition.
  - destruct (leb x a); cbn [In]; [intuition|]. rewrite IH. cbn [In]. intuition.
Qed.
Lemma sort_by_in {A} (leb : A -> A -> bool) y l : In y (sort_by leb l) <-> In y l.
Proof.
  unfold sort_by. induction l as [|a t IH]; cbn [fold_right]; [reflexivity|].
  rewrite insert_by_in, IH. cbn [In]. intuition.
Qed.

(* ---------------------------------------------------------------- the checker is the Prop *)
Section Pass.
  Variable c : cfg.
  Variable tbl : list row.

  Lemma check_pass_sound prod evs : forall st st',
    check_pass c tbl prod evs st = (0, st') -> valid_pass c tbl prod st evs st'.
  Proof.
    induction evs as [|[x pv] t IH]; intros st st'; cbn [check_pass].
    - intros H; inversion H; subst. constructor.
    - destruct (find_row x tbl) as [r|] eqn:Er; [|discriminate].
      destruct (rcls r =? src_cls prod) eqn:Ec; cbn [negb]; [|discriminate].
      destruct (node_over prod r st) eqn:Eo; cbn [negb]; [|discriminate].
      destruct (is_nil (targets prod tbl)) eqn:Et; [discriminate|].
      destruct (all_pos (snd st)) eqn:Ea; cbn [negb]; [|discriminate].
      destruct (find_pod pv (r_pods prod r)) as [p|] eqn:Ep; [|discriminate].
      destruct (pfilt_ok p) eqn:Ef; cbn [negb]; [|discriminate].
      intros H. eapply vp_cons; eauto.
      + apply Z.eqb_eq. exact Ec.
      + apply is_nil_false. exact Et.
  Qed.

  Lemma check_pass_complete prod st evs st' :
    valid_pass c tbl prod st evs st' -> check_pass c tbl prod evs st = (0, st').
  Proof.
    induction 1 as [st|st x pv r p evs st' Hr Hc Ho Ht Ha Hp Hf Hv IH]; cbn [check_pass]; [reflexivity|].
    rewrite Hr. rewrite Hc, Z.eqb_refl. cbn [negb]. rewrite Ho. cbn [negb].
    apply is_nil_false in Ht. rewrite Ht. rewrite Ha. cbn [negb]. rewrite Hp, Hf. cbn [negb].
    exact IH.
  Qed.

  Lemma check_pass_code0 prod evs st : fst (check_pass c tbl prod evs st) = 0 ->
    exists st', check_pass c tbl prod evs st = (0, st').
  Proof. destruct (check_pass c tbl prod evs st) as [k s]; cbn. intros ->. eauto. Qed.

  Lemma valid_pass_app prod st evs1 st1 evs2 st2 :
    valid_pass c tbl prod st evs1 st1 -> valid_pass c tbl prod st1 evs2 st2 ->
    valid_pass c tbl prod st (evs1 ++ evs2) st2.
  Proof.
    induction 1; intros Hsnd; cbn [app]; [exact Hsnd|]. eapply vp_cons; eauto.
  Qed.

  (* ---------------------------------------------------------------- evictPods *)
  Lemma evict_pods_dry prod r ps : forall st dm,
    cdry c = true -> fst (fst (evict_pods c prod r ps st dm)) = [].
  Proof.
    induction ps as [|p t IH]; intros st dm Hd; cbn [evict_pods]; [reflexivity|].
    destruct (node_over prod r st); cbn [negb]; [|reflexivity].
    destruct (all_pos (snd st)); cbn [negb]; [|reflexivity].
    destruct (pfilt_ok p); cbn [negb]; [|apply IH; exact Hd].
    rewrite Hd. apply IH. exact Hd.
  Qed.

  Lemma evict_pods_node prod r ps : forall st dm e,
    In e (fst (fst (evict_pods c prod r ps st dm))) -> fst e = rid r.
  Proof.
    induction ps as [|p t IH]; intros st dm e; cbn [evict_pods]; [intros []|].
    destruct (node_over prod r st); cbn [negb]; [|intros []].
    destruct (all_pos (snd st)); cbn [negb]; [|intros []].
    destruct (pfilt_ok p); cbn [negb]; [|apply IH].
    destruct (cdry c); [apply IH|].
    destruct (evict_pods c prod r t (apply_ev c (rid r) p st) dm) as [[evs st'] dm'] eqn:E.
    cbn [fst In]. intros [<-|Hin]; [reflexivity|].
    apply (IH (apply_ev c (rid r) p st) dm e). rewrite E. exact Hin.
  Qed.

  Lemma evict_pods_valid prod r :
    cdry c = false ->
    find_row (rid r) tbl = Some r -> rcls r = src_cls prod -> targets prod tbl <> [] ->
    forall ps st dm,
      (forall p, In p ps -> find_pod (pid p) (r_pods prod r) = Some p) ->
      valid_pass c tbl prod st (fst (fst (evict_pods c prod r ps st dm)))
                              (snd (fst (evict_pods c prod r ps st dm))).
  Proof.
    intros Hd Hr Hc Ht. induction ps as [|p t IH]; intros st dm Hps; cbn [evict_pods]; [constructor|].
    assert (forall q, In q t -> find_pod (pid q) (r_pods prod r) = Some q) as Hps'
      by (intros q Hq; apply Hps; right; exact Hq).
    destruct (node_over prod r st) eqn:Eo; cbn [negb]; [|constructor].
    destruct (all_pos (snd st)) eqn:Ea; cbn [negb]; [|constructor].
    destruct (pfilt_ok p) eqn:Ef; cbn [negb]; [|apply IH; exact Hps'].
    rewrite Hd.
    specialize (IH (apply_ev c (rid r) p st) dm Hps').
    destruct (evict_pods c prod r t (apply_ev c (rid r) p st) dm) as [[evs st'] dm'] eqn:E.
    cbn [fst snd] in *.
    eapply vp_cons; eauto. apply Hps. left; reflexivity.
  Qed.

  (* the loop stops at once when the node is back under its high threshold or some headroom
     is used up *)
  Lemma evict_pods_stop prod r ps st dm :
    cont prod r st = false -> fst (fst (evict_pods c prod r ps st dm)) = [].
  Proof.
    unfold cont. intros H. destruct ps as [|p t]; cbn [evict_pods]; [reflexivity|].
    destruct (node_over prod r st) eqn:E1; cbn [negb andb] in *; [|reflexivity].
    rewrite H. reflexivity.
  Qed.

  (* ---------------------------------------------------------------- balancePods *)
  Lemma removable_in prod tg ps : forall um p,
    In p (fst (removable c prod tg ps um)) -> In p ps.
  Proof.
    induction ps as [|a t IH]; intros um p; cbn [removable]; [intros []|].
    destruct (pfilt_ok a); cbn [negb]; [|intros H; right; eapply IH; exact H].
    destruct (cfit c); cbn [negb].
    - destruct (pmet a); cbn [negb]; [|intros H; right; eapply IH; exact H].
      destruct (fit_any c prod a tg um) as [ok um1].
      destruct (removable c prod tg t um1) as [l um'] eqn:E.
      specialize (IH um1 p). rewrite E in IH. cbn [fst] in *.
      destruct ok; cbn [In]; intros H; [destruct H as [->|H]; [left; reflexivity|right; auto]|right; auto].
    - destruct (removable c prod tg t um) as [l um'] eqn:E.
      specialize (IH um p). rewrite E in IH. cbn [fst In] in *.
      intros [->|H]; [left; reflexivity|right; auto].
  Qed.

  Definition src_ok (prod : bool) (r : row) : Prop :=
    find_row (rid r) tbl = Some r /\ rcls r = src_cls prod /\ NoDup (map pid (r_pods prod r)).

  Lemma balance_pods_dry prod tg srcs : forall st resv dm,
    cdry c = true -> fst (fst (balance_pods c prod tg srcs st resv dm)) = [].
  Proof.
    induction srcs as [|r t IH]; intros st resv dm Hd; cbn [balance_pods]; [reflexivity|].
    destruct (removable c prod tg (r_pods prod r) resv) as [rem resv1].
    pose proof (evict_pods_dry prod r (sort_by pod_leb rem) st dm Hd) as H1.
    destruct (evict_pods c prod r (sort_by pod_leb rem) st dm) as [[evs1 st2] dm2].
    specialize (IH st2 resv1 dm2 Hd).
    destruct (balance_pods c prod tg t st2 resv1 dm2) as [[evs2 st3] dm3].
    cbn [fst] in *. subst. reflexivity.
  Qed.

  Lemma balance_pods_node prod tg srcs : forall st resv dm e,
    In e (fst (fst (balance_pods c prod tg srcs st resv dm))) -> exists r, In r srcs /\ fst e = rid r.
  Proof.
    induction srcs as [|r t IH]; intros st resv dm e; cbn [balance_pods]; [intros []|].
    destruct (removable c prod tg (r_pods prod r) resv) as [rem resv1].
    pose proof (evict_pods_node prod r (sort_by pod_leb rem) st dm e) as H1.
    destruct (evict_pods c prod r (sort_by pod_leb rem) st dm) as [[evs1 st2] dm2].
    specialize (IH st2 resv1 dm2 e).
    destruct (balance_pods c prod tg t st2 resv1 dm2) as [[evs2 st3] dm3].
    cbn [fst] in *. intros Hin. apply in_app_or in Hin. destruct Hin as [Hin|Hin].
    - exists r. split; [left; reflexivity|auto].
    - destruct (IH Hin) as [r' [Hr' He]]. exists r'. split; [right; exact Hr'|exact He].
  Qed.

  Lemma balance_pods_valid prod srcs :
    cdry c = false -> targets prod tbl <> [] ->
    forall st resv dm, (forall r, In r srcs -> src_ok prod r) ->
      valid_pass c tbl prod st (fst (fst (balance_pods c prod (targets prod tbl) srcs st resv dm)))
                              (snd (fst (balance_pods c prod (targets prod tbl) srcs st resv dm))).
  Proof.
    intros Hd Ht. induction srcs as [|r t IH]; intros st resv dm Hs; cbn [balance_pods]; [constructor|].
    destruct (Hs r (or_introl eq_refl)) as [Hr [Hc Hnd]].
    pose proof (removable_in prod (targets prod tbl) (r_pods prod r) resv) as Hrem.
    destruct (removable c prod (targets prod tbl) (r_pods prod r) resv) as [rem resv1].
    cbn [fst] in Hrem.
    assert (forall p, In p (sort_by pod_leb rem) -> find_pod (pid p) (r_pods prod r) = Some p) as Hps.
    { intros p Hp. apply find_pod_in; [exact Hnd|]. apply Hrem. apply sort_by_in in Hp. exact Hp. }
    pose proof (evict_pods_valid prod r Hd Hr Hc Ht (sort_by pod_leb rem) st dm Hps) as H1.
    destruct (evict_pods c prod r (sort_by pod_leb rem) st dm) as [[evs1 st2] dm2].
    assert (forall r', In r' t -> src_ok prod r') as Hs' by (intros r' H'; apply Hs; right; exact H').
    specialize (IH st2 resv1 dm2 Hs').
    destruct (balance_pods c prod (targets prod tbl) t st2 resv1 dm2) as [[evs2 st3] dm3].
    cbn [fst snd] in *. eapply valid_pass_app; eauto.
  Qed.
End Pass.
