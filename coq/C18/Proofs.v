(* C18 — proofs about the model (see Properties.v for the exported statements). *)
From Coq Require Import String List ZArith Bool Lia.
From Verif Require Import C18.Model C18.Spec.
Import ListNotations.
Open Scope Z_scope.

(* evictPods stops at once when the node is back under its threshold or the headroom is gone *)
Lemma evict_pods_stop c prod r ps st dm :
  cont prod r st = false -> fst (fst (evict_pods c prod r ps st dm)) = [].
Proof.
  unfold cont. intros H. destruct ps as [|p t]; cbn [evict_pods]; [reflexivity|].
  destruct (node_over prod r st) eqn:E1; cbn [negb andb] in *; [|reflexivity].
  rewrite H. reflexivity.
Qed.
