(* C18 — exported theorems only: each is closed by [exact] and followed by Print Assumptions. *)
From Coq Require Import String List ZArith Bool.
From Verif Require Import C18.Model C18.Spec C18.Proofs_Pass C18.Proofs_Round C18.Proofs_Gate
  C18.Proofs_Check C18.Proofs_Stop.
Import ListNotations.
Open Scope Z_scope.

(* MAIN: for every configuration, node set and finite history of Balance rounds (pod names
   unique on a node), the Evict calls of the model satisfy the property in every round:
   each call is on a node classified high / prod-high whose running estimate is above the
   high threshold at that moment, a low node exists for the pass, all headroom dimensions are
   still positive, the pod is one of the node's pods and passes the filters; nothing is
   evicted in dry-run mode or when no node is overloaded / none is underused / all are; and with
   anomaly gating a node is evicted from only after K earlier source rounds. *)
Theorem c18_main : forall c ns rounds,
  wf_rounds rounds = true -> C18_holds c ns rounds (map fst (run c ns rounds ([], []))).
Proof. exact main_holds. Qed.
Print Assumptions c18_main.

(* the decision procedure run on the implementation's observable decides exactly that Prop *)
Theorem c18_prop_code_decides : forall c ns rounds obs,
  prop_code c ns rounds obs = 0 <-> C18_holds c ns rounds obs.
Proof. exact prop_code_iff. Qed.
Print Assumptions c18_prop_code_decides.

Theorem c18_main_code : forall c ns rounds,
  wf_rounds rounds = true -> prop_code c ns rounds (map fst (run c ns rounds ([], []))) = 0.
Proof. exact main_prop_code. Qed.
Print Assumptions c18_main_code.

(* c18_source_overloaded / c18_needs_target / c18_filters, for ANY accepted sequence of Evict
   calls (model's or implementation's): the state [stm] reached by replaying the calls before
   it justifies each call *)
Theorem c18_every_eviction : forall c tbl prod st evs st',
  valid_pass c tbl prod st evs st' ->
  forall pre x pv post, evs = pre ++ (x, pv) :: post ->
  exists stm r p,
    valid_pass c tbl prod st pre stm /\
    find_row x tbl = Some r /\ rcls r = src_cls prod /\
    over (uget x (fst stm)) (r_high prod r) = true /\
    targets prod tbl <> [] /\ all_pos (snd stm) = true /\
    find_pod pv (r_pods prod r) = Some p /\ pfilt_ok p = true.
Proof. exact valid_pass_event. Qed.
Print Assumptions c18_every_eviction.

(* c18_stop: evictPods returns without a further call at the first moment the node is back
   under its high threshold or some headroom is used up ... *)
Theorem c18_stop_now : forall c prod r ps st dm,
  cont prod r st = false -> fst (fst (evict_pods c prod r ps st dm)) = [].
Proof. exact evict_pods_stop. Qed.
Print Assumptions c18_stop_now.

(* ... and (pod usages non-negative) no later call of the pass is on that node either *)
Theorem c18_stop_forever : forall c tbl prod,
  pods_nonneg tbl ->
  (forall r p, In r tbl -> In p (rprodpods r) -> In p (rall r)) ->
  forall st evs st' pre post stm r,
    st_dims (dims c) tbl st ->
    valid_pass c tbl prod st evs st' -> evs = pre ++ post ->
    valid_pass c tbl prod st pre stm ->
    cont prod r stm = false ->
    forall e, In e post -> find_row (fst e) tbl = Some r -> False.
Proof. exact stop_forever. Qed.
Print Assumptions c18_stop_forever.

(* the hypotheses of c18_stop_forever hold for the tables and initial states of the model *)
Theorem c18_table_dims : forall c ns rs, tbl_dims (dims c) (table c ns rs).
Proof. exact table_dims. Qed.
Print Assumptions c18_table_dims.
Theorem c18_init_state_dims : forall d tbl prod avail,
  tbl_dims d tbl -> NoDup (map rid tbl) -> length avail = d -> st_dims d tbl (init_state tbl prod avail).
Proof. exact init_state_dims. Qed.
Print Assumptions c18_init_state_dims.

(* c18_nothing_when *)
Theorem c18_nothing_when : forall c ns rs ds,
  wf_round rs = true ->
  nothing_cond (table c ns rs) (pool_size c ns rs) = true -> fst (balance c ns rs ds) = [].
Proof. exact nothing_when. Qed.
Print Assumptions c18_nothing_when.

Theorem c18_dry_run_silent : forall c ns rs ds,
  wf_round rs = true -> cdry c = true -> fst (balance c ns rs ds) = [].
Proof. exact dry_run_silent. Qed.
Print Assumptions c18_dry_run_silent.

(* c18_anomaly_gate, multi-round: detector invariant carried through one Balance round from
   ANY detector state satisfying it ... *)
Theorem c18_detector_round : forall c tbl psize ds h,
  tbl_wf tbl -> dstate_inv c h ds ->
  dstate_inv c (tbl :: h) (snd (process_pool c tbl psize ds)) /\
  gate_holds c h tbl (fst (process_pool c tbl psize ds)).
Proof. exact process_pool_gate. Qed.
Print Assumptions c18_detector_round.

(* ... hence in the i-th round of any history, with ConsecutiveAbnormalities = K <> 1, every
   Evict call is on a node that was a source (of the same kind) in at least K of the rounds
   0..i-1, and is one in round i *)
Theorem c18_anomaly_gate : forall c ns rounds i tbl ps evs,
  wf_rounds rounds = true ->
  nth_error (tables c ns rounds) i = Some (tbl, ps) ->
  nth_error (map fst (run c ns rounds ([], []))) i = Some evs ->
  round_holds c tbl ps evs /\
  gate_holds c (rev (map fst (firstn i (tables c ns rounds))) ++ []) tbl evs.
Proof.
  exact (fun c ns rounds i tbl ps evs H => hist_holds_nth c _ _ [] i tbl ps evs (main_holds c ns rounds H)).
Qed.
Print Assumptions c18_anomaly_gate.

(* the detector counts source rounds, it does not require them to be consecutive: the strict
   reading of the gate is refuted by the faithful model (finding C18-anomaly-not-consecutive) *)
Definition ex_cfg : cfg :=
  mkCfg 0 false false false false true 2 1
        [mkThr4 (-1) (-1) (-1) (-1); mkThr4 30 60 (-1) (-1); mkThr4 (-1) (-1) (-1) (-1)] [0; 1; 0].
Definition ex_nodes : list nstat := [mkNstat 4000 1000 10 true; mkNstat 4000 1000 10 true].
Definition ex_round (mem : Z) : list nround :=
  [mkNround false 1 0 0 [mkPod 1 5000 true 100 mem 7 true]; mkNround false 1 0 100 []].
(* node 1 at 80 %, 80 %, 50 % (between the thresholds), 80 % of memory; node 2 at 10 % *)
Definition ex_rounds : list (list nround) := [ex_round 800; ex_round 800; ex_round 500; ex_round 800].

Theorem c18_gate_consecutive_refuted :
  exists c ns rounds,
    wf_rounds rounds = true /\
    map fst (run c ns rounds ([], [])) = [[]; []; []; [(1, 1)]] /\
    strict_code c ns rounds (map fst (run c ns rounds ([], []))) = 7.
Proof. exists ex_cfg, ex_nodes, ex_rounds. vm_compute. repeat split. Qed.
Print Assumptions c18_gate_consecutive_refuted.

(* non-vacuity: the hypotheses are satisfiable and the model does evict *)
Example c18_nonvacuous_wf : wf_rounds ex_rounds = true.
Proof. reflexivity. Qed.
Example c18_nonvacuous_evicts :
  map fst (run ex_cfg ex_nodes [ex_round 800; ex_round 800; ex_round 800] ([], [])) = [[]; []; [(1, 1)]]
  /\ prop_code ex_cfg ex_nodes [ex_round 800; ex_round 800; ex_round 800] [[]; []; [(1, 1)]] = 0
  /\ prop_code ex_cfg ex_nodes [ex_round 800; ex_round 800; ex_round 800] [[]; [(1, 1)]; []] = 6
  /\ prop_code ex_cfg ex_nodes [ex_round 800; ex_round 800; ex_round 800] [[]; []; [(2, 1)]] = 1.
Proof. vm_compute. repeat split. Qed.
Example c18_nonvacuous_nothing :
  nothing_cond (table ex_cfg ex_nodes (ex_round 500)) (pool_size ex_cfg ex_nodes (ex_round 500)) = true.
Proof. vm_compute. reflexivity. Qed.
