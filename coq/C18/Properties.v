(* C18 — exported theorems only: each is closed by [exact] and followed by Print Assumptions. *)
From Coq Require Import String List ZArith Bool.
From Verif Require Import C18.Model C18.Spec C18.Proofs_Vec C18.Proofs_Pass C18.Proofs_Round C18.Proofs_Gate
  C18.Proofs_Check C18.Proofs_Stop.
Import ListNotations.
Open Scope Z_scope.

(* MAIN: for every configuration, node set and finite history of Balance rounds (pod names
   unique on a node, reported usages not negative), the Evict calls of the model satisfy the property in every round:
   each call is on a node classified high / prod-high whose running estimate is above the
   high threshold at that moment, a low node exists for the pass, all headroom dimensions are
   still positive, the pod is one of the node's pods, passes the filters and (NodeFit) reports
   usage that fits under the high threshold of some target; nothing is
   evicted in dry-run mode or when no node is overloaded / none is underused / all are; and with
   anomaly gating a node is evicted from only after K earlier source rounds. *)
(* [fx] selects the code variant: false = without, true = with the repair of finding
   C18-anomaly-not-consecutive ([Model.reset_on_normal] says which one /repo contains) *)
Theorem c18_main : forall fx c ns rounds,
  wf_rounds rounds = true -> C18_holds c ns rounds (map fst (run_gen fx c ns rounds ([], []))).
Proof. exact main_holds_gen. Qed.
Print Assumptions c18_main.

(* the decision procedure run on the implementation's observable decides exactly that Prop *)
Theorem c18_prop_code_decides : forall c ns rounds obs,
  prop_code c ns rounds obs = 0 <-> C18_holds c ns rounds obs.
Proof. exact prop_code_iff. Qed.
Print Assumptions c18_prop_code_decides.

Theorem c18_main_code : forall fx c ns rounds,
  wf_rounds rounds = true -> prop_code c ns rounds (map fst (run_gen fx c ns rounds ([], []))) = 0.
Proof. exact main_prop_code. Qed.
Print Assumptions c18_main_code.

(* c18_source_overloaded / c18_needs_target / c18_filters, for ANY accepted sequence of Evict
   calls (model's or implementation's): the state [stm] reached by replaying the calls before
   it justifies each call *)
Theorem c18_every_eviction : forall c tbl prod st evs st',
  valid_pass c tbl prod st evs st' ->
  forall pre x pv post, evs = pre ++ (x, pv) :: post ->
  exists stm r p,
    valid_pass c tbl prod st pre stm /\
    find_row x tbl = Some r /\ rcls r = src_cls prod /\
    over (uget x (fst stm)) (r_high prod r) = true /\
    targets prod tbl <> [] /\ all_pos (snd stm) = true /\
    find_pod pv (r_pods prod r) = Some p /\ pfilt_ok p = true /\ fit_ok c prod tbl p = true.
Proof. exact valid_pass_event. Qed.
Print Assumptions c18_every_eviction.

(* c18_stop: evictPods returns without a further call at the first moment the node is back
   under its high threshold or some headroom is used up ... *)
Theorem c18_stop_now : forall c prod r ps st dm,
  cont prod r st = false -> fst (fst (evict_pods c prod r ps st dm)) = [].
Proof. exact evict_pods_stop. Qed.
Print Assumptions c18_stop_now.

(* ... and (pod usages non-negative) no later call of the pass is on that node either *)
Theorem c18_stop_forever : forall c tbl prod,
  pods_nonneg tbl ->
  (forall r p, In r tbl -> In p (rprodpods r) -> In p (rall r)) ->
  forall st evs st' pre post stm r,
    st_dims (dims c) tbl st ->
    valid_pass c tbl prod st evs st' -> evs = pre ++ post ->
    valid_pass c tbl prod st pre stm ->
    cont prod r stm = false ->
    forall e, In e post -> find_row (fst e) tbl = Some r -> False.
Proof. exact stop_forever. Qed.
Print Assumptions c18_stop_forever.

(* the hypotheses of c18_stop_forever hold for the tables and initial states of the model *)
Theorem c18_table_dims : forall c ns rs, tbl_dims (dims c) (table c ns rs).
Proof. exact table_dims. Qed.
Print Assumptions c18_table_dims.
Theorem c18_init_state_dims : forall d tbl prod avail,
  tbl_dims d tbl -> NoDup (map rid tbl) -> length avail = d -> st_dims d tbl (init_state tbl prod avail).
Proof. exact init_state_dims. Qed.
Print Assumptions c18_init_state_dims.

Theorem c18_table_wf : forall c ns rs, wf_round rs = true -> tbl_wf c (table c ns rs).
Proof. exact table_wf. Qed.
Print Assumptions c18_table_wf.

(* c18_nothing_when *)
Theorem c18_nothing_when : forall fx c ns rs ds,
  wf_round rs = true ->
  nothing_cond (table c ns rs) (pool_size c ns rs) = true -> fst (balance_gen fx c ns rs ds) = [].
Proof. exact nothing_when. Qed.
Print Assumptions c18_nothing_when.

Theorem c18_dry_run_silent : forall fx c ns rs ds,
  wf_round rs = true -> cdry c = true -> fst (balance_gen fx c ns rs ds) = [].
Proof. exact dry_run_silent. Qed.
Print Assumptions c18_dry_run_silent.

(* c18_anomaly_gate, multi-round: the detector invariant (counter <= mu, anomaly state only
   after more than K) is carried through one Balance round from ANY cache state satisfying the
   round's precondition, for any measure mu of "rounds as a source" that is non-negative and
   grows by one in a source round *)
Theorem c18_detector_round : forall c mu,
  (forall prod x h, 0 <= mu prod x h) ->
  (forall prod x t h, was_src prod x t = true -> mu prod x (t :: h) = 1 + mu prod x h) ->
  forall tbl psize ds h,
  tbl_wf c tbl -> pre_inv c mu tbl h ds ->
  dstate_inv c mu (tbl :: h) (snd (process_pool c tbl psize ds)) /\
  gate_mu c mu h tbl (fst (process_pool c tbl psize ds)).
Proof. exact process_pool_gate. Qed.
Print Assumptions c18_detector_round.

(* both variants: in the i-th round of any history, with ConsecutiveAbnormalities = K <> 1, every
   Evict call is on a node that is a source in round i and was one (of the same kind) in at
   least K of the rounds 0..i-1 *)
Theorem c18_anomaly_gate_counting : forall fx c ns rounds i tbl ps evs,
  wf_rounds rounds = true ->
  nth_error (tables c ns rounds) i = Some (tbl, ps) ->
  nth_error (map fst (run_gen fx c ns rounds ([], []))) i = Some evs ->
  round_holds c tbl ps evs /\
  gate_holds c (rev (map fst (firstn i (tables c ns rounds))) ++ []) tbl evs.
Proof.
  exact (fun fx c ns rounds i tbl ps evs H => hist_holds_nth c _ _ [] i tbl ps evs (main_holds_gen fx c ns rounds H)).
Qed.
Print Assumptions c18_anomaly_gate_counting.

(* FULL STRENGTH, repaired variant: ... and was one in each of the K rounds i-K..i-1
   (strict_gate_holds: K <= length of the run of source rounds that ends at round i-1) *)
Theorem c18_anomaly_gate : forall c ns rounds i tbl ps evs,
  wf_rounds rounds = true ->
  nth_error (tables c ns rounds) i = Some (tbl, ps) ->
  nth_error (map fst (run_gen true c ns rounds ([], []))) i = Some evs ->
  strict_gate_holds c (rev (map fst (firstn i (tables c ns rounds))) ++ []) tbl evs.
Proof.
  exact (fun c ns rounds i tbl ps evs H => strict_hist_nth c _ _ [] i tbl ps evs (strict_holds_fixed c ns rounds H)).
Qed.
Print Assumptions c18_anomaly_gate.

Theorem c18_strict_code_fixed : forall c ns rounds,
  wf_rounds rounds = true -> strict_code c ns rounds (map fst (run_gen true c ns rounds ([], []))) = 0.
Proof. exact main_strict_code_fixed. Qed.
Print Assumptions c18_strict_code_fixed.

(* WITHOUT the repair the detector counts source rounds, it does not require them to be
   consecutive: the strict reading of the gate is refuted by the faithful model of the
   unrepaired code (finding C18-anomaly-not-consecutive) *)
Definition ex_cfg : cfg :=
  mkCfg 0 false false false false true 2 1
        [mkThr4 (-1) (-1) (-1) (-1); mkThr4 30 60 (-1) (-1); mkThr4 (-1) (-1) (-1) (-1)] [0; 1; 0].
Definition ex_nodes : list nstat := [mkNstat 4000 1000 10 true; mkNstat 4000 1000 10 true].
Definition ex_round (mem : Z) : list nround :=
  [mkNround false 1 0 0 [mkPod 1 0 5000 true 100 mem 3 true]; mkNround false 1 0 100 []].
(* node 1 at 80 %, 80 %, 50 % (between the thresholds), 80 % of memory; node 2 at 10 % *)
Definition ex_rounds : list (list nround) := [ex_round 800; ex_round 800; ex_round 500; ex_round 800].

Theorem c18_gate_consecutive_refuted :
  exists c ns rounds,
    wf_rounds rounds = true /\
    map fst (run_gen false c ns rounds ([], [])) = [[]; []; []; [(1, (0, 1))]] /\
    strict_code c ns rounds (map fst (run_gen false c ns rounds ([], []))) = 7 /\
    map fst (run_gen true c ns rounds ([], [])) = [[]; []; []; []].
Proof. exists ex_cfg, ex_nodes, ex_rounds. vm_compute. repeat split. Qed.
Print Assumptions c18_gate_consecutive_refuted.

(* non-vacuity: the hypotheses are satisfiable and the model does evict *)
Example c18_nonvacuous_wf : wf_rounds ex_rounds = true.
Proof. reflexivity. Qed.
Example c18_nonvacuous_evicts :
  map fst (run_gen false ex_cfg ex_nodes [ex_round 800; ex_round 800; ex_round 800] ([], [])) = [[]; []; [(1, (0, 1))]]
  /\ map fst (run_gen true ex_cfg ex_nodes [ex_round 800; ex_round 800; ex_round 800] ([], [])) = [[]; []; [(1, (0, 1))]]
  /\ prop_code ex_cfg ex_nodes [ex_round 800; ex_round 800; ex_round 800] [[]; []; [(1, (0, 1))]] = 0
  /\ prop_code ex_cfg ex_nodes [ex_round 800; ex_round 800; ex_round 800] [[]; [(1, (0, 1))]; []] = 6
  /\ prop_code ex_cfg ex_nodes [ex_round 800; ex_round 800; ex_round 800] [[]; []; [(2, (0, 1))]] = 1.
Proof. vm_compute. repeat split. Qed.
Example c18_nonvacuous_nothing :
  nothing_cond (table ex_cfg ex_nodes (ex_round 500)) (pool_size ex_cfg ex_nodes (ex_round 500)) = true.
Proof. vm_compute. reflexivity. Qed.

(* NodeFit on: node 1's only pod (80 % of the memory) on top of node 2's 10 % does not fit under
   node 2's 60 % -> nothing is evicted, and the decision procedure rejects an observable that
   does (clause 10); of two 40 % pods only the first fits once its usage is reserved *)
Definition ex_cfg_fit : cfg :=
  mkCfg 0 false true false false false 0 0
        [mkThr4 (-1) (-1) (-1) (-1); mkThr4 30 60 (-1) (-1); mkThr4 (-1) (-1) (-1) (-1)] [0; 1; 0].
Definition ex_round_fit (other : Z) : list nround :=
  [mkNround false 1 0 0 [mkPod 1 0 5000 true 100 800 3 true]; mkNround false 1 0 other []].
Example c18_nonvacuous_nodefit :
  map fst (run_gen false ex_cfg_fit ex_nodes [ex_round_fit 100] ([], [])) = [[]]
  /\ prop_code ex_cfg_fit ex_nodes [ex_round_fit 100] [[(1, (0, 1))]] = 10
  /\ map fst (run_gen false ex_cfg_fit ex_nodes [[mkNround false 1 0 0 [mkPod 1 0 5000 true 100 400 3 true; mkPod 2 0 5001 true 0 400 3 true];
                                        mkNround false 1 0 100 []]] ([], [])) = [[(1, (0, 1))]].
Proof. vm_compute. repeat split. Qed.

(* (namespace, name) identity: a prod pod and a batch pod with the same name in two namespaces on
   node 1; only the prod pod's 40 % counts as prod usage (prod high 50 %), so the node is not
   prod-overloaded and an Evict of the prod pod is rejected (clause 5: nobody is overloaded) *)
Definition ex_cfg_twin : cfg :=
  mkCfg 0 false false false false false 0 0
        [mkThr4 (-1) (-1) (-1) (-1); mkThr4 90 95 20 50; mkThr4 (-1) (-1) (-1) (-1)] [0; 1; 0].
Definition ex_round_twin : list nround :=
  [mkNround false 1 0 0 [mkPod 1 0 9000 true 100 400 3 true; mkPod 1 1 5000 true 100 400 3 true];
   mkNround false 1 0 100 []].
Example c18_nonvacuous_twin :
  wf_rounds [ex_round_twin] = true
  /\ map fst (run_gen true ex_cfg_twin ex_nodes [ex_round_twin] ([], [])) = [[]]
  /\ prop_code ex_cfg_twin ex_nodes [ex_round_twin] [[(1, (0, 1))]] = 5.
Proof. vm_compute. repeat split. Qed.
