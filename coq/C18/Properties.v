(* C18 — exported theorems only: each is closed by [exact] and followed by Print Assumptions. *)
From Coq Require Import String List ZArith Bool.
From Verif Require Import C18.Model C18.Spec C18.Proofs_Vec C18.Proofs_Pass C18.Proofs_Round C18.Proofs_Gate
  C18.Proofs_Steps C18.Proofs_Multi C18.Proofs_Check C18.Proofs_Stop.
Import ListNotations.
Open Scope Z_scope.

(* The model: a plugin instance with a LIST of node pools [bc], a node set [ns] and a finite
   history [rounds] of Balance calls. [fx] / [fxp] select the code variant: [fx] = with the repair
   of finding C18-anomaly-not-consecutive (in /repo since a46910e), [fxp] = with the repair of
   finding C18-processed-nodes ([Model.reset_on_normal], [Model.processed_repaired] say what /repo
   contains). [tables] are the pools (configuration, node ids, usage / threshold table) of every
   round; [observed] the Evict calls of every round.

   C18_holds strict: in every round the calls split into one segment per pool, in pool order, and
   in its segment each call is on a node classified high / prod-high by that pool whose running
   estimate — counting what this pool AND the earlier pools of the same Balance call have already
   evicted from it — is above the high threshold at that moment, a low node exists for the pass,
   all headroom dimensions are still positive, the pod is one of the node's pods, passes the
   filters and (NodeFit) reports usage that fits under the high threshold of some target; nothing
   is evicted in dry-run mode or by a pool in which no node is overloaded / none is underused /
   all are; with anomaly gating a node is evicted from only after K earlier source rounds
   (strict = true: after K source rounds immediately before this one). *)

(* MAIN 1: pools that no node belongs to twice — every variant of the code. For [fx] = true (what
   /repo contains) this includes the strict reading of the gate. *)
Theorem c18_main : forall fx fxp bc ns rounds,
  wf_rounds rounds = true -> disjoint_pools bc ns = true ->
  C18_holds fx (tables fx fxp bc ns rounds) (observed (run_gen fx fxp bc ns rounds ([], []))).
Proof. exact main_disjoint. Qed.
Print Assumptions c18_main.

(* MAIN 2: ANY list of pools (overlapping selectors, catch-all pools, nil selectors), without the
   anomaly gate, for the variant with the processedNodes repair *)
Theorem c18_main_overlap_repaired : forall fx bc ns rounds,
  wf_rounds rounds = true -> no_gating bc = true ->
  C18_holds true (tables fx true bc ns rounds) (observed (run_gen fx true bc ns rounds ([], []))).
Proof. exact main_repaired. Qed.
Print Assumptions c18_main_overlap_repaired.

(* MAIN 3: ANY list of pools without the anomaly gate, EVERY variant (in particular the code as it
   is): the property holds for every history in which no pool looks at a node that an earlier pool of
   the same Balance call has evicted from — re-entry is the only way in which the model can fail
   (finding C18-processed-nodes shows that it does happen) *)
Theorem c18_main_overlap_no_reentry : forall fx fxp bc ns rounds,
  wf_rounds rounds = true -> no_gating bc = true ->
  run_no_reentry (run_gen fx fxp bc ns rounds ([], [])) ->
  C18_holds true (tables fx fxp bc ns rounds) (observed (run_gen fx fxp bc ns rounds ([], []))).
Proof. exact main_noreentry. Qed.
Print Assumptions c18_main_overlap_no_reentry.
Theorem c18_no_reentry_test : forall res, run_no_reentryb res = true -> run_no_reentry res.
Proof. exact run_no_reentryb_ok. Qed.
Print Assumptions c18_no_reentry_test.

(* the decision procedure run on the implementation's observable decides exactly that Prop *)
Theorem c18_prop_code_decides : forall tbls obs, prop_code tbls obs = 0 <-> C18_holds true tbls obs.
Proof. exact prop_code_iff. Qed.
Print Assumptions c18_prop_code_decides.
Theorem c18_hist_ok_decides : forall strict tbls obs, hist_ok strict tbls obs [] = true <-> C18_holds strict tbls obs.
Proof. exact (fun strict tbls obs => hist_ok_iff strict tbls obs []). Qed.
Print Assumptions c18_hist_ok_decides.
Theorem c18_strict_implies_counting : forall tbls obs, C18_holds true tbls obs -> C18_holds false tbls obs.
Proof. exact (fun tbls obs => hist_holds_weaken tbls obs []). Qed.
Print Assumptions c18_strict_implies_counting.

Theorem c18_main_code : forall fxp bc ns rounds,
  wf_rounds rounds = true -> disjoint_pools bc ns = true ->
  prop_code (tables true fxp bc ns rounds) (observed (run_gen true fxp bc ns rounds ([], []))) = 0.
Proof. exact main_prop_code. Qed.
Print Assumptions c18_main_code.
Theorem c18_main_code_repaired : forall fx bc ns rounds,
  wf_rounds rounds = true -> no_gating bc = true ->
  prop_code (tables fx true bc ns rounds) (observed (run_gen fx true bc ns rounds ([], []))) = 0.
Proof. exact main_prop_code_repaired. Qed.
Print Assumptions c18_main_code_repaired.

(* c18_source_overloaded / c18_needs_target / c18_filters, for ANY accepted sequence of Evict
   calls (model's or implementation's): the state [stm] reached by replaying the calls before
   it justifies each call *)
Theorem c18_every_eviction : forall c tbl prod st evs st',
  valid_pass c tbl prod st evs st' ->
  forall pre x pv post, evs = pre ++ (x, pv) :: post ->
  exists stm r p,
    valid_pass c tbl prod st pre stm /\
    find_row x tbl = Some r /\ rcls r = src_cls prod /\
    over (uget x (fst stm)) (r_high prod r) = true /\
    targets prod tbl <> [] /\ all_pos (snd stm) = true /\
    find_pod pv (r_pods prod r) = Some p /\ pfilt_ok p = true /\ fit_ok c prod tbl p = true.
Proof. exact valid_pass_event. Qed.
Print Assumptions c18_every_eviction.

(* every pool of an accepted round has its segment: a valid round of that pool, started from the
   estimates the earlier pools left behind *)
Theorem c18_every_pool : forall strict pts cum hist evs,
  pools_hold strict pts cum hist evs ->
  forall pt, In pt pts -> exists cum' seg, incl seg evs /\ seg_holds strict pt cum' hist seg.
Proof. exact pools_hold_seg. Qed.
Print Assumptions c18_every_pool.

(* c18_stop: evictPods returns without a further call at the first moment the node is back
   under its high threshold or some headroom is used up ... *)
Theorem c18_stop_now : forall c prod r ps st dm,
  cont prod r st = false -> fst (fst (evict_pods c prod r ps st dm)) = [].
Proof. exact evict_pods_stop. Qed.
Print Assumptions c18_stop_now.

(* ... and (pod usages non-negative) no later call of the pass is on that node either *)
Theorem c18_stop_forever : forall c tbl prod,
  pods_nonneg tbl ->
  (forall r p, In r tbl -> In p (rprodpods r) -> In p (rall r)) ->
  forall st evs st' pre post stm r,
    st_dims (dims c) tbl st ->
    valid_pass c tbl prod st evs st' -> evs = pre ++ post ->
    valid_pass c tbl prod st pre stm ->
    cont prod r stm = false ->
    forall e, In e post -> find_row (fst e) tbl = Some r -> False.
Proof. exact stop_forever. Qed.
Print Assumptions c18_stop_forever.

(* ... nor, in the variant with the processedNodes repair, any call of a LATER pool of the same
   Balance call: no later pool looks at a node that has been evicted from ([E]: the nodes evicted
   from so far; [processed]: processedNodes) *)
Theorem c18_no_reentry_repaired : forall fx ns rs,
  wf_round rs = true -> forall bc processed ds E,
  incl E processed -> no_reentry (fst (pools_run fx true bc ns rs processed ds)) E.
Proof. exact no_reentry_repaired. Qed.
Print Assumptions c18_no_reentry_repaired.

(* the hypotheses of c18_stop_forever hold for the tables and initial states of the model *)
Theorem c18_table_dims : forall c pool, tbl_dims (dims c) (table_of c pool).
Proof. exact table_dims. Qed.
Print Assumptions c18_table_dims.
Theorem c18_init_state_dims : forall d tbl prod avail,
  tbl_dims d tbl -> NoDup (map rid tbl) -> length avail = d -> st_dims d tbl (init_state tbl prod avail).
Proof. exact init_state_dims. Qed.
Print Assumptions c18_init_state_dims.

Theorem c18_table_wf : forall fxp c processed ns rs,
  wf_round rs = true -> tbl_wf c (table_of c (pool_nodes fxp c processed ns rs)).
Proof. exact table_wf. Qed.
Print Assumptions c18_table_wf.

(* with pairwise disjoint pools no node is looked at by two pools of a Balance call *)
Theorem c18_round_disjoint : forall fx fxp bc ns rs ds,
  wf_round rs = true -> disjoint_pools bc ns = true ->
  round_wf (steps_of (map fst (fst (balance_gen fx fxp bc ns rs ds)))).
Proof. exact balance_round_wf. Qed.
Print Assumptions c18_round_disjoint.

(* c18_nothing_when, per pool of a Balance call *)
Theorem c18_nothing_when : forall fx fxp bc ns rs ds q,
  wf_round rs = true -> In q (fst (balance_gen fx fxp bc ns rs ds)) ->
  nothing_cond (pt_tbl (fst q)) (pt_size (fst q)) = true -> snd q = [].
Proof. exact nothing_when. Qed.
Print Assumptions c18_nothing_when.

Theorem c18_dry_run_silent : forall fx fxp bc ns rs ds,
  wf_round rs = true -> (forall c, In c bc -> cdry c = true) ->
  evs_of (fst (balance_gen fx fxp bc ns rs ds)) = [].
Proof. exact dry_run_silent. Qed.
Print Assumptions c18_dry_run_silent.

(* c18_anomaly_gate, one pool step: the detector invariant (counter <= mu, anomaly state only
   after more than K) is carried through processOneNodePool from ANY cache state satisfying the
   step's precondition, for any measure mu of "steps as a source" that is non-negative and
   grows by one in a source step; [kof x] = the ConsecutiveAbnormalities the detector of node x
   was created with *)
Theorem c18_detector_step : forall c kof mu,
  (forall prod x h, 0 <= mu prod x h) ->
  (forall prod x (t : stepT) h, was_src prod x (snd t) = true -> mu prod x (t :: h) = 1 + mu prod x h) ->
  forall ids tbl psize ds h,
  tbl_wf c tbl -> (forall r, In r tbl -> kof (rid r) = cK c) -> pre_inv kof mu ids tbl h ds ->
  dstate_inv kof mu ((ids, tbl) :: h) (snd (process_pool c tbl psize ds)) /\
  gate_mu c mu h tbl (fst (process_pool c tbl psize ds)).
Proof. exact process_pool_gate. Qed.
Print Assumptions c18_detector_step.

(* per-round view: in the i-th round of any history over disjoint pools the calls split over the
   pools of that round, each segment satisfying the property of its pool with the gate judged
   against rounds 0..i-1 *)
Theorem c18_round_view : forall fx fxp bc ns rounds i pts evs,
  wf_rounds rounds = true -> disjoint_pools bc ns = true ->
  nth_error (tables fx fxp bc ns rounds) i = Some pts ->
  nth_error (observed (run_gen fx fxp bc ns rounds ([], []))) i = Some evs ->
  pools_hold fx pts [] (rev (map steps_of (firstn i (tables fx fxp bc ns rounds))) ++ []) evs.
Proof.
  exact (fun fx fxp bc ns rounds i pts evs H1 H2 =>
           hist_holds_nth fx _ _ [] i pts evs (main_disjoint fx fxp bc ns rounds H1 H2)).
Qed.
Print Assumptions c18_round_view.

(* FULL STRENGTH of the anomaly gate, variant with the anomaly repair, disjoint pools: in round i a
   node is evicted from only if it was a source in each of the K rounds i-K..i-1 — this is the
   [strict = true] part of c18_main; spelled out for one segment: *)
Theorem c18_anomaly_gate : forall pt cum hist seg,
  seg_holds true pt cum hist seg -> strict_gate_holds (pt_cfg pt) hist (pt_tbl pt) seg.
Proof. exact (fun pt cum hist seg H => proj2 (proj2 H) eq_refl). Qed.
Print Assumptions c18_anomaly_gate.

(* ------------------------------------------------------------------------------------------ *)
(* Witnesses. Two nodes with label "a", 1000 bytes of memory each; only memory is looked at. *)
Definition none4 : thr4 := mkThr4 (-1) (-1) (-1) (-1).
Definition ex_nodes : list nstat := [mkNstat 4000 1000 10 1 0 0 0 0; mkNstat 4000 1000 10 1 0 0 0 0].

(* WITHOUT the anomaly repair the detector counts source rounds, it does not require them to be
   consecutive: the strict reading of the gate is refuted by the model of the unrepaired code
   (finding C18-anomaly-not-consecutive, repaired in /repo by a46910e) *)
Definition ex_cfg : cfg :=
  mkCfg 0 false false 0 false true 2 1 [none4; mkThr4 30 60 (-1) (-1); none4] [0; 1; 0].
Definition ex_round (mem : Z) : list nround :=
  [mkNround false 1 0 0 [mkPod 1 0 5000 true 100 mem 3 true] []; mkNround false 1 0 100 [] []].
(* node 1 at 80 %, 80 %, 50 % (between the thresholds), 80 % of memory; node 2 at 10 % *)
Definition ex_rounds : list (list nround) := [ex_round 800; ex_round 800; ex_round 500; ex_round 800].

Theorem c18_gate_consecutive_refuted :
  exists bc ns rounds,
    wf_rounds rounds = true /\ disjoint_pools bc ns = true /\
    observed (run_gen false false bc ns rounds ([], [])) = [[]; []; []; [(1, (0, 1))]] /\
    prop_code (tables false false bc ns rounds) (observed (run_gen false false bc ns rounds ([], []))) = 7 /\
    observed (run_gen true false bc ns rounds ([], [])) = [[]; []; []; []].
Proof. exists [ex_cfg], ex_nodes, ex_rounds. vm_compute. repeat split. Qed.
Print Assumptions c18_gate_consecutive_refuted.

(* node 1: eight pods of 100 bytes (80 %), node 2: one pod (10 %); [prio0] = 9000: prod pods on node 1 *)
Definition ex_hot_cold (prio0 : Z) : list nround :=
  [mkNround false 1 0 0 (map (fun i => mkPod i 0 (prio0 + i) true 0 100 3 true) [1; 2; 3; 4; 5; 6; 7; 8]) [];
   mkNround false 1 0 0 [mkPod 9 0 5000 true 0 100 3 true] []].
(* memory low 30 % high 50 % *)
Definition ex_pool (sel : Z) (anom : bool) (K : Z) : cfg :=
  mkCfg 0 false false sel false anom K 1 [none4; mkThr4 30 50 (-1) (-1); none4] [0; 1; 0].
(* memory low 90 % high 95 %, prod low 20 % prod high 50 % *)
Definition ex_pool_prod (sel : Z) : cfg :=
  mkCfg 0 false false sel false false 0 0 [none4; mkThr4 90 95 20 50; none4] [0; 1; 0].

(* FINDING C18-processed-nodes (a): a dedicated pool (matchLabels a) followed by a catch-all pool
   with a NIL selector. The first pool relieves node 1 down to its high threshold (3 pods); the nil
   pool ignores processedNodes, sees the stale measured 80 % and evicts 3 more: clause 11. With the
   repair the catch-all pool leaves node 1 alone. *)
Theorem c18_reentry_nil_refuted :
  exists bc ns rounds,
    wf_rounds rounds = true /\ no_gating bc = true /\
    observed (run_gen true false bc ns rounds ([], []))
      = [[(1, (0, 1)); (1, (0, 2)); (1, (0, 3)); (1, (0, 1)); (1, (0, 2)); (1, (0, 3))]] /\
    prop_code (tables true false bc ns rounds) (observed (run_gen true false bc ns rounds ([], []))) = 11 /\
    observed (run_gen true true bc ns rounds ([], [])) = [[(1, (0, 1)); (1, (0, 2)); (1, (0, 3))]].
Proof. exists [ex_pool 2 false 0; ex_pool 0 false 0], ex_nodes, [ex_hot_cold 5000]. vm_compute. repeat split. Qed.
Print Assumptions c18_reentry_nil_refuted.

(* FINDING C18-processed-nodes (b): only the HIGH source nodes are recorded in processedNodes. A
   node relieved as a PROD-high source by the first pool is relieved again by a later pool, here a
   catch-all pool written {} : clause 11 *)
Theorem c18_reentry_prodhigh_refuted :
  exists bc ns rounds,
    wf_rounds rounds = true /\ no_gating bc = true /\
    observed (run_gen true false bc ns rounds ([], []))
      = [[(1, (0, 1)); (1, (0, 2)); (1, (0, 3)); (1, (0, 1)); (1, (0, 2)); (1, (0, 3))]] /\
    prop_code (tables true false bc ns rounds) (observed (run_gen true false bc ns rounds ([], []))) = 11 /\
    observed (run_gen true true bc ns rounds ([], [])) = [[(1, (0, 1)); (1, (0, 2)); (1, (0, 3))]].
Proof. exists [ex_pool_prod 2; ex_pool_prod 1], ex_nodes, [ex_hot_cold 9000]. vm_compute. repeat split. Qed.
Print Assumptions c18_reentry_prodhigh_refuted.

(* FINDING C18-shared-detectors: pools that overlap share one detector per node. With
   ConsecutiveAbnormalities = 2 in a dedicated pool and in a catch-all pool, node 1 is marked twice
   in round 1 (the first pool returns before recording it as processed) and is evicted from in
   round 2, after ONE earlier source round: clause 6. A single pool waits for round 3. *)
Theorem c18_shared_detector_refuted :
  exists bc ns rounds,
    wf_rounds rounds = true /\ disjoint_pools bc ns = false /\
    observed (run_gen true false bc ns rounds ([], [])) = [[]; [(1, (0, 1)); (1, (0, 2)); (1, (0, 3))]; []] /\
    prop_code (tables true false bc ns rounds) (observed (run_gen true false bc ns rounds ([], []))) = 6 /\
    prop_code (tables true true bc ns rounds) (observed (run_gen true true bc ns rounds ([], []))) = 6 /\
    observed (run_gen true false [ex_pool 2 true 2] ns rounds ([], [])) = [[]; []; [(1, (0, 1)); (1, (0, 2)); (1, (0, 3))]].
Proof.
  exists [ex_pool 2 true 2; ex_pool 1 true 2], ex_nodes, [ex_hot_cold 5000; ex_hot_cold 5000; ex_hot_cold 5000].
  vm_compute. repeat split.
Qed.
Print Assumptions c18_shared_detector_refuted.

(* ------------------------------------------------------------------------------------------ *)
(* non-vacuity: the hypotheses are satisfiable and the model does evict *)
Example c18_nonvacuous_wf : wf_rounds ex_rounds = true /\ disjoint_pools [ex_cfg] ex_nodes = true.
Proof. split; reflexivity. Qed.
Definition ex3 : list (list nround) := [ex_round 800; ex_round 800; ex_round 800].
Example c18_nonvacuous_evicts :
  observed (run_gen false false [ex_cfg] ex_nodes ex3 ([], [])) = [[]; []; [(1, (0, 1))]]
  /\ observed (run_gen true false [ex_cfg] ex_nodes ex3 ([], [])) = [[]; []; [(1, (0, 1))]]
  /\ prop_code (tables true false [ex_cfg] ex_nodes ex3) [[]; []; [(1, (0, 1))]] = 0
  /\ prop_code (tables true false [ex_cfg] ex_nodes ex3) [[]; [(1, (0, 1))]; []] = 6
  /\ prop_code (tables true false [ex_cfg] ex_nodes ex3) [[]; []; [(2, (0, 1))]] = 1.
Proof. vm_compute. repeat split. Qed.
Example c18_nonvacuous_nothing :
  map (fun q => nothing_cond (pt_tbl (fst q)) (pt_size (fst q)))
      (fst (balance_gen true false [ex_cfg] ex_nodes (ex_round 500) ([], []))) = [true].
Proof. vm_compute. reflexivity. Qed.

(* two DISJOINT pools (label a / label b), one overloaded and one underused node each; a
   catch-all pool {} after a dedicated pool, both hypotheses of MAIN 2 *)
Definition ex_nodes4 : list nstat :=
  [mkNstat 4000 1000 10 1 0 0 0 0; mkNstat 4000 1000 10 1 0 0 0 0; mkNstat 4000 1000 10 2 0 0 0 0; mkNstat 4000 1000 10 2 0 0 0 0].
Definition ex_round4 : list nround := ex_hot_cold 5000 ++ ex_hot_cold 5000.
Example c18_nonvacuous_disjoint :
  disjoint_pools [ex_pool 2 false 0; ex_pool 3 false 0] ex_nodes4 = true
  /\ observed (run_gen true false [ex_pool 2 false 0; ex_pool 3 false 0] ex_nodes4 [ex_round4] ([], []))
     = [[(1, (0, 1)); (1, (0, 2)); (1, (0, 3)); (3, (0, 1)); (3, (0, 2)); (3, (0, 3))]]
  /\ prop_code (tables true false [ex_pool 2 false 0; ex_pool 3 false 0] ex_nodes4 [ex_round4])
               [[(1, (0, 1)); (1, (0, 2)); (1, (0, 3)); (3, (0, 1)); (3, (0, 2)); (3, (0, 3))]] = 0
  (* the calls of the second pool before those of the first: no split in pool order *)
  /\ prop_code (tables true false [ex_pool 2 false 0; ex_pool 3 false 0] ex_nodes4 [ex_round4])
               [[(3, (0, 1)); (1, (0, 1))]] <> 0.
Proof. vm_compute. repeat split. discriminate. Qed.
Example c18_nonvacuous_overlap :
  no_gating [ex_pool 2 false 0; ex_pool 1 false 0] = true
  (* hypothesis of MAIN 3 for the code as it is: holds with a catch-all pool {} , fails with a nil one *)
  /\ run_no_reentryb (run_gen true false [ex_pool 2 false 0; ex_pool 1 false 0] ex_nodes [ex_hot_cold 5000] ([], [])) = true
  /\ run_no_reentryb (run_gen true false [ex_pool 2 false 0; ex_pool 0 false 0] ex_nodes [ex_hot_cold 5000] ([], [])) = false
  /\ disjoint_pools [ex_pool 2 false 0; ex_pool 1 false 0] ex_nodes = false
  (* {} honours processedNodes: the catch-all pool leaves the relieved node alone, in both variants *)
  /\ observed (run_gen true false [ex_pool 2 false 0; ex_pool 1 false 0] ex_nodes [ex_hot_cold 5000] ([], []))
     = [[(1, (0, 1)); (1, (0, 2)); (1, (0, 3))]]
  /\ prop_code (tables true false [ex_pool 2 false 0; ex_pool 1 false 0] ex_nodes [ex_hot_cold 5000])
               [[(1, (0, 1)); (1, (0, 2)); (1, (0, 3))]] = 0
  (* an implementation in which the catch-all pool evicts from the relieved node again *)
  /\ prop_code (tables true false [ex_pool 2 false 0; ex_pool 1 false 0] ex_nodes [ex_hot_cold 5000])
               [[(1, (0, 1)); (1, (0, 2)); (1, (0, 3)); (1, (0, 4))]] = 1.
Proof. vm_compute. repeat split. Qed.

(* NodeFit on: node 1's only pod (80 % of the memory) on top of node 2's 10 % does not fit under
   node 2's 60 % -> nothing is evicted, and the decision procedure rejects an observable that
   does (clause 10); of two 40 % pods only the first fits once its usage is reserved *)
Definition ex_cfg_fit : cfg :=
  mkCfg 0 false true 0 false false 0 0 [none4; mkThr4 30 60 (-1) (-1); none4] [0; 1; 0].
Definition ex_round_fit (other : Z) : list nround :=
  [mkNround false 1 0 0 [mkPod 1 0 5000 true 100 800 3 true] []; mkNround false 1 0 other [] []].
Definition ex_round_fit2 : list nround :=
  [mkNround false 1 0 0 [mkPod 1 0 5000 true 100 400 3 true; mkPod 2 0 5001 true 0 400 3 true] [];
   mkNround false 1 0 100 [] []].
Example c18_nonvacuous_nodefit :
  observed (run_gen true false [ex_cfg_fit] ex_nodes [ex_round_fit 100] ([], [])) = [[]]
  /\ prop_code (tables true false [ex_cfg_fit] ex_nodes [ex_round_fit 100]) [[(1, (0, 1))]] = 10
  /\ observed (run_gen true false [ex_cfg_fit] ex_nodes [ex_round_fit2] ([], [])) = [[(1, (0, 1))]].
Proof. vm_compute. repeat split. Qed.

(* (namespace, name) identity: a prod pod and a batch pod with the same name in two namespaces on
   node 1; only the prod pod's 40 % counts as prod usage (prod high 50 %), so the node is not
   prod-overloaded and an Evict of the prod pod is rejected (clause 5: nobody is overloaded) *)
Definition ex_cfg_twin : cfg :=
  mkCfg 0 false false 0 false false 0 0 [none4; mkThr4 90 95 20 50; none4] [0; 1; 0].
Definition ex_round_twin : list nround :=
  [mkNround false 1 0 0 [mkPod 1 0 9000 true 100 400 3 true; mkPod 1 1 5000 true 100 400 3 true] [];
   mkNround false 1 0 100 [] []].
Example c18_nonvacuous_twin :
  wf_rounds [ex_round_twin] = true
  /\ observed (run_gen true false [ex_cfg_twin] ex_nodes [ex_round_twin] ([], [])) = [[]]
  /\ prop_code (tables true false [ex_cfg_twin] ex_nodes [ex_round_twin]) [[(1, (0, 1))]] = 5.
Proof. vm_compute. repeat split. Qed.
