(* C18 — exported theorems only: each is closed by [exact] and followed by Print Assumptions. *)
From Coq Require Import String List ZArith Bool.
From Verif Require Import C18.Model C18.Spec C18.Proofs.
Import ListNotations.
Open Scope Z_scope.

Theorem c18_stop_now : forall c prod r ps st dm,
  cont prod r st = false -> fst (fst (evict_pods c prod r ps st dm)) = [].
Proof. exact evict_pods_stop. Qed.
Print Assumptions c18_stop_now.
