(* C18 — proofs, part 3c: the pools of one Balance call (node sets, processedNodes, re-entry of
   a relieved node into a later pool) and the theorems over whole multi-pool histories. *)
From Coq Require Import String List ZArith Bool Lia.
From Verif Require Import C18.Model C18.Spec C18.Proofs_Vec C18.Proofs_Pass C18.Proofs_Round C18.Proofs_Gate
  C18.Proofs_Steps.
Import ListNotations.
Open Scope Z_scope.

(* ---------------------------------------------------------------- node ids and node statics *)
Lemma number_nth {A B} (a : list A) : forall (b : list B) i x s r,
  In (x, s, r) (number i a b) -> i <= x /\ nth_error a (Z.to_nat (x - i)) = Some s.
Proof.
  induction a as [|a0 a IH]; intros b i x s r; cbn [number]; [intros []|].
  destruct b as [|b0 b]; [intros []|]. cbn [In]. intros [H|H].
  - inversion H; subst. split; [lia|]. rewrite Z.sub_diag. reflexivity.
  - destruct (IH b (i + 1) x s r H) as [H1 H2]. split; [lia|].
    replace (Z.to_nat (x - i)) with (S (Z.to_nat (x - (i + 1)))) by lia. exact H2.
Qed.

Definition stat_of (ns : list nstat) (x : Z) : option nstat := nth_error ns (Z.to_nat (x - 1)).

Lemma pool_ids_stat fxp c processed ns rs x :
  In x (map mid (pool_nodes fxp c processed ns rs)) ->
  exists s, stat_of ns x = Some s /\ In s ns /\ in_pool fxp c processed x s = true.
Proof.
  intros H. apply in_map_iff in H. destruct H as [m [<- Hm]].
  destruct (pool_nodes_props fxp c processed ns rs) as [_ Hp]. destruct (Hp m Hm) as [Hn [_ Hi]].
  destruct (number_nth ns rs 1 _ _ _ Hn) as [_ Hs]. exists (mstat m).
  split; [exact Hs|]. split; [eapply nth_error_In; exact Hs|exact Hi].
Qed.

Lemma in_pool_static fxp c processed x s : in_pool fxp c processed x s = true -> static_match c (nlabel s) = true.
Proof.
  unfold in_pool, static_match. destruct (csel c =? 0); [reflexivity|]. cbn [orb].
  intros H. apply andb_true_iff in H. apply H.
Qed.
Lemma in_pool_fresh c processed x s : in_pool true c processed x s = true -> ~ In x processed.
Proof.
  unfold in_pool. intros H. apply memz_false.
  destruct (csel c =? 0); [apply negb_true_iff; exact H|].
  apply andb_true_iff in H. apply negb_true_iff. apply H.
Qed.

(* ---------------------------------------------------------------- the elements of a Balance call *)
(* what a pool step produces, for some processed set and detector state *)
Definition is_step (fx fxp : bool) (c : cfg) (ns : list nstat) (rs : list nround) (q : ptab * list ev) : Prop :=
  exists processed ds,
    let pool := pool_nodes fxp c processed ns rs in
    let tbl := table_of c pool in
    fst q = (c, map mid pool, tbl) /\
    snd q = fst (process_pool c tbl (Z.of_nat (length (map mid pool))) (pre_round fx (map mid pool) tbl ds)).

Lemma pool_step_is_step fx fxp c ns rs processed ds :
  is_step fx fxp c ns rs (fst (pool_step fx fxp c ns rs processed ds)).
Proof.
  exists processed, ds. unfold pool_step. cbn zeta.
  destruct (process_pool _ _ _ _) as [evs ds']. cbn [fst snd]. split; reflexivity.
Qed.

Lemma pools_run_steps fx fxp ns rs : forall l processed ds q,
  In q (fst (pools_run fx fxp l ns rs processed ds)) -> exists c, In c l /\ is_step fx fxp c ns rs q.
Proof.
  induction l as [|c t IH]; intros processed ds q; cbn [pools_run]; [intros []|].
  pose proof (pool_step_is_step fx fxp c ns rs processed ds) as Hs.
  destruct (pool_step fx fxp c ns rs processed ds) as [res [processed' ds']].
  specialize (IH processed' ds' q).
  destruct (pools_run fx fxp t ns rs processed' ds') as [l' ds'']. cbn [fst In] in *.
  intros [<-|H]; [exists c; split; [left; reflexivity|exact Hs]|].
  destruct (IH H) as [c' [Hc' Hq]]. exists c'. split; [right; exact Hc'|exact Hq].
Qed.

(* facts about one step *)
Lemma is_step_props fx fxp c ns rs q : wf_round rs = true -> is_step fx fxp c ns rs q ->
  pt_cfg (fst q) = c /\ tbl_wf c (pt_tbl (fst q)) /\
  (forall r, In r (pt_tbl (fst q)) -> In (rid r) (pt_ids (fst q))) /\
  round_holds c (pt_tbl (fst q)) (pt_size (fst q)) (snd q) /\
  (forall e, In e (snd q) -> exists r, In r (pt_tbl (fst q)) /\ rid r = fst e).
Proof.
  intros Hwf [processed [ds [H1 H2]]]. cbn zeta in *. destruct q as [pt evs]. cbn [fst snd] in *. subst pt evs.
  cbn [pt_cfg pt_tbl pt_ids pt_size fst snd].
  set (pool := pool_nodes fxp c processed ns rs) in *.
  pose proof (table_wf fxp c processed ns rs Hwf) as Htw. fold pool in Htw.
  split; [reflexivity|]. split; [exact Htw|]. split; [intros r Hr; apply (table_of_ids c pool r Hr)|].
  pose proof (process_pool_round c (table_of c pool) (Z.of_nat (length (map mid pool)))
                (pre_round fx (map mid pool) (table_of c pool) ds) Htw) as Hr.
  split; [exact Hr|]. intros e He. destruct Hr as [_ [_ [H3 _]]]. specialize (H3 e He).
  unfold ev_in, ev_cls in H3. destruct (find_row (fst e) (table_of c pool)) as [r|] eqn:E.
  - destruct (find_row_some _ _ _ E) as [Hin Hid]. exists r. split; assumption.
  - destruct H3 as [H3|H3]; cbn in H3; discriminate.
Qed.

(* ---------------------------------------------------------------- pairwise disjoint pools *)
Lemma NoDup_app_intro {A} (l1 l2 : list A) :
  NoDup l1 -> NoDup l2 -> (forall x, In x l1 -> ~ In x l2) -> NoDup (l1 ++ l2).
Proof.
  induction l1 as [|a l1 IH]; intros H1 H2 Hd; cbn [app]; [exact H2|].
  inversion H1; subst. constructor.
  - intros Hin. apply in_app_or in Hin. destruct Hin as [Hin|Hin]; [contradiction|].
    exact (Hd a (or_introl eq_refl) Hin).
  - apply IH; [assumption|assumption|]. intros x Hx. apply Hd. right; exact Hx.
Qed.

Lemma disjoint_head c t ns c' s :
  disjoint_pools (c :: t) ns = true -> In c' t -> In s ns ->
  static_match c (nlabel s) = true -> static_match c' (nlabel s) = false.
Proof.
  cbn [disjoint_pools]. intros H Hc' Hs Hm. apply andb_true_iff in H. destruct H as [H _].
  rewrite forallb_forall in H. specialize (H c' Hc'). rewrite forallb_forall in H. specialize (H s Hs).
  rewrite Hm in H. cbn [andb] in H. apply negb_true_iff in H. exact H.
Qed.
Lemma disjoint_tail c t ns : disjoint_pools (c :: t) ns = true -> disjoint_pools t ns = true.
Proof. cbn [disjoint_pools]. intros H. apply andb_true_iff in H. apply H. Qed.

Lemma pools_run_ids fx fxp ns rs : forall l processed ds E,
  disjoint_pools l ns = true ->
  (forall x s c, In x E -> stat_of ns x = Some s -> In c l -> static_match c (nlabel s) = false) ->
  NoDup E ->
  NoDup (E ++ concat (map fst (steps_of (map fst (fst (pools_run fx fxp l ns rs processed ds)))))).
Proof.
  induction l as [|c t IH]; intros processed ds E Hd HE Hnd; cbn [pools_run].
  - cbn. rewrite app_nil_r. exact Hnd.
  - pose proof (pool_step_is_step fx fxp c ns rs processed ds) as Hs.
    destruct (pool_step fx fxp c ns rs processed ds) as [res [processed' ds']]. cbn [fst] in Hs.
    destruct Hs as [p0 [d0 [Hs1 _]]]. cbn zeta in Hs1.
    specialize (IH processed' ds').
    destruct (pools_run fx fxp t ns rs processed' ds') as [l' ds'']. cbn [fst] in *.
    unfold steps_of in *. cbn [map concat fst]. rewrite Hs1. cbn [pt_ids fst snd].
    set (ids := map mid (pool_nodes fxp c p0 ns rs)).
    rewrite app_assoc. apply IH.
    + apply (disjoint_tail c t ns Hd).
    + intros x s c' Hx Hst Hc'. apply in_app_or in Hx. destruct Hx as [Hx|Hx].
      * apply (HE x s c' Hx Hst). right; exact Hc'.
      * destruct (pool_ids_stat fxp c p0 ns rs x Hx) as [s' [Hst' [Hin Hp]]].
        rewrite Hst in Hst'. inversion Hst'; subst s'.
        apply (disjoint_head c t ns c' s Hd Hc' Hin). apply (in_pool_static _ _ _ _ _ Hp).
    + apply NoDup_app_intro; [exact Hnd|apply (pool_nodes_props fxp c p0 ns rs)|].
      intros x Hx Hx'. destruct (pool_ids_stat fxp c p0 ns rs x Hx') as [s [Hst [_ Hp]]].
      pose proof (in_pool_static _ _ _ _ _ Hp) as Hm.
      rewrite (HE x s c Hx Hst (or_introl eq_refl)) in Hm. discriminate.
Qed.

Lemma steps_of_sub fx fxp ns rs l processed ds :
  wf_round rs = true ->
  forall s r, In s (steps_of (map fst (fst (pools_run fx fxp l ns rs processed ds)))) ->
    In r (snd s) -> In (rid r) (fst s).
Proof.
  intros Hwf s r Hs Hr. unfold steps_of in Hs. rewrite map_map in Hs. apply in_map_iff in Hs.
  destruct Hs as [q [<- Hq]]. cbn [fst snd] in *.
  destruct (pools_run_steps fx fxp ns rs l processed ds q Hq) as [c [_ Hst]].
  destruct (is_step_props fx fxp c ns rs q Hwf Hst) as [_ [_ [H _]]]. apply H. exact Hr.
Qed.

Lemma balance_round_wf fx fxp bc ns rs ds :
  wf_round rs = true -> disjoint_pools bc ns = true ->
  round_wf (steps_of (map fst (fst (balance_gen fx fxp bc ns rs ds)))).
Proof.
  intros Hwf Hd. unfold balance_gen. split.
  - apply (pools_run_ids fx fxp ns rs bc [] ds [] Hd); [intros x s c []|constructor].
  - apply steps_of_sub. exact Hwf.
Qed.

(* ---------------------------------------------------------------- K of the pool of a node *)
Definition kof (bc : list cfg) (ns : list nstat) (x : Z) : Z :=
  match stat_of ns x with
  | Some s => match find (fun c => static_match c (nlabel s)) bc with Some c => cK c | None => 0 end
  | None => 0
  end.

Lemma find_disjoint ns s : In s ns -> forall bc c,
  disjoint_pools bc ns = true -> In c bc -> static_match c (nlabel s) = true ->
  exists c', find (fun c => static_match c (nlabel s)) bc = Some c' /\ cK c' = cK c.
Proof.
  intros Hs. induction bc as [|a t IH]; intros c Hd Hc Hm; [destruct Hc|]. cbn [find].
  destruct (static_match a (nlabel s)) eqn:Ea.
  - exists a. split; [reflexivity|]. destruct Hc as [->|Hc]; [reflexivity|].
    rewrite (disjoint_head a t ns c s Hd Hc Hs Ea) in Hm. discriminate.
  - destruct Hc as [->|Hc]; [rewrite Hm in Ea; discriminate|].
    apply (IH c (disjoint_tail a t ns Hd) Hc Hm).
Qed.

Lemma kof_ok fxp bc ns : disjoint_pools bc ns = true ->
  forall c processed rs r,
    In c bc -> In r (table_of c (pool_nodes fxp c processed ns rs)) -> kof bc ns (rid r) = cK c.
Proof.
  intros Hd c processed rs r Hc Hr. apply table_of_ids in Hr.
  destruct (pool_ids_stat fxp c processed ns rs (rid r) Hr) as [s [Hst [Hin Hp]]].
  unfold kof. rewrite Hst.
  destruct (find_disjoint ns s Hin bc c Hd Hc (in_pool_static _ _ _ _ _ Hp)) as [c' [-> Hk]]. exact Hk.
Qed.

(* ---------------------------------------------------------------- no re-entry of a relieved node *)
(* [E]: the nodes evicted from so far in this Balance call. No later pool looks at them. *)
Fixpoint no_reentry (L : list (ptab * list ev)) (E : list Z) : Prop :=
  match L with
  | [] => True
  | (pt, evs) :: t => (forall r, In r (pt_tbl pt) -> ~ In (rid r) E) /\ no_reentry t (E ++ map fst evs)
  end.

Lemma adj_umap_fresh c prod tbl cum :
  (forall e r, In e cum -> In r tbl -> fst e <> rid r) -> adj_umap c prod tbl cum = init_umap prod tbl.
Proof.
  intros H. unfold adj_umap, init_umap. apply map_ext_in. intros r Hr. f_equal.
  unfold adj_use.
  assert (filter (cum_sel prod (rid r)) cum = []) as ->; [|reflexivity].
  induction cum as [|e cum IH]; [reflexivity|]. cbn [filter]. unfold cum_sel at 1.
  assert (fst e =? rid r = false) as -> by (apply Z.eqb_neq; apply (H e r (or_introl eq_refl) Hr)).
  cbn [andb]. apply IH. intros e' r' He' Hr'. apply H; [right; exact He'|exact Hr'].
Qed.

Lemma seg_charged_nodes tbl seg e : In e (seg_charged tbl seg) -> In (fst e) (map fst seg).
Proof.
  unfold seg_charged. intros H. apply in_flat_map in H. destruct H as [e0 [He0 H]].
  destruct (find_row (fst e0) tbl) as [r|]; [|destruct H].
  destruct (find_pod (snd e0) (rall r)) as [p|]; [|destruct H].
  destruct (pevok p && pmet p); [|destruct H]. destruct H as [<-|[]]. cbn [fst]. apply in_map. exact He0.
Qed.

(* what is shown about every pool step of a round *)
Definition step_holds (strict : bool) (hist : list (list stepT)) (q : ptab * list ev) : Prop :=
  round_holds (pt_cfg (fst q)) (pt_tbl (fst q)) (pt_size (fst q)) (snd q) /\
  gate_holds (pt_cfg (fst q)) hist (pt_tbl (fst q)) (snd q) /\
  (strict = true -> strict_gate_holds (pt_cfg (fst q)) hist (pt_tbl (fst q)) (snd q)).

Lemma assemble strict hist : forall L cum E,
  (forall e, In e cum -> In (fst e) E) ->
  (forall q, In q L -> step_holds strict hist q) -> no_reentry L E ->
  pools_hold strict (map fst L) cum hist (evs_of L).
Proof.
  induction L as [|[pt evs] t IH]; intros cum E Hcum Hst Hre; cbn [map pools_hold]; [reflexivity|].
  cbn [no_reentry] in Hre. destruct Hre as [Hfresh Hre].
  exists evs, (evs_of t). split; [reflexivity|].
  destruct (Hst (pt, evs) (or_introl eq_refl)) as [H1 [H2 H3]]. cbn [fst snd] in *.
  assert (forall e r, In e cum -> In r (pt_tbl pt) -> fst e <> rid r) as Hne.
  { intros e r He Hr Heq. apply (Hfresh r Hr). rewrite <- Heq. apply Hcum. exact He. }
  split.
  - unfold seg_holds. rewrite !(adj_umap_fresh _ _ _ _ Hne). split; [exact H1|]. split; assumption.
  - apply (IH _ (E ++ map fst evs)).
    + intros e He. apply in_app_or in He. apply in_or_app. destruct He as [He|He]; [left; apply Hcum; exact He|].
      right. apply (seg_charged_nodes _ _ _ He).
    + intros q Hq. apply Hst. right; exact Hq.
    + exact Hre.
Qed.

(* --- scenario A: pairwise disjoint pools *)
Lemma no_reentry_disjoint : forall L E0 E,
  NoDup (E0 ++ concat (map fst (steps_of (map fst L)))) -> incl E E0 ->
  (forall q, In q L -> (forall r, In r (pt_tbl (fst q)) -> In (rid r) (pt_ids (fst q))) /\
                       (forall e, In e (snd q) -> exists r, In r (pt_tbl (fst q)) /\ rid r = fst e)) ->
  no_reentry L E.
Proof.
  induction L as [|[pt evs] t IH]; intros E0 E Hnd Hincl Hq; cbn [no_reentry]; [exact I|].
  destruct (Hq (pt, evs) (or_introl eq_refl)) as [Hsub Hev]. cbn [fst snd] in *.
  unfold steps_of in Hnd. cbn [map concat fst] in Hnd. fold (steps_of (map fst t)) in Hnd.
  split.
  - intros r Hr Hin. apply Hincl in Hin. specialize (Hsub r Hr).
    revert Hnd Hin Hsub. generalize (concat (map fst (steps_of (map fst t)))). generalize (pt_ids pt).
    intros ids rest Hnd Hin Hsub. clear -Hnd Hin Hsub. induction E0 as [|a E0 IH]; [destruct Hin|].
    cbn [app] in Hnd. inversion Hnd as [|? ? Hni Hnd']; subst. destruct Hin as [->|Hin]; [|apply IH; assumption].
    apply Hni. apply in_or_app. right. apply in_or_app. left. exact Hsub.
  - rewrite app_assoc in Hnd. apply (IH (E0 ++ pt_ids pt) _ Hnd).
    + intros x Hx. apply in_app_or in Hx. apply in_or_app. destruct Hx as [Hx|Hx]; [left; apply Hincl; exact Hx|].
      right. apply in_map_iff in Hx. destruct Hx as [e [<- He]]. destruct (Hev e He) as [r [Hr <-]].
      apply Hsub. exact Hr.
    + intros q Hq'. apply Hq. right; exact Hq'.
Qed.

(* --- scenario B: the repaired processedNodes *)
Lemma process_pool_sources c tbl ps ds e :
  tbl_wf c tbl -> In e (fst (process_pool c tbl ps ds)) ->
  completed c tbl ps ds = true /\
  (In (fst e) (map rid (filter (has_cls cHigh) tbl)) \/ In (fst e) (map rid (filter (has_cls cProdHigh) tbl))).
Proof.
  intros Hwf He. split.
  - revert He. unfold process_pool, completed.
    destruct (is_nil (filter (has_cls cHigh) tbl) && is_nil (filter (has_cls cProdHigh) tbl)); [intros []|].
    destruct (real_abnormal c (filter (has_cls cHigh) tbl) (fst ds)) as [abn dn].
    destruct (real_abnormal c (filter (has_cls cProdHigh) tbl) (snd ds)) as [pabn dp].
    destruct (is_nil abn && is_nil pabn); [intros []|].
    destruct (is_nil (filter (has_cls cLow) tbl) && is_nil (filter (has_cls cProdLow) tbl)
              && is_nil (filter (has_cls cBothLow) tbl)); [intros []|].
    destruct (_ <=? cN c); [intros []|]. destruct (_ =? ps); [intros []|]. reflexivity.
  - destruct (process_pool_round c tbl ps ds Hwf) as [_ [_ [H3 _]]]. specialize (H3 e He).
    unfold ev_in, ev_cls in H3. destruct (find_row (fst e) tbl) as [r|] eqn:E.
    + destruct (find_row_some _ _ _ E) as [Hin Hid]. rewrite <- Hid.
      destruct H3 as [H3|H3]; [left|right]; apply in_map; apply filter_In; (split; [exact Hin|exact H3]).
    + destruct H3 as [H3|H3]; cbn in H3; discriminate.
Qed.

Lemma no_reentry_repaired fx ns rs : wf_round rs = true -> forall l processed ds E,
  incl E processed -> no_reentry (fst (pools_run fx true l ns rs processed ds)) E.
Proof.
  intros Hwf. induction l as [|c t IH]; intros processed ds E Hincl; cbn [pools_run]; [exact I|].
  unfold pool_step.
  set (pool := pool_nodes true c processed ns rs). set (ids := map mid pool). set (tbl := table_of c pool).
  set (ps := Z.of_nat (length ids)). set (ds0 := pre_round fx ids tbl ds).
  assert (tbl_wf c tbl) as Htw by (apply table_wf; exact Hwf).
  pose proof (fun e => process_pool_sources c tbl ps ds0 e Htw) as Hsrc.
  destruct (process_pool c tbl ps ds0) as [evs ds']. cbn [fst] in Hsrc.
  set (processed' := if completed c tbl ps ds0 then _ else processed).
  specialize (IH processed' ds' (E ++ map fst evs)).
  destruct (pools_run fx true t ns rs processed' ds') as [l' ds'']. cbn [fst no_reentry pt_tbl snd] in *.
  split.
  - intros r Hr Hin. apply Hincl in Hin. apply (table_of_ids c pool) in Hr.
    destruct (pool_ids_stat true c processed ns rs (rid r) Hr) as [s [_ [_ Hp]]].
    exact (in_pool_fresh _ _ _ _ Hp Hin).
  - apply IH. intros x Hx. apply in_app_or in Hx. destruct Hx as [Hx|Hx].
    + apply Hincl in Hx. unfold processed'. destruct (completed c tbl ps ds0); [apply in_or_app; left|]; exact Hx.
    + apply in_map_iff in Hx. destruct Hx as [e [<- He]]. destruct (Hsrc e He) as [Hc Hs].
      unfold processed'. rewrite Hc. apply in_or_app. right. apply in_or_app. exact Hs.
Qed.

(* ---------------------------------------------------------------- the gates of a round *)
Lemma NoDup_concat_mid {A} (pre : list (list A)) ids post x :
  NoDup (concat (pre ++ ids :: post)) -> In x ids -> forall l, In l pre -> ~ In x l.
Proof.
  induction pre as [|p pre IH]; intros Hnd Hx l Hl; [destruct Hl|].
  cbn [app concat] in Hnd. destruct Hl as [->|Hl].
  - intros Hxl. clear IH. induction l as [|a l IHl]; [destruct Hxl|].
    cbn [app] in Hnd. inversion Hnd as [|? ? Hni Hnd']; subst. destruct Hxl as [->|Hxl]; [|apply IHl; assumption].
    apply Hni. apply in_or_app. right. apply in_concat. exists ids. split; [apply in_or_app; right; left; reflexivity|exact Hx].
  - apply NoDup_app_r in Hnd. apply (IH Hnd Hx l Hl).
Qed.

Section Gates.
Variable hist : list (list stepT).
Hypothesis Hhist : forall R, In R hist -> round_wf R.

Lemma steps_gate (mu : bool -> Z -> list stepT -> Z) (G : cfg -> list row -> list ev -> Prop) :
  (forall c tbl evs pre,
     (forall e, In e evs -> forall s, In s pre -> ~ In (fst e) (fst s)) ->
     (forall s r, In s pre -> In r (snd s) -> In (rid r) (fst s)) ->
     gate_mu c mu (rev pre ++ flat hist) tbl evs -> G c tbl evs) ->
  forall L pre,
    round_wf (pre ++ steps_of (map fst L)) ->
    (forall q, In q L -> forall e, In e (snd q) -> exists r, In r (pt_tbl (fst q)) /\ rid r = fst e) ->
    steps_mu mu L (rev pre ++ flat hist) ->
    forall q, In q L -> G (pt_cfg (fst q)) (pt_tbl (fst q)) (snd q).
Proof.
  intros HG. induction L as [|[pt evs] t IH]; intros pre Hwf Hev Hmu q Hq; [destruct Hq|].
  cbn [steps_mu] in Hmu. destruct Hmu as [Hg Hmu].
  unfold steps_of in Hwf. cbn [map] in Hwf. fold (steps_of (map fst t)) in Hwf.
  destruct Hq as [<-|Hq]; cbn [fst snd].
  - apply (HG _ _ _ pre); [| |exact Hg].
    + intros e He s Hs. destruct (Hev (pt, evs) (or_introl eq_refl) e He) as [r [Hr <-]]. cbn [fst snd] in *.
      destruct Hwf as [Hnd Hsub]. rewrite map_app in Hnd. cbn [map fst] in Hnd.
      apply (NoDup_concat_mid (map fst pre) (pt_ids pt) _ (rid r) Hnd).
      * apply (Hsub (pt_ids pt, pt_tbl pt) r); [apply in_or_app; right; left; reflexivity|exact Hr].
      * apply in_map. exact Hs.
    + intros s r Hs Hr. destruct Hwf as [_ Hsub]. apply (Hsub s r); [apply in_or_app; left; exact Hs|exact Hr].
  - apply (IH (pre ++ [(pt_ids pt, pt_tbl pt)])).
    + rewrite <- app_assoc. exact Hwf.
    + intros q' Hq'. apply Hev. right; exact Hq'.
    + rewrite rev_app_distr. cbn [rev app]. exact Hmu.
    + exact Hq.
Qed.

Lemma count_gate c tbl evs pre :
  (forall e, In e evs -> forall s, In s pre -> ~ In (fst e) (fst s)) ->
  (forall s r, In s pre -> In r (snd s) -> In (rid r) (fst s)) ->
  gate_mu c count_steps (rev pre ++ flat hist) tbl evs -> gate_holds c hist tbl evs.
Proof.
  intros H1 H2 Hg G e He. specialize (Hg G e He).
  rewrite (count_here _ _ pre hist (H1 e He) H2 Hhist) in Hg. exact Hg.
Qed.
Lemma streak_gate c tbl evs pre :
  (forall e, In e evs -> forall s, In s pre -> ~ In (fst e) (fst s)) ->
  (forall s r, In s pre -> In r (snd s) -> In (rid r) (fst s)) ->
  gate_mu c streak_steps (rev pre ++ flat hist) tbl evs -> strict_gate_holds c hist tbl evs.
Proof.
  intros H1 H2 Hg G e He. specialize (Hg G e He).
  rewrite (streak_here _ _ pre hist (H1 e He) H2 Hhist) in Hg. exact Hg.
Qed.
End Gates.

(* ---------------------------------------------------------------- whole histories *)
Lemma flat_cons R hist : flat (R :: hist) = rev R ++ flat hist.
Proof. reflexivity. Qed.

Lemma gate_holds_nogating c hist tbl evs : gating c = false -> gate_holds c hist tbl evs.
Proof. intros H G. rewrite H in G. discriminate. Qed.
Lemma strict_gate_holds_nogating c hist tbl evs : gating c = false -> strict_gate_holds c hist tbl evs.
Proof. intros H G. rewrite H in G. discriminate. Qed.

(* A: pairwise disjoint pools — both variants of both repairs; counting gate, and for the
   variant with the anomaly repair ([fx] = true) the strict gate as well *)
Theorem hist_holds_disjoint fx fxp bc ns :
  disjoint_pools bc ns = true ->
  forall rounds ds hist,
    wf_rounds rounds = true -> (forall R, In R hist -> round_wf R) ->
    rounds_mu count_steps (run_gen fx fxp bc ns rounds ds) (flat hist) ->
    (fx = true -> rounds_mu streak_steps (run_gen fx fxp bc ns rounds ds) (flat hist)) ->
    hist_holds fx (map (fun r => map fst (fst r)) (run_gen fx fxp bc ns rounds ds))
               (observed (run_gen fx fxp bc ns rounds ds)) hist.
Proof.
  intros Hd. induction rounds as [|rs t IH]; intros ds hist Hwf Hhist Hc Hs; cbn [run_gen map observed hist_holds]; [exact I|].
  unfold wf_rounds in Hwf. cbn [forallb] in Hwf. apply andb_true_iff in Hwf. destruct Hwf as [Hw1 Hw2].
  pose proof (balance_round_wf fx fxp bc ns rs ds Hw1 Hd) as Hrw.
  pose proof (pools_run_steps fx fxp ns rs bc [] ds) as Hsteps.
  cbn [run_gen] in Hc, Hs. unfold balance_gen in *.
  destruct (pools_run fx fxp bc ns rs [] ds) as [L ds']. cbn [fst snd map observed hist_holds rounds_mu] in *.
  destruct Hc as [Hc1 Hc2].
  assert (forall q, In q L ->
            pt_cfg (fst q) = pt_cfg (fst q) /\ tbl_wf (pt_cfg (fst q)) (pt_tbl (fst q)) /\
            (forall r, In r (pt_tbl (fst q)) -> In (rid r) (pt_ids (fst q))) /\
            round_holds (pt_cfg (fst q)) (pt_tbl (fst q)) (pt_size (fst q)) (snd q) /\
            (forall e, In e (snd q) -> exists r, In r (pt_tbl (fst q)) /\ rid r = fst e)) as Hprops.
  { intros q Hq. destruct (Hsteps q Hq) as [c [_ Hst]].
    destruct (is_step_props fx fxp c ns rs q Hw1 Hst) as [P1 P2]. rewrite P1. split; [reflexivity|exact P2]. }
  assert (forall q, In q L -> forall e, In e (snd q) -> exists r, In r (pt_tbl (fst q)) /\ rid r = fst e) as Hev
    by (intros q Hq; apply (Hprops q Hq)).
  split.
  - apply (assemble fx hist L [] []); [intros e []| |].
    + intros q Hq. split; [apply (Hprops q Hq)|]. split.
      * apply (steps_gate hist count_steps (fun c tbl evs => gate_holds c hist tbl evs)
                 (count_gate hist Hhist) L [] Hrw Hev Hc1 q Hq).
      * intros Hfx. apply (steps_gate hist streak_steps (fun c tbl evs => strict_gate_holds c hist tbl evs)
                 (streak_gate hist Hhist) L [] Hrw Hev (proj1 (Hs Hfx)) q Hq).
    + apply (no_reentry_disjoint L [] []); [exact (proj1 Hrw)|intros x []|].
      intros q Hq. split; apply (Hprops q Hq).
  - fold (observed (run_gen fx fxp bc ns t ds')). apply IH.
    + exact Hw2.
    + intros R [<-|HR]; [exact Hrw|apply Hhist; exact HR].
    + rewrite flat_cons. exact Hc2.
    + intros Hfx. rewrite flat_cons. apply (Hs Hfx).
Qed.

(* B: overlapping pools without anomaly gating. The only way in which a history of the model can
   fail is the re-entry of a relieved node into a later pool of the same Balance call ... *)
Fixpoint run_no_reentry (res : list (list (ptab * list ev) * dstate)) : Prop :=
  match res with
  | [] => True
  | (L, _) :: t => no_reentry L [] /\ run_no_reentry t
  end.

(* the same as a test *)
Fixpoint no_reentryb (L : list (ptab * list ev)) (E : list Z) : bool :=
  match L with
  | [] => true
  | (pt, evs) :: t => forallb (fun r => negb (memz (rid r) E)) (pt_tbl pt) && no_reentryb t (E ++ map fst evs)
  end.
Fixpoint run_no_reentryb (res : list (list (ptab * list ev) * dstate)) : bool :=
  match res with
  | [] => true
  | (L, _) :: t => no_reentryb L [] && run_no_reentryb t
  end.
Lemma no_reentryb_ok : forall L E, no_reentryb L E = true -> no_reentry L E.
Proof.
  induction L as [|[pt evs] t IH]; intros E H; cbn [no_reentryb no_reentry] in *; [exact I|].
  apply andb_true_iff in H. destruct H as [H1 H2]. split; [|apply IH; exact H2].
  intros r Hr. rewrite forallb_forall in H1. specialize (H1 r Hr). apply negb_true_iff in H1.
  apply memz_false. exact H1.
Qed.
Lemma run_no_reentryb_ok : forall res, run_no_reentryb res = true -> run_no_reentry res.
Proof.
  induction res as [|[L d] t IH]; intros H; cbn [run_no_reentryb run_no_reentry] in *; [exact I|].
  apply andb_true_iff in H. destruct H as [H1 H2]. split; [apply no_reentryb_ok; exact H1|apply IH; exact H2].
Qed.

Theorem hist_holds_noreentry fx fxp bc ns :
  no_gating bc = true ->
  forall rounds ds hist,
    wf_rounds rounds = true -> run_no_reentry (run_gen fx fxp bc ns rounds ds) ->
    hist_holds true (map (fun r => map fst (fst r)) (run_gen fx fxp bc ns rounds ds))
               (observed (run_gen fx fxp bc ns rounds ds)) hist.
Proof.
  intros Hng. induction rounds as [|rs t IH]; intros ds hist Hwf Hre; cbn [run_gen map observed hist_holds]; [exact I|].
  unfold wf_rounds in Hwf. cbn [forallb] in Hwf. apply andb_true_iff in Hwf. destruct Hwf as [Hw1 Hw2].
  pose proof (pools_run_steps fx fxp ns rs bc [] ds) as Hsteps.
  cbn [run_gen] in Hre. unfold balance_gen in *.
  destruct (pools_run fx fxp bc ns rs [] ds) as [L ds']. cbn [fst snd map observed hist_holds run_no_reentry] in *.
  destruct Hre as [Hre Hre'].
  split.
  - apply (assemble true hist L [] []); [intros e []| |exact Hre].
    intros q Hq. destruct (Hsteps q Hq) as [c [Hc Hst]].
    destruct (is_step_props fx fxp c ns rs q Hw1 Hst) as [P1 [_ [_ [P4 _]]]].
    unfold no_gating in Hng. rewrite forallb_forall in Hng. specialize (Hng c Hc). apply negb_true_iff in Hng.
    unfold step_holds. rewrite P1. split; [exact P4|]. split; [|intros _].
    + apply gate_holds_nogating. exact Hng.
    + apply strict_gate_holds_nogating. exact Hng.
  - fold (observed (run_gen fx fxp bc ns t ds')). apply IH; assumption.
Qed.

(* ... and with the repaired processedNodes there is none *)
Lemma run_no_reentry_repaired fx bc ns : forall rounds ds,
  wf_rounds rounds = true -> run_no_reentry (run_gen fx true bc ns rounds ds).
Proof.
  induction rounds as [|rs t IH]; intros ds Hwf; cbn [run_gen run_no_reentry]; [exact I|].
  unfold wf_rounds in Hwf. cbn [forallb] in Hwf. apply andb_true_iff in Hwf. destruct Hwf as [Hw1 Hw2].
  pose proof (no_reentry_repaired fx ns rs Hw1 bc [] ds [] (incl_refl [])) as Hre.
  unfold balance_gen. destruct (pools_run fx true bc ns rs [] ds) as [L ds']. cbn [fst run_no_reentry] in *.
  split; [exact Hre|apply IH; exact Hw2].
Qed.

Theorem hist_holds_repaired fx bc ns :
  no_gating bc = true ->
  forall rounds ds hist,
    wf_rounds rounds = true ->
    hist_holds true (map (fun r => map fst (fst r)) (run_gen fx true bc ns rounds ds))
               (observed (run_gen fx true bc ns rounds ds)) hist.
Proof.
  intros Hng rounds ds hist Hwf. apply (hist_holds_noreentry fx true bc ns Hng rounds ds hist Hwf).
  apply run_no_reentry_repaired. exact Hwf.
Qed.
