(* C18 — model of the descheduler's LowNodeLoad balance plugin
   (pkg/descheduler/framework/plugins/loadaware/{low_node_load,utilization_util}.go,
    pkg/descheduler/utils/anomaly/basic_detector.go).
   One plugin instance with a LIST of node pools (LowNodeLoadArgs.NodePools, processed in order
   by every Balance call, sharing the processedNodes set of the call and the two detector caches
   of the plugin), driven for several successive Balance rounds.
   Executable, total, no proofs in this file. *)
From Coq Require Import String List ZArith Bool.
From Verif Require Import Gen.Gen_consts Gen.Gen_funcs.
Import ListNotations.
Open Scope Z_scope.

(* ------------------------------------------------------------------------------------ *)
(* Vectors: one entry per ACTIVE resource dimension (cpu in milli, memory in bytes, pods) *)
Notation vec := (list Z).

Fixpoint vmap2 (f : Z -> Z -> Z) (a b : vec) : vec :=
  match a, b with
  | x :: a', y :: b' => f x y :: vmap2 f a' b'
  | _, _ => []
  end.
Definition vadd := vmap2 Z.add.
Definition vsub := vmap2 Z.sub.
Definition vmin := vmap2 Z.min.
Fixpoint vexists2 (f : Z -> Z -> bool) (a b : vec) : bool :=
  match a, b with
  | x :: a', y :: b' => f x y || vexists2 f a' b'
  | _, _ => false
  end.
(* isNodeOverutilized: some dimension with used.Cmp(threshold) > 0 *)
Definition over (u t : vec) : bool := vexists2 (fun x y => y <? x) u t.
(* isNodeUnderutilized: no dimension with used.Cmp(threshold) > 0 *)
Definition under (u t : vec) : bool := negb (over u t).
(* continueEvictionCond, second half: every headroom quantity.CmpInt64(0) >= 1 *)
Definition all_pos (v : vec) : bool := forallb (fun x => 0 <? x) v.
Definition vzero (d : nat) : vec := repeat 0 d.
Definition vsum (d : nat) (l : list vec) : vec := fold_left vadd l (vzero d).

(* ------------------------------------------------------------------------------------ *)
(* IEEE-754 binary64 arithmetic on the values the code computes thresholds with
   (resourceThreshold: int64(float64(pct) * 0.01 * float64(cap)); calcAverageResourceUsagePercent).
   A float is a dyadic m * 2^e with |m| < 2^53 (not necessarily normalised); every operation
   computes the exact result and rounds it to 53 significant bits, ties to even.
   Subnormals / overflow are out of range here. *)
Notation fl := (Z * Z)%type.

(* round the dyadic m * 2^e to 53 significant bits *)
Definition norm53 (m e : Z) : fl :=
  if m =? 0 then (0, 0)
  else
    let a := Z.abs m in
    let k := Z.log2 a - 52 in
    if k <=? 0 then (m, e)
    else
      let q := Z.shiftr a k in
      let r := a - Z.shiftl q k in
      let half := Z.shiftl 1 (k - 1) in
      let up := (half <? r) || ((half =? r) && Z.odd q) in
      let q' := if up then q + 1 else q in
      ((if m <? 0 then - q' else q'), e + k).

(* round the rational n / d (n > 0, d > 0) *)
Definition rnd_pos (n d : Z) : fl :=
  let s0 := 52 + Z.log2 d - Z.log2 n in
  (* n * 2^s0 / d lies in (2^51, 2^53); one more bit if it is below 2^52 *)
  let lt := if 0 <=? s0 then Z.shiftl n s0 <? Z.shiftl d 52
            else n <? Z.shiftl d (52 - s0) in
  let s := if lt then s0 + 1 else s0 in
  let N := if 0 <=? s then Z.shiftl n s else n in
  let D := if 0 <=? s then d else Z.shiftl d (- s) in
  let '(q, r) := Z.div_eucl N D in
  let up := (D <? 2 * r) || ((D =? 2 * r) && Z.odd q) in
  (if up then q + 1 else q, - s).

Definition f_of_int (z : Z) : fl := norm53 z 0.
Definition fmul (a b : fl) : fl := norm53 (fst a * fst b) (snd a + snd b).
(* exact sum / difference on a common exponent *)
Definition falign (a b : fl) : Z * Z * Z :=
  let e := Z.min (snd a) (snd b) in
  (Z.shiftl (fst a) (snd a - e), Z.shiftl (fst b) (snd b - e), e).
Definition fadd (a b : fl) : fl := let '(x, y, e) := falign a b in norm53 (x + y) e.
Definition fsub (a b : fl) : fl := let '(x, y, e) := falign a b in norm53 (x - y) e.
Definition fdiv (a b : fl) : fl :=
  if (fst a =? 0) || (fst b =? 0) then (0, 0)
  else
    let '(q, e) := rnd_pos (Z.abs (fst a)) (Z.abs (fst b)) in
    ((if (fst a <? 0) && (0 <? fst b) || (0 <? fst a) && (fst b <? 0) then - q else q),
     e + snd a - snd b).
Definition fltb (a b : fl) : bool := let '(x, y, _) := falign a b in x <? y.
(* Go int64(x): truncation toward zero *)
Definition ftrunc (a : fl) : Z :=
  if 0 <=? snd a then Z.shiftl (fst a) (snd a)
  else if fst a <? 0 then - Z.shiftr (- fst a) (- snd a) else Z.shiftr (fst a) (- snd a).

Definition f001 : fl := rnd_pos 1 100.             (* the float64 constant 0.01 *)
Definition f100 : fl := f_of_int 100.
Definition f0 : fl := (0, 0).

(* normalizePercentage *)
Definition fnorm (p : fl) : fl := if fltb f100 p then f100 else if fltb p f0 then f0 else p.

(* resourceThreshold *)
Definition res_thr (p : fl) (cap : Z) : Z := ftrunc (fmul (fmul p f001) (f_of_int cap)).

(* ------------------------------------------------------------------------------------ *)
(* Inputs *)

(* a pod as the harness creates it: identity = (namespace [pns], name [pid]); namespaces 0 and 1
   are evictable, 2 and 3 are on the EvictableNamespaces.Exclude list; [pfilt] bit0 = evictor
   Filter accepts, bit1 = matches the configured pod selector; [pevok] = result of Evictor.Evict *)
Record pod := mkPod {
  pid : Z; pns : Z; pprio : Z; pmet : bool; pcpu : Z; pmem : Z; pfilt : Z; pevok : bool }.
Notation pkeyT := (Z * Z)%type.
Definition pkey (p : pod) : pkeyT := (pns p, pid p).

(* [nlabel]: value of the node label the pool selectors look at: 0 = label absent, 1 = "a", 2 = "b".
   [nrawk]: the node.koordinator.sh/raw-allocatable annotation (resource amplification), which
   GetNodeRawAllocatableFromNode prefers to status.allocatable: 0 absent, 1 a list with cpu, memory
   and pods [nrawc nrawm nrawp], 2 a list with cpu only (the other capacities then read as 0),
   3 not JSON (falls back to status.allocatable) *)
Record nstat := mkNstat { ncapc : Z; ncapm : Z; ncapp : Z; nlabel : Z;
                          nrawk : Z; nrawc : Z; nrawm : Z; nrawp : Z }.

(* per round and node: spec.unschedulable, metric freshness (1 = NodeMetric present, reported
   and not expired), system usage, pods assigned to the node *)
Record nround := mkNround {
  runsched : bool; rfresh : Z; rsysc : Z; rsysm : Z; rpods : list pod;
  (* further entries of NodeMetric.status.podsMetric, listed BEFORE those of the assigned pods:
     (namespace, name, cpu, memory) of pods that are not (no longer) assigned to the node, or a
     second entry for an assigned pod (the pod's own entry, being later, is the one evictPods uses) *)
  rextra : list (Z * Z * Z * Z) }.

(* thresholds per dimension cpu / memory / pods: low, high, prodLow, prodHigh in percent;
   -1 in low (resp. prodLow) = the pair is absent from the configured maps *)
Record thr4 := mkThr4 { tlow : Z; thigh : Z; tplow : Z; tphigh : Z }.

(* one node pool together with the plugin-wide arguments (NumberOfNodes, DryRun, NodeFit are the
   same in every pool of a plugin instance) *)
Record cfg := mkCfg {
  cN : Z;            (* NumberOfNodes *)
  cdry : bool;       (* DryRun *)
  cfit : bool;       (* NodeFit *)
  csel : Z;          (* NodeSelector of the pool: 0 nil, 1 {} (empty, not nil), 2 matchLabels a,
                        3 matchLabels b, 4 Exists, 5 In [a], 6 In [a,b], 7 NotIn [a],
                        8 DoesNotExist, 9 empty non-nil matchLabels and matchExpressions *)
  cdev : bool;       (* UseDeviationThresholds *)
  canom : bool;      (* AnomalyCondition != nil *)
  cK : Z; cKn : Z;   (* ConsecutiveAbnormalities / ConsecutiveNormalities *)
  cthr : list thr4;  (* cpu, memory, pods *)
  cw : list Z        (* ResourceWeights cpu, memory, pods *)
}.

(* ------------------------------------------------------------------------------------ *)
(* Priority classes (apis/extension, regenerated constants) *)
Definition pclass (p : pod) : string :=
  let c := getPriorityClassByPriority (pprio p) in
  (* no class from the priority value: derived from the QoS class; the harness' pods have no
     requests (Kubernetes BestEffort -> koord BE -> koord-batch) *)
  if String.eqb c PriorityNone then PriorityBatch else c.
Definition is_prod (p : pod) : bool := String.eqb (pclass p) PriorityProd.
(* sorter.koordPriorityClassOrder *)
Definition class_order (c : string) : Z :=
  if String.eqb c PriorityProd then 4 else if String.eqb c PriorityMid then 3
  else if String.eqb c PriorityBatch then 2 else if String.eqb c PriorityFree then 1 else 5.
(* sorter.PodSorter: KoordinatorPriorityClass, then Priority (both ascending). The remaining
   comparators (QoS, costs, usage score, creation time) are not modelled: ties keep the order
   in which the pods were listed. *)
Definition pod_leb (a b : pod) : bool :=
  if class_order (pclass a) =? class_order (pclass b) then pprio a <=? pprio b
  else class_order (pclass a) <? class_order (pclass b).

Fixpoint insert_by {A} (leb : A -> A -> bool) (x : A) (l : list A) : list A :=
  match l with
  | [] => [x]
  | y :: t => if leb x y then x :: l else y :: insert_by leb x t
  end.
(* stable insertion sort *)
Definition sort_by {A} (leb : A -> A -> bool) (l : list A) : list A :=
  fold_right (insert_by leb) [] l.

Definition pfilt_ok (p : pod) : bool := (pfilt p =? 3) && (0 <=? pns p) && (pns p <? 2).

(* ------------------------------------------------------------------------------------ *)
(* The usage / threshold table of one round (getNodeUsage, getNodeThresholds, classifyNodes) *)

Definition thr_active (t : thr4) : bool := negb (tlow t =? -1) || negb (tplow t =? -1).
(* cpu and pods are resource names iff a threshold map mentions them; memory always is *)
Definition active (c : cfg) : list bool :=
  match cthr c with
  | [tc; tm; tp] => [thr_active tc; true; thr_active tp]
  | _ => [false; true; false]
  end.
Fixpoint proj {A} (m : list bool) (v : list A) : list A :=
  match m, v with
  | b :: m', x :: v' => if b then x :: proj m' v' else proj m' v'
  | _, _ => []
  end.

(* newThresholds: a missing pair becomes 100/100 (absolute) or 0/0 (deviation) *)
Definition fill (c : cfg) (t : thr4) : thr4 :=
  let d := if cdev c then 0 else 100 in
  mkThr4 (if tlow t =? -1 then d else tlow t) (if tlow t =? -1 then d else thigh t)
         (if tplow t =? -1 then d else tplow t) (if tplow t =? -1 then d else tphigh t).

Definition sumf {A} (f : A -> Z) (l : list A) : Z := fold_right (fun x s => f x + s) 0 l.
Definition countf {A} (f : A -> bool) (l : list A) : Z := Z.of_nat (length (filter f l)).

(* usage[r] = system usage + sum of the reported pod usages; usage[pods] = number of pods *)
Definition xkey (e : Z * Z * Z * Z) : pkeyT := (fst (fst (fst e)), snd (fst (fst e))).
Definition xcpu (e : Z * Z * Z * Z) : Z := snd (fst e).
Definition xmem (e : Z * Z * Z * Z) : Z := snd e.
Definition pkey_in (k : pkeyT) (ps : list pod) : bool :=
  existsb (fun p => (fst (pkey p) =? fst k) && (snd (pkey p) =? snd k)) ps.
(* every entry of podsMetric counts, whether or not its pod is (still) on the node *)
Definition usage3 (r : nround) : list Z :=
  [ rsysc r + sumf pcpu (filter pmet (rpods r)) + sumf xcpu (rextra r);
    rsysm r + sumf pmem (filter pmet (rpods r)) + sumf xmem (rextra r);
    Z.of_nat (length (rpods r)) ].
(* prod usage: the entries whose (namespace, name) is that of a prod pod on the node *)
Definition produsage3 (r : nround) : list Z :=
  let pp := filter is_prod (rpods r) in
  let xs := filter (fun e => pkey_in (xkey e) pp) (rextra r) in
  [ sumf pcpu (filter pmet pp) + sumf xcpu xs; sumf pmem (filter pmet pp) + sumf xmem xs;
    Z.of_nat (length pp) ].
(* GetNodeRawAllocatableFromNode *)
Definition cap3 (s : nstat) : list Z :=
  if nrawk s =? 1 then [nrawc s; nrawm s; nrawp s]
  else if nrawk s =? 2 then [nrawc s; 0; 0]
  else [ncapc s; ncapm s; ncapp s].

(* what one eviction of the pod subtracts from the running estimates *)
Definition pdec3 (p : pod) : list Z := [pcpu p; pmem p; 1].

(* a node of the pool whose metrics are usable in this round *)
Record mnode := mkMnode { mid : Z; mstat : nstat; mrnd : nround }.

(* labels.Selector.Matches for the selector kinds above *)
Definition sel_match (k l : Z) : bool :=
  if (k =? 1) || (k =? 9) then true
  else if (k =? 2) || (k =? 5) then l =? 1
  else if k =? 3 then l =? 2
  else if (k =? 4) || (k =? 6) then negb (l =? 0)
  else if k =? 7 then negb (l =? 1)
  else if k =? 8 then l =? 0
  else false.
Definition memz (x : Z) (l : list Z) : bool := existsb (Z.eqb x) l.

(* filterNodes: a nil selector returns ALL nodes, without looking at processedNodes; any other
   selector drops the nodes already processed as sources by an earlier pool of this Balance call.
   [fxp] = repaired variant (finding C18-processed-nodes): processedNodes is honoured for a nil
   selector as well *)
Definition in_pool (fxp : bool) (c : cfg) (processed : list Z) (id : Z) (s : nstat) : bool :=
  if csel c =? 0 then (if fxp then negb (memz id processed) else true)
  else negb (memz id processed) && sel_match (csel c) (nlabel s).

Fixpoint number {A B} (i : Z) (a : list A) (b : list B) : list (Z * A * B) :=
  match a, b with
  | x :: a', y :: b' => (i, x, y) :: number (i + 1) a' b'
  | _, _ => []
  end.

(* nodes of the pool (filterNodes) *)
Definition pool_nodes (fxp : bool) (c : cfg) (processed : list Z) (ns : list nstat) (rs : list nround)
  : list mnode :=
  map (fun t => mkMnode (fst (fst t)) (snd (fst t)) (snd t))
      (filter (fun t => in_pool fxp c processed (fst (fst t)) (snd (fst t))) (number 1 ns rs)).
(* ... that made it into nodeUsages *)
Definition fresh_nodes (ms : list mnode) : list mnode :=
  filter (fun m => rfresh (mrnd m) =? 1) ms.

(* calcAverageResourceUsagePercent: per dimension, sum over nodes (in node order) of
   used/total*100, skipping zero capacity, divided by the number of nodes *)
Definition avg_pct (ms : list mnode) (use : mnode -> list Z) (k : nat) : fl :=
  let s := fold_left (fun acc m =>
             let total := nth k (cap3 (mstat m)) 0 in
             if total =? 0 then acc
             else fadd acc (fmul (fdiv (f_of_int (nth k (use m) 0)) (f_of_int total)) f100))
           ms f0 in
  fdiv s (f_of_int (Z.of_nat (length ms))).

(* getNodeThresholds for one node and one dimension -> (low, high) *)
Definition thr_pair (c : cfg) (avg : fl) (lowp highp cap : Z) : Z * Z :=
  if cdev c then
    if lowp =? 0 then (cap, cap)
    else (res_thr (fnorm (fsub avg (f_of_int lowp))) cap,
          res_thr (fnorm (fadd avg (f_of_int highp))) cap)
  else (res_thr (f_of_int lowp) cap, res_thr (f_of_int highp) cap).

(* node classes of classifyNodes *)
Definition cNone : Z := 0.   Definition cLow : Z := 1.      Definition cHigh : Z := 2.
Definition cProdLow : Z := 3. Definition cProdHigh : Z := 4. Definition cBothLow : Z := 5.

Definition classify (unsched : bool) (u pu lo hi plo phi : vec) : Z :=
  let lowF := negb unsched && under u lo in
  let plowF := negb unsched && under pu plo in
  if lowF then (if over pu phi then cProdHigh else if plowF then cBothLow else cLow)
  else if over u hi then cHigh
  else if over pu phi then cProdHigh else if plowF then cProdLow else cNone.

(* sorter.ResourceUsageScorer over the keys of the usage map (active names and pods) *)
Definition most_requested (req cap : Z) : Z :=
  if cap =? 0 then 0 else (Z.min req cap * 1000) / cap.
Definition node_score (c : cfg) (u3 cap : list Z) : Z :=
  let keys := match active c with [a; b; _] => [a; b; true] | _ => [false; true; true] end in
  let ws := proj keys (cw c) in
  let sc := vmap2 most_requested (proj keys u3) (proj keys cap) in
  let wsum := fold_right Z.add 0 ws in
  if wsum =? 0 then 0 else (fold_right Z.add 0 (vmap2 Z.mul sc ws)) / wsum.

(* one row of the table *)
Record row := mkRow {
  rid : Z; rall : list pod; rprodpods : list pod;
  ruse : vec; rpuse : vec; rlow : vec; rhigh : vec; rplow : vec; rphigh : vec;
  rcls : Z; rscore : Z; rpscore : Z }.

Definition mk_row (c : cfg) (avgs pavgs : list fl) (m : mnode) : row :=
  let act := active c in
  let caps := cap3 (mstat m) in
  let ths := map (fill c) (cthr c) in
  let pr := map (fun i => thr_pair c (nth i avgs f0) (tlow (nth i ths (mkThr4 0 0 0 0)))
                                   (thigh (nth i ths (mkThr4 0 0 0 0))) (nth i caps 0)) [0; 1; 2]%nat in
  let ppr := map (fun i => thr_pair c (nth i pavgs f0) (tplow (nth i ths (mkThr4 0 0 0 0)))
                                    (tphigh (nth i ths (mkThr4 0 0 0 0))) (nth i caps 0)) [0; 1; 2]%nat in
  let u := proj act (usage3 (mrnd m)) in
  let pu := proj act (produsage3 (mrnd m)) in
  let lo := proj act (map fst pr) in let hi := proj act (map snd pr) in
  let plo := proj act (map fst ppr) in let phi := proj act (map snd ppr) in
  mkRow (mid m) (rpods (mrnd m)) (filter is_prod (rpods (mrnd m)))
        u pu lo hi plo phi
        (classify (runsched (mrnd m)) u pu lo hi plo phi)
        (node_score c (usage3 (mrnd m)) caps) (node_score c (produsage3 (mrnd m)) caps).

(* the table of a pool whose nodes (after filterNodes) are [pool] *)
Definition table_of (c : cfg) (pool : list mnode) : list row :=
  let ms := fresh_nodes pool in
  let avgs := map (avg_pct ms (fun m => usage3 (mrnd m))) [0; 1; 2]%nat in
  let pavgs := map (avg_pct ms (fun m => produsage3 (mrnd m))) [0; 1; 2]%nat in
  map (mk_row c avgs pavgs) ms.

Definition dims (c : cfg) : nat := length (filter (fun b => b) (active c)).

(* ------------------------------------------------------------------------------------ *)
(* anomaly.BasicDetector without the clock (timeouts never fire within a history) *)
Record det := mkDet { dK : Z; dKn : Z; dst : bool (* true = StateAnomaly *); dA : Z; dN : Z }.

Definition set_ok (d : det) : det := if dst d then mkDet (dK d) (dKn d) false 0 0 else d.
Definition set_an (d : det) : det := if dst d then d else mkDet (dK d) (dKn d) true 0 0.
(* currentState *)
Definition cur (d : det) : det := if dst d && (dKn d <? dN d) then set_ok d else d.
(* Mark(false) *)
Definition mark_abn (d : det) : det :=
  let d := cur d in
  let d1 := mkDet (dK d) (dKn d) (dst d) (dA d + 1) 0 in
  cur (if dst d then d1 else if dK d <? dA d1 then set_an d1 else d1).
(* Mark(true) *)
Definition mark_norm (d : det) : det :=
  let d := cur d in
  let d1 := mkDet (dK d) (dKn d) (dst d) 0 (dN d + 1) in
  cur (if dst d then (if dKn d <? dN d1 then set_ok d1 else d1) else d1).
(* Reset() *)
Definition reset (d : det) : det := set_ok d.

Notation dmap := (list (Z * det)).
Fixpoint dget (x : Z) (m : dmap) : option det :=
  match m with [] => None | (k, d) :: t => if k =? x then Some d else dget x t end.
Fixpoint dset (x : Z) (d : det) (m : dmap) : dmap :=
  match m with
  | [] => [(x, d)]
  | (k, d0) :: t => if k =? x then (k, d) :: t else (k, d0) :: dset x d t
  end.
Definition dupd (f : det -> det) (x : Z) (m : dmap) : dmap :=
  match dget x m with Some d => dset x (f d) m | None => m end.

Definition gating (c : cfg) : bool := canom c && negb (cK c =? 1).

(* filterRealAbnormalNodes *)
Fixpoint filter_abnormal (c : cfg) (src : list row) (m : dmap) : list row * dmap :=
  match src with
  | [] => ([], m)
  | r :: t =>
    let d0 := match dget (rid r) m with Some d => d | None => mkDet (cK c) (cKn c) false 0 0 end in
    let d1 := mark_abn d0 in
    let '(abn, m') := filter_abnormal c t (dset (rid r) d1 m) in
    (if dst d1 then r :: abn else abn, m')
  end.
Definition real_abnormal (c : cfg) (src : list row) (m : dmap) : list row * dmap :=
  if gating c then filter_abnormal c src m else (src, m).

Definition reset_nodes (rs : list row) (m : dmap) : dmap :=
  fold_left (fun m r => dupd reset (rid r) m) rs m.
Definition mark_nodes_normal (rs : list row) (m : dmap) : dmap :=
  fold_left (fun m r => dupd mark_norm (rid r) m) rs m.

(* ------------------------------------------------------------------------------------ *)
(* Eviction passes. State of a pass: running usage estimate per node (NodeUsage.usage in the
   node pass, NodeUsage.prodUsage in the prod pass) and the remaining headroom of the targets. *)
Notation umap := (list (Z * vec)).
Fixpoint uget (x : Z) (m : umap) : vec :=
  match m with [] => [] | (k, v) :: t => if k =? x then v else uget x t end.
Fixpoint uset (x : Z) (v : vec) (m : umap) : umap :=
  match m with
  | [] => [(x, v)]
  | (k, v0) :: t => if k =? x then (k, v) :: t else (k, v0) :: uset x v t
  end.
Notation ustate := (umap * vec)%type.

Notation ev := (Z * pkeyT)%type.       (* Evict call: node, pod (namespace, name) *)

Definition r_use (prod : bool) (r : row) : vec := if prod then rpuse r else ruse r.
Definition r_high (prod : bool) (r : row) : vec := if prod then rphigh r else rhigh r.
Definition r_pods (prod : bool) (r : row) : list pod := if prod then rprodpods r else rall r.
Definition headroom (prod : bool) (r : row) : vec := vsub (r_high prod r) (r_use prod r).

Definition pdec (c : cfg) (p : pod) : vec := proj (active c) (pdec3 p).

(* continueEvictionCond *)
Definition node_over (prod : bool) (r : row) (st : ustate) : bool :=
  over (uget (rid r) (fst st)) (r_high prod r).
Definition cont (prod : bool) (r : row) (st : ustate) : bool :=
  node_over prod r st && all_pos (snd st).

(* bookkeeping after a (successful or dry-run) eviction of a pod with metrics *)
Definition charge (c : cfg) (x : Z) (p : pod) (st : ustate) : ustate :=
  (uset x (vsub (uget x (fst st)) (pdec c p)) (fst st), vsub (snd st) (pdec c p)).
(* what an Evict CALL does to the estimates *)
Definition apply_ev (c : cfg) (x : Z) (p : pod) (st : ustate) : ustate :=
  if pevok p && pmet p then charge c x p st else st.

(* evictPods *)
Fixpoint evict_pods (c : cfg) (prod : bool) (r : row) (ps : list pod) (st : ustate) (dm : dmap)
  : list ev * ustate * dmap :=
  match ps with
  | [] => ([], st, dm)
  | p :: t =>
    if negb (node_over prod r st) then ([], st, dupd reset (rid r) dm)
    else if negb (all_pos (snd st)) then ([], st, dm)
    else if negb (pfilt_ok p) then evict_pods c prod r t st dm
    else if cdry c then
      evict_pods c prod r t (if pmet p then charge c (rid r) p st else st) dm
    else
      let '(evs, st', dm') := evict_pods c prod r t (apply_ev c (rid r) p st) dm in
      ((rid r, pkey p) :: evs, st', dm')
  end.

(* podFitsAnyNodeWithThreshold: the first target (in the given order) that stays within its
   high threshold with the pod's usage added keeps that usage as a reservation *)
Definition pfit (c : cfg) (p : pod) : vec := proj (active c) [pcpu p; pmem p; 0].
Fixpoint fit_any (c : cfg) (prod : bool) (p : pod) (targets : list row) (um : umap) : bool * umap :=
  match targets with
  | [] => (false, um)
  | t :: ts =>
    let u' := vadd (uget (rid t) um) (pfit c p) in
    if over u' (r_high prod t) then fit_any c prod p ts um else (true, uset (rid t) u' um)
  end.

(* classifyPods with the NodeFit wrapper *)
Fixpoint removable (c : cfg) (prod : bool) (targets : list row) (ps : list pod) (um : umap)
  : list pod * umap :=
  match ps with
  | [] => ([], um)
  | p :: t =>
    if negb (pfilt_ok p) then removable c prod targets t um
    else if negb (cfit c) then
      let '(l, um') := removable c prod targets t um in (p :: l, um')
    else if negb (pmet p) then removable c prod targets t um
    else
      let '(ok, um1) := fit_any c prod p targets um in
      let '(l, um') := removable c prod targets t um1 in
      (if ok then p :: l else l, um')
  end.

(* balancePods (targets non-empty). [resv]: usage of the target nodes including the
   reservations made by the NodeFit check; sources and targets of a pass are different nodes,
   so this map never meets the running estimates of the sources in [st] *)
Fixpoint balance_pods (c : cfg) (prod : bool) (targets : list row) (srcs : list row)
  (st : ustate) (resv : umap) (dm : dmap) : list ev * ustate * dmap :=
  match srcs with
  | [] => ([], st, dm)
  | r :: t =>
    let '(rem, resv1) := removable c prod targets (r_pods prod r) resv in
    let '(evs1, st2, dm2) := evict_pods c prod r (sort_by pod_leb rem) st dm in
    let '(evs2, st3, dm3) := balance_pods c prod targets t st2 resv1 dm2 in
    (evs1 ++ evs2, st3, dm3)
  end.

Definition has_cls (k : Z) (r : row) : bool := rcls r =? k.
Definition init_umap (prod : bool) (tbl : list row) : umap :=
  map (fun r => (rid r, r_use prod r)) tbl.

(* headroom of the node pass: low and both-low nodes *)
Definition node_targets (tbl : list row) : list row :=
  filter (has_cls cLow) tbl ++ filter (has_cls cBothLow) tbl.
Definition prod_targets (tbl : list row) : list row :=
  filter (has_cls cProdLow) tbl ++ filter (has_cls cBothLow) tbl.
Definition node_avail (d : nat) (tbl : list row) : vec :=
  vsum d (map (headroom false) (node_targets tbl)).
(* headroom of the prod pass, given what the node pass left *)
Definition prod_avail (d : nat) (tbl : list row) (left : vec) : vec :=
  let both := vmin (vsum d (map (headroom false) (filter (has_cls cBothLow) tbl))) left in
  vadd (vsum d (map (headroom true) (filter (has_cls cProdLow) tbl)))
       (vmin (vsum d (map (headroom true) (filter (has_cls cBothLow) tbl))) both).

Definition score_geb (prod : bool) (a b : row) : bool :=
  if prod then rpscore b <=? rpscore a else rscore b <=? rscore a.

Definition is_nil {A} (l : list A) : bool := match l with [] => true | _ => false end.

Notation dstate := (dmap * dmap)%type.    (* nodeAnomalyDetectors, prodAnomalyDetectors *)

(* evictPodsFromSourceNodes *)
Definition evict_from_sources (c : cfg) (tbl abn pabn : list row) (ds : dstate)
  : list ev * dstate :=
  let d := dims c in
  let st0 := (init_umap false tbl, node_avail d tbl) in
  let '(evs1, st1, dn) :=
    if is_nil (node_targets tbl) then ([], st0, fst ds)
    else balance_pods c false (node_targets tbl) abn st0 (init_umap false tbl) (fst ds) in
  let pst0 := (init_umap true tbl, prod_avail d tbl (snd st1)) in
  let '(evs2, _, dp) :=
    if is_nil (prod_targets tbl) then ([], pst0, snd ds)
    else balance_pods c true (prod_targets tbl) pabn pst0 (init_umap true tbl) (snd ds) in
  (evs1 ++ evs2, (dn, dp)).

(* processOneNodePool *)
Definition process_pool (c : cfg) (tbl : list row) (psize : Z) (ds : dstate) : list ev * dstate :=
  let src := filter (has_cls cHigh) tbl in
  let psrc := filter (has_cls cProdHigh) tbl in
  if is_nil src && is_nil psrc then ([], ds)
  else
    let '(abn, dn) := real_abnormal c src (fst ds) in
    let '(pabn, dp) := real_abnormal c psrc (snd ds) in
    if is_nil abn && is_nil pabn then ([], (dn, dp))
    else
      let low := filter (has_cls cLow) tbl in
      let plow := filter (has_cls cProdLow) tbl in
      let both := filter (has_cls cBothLow) tbl in
      if is_nil low && is_nil plow && is_nil both then ([], (dn, dp))
      else
        let dn := reset_nodes both (reset_nodes low dn) in
        let dp := reset_nodes plow dp in
        let all_low := Z.of_nat (length low + length plow + length both) in
        if all_low <=? cN c then ([], (dn, dp))
        else if all_low =? psize then ([], (dn, dp))
        else
          let abn' := sort_by (score_geb false) abn in
          let pabn' := sort_by (score_geb true) pabn in
          let '(evs, (dn, dp)) := evict_from_sources c tbl abn' pabn' (dn, dp) in
          (evs, (mark_nodes_normal abn' dn, mark_nodes_normal pabn' dp)).

(* ---- repaired variant (finding C18-anomaly-not-consecutive) ----
   forgetNonSourceNodes: before anything else the detectors of the pool's nodes (all nodes
   returned by filterNodes, fresh or not) that are not sources in this round are dropped, so only
   uninterrupted runs of abnormal rounds are counted.
   [reset_on_normal] says which variant /repo contains; flip it to [true] once the fix is in. *)
Definition reset_on_normal : bool := true.

Definition forget (pool : list Z) (src : list row) (m : dmap) : dmap :=
  filter (fun kv => negb (memz (fst kv) pool) || memz (fst kv) (map rid src)) m.
Definition pre_round (fx : bool) (pool : list Z) (tbl : list row) (ds : dstate) : dstate :=
  if fx then (forget pool (filter (has_cls cHigh) tbl) (fst ds),
              forget pool (filter (has_cls cProdHigh) tbl) (snd ds))
  else ds.

(* processOneNodePool reached its end (none of the early exits was taken): only then the pool's
   source nodes are added to processedNodes *)
Definition completed (c : cfg) (tbl : list row) (psize : Z) (ds : dstate) : bool :=
  let src := filter (has_cls cHigh) tbl in
  let psrc := filter (has_cls cProdHigh) tbl in
  if is_nil src && is_nil psrc then false
  else
    let '(abn, _) := real_abnormal c src (fst ds) in
    let '(pabn, _) := real_abnormal c psrc (snd ds) in
    if is_nil abn && is_nil pabn then false
    else
      let low := filter (has_cls cLow) tbl in
      let plow := filter (has_cls cProdLow) tbl in
      let both := filter (has_cls cBothLow) tbl in
      if is_nil low && is_nil plow && is_nil both then false
      else
        let all_low := Z.of_nat (length low + length plow + length both) in
        if all_low <=? cN c then false
        else if all_low =? psize then false
        else true.

(* ---- repaired variant (finding C18-processed-nodes) ----
   [processed_repaired] says which variant /repo contains: false = processedNodes is ignored by a
   pool with a nil selector and only the high (not the prod-high) source nodes are recorded. *)
Definition processed_repaired : bool := false.

(* what the Spec needs to know about one pool of one Balance call: its configuration, the ids of
   its nodes (after filterNodes; the pool size of the "all nodes are underused" exit is their
   number) and its usage / threshold table *)
Notation ptab := (cfg * list Z * list row)%type.
Definition pt_cfg (pt : ptab) : cfg := fst (fst pt).
Definition pt_ids (pt : ptab) : list Z := snd (fst pt).
Definition pt_tbl (pt : ptab) : list row := snd pt.
Definition pt_size (pt : ptab) : Z := Z.of_nat (length (pt_ids pt)).

(* one pool of one Balance call (processOneNodePool) *)
Definition pool_step (fx fxp : bool) (c : cfg) (ns : list nstat) (rs : list nround)
  (processed : list Z) (ds : dstate) : (ptab * list ev) * (list Z * dstate) :=
  let pool := pool_nodes fxp c processed ns rs in
  let ids := map mid pool in
  let tbl := table_of c pool in
  let psize := Z.of_nat (length ids) in
  let ds0 := pre_round fx ids tbl ds in
  let '(evs, ds') := process_pool c tbl psize ds0 in
  let processed' :=
    if completed c tbl psize ds0
    then processed ++ map rid (filter (has_cls cHigh) tbl)
                   ++ (if fxp then map rid (filter (has_cls cProdHigh) tbl) else [])
    else processed in
  ((c, ids, tbl, evs), (processed', ds')).

(* the pools of one Balance call, in order *)
Fixpoint pools_run (fx fxp : bool) (bc : list cfg) (ns : list nstat) (rs : list nround)
  (processed : list Z) (ds : dstate) : list (ptab * list ev) * dstate :=
  match bc with
  | [] => ([], ds)
  | c :: t =>
    let '(res, (processed', ds')) := pool_step fx fxp c ns rs processed ds in
    let '(l, ds'') := pools_run fx fxp t ns rs processed' ds' in
    (res :: l, ds'')
  end.

(* one Balance call *)
Definition balance_gen (fx fxp : bool) (bc : list cfg) (ns : list nstat) (rs : list nround) (ds : dstate)
  : list (ptab * list ev) * dstate :=
  pools_run fx fxp bc ns rs [] ds.

(* the Evict calls of a Balance call, in the order in which they are made *)
Definition evs_of (l : list (ptab * list ev)) : list ev := concat (map snd l).

(* a history: successive rounds over the same plugin instance *)
Fixpoint run_gen (fx fxp : bool) (bc : list cfg) (ns : list nstat) (rounds : list (list nround)) (ds : dstate)
  : list (list (ptab * list ev) * dstate) :=
  match rounds with
  | [] => []
  | rs :: t => let '(l, ds') := balance_gen fx fxp bc ns rs ds in (l, ds') :: run_gen fx fxp bc ns t ds'
  end.

Definition balance := balance_gen reset_on_normal processed_repaired.
Definition run := run_gen reset_on_normal processed_repaired.
