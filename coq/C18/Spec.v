(* C18 — the property as Props over (history of rounds, recorded Evict calls) and its decision
   procedure (0 = holds, otherwise the number of the first failing clause).

   Observable of a round (one Balance call): the Evict calls received by the evictor, in order,
   as (node, pod). A Balance call walks the configured node pools in order; the calls of a round
   must split into consecutive segments, one per pool (possibly empty), such that every call of
   a segment is justified by the usage / threshold table of that pool recomputed from the
   round's inputs ([Model.table_of]) and by the running estimates obtained by replaying the calls
   that precede it — those of the same pool AND those of the earlier pools of the same Balance
   call (a node relieved by an earlier pool is judged by what is left of its usage).

   clauses
     1  source not overloaded: the node is not a usable node of the pool, is not classified
        high / prod-high, or its running estimate is not above the high threshold in any
        dimension at the moment of the call
     2  nobody to receive load: no low / both-low node (node pass), no prod-low / both-low
        node (prod pass)
     3  the pod is not a pod of that node (prod pass: not a prod pod) or fails the filters
     4  headroom of the underused nodes used up in some dimension at the moment of the call
     5  evictions although no node is overloaded / no node is underused / all are underused
     6  anomaly gate: the node was a source in fewer rounds than ConsecutiveAbnormalities
        requires (counting all earlier rounds)
     7  (strict reading) the rounds in which it was a source are not consecutive
     8  Evict called in dry-run mode
     9  malformed observable
    10  NodeFit is on and the pod has no usage metrics or fits no target node even when the
        reservations made for other pods are ignored
    11  the node is above the pool's high threshold only if the pods already evicted from it by
        EARLIER pools of the same Balance call are not counted: its estimated usage was already
        back under the threshold *)
From Coq Require Import String List ZArith Bool.
From Verif Require Import C18.Model.
Import ListNotations.
Open Scope Z_scope.

Fixpoint find_row (x : Z) (tbl : list row) : option row :=
  match tbl with [] => None | r :: t => if rid r =? x then Some r else find_row x t end.
Definition pkey_eqb (a b : pkeyT) : bool := (fst a =? fst b) && (snd a =? snd b).
Fixpoint find_pod (pv : pkeyT) (ps : list pod) : option pod :=
  match ps with [] => None | p :: t => if pkey_eqb (pkey p) pv then Some p else find_pod pv t end.

Definition src_cls (prod : bool) : Z := if prod then cProdHigh else cHigh.
Definition targets (prod : bool) (tbl : list row) : list row :=
  if prod then prod_targets tbl else node_targets tbl.
Definition ev_cls (tbl : list row) (e : ev) : Z :=
  match find_row (fst e) tbl with Some r => rcls r | None => -1 end.
Definition ev_in (tbl : list row) (prod : bool) (e : ev) : bool := ev_cls tbl e =? src_cls prod.

(* "no node is overloaded, no node is underused, or all nodes are underused" *)
Definition no_source (tbl : list row) : bool :=
  is_nil (filter (has_cls cHigh) tbl) && is_nil (filter (has_cls cProdHigh) tbl).
Definition n_low (tbl : list row) : Z :=
  countf (has_cls cLow) tbl + countf (has_cls cProdLow) tbl + countf (has_cls cBothLow) tbl.
Definition nothing_cond (tbl : list row) (psize : Z) : bool :=
  no_source tbl || (n_low tbl =? 0) || (n_low tbl =? psize).

(* NodeFit: the pod reports usage and, added to the MEASURED usage of some target node, stays
   within that node's high threshold (necessary for podFitsAnyNodeWithThreshold, which also
   counts what it has reserved for pods examined before) *)
Definition fit_ok (c : cfg) (prod : bool) (tbl : list row) (p : pod) : bool :=
  negb (cfit c) ||
  (pmet p && existsb (fun t => negb (over (vadd (r_use prod t) (pfit c p)) (r_high prod t)))
                     (targets prod tbl)).

Section Round.
  Variable c : cfg.
  Variable tbl : list row.

  (* ---------- the Prop ---------- *)
  Inductive valid_pass (prod : bool) : ustate -> list ev -> ustate -> Prop :=
  | vp_nil : forall st, valid_pass prod st [] st
  | vp_cons : forall st x pv r p evs st',
      find_row x tbl = Some r -> rcls r = src_cls prod ->
      node_over prod r st = true ->                 (* overloaded at that moment *)
      targets prod tbl <> [] ->                     (* somebody can receive load *)
      all_pos (snd st) = true ->                    (* their headroom is not used up *)
      find_pod pv (r_pods prod r) = Some p ->       (* a pod of that node ... *)
      pfilt_ok p = true ->                          (* ... that passes the filters *)
      fit_ok c prod tbl p = true ->                 (* ... and, with NodeFit, fits a target *)
      valid_pass prod (apply_ev c x p st) evs st' ->
      valid_pass prod st ((x, pv) :: evs) st'.

  Definition init_state (prod : bool) (avail : vec) : ustate := (init_umap prod tbl, avail).

  (* [um], [pum]: the usage estimates (all pods / prod pods) of the pool's nodes when the pool
     starts *)
  Definition round_holds_from (psize : Z) (um pum : umap) (evs : list ev) : Prop :=
    (cdry c = true -> evs = []) /\
    (nothing_cond tbl psize = true -> evs = []) /\
    (forall e, In e evs -> ev_in tbl false e = true \/ ev_in tbl true e = true) /\
    exists stN stP,
      valid_pass false (um, node_avail (dims c) tbl) (filter (ev_in tbl false) evs) stN /\
      valid_pass true (pum, prod_avail (dims c) tbl (snd stN)) (filter (ev_in tbl true) evs) stP.

  (* ... the measured usage, when no earlier pool of the Balance call has evicted from them *)
  Definition round_holds (psize : Z) (evs : list ev) : Prop :=
    round_holds_from psize (init_umap false tbl) (init_umap true tbl) evs.

  (* ---------- the decision procedure ---------- *)
  Fixpoint check_pass (prod : bool) (evs : list ev) (st : ustate) : Z * ustate :=
    match evs with
    | [] => (0, st)
    | (x, pv) :: t =>
      match find_row x tbl with
      | None => (1, st)
      | Some r =>
        if negb (rcls r =? src_cls prod) then (1, st)
        else if negb (node_over prod r st) then (1, st)
        else if is_nil (targets prod tbl) then (2, st)
        else if negb (all_pos (snd st)) then (4, st)
        else match find_pod pv (r_pods prod r) with
             | None => (3, st)
             | Some p => if negb (pfilt_ok p) then (3, st)
                         else if negb (fit_ok c prod tbl p) then (10, st)
                         else check_pass prod t (apply_ev c x p st)
             end
      end
    end.

  Definition check_round_from (psize : Z) (um pum : umap) (evs : list ev) : Z :=
    if cdry c && negb (is_nil evs) then 8
    else if nothing_cond tbl psize && negb (is_nil evs) then 5
    else if negb (forallb (fun e => ev_in tbl false e || ev_in tbl true e) evs) then 1
    else
      let '(k1, st1) := check_pass false (filter (ev_in tbl false) evs) (um, node_avail (dims c) tbl) in
      if negb (k1 =? 0) then k1
      else fst (check_pass true (filter (ev_in tbl true) evs) (pum, prod_avail (dims c) tbl (snd st1))).

  Definition check_round (psize : Z) (evs : list ev) : Z :=
    check_round_from psize (init_umap false tbl) (init_umap true tbl) evs.
End Round.

(* ---------- what the earlier pools of the same Balance call have already evicted ---------- *)
(* the evictions charged so far in this Balance call: (node, pod), in order *)
Notation cumT := (list (Z * pod)).
Definition cum_sel (prod : bool) (x : Z) (e : Z * pod) : bool :=
  (fst e =? x) && (negb prod || is_prod (snd e)).
(* usage estimate [u] of node x (all pods / prod pods) less the pods already evicted from it *)
Definition adj_use (c : cfg) (prod : bool) (cum : cumT) (x : Z) (u : vec) : vec :=
  fold_left (fun u e => vsub u (pdec c (snd e))) (filter (cum_sel prod x) cum) u.
Definition adj_umap (c : cfg) (prod : bool) (tbl : list row) (cum : cumT) : umap :=
  map (fun r => (rid r, adj_use c prod cum (rid r) (r_use prod r))) tbl.
(* the calls of a segment that did evict a pod with metrics *)
Definition seg_charged (tbl : list row) (seg : list ev) : cumT :=
  flat_map (fun e => match find_row (fst e) tbl with
                     | Some r => match find_pod (snd e) (rall r) with
                                 | Some p => if pevok p && pmet p then [(fst e, p)] else []
                                 | None => []
                                 end
                     | None => []
                     end) seg.

(* ---------- anomaly gate over the history ---------- *)
(* [hist]: the pools (node ids, table) of the earlier rounds, most recent round first *)
Notation stepT := (list Z * list row)%type.
Definition was_src (prod : bool) (x : Z) (tbl : list row) : bool :=
  match find_row x tbl with Some r => rcls r =? src_cls prod | None => false end.
(* node x was a source (of that kind) in some pool of the round *)
Definition was_src_r (prod : bool) (x : Z) (R : list stepT) : bool :=
  existsb (fun s => was_src prod x (snd s)) R.
(* node x was looked at by some pool of the round *)
Definition in_round (x : Z) (R : list stepT) : bool := existsb (fun s => memz x (fst s)) R.
Definition count_src (prod : bool) (x : Z) (hist : list (list stepT)) : Z :=
  countf (was_src_r prod x) hist.
(* length of the run of source rounds that ends with the most recent round; a round in which no
   pool looked at the node at all neither counts nor interrupts *)
Fixpoint streak_src (prod : bool) (x : Z) (hist : list (list stepT)) : Z :=
  match hist with
  | [] => 0
  | R :: h => if was_src_r prod x R then 1 + streak_src prod x h
              else if in_round x R then 0 else streak_src prod x h
  end.
Definition ev_prod (tbl : list row) (e : ev) : bool := ev_in tbl true e.

(* with ConsecutiveAbnormalities = K (and K <> 1) a node is evicted from only when it has been
   a source in at least K earlier rounds besides the current one *)
Definition gate_holds (c : cfg) (hist : list (list stepT)) (tbl : list row) (evs : list ev) : Prop :=
  gating c = true ->
  forall e, In e evs -> cK c <= count_src (ev_prod tbl e) (fst e) hist.
Definition gate_ok (c : cfg) (hist : list (list stepT)) (tbl : list row) (evs : list ev) : bool :=
  negb (gating c) || forallb (fun e => cK c <=? count_src (ev_prod tbl e) (fst e) hist) evs.
(* strict reading: ... in the K rounds immediately before the current one *)
Definition strict_gate_holds (c : cfg) (hist : list (list stepT)) (tbl : list row) (evs : list ev) : Prop :=
  gating c = true ->
  forall e, In e evs -> cK c <= streak_src (ev_prod tbl e) (fst e) hist.
Definition strict_gate_ok (c : cfg) (hist : list (list stepT)) (tbl : list row) (evs : list ev) : bool :=
  negb (gating c) || forallb (fun e => cK c <=? streak_src (ev_prod tbl e) (fst e) hist) evs.

(* ---------- one Balance call: the pools in order ---------- *)
(* the calls [seg] attributed to pool [pt], given what earlier pools evicted ([cum]) *)
Definition seg_holds (strict : bool) (pt : ptab) (cum : cumT) (hist : list (list stepT)) (seg : list ev) : Prop :=
  round_holds_from (pt_cfg pt) (pt_tbl pt) (pt_size pt)
                   (adj_umap (pt_cfg pt) false (pt_tbl pt) cum) (adj_umap (pt_cfg pt) true (pt_tbl pt) cum) seg /\
  gate_holds (pt_cfg pt) hist (pt_tbl pt) seg /\
  (strict = true -> strict_gate_holds (pt_cfg pt) hist (pt_tbl pt) seg).

Fixpoint pools_hold (strict : bool) (pts : list ptab) (cum : cumT) (hist : list (list stepT)) (evs : list ev) : Prop :=
  match pts with
  | [] => evs = []
  | pt :: t => exists seg rest,
      evs = seg ++ rest /\ seg_holds strict pt cum hist seg /\
      pools_hold strict t (cum ++ seg_charged (pt_tbl pt) seg) hist rest
  end.

(* first failing clause of a segment; 11 = only the evictions of earlier pools make it fail *)
Definition seg_code (strict : bool) (pt : ptab) (cum : cumT) (hist : list (list stepT)) (seg : list ev) : Z :=
  let c := pt_cfg pt in
  let tbl := pt_tbl pt in
  let k := check_round_from c tbl (pt_size pt) (adj_umap c false tbl cum) (adj_umap c true tbl cum) seg in
  if negb (k =? 0) then (if check_round c tbl (pt_size pt) seg =? 0 then 11 else k)
  else if negb (gate_ok c hist tbl seg) then 6
  else if strict && negb (strict_gate_ok c hist tbl seg) then 7
  else 0.
Definition seg_ok (strict : bool) (pt : ptab) (cum : cumT) (hist : list (list stepT)) (seg : list ev) : bool :=
  seg_code strict pt cum hist seg =? 0.

(* is there a split of the calls into one segment per pool? *)
Fixpoint pools_ok (strict : bool) (pts : list ptab) (cum : cumT) (hist : list (list stepT)) (evs : list ev) : bool :=
  match pts with
  | [] => is_nil evs
  | pt :: t =>
    existsb (fun k => seg_ok strict pt cum hist (firstn k evs) &&
                      pools_ok strict t (cum ++ seg_charged (pt_tbl pt) (firstn k evs)) hist (skipn k evs))
            (seq 0 (S (length evs)))
  end.

(* diagnosis when there is none: every pool takes the longest prefix it accepts; the first call
   it does not accept is blamed on the LAST pool that classifies the call's node as a source
   (the current pool, if no later one does), and the clause that pool fails with is reported *)
Definition src_ev (pt : ptab) (e : ev) : bool := ev_in (pt_tbl pt) false e || ev_in (pt_tbl pt) true e.
Fixpoint pools_code (pts : list ptab) (cum : cumT) (hist : list (list stepT)) (evs : list ev) : Z :=
  match pts with
  | [] => if is_nil evs then 0 else 1
  | pt :: t =>
    if is_nil t then seg_code false pt cum hist evs
    else
      let k := match find (fun k => seg_ok false pt cum hist (firstn k evs)) (rev (seq 0 (S (length evs)))) with
               | Some k => k | None => O end in
      let blame_here := match skipn k evs with
                        | [] => false
                        | e :: _ => src_ev pt e && negb (existsb (fun pt' => src_ev pt' e) t)
                        end in
      if blame_here then seg_code false pt cum hist (firstn (S k) evs)
      else pools_code t (cum ++ seg_charged (pt_tbl pt) (firstn k evs)) hist (skipn k evs)
  end.

(* ---------- whole histories ---------- *)
Definition steps_of (pts : list ptab) : list stepT := map (fun pt => (pt_ids pt, pt_tbl pt)) pts.

Fixpoint hist_holds (strict : bool) (tbls : list (list ptab))
  (obs : list (list ev)) (hist : list (list stepT)) : Prop :=
  match tbls, obs with
  | [], [] => True
  | pts :: rt, evs :: ot =>
    pools_hold strict pts [] hist evs /\ hist_holds strict rt ot (steps_of pts :: hist)
  | _, _ => False
  end.

Fixpoint hist_ok (strict : bool) (tbls : list (list ptab))
  (obs : list (list ev)) (hist : list (list stepT)) : bool :=
  match tbls, obs with
  | [], [] => true
  | pts :: rt, evs :: ot =>
    pools_ok strict pts [] hist evs && hist_ok strict rt ot (steps_of pts :: hist)
  | _, _ => false
  end.

Fixpoint hist_code (tbls : list (list ptab)) (obs : list (list ev)) (hist : list (list stepT)) : Z :=
  match tbls, obs with
  | [], [] => 0
  | pts :: rt, evs :: ot =>
    if pools_ok false pts [] hist evs then hist_code rt ot (steps_of pts :: hist)
    else let k := pools_code pts [] hist evs in if k =? 0 then 9 else k
  | _, _ => 9
  end.

(* the pools of every round: configuration, node ids and usage / threshold table, recomputed
   from the inputs. Which nodes a later pool of a Balance call looks at depends on which earlier
   pools ran to their end, hence on the detector caches: the tables are read off the run of the
   model ([fx], [fxp]: the code variant, see Model) *)
Definition tables (fx fxp : bool) (bc : list cfg) (ns : list nstat) (rounds : list (list nround))
  : list (list ptab) :=
  map (fun r => map fst (fst r)) (run_gen fx fxp bc ns rounds ([], [])).
(* the Evict calls of every round *)
Definition observed (res : list (list (ptab * list ev) * dstate)) : list (list ev) :=
  map (fun r => evs_of (fst r)) res.

Definition C18_holds (strict : bool) (tbls : list (list ptab)) (obs : list (list ev)) : Prop :=
  hist_holds strict tbls obs [].
(* 0 = holds (strict reading included); 7 = only the strict reading of the gate fails *)
Definition prop_code (tbls : list (list ptab)) (obs : list (list ev)) : Z :=
  if hist_ok true tbls obs [] then 0
  else if hist_ok false tbls obs [] then 7
  else hist_code tbls obs [].

(* well-formed input: (namespace, name) is unique among the pods of a node, reported usage is
   not negative *)
Fixpoint nodupb (l : list pkeyT) : bool :=
  match l with [] => true | x :: t => negb (existsb (pkey_eqb x) t) && nodupb t end.
Definition wf_nround (r : nround) : bool :=
  nodupb (map pkey (rpods r)) && forallb (fun p => (0 <=? pcpu p) && (0 <=? pmem p)) (rpods r).
Definition wf_rounds (rounds : list (list nround)) : bool :=
  forallb (forallb wf_nround) rounds.

(* ---------- static facts about the pool list ---------- *)
(* the pool's selector matches a node with that label (a nil selector matches everything) *)
Definition static_match (c : cfg) (l : Z) : bool := (csel c =? 0) || sel_match (csel c) l.
(* no node is matched by two pools *)
Fixpoint disjoint_pools (bc : list cfg) (ns : list nstat) : bool :=
  match bc with
  | [] => true
  | c :: t =>
    forallb (fun c' => forallb (fun s => negb (static_match c (nlabel s) && static_match c' (nlabel s))) ns) t
    && disjoint_pools t ns
  end.
(* no pool uses the anomaly gate *)
Definition no_gating (bc : list cfg) : bool := forallb (fun c => negb (gating c)) bc.
