(* C18 — the property as Props over (history of rounds, recorded Evict calls) and its decision
   procedure [prop_code] (0 = holds, otherwise the number of the first failing clause).

   Observable of a round: the Evict calls received by the evictor, in order, as (node, pod).
   Every call is judged against the usage / threshold table recomputed from the round's
   inputs ([Model.table]) and against the running estimates obtained by replaying the calls
   that precede it.

   clauses
     1  source not overloaded: the node is not a usable pool node, is not classified
        high / prod-high, or its running estimate is not above the high threshold in any
        dimension at the moment of the call
     2  nobody to receive load: no low / both-low node (node pass), no prod-low / both-low
        node (prod pass)
     3  the pod is not a pod of that node (prod pass: not a prod pod) or fails the filters
     4  headroom of the underused nodes used up in some dimension at the moment of the call
     5  evictions although no node is overloaded / no node is underused / all are underused
     6  anomaly gate: the node was a source in fewer rounds than ConsecutiveAbnormalities
        requires (counting all earlier rounds)
     7  (strict reading, see findings) the rounds in which it was a source are not consecutive
     8  Evict called in dry-run mode
     9  malformed observable
    10  NodeFit is on and the pod has no usage metrics or fits no target node even when the
        reservations made for other pods are ignored *)
From Coq Require Import String List ZArith Bool.
From Verif Require Import C18.Model.
Import ListNotations.
Open Scope Z_scope.

Fixpoint find_row (x : Z) (tbl : list row) : option row :=
  match tbl with [] => None | r :: t => if rid r =? x then Some r else find_row x t end.
Definition pkey_eqb (a b : pkeyT) : bool := (fst a =? fst b) && (snd a =? snd b).
Fixpoint find_pod (pv : pkeyT) (ps : list pod) : option pod :=
  match ps with [] => None | p :: t => if pkey_eqb (pkey p) pv then Some p else find_pod pv t end.

Definition src_cls (prod : bool) : Z := if prod then cProdHigh else cHigh.
Definition targets (prod : bool) (tbl : list row) : list row :=
  if prod then prod_targets tbl else node_targets tbl.
Definition ev_cls (tbl : list row) (e : ev) : Z :=
  match find_row (fst e) tbl with Some r => rcls r | None => -1 end.
Definition ev_in (tbl : list row) (prod : bool) (e : ev) : bool := ev_cls tbl e =? src_cls prod.

(* "no node is overloaded, no node is underused, or all nodes are underused" *)
Definition no_source (tbl : list row) : bool :=
  is_nil (filter (has_cls cHigh) tbl) && is_nil (filter (has_cls cProdHigh) tbl).
Definition n_low (tbl : list row) : Z :=
  countf (has_cls cLow) tbl + countf (has_cls cProdLow) tbl + countf (has_cls cBothLow) tbl.
Definition nothing_cond (tbl : list row) (psize : Z) : bool :=
  no_source tbl || (n_low tbl =? 0) || (n_low tbl =? psize).

(* NodeFit: the pod reports usage and, added to the MEASURED usage of some target node, stays
   within that node's high threshold (necessary for podFitsAnyNodeWithThreshold, which also
   counts what it has reserved for pods examined before) *)
Definition fit_ok (c : cfg) (prod : bool) (tbl : list row) (p : pod) : bool :=
  negb (cfit c) ||
  (pmet p && existsb (fun t => negb (over (vadd (r_use prod t) (pfit c p)) (r_high prod t)))
                     (targets prod tbl)).

Section Round.
  Variable c : cfg.
  Variable tbl : list row.

  (* ---------- the Prop ---------- *)
  Inductive valid_pass (prod : bool) : ustate -> list ev -> ustate -> Prop :=
  | vp_nil : forall st, valid_pass prod st [] st
  | vp_cons : forall st x pv r p evs st',
      find_row x tbl = Some r -> rcls r = src_cls prod ->
      node_over prod r st = true ->                 (* overloaded at that moment *)
      targets prod tbl <> [] ->                     (* somebody can receive load *)
      all_pos (snd st) = true ->                    (* their headroom is not used up *)
      find_pod pv (r_pods prod r) = Some p ->       (* a pod of that node ... *)
      pfilt_ok p = true ->                          (* ... that passes the filters *)
      fit_ok c prod tbl p = true ->                 (* ... and, with NodeFit, fits a target *)
      valid_pass prod (apply_ev c x p st) evs st' ->
      valid_pass prod st ((x, pv) :: evs) st'.

  Definition init_state (prod : bool) (avail : vec) : ustate := (init_umap prod tbl, avail).

  Definition round_holds (psize : Z) (evs : list ev) : Prop :=
    (cdry c = true -> evs = []) /\
    (nothing_cond tbl psize = true -> evs = []) /\
    (forall e, In e evs -> ev_in tbl false e = true \/ ev_in tbl true e = true) /\
    exists stN stP,
      valid_pass false (init_state false (node_avail (dims c) tbl))
                 (filter (ev_in tbl false) evs) stN /\
      valid_pass true (init_state true (prod_avail (dims c) tbl (snd stN)))
                 (filter (ev_in tbl true) evs) stP.

  (* ---------- the decision procedure ---------- *)
  Fixpoint check_pass (prod : bool) (evs : list ev) (st : ustate) : Z * ustate :=
    match evs with
    | [] => (0, st)
    | (x, pv) :: t =>
      match find_row x tbl with
      | None => (1, st)
      | Some r =>
        if negb (rcls r =? src_cls prod) then (1, st)
        else if negb (node_over prod r st) then (1, st)
        else if is_nil (targets prod tbl) then (2, st)
        else if negb (all_pos (snd st)) then (4, st)
        else match find_pod pv (r_pods prod r) with
             | None => (3, st)
             | Some p => if negb (pfilt_ok p) then (3, st)
                         else if negb (fit_ok c prod tbl p) then (10, st)
                         else check_pass prod t (apply_ev c x p st)
             end
      end
    end.

  Definition check_round (psize : Z) (evs : list ev) : Z :=
    if cdry c && negb (is_nil evs) then 8
    else if nothing_cond tbl psize && negb (is_nil evs) then 5
    else if negb (forallb (fun e => ev_in tbl false e || ev_in tbl true e) evs) then 1
    else
      let '(k1, st1) := check_pass false (filter (ev_in tbl false) evs)
                                   (init_state false (node_avail (dims c) tbl)) in
      if negb (k1 =? 0) then k1
      else fst (check_pass true (filter (ev_in tbl true) evs)
                           (init_state true (prod_avail (dims c) tbl (snd st1)))).
End Round.

(* ---------- anomaly gate over the history ---------- *)
(* [hist]: tables of the earlier rounds, most recent first *)
Definition was_src (prod : bool) (x : Z) (tbl : list row) : bool :=
  match find_row x tbl with Some r => rcls r =? src_cls prod | None => false end.
Definition count_src (prod : bool) (x : Z) (hist : list (list row)) : Z :=
  countf (was_src prod x) hist.
Fixpoint streak_src (prod : bool) (x : Z) (hist : list (list row)) : Z :=
  match hist with
  | [] => 0
  | t :: h => if was_src prod x t then 1 + streak_src prod x h else 0
  end.
Definition ev_prod (tbl : list row) (e : ev) : bool := ev_in tbl true e.

(* with ConsecutiveAbnormalities = K (and K <> 1) a node is evicted from only when it has been
   a source in at least K earlier rounds besides the current one *)
Definition gate_holds (c : cfg) (hist : list (list row)) (tbl : list row) (evs : list ev) : Prop :=
  gating c = true ->
  forall e, In e evs -> cK c <= count_src (ev_prod tbl e) (fst e) hist.
Definition gate_ok (c : cfg) (hist : list (list row)) (tbl : list row) (evs : list ev) : bool :=
  negb (gating c) || forallb (fun e => cK c <=? count_src (ev_prod tbl e) (fst e) hist) evs.
(* strict reading: ... in the K rounds immediately before the current one *)
Definition strict_gate_holds (c : cfg) (hist : list (list row)) (tbl : list row) (evs : list ev) : Prop :=
  gating c = true ->
  forall e, In e evs -> cK c <= streak_src (ev_prod tbl e) (fst e) hist.
Definition strict_gate_ok (c : cfg) (hist : list (list row)) (tbl : list row) (evs : list ev) : bool :=
  negb (gating c) || forallb (fun e => cK c <=? streak_src (ev_prod tbl e) (fst e) hist) evs.

(* ---------- whole histories ---------- *)
(* the usage / threshold table and the pool size of every round, recomputed from the inputs *)
Definition tables (c : cfg) (ns : list nstat) (rounds : list (list nround)) : list (list row * Z) :=
  map (fun rs => (table c ns rs, pool_size c ns rs)) rounds.

Fixpoint hist_holds (c : cfg) (tbls : list (list row * Z))
  (obs : list (list ev)) (hist : list (list row)) : Prop :=
  match tbls, obs with
  | [], [] => True
  | (tbl, psize) :: rt, evs :: ot =>
    round_holds c tbl psize evs /\ gate_holds c hist tbl evs /\
    hist_holds c rt ot (tbl :: hist)
  | _, _ => False
  end.

Fixpoint check_hist (c : cfg) (tbls : list (list row * Z))
  (obs : list (list ev)) (hist : list (list row)) : Z :=
  match tbls, obs with
  | [], [] => 0
  | (tbl, psize) :: rt, evs :: ot =>
    let k := check_round c tbl psize evs in
    if negb (k =? 0) then k
    else if negb (gate_ok c hist tbl evs) then 6
    else check_hist c rt ot (tbl :: hist)
  | _, _ => 9
  end.

Fixpoint check_strict (c : cfg) (tbls : list (list row * Z))
  (obs : list (list ev)) (hist : list (list row)) : Z :=
  match tbls, obs with
  | (tbl, _) :: rt, evs :: ot =>
    if negb (strict_gate_ok c hist tbl evs) then 7 else check_strict c rt ot (tbl :: hist)
  | _, _ => 0
  end.

Definition C18_holds (c : cfg) (ns : list nstat) (rounds : list (list nround)) (obs : list (list ev)) : Prop :=
  hist_holds c (tables c ns rounds) obs [].
Definition prop_code (c : cfg) (ns : list nstat) (rounds : list (list nround)) (obs : list (list ev)) : Z :=
  check_hist c (tables c ns rounds) obs [].
Definition strict_code (c : cfg) (ns : list nstat) (rounds : list (list nround)) (obs : list (list ev)) : Z :=
  check_strict c (tables c ns rounds) obs [].

(* well-formed input: (namespace, name) is unique among the pods of a node, reported usage is
   not negative *)
Fixpoint nodupb (l : list pkeyT) : bool :=
  match l with [] => true | x :: t => negb (existsb (pkey_eqb x) t) && nodupb t end.
Definition wf_nround (r : nround) : bool :=
  nodupb (map pkey (rpods r)) && forallb (fun p => (0 <=? pcpu p) && (0 <=? pmem p)) (rpods r).
Definition wf_rounds (rounds : list (list nround)) : bool :=
  forallb (forallb wf_nround) rounds.
