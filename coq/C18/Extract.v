(* C18 — flat-integer interface of the model for the generic OCaml driver.

   input:   N dry fit sel dev anom K Kn
            cpu(low high plow phigh) mem(low high plow phigh) pods(low high plow phigh)   (percent, -1 = absent pair)
            wcpu wmem wpods
            n   then n x (capCpuMilli capMemBytes capPods member)
            R   then R rounds, each: n x (unsched fresh sysCpu sysMem np  then np x (pid ns prio hasMetric cpu mem filt evok))   ns: 0,1 evictable namespaces, 2,3 excluded ones
   observable, per round:
            k   then k x (node ns pod)   the Evict calls in order (node = 1-based index)
            then n x (nodeDetector prodDetector)   -1 = none, else state*1000000 + consAbn*1000 + consNorm *)
From Coq Require Import String List ZArith Bool.
From Verif Require Import Lib.Wire C18.Model C18.Spec.
Import ListNotations.
Open Scope Z_scope.

Definition dec_pod (l : list Z) : pod * list Z :=
  match l with
  | a :: n :: b :: m :: cp :: me :: f :: e :: t => (mkPod a n b (zb m) cp me f (zb e), t)
  | _ => (mkPod 0 0 0 false 0 0 0 false, [])
  end.
Definition dec_nround (l : list Z) : nround * list Z :=
  match l with
  | u :: f :: sc :: sm :: t =>
      let '(ps, r) := decode_seq dec_pod t in (mkNround (zb u) f sc sm ps, r)
  | _ => (mkNround false 0 0 0 [], [])
  end.
Definition dec_nstat (l : list Z) : nstat * list Z :=
  match l with
  | a :: b :: p :: m :: t => (mkNstat a b p (zb m), t)
  | _ => (mkNstat 0 0 0 false, [])
  end.
Definition dec_thr (l : list Z) : thr4 * list Z :=
  match l with
  | a :: b :: p :: q :: t => (mkThr4 a b p q, t)
  | _ => (mkThr4 (-1) (-1) (-1) (-1), [])
  end.

Definition decode (inp : list Z) : cfg * list nstat * list (list nround) :=
  match inp with
  | n :: dry :: fit :: sel :: dev :: anom :: k :: kn :: t =>
    let '(ths, t1) := decode_many dec_thr 3 t in
    let '(ws, t2) := take_n 3 t1 in
    let '(ns, t3) := decode_seq dec_nstat t2 in
    let nn := length ns in
    let '(rounds, _) := decode_seq (decode_many dec_nround nn) t3 in
    (mkCfg n (zb dry) (zb fit) (zb sel) (zb dev) (zb anom) k kn ths ws, ns, rounds)
  | _ => (mkCfg 0 false false false false false 0 0 [] [], [], [])
  end.

Definition det_code (o : option det) : Z :=
  match o with
  | None => -1
  | Some d0 => let d := cur d0 in bz (dst d) * 1000000 + dA d * 1000 + dN d
  end.

Definition enc_round (n : nat) (r : list ev * dstate) : list Z :=
  let '(evs, (dn, dp)) := r in
  Z.of_nat (length evs) :: flat_map (fun e => [fst e; fst (snd e); snd (snd e)]) evs
  ++ flat_map (fun i => [det_code (dget (Z.of_nat i) dn); det_code (dget (Z.of_nat i) dp)]) (seq 1 n).

Definition run_case (inp : list Z) : list Z :=
  let '(c, ns, rounds) := decode inp in
  flat_map (enc_round (length ns)) (run c ns rounds ([], [])).

(* the Evict calls of each round, from the implementation's observable *)
Fixpoint dec_evs (k : nat) (l : list Z) : list ev * list Z :=
  match k with
  | O => ([], l)
  | S k' => match l with
            | x :: n :: p :: t => let '(evs, r) := dec_evs k' t in ((x, (n, p)) :: evs, r)
            | _ => ([], [])
            end
  end.
Fixpoint dec_obs (rounds : nat) (n : nat) (l : list Z) : list (list ev) * bool :=
  match rounds with
  | O => ([], is_nil l)
  | S r' =>
    match l with
    | k :: t =>
      let '(evs, rest) := dec_evs (Z.to_nat k) t in
      if negb (Nat.eqb (length evs) (Z.to_nat k)) || (length rest <? 2 * n)%nat then ([], false)
      else let '(o, ok) := dec_obs r' n (skipn (2 * n) rest) in (evs :: o, ok)
    | [] => ([], false)
    end
  end.

(* 0 = holds; 1..9 clause of Spec.v; 7 = only the strict reading of the anomaly gate fails *)
Definition prop_case (inp obs : list Z) : Z :=
  let '(c, ns, rounds) := decode inp in
  let '(o, ok) := dec_obs (length rounds) (length ns) obs in
  if negb ok then 9
  else
    let tb := tables c ns rounds in
    let k := check_hist c tb o [] in        (* = prop_code c ns rounds o *)
    if negb (k =? 0) then k else check_strict c tb o [].

(* a history is non-trivial when the model evicts at least once in it *)
Definition nontrivial_case (inp : list Z) : bool :=
  let '(c, ns, rounds) := decode inp in
  let res := run c ns rounds ([], []) in
  existsb (fun r => negb (is_nil (fst r))) res.

(* known finding 1: ConsecutiveAbnormalities also counts rounds that are not consecutive.
   Once the repair is in ([reset_on_normal] = true) clause 7 is an ordinary violation. *)
Definition finding_sig (inp obs : list Z) : Z :=
  if reset_on_normal then 0 else if prop_case inp obs =? 7 then 1 else 0.

Require Extraction.
Require Import ExtrOcamlBasic.
Extraction "model.ml" run_case prop_case nontrivial_case finding_sig.
