(* C18 — flat-integer interface of the model for the generic OCaml driver.

   input:   N dry fit paused                                                  (paused: Balance does nothing)
            P   then P x (sel dev anom K Kn
                          cpu(low high plow phigh) mem(low high plow phigh) pods(low high plow phigh)   (percent, -1 = absent pair)
                          wcpu wmem wpods)
                sel = NodeSelector of the pool: 0 nil, 1 {}, 2 matchLabels a, 3 matchLabels b, 4 Exists, 5 In [a],
                      6 In [a,b], 7 NotIn [a], 8 DoesNotExist, 9 empty non-nil matchLabels + matchExpressions
            n   then n x (capCpuMilli capMemBytes capPods label rawKind rawCpu rawMem rawPods)
                label: 0 none, 1 "a", 2 "b";  rawKind: raw-allocatable annotation 0 absent, 1 cpu+memory+pods, 2 cpu only, 3 not JSON
            R   then R rounds, each: n x (unsched fresh sysCpu sysMem
                                          np  then np x (pid ns prio hasMetric cpu mem filt evok)     ns: 0,1 evictable namespaces, 2,3 excluded ones
                                          nx  then nx x (ns pid cpu mem))                             further podsMetric entries (stale / duplicate)
   observable, per round:
            k   then k x (node ns pod)   the Evict calls of the Balance call in order (node = 1-based index)
            then n x (nodeDetector prodDetector)   -1 = none, else state*1000000 + consAbn*1000 + consNorm *)
From Coq Require Import String List ZArith Bool.
From Verif Require Import Lib.Wire C18.Model C18.Spec.
Import ListNotations.
Open Scope Z_scope.

Definition dec_pod (l : list Z) : pod * list Z :=
  match l with
  | a :: n :: b :: m :: cp :: me :: f :: e :: t => (mkPod a n b (zb m) cp me f (zb e), t)
  | _ => (mkPod 0 0 0 false 0 0 0 false, [])
  end.
Definition dec_extra (l : list Z) : (Z * Z * Z * Z) * list Z :=
  match l with
  | n :: a :: cp :: me :: t => ((n, a, cp, me), t)
  | _ => ((0, 0, 0, 0), [])
  end.
Definition dec_nround (l : list Z) : nround * list Z :=
  match l with
  | u :: f :: sc :: sm :: t =>
      let '(ps, r) := decode_seq dec_pod t in
      let '(xs, r') := decode_seq dec_extra r in (mkNround (zb u) f sc sm ps xs, r')
  | _ => (mkNround false 0 0 0 [] [], [])
  end.
Definition dec_nstat (l : list Z) : nstat * list Z :=
  match l with
  | a :: b :: p :: m :: k :: rc :: rm :: rp :: t => (mkNstat a b p m k rc rm rp, t)
  | _ => (mkNstat 0 0 0 0 0 0 0 0, [])
  end.
Definition dec_thr (l : list Z) : thr4 * list Z :=
  match l with
  | a :: b :: p :: q :: t => (mkThr4 a b p q, t)
  | _ => (mkThr4 (-1) (-1) (-1) (-1), [])
  end.
Definition dec_pool (n dry fit : Z) (l : list Z) : cfg * list Z :=
  match l with
  | sel :: dev :: anom :: k :: kn :: t =>
    let '(ths, t1) := decode_many dec_thr 3 t in
    let '(ws, t2) := take_n 3 t1 in
    (mkCfg n (zb dry) (zb fit) sel (zb dev) (zb anom) k kn ths ws, t2)
  | _ => (mkCfg 0 false false 0 false false 0 0 [] [], [])
  end.

Definition decode (inp : list Z) : list cfg * list nstat * list (list nround) :=
  match inp with
  | n :: dry :: fit :: paused :: t =>
    let '(bc0, t2) := decode_seq (dec_pool n dry fit) t in
    (* LowNodeLoadArgs.Paused: Balance returns before looking at any pool *)
    let bc := if zb paused then [] else bc0 in
    let '(ns, t3) := decode_seq dec_nstat t2 in
    let nn := length ns in
    let '(rounds, _) := decode_seq (decode_many dec_nround nn) t3 in
    (bc, ns, rounds)
  | _ => ([], [], [])
  end.

Definition det_code (o : option det) : Z :=
  match o with
  | None => -1
  | Some d0 => let d := cur d0 in bz (dst d) * 1000000 + dA d * 1000 + dN d
  end.

Definition enc_round (n : nat) (r : list (ptab * list ev) * dstate) : list Z :=
  let '(l, (dn, dp)) := r in
  let evs := evs_of l in
  Z.of_nat (length evs) :: flat_map (fun e => [fst e; fst (snd e); snd (snd e)]) evs
  ++ flat_map (fun i => [det_code (dget (Z.of_nat i) dn); det_code (dget (Z.of_nat i) dp)]) (seq 1 n).

Definition run_case (inp : list Z) : list Z :=
  let '(bc, ns, rounds) := decode inp in
  flat_map (enc_round (length ns)) (run bc ns rounds ([], [])).

(* the Evict calls of each round, from the implementation's observable *)
Fixpoint dec_evs (k : nat) (l : list Z) : list ev * list Z :=
  match k with
  | O => ([], l)
  | S k' => match l with
            | x :: n :: p :: t => let '(evs, r) := dec_evs k' t in ((x, (n, p)) :: evs, r)
            | _ => ([], [])
            end
  end.
Fixpoint dec_obs (rounds : nat) (n : nat) (l : list Z) : list (list ev) * bool :=
  match rounds with
  | O => ([], is_nil l)
  | S r' =>
    match l with
    | k :: t =>
      let '(evs, rest) := dec_evs (Z.to_nat k) t in
      if negb (Nat.eqb (length evs) (Z.to_nat k)) || (length rest <? 2 * n)%nat then ([], false)
      else let '(o, ok) := dec_obs r' n (skipn (2 * n) rest) in (evs :: o, ok)
    | [] => ([], false)
    end
  end.

(* 0 = holds; 1..11 clause of Spec.v; 7 = only the strict reading of the anomaly gate fails.
   The pools' node sets and tables are those of the code as it is in /repo. *)
Definition prop_case (inp obs : list Z) : Z :=
  let '(bc, ns, rounds) := decode inp in
  let '(o, ok) := dec_obs (length rounds) (length ns) obs in
  if negb ok then 9
  else prop_code (tables reset_on_normal processed_repaired bc ns rounds) o.

(* a history is non-trivial when the model evicts at least once in it *)
Definition nontrivial_case (inp : list Z) : bool :=
  let '(bc, ns, rounds) := decode inp in
  let res := run bc ns rounds ([], []) in
  existsb (fun r => negb (is_nil (evs_of (fst r)))) res.

Fixpoint zlist_eqb (a b : list Z) : bool :=
  match a, b with
  | [], [] => true
  | x :: a', y :: b' => (x =? y) && zlist_eqb a' b'
  | _, _ => false
  end.

(* known findings; every shape requires that the implementation did exactly what the faithful
   model does, so that any other departure is still reported.
   1  (repaired in /repo) ConsecutiveAbnormalities also counted rounds that are not consecutive
   2  a node relieved by an earlier pool of the same Balance call is relieved again by a later
      pool on the strength of its stale measured usage (clause 11): a pool with a nil selector
      ignores processedNodes, and prod-high source nodes are never recorded in it
   3  pools that overlap share one detector per node: a node that is a source in two pools is
      marked abnormal twice in one Balance call, and the gate opens after fewer rounds than
      ConsecutiveAbnormalities requires (clauses 6 / 7)
   The shape is decided semantically, not by the clause number of the diagnosis: the pools overlap,
   and (2) the model WITH the processedNodes repair passes on the same input, or (3) it does not
   and some pool uses the gate. *)
Definition finding_sig (inp obs : list Z) : Z :=
  let k := prop_case inp obs in
  if k =? 0 then 0
  else if negb (zlist_eqb obs (run_case inp)) then 0
  else if negb reset_on_normal && (k =? 7) then 1
  else
    let '(bc, ns, rounds) := decode inp in
    (* with pairwise disjoint pools the faithful model satisfies the property (c18_main) *)
    if disjoint_pools bc ns then 0
    (* the variant with the processedNodes repair does not fail on this input: re-entry *)
    else if negb processed_repaired &&
            (prop_code (tables reset_on_normal true bc ns rounds)
                       (observed (run_gen reset_on_normal true bc ns rounds ([], []))) =? 0) then 2
    (* it fails even so: only the gate is left (c18_main_overlap_repaired), detectors shared by overlapping pools *)
    else if negb (no_gating bc) then 3
    else 0.

Require Extraction.
Require Import ExtrOcamlBasic.
Extraction "model.ml" run_case prop_case nontrivial_case finding_sig.
