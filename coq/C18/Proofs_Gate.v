(* C18 — proofs, part 3: anomaly detectors over the history of rounds (the gate), and the
   theorem over whole histories. *)
From Coq Require Import String List ZArith Bool Lia.
From Verif Require Import C18.Model C18.Spec C18.Proofs_Vec C18.Proofs_Pass C18.Proofs_Round.
Import ListNotations.
Open Scope Z_scope.

(* Everything below is proved for an arbitrary measure [mu] of "how long has node x been a
   source" over the sequence of POOL STEPS (node ids and table of one pool of one Balance call,
   most recent first): non-negative and growing by one in a step in which x is a source. It is
   instantiated with the number of earlier source steps (holds for the code as it is) and with
   the length of the run of source steps among the steps that looked at the node (holds for the
   repaired variant). [kof x]: the ConsecutiveAbnormalities of the pool node x belongs to. *)
Section Measure.
Variable c : cfg.
Variable kof : Z -> Z.
Variable mu : bool -> Z -> list stepT -> Z.
Hypothesis mu_nonneg : forall prod x h, 0 <= mu prod x h.
Hypothesis mu_src : forall prod x (t : stepT) h, was_src prod x (snd t) = true -> mu prod x (t :: h) = 1 + mu prod x h.

(* ---------------------------------------------------------------- one detector *)
(* the detector of node x (node cache or prod cache) against the rounds seen so far:
   its abnormality counter never exceeds the number of rounds in which the node was a source,
   and it is in the anomaly state only after more than K such rounds *)
Definition det_inv (prod : bool) (hist : list stepT) (x : Z) (d : det) : Prop :=
  dK d = kof x /\
  (dst d = false -> dA d <= mu prod x hist) /\
  (dst d = true -> kof x + 1 <= mu prod x hist).

Ltac det_crush :=
  repeat match goal with
         | |- context [if ?b then _ else _] => destruct b eqn:?
         | H : context [if ?b then _ else _] |- _ => destruct b eqn:?
         end; cbn [dK dKn dst dA dN andb] in *; try discriminate; try lia; try tauto.

Lemma set_ok_inv prod h x d : det_inv prod h x d -> det_inv prod h x (set_ok d).
Proof.
  unfold det_inv, set_ok. pose proof (mu_nonneg prod x h). destruct d as [K Kn st A N].
  cbn [dK dKn dst dA dN]. intros [H1 [H2 H3]]. destruct st; cbn [dK dKn dst dA dN]; [|tauto].
  split; [exact H1|]. split; intros; [lia|discriminate].
Qed.
Lemma cur_inv prod h x d : det_inv prod h x d -> det_inv prod h x (cur d).
Proof. unfold cur. intros H. destruct (dst d && (dKn d <? dN d)); [apply set_ok_inv|]; exact H. Qed.

Lemma mark_norm_inv prod h x d : det_inv prod h x d -> det_inv prod h x (mark_norm d).
Proof.
  intros H. apply (cur_inv prod h x) in H. unfold mark_norm. apply cur_inv.
  set (d' := cur d) in *. pose proof (mu_nonneg prod x h).
  destruct d' as [K Kn st A N]. unfold det_inv in *. cbn [dK dKn dst dA dN] in *.
  destruct H as [H1 [H2 H3]]. destruct st; cbn [dK dKn dst dA dN].
  - destruct (Kn <? N + 1); unfold set_ok; cbn [dK dKn dst dA dN].
    + split; [exact H1|]. split; intros; [lia|discriminate].
    + split; [exact H1|]. split; intros; [discriminate|auto].
  - split; [exact H1|]. split; intros; [lia|discriminate].
Qed.

(* Mark(false) in a round in which the node is a source; if it ends in the anomaly state the
   node has been a source in at least K earlier rounds *)
Lemma mark_abn_inv prod h (t : stepT) x d :
  det_inv prod h x d -> was_src prod x (snd t) = true ->
  det_inv prod (t :: h) x (mark_abn d) /\
  (dst (mark_abn d) = true -> kof x <= mu prod x h).
Proof.
  intros H Hs. apply (cur_inv prod h x) in H. unfold mark_abn.
  set (d' := cur d) in *. pose proof (mu_nonneg prod x h).
  destruct d' as [K Kn st A N]. unfold det_inv in H. cbn [dK dKn dst dA dN] in *.
  destruct H as [H1 [H2 H3]].
  assert (forall e, det_inv prod (t :: h) x e -> (dst e = true -> kof x <= mu prod x h) ->
                    det_inv prod (t :: h) x (cur e) /\ (dst (cur e) = true -> kof x <= mu prod x h)) as Hcur.
  { intros e He Hg. split; [apply cur_inv; exact He|].
    unfold cur, set_ok. destruct (dst e) eqn:Ed; cbn [andb].
    - destruct (dKn e <? dN e); cbn [dst]; [discriminate|rewrite Ed; exact Hg].
    - rewrite Ed. exact Hg. }
  destruct st; cbn [dK dKn dst dA dN].
  - apply Hcur.
    + unfold det_inv. cbn [dK dKn dst dA dN]. rewrite (mu_src _ _ _ _ Hs).
      split; [exact H1|]. split; intros; [discriminate|]. specialize (H3 eq_refl). lia.
    + cbn [dst]. intros _. specialize (H3 eq_refl). lia.
  - specialize (H2 eq_refl). destruct (K <? A + 1) eqn:E.
    + apply Z.ltb_lt in E. unfold set_an. cbn [dK dKn dst dA dN]. apply Hcur.
      * unfold det_inv. cbn [dK dKn dst dA dN]. rewrite (mu_src _ _ _ _ Hs).
        split; [exact H1|]. split; intros; [discriminate|lia].
      * cbn [dst]. intros _. lia.
    + apply Hcur.
      * unfold det_inv. cbn [dK dKn dst dA dN]. rewrite (mu_src _ _ _ _ Hs).
        split; [exact H1|]. split; intros; [lia|discriminate].
      * cbn [dst]. discriminate.
Qed.

(* ---------------------------------------------------------------- detector caches *)
Lemma dget_dset x y d m : dget x (dset y d m) = if y =? x then Some d else dget x m.
Proof.
  induction m as [|[k d0] t IH]; cbn [dset dget].
  - reflexivity.
  - destruct (k =? y) eqn:E1.
    + apply Z.eqb_eq in E1. subst k. cbn [dget]. destruct (y =? x); reflexivity.
    + cbn [dget]. destruct (k =? x) eqn:E2.
      * apply Z.eqb_eq in E2. subst k. rewrite Z.eqb_sym, E1. reflexivity.
      * exact IH.
Qed.

Definition dmap_inv (prod : bool) (h : list stepT) (m : dmap) : Prop :=
  forall x d, dget x m = Some d -> det_inv prod h x d.

Lemma dupd_inv prod h f y m :
  (forall x d, det_inv prod h x d -> det_inv prod h x (f d)) ->
  dmap_inv prod h m -> dmap_inv prod h (dupd f y m).
Proof.
  intros Hf Hm. unfold dupd. destruct (dget y m) as [d0|] eqn:E; [|exact Hm].
  intros x d. rewrite dget_dset. destruct (y =? x) eqn:Exy.
  - apply Z.eqb_eq in Exy. subst x. intros H. inversion H; subst. apply Hf. apply Hm. exact E.
  - apply Hm.
Qed.

Lemma reset_nodes_inv prod h rs : forall m, dmap_inv prod h m -> dmap_inv prod h (reset_nodes rs m).
Proof.
  unfold reset_nodes. induction rs as [|r t IH]; intros m Hm; cbn [fold_left]; [exact Hm|].
  apply IH. apply dupd_inv; [|exact Hm]. intros x d. apply set_ok_inv.
Qed.
Lemma mark_nodes_normal_inv prod h rs : forall m,
  dmap_inv prod h m -> dmap_inv prod h (mark_nodes_normal rs m).
Proof.
  unfold mark_nodes_normal. induction rs as [|r t IH]; intros m Hm; cbn [fold_left]; [exact Hm|].
  apply IH. apply dupd_inv; [|exact Hm]. intros x d. apply mark_norm_inv.
Qed.

Lemma evict_pods_dm_inv prod' prod h r ps : forall st dm,
  dmap_inv prod h dm -> dmap_inv prod h (snd (evict_pods c prod' r ps st dm)).
Proof.
  induction ps as [|p t IH]; intros st dm Hm; cbn [evict_pods]; [exact Hm|].
  destruct (node_over prod' r st); cbn [negb snd].
  2:{ apply dupd_inv; [|exact Hm]. intros x d. apply set_ok_inv. }
  destruct (all_pos (snd st)); cbn [negb snd]; [|exact Hm].
  destruct (pfilt_ok p); cbn [negb]; [|apply IH; exact Hm].
  destruct (cdry c); [apply IH; exact Hm|].
  specialize (IH (apply_ev c (rid r) p st) dm Hm).
  destruct (evict_pods c prod' r t (apply_ev c (rid r) p st) dm) as [[evs st'] dm']. exact IH.
Qed.

Lemma balance_pods_dm_inv prod' prod h tg srcs : forall st resv dm,
  dmap_inv prod h dm -> dmap_inv prod h (snd (balance_pods c prod' tg srcs st resv dm)).
Proof.
  induction srcs as [|r t IH]; intros st resv dm Hm; cbn [balance_pods]; [exact Hm|].
  destruct (removable c prod' tg (r_pods prod' r) resv) as [rem resv1].
  pose proof (evict_pods_dm_inv prod' prod h r (sort_by pod_leb rem) st dm Hm) as H1.
  destruct (evict_pods c prod' r (sort_by pod_leb rem) st dm) as [[evs1 st2] dm2]. cbn [snd] in H1.
  specialize (IH st2 resv1 dm2 H1).
  destruct (balance_pods c prod' tg t st2 resv1 dm2) as [[evs2 st3] dm3]. exact IH.
Qed.

Definition dstate_inv (h : list stepT) (ds : dstate) : Prop :=
  dmap_inv false h (fst ds) /\ dmap_inv true h (snd ds).

Lemma efs_dm_inv h tbl abn pabn ds :
  dstate_inv h ds -> dstate_inv h (snd (evict_from_sources c tbl abn pabn ds)).
Proof.
  intros [Hn Hp]. unfold evict_from_sources.
  set (st0 := (init_umap false tbl, node_avail (dims c) tbl)).
  assert (dmap_inv false h (snd (if is_nil (node_targets tbl) then ([], st0, fst ds)
            else balance_pods c false (node_targets tbl) abn st0 (init_umap false tbl) (fst ds)))) as H1.
  { destruct (is_nil (node_targets tbl)); [exact Hn|apply balance_pods_dm_inv; exact Hn]. }
  destruct (if is_nil (node_targets tbl) then _ else _) as [[evs1 st1] dn]. cbn [snd] in H1.
  set (pst0 := (init_umap true tbl, prod_avail (dims c) tbl (snd st1))).
  assert (dmap_inv true h (snd (if is_nil (prod_targets tbl) then ([], pst0, snd ds)
            else balance_pods c true (prod_targets tbl) pabn pst0 (init_umap true tbl) (snd ds)))) as H2.
  { destruct (is_nil (prod_targets tbl)); [exact Hp|apply balance_pods_dm_inv; exact Hp]. }
  destruct (if is_nil (prod_targets tbl) then _ else _) as [[evs2 st2] dp]. cbn [snd] in *.
  split; assumption.
Qed.

(* ---------------------------------------------------------------- filterRealAbnormalNodes *)
Lemma filter_abnormal_inv prod h (t : stepT) src :
  NoDup (map rid src) -> (forall r, In r src -> was_src prod (rid r) (snd t) = true) ->
  (forall r, In r src -> kof (rid r) = cK c) ->
  forall m,
    (forall x d, dget x m = Some d ->
       (In x (map rid src) -> det_inv prod h x d) /\
       (~ In x (map rid src) -> det_inv prod (t :: h) x d)) ->
    dmap_inv prod (t :: h) (snd (filter_abnormal c src m)) /\
    forall r, In r (fst (filter_abnormal c src m)) -> cK c <= mu prod (rid r) h.
Proof.
  induction src as [|a s IH]; intros Hnd Hsrc Hk m Hm; cbn [filter_abnormal].
  - split; [|intros r []]. intros x d Hd. apply (Hm x d Hd). intros [].
  - cbn [map] in Hnd. inversion Hnd as [|? ? Hni Hnd']; subst.
    set (d0 := match dget (rid a) m with Some d => d | None => mkDet (cK c) (cKn c) false 0 0 end).
    assert (det_inv prod h (rid a) d0) as Hd0.
    { unfold d0. destruct (dget (rid a) m) as [d|] eqn:E.
      - apply (Hm _ _ E). left; reflexivity.
      - unfold det_inv. cbn [dK dst dA]. pose proof (mu_nonneg prod (rid a) h).
        split; [symmetry; apply Hk; left; reflexivity|]. split; intros; [lia|discriminate]. }
    destruct (mark_abn_inv prod h t (rid a) d0 Hd0 (Hsrc a (or_introl eq_refl))) as [Hd1 Hg].
    set (d1 := mark_abn d0) in *.
    assert (forall x d, dget x (dset (rid a) d1 m) = Some d ->
              (In x (map rid s) -> det_inv prod h x d) /\
              (~ In x (map rid s) -> det_inv prod (t :: h) x d)) as Hm1.
    { intros x d. rewrite dget_dset. destruct (rid a =? x) eqn:E.
      - apply Z.eqb_eq in E. subst x. intros H. inversion H; subst d.
        split; [intros Hin; contradiction|intros _; exact Hd1].
      - apply Z.eqb_neq in E. intros H. destruct (Hm x d H) as [H1 H2]. split.
        + intros Hin. apply H1. right. exact Hin.
        + intros Hn. apply H2. cbn [map In]. intros [Heq|Hin]; [apply E; exact Heq|apply Hn; exact Hin]. }
    assert (forall r, In r s -> was_src prod (rid r) (snd t) = true) as Hsrc'
      by (intros r Hr; apply Hsrc; right; exact Hr).
    assert (forall r, In r s -> kof (rid r) = cK c) as Hk'
      by (intros r Hr; apply Hk; right; exact Hr).
    destruct (IH Hnd' Hsrc' Hk' (dset (rid a) d1 m) Hm1) as [HI1 HI2].
    destruct (filter_abnormal c s (dset (rid a) d1 m)) as [abn m']. cbn [fst snd] in *.
    split; [exact HI1|]. intros r. destruct (dst d1) eqn:E; cbn [In].
    + intros [<-|Hr]; [rewrite <- (Hk a (or_introl eq_refl)); apply Hg; reflexivity|apply HI2; exact Hr].
    + apply HI2.
Qed.

Lemma real_abnormal_inv prod h (t : stepT) src m :
  NoDup (map rid src) -> (forall r, In r src -> was_src prod (rid r) (snd t) = true) ->
  (forall r, In r src -> kof (rid r) = cK c) ->
  (forall x d, dget x m = Some d ->
     (In x (map rid src) -> det_inv prod h x d) /\
     (~ In x (map rid src) -> det_inv prod (t :: h) x d)) ->
  dmap_inv prod (t :: h) (snd (real_abnormal c src m)) /\
  (gating c = true -> forall r, In r (fst (real_abnormal c src m)) -> cK c <= mu prod (rid r) h).
Proof.
  intros Hnd Hsrc Hk Hm. unfold real_abnormal. destruct (gating c) eqn:G.
  - destruct (filter_abnormal_inv prod h t src Hnd Hsrc Hk m Hm) as [H1 H2].
    split; [exact H1|intros _; exact H2].
  - cbn [fst snd]. split; [|discriminate]. intros x d Hd. destruct (Hm x d Hd) as [A B].
    destruct (in_dec Z.eq_dec x (map rid src)) as [Hin|Hn]; [|apply B; exact Hn].
    apply in_map_iff in Hin. destruct Hin as [r [Hr Hin]]. subst x.
    destruct (A (in_map rid src r Hin)) as [D1 [D2 D3]].
    unfold det_inv. rewrite (mu_src _ _ _ _ (Hsrc r Hin)).
    split; [exact D1|]. split; intros E; [specialize (D2 E)|specialize (D3 E)]; lia.
Qed.

(* ---------------------------------------------------------------- one round *)
Lemma src_filter_props tbl prod :
  tbl_wf c tbl ->
  NoDup (map rid (filter (has_cls (src_cls prod)) tbl)) /\
  forall r, In r (filter (has_cls (src_cls prod)) tbl) -> was_src prod (rid r) tbl = true.
Proof.
  intros [Hnd _]. split; [apply NoDup_map_filter; exact Hnd|].
  intros r Hr. apply filter_In in Hr. destruct Hr as [Hr Hc]. unfold was_src.
  rewrite (find_row_in tbl r Hnd Hr). exact Hc.
Qed.

Definition gate_mu (h : list stepT) (tbl : list row) (evs : list ev) : Prop :=
  gating c = true -> forall e, In e evs -> cK c <= mu (ev_prod tbl e) (fst e) h.
Lemma gate_mu_nil h tbl : gate_mu h tbl [].
Proof. intros _ e []. Qed.

(* what must hold of the detector caches when a round over [tbl] starts: the detectors of this
   round's sources are up to date with the earlier rounds [h], all others already with [tbl :: h] *)
Definition pre_inv (ids : list Z) (tbl : list row) (h : list stepT) (ds : dstate) : Prop :=
  forall (prod : bool) x d, dget x (if prod then snd ds else fst ds) = Some d ->
    (In x (map rid (filter (has_cls (src_cls prod)) tbl)) -> det_inv prod h x d) /\
    (~ In x (map rid (filter (has_cls (src_cls prod)) tbl)) -> det_inv prod ((ids, tbl) :: h) x d).

Lemma process_pool_gate ids tbl psize ds h :
  tbl_wf c tbl -> (forall r, In r tbl -> kof (rid r) = cK c) -> pre_inv ids tbl h ds ->
  dstate_inv ((ids, tbl) :: h) (snd (process_pool c tbl psize ds)) /\
  gate_mu h tbl (fst (process_pool c tbl psize ds)).
Proof.
  intros Hwf Hkof Hpre. unfold process_pool.
  pose proof (Hpre false) as Hn. pose proof (Hpre true) as Hp. cbn [src_cls] in Hn, Hp.
  destruct (is_nil (filter (has_cls cHigh) tbl) && is_nil (filter (has_cls cProdHigh) tbl)) eqn:E1.
  { apply andb_true_iff in E1. destruct E1 as [Ea Eb]. apply is_nil_true in Ea. apply is_nil_true in Eb.
    rewrite Ea in Hn. rewrite Eb in Hp. cbn [fst snd].
    split; [|apply gate_mu_nil]. split; intros x d Hd; [apply (Hn x d Hd)|apply (Hp x d Hd)]; intros []. }
  destruct (src_filter_props tbl false Hwf) as [Hnd1 Hs1].
  destruct (src_filter_props tbl true Hwf) as [Hnd2 Hs2]. cbn [src_cls] in *.
  assert (forall k r, In r (filter (has_cls k) tbl) -> kof (rid r) = cK c) as Hkf
    by (intros k r Hr; apply Hkof; apply filter_In in Hr; apply Hr).
  destruct (real_abnormal_inv false h (ids, tbl) _ (fst ds) Hnd1 Hs1 (Hkf cHigh) Hn) as [Hn1 Hg1].
  destruct (real_abnormal_inv true h (ids, tbl) _ (snd ds) Hnd2 Hs2 (Hkf cProdHigh) Hp) as [Hp1 Hg2].
  pose proof (real_abnormal_in c (filter (has_cls cHigh) tbl) (fst ds)) as Ha.
  pose proof (real_abnormal_in c (filter (has_cls cProdHigh) tbl) (snd ds)) as Hpa.
  destruct (real_abnormal c (filter (has_cls cHigh) tbl) (fst ds)) as [abn dn].
  destruct (real_abnormal c (filter (has_cls cProdHigh) tbl) (snd ds)) as [pabn dp].
  cbn [fst snd] in *.
  destruct (is_nil abn && is_nil pabn).
  { cbn [fst snd]. split; [split; assumption|apply gate_mu_nil]. }
  destruct (is_nil (filter (has_cls cLow) tbl) && is_nil (filter (has_cls cProdLow) tbl)
            && is_nil (filter (has_cls cBothLow) tbl)).
  { cbn [fst snd]. split; [split; assumption|apply gate_mu_nil]. }
  set (dn' := reset_nodes _ (reset_nodes _ dn)). set (dp' := reset_nodes _ dp).
  assert (dmap_inv false ((ids, tbl) :: h) dn') as Hn2 by (unfold dn'; do 2 apply reset_nodes_inv; exact Hn1).
  assert (dmap_inv true ((ids, tbl) :: h) dp') as Hp2 by (unfold dp'; apply reset_nodes_inv; exact Hp1).
  destruct (_ <=? cN c).
  { cbn [fst snd]. split; [split; assumption|apply gate_mu_nil]. }
  destruct (_ =? psize).
  { cbn [fst snd]. split; [split; assumption|apply gate_mu_nil]. }
  set (abn' := sort_by (score_geb false) abn). set (pabn' := sort_by (score_geb true) pabn).
  assert (forall r, In r abn' -> In r tbl /\ rcls r = cHigh) as Habn.
  { intros r Hr. apply sort_by_in in Hr. apply Ha in Hr. apply filter_In in Hr.
    destruct Hr as [Hr Hc]. split; [exact Hr|apply has_cls_true; exact Hc]. }
  assert (forall r, In r pabn' -> In r tbl /\ rcls r = cProdHigh) as Hpabn.
  { intros r Hr. apply sort_by_in in Hr. apply Hpa in Hr. apply filter_In in Hr.
    destruct Hr as [Hr Hc]. split; [exact Hr|apply has_cls_true; exact Hc]. }
  pose proof (efs_dm_inv ((ids, tbl) :: h) tbl abn' pabn' (dn', dp') (conj Hn2 Hp2)) as Hinv.
  assert (gate_mu h tbl (fst (evict_from_sources c tbl abn' pabn' (dn', dp')))) as Hgate.
  { destruct (cdry c) eqn:Hd.
    - rewrite (efs_dry c tbl abn' pabn' (dn', dp') Hd). apply gate_mu_nil.
    - destruct (efs_round c tbl Hwf abn' pabn' (dn', dp') Hd Habn Hpabn) as [H1 _].
      intros G e He. unfold ev_prod. destruct (H1 e He) as [[_ [Hf [r [Hr Hx]]]]|[Ht [r [Hr Hx]]]].
      + rewrite Hf, Hx. apply Hg1; [exact G|]. apply sort_by_in in Hr. exact Hr.
      + rewrite Ht, Hx. apply Hg2; [exact G|]. apply sort_by_in in Hr. exact Hr. }
  destruct (evict_from_sources c tbl abn' pabn' (dn', dp')) as [evs [dn2 dp2]].
  cbn [fst snd] in *. destruct Hinv as [Hi1 Hi2].
  split; [|exact Hgate]. split; apply mark_nodes_normal_inv; assumption.
Qed.

End Measure.
