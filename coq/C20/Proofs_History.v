(* C20 — the handler's cache over any history of ConfigMap events refines the from-scratch
   specification ([Spec.spec_run]): what is cached for a section is exactly what the latest
   applied, parseable text of that section says (defaults if that section was absent). *)
From Coq Require Import List ZArith Bool Lia.
From Verif Require Import C20.Model C20.Spec C20.Proofs_Overlay.
Import ListNotations.
Open Scope Z_scope.

Definition spec_section (m : mode) (sd : secdef) (s : section_in) : merged :=
  sync_sec m sd (default_of sd) s.

Definition secs_of (m : mode) (sds : list secdef) (syncs : list (option cmap)) : list merged :=
  map (fun isd => spec_section m (snd isd) (last_good (fst isd) syncs))
      (combine (seq 0 (length sds)) sds).

Fixpoint avail_after (a : bool) (ops : list op) : bool :=
  match ops with
  | [] => a
  | ONop :: t => avail_after a t
  | _ :: t => avail_after true t
  end.

(* ---------- list plumbing ---------- *)
Lemma hd_skipn {A} (d : A) : forall k c, hd d (skipn k c) = nth k c d.
Proof. induction k; destruct c; simpl; auto. Qed.

Lemma tl_skipn {A} : forall k (c : list A), tl (skipn k c) = skipn (S k) c.
Proof.
  induction k; intros c; [destruct c; reflexivity|].
  destruct c as [|a c]; [reflexivity|]. exact (IHk c).
Qed.

Lemma map_snd_combine_seq {A B} (f : A -> B) : forall l k,
  map (fun isd : nat * A => f (snd isd)) (combine (seq k (length l)) l) = map f l.
Proof. induction l; intros k; simpl; [reflexivity|]. f_equal. apply IHl. Qed.

Lemma eff_syncs_app : forall ops a o,
  eff_syncs a (ops ++ [o]) = eff_syncs a ops ++ eff_syncs (avail_after a ops) [o].
Proof.
  induction ops as [|x ops IH]; intros a o; [reflexivity|].
  destruct x as [c| |oc]; simpl.
  - rewrite IH. reflexivity.
  - apply IH.
  - destruct a; simpl; rewrite IH; reflexivity.
Qed.

Lemma avail_after_app : forall ops a o,
  avail_after a (ops ++ [o]) = avail_after (avail_after a ops) [o].
Proof. induction ops as [|x ops IH]; intros a o; [reflexivity|]. destruct x; simpl; apply IH. Qed.

Lemma last_good_snoc i pre oc :
  last_good i (pre ++ [oc]) =
  match sec_in i oc with SMalformed => last_good i pre | s => s end.
Proof. unfold last_good. rewrite fold_left_app. reflexivity. Qed.

Lemma last_good_not_malformed i : forall syncs, last_good i syncs <> SMalformed.
Proof.
  induction syncs as [|oc pre IH] using rev_ind.
  - discriminate.
  - rewrite last_good_snoc. destruct (sec_in i oc); try discriminate. assumption.
Qed.

(* ---------- one sync, section by section ---------- *)
Lemma sync_secs_spec m pre c : forall sds k,
  sync_secs m sds
    (map (fun isd => spec_section m (snd isd) (last_good (fst isd) pre))
         (combine (seq k (length sds)) sds))
    (skipn k c)
  = map (fun isd => spec_section m (snd isd) (last_good (fst isd) (pre ++ [Some c])))
        (combine (seq k (length sds)) sds).
Proof.
  induction sds as [|sd sds IH]; intros k; [reflexivity|].
  simpl. rewrite hd_skipn, tl_skipn, IH. f_equal.
  rewrite last_good_snoc. simpl.
  destruct (nth k c SAbsent); reflexivity.
Qed.

Lemma secs_of_none m sds pre :
  map default_of sds = secs_of m sds (pre ++ [None]).
Proof.
  unfold secs_of. rewrite <- (map_snd_combine_seq default_of sds 0).
  apply map_ext. intros [i sd]. rewrite last_good_snoc. reflexivity.
Qed.

(* ---------- the invariant over all histories ---------- *)
Theorem run_state_spec m sds : forall ops,
  st_secs (run_state m sds ops) = secs_of m sds (eff_syncs false ops)
  /\ st_avail (run_state m sds ops) = avail_after false ops.
Proof.
  induction ops as [|o ops [IHs IHa]] using rev_ind.
  - split; [|reflexivity]. unfold run_state, secs_of. simpl.
    symmetry. apply (map_snd_combine_seq default_of sds 0).
  - unfold run_state in *. rewrite fold_left_app. simpl.
    rewrite eff_syncs_app, avail_after_app.
    set (st := fold_left (step m sds) ops (init sds)) in *.
    destruct o as [c| |oc]; simpl.
    + split; [|reflexivity]. rewrite IHs. unfold secs_of.
      exact (sync_secs_spec m (eff_syncs false ops) c sds 0).
    + rewrite app_nil_r. split; assumption.
    + rewrite IHa. destruct (avail_after false ops) eqn:Ea; simpl.
      * rewrite app_nil_r. split; assumption.
      * destruct oc as [c|]; simpl; split; try reflexivity.
        -- rewrite IHs. unfold secs_of. exact (sync_secs_spec m (eff_syncs false ops) c sds 0).
        -- apply secs_of_none.
Qed.

(* ---------- what a node gets from a cached section ---------- *)
Lemma first_match_map ls (g : entry -> entry) :
  (forall e, e_sel (g e) = e_sel e) ->
  forall es, first_match ls (map g es) = option_map g (first_match ls es).
Proof.
  intros Hg. induction es as [|e es IH]; [reflexivity|].
  simpl. rewrite Hg. destruct (selects ls (e_sel e)); [reflexivity|assumption].
Qed.

Lemma prep_entry_absent m : prep_entry m (Obj None) = Obj None.
Proof. unfold prep_entry. destruct (m_reqnorm m); reflexivity. Qed.

Lemma effective_spec_section m ls sd s :
  effective ls (spec_section m sd s) = spec_effective m ls sd s.
Proof.
  destruct s as [| |c es]; try reflexivity.
  unfold spec_section, sync_sec, calc, spec_effective, effective.
  destruct (sd_merge sd); simpl; [|reflexivity].
  rewrite first_match_map by reflexivity.
  unfold layered, node_layer.
  destruct (first_match ls es) as [e|]; simpl; [reflexivity|].
  rewrite prep_entry_absent, overlay_absent. reflexivity.
Qed.

Lemma observe_run_state m sds nodes ops :
  observe nodes (run_state m sds ops) = spec_observe m sds nodes ops.
Proof.
  unfold observe, spec_observe. destruct (run_state_spec m sds ops) as [Hs _]. rewrite Hs.
  apply flat_map_ext. intros ls. unfold secs_of. rewrite map_map.
  apply map_ext. intros [i sd]. apply effective_spec_section.
Qed.

(* ---------- the observation after every operation ---------- *)
Lemma run_from_prefix m sds nodes : forall ops st,
  run_from m sds nodes st ops =
  map (fun k => observe nodes (fold_left (step m sds) (firstn k ops) st)) (seq 1 (length ops)).
Proof.
  induction ops as [|o ops IH]; intros st; [reflexivity|].
  simpl. f_equal. rewrite IH. rewrite <- (seq_shift (length ops) 1), map_map.
  apply map_ext. intros k. reflexivity.
Qed.

Theorem run_refines_spec m i : run m i = spec_run m i.
Proof.
  unfold run, spec_run. rewrite run_from_prefix. apply map_ext. intros k.
  apply (observe_run_state m (in_secs i) (in_nodes i) (firstn k (in_ops i))).
Qed.

(* ---------- the two history clauses of the property, on the step function ---------- *)
Lemma sync_secs_nth m : forall sds olds c i d,
  length olds = length sds -> (i < length sds)%nat ->
  nth i (sync_secs m sds olds c) d
  = sync_sec m (nth i sds (mkSec true (Obj None))) (nth i olds d) (nth i c SAbsent).
Proof.
  induction sds as [|sd sds IH]; intros olds c i d Hl Hi; simpl in Hi; [lia|].
  destruct olds as [|old olds]; simpl in Hl; [discriminate|].
  destruct i as [|i]; simpl.
  - destruct c; reflexivity.
  - rewrite IH by lia. destruct c; simpl; [destruct i; reflexivity|reflexivity].
Qed.

(* a section that cannot be parsed leaves the previously effective settings in force *)
Theorem malformed_keeps_old m sds st c i d :
  length (st_secs st) = length sds -> (i < length sds)%nat ->
  nth i c SAbsent = SMalformed ->
  nth i (st_secs (step m sds st (OSync c))) d = nth i (st_secs st) d.
Proof.
  intros Hl Hi Hm. simpl. rewrite sync_secs_nth by assumption. rewrite Hm. reflexivity.
Qed.

(* a section that is absent falls back to the defaults *)
Theorem absent_gives_default m sds st c i d :
  length (st_secs st) = length sds -> (i < length sds)%nat ->
  nth i c SAbsent = SAbsent ->
  nth i (st_secs (step m sds st (OSync c))) d = default_of (nth i sds (mkSec true (Obj None))).
Proof.
  intros Hl Hi Hm. simpl. rewrite sync_secs_nth by assumption. rewrite Hm. reflexivity.
Qed.

Lemma run_state_length m sds ops : length (st_secs (run_state m sds ops)) = length sds.
Proof.
  destruct (run_state_spec m sds ops) as [Hs _]. rewrite Hs. unfold secs_of.
  rewrite map_length, combine_length, seq_length. lia.
Qed.

(* the same two clauses, over whole histories, for what every node observes *)
Theorem history_malformed_keeps_old m sds ls ops c i sd :
  nth_error sds i = Some sd -> nth i c SAbsent = SMalformed ->
  effective ls (nth i (st_secs (run_state m sds (ops ++ [OSync c]))) (default_of sd))
  = effective ls (nth i (st_secs (run_state m sds ops)) (default_of sd)).
Proof.
  intros Hsd Hm.
  assert (i < length sds)%nat as Hi by (apply nth_error_Some; congruence).
  replace (run_state m sds (ops ++ [OSync c]))
    with (step m sds (run_state m sds ops) (OSync c))
    by (unfold run_state; rewrite fold_left_app; reflexivity).
  rewrite malformed_keeps_old; auto using run_state_length.
Qed.

Theorem history_absent_gives_default m sds ls ops c i sd :
  nth_error sds i = Some sd -> nth i c SAbsent = SAbsent ->
  effective ls (nth i (st_secs (run_state m sds (ops ++ [OSync c]))) (default_of sd))
  = sd_default sd.
Proof.
  intros Hsd Hm.
  assert (i < length sds)%nat as Hi by (apply nth_error_Some; congruence).
  replace (run_state m sds (ops ++ [OSync c]))
    with (step m sds (run_state m sds ops) (OSync c))
    by (unfold run_state; rewrite fold_left_app; reflexivity).
  rewrite absent_gives_default; auto using run_state_length.
  rewrite (nth_error_nth _ _ _ Hsd). reflexivity.
Qed.
