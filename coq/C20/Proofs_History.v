(* C20 — the handler's cache over any history of ConfigMap events refines the from-scratch
   specification ([Spec.spec_run]): what is cached for a section is exactly what the latest
   applied, parseable text of that section says (defaults if that section was absent). *)
From Coq Require Import List ZArith Bool Lia.
From Verif Require Import C20.Model C20.Spec C20.Proofs_Overlay.
Import ListNotations.
Open Scope Z_scope.

Definition spec_section (m : mode) (sd : secdef) (s : section_in) : merged :=
  sync_sec m sd (default_of sd) s.

Definition secs_of (m : mode) (sds : list secdef) (syncs : list (option cmap)) : list merged :=
  map (fun isd => spec_section m (snd isd) (last_good (fst isd) syncs))
      (combine (seq 0 (length sds)) sds).

Definition avail_after (a : bool) (ops : list op) : bool := a || negb (is_nil ops).

Definition inf_fold (inf : option cmap) (ops : list op) : option cmap := fold_left inf_after ops inf.

(* ---------- list plumbing ---------- *)
Lemma hd_skipn {A} (d : A) : forall k c, hd d (skipn k c) = nth k c d.
Proof. induction k; destruct c; simpl; auto. Qed.

Lemma tl_skipn {A} : forall k (c : list A), tl (skipn k c) = skipn (S k) c.
Proof.
  induction k; intros c; [destruct c; reflexivity|].
  destruct c as [|a c]; [reflexivity|]. exact (IHk c).
Qed.

Lemma map_snd_combine_seq {A B} (f : A -> B) : forall l k,
  map (fun isd : nat * A => f (snd isd)) (combine (seq k (length l)) l) = map f l.
Proof. induction l; intros k; simpl; [reflexivity|]. f_equal. apply IHl. Qed.

Lemma eff_syncs_app : forall ops a inf o,
  eff_syncs a inf (ops ++ [o])
  = eff_syncs a inf ops ++ eff_syncs (avail_after a ops) (inf_fold inf ops) [o].
Proof.
  induction ops as [|x ops IH]; intros a inf o.
  - unfold avail_after. simpl. rewrite orb_false_r. reflexivity.
  - change ((x :: ops) ++ [o]) with (x :: (ops ++ [o])).
    cbn [eff_syncs]. rewrite IH, <- app_assoc.
    unfold avail_after. simpl. rewrite orb_true_r. reflexivity.
Qed.

Lemma last_good_snoc i pre oc :
  last_good i (pre ++ [oc]) =
  match sec_in i oc with SMalformed => last_good i pre | s => s end.
Proof. unfold last_good. rewrite fold_left_app. reflexivity. Qed.

Lemma last_good_not_malformed i : forall syncs, last_good i syncs <> SMalformed.
Proof.
  induction syncs as [|oc pre IH] using rev_ind.
  - discriminate.
  - rewrite last_good_snoc. destruct (sec_in i oc); try discriminate. assumption.
Qed.

(* ---------- one sync, section by section ---------- *)
Lemma sync_secs_spec m pre c : forall sds k,
  sync_secs m sds
    (map (fun isd => spec_section m (snd isd) (last_good (fst isd) pre))
         (combine (seq k (length sds)) sds))
    (skipn k c)
  = map (fun isd => spec_section m (snd isd) (last_good (fst isd) (pre ++ [Some c])))
        (combine (seq k (length sds)) sds).
Proof.
  induction sds as [|sd sds IH]; intros k; [reflexivity|].
  simpl. rewrite hd_skipn, tl_skipn, IH. f_equal.
  rewrite last_good_snoc. simpl.
  destruct (nth k c SAbsent); reflexivity.
Qed.

Lemma secs_of_none m sds pre :
  map default_of sds = secs_of m sds (pre ++ [None]).
Proof.
  unfold secs_of. rewrite <- (map_snd_combine_seq default_of sds 0).
  apply map_ext. intros [i sd]. rewrite last_good_snoc. reflexivity.
Qed.

(* ---------- the invariant over all histories ---------- *)
Lemma sync_from_spec m sds pre oc :
  sync_from m sds (secs_of m sds pre) oc = secs_of m sds (pre ++ [oc]).
Proof.
  destruct oc as [c|]; simpl.
  - unfold secs_of. exact (sync_secs_spec m pre c sds 0).
  - apply secs_of_none.
Qed.

Theorem run_state_spec m sds : forall ops,
  st_secs (run_state m sds ops) = secs_of m sds (eff_syncs false None ops)
  /\ st_avail (run_state m sds ops) = avail_after false ops
  /\ st_inf (run_state m sds ops) = inf_fold None ops.
Proof.
  induction ops as [|o ops (IHs & IHa & IHi)] using rev_ind.
  - split; [|split; reflexivity]. unfold run_state, secs_of. simpl.
    symmetry. apply (map_snd_combine_seq default_of sds 0).
  - unfold run_state in *. rewrite fold_left_app.
    rewrite eff_syncs_app. unfold inf_fold in *. rewrite fold_left_app.
    set (st := fold_left (step m sds) ops (init sds)) in *.
    assert (avail_after false (ops ++ [o]) = true) as Ht
      by (unfold avail_after; destruct ops; reflexivity).
    rewrite Ht. clear Ht.
    assert (forall st', st_secs st' = st_secs st -> st_avail st' = st_avail st ->
            st_secs (ensure_avail m sds st')
            = secs_of m sds (eff_syncs false None ops
                             ++ (if avail_after false ops then [] else [st_inf st']))
            /\ st_avail (ensure_avail m sds st') = true
            /\ st_inf (ensure_avail m sds st') = st_inf st') as Hens.
    { intros st' Hs Ha. unfold ensure_avail. rewrite Ha, IHa.
      destruct (avail_after false ops) eqn:Ea.
      - rewrite app_nil_r. repeat split; congruence.
      - cbn [st_secs st_avail st_inf]. repeat split. rewrite Hs, IHs.
        apply sync_from_spec. }
    cbn [fold_left]. unfold step.
    destruct o as [c|c| | |oc| |i nd|i|i|i]; cbn [handle eff_syncs inf_after app]; rewrite ?app_nil_r.
    2-5,7-10: try rewrite <- IHi;
      match goal with |- st_secs (ensure_avail _ _ ?s) = _ /\ _ => apply (Hens s); reflexivity end.
    + unfold ensure_avail. cbn [st_avail st_secs st_inf]. repeat split.
      rewrite IHs. unfold secs_of. exact (sync_secs_spec m (eff_syncs false None ops) c sds 0).
    + unfold ensure_avail. cbn [st_avail st_secs st_inf]. repeat split; [|exact IHi].
      rewrite (secs_of_none m sds (eff_syncs false None ops)), sync_from_spec, <- app_assoc, IHi.
      reflexivity.
Qed.

(* ---------- what a node gets from a cached section ---------- *)
Lemma first_match_map ls (g : entry -> entry) :
  (forall e, e_sel (g e) = e_sel e) ->
  forall es, first_match ls (map g es) = option_map g (first_match ls es).
Proof.
  intros Hg. induction es as [|e es IH]; [reflexivity|].
  simpl. rewrite Hg. destruct (selects ls (e_sel e)); [reflexivity|assumption].
Qed.

Lemma prep_entry_absent m : prep_entry m (Obj None) = Obj None.
Proof. unfold prep_entry. destruct (m_reqnorm m); reflexivity. Qed.

Lemma effective_spec_section m ls sd s :
  effective ls (spec_section m sd s) = spec_effective m ls sd s.
Proof.
  destruct s as [| |c es]; try reflexivity.
  unfold spec_section, sync_sec, calc, spec_effective, effective.
  destruct (sd_merge sd); simpl; [|reflexivity].
  rewrite first_match_map by reflexivity.
  unfold layered, node_layer.
  destruct (first_match ls es) as [e|]; simpl; [reflexivity|].
  rewrite prep_entry_absent, overlay_absent. reflexivity.
Qed.

(* ---------- delivery is the identity on the computed spec ---------- *)
Lemma list_eqb_sound {A} (f : A -> A -> bool) : forall xs ys,
  Forall (fun x => forall y, f x y = true -> x = y) xs -> list_eqb f xs ys = true -> xs = ys.
Proof.
  induction xs as [|x xs IH]; destruct ys as [|y ys]; simpl; intros HF H; try discriminate; auto.
  inversion HF as [|? ? Hx HF']; subst.
  apply andb_true_iff in H. destruct H as [H1 H2]. f_equal; auto.
Qed.

Lemma cfg_eqb_sound : forall a b, cfg_eqb a b = true -> a = b.
Proof.
  induction a as [r o| |fs IH|xs IH|kvs] using cfg_ind2; intros b H.
  - destruct b as [r' o'| | |]; simpl in H; try discriminate.
    apply andb_true_iff in H. destruct H as [H1 H2]. apply eqb_prop in H1. subst r'.
    destruct o as [x|], o' as [y|]; simpl in H2; try discriminate; [|reflexivity].
    apply Z.eqb_eq in H2. congruence.
  - destruct b as [|[y|]| |]; simpl in H; try discriminate. reflexivity.
  - destruct b as [|[y|]| |]; simpl in H; try discriminate.
    f_equal. f_equal. exact (list_eqb_sound _ _ _ IH H).
  - destruct b as [| |y|]; simpl in H; try discriminate.
    f_equal. exact (list_eqb_sound _ _ _ IH H).
  - destruct b as [| | |y]; simpl in H; try discriminate. f_equal.
    apply (list_eqb_sound (fun p q : Z * Z => (fst p =? fst q) && (snd p =? snd q))); [|exact H].
    apply Forall_forall. intros [k v] _ [k' v'] E. simpl in E.
    apply andb_true_iff in E. destruct E as [E1 E2].
    apply Z.eqb_eq in E1. apply Z.eqb_eq in E2. congruence.
Qed.

(* the reconciler delivers exactly the computed spec: it writes it whenever it differs from the stored one *)
Theorem deliver_node_id stored c : deliver_node stored c = c.
Proof.
  destruct stored as [s|]; [|reflexivity]. simpl.
  destruct (list_eqb cfg_eqb c s) eqn:E; [|reflexivity].
  symmetry. apply (list_eqb_sound cfg_eqb); [|exact E].
  apply Forall_forall. intros x _. apply cfg_eqb_sound.
Qed.

Lemma reconcile_all_id sds mgs : forall nodes stored,
  reconcile_all sds mgs nodes stored = map (option_map (fun n => render n sds mgs)) nodes.
Proof.
  induction nodes as [|nd t IH]; intros stored; [reflexivity|].
  simpl. rewrite IH. f_equal. destruct nd as [n|]; [|reflexivity].
  simpl. rewrite deliver_node_id. reflexivity.
Qed.

(* ---------- what every node gets rendered from the cache ---------- *)
Lemma render_secs_of m nd syncs : forall sds k,
  render nd sds (map (fun isd => spec_section m (snd isd) (last_good (fst isd) syncs))
                     (combine (seq k (length sds)) sds))
  = map (fun isd => spec_effective_n m nd (snd isd) (last_good (fst isd) syncs))
        (combine (seq k (length sds)) sds).
Proof.
  induction sds as [|sd sds IH]; intros k; [reflexivity|].
  simpl. rewrite IH. f_equal. unfold render_sec, spec_effective_n.
  rewrite effective_spec_section. reflexivity.
Qed.

(* ---------- the world after a history ---------- *)
Definition wrun (m : mode) (sds : list secdef) (w : world) (ops : list op) : world :=
  fold_left (wstep m sds) ops w.

Lemma wrun_state m sds : forall ops w,
  w_h (wrun m sds w ops) = fold_left (step m sds) ops (w_h w)
  /\ w_nodes (wrun m sds w ops) = nodes_fold (w_nodes w) ops.
Proof.
  unfold wrun, nodes_fold.
  induction ops as [|o ops IH]; intros w; [split; reflexivity|].
  simpl. destruct (IH (wstep m sds w o)) as [H1 H2]. split; assumption.
Qed.

Lemma wrun_slo m sds ops o w :
  w_slo (wrun m sds w (ops ++ [o]))
  = map (option_map (fun n => render n sds (st_secs (w_h (wrun m sds w (ops ++ [o]))))))
        (w_nodes (wrun m sds w (ops ++ [o]))).
Proof.
  unfold wrun. rewrite fold_left_app. simpl. apply reconcile_all_id.
Qed.

Lemma observe_wrun m sds nodes ops o :
  w_slo (wrun m sds (winit sds nodes) (ops ++ [o])) = spec_observe m sds nodes (ops ++ [o]).
Proof.
  rewrite wrun_slo.
  destruct (wrun_state m sds (ops ++ [o]) (winit sds nodes)) as [Hh Hn]. rewrite Hh, Hn.
  simpl. fold (run_state m sds (ops ++ [o])).
  destruct (run_state_spec m sds (ops ++ [o])) as [Hs _]. rewrite Hs.
  unfold spec_observe. apply map_ext. intros [n|]; [|reflexivity].
  simpl. f_equal. unfold secs_of. apply render_secs_of.
Qed.

(* ---------- the observation after every operation ---------- *)
Lemma run_from_prefix m sds : forall ops w,
  run_from m sds w ops =
  map (fun k => w_slo (wrun m sds w (firstn k ops))) (seq 1 (length ops)).
Proof.
  induction ops as [|o ops IH]; intros w; [reflexivity|].
  simpl. f_equal. rewrite IH. rewrite <- (seq_shift (length ops) 1), map_map.
  apply map_ext. intros k. reflexivity.
Qed.

Lemma firstn_snoc {A} : forall k (l : list A), (1 <= k <= length l)%nat ->
  exists pre o, firstn k l = pre ++ [o].
Proof.
  intros k l Hk. destruct (exists_last (l := firstn k l)) as (pre & o & E).
  - intros E. apply (f_equal (@length A)) in E. rewrite firstn_length in E. simpl in E. lia.
  - exists pre, o. exact E.
Qed.

Theorem run_from_spec m sds nodes ops :
  run_from m sds (winit sds nodes) ops
  = map (fun k => spec_observe m sds nodes (firstn k ops)) (seq 1 (length ops)).
Proof.
  rewrite run_from_prefix. apply map_ext_in. intros k Hk.
  apply in_seq in Hk.
  destruct (firstn_snoc k ops) as (pre & o & E); [lia|].
  rewrite E. apply observe_wrun.
Qed.

(* ---------- the two history clauses of the property, on the step function ---------- *)
Lemma sync_secs_nth m : forall sds olds c i d,
  length olds = length sds -> (i < length sds)%nat ->
  nth i (sync_secs m sds olds c) d
  = sync_sec m (nth i sds (mkSec true None (Obj None))) (nth i olds d) (nth i c SAbsent).
Proof.
  induction sds as [|sd sds IH]; intros olds c i d Hl Hi; simpl in Hi; [lia|].
  destruct olds as [|old olds]; simpl in Hl; [discriminate|].
  destruct i as [|i]; simpl.
  - destruct c; reflexivity.
  - rewrite IH by lia. destruct c; simpl; [destruct i; reflexivity|reflexivity].
Qed.

(* a section that cannot be parsed leaves the previously effective settings in force *)
Theorem malformed_keeps_old m sds st c i d :
  length (st_secs st) = length sds -> (i < length sds)%nat ->
  nth i c SAbsent = SMalformed ->
  nth i (st_secs (step m sds st (OSync c))) d = nth i (st_secs st) d.
Proof.
  intros Hl Hi Hm. simpl. rewrite sync_secs_nth by assumption. rewrite Hm. reflexivity.
Qed.

(* a section that is absent falls back to the defaults *)
Theorem absent_gives_default m sds st c i d :
  length (st_secs st) = length sds -> (i < length sds)%nat ->
  nth i c SAbsent = SAbsent ->
  nth i (st_secs (step m sds st (OSync c))) d = default_of (nth i sds (mkSec true None (Obj None))).
Proof.
  intros Hl Hi Hm. simpl. rewrite sync_secs_nth by assumption. rewrite Hm. reflexivity.
Qed.

Lemma run_state_length m sds ops : length (st_secs (run_state m sds ops)) = length sds.
Proof.
  destruct (run_state_spec m sds ops) as [Hs _]. rewrite Hs. unfold secs_of.
  rewrite map_length, combine_length, seq_length. lia.
Qed.

(* the same two clauses, over whole histories, for what every node observes *)
Theorem history_malformed_keeps_old m sds ls ops c i sd :
  nth_error sds i = Some sd -> nth i c SAbsent = SMalformed ->
  effective ls (nth i (st_secs (run_state m sds (ops ++ [OSync c]))) (default_of sd))
  = effective ls (nth i (st_secs (run_state m sds ops)) (default_of sd)).
Proof.
  intros Hsd Hm.
  assert (i < length sds)%nat as Hi by (apply nth_error_Some; congruence).
  replace (run_state m sds (ops ++ [OSync c]))
    with (step m sds (run_state m sds ops) (OSync c))
    by (unfold run_state; rewrite fold_left_app; reflexivity).
  rewrite malformed_keeps_old; auto using run_state_length.
Qed.

Theorem history_absent_gives_default m sds ls ops c i sd :
  nth_error sds i = Some sd -> nth i c SAbsent = SAbsent ->
  effective ls (nth i (st_secs (run_state m sds (ops ++ [OSync c]))) (default_of sd))
  = sd_default sd.
Proof.
  intros Hsd Hm.
  assert (i < length sds)%nat as Hi by (apply nth_error_Some; congruence).
  replace (run_state m sds (ops ++ [OSync c]))
    with (step m sds (run_state m sds ops) (OSync c))
    by (unfold run_state; rewrite fold_left_app; reflexivity).
  rewrite absent_gives_default; auto using run_state_length.
  rewrite (nth_error_nth _ _ _ Hsd). reflexivity.
Qed.
