(* C20 — flat-integer wire format: decoding of inputs and the four entry points of the driver
   (extracted by Extract.v; kept in the library so that theorems can be stated about them).

   input  = nsecs (mflag bwidx default-tree)*   nnodes node*   strict   nops op*
            mflag 0/1 = sd_merge; bwidx = index of the field the node's bandwidth annotation overrides, -1 none
   node   = 0                                        the Node object does not exist
          | 1 nlabels (key value)* bwkind bwval bwstyle   bwkind 0 no annotation, 1 quantity of value bwval,
                                                     2 text that is not a quantity (bwstyle picks the spelling)
   op     = kind cmap   (kind 4: kind variant cmap)
                             kind 0 Create, 1 Update(Data changed)              -> OSync
                             kind 2 Update(Data equal) -> OSame, 3 Delete -> ODelete,
                             kind 4 variant: ConfigMap of another name / namespace, other kind, Generic -> OOther
                             kind 5 IsCfgAvailable, ConfigMap in the informer   -> OAvail (Some _)
          | 6                IsCfgAvailable, ConfigMap not found                -> OAvail None
          | 7                controller restart                                  -> ORestart
          | 8 i node         Node i created / updated / deleted                 -> ONode
          | 9 i              event for Node i, no change                        -> ONodeEv
          | 10 i             NodeSLO i deleted by a third party                  -> OSloDel
          | 11 i style       NodeSLO i overwritten by a third party              -> OSloEdit
            (strict = 0: every op is followed by Reconcile of every probe node;
             strict = 1: only the requests the event handlers enqueue are reconciled)
   cmap   = nsections section*
   section= 0 style                                  absent
          | 1 style                                  malformed text (style picks one; no payload)
          | 2 style frame payload                    type error (payload rendered with a wrongly typed member)
          | 3 style frame payload                    a JSON document rendered from the payload, with the
                                                     characters of [frame] before and after it
   frame  = nlead c* ntrail c*                       0..3 = space \n \t \r; everything else is not white space
   payload= cluster-tree nentries (selector tree)*
   selector = 0 | 1 nreq (key op nvals val* )*
   tree   = the encoding [Model.enc]
   observable = after every op, for every node: -888888 if it has no NodeSLO, else for every section
                [enc] of the DELIVERED value (NodeSLO.Spec) *)
From Coq Require Import List ZArith Bool.
From Verif Require Import Lib.Wire C20.Model C20.Spec.
Import ListNotations.
Open Scope Z_scope.

Definition dec_kv (l : list Z) : (Z * Z) * list Z :=
  match l with
  | k :: v :: t => ((k, v), t)
  | _ => ((0, 0), [])
  end.

Fixpoint dec (fuel : nat) (l : list Z) : cfg * list Z :=
  match fuel with
  | O => (Leaf false None, [])
  | S f =>
    match l with
    | 0 :: t => (Leaf false None, t)
    | 1 :: v :: t => (Leaf false (Some v), t)
    | 6 :: t => (Leaf true None, t)
    | 7 :: v :: t => (Leaf true (Some v), t)
    | 2 :: t => (Obj None, t)
    | 3 :: n :: t => let '(fs, r) := decode_many (dec f) (Z.to_nat n) t in (Obj (Some fs), r)
    | 4 :: n :: t => let '(xs, r) := decode_many (dec f) (Z.to_nat n) t in (Arr xs, r)
    | 5 :: n :: t => let '(kvs, r) := decode_many dec_kv (Z.to_nat n) t in (Map kvs, r)
    | _ => (Leaf false None, [])
    end
  end.

Definition dec_tree (l : list Z) : cfg * list Z := dec (length l) l.

Definition dec_req (l : list Z) : req * list Z :=
  match l with
  | k :: o :: t => let '(vs, r) := take_list t in (mkReq k o vs, r)
  | _ => (mkReq 0 99 [], [])
  end.

Definition dec_sel (l : list Z) : selector * list Z :=
  match l with
  | 0 :: t => (None, t)
  | _ :: t => let '(rs, r) := decode_seq dec_req t in (Some rs, r)
  | [] => (None, [])
  end.

Definition dec_entry (l : list Z) : entry * list Z :=
  let '(s, r) := dec_sel l in
  let '(c, r') := dec_tree r in (mkEntry s c, r').

Definition dec_frame (l : list Z) : (list Z * list Z) * list Z :=
  let '(ld, r) := take_list l in
  let '(tr, r') := take_list r in ((ld, tr), r').

Definition dec_section (l : list Z) : section_in * list Z :=
  match l with
  | st :: _style :: t =>
      if (st =? 2) || (st =? 3) then
        let '(fr, r0) := dec_frame t in
        let '(c, r) := dec_tree r0 in
        let '(es, r') := decode_seq dec_entry r in
        ((if st =? 3 then parse_frame (fst fr) (snd fr) (SValue c es) else SMalformed), r')
      else ((if st =? 0 then SAbsent else SMalformed), t)
  | _ => (SAbsent, [])
  end.

Definition dec_cmap (l : list Z) : cmap * list Z := decode_seq dec_section l.

Definition dec_labels (l : list Z) : labels * list Z := decode_seq dec_kv l.

Definition dec_bw (l : list Z) : bw * list Z :=
  match l with
  | k :: v :: _style :: t => ((if k =? 0 then BwNone else if k =? 1 then BwVal v else BwBad), t)
  | _ => (BwNone, [])
  end.

Definition dec_node (l : list Z) : option node * list Z :=
  match l with
  | e :: t =>
      if e =? 0 then (None, t)
      else let '(ls, r) := dec_labels t in
           let '(b, r') := dec_bw r in (Some (mkNode ls b), r')
  | [] => (None, [])
  end.

Definition dec_op (l : list Z) : op * list Z :=
  match l with
  | k :: t =>
      if k =? 6 then (OAvail None, t)
      else if k =? 7 then (ORestart, t)
      else if k =? 8 then
        match t with
        | i :: t' => let '(nd, r) := dec_node t' in (ONode (Z.to_nat i) nd, r)
        | [] => (OOther, [])
        end
      else if (k =? 9) || (k =? 10) then
        match t with
        | i :: t' => ((if k =? 9 then ONodeEv (Z.to_nat i) else OSloDel (Z.to_nat i)), t')
        | [] => (OOther, [])
        end
      else if k =? 11 then
        match t with
        | i :: _style :: t' => (OSloEdit (Z.to_nat i), t')
        | _ => (OOther, [])
        end
      else let '(c, r) := dec_cmap (if k =? 4 then tl t else t) in
           ((if (k =? 0) || (k =? 1) then OSync c
             else if k =? 2 then OSame c
             else if k =? 3 then ODelete
             else if k =? 5 then OAvail (Some c) else OOther), r)
  | [] => (OOther, [])
  end.

Definition dec_secdef (l : list Z) : secdef * list Z :=
  match l with
  | mflag :: bwi :: t =>
      let '(c, r) := dec_tree t in
      (mkSec (zb mflag) (if bwi <? 0 then None else Some (Z.to_nat bwi)) c, r)
  | _ => (mkSec true None (Obj None), [])
  end.

Definition decode (inp : list Z) : input :=
  let '(sds, r1) := decode_seq dec_secdef inp in
  let '(nodes, r2) := decode_seq dec_node r1 in
  let '(ops, _) := decode_seq dec_op (tl r2) in
  mkInput sds nodes (zb (hdZ r2)) ops.

Definition run_case (inp : list Z) : list Z := enc_obs (run faithful (decode inp)).

Definition prop_case (inp obs : list Z) : Z := prop_code (decode inp) obs.

Definition finding_sig (inp obs : list Z) : Z := finding_code (decode inp) obs.

(* ---------- the schemas of the five sections (apis/slo/v1alpha1/nodeslo_types.go) ---------- *)
Definition leaves (n : nat) : list sch := repeat SLeaf n.
Definition s_threshold : sch := SObj (leaves 19).
Definition s_block : sch := SObj [SLeaf; SLeaf; SObj (leaves 16)].
Definition s_class : sch :=
  SObj [SObj (leaves 4); SObj (leaves 14); SObj [SLeaf; SArr s_block]; SObj (leaves 4); SObj (leaves 5)].
Definition s_qos : sch := SObj [SObj (leaves 2); s_class; s_class; s_class; s_class; s_class].
Definition s_burst : sch := SObj (leaves 5).
Definition s_system : sch := SObj (leaves 5 ++ [SMap; SLeaf; SLeaf]).
Definition s_hostapps : sch := SArr (SObj [SLeaf; SLeaf; SLeaf; SObj (leaves 3); SObj []]).
Definition koord_schemas : list sch := [s_threshold; s_qos; s_burst; s_system; s_hostapps].

(* non-trivial: the case is inside the hypothesis of the theorems (every tree is a value of the
   section's Go type) and some applied ConfigMap has a well-formed section with a node entry that
   selects one of the probe nodes (so all three layers take part) *)
Definition sec_selects (nodes : list node) (s : section_in) : bool :=
  match s with
  | SValue _ es => existsb (fun nd => match first_match (n_labels nd) es with Some _ => true | None => false end) nodes
  | _ => false
  end.

Definition all_nodes (i : input) : list node := node_values (in_nodes i) (in_ops i).

Definition nontrivial_case (inp : list Z) : bool :=
  let i := decode inp in
  wf_input koord_schemas i
  && existsb (fun oc => match oc with Some c => existsb (sec_selects (all_nodes i)) c | None => false end)
             (eff_syncs false None (in_ops i)).
