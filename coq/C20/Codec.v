(* C20 — flat-integer wire format: decoding of inputs and the four entry points of the driver
   (extracted by Extract.v; kept in the library so that theorems can be stated about them).

   input  = nsecs (merge? default-tree)*   nnodes (nlabels (key value)* )*   nops op*
   op     = kind cmap        kind 0 Create, 1 Update(Data changed)              -> OSync
                             kind 2 Update(Data equal) -> OSame, 3 Delete -> ODelete, 4 other name -> OOther
                             kind 5 IsCfgAvailable, ConfigMap in the informer   -> OAvail (Some _)
          | 6                IsCfgAvailable, ConfigMap not found                -> OAvail None
            (every op is followed by Reconcile of every probe node)
   cmap   = nsections (status style payload?)*   status 0 absent, 1 malformed text (no payload),
                             2 type error (payload, rendered with a wrongly typed field), 3 value
   payload= cluster-tree nentries (selector tree)*
   selector = 0 | 1 nreq (key op nvals val* )*
   tree   = the encoding [Model.enc]
   observable = after every op, for every node, for every section: [enc] of the DELIVERED value (NodeSLO.Spec) *)
From Coq Require Import List ZArith Bool.
From Verif Require Import Lib.Wire C20.Model C20.Spec.
Import ListNotations.
Open Scope Z_scope.

Definition dec_kv (l : list Z) : (Z * Z) * list Z :=
  match l with
  | k :: v :: t => ((k, v), t)
  | _ => ((0, 0), [])
  end.

Fixpoint dec (fuel : nat) (l : list Z) : cfg * list Z :=
  match fuel with
  | O => (Leaf false None, [])
  | S f =>
    match l with
    | 0 :: t => (Leaf false None, t)
    | 1 :: v :: t => (Leaf false (Some v), t)
    | 6 :: t => (Leaf true None, t)
    | 7 :: v :: t => (Leaf true (Some v), t)
    | 2 :: t => (Obj None, t)
    | 3 :: n :: t => let '(fs, r) := decode_many (dec f) (Z.to_nat n) t in (Obj (Some fs), r)
    | 4 :: n :: t => let '(xs, r) := decode_many (dec f) (Z.to_nat n) t in (Arr xs, r)
    | 5 :: n :: t => let '(kvs, r) := decode_many dec_kv (Z.to_nat n) t in (Map kvs, r)
    | _ => (Leaf false None, [])
    end
  end.

Definition dec_tree (l : list Z) : cfg * list Z := dec (length l) l.

Definition dec_req (l : list Z) : req * list Z :=
  match l with
  | k :: o :: t => let '(vs, r) := take_list t in (mkReq k o vs, r)
  | _ => (mkReq 0 99 [], [])
  end.

Definition dec_sel (l : list Z) : selector * list Z :=
  match l with
  | 0 :: t => (None, t)
  | _ :: t => let '(rs, r) := decode_seq dec_req t in (Some rs, r)
  | [] => (None, [])
  end.

Definition dec_entry (l : list Z) : entry * list Z :=
  let '(s, r) := dec_sel l in
  let '(c, r') := dec_tree r in (mkEntry s c, r').

Definition dec_section (l : list Z) : section_in * list Z :=
  match l with
  | st :: _style :: t =>
      if (st =? 2) || (st =? 3) then
        let '(c, r) := dec_tree t in
        let '(es, r') := decode_seq dec_entry r in
        ((if st =? 3 then SValue c es else SMalformed), r')
      else ((if st =? 0 then SAbsent else SMalformed), t)
  | _ => (SAbsent, [])
  end.

Definition dec_cmap (l : list Z) : cmap * list Z := decode_seq dec_section l.

Definition dec_op (l : list Z) : op * list Z :=
  match l with
  | k :: t =>
      if k =? 6 then (OAvail None, t)
      else let '(c, r) := dec_cmap t in
           ((if (k =? 0) || (k =? 1) then OSync c
             else if k =? 2 then OSame c
             else if k =? 3 then ODelete
             else if k =? 5 then OAvail (Some c) else OOther), r)
  | [] => (OOther, [])
  end.

Definition dec_secdef (l : list Z) : secdef * list Z :=
  match l with
  | mflag :: t => let '(c, r) := dec_tree t in (mkSec (zb mflag) c, r)
  | [] => (mkSec true (Obj None), [])
  end.

Definition dec_labels (l : list Z) : labels * list Z := decode_seq dec_kv l.

Definition decode (inp : list Z) : input :=
  let '(sds, r1) := decode_seq dec_secdef inp in
  let '(nodes, r2) := decode_seq dec_labels r1 in
  let '(ops, _) := decode_seq dec_op r2 in
  mkInput sds nodes ops.

Definition run_case (inp : list Z) : list Z := enc_obs (run faithful (decode inp)).

Definition prop_case (inp obs : list Z) : Z := prop_code (decode inp) obs.

Definition finding_sig (inp obs : list Z) : Z := finding_code (decode inp) obs.

(* ---------- the schemas of the five sections (apis/slo/v1alpha1/nodeslo_types.go) ---------- *)
Definition leaves (n : nat) : list sch := repeat SLeaf n.
Definition s_threshold : sch := SObj (leaves 19).
Definition s_block : sch := SObj [SLeaf; SLeaf; SObj (leaves 16)].
Definition s_class : sch :=
  SObj [SObj (leaves 4); SObj (leaves 14); SObj [SLeaf; SArr s_block]; SObj (leaves 4); SObj (leaves 5)].
Definition s_qos : sch := SObj [SObj (leaves 2); s_class; s_class; s_class; s_class; s_class].
Definition s_burst : sch := SObj (leaves 5).
Definition s_system : sch := SObj (leaves 5 ++ [SMap; SLeaf; SLeaf]).
Definition s_hostapps : sch := SArr (SObj [SLeaf; SLeaf; SLeaf; SObj (leaves 3); SObj []]).
Definition koord_schemas : list sch := [s_threshold; s_qos; s_burst; s_system; s_hostapps].

(* non-trivial: the case is inside the hypothesis of the theorems (every tree is a value of the
   section's Go type) and some applied ConfigMap has a well-formed section with a node entry that
   selects one of the probe nodes (so all three layers take part) *)
Definition sec_selects (nodes : list labels) (s : section_in) : bool :=
  match s with
  | SValue _ es => existsb (fun ls => match first_match ls es with Some _ => true | None => false end) nodes
  | _ => false
  end.

Definition nontrivial_case (inp : list Z) : bool :=
  let i := decode inp in
  wf_input koord_schemas i
  && existsb (fun oc => match oc with Some c => existsb (sec_selects (in_nodes i)) c | None => false end)
             (eff_syncs false None (in_ops i)).
