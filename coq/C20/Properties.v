(* C20 — exported theorems only: each is closed by [exact] and followed by Print Assumptions. *)
From Coq Require Import List ZArith Bool.
From Verif Require Import C20.Model C20.Spec C20.Proofs_Overlay.
Import ListNotations.
Open Scope Z_scope.

Theorem c20_absent_layer_neutral : forall am a, overlay am a (Obj None) = a.
Proof. exact overlay_absent. Qed.
Print Assumptions c20_absent_layer_neutral.
