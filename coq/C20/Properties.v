(* C20 — exported theorems only: each is closed by [exact] and followed by Print Assumptions.
   Node SLO settings are layered default < cluster < first matching node override.

   [faithful] = the code as it is (model checked against the real code on every run);
   [ideal]    = the property statement read literally (the specification [prop_code] decides). *)
From Coq Require Import List ZArith Bool.
From Verif Require Import C20.Model C20.Spec C20.Codec
  C20.Proofs_Overlay C20.Proofs_History C20.Proofs_Strict C20.Proofs_Select C20.Proofs_Main C20.Proofs_Nodes
  C20.Proofs_Witness.
Import ListNotations.
Open Scope Z_scope.

(* --- the merge primitive (util.MergeCfg), for all trees of one Go type, all field paths:
       the upper layer wins exactly where it sets the scalar (in both readings of lists) --- *)
Theorem c20_overlay_field_law : forall am a s b p,
  conforms s a = true -> conforms s b = true ->
  lookup p (overlay am a b) = orelse (lookup p b) (lookup p a).
Proof. exact lookup_overlay. Qed.
Print Assumptions c20_overlay_field_law.

(* --- the specification, field by field: every scalar and every list-valued field a node gets is
       the value of the most specific layer that sets it: node entry, else cluster, else default --- *)
Theorem c20_field_layering : forall s d c n,
  conforms s d = true -> conforms s c = true -> conforms s n = true ->
  layered_fields (layered ideal d c n) n c d.
Proof. exact ideal_layered_fields. Qed.
Print Assumptions c20_field_layering.

(* --- the code as it is: the same law for every scalar path, except where a present upper layer
       omits an always-marshalled scalar (resource.Quantity) --- *)
Theorem c20_field_layering_code : forall ss d c n p,
  conforms (SObj ss) d = true -> conforms (SObj ss) c = true -> conforms (SObj ss) n = true ->
  req_gap p c = false -> (mentions n = true -> req_gap p n = false) ->
  lookup p (layered faithful d c n) = first_some [lookup p n; lookup p c; lookup p d].
Proof. exact faithful_scalar_layering. Qed.
Print Assumptions c20_field_layering_code.

(* --- first match: the node layer is the FIRST entry whose selector matches --- *)
Theorem c20_first_match : forall m ls sd c es1 e es2,
  sd_merge sd = true ->
  forallb (fun x => negb (selecting ls x)) es1 = true -> selecting ls e = true ->
  spec_effective m ls sd (SValue c (es1 ++ e :: es2)) = layered m (sd_default sd) c (e_strat e).
Proof. exact spec_effective_first_match. Qed.
Print Assumptions c20_first_match.

Theorem c20_no_match_cluster : forall m ls sd c es,
  sd_merge sd = true -> forallb (fun x => negb (selecting ls x)) es = true ->
  spec_effective m ls sd (SValue c es) = overlay (m_arrmerge m) (sd_default sd) (prep m c).
Proof. exact spec_effective_no_match. Qed.
Print Assumptions c20_no_match_cluster.

(* --- selectors: a nil selector selects no node, an empty one every node, one that does not
       convert (unknown operator, In/NotIn without values, Exists with values) no node --- *)
Theorem c20_selector_cases : forall ls,
  selects ls None = false /\ selects ls (Some []) = true
  /\ (forall rs, forallb req_valid rs = false -> selects ls (Some rs) = false)
  /\ (forall rs, forallb req_valid rs = true -> selects ls (Some rs) = forallb (req_matches ls) rs).
Proof. exact (fun ls => conj (selects_nil ls) (conj (selects_empty ls)
         (conj (selects_invalid ls) (selects_valid ls)))). Qed.
Print Assumptions c20_selector_cases.

(* --- no leak, over all histories (ConfigMap events, node label changes, restarts, ...): deleting
       from every ConfigMap every entry that selects none of the label sets the nodes ever carry
       changes nothing of what the nodes are delivered after every event --- *)
Theorem c20_no_leak : forall m sds nodes strict ops,
  in_scope (mkInput sds nodes strict ops) = true ->
  let P := selecting_any (map n_labels (node_values nodes ops)) in
  run m (mkInput sds nodes strict (map (restrict_op P) ops)) = run m (mkInput sds nodes strict ops).
Proof. exact no_leak_run. Qed.
Print Assumptions c20_no_leak.

(* --- delivery: Reconcile stores the computed spec in the NodeSLO whenever it differs from the
       stored one, so what is delivered is exactly what was computed --- *)
Theorem c20_delivery_identity : forall stored c, deliver_node stored c = c.
Proof. exact deliver_node_id. Qed.
Print Assumptions c20_delivery_identity.

(* --- NodeSLO life cycle: after the reconciliation that follows every event a Node that does not
       exist has no NodeSLO and a Node that exists has exactly the rendered spec, whatever was stored
       before (nothing, an old spec, one overwritten or deleted by a third party) --- *)
Theorem c20_reconcile_lifecycle : forall sds mgs nodes stored,
  reconcile_all sds mgs nodes stored = map (option_map (fun n => render n sds mgs)) nodes.
Proof. exact reconcile_lifecycle. Qed.
Print Assumptions c20_reconcile_lifecycle.

(* --- section text framing: exactly one JSON value with white space only around it; a text with any
       other character before or after the document keeps, over every history, the previously
       effective settings of the section in force --- *)
Theorem c20_framing : forall lead trail c es,
  parse_frame lead trail (SValue c es)
  = if forallb is_ws lead && forallb is_ws trail then SValue c es else SMalformed.
Proof. exact parse_frame_value. Qed.
Print Assumptions c20_framing.

Theorem c20_trailing_data_keeps_old : forall m sds ls ops c i sd lead trail cl es ch,
  nth_error sds i = Some sd ->
  nth i c SAbsent = parse_frame lead trail (SValue cl es) ->
  In ch (lead ++ trail) -> is_ws ch = false ->
  effective ls (nth i (st_secs (run_state m sds (ops ++ [OSync c]))) (default_of sd))
  = effective ls (nth i (st_secs (run_state m sds ops)) (default_of sd)).
Proof. exact framed_garbage_keeps_old. Qed.
Print Assumptions c20_trailing_data_keeps_old.

(* --- the node's own bandwidth annotation: a node-local layer over ONE field of ONE section; an
       unreadable annotation withholds that section only --- *)
Theorem c20_bandwidth_layer : forall m nd sd s,
  (sd_bw sd = None \/ n_bw nd = BwNone ->
     spec_effective_n m nd sd s = spec_effective m (n_labels nd) sd s)
  /\ (forall k q, sd_bw sd = Some k -> n_bw nd = BwVal q ->
        (forall i p, Z.to_nat i <> k ->
           lookup (i :: p) (spec_effective_n m nd sd s) = lookup (i :: p) (spec_effective m (n_labels nd) sd s)
           /\ lookup_arr (i :: p) (spec_effective_n m nd sd s)
              = lookup_arr (i :: p) (spec_effective m (n_labels nd) sd s))
        /\ (forall fs, spec_effective m (n_labels nd) sd s = Obj (Some fs) -> (k < length fs)%nat ->
              lookup [Z.of_nat k] (spec_effective_n m nd sd s) = Some q))
  /\ (forall k, sd_bw sd = Some k -> n_bw nd = BwBad -> spec_effective_n m nd sd s = Obj None).
Proof. exact bandwidth_layer. Qed.
Print Assumptions c20_bandwidth_layer.

Theorem c20_annotation_local : forall m sds syncs ls b b' j,
  match nth_error sds j with Some sd => sd_bw sd = None | None => True end ->
  option_map (fun cs => nth_error cs j) (spec_node m sds syncs (Some (mkNode ls b)))
  = option_map (fun cs => nth_error cs j) (spec_node m sds syncs (Some (mkNode ls b'))).
Proof. exact annotation_local. Qed.
Print Assumptions c20_annotation_local.

(* --- duplicate events: the same ConfigMap delivered again (duplicate Create, resync) changes nothing --- *)
Theorem c20_resync_idempotent : forall m sds st c,
  step m sds (step m sds st (OSync c)) (OSync c) = step m sds st (OSync c).
Proof. exact resync_idempotent. Qed.
Print Assumptions c20_resync_idempotent.

(* --- restart: a restarted controller has forgotten every earlier ConfigMap --- *)
Theorem c20_restart_is_fresh : forall m sds ops,
  st_secs (run_state m sds (ops ++ [ORestart]))
  = sync_from m sds (map default_of sds) (st_inf (run_state m sds ops)).
Proof. exact restart_is_fresh. Qed.
Print Assumptions c20_restart_is_fresh.

(* --- history: the spec DELIVERED to every node (NodeSLO.Spec) after ANY sequence of events, each
       followed by the reconciliation of the nodes, is what the from-scratch specification computes
       from the latest applied, parseable text of each section --- *)
Theorem c20_history_refines_spec : forall m i, in_scope i = true -> run m i = spec_run m i.
Proof. exact run_refines_spec. Qed.
Print Assumptions c20_history_refines_spec.

(* --- the production triggers are complete: for every history that starts with the controller start,
       in which every (re)start finds at least one Node and no Node update changes the bandwidth
       annotation alone, reconciling ONLY what the event handlers enqueue (ConfigMap handler: all
       nodes iff the cache changed; Node handler: Create / Delete / label change; NodeSLO watch;
       restart: every existing object) delivers after EVERY event exactly what reconciling every node
       after every event delivers --- *)
Theorem c20_triggers_complete : forall m sds nodes ops,
  wf_strict (mkInput sds nodes true ops) = true ->
  run m (mkInput sds nodes true ops) = run m (mkInput sds nodes false ops).
Proof. exact triggers_complete. Qed.
Print Assumptions c20_triggers_complete.

Theorem c20_absent_defaults : forall m sds ls ops c i sd,
  nth_error sds i = Some sd -> nth i c SAbsent = SAbsent ->
  effective ls (nth i (st_secs (run_state m sds (ops ++ [OSync c]))) (default_of sd))
  = sd_default sd.
Proof. exact history_absent_gives_default. Qed.
Print Assumptions c20_absent_defaults.

Theorem c20_parse_error_keeps_old : forall m sds ls ops c i sd,
  nth_error sds i = Some sd -> nth i c SAbsent = SMalformed ->
  effective ls (nth i (st_secs (run_state m sds (ops ++ [OSync c]))) (default_of sd))
  = effective ls (nth i (st_secs (run_state m sds ops)) (default_of sd)).
Proof. exact history_malformed_keeps_old. Qed.
Print Assumptions c20_parse_error_keeps_old.

(* --- the decision procedure run on the implementation's observables decides the property --- *)
Theorem c20_prop_code_decides : forall i obs, prop_code i obs = 0 <-> C20_holds i obs.
Proof. exact prop_code_spec. Qed.
Print Assumptions c20_prop_code_decides.

(* --- MAIN: for every well-formed history that avoids the two departures, the model of the code
       satisfies the property after every event, for every node (stated on what the driver runs) --- *)
Theorem c20_model_meets_spec : forall ss inp,
  wf_input ss (decode inp) = true -> clean_input (decode inp) = true ->
  prop_case inp (run_case inp) = 0.
Proof. exact case_meets_spec. Qed.
Print Assumptions c20_model_meets_spec.

(* --- with the two departures switched off (the code after the patches proposed in findings/C20-*.md)
       the model satisfies the property on EVERY history, without side condition --- *)
Theorem c20_fixed_model_meets_spec : forall i, prop_code i (enc_obs (run ideal i)) = 0.
Proof. exact ideal_model_meets_spec. Qed.
Print Assumptions c20_fixed_model_meets_spec.

(* --- and on EVERY input the model either satisfies the property or is exactly one of the
       known departures (so nothing else is hidden behind the known-finding signatures) --- *)
Theorem c20_model_explained : forall inp,
  prop_case inp (run_case inp) = 0 \/ finding_sig inp (run_case inp) <> 0.
Proof. exact case_explained. Qed.
Print Assumptions c20_model_explained.

(* --- a known-finding signature is returned only if the implementation's WHOLE observable equals
       the faithful model's observable: no regression can hide behind a recorded shape --- *)
Theorem c20_sig_requires_model : forall inp obs,
  finding_sig inp obs <> 0 -> obs = run_case inp /\ prop_case inp obs <> 0.
Proof. exact sig_requires_model. Qed.
Print Assumptions c20_sig_requires_model.

(* --- the two departures of the code from the property (witnesses = corpus/C20/layering/finding*.case) --- *)
Theorem c20_bandwidth_reset_refuted :
  wf_input koord_schemas (decode witness_bandwidth) = true
  /\ prop_case witness_bandwidth (run_case witness_bandwidth) = 1
  /\ finding_sig witness_bandwidth (run_case witness_bandwidth) = 1
  /\ map (lookup [7]) (map (sec_of 0 3) (run faithful (decode witness_bandwidth))) = [Some 0]
  /\ map (lookup [7]) (map (sec_of 0 3) (spec_run ideal (decode witness_bandwidth))) = [Some 1000].
Proof. exact bandwidth_reset_refuted. Qed.
Print Assumptions c20_bandwidth_reset_refuted.

Theorem c20_blocks_merge_refuted :
  wf_input koord_schemas (decode witness_blocks) = true
  /\ prop_case witness_blocks (run_case witness_blocks) = 1
  /\ finding_sig witness_blocks (run_case witness_blocks) = 2
  /\ map (fun o => option_map (map (fun b => (lookup [0] b, lookup [1] b, lookup [2;0] b, lookup [2;1] b)))
                              (blocks_of (sec_of 0 1 o)))
         (run faithful (decode witness_blocks))
     = [Some [(Some 2, Some (-13), Some 100, Some 5)]]
  /\ map (fun o => option_map (map (fun b => (lookup [0] b, lookup [1] b, lookup [2;0] b, lookup [2;1] b)))
                              (blocks_of (sec_of 0 1 o)))
         (spec_run ideal (decode witness_blocks))
     = [Some [(Some 2, None, None, Some 5)]].
Proof. exact blocks_merge_refuted. Qed.
Print Assumptions c20_blocks_merge_refuted.

(* --- non-vacuity: the hypotheses hold on a non-trivial history over the real Go schemas --- *)
Example c20_nonvacuous :
  wf_input koord_schemas (decode example_clean) = true
  /\ clean_input (decode example_clean) = true
  /\ nontrivial_case example_clean = true
  /\ prop_case example_clean (run_case example_clean) = 0.
Proof. exact example_clean_ok. Qed.

Example c20_nonvacuous_events :
  wf_input koord_schemas (decode example_events) = true
  /\ clean_input (decode example_events) = true
  /\ in_strict (decode example_events) = true /\ wf_strict (decode example_events) = true
  /\ nontrivial_case example_events = true
  /\ prop_case example_events (run_case example_events) = 0
  /\ map (fun o => (lookup [1] (sec_of 0 2 o), lookup [1] (sec_of 1 2 o))) (run faithful (decode example_events))
     = [(Some 1000, Some 1000); (Some 900, Some 700); (Some 900, Some 700); (Some 900, Some 900);
        (Some 900, Some 900); (Some 1000, Some 1000)]
  /\ map (fun o => (lookup [7] (sec_of 0 3 o), sec_of 1 3 o)) (run faithful (decode example_events))
     = repeat (Some 5000, Obj None) 6.
Proof. exact example_events_ok. Qed.

Example c20_nonvacuous_paths :
  let d := Obj (Some [Leaf false (Some 1); Leaf true (Some 0)]) in
  let c := Obj (Some [Leaf false None; Leaf true (Some 5)]) in
  let n := Obj (Some [Leaf false (Some 7); Leaf true None]) in
  conforms (SObj [SLeaf; SLeaf]) d = true /\ conforms (SObj [SLeaf; SLeaf]) c = true
  /\ conforms (SObj [SLeaf; SLeaf]) n = true
  /\ req_gap [0] c = false /\ req_gap [0] n = false /\ req_gap [1] n = true
  /\ lookup [0] (layered faithful d c n) = Some 7
  /\ lookup [1] (layered faithful d c n) = Some 0      (* the gap: reset instead of 5 *)
  /\ lookup [1] (layered ideal d c n) = Some 5.
Proof. vm_compute. repeat split; reflexivity. Qed.
