(* C20 — first-match selection and "no leak": what a node gets depends only on the entries
   that select it, and among those only on the first. *)
From Coq Require Import List ZArith Bool Lia.
From Verif Require Import C20.Model C20.Spec C20.Proofs_Overlay C20.Proofs_History.
Import ListNotations.
Open Scope Z_scope.

Definition selecting (ls : labels) (e : entry) : bool := selects ls (e_sel e).

Lemma first_match_filter ls : forall es,
  first_match ls (filter (selecting ls) es) = first_match ls es.
Proof.
  induction es as [|e es IH]; [reflexivity|]. simpl. unfold selecting at 1.
  destruct (selects ls (e_sel e)) eqn:E; simpl; [rewrite E; reflexivity|assumption].
Qed.

Lemma first_match_skip ls : forall es1 es2,
  forallb (fun x => negb (selecting ls x)) es1 = true ->
  first_match ls (es1 ++ es2) = first_match ls es2.
Proof.
  induction es1 as [|x es1 IH]; intros es2 H; [reflexivity|].
  simpl in *. apply andb_true_iff in H. destruct H as [H1 H]. unfold selecting in H1.
  destruct (selects ls (e_sel x)); [discriminate|]. auto.
Qed.

Lemma first_match_spec ls es e :
  first_match ls es = Some e <->
  exists es1 es2, es = es1 ++ e :: es2
                  /\ forallb (fun x => negb (selecting ls x)) es1 = true
                  /\ selecting ls e = true.
Proof.
  split.
  - induction es as [|x es IH]; simpl; [discriminate|].
    destruct (selects ls (e_sel x)) eqn:E; intros H.
    + inversion H; subst. exists [], es. auto.
    + destruct (IH H) as (es1 & es2 & -> & H1 & H2). exists (x :: es1), es2.
      split; [reflexivity|]. split; [|assumption]. simpl. unfold selecting at 1. rewrite E. assumption.
  - intros (es1 & es2 & -> & H1 & H2). rewrite first_match_skip by assumption.
    simpl. unfold selecting in H2. rewrite H2. reflexivity.
Qed.

(* ---------- selectors: nil selects nothing, empty selects everything, invalid selects nothing ---------- *)
Lemma selects_nil ls : selects ls None = false.
Proof. reflexivity. Qed.

Lemma selects_empty ls : selects ls (Some []) = true.
Proof. reflexivity. Qed.

Lemma selects_invalid ls rs : forallb req_valid rs = false -> selects ls (Some rs) = false.
Proof. intros H. unfold selects, sel_matches. rewrite H. reflexivity. Qed.

Lemma selects_valid ls rs :
  forallb req_valid rs = true -> selects ls (Some rs) = forallb (req_matches ls) rs.
Proof.
  intros H. unfold selects, sel_matches. rewrite H.
  destruct (forallb (req_matches ls) rs); reflexivity.
Qed.

(* the value a node gets from a section is the layering of default, cluster and the strategy of
   the FIRST entry whose selector matches (entries before it do not match; later ones are ignored) *)
Theorem spec_effective_first_match m ls sd c es1 e es2 :
  sd_merge sd = true ->
  forallb (fun x => negb (selecting ls x)) es1 = true -> selecting ls e = true ->
  spec_effective m ls sd (SValue c (es1 ++ e :: es2)) = layered m (sd_default sd) c (e_strat e).
Proof.
  intros Hm H1 H2. unfold spec_effective, node_layer. rewrite Hm.
  rewrite first_match_skip by assumption. simpl. unfold selecting in H2. rewrite H2. reflexivity.
Qed.

Theorem spec_effective_no_match m ls sd c es :
  sd_merge sd = true ->
  forallb (fun x => negb (selecting ls x)) es = true ->
  spec_effective m ls sd (SValue c es) = overlay (m_arrmerge m) (sd_default sd) (prep m c).
Proof.
  intros Hm H. unfold spec_effective, node_layer. rewrite Hm.
  rewrite <- (app_nil_r es), first_match_skip by assumption. simpl.
  unfold layered. rewrite prep_entry_absent, overlay_absent. reflexivity.
Qed.

(* ---------- no leak ---------- *)
(* a section as seen by node [ls]: all entries that do not select it are deleted *)
Definition restrict_sec (ls : labels) (s : section_in) : section_in :=
  match s with
  | SValue c es => SValue c (filter (selecting ls) es)
  | x => x
  end.

Definition restrict_cmap (ls : labels) (c : cmap) : cmap := map (restrict_sec ls) c.

Definition restrict_op (ls : labels) (o : op) : op :=
  match o with
  | OSync c => OSync (restrict_cmap ls c)
  | OSame c => OSame (restrict_cmap ls c)
  | ODelete => ODelete
  | OOther => OOther
  | OAvail oc => OAvail (option_map (restrict_cmap ls) oc)
  end.

Theorem spec_effective_restrict m ls sd s :
  spec_effective m ls sd (restrict_sec ls s) = spec_effective m ls sd s.
Proof.
  destruct s as [| |c es]; try reflexivity. simpl. unfold node_layer.
  rewrite first_match_filter. reflexivity.
Qed.

Lemma eff_syncs_restrict ls : forall ops a inf,
  eff_syncs a (option_map (restrict_cmap ls) inf) (map (restrict_op ls) ops)
  = map (option_map (restrict_cmap ls)) (eff_syncs a inf ops).
Proof.
  induction ops as [|o ops IH]; intros a inf; [reflexivity|].
  cbn [map eff_syncs]. rewrite map_app.
  replace (inf_after (option_map (restrict_cmap ls) inf) (restrict_op ls o))
    with (option_map (restrict_cmap ls) (inf_after inf o)) by (destruct o; reflexivity).
  rewrite IH. f_equal. destruct o; try reflexivity; destruct a; reflexivity.
Qed.

Lemma sec_in_restrict ls i oc :
  sec_in i (option_map (restrict_cmap ls) oc) = restrict_sec ls (sec_in i oc).
Proof.
  destruct oc as [c|]; simpl; [|reflexivity]. unfold restrict_cmap.
  exact (map_nth (restrict_sec ls) c SAbsent i).
Qed.

Lemma last_good_restrict ls i : forall syncs,
  last_good i (map (option_map (restrict_cmap ls)) syncs) = restrict_sec ls (last_good i syncs).
Proof.
  induction syncs as [|oc pre IH] using rev_ind; [reflexivity|].
  rewrite map_app. simpl. rewrite !last_good_snoc, sec_in_restrict, IH.
  destruct (sec_in i oc); reflexivity.
Qed.

Lemma spec_observe_restrict m sds ls ops :
  spec_observe m sds [ls] (map (restrict_op ls) ops) = spec_observe m sds [ls] ops.
Proof.
  unfold spec_observe. simpl. f_equal. apply map_ext. intros [i sd]. simpl.
  change (@None cmap) with (option_map (restrict_cmap ls) None) at 1.
  rewrite eff_syncs_restrict, last_good_restrict. apply spec_effective_restrict.
Qed.

(* Over ANY history of ConfigMap events: what node [ls] observes after every event is unchanged
   if every node entry that does not select [ls] is deleted from every ConfigMap — nothing set
   only in such entries can reach the node. *)
Theorem no_leak_run m sds ls ops :
  run m (mkInput sds [ls] (map (restrict_op ls) ops)) = run m (mkInput sds [ls] ops).
Proof.
  rewrite !run_refines_spec. unfold spec_run. simpl. rewrite map_length.
  apply map_ext. intros k. rewrite firstn_map. apply spec_observe_restrict.
Qed.
