(* C20 — first-match selection and "no leak": what a node gets depends only on the entries
   that select it, and among those only on the first. *)
From Coq Require Import List ZArith Bool Lia.
From Verif Require Import C20.Model C20.Spec C20.Proofs_Overlay C20.Proofs_History C20.Proofs_Strict.
Import ListNotations.
Open Scope Z_scope.

Definition selecting (ls : labels) (e : entry) : bool := selects ls (e_sel e).

Lemma first_match_filter ls : forall es,
  first_match ls (filter (selecting ls) es) = first_match ls es.
Proof.
  induction es as [|e es IH]; [reflexivity|]. simpl. unfold selecting at 1.
  destruct (selects ls (e_sel e)) eqn:E; simpl; [rewrite E; reflexivity|assumption].
Qed.

Lemma first_match_skip ls : forall es1 es2,
  forallb (fun x => negb (selecting ls x)) es1 = true ->
  first_match ls (es1 ++ es2) = first_match ls es2.
Proof.
  induction es1 as [|x es1 IH]; intros es2 H; [reflexivity|].
  simpl in *. apply andb_true_iff in H. destruct H as [H1 H]. unfold selecting in H1.
  destruct (selects ls (e_sel x)); [discriminate|]. auto.
Qed.

Lemma first_match_spec ls es e :
  first_match ls es = Some e <->
  exists es1 es2, es = es1 ++ e :: es2
                  /\ forallb (fun x => negb (selecting ls x)) es1 = true
                  /\ selecting ls e = true.
Proof.
  split.
  - induction es as [|x es IH]; simpl; [discriminate|].
    destruct (selects ls (e_sel x)) eqn:E; intros H.
    + inversion H; subst. exists [], es. auto.
    + destruct (IH H) as (es1 & es2 & -> & H1 & H2). exists (x :: es1), es2.
      split; [reflexivity|]. split; [|assumption]. simpl. unfold selecting at 1. rewrite E. assumption.
  - intros (es1 & es2 & -> & H1 & H2). rewrite first_match_skip by assumption.
    simpl. unfold selecting in H2. rewrite H2. reflexivity.
Qed.

(* ---------- selectors: nil selects nothing, empty selects everything, invalid selects nothing ---------- *)
Lemma selects_nil ls : selects ls None = false.
Proof. reflexivity. Qed.

Lemma selects_empty ls : selects ls (Some []) = true.
Proof. reflexivity. Qed.

Lemma selects_invalid ls rs : forallb req_valid rs = false -> selects ls (Some rs) = false.
Proof. intros H. unfold selects, sel_matches. rewrite H. reflexivity. Qed.

Lemma selects_valid ls rs :
  forallb req_valid rs = true -> selects ls (Some rs) = forallb (req_matches ls) rs.
Proof.
  intros H. unfold selects, sel_matches. rewrite H.
  destruct (forallb (req_matches ls) rs); reflexivity.
Qed.

(* the value a node gets from a section is the layering of default, cluster and the strategy of
   the FIRST entry whose selector matches (entries before it do not match; later ones are ignored) *)
Theorem spec_effective_first_match m ls sd c es1 e es2 :
  sd_merge sd = true ->
  forallb (fun x => negb (selecting ls x)) es1 = true -> selecting ls e = true ->
  spec_effective m ls sd (SValue c (es1 ++ e :: es2)) = layered m (sd_default sd) c (e_strat e).
Proof.
  intros Hm H1 H2. unfold spec_effective, node_layer. rewrite Hm.
  rewrite first_match_skip by assumption. simpl. unfold selecting in H2. rewrite H2. reflexivity.
Qed.

Theorem spec_effective_no_match m ls sd c es :
  sd_merge sd = true ->
  forallb (fun x => negb (selecting ls x)) es = true ->
  spec_effective m ls sd (SValue c es) = overlay (m_arrmerge m) (sd_default sd) (prep m c).
Proof.
  intros Hm H. unfold spec_effective, node_layer. rewrite Hm.
  rewrite <- (app_nil_r es), first_match_skip by assumption. simpl.
  unfold layered. rewrite prep_entry_absent, overlay_absent. reflexivity.
Qed.

(* ---------- no leak ---------- *)
(* a section with every entry deleted that does not satisfy [P] *)
Definition restrict_sec (P : entry -> bool) (s : section_in) : section_in :=
  match s with
  | SValue c es => SValue c (filter P es)
  | x => x
  end.

Definition restrict_cmap (P : entry -> bool) (c : cmap) : cmap := map (restrict_sec P) c.

Definition restrict_op (P : entry -> bool) (o : op) : op :=
  match o with
  | OSync c => OSync (restrict_cmap P c)
  | OSame c => OSame (restrict_cmap P c)
  | OAvail oc => OAvail (option_map (restrict_cmap P) oc)
  | x => x
  end.

(* the entries that select at least one of the label sets [lss] *)
Definition selecting_any (lss : list labels) (e : entry) : bool :=
  existsb (fun ls => selecting ls e) lss.

Lemma first_match_filter_gen ls (P : entry -> bool) :
  (forall e, selecting ls e = true -> P e = true) ->
  forall es, first_match ls (filter P es) = first_match ls es.
Proof.
  intros HP. induction es as [|e es IH]; [reflexivity|]. simpl.
  destruct (selects ls (e_sel e)) eqn:E.
  - rewrite (HP e E). simpl. rewrite E. reflexivity.
  - destruct (P e); simpl; [rewrite E|]; assumption.
Qed.

Theorem spec_effective_restrict m ls P sd s :
  (forall e, selecting ls e = true -> P e = true) ->
  spec_effective m ls sd (restrict_sec P s) = spec_effective m ls sd s.
Proof.
  intros HP. destruct s as [| |c es]; try reflexivity. simpl. unfold node_layer.
  rewrite (first_match_filter_gen ls P HP). reflexivity.
Qed.

Lemma eff_syncs_restrict P : forall ops a inf,
  eff_syncs a (option_map (restrict_cmap P) inf) (map (restrict_op P) ops)
  = map (option_map (restrict_cmap P)) (eff_syncs a inf ops).
Proof.
  induction ops as [|o ops IH]; intros a inf; [reflexivity|].
  cbn [map eff_syncs]. rewrite map_app.
  replace (inf_after (option_map (restrict_cmap P) inf) (restrict_op P o))
    with (option_map (restrict_cmap P) (inf_after inf o)) by (destruct o; reflexivity).
  rewrite IH. f_equal. destruct o; try reflexivity; destruct a; reflexivity.
Qed.

Lemma sec_in_restrict P i oc :
  sec_in i (option_map (restrict_cmap P) oc) = restrict_sec P (sec_in i oc).
Proof.
  destruct oc as [c|]; simpl; [|reflexivity]. unfold restrict_cmap.
  exact (map_nth (restrict_sec P) c SAbsent i).
Qed.

Lemma last_good_restrict P i : forall syncs,
  last_good i (map (option_map (restrict_cmap P)) syncs) = restrict_sec P (last_good i syncs).
Proof.
  induction syncs as [|oc pre IH] using rev_ind; [reflexivity|].
  rewrite map_app. simpl. rewrite !last_good_snoc, sec_in_restrict, IH.
  destruct (sec_in i oc); reflexivity.
Qed.

Lemma nodes_fold_restrict P : forall ops nodes,
  nodes_fold nodes (map (restrict_op P) ops) = nodes_fold nodes ops.
Proof.
  unfold nodes_fold. induction ops as [|o ops IH]; intros nodes; [reflexivity|].
  simpl. rewrite <- IH. f_equal. destruct o; reflexivity.
Qed.

Lemma set_nth_In {A} (x : A) : forall l i y, In y (set_nth i x l) -> y = x \/ In y l.
Proof.
  induction l as [|z l IH]; intros i y H; [destruct i; contradiction|].
  destruct i as [|i]; simpl in H.
  - destruct H as [H|H]; [left; congruence|right; right; assumption].
  - destruct H as [H|H]; [right; left; assumption|].
    destruct (IH _ _ H) as [E|E]; [left; assumption|right; right; assumption].
Qed.

(* a Node object that exists after a history occurred in it *)
Lemma nodes_fold_values : forall ops nodes nd,
  In (Some nd) (nodes_fold nodes ops) -> In nd (node_values nodes ops).
Proof.
  unfold nodes_fold, node_values.
  induction ops as [|o ops IH]; intros nodes nd H; simpl in *.
  - rewrite app_nil_r. apply in_flat_map. exists (Some nd). split; [assumption|left; reflexivity].
  - apply IH in H. apply in_app_or in H. apply in_or_app. destruct H as [H|H].
    + apply in_flat_map in H. destruct H as (x & Hx & Hnd).
      destruct o as [c|c| | |oc| |i [n|]|i|i|i]; simpl in Hx;
        try (left; apply in_flat_map; exists x; split; assumption).
      * apply set_nth_In in Hx. destruct Hx as [->|Hx].
        -- simpl in Hnd. destruct Hnd as [->|[]]. right. simpl. left. reflexivity.
        -- left. apply in_flat_map. exists x. split; assumption.
      * apply set_nth_In in Hx. destruct Hx as [->|Hx]; [contradiction|].
        left. apply in_flat_map. exists x. split; assumption.
    + right. apply in_or_app. right. assumption.
Qed.

Lemma spec_observe_restrict m sds nodes ops P :
  (forall nd e, In nd (node_values nodes ops) -> selecting (n_labels nd) e = true -> P e = true) ->
  spec_observe m sds nodes (map (restrict_op P) ops) = spec_observe m sds nodes ops.
Proof.
  intros HP. unfold spec_observe. rewrite nodes_fold_restrict.
  apply map_ext_in. intros [nd|] Hin; [|reflexivity]. simpl. f_equal.
  apply map_ext. intros [i sd]. simpl.
  change (@None cmap) with (option_map (restrict_cmap P) None) at 1.
  rewrite eff_syncs_restrict, last_good_restrict. unfold spec_effective_n. f_equal.
  apply spec_effective_restrict. intros e. apply (HP nd). apply nodes_fold_values. assumption.
Qed.

Lemma node_values_firstn nodes ops k nd :
  In nd (node_values nodes (firstn k ops)) -> In nd (node_values nodes ops).
Proof.
  unfold node_values. intros H. apply in_app_or in H. apply in_or_app.
  destruct H as [H|H]; [left; assumption|right].
  apply in_flat_map in H. destruct H as (o & Ho & Hnd). apply in_flat_map. exists o.
  split; [|assumption]. rewrite <- (firstn_skipn k ops). apply in_or_app. left. assumption.
Qed.

Lemma op_loud_restrict P nodes o : op_loud nodes (restrict_op P o) = op_loud nodes o.
Proof. destruct o; reflexivity. Qed.

Lemma ops_loud_restrict P : forall ops nodes,
  ops_loud nodes (map (restrict_op P) ops) = ops_loud nodes ops.
Proof.
  induction ops as [|o ops IH]; intros nodes; [reflexivity|].
  simpl. rewrite op_loud_restrict. f_equal.
  replace (nodes_after nodes (restrict_op P o)) with (nodes_after nodes o) by (destruct o; reflexivity).
  apply IH.
Qed.

Lemma in_scope_restrict P sds nodes strict ops :
  in_scope (mkInput sds nodes strict (map (restrict_op P) ops)) = in_scope (mkInput sds nodes strict ops).
Proof.
  unfold in_scope, wf_strict. cbn [in_strict in_ops in_nodes]. f_equal.
  destruct ops as [|o ops]; [reflexivity|].
  change (map (restrict_op P) (o :: ops)) with (restrict_op P o :: map (restrict_op P) ops).
  rewrite <- (ops_loud_restrict P (o :: ops) nodes).
  destruct o; reflexivity.
Qed.

(* Over ANY history of events in scope (ConfigMap events, node label changes, restarts, ...; every
   node reconciled after every event, or only what the handlers enqueue): what the nodes are
   delivered after every event is unchanged if every node entry that selects none of the label sets a
   node ever carries is deleted from every ConfigMap — nothing set only in such entries can reach any
   of these nodes. *)
Theorem no_leak_run m sds nodes strict ops :
  in_scope (mkInput sds nodes strict ops) = true ->
  let P := selecting_any (map n_labels (node_values nodes ops)) in
  run m (mkInput sds nodes strict (map (restrict_op P) ops)) = run m (mkInput sds nodes strict ops).
Proof.
  intros Hs P. rewrite !run_refines_spec by (rewrite ?in_scope_restrict; assumption).
  unfold spec_run. simpl. rewrite map_length.
  apply map_ext. intros k. rewrite firstn_map. apply spec_observe_restrict.
  intros nd e Hnd Hsel. unfold P, selecting_any. apply existsb_exists.
  exists (n_labels nd). split; [|assumption]. apply in_map. eapply node_values_firstn; eassumption.
Qed.
