(* C20 — basic lemmas about the overlay. *)
From Coq Require Import List ZArith Bool Lia.
From Verif Require Import C20.Model C20.Spec.
Import ListNotations.
Open Scope Z_scope.

(* a layer that is not there changes nothing *)
Lemma overlay_absent am a : overlay am a (Obj None) = a.
Proof. destruct a as [r o|o|xs|kvs]; simpl; try reflexivity; destruct o; reflexivity. Qed.
