(* C20 — the decision procedure decides the property; the model (the code as it is) meets the
   from-scratch specification on every input that avoids the two known departures; the
   field-by-field reading of the specification. *)
From Coq Require Import List ZArith Bool Lia.
From Verif Require Import C20.Model C20.Spec C20.Proofs_Overlay C20.Proofs_History C20.Proofs_Strict C20.Proofs_Select.
Import ListNotations.
Open Scope Z_scope.

(* ---------- the decision procedure ---------- *)
Lemma eq_listZ_spec : forall a b, eq_listZ a b = true <-> a = b.
Proof.
  induction a as [|x a IH]; destruct b as [|y b]; simpl; split; intros H; try discriminate; auto.
  - apply andb_true_iff in H. destruct H as [H1 H2]. apply Z.eqb_eq in H1. apply IH in H2. congruence.
  - inversion H; subst. rewrite Z.eqb_refl. simpl. apply IH. reflexivity.
Qed.

Lemma is_prefix_spec e obs : is_prefix e obs = true <-> obs = e ++ skipn (length e) obs.
Proof.
  unfold is_prefix. rewrite eq_listZ_spec. split; intros H.
  - rewrite <- H at 1. symmetry. apply firstn_skipn.
  - rewrite H at 1. rewrite firstn_app, firstn_all, Nat.sub_diag. simpl. apply app_nil_r.
Qed.

Lemma check_segs_spec : forall segs obs,
  Forall (fun s : seg => fst s <> 0) segs ->
  (check_segs segs obs = 0 <-> obs_matches segs obs).
Proof.
  induction segs as [|[cl alts] segs IH]; intros obs Hnz.
  - simpl. unfold obs_matches. destruct obs; simpl; split; intros H; try reflexivity.
    + exists []. split; [constructor|reflexivity].
    + discriminate.
    + destruct H as (ch & HF & E). inversion HF; subst. discriminate.
  - inversion Hnz as [|? ? Hcl Hnz']; subst. simpl in Hcl.
    cbn [check_segs].
    set (rs := map (fun e => if is_prefix e obs then check_segs segs (skipn (length e) obs) else cl) alts).
    assert (existsb (Z.eqb 0) rs = true <->
            exists e, In e alts /\ is_prefix e obs = true /\ check_segs segs (skipn (length e) obs) = 0) as Hex.
    { unfold rs. rewrite existsb_exists. split.
      - intros (r & Hr & E). apply Z.eqb_eq in E. subst r. apply in_map_iff in Hr.
        destruct Hr as (e & He & Hin). exists e. split; [assumption|].
        destruct (is_prefix e obs); [split; [reflexivity|assumption]|congruence].
      - intros (e & Hin & Hp & Hc). exists 0. split; [|reflexivity].
        apply in_map_iff. exists e. rewrite Hp. split; assumption. }
    split.
    + intros H.
      assert (existsb (Z.eqb 0) rs = true) as Hx.
      { destruct (existsb (Z.eqb 0) rs) eqn:Ex; [reflexivity|]. exfalso.
        destruct rs as [|r rs']; simpl in H; [congruence|].
        subst r. simpl in Ex. discriminate. }
      apply Hex in Hx. destruct Hx as (e & Hin & Hp & Hc).
      apply (IH _ Hnz') in Hc. destruct Hc as (ch & HF & E).
      exists (e :: ch). split; [constructor; assumption|].
      simpl. rewrite <- E. apply is_prefix_spec. assumption.
    + intros (ch & HF & E). inversion HF as [|e ? ch' ? Hin HF']; subst. simpl in Hin.
      assert (existsb (Z.eqb 0) rs = true) as Hx.
      { apply Hex. exists e. split; [assumption|].
        assert (skipn (length e) (concat (e :: ch')) = concat ch') as Hs
          by (simpl; rewrite skipn_app, skipn_all, Nat.sub_diag; reflexivity).
        split.
        - apply is_prefix_spec. rewrite Hs. reflexivity.
        - rewrite Hs. apply (IH _ Hnz'). exists ch'. split; [assumption|reflexivity]. }
      rewrite Hx. reflexivity.
Qed.

Lemma flat_map_flat_map {A B C} (f : A -> list B) (g : B -> list C) : forall l,
  flat_map g (flat_map f l) = flat_map (fun x => flat_map g (f x)) l.
Proof.
  induction l as [|x l IH]; simpl; [reflexivity|]. rewrite flat_map_app, IH. reflexivity.
Qed.

Lemma flat_map_map {A B C} (f : A -> B) (g : B -> list C) : forall l,
  flat_map g (map f l) = flat_map (fun x => g (f x)) l.
Proof. induction l as [|x l IH]; simpl; [reflexivity|]. rewrite IH. reflexivity. Qed.

(* concatenation of matchings *)
Lemma obs_matches_app s1 s2 o1 o2 :
  obs_matches s1 o1 -> obs_matches s2 o2 -> obs_matches (s1 ++ s2) (o1 ++ o2).
Proof.
  intros (c1 & H1 & E1) (c2 & H2 & E2). exists (c1 ++ c2). split.
  - apply Forall2_app; assumption.
  - rewrite concat_app. congruence.
Qed.

Lemma obs_matches_flat_map {A} (f : A -> list seg) (g : A -> list Z) : forall l,
  (forall x, In x l -> obs_matches (f x) (g x)) ->
  obs_matches (flat_map f l) (flat_map g l).
Proof.
  induction l as [|x l IH]; intros H; simpl.
  - exists []. split; [constructor|reflexivity].
  - apply obs_matches_app; [apply H; left; reflexivity|apply IH; intros y Hy; apply H; right; assumption].
Qed.

(* the deterministic reading of the specification (first accepted value of every segment) is accepted *)
Lemma spec_segs_node_matches m sds syncs nd :
  obs_matches (spec_segs_node m sds syncs nd) (enc_slo (spec_node m sds syncs nd)).
Proof.
  destruct nd as [n|]; simpl.
  - rewrite flat_map_map.
    induction (combine (seq 0 (length sds)) sds) as [|isd l IH]; simpl.
    + exists []. split; [constructor|reflexivity].
    + apply (obs_matches_app [_] _ (enc _)); [|exact IH].
      eexists [_]. split; [constructor; [|constructor]|simpl; rewrite app_nil_r; reflexivity].
      simpl. left. reflexivity.
  - exists [no_slo]. split; [|reflexivity]. constructor; [|constructor]. left. reflexivity.
Qed.

Lemma spec_segs_matches m i : obs_matches (spec_segs m i) (enc_obs (spec_run m i)).
Proof.
  unfold spec_segs, enc_obs, spec_run. rewrite flat_map_map.
  apply obs_matches_flat_map. intros k _.
  unfold spec_segs_at, spec_observe. rewrite flat_map_map.
  apply obs_matches_flat_map. intros nd _. apply spec_segs_node_matches.
Qed.

Lemma spec_segs_nonzero m i : Forall (fun s : seg => fst s <> 0) (spec_segs m i).
Proof.
  apply Forall_forall. intros [cl e] Hin. unfold spec_segs in Hin.
  apply in_flat_map in Hin. destruct Hin as (k & _ & Hin). unfold spec_segs_at in Hin.
  apply in_flat_map in Hin. destruct Hin as ([n|] & _ & Hin); simpl in Hin.
  - apply in_map_iff in Hin. destruct Hin as ([j sd] & Heq & _). inversion Heq; subst. simpl.
    destruct (bw_unreadable sd n); [discriminate|].
    unfold clause_of. destruct (sec_in j _); discriminate.
  - destruct Hin as [Heq|[]]. inversion Heq. simpl. discriminate.
Qed.

Theorem prop_code_spec i obs : prop_code i obs = 0 <-> C20_holds i obs.
Proof.
  unfold prop_code, C20_holds. destruct (in_scope i).
  - rewrite (check_segs_spec _ obs (spec_segs_nonzero ideal i)). split; auto.
  - split; [discriminate|reflexivity].
Qed.

(* ---------- when the two departures cannot show, the code as it is = the property read literally ---------- *)
Lemma present_overlay am d c : present d = true -> present (overlay am d c) = true.
Proof.
  destruct d as [r o|[ofs|]|os|okv]; simpl; intros H; try discriminate.
  - destruct c as [r' [v|]| | |]; reflexivity.
  - destruct c as [|[nfs|]| |]; reflexivity.
  - destruct c as [| |ns|]; try reflexivity. destruct (is_nil ns); [reflexivity|]. destruct am; reflexivity.
  - destruct c; reflexivity.
Qed.

Lemma overlay_not_mentioned am ss cl n :
  conforms (SObj ss) cl = true -> present cl = true -> conforms (SObj ss) n = true ->
  mentions n = false -> overlay am cl n = cl.
Proof.
  intros Hcl Hp Hn Hm.
  destruct n as [|[nfs|]| |]; simpl in Hn; try discriminate; [|apply overlay_absent].
  destruct cl as [|[l|]| |]; simpl in Hcl, Hp; try discriminate.
  simpl. f_equal. f_equal. apply zip_merge_neutral; [|exact Hm].
  apply forall2b_length in Hcl. apply forall2b_length in Hn. congruence.
Qed.

Theorem layered_clean ss d c n :
  conforms (SObj ss) d = true -> present d = true ->
  conforms (SObj ss) c = true -> conforms (SObj ss) n = true ->
  clean_layers d c n = true ->
  layered faithful d c n = layered ideal d c n.
Proof.
  intros Hd Hp Hc Hn Hcl. unfold clean_layers in Hcl.
  apply andb_true_iff in Hcl. destruct Hcl as [Hcl Hd2].
  apply andb_true_iff in Hcl. destruct Hcl as [Hcl Hd1].
  apply andb_true_iff in Hcl. destruct Hcl as [Hrc Hrn].
  unfold layered, faithful, ideal, prep, prep_entry. simpl.
  rewrite (norm_reqfull c Hrc). rewrite (overlay_arr_disjoint d c Hd1).
  set (cl := overlay false d c) in *.
  assert (conforms (SObj ss) cl = true) as Hccl by (apply conforms_overlay; assumption).
  assert (present cl = true) as Hpcl by (apply present_overlay; assumption).
  destruct (mentions n) eqn:Em.
  - simpl in Hrn. rewrite (norm_reqfull n Hrn). apply overlay_arr_disjoint. assumption.
  - rewrite overlay_absent. symmetry. eapply overlay_not_mentioned; eauto.
Qed.

Lemma first_match_In ls : forall es e, first_match ls es = Some e -> In e es.
Proof.
  induction es as [|x es IH]; simpl; intros e H; [discriminate|].
  destruct (selects ls (e_sel x)); [inversion H; auto|auto].
Qed.

Lemma spec_effective_clean s sd ls x :
  wf_secdef s sd = true -> wf_section s x = true -> clean_section sd x = true ->
  spec_effective faithful ls sd x = spec_effective ideal ls sd x.
Proof.
  intros Hsd Hwf Hcl. destruct x as [| |c es]; try reflexivity.
  simpl. destruct (sd_merge sd) eqn:Em; [|reflexivity].
  unfold wf_secdef in Hsd. rewrite Em in Hsd. simpl in Hsd.
  apply andb_true_iff in Hsd. destruct Hsd as [Hsd _].
  apply andb_true_iff in Hsd. destruct Hsd as [Hcd Hsd].
  apply andb_true_iff in Hsd. destruct Hsd as [Hpd Hso].
  destruct s as [|ss| |]; try discriminate.
  unfold wf_section in Hwf. apply andb_true_iff in Hwf. destruct Hwf as [Hcc Hces].
  unfold clean_section in Hcl. rewrite Em in Hcl. cbn [negb orb] in Hcl.
  apply andb_true_iff in Hcl. destruct Hcl as [Hcl0 Hcles].
  unfold node_layer. destruct (first_match ls es) as [e|] eqn:Ef.
  - apply first_match_In in Ef. rewrite forallb_forall in Hces, Hcles.
    apply (layered_clean ss); auto.
  - apply (layered_clean ss); auto.
Qed.

(* plumbing: which section texts can be in force *)
Lemma last_good_cases i : forall syncs,
  last_good i syncs = SAbsent \/ exists oc, In oc syncs /\ last_good i syncs = sec_in i oc.
Proof.
  induction syncs as [|oc pre IH] using rev_ind; [left; reflexivity|].
  rewrite last_good_snoc. destruct (sec_in i oc) eqn:E.
  - left. reflexivity.
  - destruct IH as [IH|(oc' & Hin & IH)]; [left; assumption|].
    right. exists oc'. split; [apply in_or_app; left; assumption|assumption].
  - right. exists oc. split; [apply in_or_app; right; left; reflexivity|]. symmetry. assumption.
Qed.

(* a ConfigMap carried by an operation *)
Definition op_cmap (o : op) : option cmap :=
  match o with
  | OSync c | OSame c | OAvail (Some c) => Some c
  | _ => None
  end.

Lemma inf_after_cases inf o : inf_after inf o = inf \/ inf_after inf o = None \/ inf_after inf o = op_cmap o.
Proof. destruct o as [c|c| | |[c|]| | | | |]; simpl; auto. Qed.

Lemma eff_syncs_In : forall ops a inf oc,
  In oc (eff_syncs a inf ops) ->
  oc = None \/ oc = inf \/ exists o, In o ops /\ oc = op_cmap o.
Proof.
  induction ops as [|o ops IH]; intros a inf oc H; [contradiction|].
  cbn [eff_syncs] in H. apply in_app_or in H. destruct H as [H|H].
  - assert (oc = None \/ oc = inf_after inf o) as [->| ->]; [|auto|].
    { destruct o as [c|c| | |oc'| | | | |]; destruct a; simpl in H;
        solve [contradiction | destruct H as [H|H]; [auto|contradiction]
              | destruct H as [H|[H|H]]; [auto|auto|contradiction]]. }
    destruct (inf_after_cases inf o) as [E|[E|E]]; rewrite E; auto.
    right. right. exists o. split; [left; reflexivity|reflexivity].
  - destruct (IH _ _ _ H) as [->|[->|(o' & Ho' & ->)]]; auto.
    + destruct (inf_after_cases inf o) as [E|[E|E]]; rewrite E; auto.
      right. right. exists o. split; [left; reflexivity|reflexivity].
    + right. right. exists o'. split; [right; assumption|reflexivity].
Qed.

Lemma forallb_combine_seq {A} (f : nat * A -> bool) : forall (l : list A) k,
  forallb f (combine (seq k (length l)) l) = true ->
  forall i x, nth_error l i = Some x -> f ((k + i)%nat, x) = true.
Proof.
  induction l as [|y l IH]; intros k H i x Hx; [destruct i; discriminate|].
  simpl in H. apply andb_true_iff in H. destruct H as [H0 H].
  destruct i as [|i]; simpl in Hx.
  - inversion Hx; subst. rewrite Nat.add_0_r. assumption.
  - replace (k + S i)%nat with (S k + i)%nat by lia. apply IH; assumption.
Qed.

Lemma in_combine_seq {A} : forall (l : list A) k i x,
  In (i, x) (combine (seq k (length l)) l) -> exists j, i = (k + j)%nat /\ nth_error l j = Some x.
Proof.
  induction l as [|y l IH]; intros k i x H; simpl in H; [contradiction|].
  destruct H as [H|H].
  - inversion H; subst. exists 0%nat. split; [lia|reflexivity].
  - destruct (IH _ _ _ H) as (j & -> & Hj). exists (S j). split; [lia|assumption].
Qed.

Lemma forallb_firstn {A} (f : A -> bool) : forall k l,
  forallb f l = true -> forallb f (firstn k l) = true.
Proof.
  induction k; destruct l; simpl; intros H; auto.
  apply andb_true_iff in H. destruct H as [H1 H]. rewrite H1. simpl. auto.
Qed.

Lemma spec_observe_clean ss sds nodes ops :
  forall2b wf_secdef ss sds = true ->
  forallb (wf_op ss) ops = true -> forallb (clean_op sds) ops = true ->
  spec_observe faithful sds nodes ops = spec_observe ideal sds nodes ops.
Proof.
  intros Hsds Hwf Hcl. unfold spec_observe.
  apply map_ext. intros [nd|]; [|reflexivity]. simpl. f_equal.
  apply map_ext_in. intros [i sd] Hin. simpl.
  apply in_combine_seq in Hin. destruct Hin as (j & -> & Hj). simpl.
  pose proof (forall2b_length _ _ _ Hsds) as Hlen.
  destruct (nth_error_same_length sds ss _ _ (eq_sym Hlen) Hj) as [s Hs].
  pose proof (forall2b_nth _ _ _ _ _ _ Hsds Hs Hj) as Hsd.
  unfold spec_effective_n. f_equal.
  apply (spec_effective_clean s); [assumption| |].
  - destruct (last_good_cases j (eff_syncs false None ops)) as [->|(oc & Hin & ->)]; [reflexivity|].
    destruct (eff_syncs_In _ _ _ _ Hin) as [->|[->|(o & Ho & ->)]]; try reflexivity.
    rewrite forallb_forall in Hwf. specialize (Hwf _ Ho).
    destruct o as [c|c| | |[c|]| |i0 nd0|i0|i0|i0]; try reflexivity; simpl in *;
      exact (forallb_combine_seq _ ss 0 Hwf j s Hs).
  - destruct (last_good_cases j (eff_syncs false None ops)) as [->|(oc & Hin & ->)]; [reflexivity|].
    destruct (eff_syncs_In _ _ _ _ Hin) as [->|[->|(o & Ho & ->)]]; try reflexivity.
    rewrite forallb_forall in Hcl. specialize (Hcl _ Ho).
    destruct o as [c|c| | |[c|]| |i0 nd0|i0|i0|i0]; try reflexivity; simpl in *;
      exact (forallb_combine_seq _ sds 0 Hcl j sd Hj).
Qed.

Theorem spec_run_clean ss i :
  wf_input ss i = true -> clean_input i = true -> spec_run faithful i = spec_run ideal i.
Proof.
  intros Hwf Hcl. unfold wf_input in Hwf. apply andb_true_iff in Hwf. destruct Hwf as [Hsds Hops].
  unfold spec_run. apply map_ext. intros k.
  apply (spec_observe_clean ss); auto using forallb_firstn.
Qed.

(* MAIN: on every well-formed history of events that avoids the two departures, what the
   model of the code delivers to every node after every event satisfies the property. *)
Theorem model_meets_spec ss i :
  wf_input ss i = true -> clean_input i = true ->
  prop_code i (enc_obs (run faithful i)) = 0.
Proof.
  intros Hwf Hcl. apply prop_code_spec. unfold C20_holds. intros Hs.
  rewrite run_refines_spec, (spec_run_clean ss) by assumption. apply spec_segs_matches.
Qed.

(* the same model with the two departures switched off (= the code after the proposed patches,
   findings/C20-*.md) satisfies the property on EVERY history, no side condition *)
Theorem ideal_model_meets_spec i : prop_code i (enc_obs (run ideal i)) = 0.
Proof.
  apply prop_code_spec. unfold C20_holds. intros Hs. rewrite run_refines_spec by assumption.
  apply spec_segs_matches.
Qed.

(* and in every case (clean or not) the model is one of the four semantics [finding_code] knows *)
Theorem model_explained i :
  prop_code i (enc_obs (run faithful i)) = 0 \/ finding_code i (enc_obs (run faithful i)) <> 0.
Proof.
  destruct (in_scope i) eqn:Hs; [|left; unfold prop_code; rewrite Hs; reflexivity].
  rewrite run_refines_spec by assumption. unfold finding_code.
  destruct (prop_code i (enc_obs (spec_run faithful i)) =? 0) eqn:E0.
  - left. apply Z.eqb_eq. exact E0.
  - right.
    replace (eq_listZ (enc_obs (spec_run faithful i)) (enc_obs (spec_run faithful i))) with true
      by (symmetry; apply eq_listZ_spec; reflexivity).
    cbn [negb].
    destruct (eq_listZ _ (enc_obs (spec_run (mkMode true false) i))); [discriminate|].
    destruct (eq_listZ _ (enc_obs (spec_run (mkMode false true) i))); discriminate.
Qed.

(* a non-zero signature is only ever given to an observable that is the faithful model's own
   and that violates the property *)
Theorem finding_code_requires_model i obs :
  finding_code i obs <> 0 -> obs = enc_obs (run faithful i) /\ prop_code i obs <> 0.
Proof.
  unfold finding_code.
  destruct (prop_code i obs =? 0) eqn:E0; [congruence|].
  apply Z.eqb_neq in E0.
  assert (in_scope i = true) as Hs
    by (destruct (in_scope i) eqn:E; [reflexivity|unfold prop_code in E0; rewrite E in E0; congruence]).
  rewrite run_refines_spec by assumption.
  destruct (eq_listZ obs (enc_obs (spec_run faithful i))) eqn:E; [|simpl; congruence].
  intros _. split; [apply eq_listZ_spec; exact E|exact E0].
Qed.

(* ---------- the specification, field by field ---------- *)
(* read literally: every scalar and every list-valued field of what the node gets is the value of
   the most specific layer that sets it — first matching entry, else cluster, else default *)
Theorem ideal_layered_fields s d c n :
  conforms s d = true -> conforms s c = true -> conforms s n = true ->
  layered_fields (layered ideal d c n) n c d.
Proof.
  intros Hd Hc Hn. unfold layered_fields, layered, ideal, prep, prep_entry.
  cbn [m_reqnorm m_arrmerge]. split; intros p.
  - rewrite first_some3.
    rewrite (lookup_overlay false _ s) by (auto using conforms_overlay).
    rewrite (lookup_overlay false _ s) by assumption. reflexivity.
  - rewrite first_some3.
    rewrite (lookup_arr_overlay _ s) by (auto using conforms_overlay).
    rewrite (lookup_arr_overlay _ s) by assumption. reflexivity.
Qed.

Lemma lookup_not_emitting p f : emits f = false -> lookup p f = None.
Proof.
  destruct f as [r [v|]|[fs|]|xs|kvs]; simpl; intros H; try discriminate.
  - destruct p as [|i [|j p]]; reflexivity.
  - apply lookup_objnone.
  - destruct p as [|i [|j p]]; reflexivity.
  - destruct kvs; [|discriminate]. destruct p as [|i [|j p]]; reflexivity.
Qed.

(* the code as it is: scalar fields are layered at every path, except where an upper layer
   that is present omits an always-marshalled scalar ([req_gap]) *)
Theorem faithful_scalar_layering ss d c n p :
  conforms (SObj ss) d = true -> conforms (SObj ss) c = true -> conforms (SObj ss) n = true ->
  req_gap p c = false -> (mentions n = true -> req_gap p n = false) ->
  lookup p (layered faithful d c n) = first_some [lookup p n; lookup p c; lookup p d].
Proof.
  intros Hd Hc Hn Hgc Hgn. unfold layered, faithful, prep, prep_entry.
  cbn [m_reqnorm m_arrmerge].
  rewrite first_some3.
  assert (conforms (SObj ss) (if mentions n then norm n else Obj None) = true) as Hn'
    by (destruct (mentions n); [apply conforms_norm; assumption|reflexivity]).
  rewrite (lookup_overlay true _ (SObj ss)) by (auto using conforms_overlay, conforms_norm).
  rewrite (lookup_overlay true _ (SObj ss)) by (auto using conforms_norm).
  rewrite lookup_norm, Hgc. f_equal.
  destruct (mentions n) eqn:Em.
  - rewrite lookup_norm, (Hgn eq_refl). reflexivity.
  - rewrite lookup_objnone. symmetry.
    destruct n as [|[nfs|]| |]; simpl in Hn; try discriminate; [|apply lookup_objnone].
    destruct p as [|i p]; [reflexivity|]. rewrite lookup_cons_obj.
    destruct (nth_error nfs (Z.to_nat i)) as [f|] eqn:Ef; [|reflexivity].
    apply lookup_not_emitting. simpl in Em.
    destruct (emits f) eqn:Ee; [|reflexivity].
    assert (existsb emits nfs = true) as X; [|congruence].
    apply existsb_exists. exists f. split; [eapply nth_error_In; eauto|assumption].
Qed.
