(* C20 — extraction of the entry points defined in Codec.v for the generic OCaml driver. *)
From Verif Require Import C20.Codec.
Require Extraction.
Require Import ExtrOcamlBasic.
Extraction "model.ml" run_case prop_case nontrivial_case finding_sig.
