(* C20 — the parts of the delivery path around the layering proper: the framing of a section text
   (one JSON value, white space only around it), the node's own bandwidth annotation (a fourth,
   node-local layer over one field; an unreadable annotation withholds that one section and nothing
   else), the NodeSLO life cycle, and controller restarts. *)
From Coq Require Import List ZArith Bool Lia.
From Verif Require Import C20.Model C20.Spec C20.Proofs_Overlay C20.Proofs_History.
Import ListNotations.
Open Scope Z_scope.

(* ---------- framing ---------- *)
Theorem parse_frame_value lead trail c es :
  parse_frame lead trail (SValue c es)
  = if forallb is_ws lead && forallb is_ws trail then SValue c es else SMalformed.
Proof. reflexivity. Qed.

Lemma frame_not_ok_exists lead trail :
  frame_ok lead trail = false <-> exists ch, In ch (lead ++ trail) /\ is_ws ch = false.
Proof.
  unfold frame_ok. rewrite <- forallb_app. split.
  - intros H. induction (lead ++ trail) as [|x l IH]; simpl in H; [discriminate|].
    destruct (is_ws x) eqn:E; simpl in H.
    + destruct (IH H) as (ch & Hin & Hc). exists ch. split; [right; assumption|assumption].
    + exists x. split; [left; reflexivity|assumption].
  - intros (ch & Hin & Hc). destruct (forallb is_ws (lead ++ trail)) eqn:E; [|reflexivity].
    rewrite forallb_forall in E. rewrite (E _ Hin) in Hc. discriminate.
Qed.

(* a section whose text has ANY character other than white space before or after its JSON document
   is unparsable: over every history, the previously effective settings of that section stay in
   force for every node *)
Theorem framed_garbage_keeps_old m sds ls ops c i sd lead trail cl es ch :
  nth_error sds i = Some sd ->
  nth i c SAbsent = parse_frame lead trail (SValue cl es) ->
  In ch (lead ++ trail) -> is_ws ch = false ->
  effective ls (nth i (st_secs (run_state m sds (ops ++ [OSync c]))) (default_of sd))
  = effective ls (nth i (st_secs (run_state m sds ops)) (default_of sd)).
Proof.
  intros Hsd Hn Hin Hc. apply history_malformed_keeps_old; [assumption|].
  rewrite Hn. simpl.
  assert (frame_ok lead trail = false) as ->
    by (apply frame_not_ok_exists; exists ch; split; assumption).
  reflexivity.
Qed.

(* white space around the document changes nothing *)
Theorem framed_ws_is_value lead trail c es :
  forallb is_ws lead = true -> forallb is_ws trail = true ->
  parse_frame lead trail (SValue c es) = SValue c es.
Proof. intros H1 H2. simpl. unfold frame_ok. rewrite H1, H2. reflexivity. Qed.

(* ---------- the node's bandwidth annotation ---------- *)
Lemma nth_error_set_nth_same {A} (x : A) : forall l k, (k < length l)%nat -> nth_error (set_nth k x l) k = Some x.
Proof.
  induction l as [|y l IH]; intros k Hk; simpl in Hk; [lia|].
  destruct k as [|k]; simpl; [reflexivity|]. apply IH. lia.
Qed.

Lemma nth_error_set_nth_other {A} (x : A) : forall l k j, j <> k -> nth_error (set_nth k x l) j = nth_error l j.
Proof.
  induction l as [|y l IH]; intros k j Hjk; [destruct k; reflexivity|].
  destruct k as [|k], j as [|j]; simpl; try reflexivity; try lia. apply IH. lia.
Qed.

Lemma lookup_set_field_other k v e i p :
  Z.to_nat i <> k -> lookup (i :: p) (set_field k v e) = lookup (i :: p) e.
Proof.
  intros Hik. destruct e as [r o|[fs|]|xs|kvs]; try reflexivity.
  simpl. rewrite nth_error_set_nth_other by assumption. reflexivity.
Qed.

Lemma lookup_arr_set_field_other k v e i p :
  Z.to_nat i <> k -> lookup_arr (i :: p) (set_field k v e) = lookup_arr (i :: p) e.
Proof.
  intros Hik. destruct e as [r o|[fs|]|xs|kvs]; try reflexivity.
  simpl. rewrite nth_error_set_nth_other by assumption. reflexivity.
Qed.

Lemma lookup_set_field_same k q fs :
  (k < length fs)%nat ->
  lookup [Z.of_nat k] (set_field k (Leaf true (Some q)) (Obj (Some fs))) = Some q.
Proof.
  intros Hk. simpl. rewrite Nat2Z.id, nth_error_set_nth_same by assumption. reflexivity.
Qed.

(* What node [nd] gets for a section, field by field:
   - a section that does not carry the bandwidth, or a node without annotation: the layered value;
   - annotation = quantity q: field k is q, every other field is the layered value;
   - annotation unreadable: the section is withheld (and ONLY this section: first clause). *)
Theorem bandwidth_layer m nd sd s :
  (sd_bw sd = None \/ n_bw nd = BwNone ->
     spec_effective_n m nd sd s = spec_effective m (n_labels nd) sd s)
  /\ (forall k q, sd_bw sd = Some k -> n_bw nd = BwVal q ->
        (forall i p, Z.to_nat i <> k ->
           lookup (i :: p) (spec_effective_n m nd sd s) = lookup (i :: p) (spec_effective m (n_labels nd) sd s)
           /\ lookup_arr (i :: p) (spec_effective_n m nd sd s)
              = lookup_arr (i :: p) (spec_effective m (n_labels nd) sd s))
        /\ (forall fs, spec_effective m (n_labels nd) sd s = Obj (Some fs) -> (k < length fs)%nat ->
              lookup [Z.of_nat k] (spec_effective_n m nd sd s) = Some q))
  /\ (forall k, sd_bw sd = Some k -> n_bw nd = BwBad -> spec_effective_n m nd sd s = Obj None).
Proof.
  unfold spec_effective_n, bw_apply. repeat split.
  - intros [H|H]; rewrite H; [reflexivity|]. destruct (sd_bw sd); reflexivity.
  - rewrite H, H0. apply lookup_set_field_other. assumption.
  - rewrite H, H0. apply lookup_arr_set_field_other. assumption.
  - intros fs Hfs Hk. rewrite H, H0, Hfs. apply lookup_set_field_same. assumption.
  - intros k Hk Hb. rewrite Hk, Hb. reflexivity.
Qed.

(* the annotation of a node is local: over ANY history, what is delivered for a section that does
   not carry the bandwidth does not depend on the annotation of the node (readable or not), and
   what other nodes get does not depend on it at all *)
Theorem annotation_local m sds syncs ls b b' :
  forall j, match nth_error sds j with Some sd => sd_bw sd = None | None => True end ->
  option_map (fun cs => nth_error cs j) (spec_node m sds syncs (Some (mkNode ls b)))
  = option_map (fun cs => nth_error cs j) (spec_node m sds syncs (Some (mkNode ls b'))).
Proof.
  intros j Hj. simpl. f_equal. rewrite !nth_error_map.
  destruct (nth_error (combine (seq 0 (length sds)) sds) j) as [[i sd]|] eqn:E; [|reflexivity].
  simpl. f_equal. unfold spec_effective_n, bw_apply. simpl.
  assert (nth_error sds j = Some sd) as Hsd.
  { clear -E. revert E. generalize 0%nat. revert j.
    induction sds as [|x sds IH]; intros j k E; [destruct j; discriminate|].
    destruct j as [|j]; simpl in *; [congruence|]. eapply IH; eassumption. }
  rewrite Hsd in Hj. rewrite Hj. reflexivity.
Qed.

(* ---------- NodeSLO life cycle ---------- *)
(* after the reconciliation that follows every event: a Node that does not exist has no NodeSLO, a
   Node that exists has exactly the rendered spec — whatever was stored before (nothing, an old
   spec, a spec overwritten or deleted by a third party) *)
Theorem reconcile_lifecycle sds mgs nodes stored :
  reconcile_all sds mgs nodes stored = map (option_map (fun n => render n sds mgs)) nodes.
Proof. apply reconcile_all_id. Qed.

(* ---------- restart ---------- *)
(* a restarted controller has forgotten every earlier ConfigMap: its cache is what a first sync of
   the informer's current content on top of the built-in defaults gives (in particular a section
   that is malformed NOW falls back to the defaults, not to its pre-restart value) *)
Theorem restart_is_fresh m sds ops :
  st_secs (run_state m sds (ops ++ [ORestart]))
  = sync_from m sds (map default_of sds) (st_inf (run_state m sds ops)).
Proof. unfold run_state. rewrite fold_left_app. reflexivity. Qed.

(* ---------- duplicate / resync events ---------- *)
Lemma sync_sec_idem m sd old s : sync_sec m sd (sync_sec m sd old s) s = sync_sec m sd old s.
Proof. destruct s; reflexivity. Qed.

Lemma sync_secs_idem m : forall sds olds c,
  sync_secs m sds (sync_secs m sds olds c) c = sync_secs m sds olds c.
Proof.
  induction sds as [|sd sds IH]; intros olds c; [reflexivity|].
  destruct olds as [|old olds]; [reflexivity|]. simpl. rewrite sync_sec_idem, IH. reflexivity.
Qed.

(* the same ConfigMap delivered again (a duplicate Create, a resync) changes nothing: not the cache,
   and therefore not what any node is delivered *)
Theorem resync_idempotent m sds st c :
  step m sds (step m sds st (OSync c)) (OSync c) = step m sds st (OSync c).
Proof.
  unfold step. cbn [handle]. unfold ensure_avail. cbn [st_avail st_secs st_inf].
  rewrite sync_secs_idem. reflexivity.
Qed.
