(* C20 — statements over the wire format (what the driver runs), the schemas of the real Go types,
   non-vacuity examples and the witnesses of the two departures (the same integer lists are the
   corpus cases corpus/C20/layering/finding*.case, replayed on the real code by bin/check). *)
From Coq Require Import List ZArith Bool Lia.
From Verif Require Import C20.Model C20.Spec C20.Codec C20.Proofs_Main.
Import ListNotations.
Open Scope Z_scope.

Theorem case_meets_spec ss inp :
  wf_input ss (decode inp) = true -> clean_input (decode inp) = true ->
  prop_case inp (run_case inp) = 0.
Proof. intros Hwf Hcl. unfold prop_case, run_case. apply (model_meets_spec ss); assumption. Qed.

Theorem sig_requires_model inp obs :
  finding_sig inp obs <> 0 -> obs = run_case inp /\ prop_case inp obs <> 0.
Proof. unfold finding_sig, run_case, prop_case. apply finding_code_requires_model. Qed.

Theorem case_explained inp :
  prop_case inp (run_case inp) = 0 \/ finding_sig inp (run_case inp) <> 0.
Proof. unfold prop_case, finding_sig, run_case. apply model_explained. Qed.

(* the built-in defaults as the harness reads them from pkg/util/sloconfig (wire prefix of every case) *)
Definition dflt_wire : list Z :=
  [5; 1;-1; 3;19; 1;0; 1;65; 0; 1;-1; 1;70; 0;0;0;0;0;0;0;0;0;0;0; 1;-3; 0;0;
      1;-1; 3;6; 2;2;2;2;2;2;
      1;-1; 3;5; 1;-5; 1;1000; 1;300; 1;-1; 1;50;
      1;7; 3;8; 0;0;0;0;0; 5;0; 0; 7;0;
      0;-1; 4;0].

Definition absent5 : list Z := [5; 0;0; 0;0; 0;0; 0;0; 0;0].

(* section [j] of what node [n] has been delivered after one operation *)
Definition sec_of (n j : nat) (o : list slo) : cfg :=
  match nth n o None with Some cs => nth j cs (Obj None) | None => Obj None end.

(* ---------- a clean, non-trivial history: value, then a malformed section, then absent ---------- *)
Definition example_clean : list Z :=
  dflt_wire ++ [2; 1;1;0;0; 0;0;0;  1;1;0;1; 0;0;0] ++ [0; 3;
    (* Create: system-config = cluster {bandwidth 1000}, entry k0=v0 {minFree 200, bandwidth 2000} *)
    0; 5; 0;0; 0;0; 0;0;
          3;0; 0;0; 3;8; 0;0;0;0;0; 5;0; 0; 7;1000;
               1; 1;1; 0;0;1;0; 3;8; 1;200; 0;0;0;0; 5;0; 0; 7;2000;
          0;0;
    (* Update: system-config does not parse *)
    1; 5; 0;0; 0;0; 0;0; 1;0; 0;0;
    (* Update: no section at all *)
    1] ++ absent5.

Example example_clean_ok :
  wf_input koord_schemas (decode example_clean) = true
  /\ clean_input (decode example_clean) = true
  /\ nontrivial_case example_clean = true
  /\ prop_case example_clean (run_case example_clean) = 0.
Proof. vm_compute. auto. Qed.

(* node0 (k0=v0) gets the entry's values over the cluster's, node1 (k0=v1) the cluster's; the
   malformed update changes nothing; the last update gives the defaults *)
Example example_clean_system_values :
  map (map (fun c => (lookup [0] c, lookup [7] c)))
      (map (fun o => [sec_of 0 3 o; sec_of 1 3 o]) (run faithful (decode example_clean)))
  = [ [(Some 200, Some 2000); (None, Some 1000)];
      [(Some 200, Some 2000); (None, Some 1000)];
      [(None, Some 0); (None, Some 0)] ].
Proof. vm_compute. reflexivity. Qed.

(* ---------- a strict (trigger-driven) history with node events, a restart, framing and annotations ----------
   nodes: node0 k0=v0, bandwidth annotation 5000; node1 k0=v1, annotation unreadable
   ops:   start; Create cpu-burst {cluster percent 700; entry k0=v0 {percent 900}};
          Update cpu-burst = another document followed by a stray "}" (unparsable: keeps the old one);
          node1 relabelled k0=v0; NodeSLO 0 overwritten by a third party; restart *)
Definition burst (v : Z) : list Z := [3;5; 0; 1;v; 0;0;0].
Definition example_events : list Z :=
  dflt_wire ++ [2; 1;1;0;0; 1;5000;1;  1;1;0;1; 2;0;0] ++ [1; 6;
    7;
    0; 5; 0;0; 0;0; 3;0; 0;0] ++ burst 700 ++ [1; 1;1; 0;0;1;0] ++ burst 900 ++ [0;0; 0;0;
    1; 5; 0;0; 0;0; 3;0; 0; 2;1;4] ++ burst 100 ++ [0; 0;0; 0;0;
    8; 1; 1;1;0;0; 2;0;0;
    11; 0; 3;
    7].

Example example_events_ok :
  wf_input koord_schemas (decode example_events) = true
  /\ clean_input (decode example_events) = true
  /\ in_strict (decode example_events) = true /\ wf_strict (decode example_events) = true
  /\ nontrivial_case example_events = true
  /\ prop_case example_events (run_case example_events) = 0
  /\ (* cpuBurstPercent of node0 / node1 after every event: the stray brace keeps 900/700; the relabelled
        node1 moves to 900; the overwritten NodeSLO is repaired; the restart re-reads the (unparsable)
        section and falls back to the default 1000 *)
     map (fun o => (lookup [1] (sec_of 0 2 o), lookup [1] (sec_of 1 2 o))) (run faithful (decode example_events))
     = [(Some 1000, Some 1000); (Some 900, Some 700); (Some 900, Some 700); (Some 900, Some 900);
        (Some 900, Some 900); (Some 1000, Some 1000)]
  /\ (* system section: node0 gets its annotation's 5000 as bandwidth, node1's section is withheld *)
     map (fun o => (lookup [7] (sec_of 0 3 o), sec_of 1 3 o)) (run faithful (decode example_events))
     = repeat (Some 5000, Obj None) 6.
Proof. vm_compute. repeat split; reflexivity. Qed.

(* ---------- departure 1: an always-marshalled scalar is reset by a layer that omits it ---------- *)
Definition witness_bandwidth : list Z :=
  dflt_wire ++ [1; 1;1;0;0; 0;0;0] ++ [0; 1;
    0; 5; 0;0; 0;0; 0;0;
          3;0; 0;0; 3;8; 0;0;0;0;0; 5;0; 0; 7;1000;
               1; 1;0; 3;8; 1;200; 0;0;0;0; 5;0; 0; 6;
          0;0].

Theorem bandwidth_reset_refuted :
  wf_input koord_schemas (decode witness_bandwidth) = true
  /\ prop_case witness_bandwidth (run_case witness_bandwidth) = 1
  /\ finding_sig witness_bandwidth (run_case witness_bandwidth) = 1
  /\ map (lookup [7]) (map (sec_of 0 3) (run faithful (decode witness_bandwidth))) = [Some 0]
  /\ map (lookup [7]) (map (sec_of 0 3) (spec_run ideal (decode witness_bandwidth))) = [Some 1000].
Proof. vm_compute. auto. Qed.

(* ---------- departure 2: a list set by the upper layer is decoded into the lower layer's list ---------- *)
Definition io_cfg (i : nat) (v : Z) : list Z :=
  [3; 16] ++ concat (repeat [0] i) ++ [1; v] ++ concat (repeat [0] (15 - i)).
Definition qos_with_block (b : list Z) : list Z :=
  [3;6; 2;2;2] ++ ([3;5; 2;2] ++ ([3;2; 0] ++ ([4;1] ++ b)) ++ [2;2]) ++ [2;2].
Definition witness_blocks : list Z :=
  dflt_wire ++ [1; 1;1;0;0; 0;0;0] ++ [0; 1;
    0; 5; 0;0;
          3;0; 0;0] ++ qos_with_block ([3;3; 1;1; 1;-13] ++ io_cfg 0 100) ++ [
               1; 1;0] ++ qos_with_block ([3;3; 1;2; 0] ++ io_cfg 1 5) ++ [
          0;0; 0;0; 0;0].

(* path of beClass.blkioQOS.blocks *)
Definition blocks_of (c : cfg) : option (list cfg) := lookup_arr [3; 2; 1] c.

Theorem blocks_merge_refuted :
  wf_input koord_schemas (decode witness_blocks) = true
  /\ prop_case witness_blocks (run_case witness_blocks) = 1
  /\ finding_sig witness_blocks (run_case witness_blocks) = 2
  /\ (* the node's block is named s2 as the entry says, but carries type=device and readIOPS=100 of the cluster's block s1 *)
     map (fun o => option_map (map (fun b => (lookup [0] b, lookup [1] b, lookup [2;0] b, lookup [2;1] b)))
                              (blocks_of (sec_of 0 1 o)))
         (run faithful (decode witness_blocks))
     = [Some [(Some 2, Some (-13), Some 100, Some 5)]]
  /\ map (fun o => option_map (map (fun b => (lookup [0] b, lookup [1] b, lookup [2;0] b, lookup [2;1] b)))
                              (blocks_of (sec_of 0 1 o)))
         (spec_run ideal (decode witness_blocks))
     = [Some [(Some 2, None, None, Some 5)]].
Proof. vm_compute. auto. Qed.
