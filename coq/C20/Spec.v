(* C20 — the property as Props over (input history, observable) and its decision procedure.

   The specification is FROM SCRATCH: what a node must get after a history of ConfigMap events is
   computed from the history alone (no cache): find the latest applied event whose text for the
   section parsed (or in which the section is absent), then layer
        built-in default  <  cluster strategy  <  first node entry whose selector matches,
   field by field ([layered]). [ideal] mode is the property statement read literally: a layer
   "sets" a scalar iff the text contains it, and a list set by a layer is that layer's list. *)
From Coq Require Import List ZArith Bool.
From Verif Require Import C20.Model.
Import ListNotations.
Open Scope Z_scope.

(* ---------- field-wise reading of a tree ---------- *)
(* value of the scalar at path [p] (field positions / map keys); None = not set *)
Fixpoint lookup (p : list Z) (c : cfg) {struct p} : option Z :=
  match p, c with
  | [], Leaf _ o => o
  | i :: p', Obj (Some fs) =>
      match nth_error fs (Z.to_nat i) with Some f => lookup p' f | None => None end
  | [k], Map kvs => label_get k kvs
  | _, _ => None
  end.

(* value of the list-valued field at path [p]; None = not set (empty lists are not marshalled) *)
Fixpoint lookup_arr (p : list Z) (c : cfg) {struct p} : option (list cfg) :=
  match p, c with
  | [], Arr xs => if is_nil xs then None else Some xs
  | i :: p', Obj (Some fs) =>
      match nth_error fs (Z.to_nat i) with Some f => lookup_arr p' f | None => None end
  | _, _ => None
  end.

(* the value of the first layer (most specific first) that sets the field *)
Fixpoint first_some {A} (l : list (option A)) : option A :=
  match l with
  | [] => None
  | Some x :: _ => Some x
  | None :: t => first_some t
  end.

(* "eff is node < cluster < default, field by field" *)
Definition layered_fields (eff node cluster dflt : cfg) : Prop :=
  (forall p, lookup p eff = first_some [lookup p node; lookup p cluster; lookup p dflt])
  /\ (forall p, lookup_arr p eff
                = first_some [lookup_arr p node; lookup_arr p cluster; lookup_arr p dflt]).

(* all values of one Go type have the same schema *)
Inductive sch := SLeaf | SObj (fs : list sch) | SArr (e : sch) | SMap.

Definition forall2b {A B} (f : A -> B -> bool) : list A -> list B -> bool :=
  fix go (xs : list A) (ys : list B) {struct xs} : bool :=
    match xs, ys with
    | [], [] => true
    | x :: xs', y :: ys' => f x y && go xs' ys'
    | _, _ => false
    end.

(* map keys strictly ascending *)
Fixpoint sorted_keys (m : list (Z * Z)) : bool :=
  match m with
  | [] => true
  | (k, _) :: t => forallb (fun kv => k <? fst kv) t && sorted_keys t
  end.

Fixpoint conforms (s : sch) (c : cfg) {struct s} : bool :=
  match s, c with
  | SLeaf, Leaf _ _ => true
  | SObj _, Obj None => true
  | SObj ss, Obj (Some fs) => forall2b conforms ss fs
  | SArr e, Arr xs => forallb (conforms e) xs
  | SMap, Map kvs => sorted_keys kvs
  | _, _ => false
  end.

(* ---------- from-scratch specification of the history ---------- *)
(* the syncs that are actually applied, in order (None = "ConfigMap not found"): every Create /
   changed Update syncs its ConfigMap; as long as the cache was never synced, the first
   IsCfgAvailable() (explicit, or at the start of the reconciliation that follows every event)
   syncs whatever the informer cache holds at that moment *)
Fixpoint eff_syncs (avail : bool) (inf : option cmap) (ops : list op) : list (option cmap) :=
  match ops with
  | [] => []
  | o :: t =>
      let inf' := inf_after inf o in
      (match o with
       | OSync c => [Some c]
       | _ => if avail then [] else [inf']
       end) ++ eff_syncs true inf' t
  end.

Definition sec_in (i : nat) (oc : option cmap) : section_in :=
  match oc with Some c => nth i c SAbsent | None => SAbsent end.

(* the section text in force: the latest applied one that is not malformed *)
Definition last_good (i : nat) (syncs : list (option cmap)) : section_in :=
  fold_left (fun acc oc => match sec_in i oc with SMalformed => acc | s => s end) syncs SAbsent.

(* the node-specific layer: the FIRST entry whose selector matches, nothing otherwise *)
Definition node_layer (ls : labels) (es : list entry) : cfg :=
  match first_match ls es with Some e => e_strat e | None => Obj None end.

Definition layered (m : mode) (d c n : cfg) : cfg :=
  overlay (m_arrmerge m) (overlay (m_arrmerge m) d (prep m c)) (prep_entry m n).

Definition spec_effective (m : mode) (ls : labels) (sd : secdef) (s : section_in) : cfg :=
  match s with
  | SValue c es =>
      if sd_merge sd then layered m (sd_default sd) c (node_layer ls es)
      else match first_match ls es with Some e => e_strat e | None => c end
  | _ => sd_default sd
  end.

Definition spec_observe (m : mode) (sds : list secdef) (nodes : list labels) (ops : list op)
  : list cfg :=
  let syncs := eff_syncs false None ops in
  flat_map (fun ls =>
    map (fun isd => spec_effective m ls (snd isd) (last_good (fst isd) syncs))
        (combine (seq 0 (length sds)) sds)) nodes.

(* after every operation: the spec applied to the prefix of the history *)
Definition spec_run (m : mode) (i : input) : list (list cfg) :=
  map (fun k => spec_observe m (in_secs i) (in_nodes i) (firstn k (in_ops i)))
      (seq 1 (length (in_ops i))).

(* ---------- the property ---------- *)
Definition C20_holds (i : input) (obs : list Z) : Prop :=
  obs = enc_obs (spec_run ideal i).

(* ---------- decision procedure ----------
   clause 1: a well-formed section is not layered default < cluster < first matching entry
   clause 2: an absent section (or a missing ConfigMap) does not give the defaults
   clause 3: a malformed section does not keep the previously effective settings
   clause 9: observable has trailing garbage *)
Fixpoint eq_listZ (a b : list Z) : bool :=
  match a, b with
  | [], [] => true
  | x :: a', y :: b' => (x =? y) && eq_listZ a' b'
  | _, _ => false
  end.

Fixpoint check_segs (segs : list (Z * list Z)) (obs : list Z) : Z :=
  match segs with
  | [] => if is_nil obs then 0 else 9
  | (cl, e) :: t =>
      if eq_listZ (firstn (length e) obs) e then check_segs t (skipn (length e) obs) else cl
  end.

Definition clause_of (i : nat) (syncs : list (option cmap)) : Z :=
  match sec_in i (last syncs None) with
  | SValue _ _ => 1
  | SAbsent => 2
  | SMalformed => 3
  end.

Definition spec_segs_at (m : mode) (sds : list secdef) (nodes : list labels) (ops : list op)
  : list (Z * list Z) :=
  let syncs := eff_syncs false None ops in
  flat_map (fun ls =>
    map (fun isd => (clause_of (fst isd) syncs,
                     enc (spec_effective m ls (snd isd) (last_good (fst isd) syncs))))
        (combine (seq 0 (length sds)) sds)) nodes.

Definition spec_segs (m : mode) (i : input) : list (Z * list Z) :=
  flat_map (fun k => spec_segs_at m (in_secs i) (in_nodes i) (firstn k (in_ops i)))
           (seq 1 (length (in_ops i))).

Definition prop_code (i : input) (obs : list Z) : Z := check_segs (spec_segs ideal i) obs.

(* Which known departure (if any) explains a failing observable: a non-zero signature is returned
   ONLY IF the WHOLE observable equals the faithful model's observable (so nothing else can hide
   behind a recorded shape); the number then says which departure(s) that model output shows:
   1 = always-marshalled scalar reset by a layer that omits it; 2 = list merged element-wise;
   3 = both. 0 = the observable is fine, or it is not what the faithful model gives. *)
Definition finding_code (i : input) (obs : list Z) : Z :=
  let f := enc_obs (spec_run faithful i) in
  if eq_listZ obs (enc_obs (spec_run ideal i)) then 0
  else if negb (eq_listZ obs f) then 0
  else if eq_listZ f (enc_obs (spec_run (mkMode true false) i)) then 1
  else if eq_listZ f (enc_obs (spec_run (mkMode false true) i)) then 2
  else 3.

(* ---------- inputs on which the two known departures cannot show ---------- *)
(* every always-marshalled scalar of a present struct is given in the text *)
Fixpoint reqfull (c : cfg) : bool :=
  match c with
  | Leaf true None => false
  | Leaf _ _ => true
  | Obj None => true
  | Obj (Some fs) => forallb reqfull fs
  | Arr xs => forallb reqfull xs
  | Map _ => true
  end.

(* no list is set in both trees *)
Fixpoint arr_disjoint (a b : cfg) {struct a} : bool :=
  match a, b with
  | Obj (Some ofs), Obj (Some nfs) => forall2b arr_disjoint ofs nfs
  | Arr os, Arr ns => is_nil os || is_nil ns
  | _, _ => true
  end.

Definition clean_layers (d c n : cfg) : bool :=
  reqfull c && (negb (mentions n) || reqfull n) && arr_disjoint d c && arr_disjoint (overlay false d c) n.

Definition clean_section (sd : secdef) (s : section_in) : bool :=
  match s with
  | SValue c es =>
      negb (sd_merge sd)
      || (clean_layers (sd_default sd) c (Obj None)
          && forallb (fun e => clean_layers (sd_default sd) c (e_strat e)) es)
  | _ => true
  end.

Definition clean_cmap (sds : list secdef) (c : cmap) : bool :=
  forallb (fun isd => clean_section (snd isd) (nth (fst isd) c SAbsent))
          (combine (seq 0 (length sds)) sds).

Definition clean_op (sds : list secdef) (o : op) : bool :=
  match o with
  | OSync c | OSame c | OAvail (Some c) => clean_cmap sds c
  | _ => true
  end.

Definition clean_input (i : input) : bool := forallb (clean_op (in_secs i)) (in_ops i).

(* ---------- well-formed inputs: every tree of a section is a value of that section's Go type ---------- *)
Definition present (c : cfg) : bool := match c with Obj None => false | _ => true end.

Definition is_sobj (s : sch) : bool := match s with SObj _ => true | _ => false end.

(* a merged section's strategy type is a struct and its built-in default is not nil *)
Definition wf_secdef (s : sch) (sd : secdef) : bool :=
  conforms s (sd_default sd)
  && (negb (sd_merge sd) || (present (sd_default sd) && is_sobj s)).

Definition wf_section (s : sch) (x : section_in) : bool :=
  match x with
  | SValue c es => conforms s c && forallb (fun e => conforms s (e_strat e)) es
  | _ => true
  end.

Definition wf_cmap (ss : list sch) (c : cmap) : bool :=
  forallb (fun isx => wf_section (snd isx) (nth (fst isx) c SAbsent))
          (combine (seq 0 (length ss)) ss).

Definition wf_op (ss : list sch) (o : op) : bool :=
  match o with
  | OSync c | OSame c | OAvail (Some c) => wf_cmap ss c
  | _ => true
  end.

Definition wf_input (ss : list sch) (i : input) : bool :=
  forall2b wf_secdef ss (in_secs i) && forallb (wf_op ss) (in_ops i).
