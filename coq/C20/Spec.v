(* C20 — the property as Props over (input history, observable) and its decision procedure.

   The specification is FROM SCRATCH: what a node must get after a history of ConfigMap events is
   computed from the history alone (no cache): find the latest applied event whose text for the
   section parsed (or in which the section is absent), then layer
        built-in default  <  cluster strategy  <  first node entry whose selector matches,
   field by field ([layered]). [ideal] mode is the property statement read literally: a layer
   "sets" a scalar iff the text contains it, and a list set by a layer is that layer's list. *)
From Coq Require Import List ZArith Bool.
From Verif Require Import C20.Model.
Import ListNotations.
Open Scope Z_scope.

(* ---------- field-wise reading of a tree ---------- *)
(* value of the scalar at path [p] (field positions / map keys); None = not set *)
Fixpoint lookup (p : list Z) (c : cfg) {struct p} : option Z :=
  match p, c with
  | [], Leaf _ o => o
  | i :: p', Obj (Some fs) =>
      match nth_error fs (Z.to_nat i) with Some f => lookup p' f | None => None end
  | [k], Map kvs => label_get k kvs
  | _, _ => None
  end.

(* value of the list-valued field at path [p]; None = not set (empty lists are not marshalled) *)
Fixpoint lookup_arr (p : list Z) (c : cfg) {struct p} : option (list cfg) :=
  match p, c with
  | [], Arr xs => if is_nil xs then None else Some xs
  | i :: p', Obj (Some fs) =>
      match nth_error fs (Z.to_nat i) with Some f => lookup_arr p' f | None => None end
  | _, _ => None
  end.

(* the value of the first layer (most specific first) that sets the field *)
Fixpoint first_some {A} (l : list (option A)) : option A :=
  match l with
  | [] => None
  | Some x :: _ => Some x
  | None :: t => first_some t
  end.

(* "eff is node < cluster < default, field by field" *)
Definition layered_fields (eff node cluster dflt : cfg) : Prop :=
  (forall p, lookup p eff = first_some [lookup p node; lookup p cluster; lookup p dflt])
  /\ (forall p, lookup_arr p eff
                = first_some [lookup_arr p node; lookup_arr p cluster; lookup_arr p dflt]).

(* all values of one Go type have the same schema *)
Inductive sch := SLeaf | SObj (fs : list sch) | SArr (e : sch) | SMap.

Definition forall2b {A B} (f : A -> B -> bool) : list A -> list B -> bool :=
  fix go (xs : list A) (ys : list B) {struct xs} : bool :=
    match xs, ys with
    | [], [] => true
    | x :: xs', y :: ys' => f x y && go xs' ys'
    | _, _ => false
    end.

(* map keys strictly ascending *)
Fixpoint sorted_keys (m : list (Z * Z)) : bool :=
  match m with
  | [] => true
  | (k, _) :: t => forallb (fun kv => k <? fst kv) t && sorted_keys t
  end.

Fixpoint conforms (s : sch) (c : cfg) {struct s} : bool :=
  match s, c with
  | SLeaf, Leaf _ _ => true
  | SObj _, Obj None => true
  | SObj ss, Obj (Some fs) => forall2b conforms ss fs
  | SArr e, Arr xs => forallb (conforms e) xs
  | SMap, Map kvs => sorted_keys kvs
  | _, _ => false
  end.

(* ---------- from-scratch specification of the history ---------- *)
(* the syncs that are actually applied, in order (None = "ConfigMap not found"): every Create /
   changed Update syncs its ConfigMap; as long as the cache was never synced, the first
   IsCfgAvailable() (explicit, or at the start of the reconciliation that follows every event)
   syncs whatever the informer cache holds at that moment. A restart is a fresh cache: it acts like
   a sync without ConfigMap (everything back to the defaults) followed by the sync of the informer's
   content by the first reconciliation. *)
Fixpoint eff_syncs (avail : bool) (inf : option cmap) (ops : list op) : list (option cmap) :=
  match ops with
  | [] => []
  | o :: t =>
      let inf' := inf_after inf o in
      (match o with
       | OSync c => [Some c]
       | ORestart => [None; inf']
       | _ => if avail then [] else [inf']
       end) ++ eff_syncs true inf' t
  end.

Definition sec_in (i : nat) (oc : option cmap) : section_in :=
  match oc with Some c => nth i c SAbsent | None => SAbsent end.

(* the section text in force: the latest applied one that is not malformed *)
Definition last_good (i : nat) (syncs : list (option cmap)) : section_in :=
  fold_left (fun acc oc => match sec_in i oc with SMalformed => acc | s => s end) syncs SAbsent.

(* the node-specific layer: the FIRST entry whose selector matches, nothing otherwise *)
Definition node_layer (ls : labels) (es : list entry) : cfg :=
  match first_match ls es with Some e => e_strat e | None => Obj None end.

Definition layered (m : mode) (d c n : cfg) : cfg :=
  overlay (m_arrmerge m) (overlay (m_arrmerge m) d (prep m c)) (prep_entry m n).

Definition spec_effective (m : mode) (ls : labels) (sd : secdef) (s : section_in) : cfg :=
  match s with
  | SValue c es =>
      if sd_merge sd then layered m (sd_default sd) c (node_layer ls es)
      else match first_match ls es with Some e => e_strat e | None => c end
  | _ => sd_default sd
  end.

(* what node [nd] gets for a section: the layered value, with the node's own bandwidth annotation
   on top of the one field it owns (a documented fourth, node-local layer) *)
Definition spec_effective_n (m : mode) (nd : node) (sd : secdef) (s : section_in) : cfg :=
  bw_apply sd nd (spec_effective m (n_labels nd) sd s).

(* the Node objects after a history *)
Definition nodes_fold (nodes : list (option node)) (ops : list op) : list (option node) :=
  fold_left nodes_after ops nodes.

Definition spec_node (m : mode) (sds : list secdef) (syncs : list (option cmap)) (nd : option node) : slo :=
  match nd with
  | None => None
  | Some n => Some (map (fun isd => spec_effective_n m n (snd isd) (last_good (fst isd) syncs))
                        (combine (seq 0 (length sds)) sds))
  end.

Definition spec_observe (m : mode) (sds : list secdef) (nodes : list (option node)) (ops : list op)
  : list slo :=
  map (spec_node m sds (eff_syncs false None ops)) (nodes_fold nodes ops).

(* after every operation: the spec applied to the prefix of the history *)
Definition spec_run (m : mode) (i : input) : list (list slo) :=
  map (fun k => spec_observe m (in_secs i) (in_nodes i) (firstn k (in_ops i)))
      (seq 1 (length (in_ops i))).

(* ---------- the property ----------
   The observable is cut into segments: one per (operation, node, section), or one per (operation,
   node) for a Node that does not exist. Every segment has a list of ACCEPTED values:
     - a Node that does not exist has no NodeSLO;
     - a section of an existing node is the layered value with the node's bandwidth on top;
     - for a node whose bandwidth annotation does not parse, the section that carries the bandwidth may
       be withheld (nil) OR be the layered value without the annotation; every other section of that
       node is layered as for any other node. *)
Definition bw_unreadable (sd : secdef) (nd : node) : bool :=
  match sd_bw sd, n_bw nd with Some _, BwBad => true | _, _ => false end.

Definition spec_alts (m : mode) (nd : node) (sd : secdef) (s : section_in) : list cfg :=
  spec_effective_n m nd sd s
  :: (if bw_unreadable sd nd then [spec_effective m (n_labels nd) sd s] else []).

Notation seg := (Z * list (list Z))%type.   (* clause reported on failure, accepted encodings *)

Definition obs_matches (segs : list seg) (obs : list Z) : Prop :=
  exists ch : list (list Z), Forall2 (fun c (s : seg) => In c (snd s)) ch segs /\ obs = concat ch.

(* ---------- decision procedure ----------
   clause 1: a well-formed section is not layered default < cluster < first matching entry
   clause 2: an absent section (or a missing ConfigMap) does not give the defaults
   clause 3: a malformed section does not keep the previously effective settings
   clause 4: the bandwidth-carrying section of a node whose annotation does not parse is neither
             withheld nor layered
   clause 5: a Node that does not exist has a NodeSLO
   clause 9: observable has trailing garbage *)
Fixpoint eq_listZ (a b : list Z) : bool :=
  match a, b with
  | [], [] => true
  | x :: a', y :: b' => (x =? y) && eq_listZ a' b'
  | _, _ => false
  end.

Definition is_prefix (e obs : list Z) : bool := eq_listZ (firstn (length e) obs) e.

Fixpoint check_segs (segs : list seg) (obs : list Z) : Z :=
  match segs with
  | [] => if is_nil obs then 0 else 9
  | (cl, alts) :: t =>
      let rs := map (fun e => if is_prefix e obs then check_segs t (skipn (length e) obs) else cl) alts in
      if existsb (Z.eqb 0) rs then 0 else hd cl rs
  end.

Definition clause_of (i : nat) (syncs : list (option cmap)) : Z :=
  match sec_in i (last syncs None) with
  | SValue _ _ => 1
  | SAbsent => 2
  | SMalformed => 3
  end.

Definition spec_segs_node (m : mode) (sds : list secdef) (syncs : list (option cmap)) (nd : option node)
  : list seg :=
  match nd with
  | None => [(5, [no_slo])]
  | Some n =>
      map (fun isd => (if bw_unreadable (snd isd) n then 4 else clause_of (fst isd) syncs,
                       map enc (spec_alts m n (snd isd) (last_good (fst isd) syncs))))
          (combine (seq 0 (length sds)) sds)
  end.

Definition spec_segs_at (m : mode) (sds : list secdef) (nodes : list (option node)) (ops : list op)
  : list seg :=
  flat_map (spec_segs_node m sds (eff_syncs false None ops)) (nodes_fold nodes ops).

Definition spec_segs (m : mode) (i : input) : list seg :=
  flat_map (fun k => spec_segs_at m (in_secs i) (in_nodes i) (firstn k (in_ops i)))
           (seq 1 (length (in_ops i))).

(* ---------- strict histories: delivery only through what the handlers enqueue ----------
   The property is judged on strict histories that look like production: the history starts with the
   controller start (ORestart: every existing Node is announced), at every (re)start at least one Node
   exists, and no Node update changes the bandwidth annotation alone (EnqueueRequestForNode
   ignores such an update by design; the annotation is outside the property). *)
Definition bw_eqb (a b : bw) : bool :=
  match a, b with
  | BwNone, BwNone => true
  | BwVal x, BwVal y => x =? y
  | BwBad, BwBad => true
  | _, _ => false
  end.

Definition op_loud (nodes : list (option node)) (o : op) : bool :=
  match o with
  | ONode i (Some nd) =>
      match nth i nodes None with
      | Some old => negb (labels_eqb (n_labels old) (n_labels nd)) || bw_eqb (n_bw old) (n_bw nd)
      | None => true
      end
  | ORestart => existsb is_some nodes
  | _ => true
  end.

Fixpoint ops_loud (nodes : list (option node)) (ops : list op) : bool :=
  match ops with
  | [] => true
  | o :: t => op_loud nodes o && ops_loud (nodes_after nodes o) t
  end.

Definition wf_strict (i : input) : bool :=
  match in_ops i with
  | ORestart :: _ => ops_loud (in_nodes i) (in_ops i)
  | _ => false
  end.

(* inside the quantifier of the property *)
Definition in_scope (i : input) : bool := negb (in_strict i) || wf_strict i.

Definition C20_holds (i : input) (obs : list Z) : Prop :=
  in_scope i = true -> obs_matches (spec_segs ideal i) obs.

Definition prop_code (i : input) (obs : list Z) : Z :=
  if in_scope i then check_segs (spec_segs ideal i) obs else 0.

(* Which known departure (if any) explains a failing observable: a non-zero signature is returned
   ONLY IF the WHOLE observable equals the faithful model's observable (so nothing else can hide
   behind a recorded shape); the number then says which departure(s) that model output shows:
   1 = always-marshalled scalar reset by a layer that omits it; 2 = list merged element-wise;
   3 = both. 0 = the observable is fine, or it is not what the faithful model gives. *)
Definition finding_code (i : input) (obs : list Z) : Z :=
  let f := enc_obs (spec_run faithful i) in
  if prop_code i obs =? 0 then 0
  else if negb (eq_listZ obs f) then 0
  else if eq_listZ f (enc_obs (spec_run (mkMode true false) i)) then 1
  else if eq_listZ f (enc_obs (spec_run (mkMode false true) i)) then 2
  else 3.

(* every Node value that occurs in a case: initially or through a node event *)
Definition opt_list {A} (o : option A) : list A := match o with Some x => [x] | None => [] end.

Definition op_nodes (o : op) : list node :=
  match o with ONode _ (Some nd) => [nd] | _ => [] end.

Definition node_values (nodes : list (option node)) (ops : list op) : list node :=
  flat_map opt_list nodes ++ flat_map op_nodes ops.

(* ---------- inputs on which the two known departures cannot show ---------- *)
(* every always-marshalled scalar of a present struct is given in the text *)
Fixpoint reqfull (c : cfg) : bool :=
  match c with
  | Leaf true None => false
  | Leaf _ _ => true
  | Obj None => true
  | Obj (Some fs) => forallb reqfull fs
  | Arr xs => forallb reqfull xs
  | Map _ => true
  end.

(* no list is set in both trees *)
Fixpoint arr_disjoint (a b : cfg) {struct a} : bool :=
  match a, b with
  | Obj (Some ofs), Obj (Some nfs) => forall2b arr_disjoint ofs nfs
  | Arr os, Arr ns => is_nil os || is_nil ns
  | _, _ => true
  end.

Definition clean_layers (d c n : cfg) : bool :=
  reqfull c && (negb (mentions n) || reqfull n) && arr_disjoint d c && arr_disjoint (overlay false d c) n.

Definition clean_section (sd : secdef) (s : section_in) : bool :=
  match s with
  | SValue c es =>
      negb (sd_merge sd)
      || (clean_layers (sd_default sd) c (Obj None)
          && forallb (fun e => clean_layers (sd_default sd) c (e_strat e)) es)
  | _ => true
  end.

Definition clean_cmap (sds : list secdef) (c : cmap) : bool :=
  forallb (fun isd => clean_section (snd isd) (nth (fst isd) c SAbsent))
          (combine (seq 0 (length sds)) sds).

Definition clean_op (sds : list secdef) (o : op) : bool :=
  match o with
  | OSync c | OSame c | OAvail (Some c) => clean_cmap sds c
  | _ => true
  end.

Definition clean_input (i : input) : bool := forallb (clean_op (in_secs i)) (in_ops i).

(* ---------- well-formed inputs: every tree of a section is a value of that section's Go type ---------- *)
Definition present (c : cfg) : bool := match c with Obj None => false | _ => true end.

Definition is_sobj (s : sch) : bool := match s with SObj _ => true | _ => false end.

(* a merged section's strategy type is a struct and its built-in default is not nil *)
Definition is_sleaf (s : sch) : bool := match s with SLeaf => true | _ => false end.

(* the field the node's bandwidth annotation overrides is a scalar of the section's struct *)
Definition wf_bw (s : sch) (sd : secdef) : bool :=
  match sd_bw sd with
  | None => true
  | Some k => match s with
              | SObj ss => match nth_error ss k with Some f => is_sleaf f | None => false end
              | _ => false
              end
  end.

Definition wf_secdef (s : sch) (sd : secdef) : bool :=
  conforms s (sd_default sd)
  && (negb (sd_merge sd) || (present (sd_default sd) && is_sobj s))
  && wf_bw s sd.

Definition wf_section (s : sch) (x : section_in) : bool :=
  match x with
  | SValue c es => conforms s c && forallb (fun e => conforms s (e_strat e)) es
  | _ => true
  end.

Definition wf_cmap (ss : list sch) (c : cmap) : bool :=
  forallb (fun isx => wf_section (snd isx) (nth (fst isx) c SAbsent))
          (combine (seq 0 (length ss)) ss).

Definition wf_op (ss : list sch) (o : op) : bool :=
  match o with
  | OSync c | OSame c | OAvail (Some c) => wf_cmap ss c
  | _ => true
  end.

Definition wf_input (ss : list sch) (i : input) : bool :=
  forall2b wf_secdef ss (in_secs i) && forallb (wf_op ss) (in_ops i).
