(* C20 — the production triggers are complete: driving the history only through what the event
   handlers enqueue delivers, after every event, exactly what reconciling every node after every
   event delivers. *)
From Coq Require Import List ZArith Bool Lia.
From Verif Require Import C20.Model C20.Spec C20.Proofs_Overlay C20.Proofs_History.
Import ListNotations.
Open Scope Z_scope.

(* ---------- soundness of the equality tests ---------- *)
Lemma list_eqb_sound_all {A} (f : A -> A -> bool) :
  (forall x y, f x y = true -> x = y) -> forall xs ys, list_eqb f xs ys = true -> xs = ys.
Proof.
  intros Hf xs ys. apply list_eqb_sound. apply Forall_forall. intros x _. apply Hf.
Qed.

Lemma req_eqb_sound a b : req_eqb a b = true -> a = b.
Proof.
  destruct a as [k o vs], b as [k' o' vs']. unfold req_eqb. simpl. intros H.
  apply andb_true_iff in H. destruct H as [H H3]. apply andb_true_iff in H. destruct H as [H1 H2].
  apply Z.eqb_eq in H1. apply Z.eqb_eq in H2.
  apply (list_eqb_sound_all Z.eqb) in H3; [|intros x y E; apply Z.eqb_eq; exact E]. congruence.
Qed.

Lemma sel_eqb_sound a b : sel_eqb a b = true -> a = b.
Proof.
  destruct a as [x|], b as [y|]; simpl; intros H; try discriminate; [|reflexivity].
  f_equal. exact (list_eqb_sound_all req_eqb req_eqb_sound _ _ H).
Qed.

Lemma entry_eqb_sound a b : entry_eqb a b = true -> a = b.
Proof.
  destruct a as [s c], b as [s' c']. unfold entry_eqb. simpl. intros H.
  apply andb_true_iff in H. destruct H as [H1 H2].
  apply sel_eqb_sound in H1. apply cfg_eqb_sound in H2. congruence.
Qed.

Lemma merged_eqb_sound a b : merged_eqb a b = true -> a = b.
Proof.
  destruct a as [c es], b as [c' es']. unfold merged_eqb. simpl. intros H.
  apply andb_true_iff in H. destruct H as [H1 H2].
  apply cfg_eqb_sound in H1. apply (list_eqb_sound_all entry_eqb entry_eqb_sound) in H2. congruence.
Qed.

Lemma labels_eqb_sound a b : labels_eqb a b = true -> a = b.
Proof.
  apply list_eqb_sound_all. intros [k v] [k' v'] E. simpl in E.
  apply andb_true_iff in E. destruct E as [E1 E2].
  apply Z.eqb_eq in E1. apply Z.eqb_eq in E2. congruence.
Qed.

Lemma bw_eqb_sound a b : bw_eqb a b = true -> a = b.
Proof.
  destruct a, b; simpl; intros H; try discriminate; try reflexivity.
  apply Z.eqb_eq in H. congruence.
Qed.

(* ---------- list plumbing ---------- *)
Lemma set_nth_length {A} (x : A) : forall l i, length (set_nth i x l) = length l.
Proof. induction l as [|y l IH]; intros [|i]; simpl; auto. Qed.

Lemma nth_set_nth {A} (x d : A) : forall l i j,
  nth j (set_nth i x l) d = if (j =? i)%nat && (i <? length l)%nat then x else nth j l d.
Proof.
  induction l as [|y l IH]; intros i j.
  - destruct i, j; simpl; rewrite ?andb_false_r; reflexivity.
  - destruct i as [|i], j as [|j]; simpl; try reflexivity.
    rewrite IH. reflexivity.
Qed.

Lemma set_nth_id {A} (d : A) : forall l i, set_nth i (nth i l d) l = l.
Proof.
  induction l as [|y l IH]; intros [|i]; simpl; try reflexivity. f_equal. apply IH.
Qed.

Lemma list_ext_nth {A} (d : A) : forall l1 l2,
  length l1 = length l2 -> (forall j, (j < length l1)%nat -> nth j l1 d = nth j l2 d) -> l1 = l2.
Proof. intros l1 l2 Hl H. apply (nth_ext l1 l2 d d Hl H). Qed.

Lemma nth_map_opt {A B} (g : A -> B) : forall (l : list (option A)) j,
  nth j (map (option_map g) l) None = option_map g (nth j l None).
Proof.
  induction l as [|x l IH]; intros [|j]; simpl; try reflexivity. apply IH.
Qed.

Lemma existing_spec {A} : forall (l : list (option A)) k j,
  existsb (Nat.eqb j) (existing k l) = (k <=? j)%nat && is_some (nth (j - k) l None).
Proof.
  induction l as [|x l IH]; intros k j; simpl.
  - destruct (j - k)%nat; simpl; rewrite andb_false_r; reflexivity.
  - destruct x as [a|]; simpl; rewrite IH.
    + destruct (Nat.eqb_spec j k) as [->|Hn].
      * rewrite Nat.sub_diag, Nat.leb_refl. reflexivity.
      * destruct (Nat.leb_spec k j) as [Hle|Hgt].
        -- replace (j - k)%nat with (S (j - S k)) by lia.
           replace (S k <=? j)%nat with true by (symmetry; apply Nat.leb_le; lia). reflexivity.
        -- replace (S k <=? j)%nat with false by (symmetry; apply Nat.leb_gt; lia). reflexivity.
    + destruct (Nat.leb_spec k j) as [Hle|Hgt].
      * destruct (Nat.eqb_spec j k) as [->|Hn].
        -- rewrite Nat.sub_diag. replace (S k <=? k)%nat with false by (symmetry; apply Nat.leb_gt; lia).
           reflexivity.
        -- replace (j - k)%nat with (S (j - S k)) by lia.
           replace (S k <=? j)%nat with true by (symmetry; apply Nat.leb_le; lia). reflexivity.
      * replace (S k <=? j)%nat with false by (symmetry; apply Nat.leb_gt; lia). reflexivity.
Qed.

(* ---------- reconciling the enqueued requests ---------- *)
Definition rendered (sds : list secdef) (mgs : list merged) (nodes : list (option node)) : list slo :=
  map (option_map (fun n => render n sds mgs)) nodes.

Lemma reconcile_node_id sds mgs nd stored :
  reconcile_node sds mgs nd stored = option_map (fun n => render n sds mgs) nd.
Proof. destruct nd as [n|]; [|reflexivity]. simpl. rewrite deliver_node_id. reflexivity. Qed.

Lemma fold_reconcile_length sds mgs nodes : forall q stored,
  length (fold_left (reconcile_at sds mgs nodes) q stored) = length stored.
Proof.
  induction q as [|i q IH]; intros stored; [reflexivity|].
  simpl. rewrite IH. unfold reconcile_at. apply set_nth_length.
Qed.

Lemma fold_reconcile_nth sds mgs nodes : forall q stored j,
  (j < length stored)%nat ->
  nth j (fold_left (reconcile_at sds mgs nodes) q stored) None
  = if existsb (Nat.eqb j) q then nth j (rendered sds mgs nodes) None else nth j stored None.
Proof.
  induction q as [|i q IH]; intros stored j Hj; [reflexivity|].
  simpl. rewrite IH by (unfold reconcile_at; rewrite set_nth_length; assumption).
  destruct (existsb (Nat.eqb j) q); [rewrite orb_true_r; reflexivity|]. rewrite orb_false_r.
  unfold reconcile_at. rewrite nth_set_nth, reconcile_node_id.
  destruct (Nat.eqb_spec j i) as [->|Hn]; simpl; [|reflexivity].
  replace (i <? length stored)%nat with true by (symmetry; apply Nat.ltb_lt; assumption).
  unfold rendered. rewrite nth_map_opt. reflexivity.
Qed.

(* the queue [q] brings a stored list that agrees with the rendering outside [q] to the rendering *)
Lemma fold_reconcile_rendered sds mgs nodes q stored :
  length stored = length nodes ->
  (forall j, (j < length nodes)%nat -> existsb (Nat.eqb j) q = false ->
             nth j stored None = nth j (rendered sds mgs nodes) None) ->
  fold_left (reconcile_at sds mgs nodes) q stored = rendered sds mgs nodes.
Proof.
  intros Hl H. apply (list_ext_nth None).
  - rewrite fold_reconcile_length. unfold rendered. rewrite map_length. assumption.
  - intros j Hj. rewrite fold_reconcile_length in Hj. rewrite fold_reconcile_nth by assumption.
    destruct (existsb (Nat.eqb j) q) eqn:E; [reflexivity|]. apply H; [lia|assumption].
Qed.

Lemma rendered_length sds mgs nodes : length (rendered sds mgs nodes) = length nodes.
Proof. unfold rendered. apply map_length. Qed.

Lemma rendered_nth sds mgs nodes j :
  nth j (rendered sds mgs nodes) None = option_map (fun n => render n sds mgs) (nth j nodes None).
Proof. unfold rendered. apply nth_map_opt. Qed.

Lemma nth_overflow_none {A} (l : list (option A)) j : (length l <= j)%nat -> nth j l None = None.
Proof. intros H. apply nth_overflow. assumption. Qed.

(* ---------- one step ---------- *)
(* a world right after a reconciliation of everything: the cache has been synced and every NodeSLO
   is the rendering of its Node *)
Definition settled (sds : list secdef) (w : world) : Prop :=
  st_avail (w_h w) = true /\ w_slo w = rendered sds (st_secs (w_h w)) (w_nodes w).

Lemma wstep_settled m sds w o : settled sds (wstep m sds w o).
Proof.
  unfold settled, wstep. cbn [w_h w_slo w_nodes]. split.
  - unfold step, ensure_avail. destruct (st_avail (handle m sds (w_h w) o)) eqn:E; [exact E|reflexivity].
  - apply reconcile_all_id.
Qed.

Lemma handle_avail m sds h o : o <> ORestart -> st_avail h = true -> st_avail (handle m sds h o) = true.
Proof. intros Ho Ha. destruct o; simpl; try assumption; try reflexivity. congruence. Qed.

Lemma handle_secs m sds h o :
  (forall c, o <> OSync c) -> o <> ORestart -> st_secs (handle m sds h o) = st_secs h.
Proof. intros H1 H2. destruct o; simpl; try reflexivity; [exfalso; eapply H1; reflexivity|congruence]. Qed.

Lemma ensure_avail_id m sds h : st_avail h = true -> ensure_avail m sds h = h.
Proof. intros H. unfold ensure_avail. rewrite H. reflexivity. Qed.

Lemma existing_nil_none {A} : forall (l : list (option A)) k,
  existing k l = [] -> existsb is_some l = false.
Proof.
  induction l as [|[a|] l IH]; intros k H; simpl in *; [reflexivity|discriminate|eauto].
Qed.

Lemma if_same {A} (b : bool) (x : A) : (if b then x else x) = x.
Proof. destruct b; reflexivity. Qed.

(* events other than a ConfigMap sync or a restart leave the cache alone: the step is determined by
   what the queue does to the NodeSLO objects *)
Lemma strict_step_quiet m sds h nodes o :
  (forall c, o <> OSync c) -> o <> ORestart -> st_avail h = true ->
  fold_left (reconcile_at sds (st_secs h) (nodes_after nodes o))
            (enqueued h (handle m sds h o) nodes (rendered sds (st_secs h) nodes) o)
            (slo_after (rendered sds (st_secs h) nodes) o)
  = rendered sds (st_secs h) (nodes_after nodes o) ->
  wstep_strict m sds (mkWorld h nodes (rendered sds (st_secs h) nodes)) o
  = wstep m sds (mkWorld h nodes (rendered sds (st_secs h) nodes)) o.
Proof.
  intros H1 H2 Hav Hfold. unfold wstep_strict, wstep. cbn [w_h w_nodes w_slo].
  rewrite reconcile_all_id. fold (rendered sds (st_secs (step m sds h o)) (nodes_after nodes o)).
  unfold step. rewrite (ensure_avail_id m sds (handle m sds h o)) by (apply handle_avail; assumption).
  rewrite !if_same. rewrite (handle_secs m sds h o H1 H2). rewrite Hfold. reflexivity.
Qed.

Theorem strict_step m sds w o :
  op_loud (w_nodes w) o = true ->
  (o = ORestart /\ length (w_slo w) = length (w_nodes w)
     /\ (forall j, nth j (w_nodes w) None = None -> nth j (w_slo w) None = None))
  \/ settled sds w ->
  wstep_strict m sds w o = wstep m sds w o.
Proof.
  intros Hloud Hpre. destruct w as [h nodes slo0]. cbn [w_h w_nodes w_slo] in *.
  assert (forall stored, length stored = length nodes ->
          (forall j, nth j nodes None = None -> nth j stored None = None) ->
          existsb is_some nodes = true ->
          wstep_strict m sds (mkWorld h nodes stored) ORestart = wstep m sds (mkWorld h nodes stored) ORestart)
    as Hrestart.
  { intros stored Hlen Hnone Hex. unfold wstep_strict, wstep. cbn [w_h w_nodes w_slo].
    rewrite reconcile_all_id. fold (rendered sds (st_secs (step m sds h ORestart)) (nodes_after nodes ORestart)).
    cbn [enqueued nodes_after slo_after handle].
    destruct (existing 0 nodes) as [|i0 q0] eqn:Eq.
    { apply existing_nil_none in Eq. congruence. }
    cbn [is_nil]. unfold step. cbn [handle]. f_equal.
    rewrite <- Eq. apply fold_reconcile_rendered; [assumption|].
    intros j Hj Hq. rewrite existing_spec in Hq. simpl in Hq. rewrite Nat.sub_0_r in Hq.
    rewrite rendered_nth. destruct (nth j nodes None) eqn:En; [discriminate|].
    rewrite Hnone by assumption. reflexivity. }
  destruct Hpre as [(-> & Hlen & Hnone)|[Hav Hslo]].
  - apply Hrestart; assumption.
  - cbn [w_h w_nodes w_slo] in *. subst slo0.
    destruct o as [c|c| | |oc| |i [nd|]|i|i|i];
      try (apply strict_step_quiet; [intros; discriminate|discriminate|assumption|]);
      cbn [enqueued nodes_after slo_after]; try reflexivity.
    + (* OSync *)
      unfold wstep_strict, wstep. cbn [w_h w_nodes w_slo].
      rewrite reconcile_all_id. fold (rendered sds (st_secs (step m sds h (OSync c))) (nodes_after nodes (OSync c))).
      cbn [enqueued nodes_after slo_after]. unfold step.
      rewrite (ensure_avail_id m sds (handle m sds h (OSync c))) by reflexivity.
      rewrite !if_same.
      destruct (list_eqb merged_eqb (st_secs h) (st_secs (handle m sds h (OSync c)))) eqn:Ech.
      * apply (list_eqb_sound_all merged_eqb merged_eqb_sound) in Ech.
        cbn [fold_left]. rewrite <- Ech. reflexivity.
      * f_equal. apply fold_reconcile_rendered; [apply rendered_length|].
        intros j Hj Hq. rewrite existing_spec in Hq. simpl in Hq. rewrite Nat.sub_0_r in Hq.
        rewrite !rendered_nth. destruct (nth j nodes None); [discriminate|reflexivity].
    + (* ORestart from a settled world *)
      apply Hrestart; [apply rendered_length| |exact Hloud].
      intros j Hj. rewrite rendered_nth, Hj. reflexivity.
    + (* ONode i (Some nd) *)
      simpl in Hloud.
      assert (fold_left (reconcile_at sds (st_secs h) (set_nth i (Some nd) nodes)) [i]
                        (rendered sds (st_secs h) nodes)
              = rendered sds (st_secs h) (set_nth i (Some nd) nodes)) as Hi.
      { apply fold_reconcile_rendered.
        - rewrite rendered_length, set_nth_length. reflexivity.
        - intros j Hj Hne. simpl in Hne. rewrite orb_false_r in Hne.
          rewrite !rendered_nth, nth_set_nth. rewrite Hne. reflexivity. }
      destruct (nth i nodes None) as [old|] eqn:Eold; [|exact Hi].
      destruct (labels_eqb (n_labels old) (n_labels nd)) eqn:El; [|exact Hi].
      simpl in Hloud. apply labels_eqb_sound in El. apply bw_eqb_sound in Hloud.
      assert (old = nd) as -> by (destruct old, nd; simpl in *; congruence).
      cbn [fold_left]. rewrite <- Eold, set_nth_id. reflexivity.
    + (* ONode i None *)
      destruct (nth i nodes None) as [old|] eqn:Eold; cbn [is_some].
      * apply fold_reconcile_rendered.
        -- rewrite rendered_length, set_nth_length. reflexivity.
        -- intros j Hj Hne. simpl in Hne. rewrite orb_false_r in Hne.
           rewrite !rendered_nth, nth_set_nth. rewrite Hne. reflexivity.
      * cbn [fold_left]. rewrite <- Eold, set_nth_id. reflexivity.
    + (* ONodeEv i *)
      destruct (is_some (nth i nodes None)); [|reflexivity].
      apply fold_reconcile_rendered; [apply rendered_length|]. intros; reflexivity.
    + (* OSloDel i *)
      destruct (nth i (rendered sds (st_secs h) nodes) None) as [s|] eqn:Es; cbn [is_some].
      * apply fold_reconcile_rendered; [rewrite set_nth_length; apply rendered_length|].
        intros j Hj Hne. simpl in Hne. rewrite orb_false_r in Hne.
        rewrite nth_set_nth, Hne. reflexivity.
      * cbn [fold_left]. rewrite <- Es, set_nth_id. reflexivity.
    + (* OSloEdit i *)
      destruct (nth i (rendered sds (st_secs h) nodes) None) as [s|] eqn:Es; cbn [is_some];
        [|reflexivity].
      apply fold_reconcile_rendered; [rewrite set_nth_length; apply rendered_length|].
      intros j Hj Hne. simpl in Hne. rewrite orb_false_r in Hne.
      rewrite nth_set_nth, Hne. reflexivity.
Qed.

(* ---------- whole histories ---------- *)
Lemma run_from_strict_settled m sds : forall ops w,
  settled sds w -> ops_loud (w_nodes w) ops = true ->
  run_from_strict m sds w ops = run_from m sds w ops.
Proof.
  induction ops as [|o ops IH]; intros w Hs Hl; [reflexivity|].
  simpl in Hl. apply andb_true_iff in Hl. destruct Hl as [Hl1 Hl2].
  cbn [run_from_strict run_from]. rewrite (strict_step m sds w o Hl1 (or_intror Hs)).
  f_equal. apply IH; [apply wstep_settled|]. exact Hl2.
Qed.

(* For every history that starts with the controller start and is "loud" (every (re)start finds a
   Node; no Node update changes the annotation alone): after EVERY event, reconciling only what the
   handlers enqueue leaves every NodeSLO exactly as reconciling every node would. *)
Theorem triggers_complete m sds nodes ops :
  wf_strict (mkInput sds nodes true ops) = true ->
  run_from_strict m sds (winit sds nodes) ops = run_from m sds (winit sds nodes) ops.
Proof.
  unfold wf_strict. cbn [in_ops in_nodes].
  destruct ops as [|o ops]; [discriminate|]. destruct o; try discriminate. intros Hl.
  simpl in Hl. apply andb_true_iff in Hl. destruct Hl as [Hl1 Hl2].
  cbn [run_from_strict run_from].
  assert (wstep_strict m sds (winit sds nodes) ORestart = wstep m sds (winit sds nodes) ORestart) as E.
  { apply strict_step; [exact Hl1|]. left. split; [reflexivity|]. unfold winit. cbn [w_slo w_nodes].
    split; [apply map_length|]. intros j _.
    clear. revert j. induction nodes as [|x l IH]; intros [|j]; simpl; auto. }
  rewrite E. f_equal. apply run_from_strict_settled; [apply wstep_settled|]. exact Hl2.
Qed.

Theorem run_refines_spec m i : in_scope i = true -> run m i = spec_run m i.
Proof.
  intros Hs. unfold run, spec_run. destruct i as [sds nodes strict ops]. cbn [in_strict in_secs in_nodes in_ops].
  destruct strict.
  - unfold in_scope in Hs. simpl in Hs. rewrite (triggers_complete m sds nodes ops Hs). apply run_from_spec.
  - apply run_from_spec.
Qed.
