(* C20 — the JSON overlay, field by field. *)
From Coq Require Import List ZArith Bool Lia.
From Verif Require Import C20.Model C20.Spec.
Import ListNotations.
Open Scope Z_scope.

(* ---------- induction principles for the nested types ---------- *)
Definition cfg_ind2 (P : cfg -> Prop)
  (HLeaf : forall r o, P (Leaf r o))
  (HObjN : P (Obj None))
  (HObjS : forall fs, Forall P fs -> P (Obj (Some fs)))
  (HArr : forall xs, Forall P xs -> P (Arr xs))
  (HMap : forall kvs, P (Map kvs)) : forall c, P c :=
  fix F (c : cfg) : P c :=
    match c with
    | Leaf r o => HLeaf r o
    | Obj None => HObjN
    | Obj (Some fs) =>
        HObjS fs ((fix G (l : list cfg) : Forall P l :=
                     match l with
                     | [] => Forall_nil P
                     | x :: t => Forall_cons x (F x) (G t)
                     end) fs)
    | Arr xs =>
        HArr xs ((fix G (l : list cfg) : Forall P l :=
                    match l with
                    | [] => Forall_nil P
                    | x :: t => Forall_cons x (F x) (G t)
                    end) xs)
    | Map kvs => HMap kvs
    end.

(* ---------- small facts ---------- *)
Lemma orelse_none_r {A} (x : option A) : orelse x None = x.
Proof. destruct x; reflexivity. Qed.

Lemma orelse_assoc {A} (x y z : option A) : orelse (orelse x y) z = orelse x (orelse y z).
Proof. destruct x; reflexivity. Qed.

Lemma first_some3 {A} (x y z : option A) : first_some [x; y; z] = orelse x (orelse y z).
Proof. destruct x, y, z; reflexivity. Qed.

Lemma forall2b_length {A B} (f : A -> B -> bool) : forall xs ys,
  forall2b f xs ys = true -> length xs = length ys.
Proof.
  induction xs as [|x xs IH]; destruct ys as [|y ys]; simpl; intros H; try discriminate; auto.
  apply andb_true_iff in H. destruct H as [_ H]. f_equal. auto.
Qed.

Lemma forall2b_nth {A B} (f : A -> B -> bool) : forall xs ys i x y,
  forall2b f xs ys = true -> nth_error xs i = Some x -> nth_error ys i = Some y -> f x y = true.
Proof.
  induction xs as [|x0 xs IH]; destruct ys as [|y0 ys]; simpl; intros i x y H Hx Hy; try discriminate.
  - destruct i; discriminate.
  - apply andb_true_iff in H. destruct H as [H0 H].
    destruct i as [|i]; simpl in *.
    + inversion Hx; inversion Hy; subst; assumption.
    + eapply IH; eauto.
Qed.

Lemma nth_error_zip_merge (f : cfg -> cfg -> cfg) : forall os ns i,
  length os = length ns ->
  nth_error (zip_merge f os ns) i =
  match nth_error os i, nth_error ns i with
  | Some o, Some n => Some (f o n)
  | _, _ => None
  end.
Proof.
  induction os as [|o os IH]; destruct ns as [|n ns]; simpl; intros i Hl; try discriminate.
  - destruct i; reflexivity.
  - destruct i as [|i]; simpl; [reflexivity|]. apply IH. lia.
Qed.

Lemma zip_merge_length (f : cfg -> cfg -> cfg) : forall os ns,
  length (zip_merge f os ns) = length ns.
Proof.
  induction os as [|o os IH]; destruct ns as [|n ns]; simpl; auto.
Qed.

Lemma nth_error_same_length {A B} (xs : list A) (ys : list B) i x :
  length xs = length ys -> nth_error xs i = Some x -> exists y, nth_error ys i = Some y.
Proof.
  intros Hl Hx. destruct (nth_error ys i) as [y|] eqn:E; [eauto|].
  apply nth_error_None in E. assert (nth_error xs i <> None) as N by congruence.
  apply nth_error_Some in N. lia.
Qed.

(* ---------- maps ---------- *)
Lemma label_get_map_set k k' v m :
  label_get k (map_set k' v m) = if k =? k' then Some v else label_get k m.
Proof.
  induction m as [|[k1 v1] t IH]; simpl.
  - reflexivity.
  - destruct (k' <? k1) eqn:E1; simpl.
    + reflexivity.
    + destruct (k' =? k1) eqn:E2; simpl.
      * apply Z.eqb_eq in E2. subst k1. destruct (k =? k'); reflexivity.
      * rewrite IH. destruct (k =? k') eqn:E3; [|reflexivity].
        apply Z.eqb_eq in E3. subst k'. rewrite E2. reflexivity.
Qed.

Lemma sorted_keys_label_get_none k v t :
  sorted_keys ((k, v) :: t) = true -> label_get k t = None.
Proof.
  simpl. intros H. apply andb_true_iff in H. destruct H as [H _].
  induction t as [|[k1 v1] t IH]; simpl in *; [reflexivity|].
  apply andb_true_iff in H. destruct H as [H1 H].
  apply Z.ltb_lt in H1. destruct (k =? k1) eqn:E; [apply Z.eqb_eq in E; lia|]. auto.
Qed.

Lemma label_get_map_union k : forall n o,
  sorted_keys n = true ->
  label_get k (map_union o n) = orelse (label_get k n) (label_get k o).
Proof.
  unfold map_union. induction n as [|[k1 v1] n IH]; intros o Hs; simpl.
  - reflexivity.
  - pose proof (sorted_keys_label_get_none _ _ _ Hs) as Hn.
    simpl in Hs. apply andb_true_iff in Hs. destruct Hs as [_ Hs].
    rewrite IH by assumption. rewrite label_get_map_set.
    destruct (k =? k1) eqn:E.
    + apply Z.eqb_eq in E. subst k1. rewrite Hn. reflexivity.
    + reflexivity.
Qed.

Lemma forallb_map_set (P : Z * Z -> bool) k v m :
  P (k, v) = true -> forallb P m = true -> forallb P (map_set k v m) = true.
Proof.
  intros Hp. induction m as [|[k1 v1] t IH]; simpl; intros H.
  - rewrite Hp. reflexivity.
  - apply andb_true_iff in H. destruct H as [H1 H].
    destruct (k <? k1); simpl.
    + rewrite Hp, H1, H. reflexivity.
    + destruct (k =? k1); simpl.
      * rewrite Hp, H. reflexivity.
      * rewrite H1, IH by assumption. reflexivity.
Qed.

Lemma forallb_lt_trans k k1 (t : list (Z * Z)) :
  k < k1 -> forallb (fun kv => k1 <? fst kv) t = true -> forallb (fun kv => k <? fst kv) t = true.
Proof.
  intros Hlt. induction t as [|[k2 v2] t IH]; simpl; intros H; [reflexivity|].
  apply andb_true_iff in H. destruct H as [H1 H]. apply Z.ltb_lt in H1.
  rewrite IH by assumption. replace (k <? k2) with true by (symmetry; apply Z.ltb_lt; lia). reflexivity.
Qed.

Lemma sorted_keys_map_set k v m : sorted_keys m = true -> sorted_keys (map_set k v m) = true.
Proof.
  induction m as [|[k1 v1] t IH]; simpl; intros H.
  - reflexivity.
  - apply andb_true_iff in H. destruct H as [H1 H].
    destruct (k <? k1) eqn:E1; simpl.
    + apply Z.ltb_lt in E1. rewrite H1, H.
      replace (k <? k1) with true by (symmetry; apply Z.ltb_lt; lia). simpl.
      rewrite (forallb_lt_trans k k1) by (assumption || lia). reflexivity.
    + destruct (k =? k1) eqn:E2; simpl.
      * apply Z.eqb_eq in E2. subst k1. rewrite H1, H. reflexivity.
      * apply Z.ltb_ge in E1. apply Z.eqb_neq in E2.
        rewrite IH by assumption. rewrite forallb_map_set; [reflexivity| |assumption].
        simpl. apply Z.ltb_lt. lia.
Qed.

Lemma sorted_keys_map_union : forall n o, sorted_keys o = true -> sorted_keys (map_union o n) = true.
Proof.
  unfold map_union. induction n as [|[k1 v1] n IH]; intros o H; simpl; [assumption|].
  apply IH. apply sorted_keys_map_set. assumption.
Qed.

(* ---------- a layer that sets nothing changes nothing ---------- *)
Lemma overlay_absent am a : overlay am a (Obj None) = a.
Proof. destruct a as [r o|o|xs|kvs]; simpl; try reflexivity; destruct o; reflexivity. Qed.

Lemma overlay_neutral am o n : emits n = false -> overlay am o n = o.
Proof.
  destruct n as [r [v|]|[fs|]|xs|kvs]; simpl; intros H; try discriminate.
  - destruct o as [r' [?|]|[o'|]|xs'|kvs']; reflexivity.
  - destruct o as [r' [?|]|[o'|]|xs'|kvs']; reflexivity.
  - destruct xs; [|discriminate]. destruct o as [r' [?|]|[o'|]|xs'|kvs']; reflexivity.
  - destruct kvs; [|discriminate]. destruct o as [r' [?|]|[o'|]|xs'|kvs']; reflexivity.
Qed.

Lemma zip_merge_neutral am : forall os ns,
  length os = length ns -> existsb emits ns = false -> zip_merge (overlay am) os ns = os.
Proof.
  induction os as [|o os IH]; destruct ns as [|n ns]; simpl; intros Hl He; try discriminate; auto.
  apply orb_false_iff in He. destruct He as [He1 He2].
  rewrite overlay_neutral by assumption. f_equal. apply IH; [lia|assumption].
Qed.

(* ---------- the schema is preserved ---------- *)
Lemma conforms_overlay am : forall a s b,
  conforms s a = true -> conforms s b = true -> conforms s (overlay am a b) = true.
Proof.
  induction a as [r o| |ofs IH|os IH|okv] using cfg_ind2; intros s b Ha Hb.
  - destruct s; simpl in Ha; try discriminate.
    destruct b as [r' [v|]| | |]; simpl in Hb; try discriminate; reflexivity.
  - destruct s; simpl in Ha; try discriminate.
    destruct b as [|[nfs|]| |]; simpl in Hb; try discriminate; simpl; assumption.
  - destruct s as [|ss| |]; simpl in Ha; try discriminate.
    destruct b as [|[nfs|]| |]; simpl in Hb; try discriminate; simpl; [|assumption].
    revert ss nfs Ha Hb. induction IH as [|o ofs Ho _ IHl]; intros ss nfs Ha Hb.
    + destruct ss; simpl in Ha; [|discriminate]. destruct nfs; simpl in Hb; [|discriminate]. reflexivity.
    + destruct ss as [|s0 ss]; simpl in Ha; [discriminate|].
      destruct nfs as [|n nfs]; simpl in Hb; [discriminate|].
      apply andb_true_iff in Ha. destruct Ha as [Ha0 Ha].
      apply andb_true_iff in Hb. destruct Hb as [Hb0 Hb].
      simpl. rewrite Ho by assumption. simpl. apply IHl; assumption.
  - destruct s as [| |e|]; simpl in Ha; try discriminate.
    destruct b as [| |ns|]; simpl in Hb; try discriminate. simpl.
    destruct (is_nil ns); [simpl; assumption|]. destruct am; [|simpl; assumption]. simpl.
    revert ns Ha Hb. induction IH as [|o os Ho _ IHl]; intros ns Ha Hb.
    + destruct ns; simpl; assumption.
    + destruct ns as [|n ns]; simpl; [reflexivity|].
      simpl in Ha, Hb.
      apply andb_true_iff in Ha. destruct Ha as [Ha0 Ha].
      apply andb_true_iff in Hb. destruct Hb as [Hb0 Hb].
      rewrite Ho by assumption. simpl. apply IHl; assumption.
  - destruct s; simpl in Ha; try discriminate.
    destruct b as [| | |nkv]; simpl in Hb; try discriminate. simpl.
    apply sorted_keys_map_union. assumption.
Qed.

Lemma lookup_objnone p : lookup p (Obj None) = None.
Proof. destruct p as [|i [|j p]]; reflexivity. Qed.

Lemma lookup_arr_objnone p : lookup_arr p (Obj None) = None.
Proof. destruct p as [|i [|j p]]; reflexivity. Qed.

Lemma lookup_cons_obj i p fs :
  lookup (i :: p) (Obj (Some fs)) =
  match nth_error fs (Z.to_nat i) with Some f => lookup p f | None => None end.
Proof. destruct p; reflexivity. Qed.

Lemma lookup_arr_cons_obj i p fs :
  lookup_arr (i :: p) (Obj (Some fs)) =
  match nth_error fs (Z.to_nat i) with Some f => lookup_arr p f | None => None end.
Proof. reflexivity. Qed.

(* ---------- field by field: the upper layer wins exactly where it sets the field ---------- *)
Theorem lookup_overlay am : forall a s b p,
  conforms s a = true -> conforms s b = true ->
  lookup p (overlay am a b) = orelse (lookup p b) (lookup p a).
Proof.
  induction a as [r o| |ofs IH|os IH|okv] using cfg_ind2; intros s b p Ha Hb.
  - destruct s; simpl in Ha; try discriminate.
    destruct b as [r' [v|]| | |]; simpl in Hb; try discriminate;
      destruct p as [|i [|j p]]; simpl; reflexivity.
  - destruct s; simpl in Ha; try discriminate.
    destruct b as [|[nfs|]| |]; simpl in Hb; try discriminate; simpl;
      rewrite ?lookup_objnone, ?orelse_none_r; reflexivity.
  - destruct s as [|ss| |]; simpl in Ha; try discriminate.
    destruct b as [|[nfs|]| |]; simpl in Hb; try discriminate; simpl.
    2:{ rewrite lookup_objnone. reflexivity. }
    destruct p as [|i p]; [reflexivity|].
    rewrite !lookup_cons_obj.
    pose proof (forall2b_length _ _ _ Ha) as La. pose proof (forall2b_length _ _ _ Hb) as Lb.
    rewrite nth_error_zip_merge by congruence.
    destruct (nth_error ofs (Z.to_nat i)) as [o|] eqn:Eo.
    + destruct (nth_error_same_length ofs nfs _ _ ltac:(congruence) Eo) as [n En].
      rewrite En.
      assert (exists s0, nth_error ss (Z.to_nat i) = Some s0) as [s0 Es].
      { eapply nth_error_same_length; [|exact Eo]. congruence. }
      rewrite Forall_forall in IH.
      eapply (IH o (nth_error_In _ _ Eo) s0 n p).
      * exact (forall2b_nth _ _ _ _ _ _ Ha Es Eo).
      * exact (forall2b_nth _ _ _ _ _ _ Hb Es En).
    + destruct (nth_error nfs (Z.to_nat i)) as [n|] eqn:En; [|reflexivity].
      exfalso. destruct (nth_error_same_length nfs ofs _ _ ltac:(congruence) En) as [o Eo']. congruence.
  - destruct s as [| |e|]; simpl in Ha; try discriminate.
    destruct b as [| |ns|]; simpl in Hb; try discriminate. simpl.
    destruct (is_nil ns); [destruct p as [|i [|j p]]; reflexivity|].
    destruct am; destruct p as [|i [|j p]]; reflexivity.
  - destruct s; simpl in Ha; try discriminate.
    destruct b as [| | |nkv]; simpl in Hb; try discriminate. simpl.
    destruct p as [|k [|k2 p]]; simpl; try reflexivity.
    apply label_get_map_union. assumption.
Qed.

(* list-valued fields: when lists are values (no element-wise decoding), the same law *)
Theorem lookup_arr_overlay : forall a s b p,
  conforms s a = true -> conforms s b = true ->
  lookup_arr p (overlay false a b) = orelse (lookup_arr p b) (lookup_arr p a).
Proof.
  induction a as [r o| |ofs IH|os IH|okv] using cfg_ind2; intros s b p Ha Hb.
  - destruct s; simpl in Ha; try discriminate.
    destruct b as [r' [v|]| | |]; simpl in Hb; try discriminate; destruct p; reflexivity.
  - destruct s; simpl in Ha; try discriminate.
    destruct b as [|[nfs|]| |]; simpl in Hb; try discriminate; simpl;
      rewrite ?lookup_arr_objnone, ?orelse_none_r; reflexivity.
  - destruct s as [|ss| |]; simpl in Ha; try discriminate.
    destruct b as [|[nfs|]| |]; simpl in Hb; try discriminate; simpl.
    2:{ rewrite lookup_arr_objnone. reflexivity. }
    destruct p as [|i p]; [reflexivity|].
    rewrite !lookup_arr_cons_obj.
    pose proof (forall2b_length _ _ _ Ha) as La. pose proof (forall2b_length _ _ _ Hb) as Lb.
    rewrite nth_error_zip_merge by congruence.
    destruct (nth_error ofs (Z.to_nat i)) as [o|] eqn:Eo.
    + destruct (nth_error_same_length ofs nfs _ _ ltac:(congruence) Eo) as [n En].
      rewrite En.
      assert (exists s0, nth_error ss (Z.to_nat i) = Some s0) as [s0 Es].
      { eapply nth_error_same_length; [|exact Eo]. congruence. }
      rewrite Forall_forall in IH.
      eapply (IH o (nth_error_In _ _ Eo) s0 n p).
      * exact (forall2b_nth _ _ _ _ _ _ Ha Es Eo).
      * exact (forall2b_nth _ _ _ _ _ _ Hb Es En).
    + destruct (nth_error nfs (Z.to_nat i)) as [n|] eqn:En; [|reflexivity].
      exfalso. destruct (nth_error_same_length nfs ofs _ _ ltac:(congruence) En) as [o Eo']. congruence.
  - destruct s as [| |e|]; simpl in Ha; try discriminate.
    destruct b as [| |ns|]; simpl in Hb; try discriminate. simpl.
    destruct ns as [|n ns]; simpl.
    + destruct p; simpl; [|reflexivity]. destruct (is_nil os); reflexivity.
    + destruct p; reflexivity.
  - destruct s; simpl in Ha; try discriminate.
    destruct b as [| | |nkv]; simpl in Hb; try discriminate. simpl.
    destruct p; reflexivity.
Qed.

(* ---------- parsing: always-marshalled scalars ---------- *)
Lemma norm_reqfull : forall c, reqfull c = true -> norm c = c.
Proof.
  induction c as [r o| |fs IH|xs IH|kv] using cfg_ind2; simpl; intros H.
  - destruct r, o; try reflexivity. discriminate.
  - reflexivity.
  - f_equal. f_equal. induction IH as [|x l Hx _ IHl]; simpl in *; [reflexivity|].
    apply andb_true_iff in H. destruct H as [H1 H]. rewrite Hx, IHl by assumption. reflexivity.
  - f_equal. induction IH as [|x l Hx _ IHl]; simpl in *; [reflexivity|].
    apply andb_true_iff in H. destruct H as [H1 H]. rewrite Hx, IHl by assumption. reflexivity.
  - reflexivity.
Qed.

Lemma conforms_norm : forall c s, conforms s c = true -> conforms s (norm c) = true.
Proof.
  induction c as [r o| |fs IH|xs IH|kv] using cfg_ind2; intros s H.
  - destruct s; simpl in H; try discriminate. destruct r, o; reflexivity.
  - assumption.
  - destruct s as [|ss| |]; simpl in H; try discriminate. simpl.
    revert ss H. induction IH as [|x l Hx _ IHl]; intros ss H; destruct ss as [|s0 ss]; simpl in *;
      try discriminate; auto.
    apply andb_true_iff in H. destruct H as [H1 H]. rewrite Hx, IHl by assumption. reflexivity.
  - destruct s as [| |e|]; simpl in H; try discriminate. simpl.
    induction IH as [|x l Hx _ IHl]; simpl in *; auto.
    apply andb_true_iff in H. destruct H as [H1 H]. rewrite Hx, IHl by assumption. reflexivity.
  - assumption.
Qed.

(* the path leads to an always-marshalled scalar that the text omits *)
Fixpoint req_gap (p : list Z) (c : cfg) {struct p} : bool :=
  match p, c with
  | [], Leaf true None => true
  | i :: p', Obj (Some fs) =>
      match nth_error fs (Z.to_nat i) with Some f => req_gap p' f | None => false end
  | _, _ => false
  end.

Lemma lookup_norm : forall c p,
  lookup p (norm c) = if req_gap p c then Some 0 else lookup p c.
Proof.
  induction c as [r o| |fs IH|xs IH|kv] using cfg_ind2; intros p.
  - destruct r, o, p; reflexivity.
  - destruct p; reflexivity.
  - destruct p as [|i p]; [reflexivity|].
    change (norm (Obj (Some fs))) with (Obj (Some (map norm fs))).
    rewrite !lookup_cons_obj.
    change (req_gap (i :: p) (Obj (Some fs)))
      with (match nth_error fs (Z.to_nat i) with Some f => req_gap p f | None => false end).
    rewrite nth_error_map. destruct (nth_error fs (Z.to_nat i)) as [f|] eqn:E; simpl; [|reflexivity].
    rewrite Forall_forall in IH. apply IH. eapply nth_error_In; eauto.
  - destruct p; reflexivity.
  - destruct p as [|k [|]]; reflexivity.
Qed.

(* ---------- when no list is set twice, element-wise decoding cannot show ---------- *)
Lemma overlay_arr_disjoint : forall a b,
  arr_disjoint a b = true -> overlay true a b = overlay false a b.
Proof.
  induction a as [r o| |ofs IH|os IH|okv] using cfg_ind2; intros b H.
  - destruct b as [r' [v|]| | |]; reflexivity.
  - destruct b as [|[nfs|]| |]; reflexivity.
  - destruct b as [|[nfs|]| |]; try reflexivity. simpl in *. f_equal. f_equal.
    revert nfs H. induction IH as [|o l Ho _ IHl]; intros nfs H; destruct nfs as [|n nfs]; simpl in *;
      try discriminate; auto.
    apply andb_true_iff in H. destruct H as [H1 H]. rewrite Ho, IHl by assumption. reflexivity.
  - destruct b as [| |ns|]; try reflexivity. simpl in *.
    destruct ns as [|n ns]; simpl; [reflexivity|].
    destruct os; simpl in H; [reflexivity|discriminate].
  - destruct b; reflexivity.
Qed.
