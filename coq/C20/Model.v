(* C20 — model of the slo-controller's NodeSLO configuration layering
     pkg/util/utils.go                                   MergeCfg (JSON marshal-then-unmarshal-into)
     pkg/slo-controller/nodeslo/resource_strategy.go     calculate*CfgMerged, get*Spec (first match)
     pkg/slo-controller/nodeslo/nodeslo_cm_event_handler.go   syncConfig (absent / parse error / value)
     pkg/slo-controller/config/configmap_event_handler.go     Create / Update / Delete filters
   pkg/slo-controller/nodeslo/nodeslo_controller.go         getNodeSLOSpec (per-section rendering, the node's own
                                                            bandwidth annotation), Reconcile (NodeSLO life cycle)
   Executable, total, no proofs in this file.

   A configuration value of one of the Go strategy types is a tree:
     Leaf req o   scalar field; [o = None] = nil pointer / empty omitempty string.
                  [req = true] marks a field the Go type ALWAYS marshals (resource.Quantity,
                  a non-pointer struct without omitempty effect): after parsing it is never None.
     Obj o        pointer to struct ([None] = nil) or an inline / non-pointer struct ([Some fs]),
                  fields positionally in declaration order
     Arr xs       slice (omitempty: [] is not marshalled)
     Map kvs      map[string]bool, keys kept sorted ascending (omitempty: [] is not marshalled)
   Leaf values, map keys and names are integers (the harness maps them to concrete values). *)
From Coq Require Import List ZArith Bool.
Import ListNotations.
Open Scope Z_scope.

Inductive cfg : Type :=
| Leaf (req : bool) (o : option Z)
| Obj (o : option (list cfg))
| Arr (xs : list cfg)
| Map (kvs : list (Z * Z)).

Definition orelse {A} (x y : option A) : option A :=
  match x with Some _ => x | None => y end.

Definition is_nil {A} (l : list A) : bool := match l with [] => true | _ => false end.

(* The two places where the implementation departs from plain "upper layer wins where it sets a
   field": [m_reqnorm] — an always-marshalled scalar that the text omits is parsed to the zero
   value and then counts as set; [m_arrmerge] — a list set by the upper layer is decoded INTO the
   lower layer's list, element by element (encoding/json reuses the existing elements).
   [faithful] is the code as it is; [ideal] is the property statement read literally. *)
Record mode := mkMode { m_reqnorm : bool; m_arrmerge : bool }.
Definition faithful : mode := mkMode true true.
Definition ideal : mode := mkMode false false.

(* ---------- json.Unmarshal of the ConfigMap text into a fresh Go value ---------- *)
Fixpoint norm (c : cfg) : cfg :=
  match c with
  | Leaf true None => Leaf true (Some 0)
  | Leaf r o => Leaf r o
  | Obj None => Obj None
  | Obj (Some fs) => Obj (Some (map norm fs))
  | Arr xs => Arr (map norm xs)
  | Map kvs => Map kvs
  end.

Definition prep (m : mode) (c : cfg) : cfg := if m_reqnorm m then norm c else c.

(* A node entry carries its strategy as an EMBEDDED pointer whose fields are inlined into the
   entry: the struct is allocated only when the text mentions one of its members. *)
Definition emits (c : cfg) : bool :=
  match c with
  | Leaf _ None => false
  | Leaf _ (Some _) => true
  | Obj None => false
  | Obj (Some _) => true
  | Arr xs => negb (is_nil xs)
  | Map kvs => negb (is_nil kvs)
  end.

Definition mentions (c : cfg) : bool :=
  match c with Obj (Some fs) => existsb emits fs | _ => false end.

Definition prep_entry (m : mode) (c : cfg) : cfg :=
  if m_reqnorm m then (if mentions c then norm c else Obj None) else c.

(* ---------- util.MergeCfg(old, new): json.Marshal(new) then json.Unmarshal(data, &old) ---------- *)
Fixpoint map_set (k v : Z) (m : list (Z * Z)) : list (Z * Z) :=
  match m with
  | [] => [(k, v)]
  | (k', v') :: t =>
      if k <? k' then (k, v) :: m
      else if k =? k' then (k, v) :: t
      else (k', v') :: map_set k v t
  end.

Definition map_union (old new : list (Z * Z)) : list (Z * Z) :=
  fold_left (fun acc kv => map_set (fst kv) (snd kv) acc) new old.

(* element i of the result: f old[i] new[i] while both exist, new[i] beyond old's length,
   nothing beyond new's length *)
Definition zip_merge (f : cfg -> cfg -> cfg) : list cfg -> list cfg -> list cfg :=
  fix go (os ns : list cfg) {struct os} : list cfg :=
    match os, ns with
    | o :: os', n :: ns' => f o n :: go os' ns'
    | [], _ => ns
    | _ :: _, [] => []
    end.

Fixpoint overlay (am : bool) (a b : cfg) {struct a} : cfg :=
  match a, b with
  | Leaf r o, Leaf _ (Some v) => Leaf r (Some v)
  | Leaf r o, Leaf _ None => Leaf r o
  | Obj o, Obj None => Obj o
  | Obj None, Obj (Some nfs) => Obj (Some nfs)
  | Obj (Some ofs), Obj (Some nfs) => Obj (Some (zip_merge (overlay am) ofs nfs))
  | Arr os, Arr ns =>
      if is_nil ns then Arr os
      else if am then Arr (zip_merge (overlay am) os ns) else Arr ns
  | Map o, Map n => Map (map_union o n)
  | _, _ => a (* values of different Go types: not produced by any parse *)
  end.

(* ---------- label selectors (metav1.LabelSelectorAsSelector + Selector.Matches) ---------- *)
(* r_op: 0 matchLabels key=value, 1 In, 2 NotIn, 3 Exists, 4 DoesNotExist, other = unknown operator *)
Record req := mkReq { r_key : Z; r_op : Z; r_vals : list Z }.
Notation selector := (option (list req)).   (* None = nil selector: selects nothing *)
Notation labels := (list (Z * Z)).

Fixpoint label_get (k : Z) (ls : labels) : option Z :=
  match ls with
  | [] => None
  | (k', v) :: t => if k =? k' then Some v else label_get k t
  end.

Definition memZ (x : Z) (l : list Z) : bool := existsb (Z.eqb x) l.

Definition req_valid (r : req) : bool :=
  match r_op r with
  | 0 => Nat.eqb (length (r_vals r)) 1
  | 1 | 2 => negb (is_nil (r_vals r))
  | 3 | 4 => is_nil (r_vals r)
  | _ => false
  end.

Definition req_matches (ls : labels) (r : req) : bool :=
  match r_op r with
  | 0 | 1 => match label_get (r_key r) ls with Some v => memZ v (r_vals r) | None => false end
  | 2 => match label_get (r_key r) ls with Some v => negb (memZ v (r_vals r)) | None => true end
  | 3 => match label_get (r_key r) ls with Some _ => true | None => false end
  | 4 => match label_get (r_key r) ls with Some _ => false | None => true end
  | _ => false
  end.

(* None = the selector does not convert (the entry is skipped with an error log) *)
Definition sel_matches (ls : labels) (s : selector) : option bool :=
  match s with
  | None => Some false
  | Some rs => if forallb req_valid rs then Some (forallb (req_matches ls) rs) else None
  end.

Definition selects (ls : labels) (s : selector) : bool :=
  match sel_matches ls s with Some true => true | _ => false end.

(* ---------- a node: its labels and its own node.koordinator.sh/network-bandwidth annotation ---------- *)
Inductive bw :=
| BwNone                  (* no annotation *)
| BwVal (q : Z)           (* a quantity (its integer value) *)
| BwBad.                  (* present but resource.ParseQuantity fails *)
Record node := mkNode { n_labels : labels; n_bw : bw }.

(* ---------- the text of one section: a JSON document with characters around it ----------
   json.Unmarshal accepts exactly ONE value, surrounded by JSON white space only (space, \n, \t, \r
   = codes 0..3); any other character before or after the value makes the whole text unparsable. *)
Definition is_ws (c : Z) : bool := (0 <=? c) && (c <=? 3).
Definition frame_ok (lead trail : list Z) : bool := forallb is_ws lead && forallb is_ws trail.

(* ---------- one section of the ConfigMap ---------- *)
Record entry := mkEntry { e_sel : selector; e_strat : cfg }.

Inductive section_in :=
| SAbsent                                        (* key not in ConfigMap.Data *)
| SMalformed                                     (* json.Unmarshal returns an error *)
| SValue (cluster : cfg) (es : list entry).      (* clusterStrategy (Obj None if missing), nodeStrategies *)

(* sd_merge = true: threshold / resourceQOS / cpuBurst / system (default <- cluster <- node entry);
   sd_merge = false: host applications (the matching node entry's list replaces the cluster list) *)
(* sd_bw = Some k: field k of the strategy is the node's total network bandwidth, which the node's own
   annotation overrides (system section only) *)
Record secdef := mkSec { sd_merge : bool; sd_bw : option nat; sd_default : cfg }.

(* the parsed form of a section text: document [s] framed by [lead] and [trail] *)
Definition parse_frame (lead trail : list Z) (s : section_in) : section_in :=
  match s with
  | SValue _ _ => if frame_ok lead trail then s else SMalformed
  | x => x
  end.

(* the cached, already merged section: SLOCfg.<X>CfgMerged *)
Record merged := mkMerged { mg_cluster : cfg; mg_entries : list entry }.

Definition default_of (sd : secdef) : merged := mkMerged (sd_default sd) [].

Definition calc (m : mode) (sd : secdef) (cluster : cfg) (es : list entry) : merged :=
  if sd_merge sd then
    let cl := overlay (m_arrmerge m) (sd_default sd) (prep m cluster) in
    mkMerged cl
      (map (fun e => mkEntry (e_sel e) (overlay (m_arrmerge m) cl (prep_entry m (e_strat e)))) es)
  else mkMerged cluster es.

Definition sync_sec (m : mode) (sd : secdef) (old : merged) (s : section_in) : merged :=
  match s with
  | SAbsent => default_of sd
  | SMalformed => old
  | SValue c es => calc m sd c es
  end.

(* ---------- the handler's cache, the informer cache and the reconciler over events ---------- *)
Notation cmap := (list section_in).   (* positional: one per section of [sds]; missing = absent *)

Inductive op :=
| OSync (c : cmap)              (* Create, or Update with changed Data, of the slo-controller ConfigMap *)
| OSame (c : cmap)              (* Update with equal Data: the handler ignores the event *)
| ODelete                       (* Delete: the handler ignores the event; the informer loses the object *)
| OOther                        (* event for another ConfigMap (other name or other namespace) *)
| OAvail (c : option cmap)      (* informer content set to [c] (None = not found), explicit IsCfgAvailable() *)
| ORestart                      (* the controller process restarts: fresh handler cache, API objects stay *)
| ONode (i : nat) (nd : option node)   (* Node i created / updated (Some) or deleted (None) *)
| ONodeEv (i : nat)             (* a (re-delivered) event for Node i without any change *)
| OSloDel (i : nat)             (* NodeSLO i deleted by a third party *)
| OSloEdit (i : nat).           (* NodeSLO i's spec overwritten by a third party *)

(* st_inf: the slo-controller ConfigMap as the informer cache (the client) has it *)
Record state := mkState { st_secs : list merged; st_avail : bool; st_inf : option cmap }.

Fixpoint sync_secs (m : mode) (sds : list secdef) (olds : list merged) (c : cmap) : list merged :=
  match sds, olds with
  | sd :: sds', old :: olds' =>
      sync_sec m sd old (hd SAbsent c) :: sync_secs m sds' olds' (tl c)
  | _, _ => []
  end.

(* syncConfig(configMap); nil = ConfigMap not found: all defaults *)
Definition sync_from (m : mode) (sds : list secdef) (olds : list merged) (oc : option cmap)
  : list merged :=
  match oc with
  | Some c => sync_secs m sds olds c
  | None => map default_of sds
  end.

Definition init (sds : list secdef) : state := mkState (map default_of sds) false None.

Definition inf_after (inf : option cmap) (o : op) : option cmap :=
  match o with
  | OSync c => Some c
  | OSame c => Some c
  | ODelete => None
  | OAvail oc => oc
  | _ => inf
  end.

(* the event handler (EnqueueRequestForConfigMap.Create/Update/Delete); a restart replaces the
   handler by a new one (NewSLOCfgHandlerForConfigMapEvent(DefaultSLOCfg())) *)
Definition handle (m : mode) (sds : list secdef) (st : state) (o : op) : state :=
  match o with
  | OSync c => mkState (sync_secs m sds (st_secs st) c) true (Some c)
  | ORestart => mkState (map default_of sds) false (st_inf st)
  | _ => mkState (st_secs st) (st_avail st) (inf_after (st_inf st) o)
  end.

(* IsCfgAvailable(): called explicitly (OAvail) and at the start of every Reconcile; while the cache
   was never synced it syncs from the informer cache *)
Definition ensure_avail (m : mode) (sds : list secdef) (st : state) : state :=
  if st_avail st then st
  else mkState (sync_from m sds (st_secs st) (st_inf st)) true (st_inf st).

(* one event followed by the reconciliation of the probe nodes *)
Definition step (m : mode) (sds : list secdef) (st : state) (o : op) : state :=
  ensure_avail m sds (handle m sds st o).

Definition run_state (m : mode) (sds : list secdef) (ops : list op) : state :=
  fold_left (step m sds) ops (init sds).

(* ---------- what a node gets: getNodeSLOSpec ---------- *)
Fixpoint first_match (ls : labels) (es : list entry) : option entry :=
  match es with
  | [] => None
  | e :: t => if selects ls (e_sel e) then Some e else first_match ls t
  end.

Definition effective (ls : labels) (mg : merged) : cfg :=
  match first_match ls (mg_entries mg) with
  | Some e => e_strat e
  | None => mg_cluster mg
  end.

Fixpoint set_nth {A} (i : nat) (x : A) (l : list A) : list A :=
  match l, i with
  | [], _ => []
  | _ :: t, O => x :: t
  | y :: t, S i' => y :: set_nth i' x t
  end.

Definition set_field (k : nat) (v : cfg) (c : cfg) : cfg :=
  match c with
  | Obj (Some fs) => Obj (Some (set_nth k v fs))
  | x => x
  end.

(* getSystemConfigSpec: the node's own bandwidth annotation overrides the layered value of that one
   field; an annotation that does not parse makes the renderer return (nil, err): the section is
   delivered as nil, all other sections are rendered as usual *)
Definition bw_apply (sd : secdef) (nd : node) (e : cfg) : cfg :=
  match sd_bw sd, n_bw nd with
  | Some k, BwVal q => set_field k (Leaf true (Some q)) e
  | Some _, BwBad => Obj None
  | _, _ => e
  end.

Definition render_sec (nd : node) (sd : secdef) (mg : merged) : cfg :=
  bw_apply sd nd (effective (n_labels nd) mg).

Fixpoint render (nd : node) (sds : list secdef) (mgs : list merged) : list cfg :=
  match sds, mgs with
  | sd :: sds', mg :: mgs' => render_sec nd sd mg :: render nd sds' mgs'
  | _, _ => []
  end.

(* ---------- delivery: Reconcile creates / updates / deletes the node's NodeSLO ---------- *)
Definition list_eqb {A} (f : A -> A -> bool) : list A -> list A -> bool :=
  fix go (xs ys : list A) {struct xs} : bool :=
    match xs, ys with
    | [], [] => true
    | x :: xs', y :: ys' => f x y && go xs' ys'
    | _, _ => false
    end.

Definition optZ_eqb (a b : option Z) : bool :=
  match a, b with
  | None, None => true
  | Some x, Some y => x =? y
  | _, _ => false
  end.

Fixpoint cfg_eqb (a b : cfg) {struct a} : bool :=
  match a, b with
  | Leaf r o, Leaf r' o' => Bool.eqb r r' && optZ_eqb o o'
  | Obj None, Obj None => true
  | Obj (Some x), Obj (Some y) => list_eqb cfg_eqb x y
  | Arr x, Arr y => list_eqb cfg_eqb x y
  | Map x, Map y => list_eqb (fun p q => (fst p =? fst q) && (snd p =? snd q)) x y
  | _, _ => false
  end.

Notation slo := (option (list cfg)).   (* the NodeSLO object of a node: None = does not exist *)

(* stored = None: the NodeSLO does not exist yet and is created with the computed spec;
   otherwise it is updated iff the computed spec differs from the stored one *)
Definition deliver_node (stored : slo) (c : list cfg) : list cfg :=
  match stored with
  | None => c
  | Some s => if list_eqb cfg_eqb c s then s else c
  end.

(* Reconcile(node i): the Node is gone -> the NodeSLO is deleted; otherwise created / updated *)
Definition reconcile_node (sds : list secdef) (mgs : list merged) (nd : option node) (stored : slo) : slo :=
  match nd with
  | None => None
  | Some n => Some (deliver_node stored (render n sds mgs))
  end.

Fixpoint reconcile_all (sds : list secdef) (mgs : list merged) (nodes : list (option node))
  (stored : list slo) : list slo :=
  match nodes with
  | [] => []
  | nd :: t => reconcile_node sds mgs nd (hd None stored) :: reconcile_all sds mgs t (tl stored)
  end.

(* the API objects the controller works on *)
Record world := mkWorld { w_h : state; w_nodes : list (option node); w_slo : list slo }.

Definition nodes_after (nodes : list (option node)) (o : op) : list (option node) :=
  match o with
  | ONode i nd => set_nth i nd nodes
  | _ => nodes
  end.

(* what third parties do to the NodeSLO objects; an overwritten spec is represented by [Some []],
   which differs from every computed spec of at least one section *)
Definition slo_after (stored : list slo) (o : op) : list slo :=
  match o with
  | OSloDel i => set_nth i None stored
  | OSloEdit i => match nth i stored None with Some _ => set_nth i (Some []) stored | None => stored end
  | _ => stored
  end.

(* one event, then the reconciliation of every probe node (node events, NodeSLO events and
   resyncs reconcile nodes at any time) *)
Definition wstep (m : mode) (sds : list secdef) (w : world) (o : op) : world :=
  let h := step m sds (w_h w) o in
  let nodes := nodes_after (w_nodes w) o in
  mkWorld h nodes (reconcile_all sds (st_secs h) nodes (slo_after (w_slo w) o)).

Definition winit (sds : list secdef) (nodes : list (option node)) : world :=
  mkWorld (init sds) nodes (map (fun _ => None) nodes).

(* the observation after every operation: the NodeSLO.Spec DELIVERED to every probe node *)
Fixpoint run_from (m : mode) (sds : list secdef) (w : world) (ops : list op) : list (list slo) :=
  match ops with
  | [] => []
  | o :: t => let w' := wstep m sds w o in w_slo w' :: run_from m sds w' t
  end.

(* ---------- the same history driven ONLY through what the event handlers enqueue ----------
   (production wiring, SetupWithManager: ConfigMap events -> SLOCfgHandlerForConfigMapEvent, which
   enqueues every listed Node iff the cache changed; Node events -> EnqueueRequestForNode, which
   enqueues the node on Create / Delete and on Update iff labels changed; NodeSLO events ->
   EnqueueRequestForObject; a restarted controller gets a Create event for every existing object) *)
Definition req_eqb (a b : req) : bool :=
  (r_key a =? r_key b) && (r_op a =? r_op b) && list_eqb Z.eqb (r_vals a) (r_vals b).

Definition sel_eqb (a b : selector) : bool :=
  match a, b with
  | None, None => true
  | Some x, Some y => list_eqb req_eqb x y
  | _, _ => false
  end.

Definition entry_eqb (a b : entry) : bool := sel_eqb (e_sel a) (e_sel b) && cfg_eqb (e_strat a) (e_strat b).

Definition merged_eqb (a b : merged) : bool :=
  cfg_eqb (mg_cluster a) (mg_cluster b) && list_eqb entry_eqb (mg_entries a) (mg_entries b).

Definition labels_eqb (a b : labels) : bool :=
  list_eqb (fun p q => (fst p =? fst q) && (snd p =? snd q)) a b.

Fixpoint existing {A} (k : nat) (l : list (option A)) : list nat :=
  match l with
  | [] => []
  | Some _ :: t => k :: existing (S k) t
  | None :: t => existing (S k) t
  end.

Definition is_some {A} (o : option A) : bool := match o with Some _ => true | None => false end.

(* the requests the handlers put on the work queue for one event; [h] = handler state before the
   event, [h1] after it *)
Definition enqueued (h h1 : state) (nodes : list (option node)) (stored : list slo) (o : op) : list nat :=
  match o with
  | OSync _ => if list_eqb merged_eqb (st_secs h) (st_secs h1) then [] else existing 0 nodes
  | ORestart => existing 0 nodes
  | ONode i (Some nd) =>
      match nth i nodes None with
      | Some old => if labels_eqb (n_labels old) (n_labels nd) then [] else [i]
      | None => [i]
      end
  | ONode i None | ONodeEv i => if is_some (nth i nodes None) then [i] else []
  | OSloDel i | OSloEdit i => if is_some (nth i stored None) then [i] else []
  | _ => []
  end.

Definition reconcile_at (sds : list secdef) (mgs : list merged) (nodes : list (option node))
  (stored : list slo) (i : nat) : list slo :=
  set_nth i (reconcile_node sds mgs (nth i nodes None) (nth i stored None)) stored.

Definition wstep_strict (m : mode) (sds : list secdef) (w : world) (o : op) : world :=
  let h1 := handle m sds (w_h w) o in
  let nodes := nodes_after (w_nodes w) o in
  let q := enqueued (w_h w) h1 (w_nodes w) (w_slo w) o in
  let h := if is_nil q then h1 else ensure_avail m sds h1 in
  mkWorld h nodes (fold_left (reconcile_at sds (st_secs h) nodes) q (slo_after (w_slo w) o)).

Fixpoint run_from_strict (m : mode) (sds : list secdef) (w : world) (ops : list op) : list (list slo) :=
  match ops with
  | [] => []
  | o :: t => let w' := wstep_strict m sds w o in w_slo w' :: run_from_strict m sds w' t
  end.

(* in_strict = false: after every event every probe node is reconciled;
   in_strict = true:  only what the handlers enqueue is reconciled *)
Record input := mkInput { in_secs : list secdef; in_nodes : list (option node); in_strict : bool;
                          in_ops : list op }.

Definition run (m : mode) (i : input) : list (list slo) :=
  (if in_strict i then run_from_strict else run_from)
    m (in_secs i) (winit (in_secs i) (in_nodes i)) (in_ops i).

(* ---------- flat wire encoding of a tree (inputs and observables use the same one) ----------
   0 | 1 v        Leaf false None | Some v          6 | 7 v   Leaf true None | Some v
   2 | 3 n f1..fn Obj None | Some                    4 n e1..en   Arr        5 n k1 v1 .. kn vn   Map *)
Fixpoint enc (c : cfg) : list Z :=
  match c with
  | Leaf false None => [0]
  | Leaf false (Some v) => [1; v]
  | Leaf true None => [6]
  | Leaf true (Some v) => [7; v]
  | Obj None => [2]
  | Obj (Some fs) => 3 :: Z.of_nat (length fs) :: flat_map enc fs
  | Arr xs => 4 :: Z.of_nat (length xs) :: flat_map enc xs
  | Map kvs => 5 :: Z.of_nat (length kvs) :: flat_map (fun kv => [fst kv; snd kv]) kvs
  end.

(* a node without NodeSLO is observed as the single integer -888888 *)
Definition no_slo : list Z := [-888888].

Definition enc_slo (s : slo) : list Z :=
  match s with
  | None => no_slo
  | Some cs => flat_map enc cs
  end.

Definition enc_obs (obs : list (list slo)) : list Z := flat_map (flat_map enc_slo) obs.
