(* C13 — proofs about what the driver evaluates on the mutate stream. *)
From Coq Require Import String List ZArith Bool Lia.
From Verif Require Import Lib.Wire Gen.Gen_consts Gen.Gen_funcs
  C13.Model C13.Spec C13.Codec C13.Check C13.Proofs C13.Proofs_mutate C13.Proofs_codec.
Import ListNotations.
Open Scope Z_scope.

Definition pod_is (r : option pod) (p : pod) : Prop := r = Some p.

(* prop_mutate without the wire codec of the observable: the same decision procedure
   (Spec.mutate_code, clauses 11/13, and clause 14) applied to the model's own pods *)
Definition prop_mutate_core_body (inp : list Z) : Z :=
  let '(e, ps, p) := dec_mutate inp in
  match admit_pod e OP_CREATE ps p with
  | None => 0
  | Some p1 =>
      let code := mutate_code KEYS (translating e ps p) (e_gate_noext e) p p1 in
      if negb (code =? 0) then code
      else match admit_pod e OP_UPDATE ps p1 with
           | Some p2 => if eq_listZ (enc_pod p2) (enc_pod p1) then 0 else 14
           | None => 14
           end
  end.

Definition prop_mutate_core (inp : list Z) : Z :=
  match untag TAG_MUTATE inp with Some body => prop_mutate_core_body body | None => 0 end.

Lemma eq_listZ_refl l : eq_listZ l l = true.
Proof. induction l; cbn; [reflexivity|]. rewrite Z.eqb_refl. exact IHl. Qed.

Lemma mutate_stream_core inp : prop_mutate_core inp = 0.
Proof.
  unfold prop_mutate_core. destruct (untag TAG_MUTATE inp) as [body|]; [|reflexivity].
  unfold prop_mutate_core_body. destruct (dec_mutate body) as [[e ps] p].
  destruct (admit_pod e OP_CREATE ps p) as [p1|] eqn:A; [|reflexivity].
  rewrite (create_code_zero KEYS e ps p p1 A). cbn [Z.eqb negb].
  rewrite (readmit_update e ps p p1 A), eq_listZ_refl. reflexivity.
Qed.

(* ------------------------------------------------------------------ objects for the non-vacuity Examples *)
Definition ex_lsr_pod : pod :=
  mkPod [(K_QOS, QoSLSR)] (Some PriorityProdValueMin) EmptyString []
        [mkC false [(R_CPU, 2 * nano); (R_MEM, 4096 * nano)] [(R_CPU, 2 * nano)]] [] None AnnAbsent [].
Definition ex_be_prod_pod : pod :=
  mkPod [(K_QOS, QoSBE)] (Some PriorityProdValueMax) EmptyString []
        [mkC false [(R_BCPU, 1000 * nano)] []] [] None AnnAbsent [].
(* a BE pod with fractional CPU, a limit-only container and an init container *)
Definition ex_batch_pod : pod :=
  mkPod [(K_QOS, QoSBE)] None EmptyString
        [mkC false [(R_CPU, 500000)] []]
        [mkC false [(R_CPU, 1500 * 1000000); (R_MEM, 1024 * nano)] [(R_CPU, 2 * nano)];
         mkC false [] [(R_MEM, 2048 * nano)]]
        [(R_CPU, 100 * 1000000)] None AnnAbsent [].
Definition ex_profile : profile :=
  mkProf 1 SelNil SelAll None false [] [] [] EmptyString (PcValue PriorityBatchValueMin) None [] [].
Definition ex_env : env := mkEnv (Some []) 0 false false.
Definition ex_batch_pod_admitted : pod :=
  mkPod [(K_QOS, QoSBE)] (Some PriorityBatchValueMin) EmptyString
        [mkC false [(R_BCPU, 1 * nano)] []]
        [mkC false [(R_BMEM, 1024 * nano); (R_BCPU, 1500 * nano)] [(R_BCPU, 2000 * nano)];
         mkC false [(R_BMEM, 2048 * nano)] [(R_BMEM, 2048 * nano)]]
        [(R_BCPU, 100 * nano)] None
        (AnnSpec [(0, ((Some (1500 * nano), Some (1024 * nano)), (Some (2000 * nano), None)));
                  (1, ((None, Some (2048 * nano)), (None, Some (2048 * nano))))]) [].
