(* C13 — proofs about what the driver evaluates on the mutate stream. *)
From Coq Require Import String List ZArith Bool Lia.
From Verif Require Import Lib.Wire Gen.Gen_consts Gen.Gen_funcs
  C13.Model C13.Spec C13.Codec C13.Check C13.Proofs C13.Proofs_mutate.
Import ListNotations.
Open Scope Z_scope.

Definition pod_is (r : option pod) (p : pod) : Prop := r = Some p.

(* prop_mutate without the wire codec of the observable: the same decision procedure
   (Spec.mutate_code, clauses 11/13, and clause 14) applied to the model's own pods *)
Definition prop_mutate_core (inp : list Z) : Z :=
  let '(e, ps, p) := dec_mutate inp in
  match admit_pod e OP_CREATE ps p with
  | None => 0
  | Some p1 =>
      let code := mutate_code KEYS (translating e ps p) (e_gate_noext e) p p1 in
      if negb (code =? 0) then code
      else match admit_pod e OP_UPDATE ps p1 with
           | Some p2 => if eq_listZ (enc_pod p2) (enc_pod p1) then 0 else 14
           | None => 14
           end
  end.

Lemma eq_listZ_refl l : eq_listZ l l = true.
Proof. induction l; cbn; [reflexivity|]. rewrite Z.eqb_refl. exact IHl. Qed.

Lemma mutate_stream_core inp : prop_mutate_core inp = 0.
Proof.
  unfold prop_mutate_core. destruct (dec_mutate inp) as [[e ps] p].
  destruct (admit_pod e OP_CREATE ps p) as [p1|] eqn:A; [|reflexivity].
  rewrite (create_code_zero KEYS e ps p p1 A). cbn [Z.eqb negb].
  rewrite (readmit_update e ps p p1 A), eq_listZ_refl. reflexivity.
Qed.
