(* C13 — exported theorems only: each is closed by [exact] and followed by Print Assumptions. *)
From Coq Require Import String List ZArith Bool.
From Verif Require Import Gen.Gen_consts Gen.Gen_funcs C13.Model C13.Spec C13.Proofs.
Open Scope Z_scope.

Theorem c13_seqb_eq : forall a b, seqb a b = true <-> a = b.
Proof. exact seqb_eq. Qed.
Print Assumptions c13_seqb_eq.
