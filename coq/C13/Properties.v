(* C13 — exported theorems only: each is closed by [exact] and followed by Print Assumptions;
   non-vacuity Examples at the end. *)
From Coq Require Import String List ZArith Bool.
From Verif Require Import Gen.Gen_consts Gen.Gen_funcs
  C13.Model C13.Spec C13.Codec C13.Check C13.Proofs C13.Proofs_mutate C13.Proofs_codec C13.Proofs_stream
  C13.Proofs_readmit.
Import ListNotations.
Open Scope Z_scope.

(* ================================================================== generated definitions *)
(* the four priority bands of apis/extension/priority.go are ordered and disjoint, and
   getPriorityClassByPriority maps a value to a class iff it lies in that class's band;
   everything between and outside the bands has no class *)
Theorem c13_bands_ordered :
  PriorityFreeValueMin <= PriorityFreeValueMax /\ PriorityFreeValueMax < PriorityBatchValueMin
  /\ PriorityBatchValueMin <= PriorityBatchValueMax /\ PriorityBatchValueMax < PriorityMidValueMin
  /\ PriorityMidValueMin <= PriorityMidValueMax /\ PriorityMidValueMax < PriorityProdValueMin
  /\ PriorityProdValueMin <= PriorityProdValueMax.
Proof. exact bands_ordered. Qed.
Print Assumptions c13_bands_ordered.

Theorem c13_bands_disjoint_cover : forall p,
  (getPriorityClassByPriority p = PriorityProd <-> in_band PriorityProdValueMin PriorityProdValueMax p)
  /\ (getPriorityClassByPriority p = PriorityMid <-> in_band PriorityMidValueMin PriorityMidValueMax p)
  /\ (getPriorityClassByPriority p = PriorityBatch <-> in_band PriorityBatchValueMin PriorityBatchValueMax p)
  /\ (getPriorityClassByPriority p = PriorityFree <-> in_band PriorityFreeValueMin PriorityFreeValueMax p)
  /\ (getPriorityClassByPriority p = PriorityNone <->
        ~ in_band PriorityProdValueMin PriorityProdValueMax p
        /\ ~ in_band PriorityMidValueMin PriorityMidValueMax p
        /\ ~ in_band PriorityBatchValueMin PriorityBatchValueMax p
        /\ ~ in_band PriorityFreeValueMin PriorityFreeValueMax p).
Proof. exact bands_disjoint_cover. Qed.
Print Assumptions c13_bands_disjoint_cover.

(* ================================================================== validating webhook *)
(* every admitted pod, on every operation, with or without the priority gate *)
Theorem c13_admitted_sound : forall g op old new,
  allowed g op old new = true -> C13_admitted op old new.
Proof. exact admitted_sound. Qed.
Print Assumptions c13_admitted_sound.

Theorem c13_pairs : forall g op old new,
  allowed g op old new = true ->
  (qos_raw new = QoSBE -> pclass_raw new <> PriorityNone /\ pclass_raw new <> PriorityProd)
  /\ (qos_raw new = QoSLSR -> pclass_raw new = PriorityProd).
Proof. exact pairs_thm. Qed.
Print Assumptions c13_pairs.

Theorem c13_whole_cpus : forall g op old new,
  allowed g op old new = true ->
  qos_raw new = QoSLSR \/ qos_raw new = QoSLSE ->
  pod_request new R_CPU <> 0 /\ milli_value (pod_request new R_CPU) mod 1000 = 0.
Proof. exact whole_cpus_thm. Qed.
Print Assumptions c13_whole_cpus.

(* what "whole" means below the milli-core: the implementation's test
   Value()*1000 == MilliValue() accepts exactly the amounts within one milli-core below an
   integer number of CPUs (amounts in nano-cores) *)
Theorem c13_whole_cpus_exact : forall q,
  (unit_value q * 1000 = milli_value q <-> milli_value q mod 1000 = 0)
  /\ (milli_value q mod 1000 = 0 <-> exists n, nano * n - 1000000 < q <= nano * n).
Proof. exact whole_exact_thm. Qed.
Print Assumptions c13_whole_cpus_exact.

(* ... so in exact arithmetic a non-integer amount is admitted (finding C13-submilli-cpu) *)
Theorem c13_whole_cpus_strict_refuted :
  exists p, allowed false OP_CREATE p p = true /\ qos_raw p = QoSLSR
            /\ pod_request p R_CPU mod nano <> 0.
Proof. exact whole_strict_refuted. Qed.
Print Assumptions c13_whole_cpus_strict_refuted.

Theorem c13_batch_only_be : forall g op old new,
  allowed g op old new = true ->
  pod_request new R_BCPU <> 0 \/ pod_request new R_BMEM <> 0 -> qos_raw new = QoSBE.
Proof. exact batch_only_be_thm. Qed.
Print Assumptions c13_batch_only_be.

Theorem c13_immutable : forall g old new,
  allowed g OP_UPDATE old new = true ->
  qos_raw new = qos_raw old /\ pclass_raw new = pclass_raw old.
Proof. exact immutable_thm. Qed.
Print Assumptions c13_immutable.

(* the complete decision table: a request is admitted iff the five clauses hold and, on
   update with the gate off, the koordinator.sh/priority label is unchanged *)
Theorem c13_validate_complete : forall g op old new,
  allowed g op old new = true <->
    C13_admitted op old new
    /\ (op = OP_UPDATE -> g = false -> lval K_PRIO (p_labels new) = lval K_PRIO (p_labels old)).
Proof. exact admitted_complete. Qed.
Print Assumptions c13_validate_complete.

(* the pod's request honours pod-level resources (spec.resources.requests) for cpu and memory:
   they replace the aggregate of the containers, overhead is still added; reclaimed resources
   cannot be requested at pod level *)
Theorem c13_pod_level_cpu : forall p rq lm q,
  p_plres p = Some (rq, lm) -> rget R_CPU rq = Some q ->
  pod_request p R_CPU = q + rval R_CPU (p_overhead p).
Proof. exact pod_level_cpu. Qed.
Print Assumptions c13_pod_level_cpu.

Theorem c13_pod_level_other : forall p r,
  r <> R_CPU -> r <> R_MEM -> pod_request p r = containers_request p r + rval r (p_overhead p).
Proof. exact pod_level_other. Qed.
Print Assumptions c13_pod_level_other.

(* Spec connection and what the driver runs on the validate stream *)
Theorem c13_validate_code_spec : forall op old new,
  validate_code op old new true = 0 <-> C13_admitted op old new.
Proof. exact validate_code_spec. Qed.
Print Assumptions c13_validate_code_spec.

Theorem c13_validate_stream : forall inp, prop_validate inp (run_validate inp) = 0.
Proof. exact validate_stream_holds. Qed.
Print Assumptions c13_validate_stream.

(* ================================================================== mutating webhook *)
(* main theorem: after any successful Create admission (any profile set, namespace, gates,
   random draw) the pod satisfies the property relative to the submitted pod, on every
   resource name *)
Theorem c13_mutated : forall keys e ps p pout,
  admit_pod e OP_CREATE ps p = Some pout ->
  C13_mutated keys (translating e ps p) (e_gate_noext e) p pout.
Proof. exact create_mutated. Qed.
Print Assumptions c13_mutated.

(* per container, in words of the property: native entries removed, amounts kept (CPU in
   milli-cores), the request defaulted from the limit only when it is absent *)
Theorem c13_translate_preserves : forall cls c n e,
  ext_name cls n = Some e ->
  let c' := translate_container cls c in
  rget n (c_req c') = None /\ rget n (c_lim c') = None
  /\ (forall q, rget n (c_lim c) = Some q -> rget e (c_lim c') = Some (to_ext n q))
  /\ (rget n (c_lim c) = None -> rget e (c_lim c') = rget e (c_lim c))
  /\ (forall q, rget n (c_req c) = Some q -> rget e (c_req c') = Some (to_ext n q))
  /\ (forall v, rget n (c_req c) = None -> rget e (c_req c) = Some v -> rget e (c_req c') = Some v)
  /\ (rget n (c_req c) = None -> rget e (c_req c) = None -> rget e (c_req c') = rget e (c_lim c')).
Proof. exact translate_preserves. Qed.
Print Assumptions c13_translate_preserves.

Theorem c13_translate_frame : forall cls c k,
  ext_name cls k = None -> native_of_ext cls k = None ->
  rget k (c_req (translate_container cls c)) = rget k (c_req c)
  /\ rget k (c_lim (translate_container cls c)) = rget k (c_lim c).
Proof. exact translate_frame. Qed.
Print Assumptions c13_translate_frame.

Theorem c13_milli_is_ceiling : forall q, 1000000 * (milli_value q - 1) < q <= 1000000 * milli_value q.
Proof. exact milli_ceiling. Qed.
Print Assumptions c13_milli_is_ceiling.

(* the summary annotation is exactly the batch entries of the final containers *)
Theorem c13_spec_matches_final : forall e ps p pout,
  admit_pod e OP_CREATE ps p = Some pout -> ann_ok (e_gate_noext e) p pout.
Proof. exact spec_matches_final. Qed.
Print Assumptions c13_spec_matches_final.

Theorem c13_mutate_code_spec : forall keys en noext pin pout,
  mutate_code keys en noext pin pout = 0 <-> C13_mutated keys en noext pin pout.
Proof. exact mutate_code_spec. Qed.
Print Assumptions c13_mutate_code_spec.

(* admitting the result again changes nothing: the translation and the annotation are
   idempotent, re-admission as Update returns the same pod, the verdict is unchanged *)
Theorem c13_translate_idempotent : forall cls p,
  translate_pod cls (translate_pod cls p) = translate_pod cls p.
Proof. exact translate_pod_idem. Qed.
Print Assumptions c13_translate_idempotent.

Theorem c13_idempotent : forall e ps p p1,
  admit_pod e OP_CREATE ps p = Some p1 ->
  admit_pod e OP_UPDATE ps p1 = Some p1
  /\ forall p2, admit_pod e OP_UPDATE ps p1 = Some p2 ->
       p2 = p1 /\ forall g op old, validate g op old p2 = validate g op old p1.
Proof. exact idempotent_thm. Qed.
Print Assumptions c13_idempotent.

(* re-admission as Create: excluded from the claim is the profile patching itself
   (labelSuffixes append again, a changed label set can match other profiles, a profile may
   write the summary annotation itself); the exclusion is the four hypotheses.  Annotations
   other than the summary are outside the property and may be rewritten by the profiles. *)
Theorem c13_idempotent_create : forall e ps p p1 p3,
  admit_pod e OP_CREATE ps p = Some p1 ->
  admit_pod e OP_CREATE ps p1 = Some p3 ->
  p_labels p3 = p_labels p1 -> p_prio p3 = p_prio p1 ->
  translating e ps p1 = translating e ps p ->
  touches_summary e ps p1 = false ->
  p3 = set_oann (p_oann p3) p1.
Proof. exact readmit_create. Qed.
Print Assumptions c13_idempotent_create.

(* the same with lookups instead of list equality on the labels: whatever the re-applied
   profiles do to labels that carry no identity, the rest of the pod is unchanged *)
Theorem c13_idempotent_create_sem : forall e ps p p1 p3,
  admit_pod e OP_CREATE ps p = Some p1 ->
  admit_pod e OP_CREATE ps p1 = Some p3 ->
  lget K_QOS (p_labels p3) = lget K_QOS (p_labels p1) ->
  lget K_PCLASS (p_labels p3) = lget K_PCLASS (p_labels p1) ->
  p_prio p3 = p_prio p1 ->
  translating e ps p1 = translating e ps p ->
  touches_summary e ps p1 = false ->
  p3 = set_oann (p_oann p3) (set_labels (p_labels p3) p1).
Proof. exact readmit_create_sem. Qed.
Print Assumptions c13_idempotent_create_sem.

(* the same claim with every hypothesis on the OUTPUT replaced by a structural condition on
   the INPUT profile set (no labelKeysMapping / labelSuffixes, pod selectors independent of the
   label keys the profiles write, no profile writes the summary annotation): the second
   admission succeeds and changes nothing but, possibly, the order of labels and annotations
   other than the summary *)
Theorem c13_idempotent_create_stable : forall e ps p p1 p3,
  stable_profiles ps = true ->
  admit_pod e OP_CREATE ps p = Some p1 ->
  admit_pod e OP_CREATE ps p1 = Some p3 ->
  p3 = set_oann (p_oann p3) (set_labels (p_labels p3) p1)
  /\ (forall k, lget k (p_labels p3) = lget k (p_labels p1))
  /\ p_prio p3 = p_prio p1.
Proof. exact readmit_create_stable. Qed.
Print Assumptions c13_idempotent_create_stable.

Theorem c13_idempotent_create_stable_total : forall e ps p p1,
  stable_profiles ps = true ->
  admit_pod e OP_CREATE ps p = Some p1 ->
  exists p3, admit_pod e OP_CREATE ps p1 = Some p3.
Proof. exact readmit_create_stable_total. Qed.
Print Assumptions c13_idempotent_create_stable_total.

(* no profile ever removes the summary annotation (profiles only write annotations) *)
Theorem c13_profiles_keep_summary : forall e ps p p1,
  profile_step e ps p = Some p1 -> p_ann p1 = AnnAbsent -> p_ann p = AnnAbsent.
Proof. exact profile_step_ann. Qed.
Print Assumptions c13_profiles_keep_summary.

(* what the driver runs on the mutate stream: the decision procedure, including the wire
   codec of the observable, accepts the model's own observable for every input whose profile
   selectors look only at observed label keys *)
Theorem c13_mutate_stream : forall inp,
  wf_mutate inp = true -> prop_mutate inp (run_mutate inp) = 0.
Proof. exact mutate_stream_holds. Qed.
Print Assumptions c13_mutate_stream.

(* the observable codec loses nothing the observation contains *)
Theorem c13_codec_roundtrip : forall p r, dec_obs_pod (enc_pod p ++ r) = (proj_pod p, r).
Proof. exact dec_obs_pod_enc. Qed.
Print Assumptions c13_codec_roundtrip.

(* ================================================================== non-vacuity *)
Example ex_admitted : allowed false OP_CREATE ex_lsr_pod ex_lsr_pod = true.
Proof. vm_compute. reflexivity. Qed.
Example ex_rejected : validate false OP_CREATE ex_be_prod_pod ex_be_prod_pod = E_PAIR_BE.
Proof. vm_compute. reflexivity. Qed.
Example ex_update_rejected :
  validate false OP_UPDATE ex_be_prod_pod ex_lsr_pod = E_IMMUT_QOS.
Proof. vm_compute. reflexivity. Qed.
Example ex_ext_name : ext_name PriorityBatch R_CPU = Some R_BCPU /\ ext_name PriorityMid R_MEM = Some R_MMEM.
Proof. vm_compute. split; reflexivity. Qed.
(* a Create admission that translates (0.0005 CPU -> 1 milli-core, limit-only container gets
   its request) and writes the annotation *)
Example ex_translated :
  admit_pod ex_env OP_CREATE [ex_profile] ex_batch_pod = Some ex_batch_pod_admitted
  /\ translating ex_env [ex_profile] ex_batch_pod = true.
Proof. vm_compute. split; reflexivity. Qed.
(* the hypotheses of c13_idempotent_create are satisfiable *)
Example ex_readmit_create :
  admit_pod ex_env OP_CREATE [ex_profile] ex_batch_pod_admitted = Some ex_batch_pod_admitted
  /\ translating ex_env [ex_profile] ex_batch_pod_admitted = translating ex_env [ex_profile] ex_batch_pod.
Proof. vm_compute. split; reflexivity. Qed.
Example ex_stable : stable_profiles [ex_profile] = true /\ touches_summary ex_env [ex_profile] ex_batch_pod_admitted = false.
Proof. vm_compute. split; reflexivity. Qed.
(* pod-level resources decide: 1.5 CPUs in the containers, 2 CPUs at pod level: admitted *)
Example ex_pod_level :
  allowed false OP_CREATE ex_plres_pod ex_plres_pod = true
  /\ pod_request ex_plres_pod R_CPU = 2 * nano /\ containers_request ex_plres_pod R_CPU = 1500 * 1000000.
Proof. vm_compute. repeat split; reflexivity. Qed.
(* a non-trivial wire input (the pod of ex_translated) satisfying the hypothesis of c13_mutate_stream *)
Example ex_wf_input :
  let inp := [102; 1; 0; 0; 0; 0; 1; 1; 0; 0; 0; 1; 0; 0; 0; 0; 0; 0; 0; 0; 0; 2; 5000; 0; 0; 0; 0;
              1; 0; 2; 66; 69; 0; 0; 0; 1; 0; 1; 0; 500; 1; 0; 2; 0; 2; 0; 1500; 2; 1; 1024; 3;
              1; 0; 2; 3; 0; 0; 1; 1; 2048; 3; 1; 0; 100; 2; 0; 0; 0] in
  wf_mutate inp = true /\ nontrivial_mutate inp = true
  /\ run_mutate inp = run_mutate_body (tl inp)
  /\ (let '(e, ps, p) := dec_mutate (tl inp) in
      admit_pod e OP_CREATE ps p = admit_pod ex_env OP_CREATE [ex_profile] ex_batch_pod
      \/ enc_result (admit_pod e OP_CREATE ps p) = enc_result (Some ex_batch_pod_admitted)).
Proof. vm_compute. repeat split. right. reflexivity. Qed.
