(* C13, stream "validate" — flat-integer interface for the generic OCaml driver. *)
From Coq Require Import String List ZArith Bool.
From Verif Require Import Lib.Wire Gen.Gen_consts C13.Model C13.Spec C13.Codec C13.Check.
Import ListNotations.
Open Scope Z_scope.

Definition run_case (inp : list Z) : list Z := run_validate inp.

(* the property decided on the IMPLEMENTATION's verdict *)
Definition prop_case (inp obs : list Z) : Z := prop_validate inp obs.

Definition nontrivial_case (inp : list Z) : bool := nontrivial_validate inp.

Definition finding_sig (inp obs : list Z) : Z := 0.

Require Extraction.
Require Import ExtrOcamlBasic.
Extraction "model.ml" run_case prop_case nontrivial_case finding_sig.
