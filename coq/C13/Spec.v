(* C13 — the property as Props over (input, observable) and its decision procedures.
   Part V (validating webhook): what every admitted pod satisfies.
   Part M (mutating webhook):   what the pod looks like after the tier translation and the
                                summary annotation, relative to the pod that was submitted. *)
From Coq Require Import String List ZArith Bool.
From Verif Require Import Gen.Gen_consts Gen.Gen_funcs C13.Model.
Import ListNotations.
Open Scope Z_scope.

(* ================================================================== Part V *)
(* clause 1, 2: permitted QoS / priority-class pairs *)
Definition pair_be_ok (p : pod) : Prop :=
  qos_raw p = QoSBE -> pclass_raw p <> PriorityNone /\ pclass_raw p <> PriorityProd.
Definition pair_lsr_ok (p : pod) : Prop :=
  qos_raw p = QoSLSR -> pclass_raw p = PriorityProd.
(* clause 3: LSR/LSE pods declare CPUs and the declared amount is a whole number of CPUs,
   read the way every consumer reads a CPU quantity, i.e. in milli-cores *)
Definition whole_cpus (p : pod) : Prop :=
  qos_raw p = QoSLSR \/ qos_raw p = QoSLSE ->
  pod_request p R_CPU <> 0 /\ milli_value (pod_request p R_CPU) mod 1000 = 0.
(* clause 4: reclaimed (batch) resources only for BE *)
Definition batch_only_be (p : pod) : Prop :=
  pod_request p R_BCPU <> 0 \/ pod_request p R_BMEM <> 0 -> qos_raw p = QoSBE.
(* clause 5, 6: immutability on update *)
Definition immutable_ok (op : Z) (old new : pod) : Prop :=
  op = OP_UPDATE -> qos_raw new = qos_raw old /\ pclass_raw new = pclass_raw old.

Definition C13_admitted (op : Z) (old new : pod) : Prop :=
  pair_be_ok new /\ pair_lsr_ok new /\ whole_cpus new /\ batch_only_be new /\ immutable_ok op old new.

(* decision procedure on the implementation's verdict: 0 = holds, else first failing clause *)
Definition validate_code (op : Z) (old new : pod) (admitted : bool) : Z :=
  if negb admitted then 0
  else if seqb (qos_raw new) QoSBE
          && (seqb (pclass_raw new) PriorityNone || seqb (pclass_raw new) PriorityProd) then 1
  else if seqb (qos_raw new) QoSLSR && negb (seqb (pclass_raw new) PriorityProd) then 2
  else if (seqb (qos_raw new) QoSLSR || seqb (qos_raw new) QoSLSE)
          && ((pod_request new R_CPU =? 0)
              || negb (milli_value (pod_request new R_CPU) mod 1000 =? 0)) then 3
  else if negb ((pod_request new R_BCPU =? 0) && (pod_request new R_BMEM =? 0))
          && negb (seqb (qos_raw new) QoSBE) then 4
  else if (op =? OP_UPDATE) && negb (seqb (qos_raw new) (qos_raw old)) then 5
  else if (op =? OP_UPDATE) && negb (seqb (pclass_raw new) (pclass_raw old)) then 6
  else 0.

(* ================================================================== Part M *)
Definition opt_eqb (a b : option Z) : bool :=
  match a, b with
  | Some x, Some y => x =? y
  | None, None => true
  | _, _ => false
  end.

(* from-scratch description of a translated resource list: what is found under name k *)
Definition native_of_ext (cls : string) (k : Z) : option Z :=
  if opt_eqb (ext_name cls R_CPU) (Some k) then Some R_CPU
  else if opt_eqb (ext_name cls R_MEM) (Some k) then Some R_MEM
  else None.
Definition spec_res (cls : string) (rin : reslist) (k : Z) : option Z :=
  match ext_name cls k with
  | Some _ => None                                     (* translated native names are gone *)
  | None =>
      match native_of_ext cls k with
      | Some n => match rget n rin with
                  | Some q => Some (to_ext n q)        (* the declared amount, CPU in milli *)
                  | None => rget k rin                 (* nothing declared: untouched *)
                  end
      | None => rget k rin                             (* every other name: untouched *)
      end
  end.
(* requests: an absent extended request is defaulted from the (translated) limit *)
Definition spec_req (cls : string) (req lim : reslist) (k : Z) : option Z :=
  match spec_res cls req k with
  | Some v => Some v
  | None => match native_of_ext cls k with
            | Some _ => spec_res cls lim k
            | None => None
            end
  end.

Definition KEYS : list Z := [0; 1; 2; 3; 4; 5; 6].

Definition container_translated (keys : list Z) (cls : string) (cin cout : container) : Prop :=
  forall k, In k keys ->
    rget k (c_req cout) = spec_req cls (c_req cin) (c_lim cin) k
    /\ rget k (c_lim cout) = spec_res cls (c_lim cin) k.
Definition container_same (keys : list Z) (cin cout : container) : Prop :=
  forall k, In k keys ->
    rget k (c_req cout) = rget k (c_req cin) /\ rget k (c_lim cout) = rget k (c_lim cin).

(* the pod whose class decides the translation: identity (labels, priority) as admitted,
   resources as declared *)
Definition with_identity (pout pin : pod) : pod :=
  mkPod (p_labels pout) (p_prio pout) (p_status_qos pin) (p_init pin) (p_ctrs pin)
        (p_overhead pin) (p_plres pin) (p_ann pin) (p_oann pin).
Definition tier_class (cls : string) : bool := seqb cls PriorityBatch || seqb cls PriorityMid.

(* pod-level resources (spec.resources) are not container resources: the webhook leaves them
   exactly as submitted *)
Definition plres_same (keys : list Z) (a b : option (reslist * reslist)) : Prop :=
  match a, b with
  | None, None => True
  | Some (r1, l1), Some (r2, l2) =>
      forall k, In k keys -> rget k r2 = rget k r1 /\ rget k l2 = rget k l1
  | _, _ => False
  end.

Definition resources_ok (keys : list Z) (enabled : bool) (pin pout : pod) : Prop :=
  let cls := pclass_with_default (with_identity pout pin) in
  plres_same keys (p_plres pin) (p_plres pout) /\
  if enabled && tier_class cls then
    Forall2 (container_translated keys cls) (p_init pin) (p_init pout)
    /\ Forall2 (container_translated keys cls) (p_ctrs pin) (p_ctrs pout)
    /\ (forall k, In k keys -> rget k (p_overhead pout) = spec_res cls (p_overhead pin) k)
  else
    Forall2 (container_same keys) (p_init pin) (p_init pout)
    /\ Forall2 (container_same keys) (p_ctrs pin) (p_ctrs pout)
    /\ (forall k, In k keys -> rget k (p_overhead pout) = rget k (p_overhead pin)).

(* the summary annotation is exactly the batch entries of the final containers *)
Definition ann_ok (noext : bool) (pin pout : pod) : Prop :=
  noext = false ->
  match p_ann pout with
  | AnnSpec s => s = build_spec 0 (p_ctrs pout)
  | AnnAbsent => build_spec 0 (p_ctrs pout) = [] /\ p_ann pin = AnnAbsent
  | AnnBad => False
  end.

Definition C13_mutated (keys : list Z) (enabled noext : bool) (pin pout : pod) : Prop :=
  resources_ok keys enabled pin pout /\ ann_ok noext pin pout.

(* ---------- boolean versions ---------- *)
Fixpoint forallb2 {A B} (f : A -> B -> bool) (l1 : list A) (l2 : list B) : bool :=
  match l1, l2 with
  | [], [] => true
  | a :: t1, b :: t2 => f a b && forallb2 f t1 t2
  | _, _ => false
  end.

Definition container_translatedb (keys : list Z) (cls : string) (cin cout : container) : bool :=
  forallb (fun k => opt_eqb (rget k (c_req cout)) (spec_req cls (c_req cin) (c_lim cin) k)
                    && opt_eqb (rget k (c_lim cout)) (spec_res cls (c_lim cin) k)) keys.
Definition container_sameb (keys : list Z) (cin cout : container) : bool :=
  forallb (fun k => opt_eqb (rget k (c_req cout)) (rget k (c_req cin))
                    && opt_eqb (rget k (c_lim cout)) (rget k (c_lim cin))) keys.

Definition plres_sameb (keys : list Z) (a b : option (reslist * reslist)) : bool :=
  match a, b with
  | None, None => true
  | Some (r1, l1), Some (r2, l2) =>
      forallb (fun k => opt_eqb (rget k r2) (rget k r1) && opt_eqb (rget k l2) (rget k l1)) keys
  | _, _ => false
  end.

Definition resources_okb (keys : list Z) (enabled : bool) (pin pout : pod) : bool :=
  let cls := pclass_with_default (with_identity pout pin) in
  plres_sameb keys (p_plres pin) (p_plres pout) &&
  if enabled && tier_class cls then
    forallb2 (container_translatedb keys cls) (p_init pin) (p_init pout)
    && forallb2 (container_translatedb keys cls) (p_ctrs pin) (p_ctrs pout)
    && forallb (fun k => opt_eqb (rget k (p_overhead pout)) (spec_res cls (p_overhead pin) k)) keys
  else
    forallb2 (container_sameb keys) (p_init pin) (p_init pout)
    && forallb2 (container_sameb keys) (p_ctrs pin) (p_ctrs pout)
    && forallb (fun k => opt_eqb (rget k (p_overhead pout)) (rget k (p_overhead pin))) keys.

Definition econt_eqb (x y : econt) : bool :=
  let '((a, b), (c, d)) := x in
  let '((a', b'), (c', d')) := y in
  opt_eqb a a' && opt_eqb b b' && opt_eqb c c' && opt_eqb d d'.
Fixpoint espec_eqb (x y : espec) : bool :=
  match x, y with
  | [], [] => true
  | (i, e) :: t, (i', e') :: t' => (i =? i') && econt_eqb e e' && espec_eqb t t'
  | _, _ => false
  end.
Definition is_nil {A} (l : list A) : bool := match l with [] => true | _ => false end.
Definition ann_okb (noext : bool) (pin pout : pod) : bool :=
  noext ||
  match p_ann pout with
  | AnnSpec s => espec_eqb s (build_spec 0 (p_ctrs pout))
  | AnnAbsent => is_nil (build_spec 0 (p_ctrs pout))
                 && match p_ann pin with AnnAbsent => true | _ => false end
  | AnnBad => false
  end.

(* 0 = holds; 11 translated amounts / erasure / frame; 13 annotation *)
Definition mutate_code (keys : list Z) (enabled noext : bool) (pin pout : pod) : Z :=
  if negb (resources_okb keys enabled pin pout) then 11
  else if negb (ann_okb noext pin pout) then 13
  else 0.

(* whether the Create admission of pod p runs the tier translation at all *)
Definition translating (e : env) (ps : list profile) (p : pod) : bool :=
  match filter (profile_matches e p) ps with
  | [] => false
  | matched => translation_enabled e matched
  end.

(* whether the Create admission of pod p applies a profile that writes the summary annotation
   itself (spec.annotations or annotationKeysMapping aimed at its key) *)
Definition writes_summary (pf : profile) : bool :=
  existsb (fun kv => fst kv =? A_SPEC) (pf_anns pf)
  || existsb (fun on => snd on =? A_SPEC) (pf_akmap pf).
Definition touches_summary (e : env) (ps : list profile) (p : pod) : bool :=
  existsb writes_summary (filter (profile_matches e p) ps).
