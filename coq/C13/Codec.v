(* C13 — flat-integer wire format of pods, profiles and observables (shared by the two
   Extract_*.v files and by the theorems that speak about what the driver runs).

   strings    [len b1..bn]                         bytes
   quantity   [mant code]                          value = mant * qty_mult code nano-units
   reslist    [n (key mant code)*n]                later entries win
   container  [sidecar reslist(requests) reslist(limits)]
   labels     [n (key string)*n]
   ann        [0] | [1] | [2 n (idx (present mant code)*4)*n]
   annval     [1] | [2 n (idx (present mant code)*4)*n]        (ann without the "absent" case)
   pod        labels [present prio] string(status qos) [n container*n](init) [n container*n]
              reslist(overhead) ([0] | [1 reslist(requests) reslist(limits)])(spec.resources)
              ann [n (key ann)*n](other annotations)
   selector   [kind key string]      kind 0 nil, 1 empty, 2 matchLabels, 3 invalid
   profile    [name selector(ns) selector(pod) [kind n](probability) skipres labels
               [n (old new)*n] [n (key string)*n] string(qos) [kind value](priority class)
               [present value](koordinator priority)
               [n (key ann)*n](annotations) [n (old new)*n](annotationKeysMapping)]
               annotation key 0 = the summary annotation, >= 1 other keys
   env        [ns_present labels rand gate_skipres gate_noext]
   every input is prefixed by its stream tag (101 validate, 102 mutate)

   observed pod: labels  (present string) for keys 0..4
                 [present prio]
                 [n  (requests: (present hi lo) for keys 0..6, limits: same)*n]   init
                 [n  ...]                                                          containers
                 overhead: (present hi lo) for keys 0..6
                 spec.resources: [present requests limits]   (both lists as above, zeros when absent)
                 ann: [0] | [2] | [1 n (idx (present hi lo)*4)*n]
   amount = hi*10^18 + lo  nano-units. *)
From Coq Require Import String Ascii List ZArith Bool.
From Verif Require Import Lib.Wire C13.Model.
Import ListNotations.
Open Scope Z_scope.

(* ------------------------------------------------------------------ input side *)
Fixpoint string_of_zs (l : list Z) : string :=
  match l with
  | [] => EmptyString
  | b :: t => String (ascii_of_N (Z.to_N b)) (string_of_zs t)
  end.
Fixpoint zs_of_string (s : string) : list Z :=
  match s with
  | EmptyString => []
  | String a t => Z.of_N (N_of_ascii a) :: zs_of_string t
  end.

Definition dec_str (l : list Z) : string * list Z :=
  let '(bs, r) := take_list l in (string_of_zs bs, r).

Definition qty_mult (code : Z) : Z :=
  match code with
  | 0 => 1                          (* n *)
  | 1 => 1000                       (* u *)
  | 2 => 1000000                    (* m *)
  | 3 => nano                       (* plain *)
  | 4 => nano * 1000                (* k *)
  | 5 => nano * 1000000             (* M *)
  | 6 => nano * 1000000000          (* G *)
  | 7 => nano * 1024                (* Ki *)
  | 8 => nano * 1048576             (* Mi *)
  | 9 => nano * 1073741824          (* Gi *)
  | 10 => 100000000                 (* one decimal place  x.y *)
  | 11 => 1000000                   (* three decimal places *)
  | 12 => 100000                    (* four decimal places *)
  | 13 => 1                         (* nine decimal places *)
  | 14 => 1000000                   (* exponent notation  <mant>e-3 *)
  | 15 => nano * 1000               (* <mant>e3 *)
  | 16 => nano * 1099511627776      (* Ti *)
  | 17 => nano * 1125899906842624   (* Pi *)
  | 18 => nano                      (* explicit sign  +<mant> *)
  | 19 => 1000                      (* <mant>E-6 *)
  | _ => nano
  end.
Definition dec_qty (mant code : Z) : Z := mant * qty_mult code.

Definition dec_res1 (l : list Z) : (Z * Z) * list Z :=
  match l with
  | k :: m :: c :: r => ((k, dec_qty m c), r)
  | _ => ((0, 0), [])
  end.
Definition dec_reslist (l : list Z) : reslist * list Z :=
  let '(kvs, r) := decode_seq dec_res1 l in
  (fold_left (fun acc kv => rset (fst kv) (snd kv) acc) kvs [], r).

Definition dec_container (l : list Z) : container * list Z :=
  match l with
  | s :: r0 =>
      let '(req, r1) := dec_reslist r0 in
      let '(lim, r2) := dec_reslist r1 in
      (mkC (zb s) req lim, r2)
  | [] => (mkC false [] [], [])
  end.

Definition dec_label1 (l : list Z) : (Z * string) * list Z :=
  match l with
  | k :: r0 => let '(s, r1) := dec_str r0 in ((k, s), r1)
  | [] => ((0, EmptyString), [])
  end.
Definition dec_labels (l : list Z) : labels * list Z :=
  let '(kvs, r) := decode_seq dec_label1 l in
  (fold_left (fun acc kv => lset (fst kv) (snd kv) acc) kvs [], r).
(* label lists of a profile are applied in order, keep them as given *)
Definition dec_label_list (l : list Z) : list (Z * string) * list Z := decode_seq dec_label1 l.

Definition dec_optqty (l : list Z) : option Z * list Z :=
  match l with
  | p :: m :: c :: r => ((if zb p then Some (dec_qty m c) else None), r)
  | _ => (None, [])
  end.
Definition dec_ann_entry (l : list Z) : (Z * econt) * list Z :=
  match l with
  | i :: r0 =>
      let '(a, r1) := dec_optqty r0 in
      let '(b, r2) := dec_optqty r1 in
      let '(c, r3) := dec_optqty r2 in
      let '(d, r4) := dec_optqty r3 in
      ((i, ((a, b), (c, d))), r4)
  | [] => ((0, ((None, None), (None, None))), [])
  end.
(* the annotation is a map keyed by container name: ascending, a later duplicate wins *)
Fixpoint espec_put (x : Z * econt) (s : espec) : espec :=
  match s with
  | [] => [x]
  | y :: t => if fst x =? fst y then x :: t
              else if fst x <? fst y then x :: s
              else y :: espec_put x t
  end.
Definition dec_ann (l : list Z) : ann * list Z :=
  match l with
  | 0 :: r => (AnnAbsent, r)
  | 1 :: r => (AnnBad, r)
  | 2 :: r => let '(es, r') := decode_seq dec_ann_entry r in
              (AnnSpec (fold_left (fun acc x => espec_put x acc) es []), r')
  | _ => (AnnAbsent, [])
  end.

Definition dec_opt (l : list Z) : option Z * list Z :=
  match l with
  | p :: v :: r => ((if zb p then Some v else None), r)
  | _ => (None, [])
  end.

Definition dec_plres (l : list Z) : option (reslist * reslist) * list Z :=
  match l with
  | 0 :: r => (None, r)
  | _ :: r0 =>
      let '(rq, r1) := dec_reslist r0 in
      let '(lm, r2) := dec_reslist r1 in
      (Some (rq, lm), r2)
  | [] => (None, [])
  end.
(* an annotation map: a later duplicate key wins; "absent" values are not stored *)
Definition dec_kann (l : list Z) : (Z * ann) * list Z :=
  match l with
  | k :: r0 => let '(a, r1) := dec_ann r0 in ((k, a), r1)
  | [] => ((0, AnnAbsent), [])
  end.
Definition is_absent (a : ann) : bool := match a with AnnAbsent => true | _ => false end.
Definition dec_annmap (l : list Z) : annmap * list Z :=
  let '(kvs, r) := decode_seq dec_kann l in
  (fold_left (fun acc kv => if is_absent (snd kv) then acc else oset (fst kv) (snd kv) acc) kvs [], r).
(* the summary key (0) is carried by p_ann, not by the map of the other annotations *)
Definition drop_key0 (m : annmap) : annmap := filter (fun kv => negb (fst kv =? A_SPEC)) m.

Definition dec_pod (l : list Z) : pod * list Z :=
  let '(lb, r1) := dec_labels l in
  let '(pr, r2) := dec_opt r1 in
  let '(sq, r3) := dec_str r2 in
  let '(ini, r4) := decode_seq dec_container r3 in
  let '(cs, r5) := decode_seq dec_container r4 in
  let '(oh, r6) := dec_reslist r5 in
  let '(pl, r7) := dec_plres r6 in
  let '(an, r8) := dec_ann r7 in
  let '(oa, r9) := dec_annmap r8 in
  (mkPod lb pr sq ini cs oh pl an (drop_key0 oa), r9).

Definition dec_selector (l : list Z) : selector * list Z :=
  match l with
  | kind :: k :: r0 =>
      let '(s, r1) := dec_str r0 in
      ((match kind with 0 => SelNil | 1 => SelAll | 2 => SelLabel k s | _ => SelErr end), r1)
  | _ => (SelNil, [])
  end.

Definition dec_prob (l : list Z) : option prob * list Z :=
  match l with
  | kind :: n :: r =>
      ((match kind with 0 => None | 1 => Some (PInt n) | 2 => Some (PPct n) | _ => Some PBad end), r)
  | _ => (None, [])
  end.

Definition dec_pair (l : list Z) : (Z * Z) * list Z :=
  match l with
  | a :: b :: r => ((a, b), r)
  | _ => ((0, 0), [])
  end.

Definition dec_pcref (l : list Z) : pcref * list Z :=
  match l with
  | kind :: v :: r => ((match kind with 0 => PcNone | 1 => PcMissing | _ => PcValue v end), r)
  | _ => (PcNone, [])
  end.

Definition dec_profile (l : list Z) : profile * list Z :=
  match l with
  | name :: r0 =>
      let '(nss, r1) := dec_selector r0 in
      let '(sel, r2) := dec_selector r1 in
      let '(pb, r3) := dec_prob r2 in
      match r3 with
      | skip :: r4 =>
          let '(lbs, r5) := dec_label_list r4 in
          let '(km, r6) := decode_seq dec_pair r5 in
          let '(sfx, r7) := dec_label_list r6 in
          let '(q, r8) := dec_str r7 in
          let '(pc, r9) := dec_pcref r8 in
          let '(kp, r10) := dec_opt r9 in
          let '(ans, r11) := decode_seq dec_kann r10 in
          let '(akm, r12) := decode_seq dec_pair r11 in
          (mkProf name nss sel pb (zb skip) lbs km sfx q pc kp ans akm, r12)
      | [] => (mkProf name nss sel pb false [] [] [] EmptyString PcNone None [] [], [])
      end
  | [] => (mkProf 0 SelNil SelNil None false [] [] [] EmptyString PcNone None [] [], [])
  end.

Definition dec_env (l : list Z) : env * list Z :=
  match l with
  | nsp :: r0 =>
      let '(nsl, r1) := dec_labels r0 in
      match r1 with
      | rnd :: g1 :: g2 :: r2 => (mkEnv (if zb nsp then Some nsl else None) rnd (zb g1) (zb g2), r2)
      | _ => (mkEnv None 0 false false, [])
      end
  | [] => (mkEnv None 0 false false, [])
  end.

(* mutate stream input: env, profiles, pod *)
Definition dec_mutate (inp : list Z) : env * list profile * pod :=
  let '(e, r1) := dec_env inp in
  let '(ps, r2) := decode_seq dec_profile r1 in
  let '(p, _) := dec_pod r2 in
  (e, ps, p).

(* validate stream input: gate op oldpod newpod *)
Definition dec_validate (inp : list Z) : bool * Z * pod * pod :=
  match inp with
  | g :: op :: r0 =>
      let '(old, r1) := dec_pod r0 in
      let '(new, _) := dec_pod r1 in
      (zb g, op, old, new)
  | _ => (false, 0, mkPod [] None EmptyString [] [] [] None AnnAbsent [], mkPod [] None EmptyString [] [] [] None AnnAbsent [])
  end.

(* ------------------------------------------------------------------ observable side *)
Definition LABEL_KEYS : list Z := [0; 1; 2; 3; 4].
Definition RES_KEYS : list Z := [0; 1; 2; 3; 4; 5; 6].
Definition limb : Z := 1000000000000000000.

Definition enc_str (s : string) : list Z := encode_list (zs_of_string s).
Definition enc_amount (o : option Z) : list Z :=
  match o with
  | Some v => [1; v / limb; v mod limb]
  | None => [0; 0; 0]
  end.
Definition enc_reslist (l : reslist) : list Z := flat_map (fun k => enc_amount (rget k l)) RES_KEYS.
Definition enc_container (c : container) : list Z := enc_reslist (c_req c) ++ enc_reslist (c_lim c).
Definition enc_containers (cs : list container) : list Z :=
  Z.of_nat (length cs) :: flat_map enc_container cs.
Definition enc_label (l : labels) (k : Z) : list Z :=
  match lget k l with
  | Some v => 1 :: enc_str v
  | None => 0 :: enc_str EmptyString
  end.
Definition enc_opt (o : option Z) : list Z := match o with Some v => [1; v] | None => [0; 0] end.
Definition enc_ann_entry (e : Z * econt) : list Z :=
  let '(i, ((a, b), (c, d))) := e in
  i :: enc_amount a ++ enc_amount b ++ enc_amount c ++ enc_amount d.
Definition enc_ann (a : ann) : list Z :=
  match a with
  | AnnAbsent => [0]
  | AnnBad => [2]
  | AnnSpec s => 1 :: Z.of_nat (length s) :: flat_map enc_ann_entry s
  end.
Definition enc_plres (o : option (reslist * reslist)) : list Z :=
  match o with
  | Some (rq, lm) => 1 :: enc_reslist rq ++ enc_reslist lm
  | None => 0 :: enc_reslist [] ++ enc_reslist []
  end.
Definition enc_pod (p : pod) : list Z :=
  flat_map (enc_label (p_labels p)) LABEL_KEYS ++ enc_opt (p_prio p)
  ++ enc_containers (p_init p) ++ enc_containers (p_ctrs p)
  ++ enc_reslist (p_overhead p) ++ enc_plres (p_plres p) ++ enc_ann (p_ann p).

(* decoding an observed pod (for deciding the property on what the implementation produced) *)
Definition dec_amount (l : list Z) : option Z * list Z :=
  match l with
  | p :: hi :: lo :: r => ((if zb p then Some (hi * limb + lo) else None), r)
  | _ => (None, [])
  end.
Fixpoint dec_obs_reslist (keys : list Z) (l : list Z) : reslist * list Z :=
  match keys with
  | [] => ([], l)
  | k :: ks =>
      let '(o, r) := dec_amount l in
      let '(t, r') := dec_obs_reslist ks r in
      ((match o with Some v => (k, v) :: t | None => t end), r')
  end.
Definition dec_obs_container (l : list Z) : container * list Z :=
  let '(req, r1) := dec_obs_reslist RES_KEYS l in
  let '(lim, r2) := dec_obs_reslist RES_KEYS r1 in
  (mkC false req lim, r2).
Fixpoint dec_obs_labels (keys : list Z) (l : list Z) : labels * list Z :=
  match keys with
  | [] => ([], l)
  | k :: ks =>
      match l with
      | p :: r0 =>
          let '(s, r1) := dec_str r0 in
          let '(t, r2) := dec_obs_labels ks r1 in
          ((if zb p then (k, s) :: t else t), r2)
      | [] => ([], [])
      end
  end.
Definition dec_obs_ann_entry (l : list Z) : (Z * econt) * list Z :=
  match l with
  | i :: r0 =>
      let '(a, r1) := dec_amount r0 in
      let '(b, r2) := dec_amount r1 in
      let '(c, r3) := dec_amount r2 in
      let '(d, r4) := dec_amount r3 in
      ((i, ((a, b), (c, d))), r4)
  | [] => ((0, ((None, None), (None, None))), [])
  end.
Definition dec_obs_ann (l : list Z) : ann * list Z :=
  match l with
  | 0 :: r => (AnnAbsent, r)
  | 1 :: r => let '(es, r') := decode_seq dec_obs_ann_entry r in (AnnSpec es, r')
  | _ :: r => (AnnBad, r)
  | [] => (AnnBad, [])
  end.
Definition dec_obs_plres (l : list Z) : option (reslist * reslist) * list Z :=
  match l with
  | p :: r0 =>
      let '(rq, r1) := dec_obs_reslist RES_KEYS r0 in
      let '(lm, r2) := dec_obs_reslist RES_KEYS r1 in
      ((if zb p then Some (rq, lm) else None), r2)
  | [] => (None, [])
  end.
(* status qos, the sidecar flags and the annotations other than the summary are not part of
   the observation *)
Definition dec_obs_pod (l : list Z) : pod * list Z :=
  let '(lb, r1) := dec_obs_labels LABEL_KEYS l in
  let '(pr, r2) := dec_opt r1 in
  let '(ini, r3) := decode_seq dec_obs_container r2 in
  let '(cs, r4) := decode_seq dec_obs_container r3 in
  let '(oh, r5) := dec_obs_reslist RES_KEYS r4 in
  let '(pl, r6) := dec_obs_plres r5 in
  let '(an, r7) := dec_obs_ann r6 in
  (mkPod lb pr EmptyString ini cs oh pl an [], r7).

Fixpoint eq_listZ (a b : list Z) : bool :=
  match a, b with
  | [], [] => true
  | x :: a', y :: b' => (x =? y) && eq_listZ a' b'
  | _, _ => false
  end.

(* ------------------------------------------------------------------ the two streams *)
(* every input starts with the tag of its stream, so that a replay file of one stream is a
   no-op ([-1], property holds) on the other *)
Definition TAG_VALIDATE : Z := 101.
Definition TAG_MUTATE : Z := 102.
Definition untag (tag : Z) (inp : list Z) : option (list Z) :=
  match inp with
  | t :: r => if t =? tag then Some r else None
  | [] => None
  end.

(* validate: observable [allowed mask handle]
   handle = verdict of the production entry point PodValidatingHandler.Handle (raw objects
   decoded by the admission decoder, the whole chain of pod validators) on the same request:
   1 allowed, 0 denied, 2 not driven (the webhook is registered for CREATE and UPDATE only).
   For the pods of this stream no other validator of the chain has an opinion, so the verdict
   is the one of the colocation validator. *)
Definition OP_DELETE : Z := 2.
Definition handle_driven (op : Z) : bool := negb (op =? OP_DELETE).
Definition run_validate_body (inp : list Z) : list Z :=
  let '(g, op, old, new) := dec_validate inp in
  let m := validate g op old new in
  [bz (m =? 0); m; if handle_driven op then bz (m =? 0) else 2].
Definition run_validate (inp : list Z) : list Z :=
  match untag TAG_VALIDATE inp with Some body => run_validate_body body | None => [-1] end.

(* mutate: admissions, each a length-prefixed block
     [1]                          the admission failed
     [0 lost1 lost2 pod...]       lostN = mutator N changed the pod but reported "not mutated"
   block 1: Create on the input pod (the two mutators of the property, called in the order of
            handleCreate);
   block 2: Create through the production entry point PodMutatingHandler.Handle (admission
            decoder, every mutator of handleCreate, the JSON patch of the response applied to
            the submitted object) -- lost bits are 0 there: a lost "mutated" flag shows as a
            missing patch, i.e. in the pod itself;
   and when admission 1 succeeded:
   block 3: Update on the result of 1 (extendedResourceSpecMutatingPod with operation Update);
   block 4: Create again on the result of 1;
   block 5: Update through Handle on the result of 2 (handleUpdate runs no mutator). *)
Definition enc_result (r : option pod) : list Z :=
  match r with
  | None => [1]
  | Some p => 0 :: 0 :: 0 :: enc_pod p
  end.
(* PodMutatingHandler.Handle on the pods of this stream: the other mutators of the chain
   (multi-quota-tree affinity, device resources) have nothing to do *)
Definition handle_pod (e : env) (op : Z) (ps : list profile) (p : pod) : option pod :=
  if op =? OP_CREATE then admit_pod e OP_CREATE ps p else Some p.
Definition run_mutate_body (inp : list Z) : list Z :=
  let '(e, ps, p) := dec_mutate inp in
  match admit_pod e OP_CREATE ps p with
  | None => encode_list (enc_result None) ++ encode_list (enc_result (handle_pod e OP_CREATE ps p))
  | Some p1 =>
      encode_list (enc_result (Some p1))
      ++ encode_list (enc_result (handle_pod e OP_CREATE ps p))
      ++ encode_list (enc_result (admit_pod e OP_UPDATE ps p1))
      ++ encode_list (enc_result (admit_pod e OP_CREATE ps p1))
      ++ encode_list (match handle_pod e OP_CREATE ps p with
                      | Some ph => enc_result (handle_pod e OP_UPDATE ps ph)
                      | None => enc_result None
                      end)
  end.
Definition run_mutate (inp : list Z) : list Z :=
  match untag TAG_MUTATE inp with Some body => run_mutate_body body | None => [-1] end.
