(* C13 — proofs, part V: the validating webhook (see Properties.v for the exported statements). *)
From Coq Require Import String List ZArith Bool Lia.
From Verif Require Import Lib.Wire Gen.Gen_consts Gen.Gen_funcs C13.Model C13.Spec C13.Codec C13.Check.
Import ListNotations.
Open Scope Z_scope.

(* ------------------------------------------------------------------ strings *)
Lemma seqb_eq a b : seqb a b = true <-> a = b.
Proof. unfold seqb. apply String.eqb_eq. Qed.
Lemma seqb_neq a b : seqb a b = false <-> a <> b.
Proof. unfold seqb. apply String.eqb_neq. Qed.
Lemma seqb_refl a : seqb a a = true.
Proof. apply seqb_eq. reflexivity. Qed.
Lemma seqb_spec a b : reflect (a = b) (seqb a b).
Proof. unfold seqb. apply String.eqb_spec. Qed.

(* the generated class names are pairwise distinct (re-checked whenever a name is edited) *)
Ltac sne := apply seqb_neq; vm_compute; reflexivity.
Lemma prod_ne_none : PriorityProd <> PriorityNone. Proof. sne. Qed.
Lemma mid_ne_none : PriorityMid <> PriorityNone. Proof. sne. Qed.
Lemma batch_ne_none : PriorityBatch <> PriorityNone. Proof. sne. Qed.
Lemma free_ne_none : PriorityFree <> PriorityNone. Proof. sne. Qed.
Lemma prod_ne_mid : PriorityProd <> PriorityMid. Proof. sne. Qed.
Lemma prod_ne_batch : PriorityProd <> PriorityBatch. Proof. sne. Qed.
Lemma prod_ne_free : PriorityProd <> PriorityFree. Proof. sne. Qed.
Lemma mid_ne_batch : PriorityMid <> PriorityBatch. Proof. sne. Qed.
Lemma mid_ne_free : PriorityMid <> PriorityFree. Proof. sne. Qed.
Lemma batch_ne_free : PriorityBatch <> PriorityFree. Proof. sne. Qed.
Lemma default_is_none : DefaultPriorityClass = PriorityNone. Proof. reflexivity. Qed.

Lemma lse_ne_none : QoSLSE <> QoSNone. Proof. sne. Qed.
Lemma lsr_ne_none : QoSLSR <> QoSNone. Proof. sne. Qed.
Lemma ls_ne_none : QoSLS <> QoSNone. Proof. sne. Qed.
Lemma be_ne_none : QoSBE <> QoSNone. Proof. sne. Qed.
Lemma system_ne_none : QoSSystem <> QoSNone. Proof. sne. Qed.
Lemma lsr_ne_be : QoSLSR <> QoSBE. Proof. sne. Qed.
Lemma lse_ne_be : QoSLSE <> QoSBE. Proof. sne. Qed.
Lemma ls_ne_be : QoSLS <> QoSBE. Proof. sne. Qed.
Lemma system_ne_be : QoSSystem <> QoSBE. Proof. sne. Qed.
Lemma lsr_ne_lse : QoSLSR <> QoSLSE. Proof. sne. Qed.

(* ------------------------------------------------------------------ priority bands *)
Definition in_band (lo hi p : Z) : Prop := lo <= p <= hi.

Lemma bands_ordered :
  PriorityFreeValueMin <= PriorityFreeValueMax /\ PriorityFreeValueMax < PriorityBatchValueMin
  /\ PriorityBatchValueMin <= PriorityBatchValueMax /\ PriorityBatchValueMax < PriorityMidValueMin
  /\ PriorityMidValueMin <= PriorityMidValueMax /\ PriorityMidValueMax < PriorityProdValueMin
  /\ PriorityProdValueMin <= PriorityProdValueMax.
Proof. vm_compute. repeat split; discriminate. Qed.

Lemma band_cases p :
  (in_band PriorityProdValueMin PriorityProdValueMax p /\ getPriorityClassByPriority p = PriorityProd)
  \/ (in_band PriorityMidValueMin PriorityMidValueMax p /\ getPriorityClassByPriority p = PriorityMid)
  \/ (in_band PriorityBatchValueMin PriorityBatchValueMax p /\ getPriorityClassByPriority p = PriorityBatch)
  \/ (in_band PriorityFreeValueMin PriorityFreeValueMax p /\ getPriorityClassByPriority p = PriorityFree)
  \/ (~ in_band PriorityProdValueMin PriorityProdValueMax p
      /\ ~ in_band PriorityMidValueMin PriorityMidValueMax p
      /\ ~ in_band PriorityBatchValueMin PriorityBatchValueMax p
      /\ ~ in_band PriorityFreeValueMin PriorityFreeValueMax p
      /\ getPriorityClassByPriority p = PriorityNone).
Proof.
  pose proof bands_ordered as Hb.
  unfold getPriorityClassByPriority, in_band.
  destruct (PriorityProdValueMin <=? p) eqn:E1; destruct (p <=? PriorityProdValueMax) eqn:E2;
  destruct (PriorityMidValueMin <=? p) eqn:E3; destruct (p <=? PriorityMidValueMax) eqn:E4;
  destruct (PriorityBatchValueMin <=? p) eqn:E5; destruct (p <=? PriorityBatchValueMax) eqn:E6;
  destruct (PriorityFreeValueMin <=? p) eqn:E7; destruct (p <=? PriorityFreeValueMax) eqn:E8;
  cbn [andb];
  try (left; split; [lia | reflexivity]);
  try (right; left; split; [lia | reflexivity]);
  try (right; right; left; split; [lia | reflexivity]);
  try (right; right; right; left; split; [lia | reflexivity]);
  try (right; right; right; right; repeat split; try lia; reflexivity).
Qed.

Lemma bands_disjoint_cover p :
  (getPriorityClassByPriority p = PriorityProd <-> in_band PriorityProdValueMin PriorityProdValueMax p)
  /\ (getPriorityClassByPriority p = PriorityMid <-> in_band PriorityMidValueMin PriorityMidValueMax p)
  /\ (getPriorityClassByPriority p = PriorityBatch <-> in_band PriorityBatchValueMin PriorityBatchValueMax p)
  /\ (getPriorityClassByPriority p = PriorityFree <-> in_band PriorityFreeValueMin PriorityFreeValueMax p)
  /\ (getPriorityClassByPriority p = PriorityNone <->
        ~ in_band PriorityProdValueMin PriorityProdValueMax p
        /\ ~ in_band PriorityMidValueMin PriorityMidValueMax p
        /\ ~ in_band PriorityBatchValueMin PriorityBatchValueMax p
        /\ ~ in_band PriorityFreeValueMin PriorityFreeValueMax p).
Proof.
  pose proof bands_ordered as Hb. unfold in_band in *.
  pose proof prod_ne_none. pose proof mid_ne_none. pose proof batch_ne_none. pose proof free_ne_none.
  pose proof prod_ne_mid. pose proof prod_ne_batch. pose proof prod_ne_free.
  pose proof mid_ne_batch. pose proof mid_ne_free. pose proof batch_ne_free.
  destruct (band_cases p) as [[Hi He]|[[Hi He]|[[Hi He]|[[Hi He]|(N1 & N2 & N3 & N4 & He)]]]];
  unfold in_band in *; rewrite He;
  repeat split; intros; try congruence; try lia; try (exfalso; lia).
Qed.

(* every pod has exactly one of the five classes *)
Lemma pclass_by_name_cases s :
  pclass_by_name s = PriorityProd \/ pclass_by_name s = PriorityMid \/ pclass_by_name s = PriorityBatch
  \/ pclass_by_name s = PriorityFree \/ pclass_by_name s = PriorityNone.
Proof.
  unfold pclass_by_name.
  destruct (seqb_spec s PriorityProd); [subst; cbn [orb]; auto|].
  destruct (seqb_spec s PriorityMid); [subst; cbn [orb]; auto|].
  destruct (seqb_spec s PriorityBatch); [subst; cbn [orb]; auto|].
  destruct (seqb_spec s PriorityFree); [subst; cbn [orb]; auto 6|].
  cbn [orb]. auto 6.
Qed.
Lemma pclass_raw_cases p :
  pclass_raw p = PriorityProd \/ pclass_raw p = PriorityMid \/ pclass_raw p = PriorityBatch
  \/ pclass_raw p = PriorityFree \/ pclass_raw p = PriorityNone.
Proof.
  unfold pclass_raw. destruct (lget K_PCLASS (p_labels p)); [apply pclass_by_name_cases|].
  destruct (p_prio p) as [v|]; [|auto 6].
  destruct (band_cases v) as [[_ He]|[[_ He]|[[_ He]|[[_ He]|(_ & _ & _ & _ & He)]]]]; rewrite He; auto 6.
Qed.

(* ------------------------------------------------------------------ quantities *)
Lemma ceil_div_spec a b : 0 < b -> b * (ceil_div a b - 1) < a <= b * ceil_div a b.
Proof.
  intros Hb. unfold ceil_div.
  pose proof (Z.div_mod (- a) b ltac:(lia)) as Hd.
  pose proof (Z.mod_pos_bound (- a) b Hb) as Hm. nia.
Qed.
Lemma ceil_div_unique a b c : 0 < b -> b * (c - 1) < a <= b * c -> ceil_div a b = c.
Proof. intros Hb Hc. pose proof (ceil_div_spec a b Hb). nia. Qed.

(* the implementation's test  Value()*1000 == MilliValue()  says exactly: the amount in
   milli-cores is a multiple of 1000 *)
Lemma whole_iff q : unit_value q * 1000 = milli_value q <-> milli_value q mod 1000 = 0.
Proof.
  unfold unit_value, milli_value, nano. split.
  - intros H. rewrite <- H. apply Z_mod_mult.
  - intros H.
    pose proof (ceil_div_spec q 1000000 ltac:(lia)) as Hm.
    pose proof (Z.div_mod (ceil_div q 1000000) 1000 ltac:(lia)) as Hd. rewrite H in Hd.
    set (k := ceil_div q 1000000 / 1000) in *.
    rewrite (ceil_div_unique q 1000000000 k); lia.
Qed.
(* in nano-cores: within one milli-core below a whole CPU *)
Lemma whole_nano q : milli_value q mod 1000 = 0 <->
  exists n, nano * n - 1000000 < q <= nano * n.
Proof.
  unfold milli_value, nano. split.
  - intros H. pose proof (ceil_div_spec q 1000000 ltac:(lia)) as Hm.
    pose proof (Z.div_mod (ceil_div q 1000000) 1000 ltac:(lia)) as Hd. rewrite H in Hd.
    exists (ceil_div q 1000000 / 1000). lia.
  - intros [n Hn]. rewrite (ceil_div_unique q 1000000 (1000 * n)); [|lia|lia].
    rewrite Z.mul_comm. apply Z_mod_mult.
Qed.

(* ------------------------------------------------------------------ the verdict mask *)
Lemma bit_zero b v : v <> 0 -> bit b v = 0 -> b = false.
Proof. destruct b; cbn; congruence. Qed.
Lemma bit_range b v : 0 <= v -> 0 <= bit b v.
Proof. destruct b; cbn; lia. Qed.

Lemma sum8_zero b1 b2 b3 b4 b5 b6 b7 b8 :
  bit b1 E_IMMUT_QOS + bit b2 E_IMMUT_PCLASS + bit b3 E_IMMUT_PRIO + bit b4 E_BATCH_NEEDS_BE
  + bit b5 E_PAIR_BE + bit b6 E_PAIR_LSR + bit b7 E_CPU_REQUIRED + bit b8 E_CPU_INTEGER = 0
  <-> b1 = false /\ b2 = false /\ b3 = false /\ b4 = false /\ b5 = false /\ b6 = false
      /\ b7 = false /\ b8 = false.
Proof.
  split.
  - destruct b1, b2, b3, b4, b5, b6, b7, b8; cbn; intros H; try discriminate H; repeat split; reflexivity.
  - intros (-> & -> & -> & -> & -> & -> & -> & ->). reflexivity.
Qed.

Section Verdict.
Variables (g : bool) (op : Z) (old new : pod).

Local Notation q := (qos_raw new).
Local Notation c := (pclass_raw new).
Local Notation cpu := (pod_request new R_CPU).

Lemma allowed_iff :
  allowed g op old new = true <->
    ((op =? OP_UPDATE) && negb (seqb (qos_raw new) (qos_raw old)) = false)
    /\ ((op =? OP_UPDATE) && negb (seqb (pclass_raw new) (pclass_raw old)) = false)
    /\ ((op =? OP_UPDATE) && negb g
         && negb (seqb (lval K_PRIO (p_labels new)) (lval K_PRIO (p_labels old))) = false)
    /\ (negb ((pod_request new R_BCPU =? 0) && (pod_request new R_BMEM =? 0))
         && negb (seqb q QoSBE) = false)
    /\ (seqb q QoSBE && (seqb c PriorityNone || seqb c PriorityProd) = false)
    /\ (seqb q QoSLSR && (seqb c PriorityNone || seqb c PriorityMid
                           || seqb c PriorityBatch || seqb c PriorityFree) = false)
    /\ ((seqb q QoSLSR || seqb q QoSLSE) && (cpu =? 0) = false)
    /\ ((seqb q QoSLSR || seqb q QoSLSE) && negb (cpu =? 0)
         && negb (unit_value cpu * 1000 =? milli_value cpu) = false).
Proof.
  unfold allowed, validate.
  rewrite Z.eqb_eq. apply sum8_zero.
Qed.

Lemma admitted_sound : allowed g op old new = true -> C13_admitted op old new.
Proof.
  intros H. apply allowed_iff in H.
  destruct H as (H1 & H2 & H3 & H4 & H5 & H6 & H7 & H8).
  unfold C13_admitted, pair_be_ok, pair_lsr_ok, whole_cpus, batch_only_be, immutable_ok.
  refine (conj _ (conj _ (conj _ (conj _ _)))).
  - (* BE: neither none nor prod *)
    intros Hq. rewrite Hq, seqb_refl in H5. cbn [andb] in H5. apply orb_false_iff in H5.
    destruct H5 as [A B]. apply seqb_neq in A, B. split; assumption.
  - (* LSR: prod *)
    intros Hq. rewrite Hq, seqb_refl in H6. cbn [andb] in H6.
    apply orb_false_iff in H6. destruct H6 as [H6 A4].
    apply orb_false_iff in H6. destruct H6 as [H6 A3].
    apply orb_false_iff in H6. destruct H6 as [A1 A2].
    apply seqb_neq in A1, A2, A3, A4.
    destruct (pclass_raw_cases new) as [Hc|[Hc|[Hc|[Hc|Hc]]]]; [exact Hc|contradiction..].
  - (* whole CPUs *)
    intros Hq.
    assert (He : seqb q QoSLSR || seqb q QoSLSE = true).
    { destruct Hq as [Hq|Hq]; rewrite Hq, seqb_refl; cbn; rewrite ?orb_true_r; reflexivity. }
    rewrite He in H7, H8. cbn [andb] in H7, H8. rewrite H7 in H8. cbn [negb andb] in H8.
    apply negb_false_iff, Z.eqb_eq in H8. apply Z.eqb_neq in H7.
    split; [exact H7|]. apply whole_iff. exact H8.
  - (* batch -> BE *)
    intros Hb.
    destruct (seqb_spec q QoSBE) as [Hq|Hq]; [exact Hq|]. cbn [negb] in H4. rewrite andb_true_r in H4.
    apply negb_false_iff, andb_true_iff in H4. destruct H4 as [Ha Hb']. apply Z.eqb_eq in Ha, Hb'.
    destruct Hb; contradiction.
  - (* immutability *)
    intros Hop. rewrite Hop in H1, H2. cbn [Z.eqb OP_UPDATE Pos.eqb andb] in H1, H2.
    apply negb_false_iff, seqb_eq in H1. apply negb_false_iff, seqb_eq in H2. split; assumption.
Qed.

(* the complete decision table: nothing else is ever rejected *)
Lemma admitted_complete :
  allowed g op old new = true <->
    C13_admitted op old new
    /\ (op = OP_UPDATE -> g = false -> lval K_PRIO (p_labels new) = lval K_PRIO (p_labels old)).
Proof.
  split.
  - intros H. split; [apply admitted_sound; exact H|].
    apply allowed_iff in H. destruct H as (_ & _ & H3 & _).
    intros Hop Hg. rewrite Hop, Hg in H3. cbn [Z.eqb OP_UPDATE Pos.eqb andb negb] in H3.
    apply negb_false_iff, seqb_eq in H3. exact H3.
  - intros [(P1 & P2 & P3 & P4 & P5) P6]. apply allowed_iff.
    unfold pair_be_ok, pair_lsr_ok, whole_cpus, batch_only_be, immutable_ok in *.
    repeat split.
    + destruct (Z.eqb_spec op OP_UPDATE) as [Hop|]; [|reflexivity]. cbn [andb].
      destruct (P5 Hop) as [Hq _]. rewrite Hq, seqb_refl. reflexivity.
    + destruct (Z.eqb_spec op OP_UPDATE) as [Hop|]; [|reflexivity]. cbn [andb].
      destruct (P5 Hop) as [_ Hc]. rewrite Hc, seqb_refl. reflexivity.
    + destruct (Z.eqb_spec op OP_UPDATE) as [Hop|]; [|reflexivity]. cbn [andb].
      destruct g eqn:Eg; [reflexivity|]. cbn [negb andb]. rewrite (P6 Hop eq_refl), seqb_refl. reflexivity.
    + destruct (seqb_spec q QoSBE) as [Hq|Hq]; [cbn; apply andb_false_r|]. cbn [negb]. rewrite andb_true_r.
      apply negb_false_iff, andb_true_iff.
      split; apply Z.eqb_eq.
      * destruct (Z.eq_dec (pod_request new R_BCPU) 0) as [E|E]; [exact E|]. exfalso. apply Hq, P4. left. exact E.
      * destruct (Z.eq_dec (pod_request new R_BMEM) 0) as [E|E]; [exact E|]. exfalso. apply Hq, P4. right. exact E.
    + destruct (seqb_spec q QoSBE) as [Hq|Hq]; [|reflexivity]. cbn [andb].
      destruct (P1 Hq) as [N1 N2]. apply seqb_neq in N1, N2. rewrite N1, N2. reflexivity.
    + destruct (seqb_spec q QoSLSR) as [Hq|Hq]; [|reflexivity]. cbn [andb].
      rewrite (P2 Hq).
      pose proof prod_ne_none as A1. pose proof prod_ne_mid as A2.
      pose proof prod_ne_batch as A3. pose proof prod_ne_free as A4.
      apply seqb_neq in A1, A2, A3, A4. rewrite A1, A2, A3, A4. reflexivity.
    + destruct (seqb_spec q QoSLSR) as [Hq|Hq].
      * cbn [orb andb]. apply Z.eqb_neq. apply P3. left. exact Hq.
      * destruct (seqb_spec q QoSLSE) as [Hq'|Hq']; [|reflexivity].
        cbn [orb andb]. apply Z.eqb_neq. apply P3. right. exact Hq'.
    + destruct (seqb q QoSLSR || seqb q QoSLSE) eqn:He; [|reflexivity]. cbn [andb].
      assert (Hq : q = QoSLSR \/ q = QoSLSE).
      { apply orb_true_iff in He. destruct He as [He|He]; apply seqb_eq in He; auto. }
      destruct (P3 Hq) as [Hnz Hw]. apply whole_iff in Hw.
      apply Z.eqb_eq in Hw. rewrite Hw. cbn. apply andb_false_r.
Qed.

(* Spec connection: the decision procedure run on an "admitted" verdict decides the Prop *)
Lemma t1_spec : seqb q QoSBE && (seqb c PriorityNone || seqb c PriorityProd) = false <-> pair_be_ok new.
Proof.
  unfold pair_be_ok.
  destruct (seqb_spec q QoSBE); destruct (seqb_spec c PriorityNone); destruct (seqb_spec c PriorityProd);
  cbn [andb orb]; intuition congruence.
Qed.
Lemma t2_spec : seqb q QoSLSR && negb (seqb c PriorityProd) = false <-> pair_lsr_ok new.
Proof.
  unfold pair_lsr_ok.
  destruct (seqb_spec q QoSLSR); destruct (seqb_spec c PriorityProd); cbn [andb negb]; intuition congruence.
Qed.
Lemma t3_spec :
  (seqb q QoSLSR || seqb q QoSLSE) && ((cpu =? 0) || negb (milli_value cpu mod 1000 =? 0)) = false
  <-> whole_cpus new.
Proof.
  unfold whole_cpus.
  destruct (seqb_spec q QoSLSR); destruct (seqb_spec q QoSLSE);
  destruct (Z.eqb_spec cpu 0); destruct (Z.eqb_spec (milli_value cpu mod 1000) 0);
  cbn [andb orb negb]; intuition congruence.
Qed.
Lemma t4_spec :
  negb ((pod_request new R_BCPU =? 0) && (pod_request new R_BMEM =? 0)) && negb (seqb q QoSBE) = false
  <-> batch_only_be new.
Proof.
  unfold batch_only_be.
  destruct (seqb_spec q QoSBE); destruct (Z.eqb_spec (pod_request new R_BCPU) 0);
  destruct (Z.eqb_spec (pod_request new R_BMEM) 0); cbn [andb orb negb]; intuition congruence.
Qed.
Lemma t56_spec :
  ((op =? OP_UPDATE) && negb (seqb q (qos_raw old)) = false
   /\ (op =? OP_UPDATE) && negb (seqb c (pclass_raw old)) = false)
  <-> immutable_ok op old new.
Proof.
  unfold immutable_ok.
  destruct (Z.eqb_spec op OP_UPDATE); destruct (seqb_spec q (qos_raw old));
  destruct (seqb_spec c (pclass_raw old)); cbn [andb negb]; intuition congruence.
Qed.

Lemma validate_code_spec : validate_code op old new true = 0 <-> C13_admitted op old new.
Proof.
  unfold C13_admitted.
  rewrite <- t1_spec, <- t2_spec, <- t3_spec, <- t4_spec, <- t56_spec.
  unfold validate_code. cbn [negb].
  destruct (seqb q QoSBE && (seqb c PriorityNone || seqb c PriorityProd));
  destruct (seqb q QoSLSR && negb (seqb c PriorityProd));
  destruct ((seqb q QoSLSR || seqb q QoSLSE) && ((cpu =? 0) || negb (milli_value cpu mod 1000 =? 0)));
  destruct (negb ((pod_request new R_BCPU =? 0) && (pod_request new R_BMEM =? 0)) && negb (seqb q QoSBE));
  destruct ((op =? OP_UPDATE) && negb (seqb q (qos_raw old)));
  destruct ((op =? OP_UPDATE) && negb (seqb c (pclass_raw old)));
  intuition discriminate.
Qed.

End Verdict.

(* what the driver runs: the property holds on the model's own observable, for every input *)
Lemma validate_stream_holds inp : prop_validate inp (run_validate inp) = 0.
Proof.
  unfold prop_validate, run_validate. destruct (untag TAG_VALIDATE inp) as [body|]; [|reflexivity].
  unfold prop_validate_body, run_validate_body.
  destruct (dec_validate body) as [[[g op] old] new].
  assert (V : validate_code op old new (zb (bz (validate g op old new =? 0))) = 0).
  { destruct (validate g op old new =? 0) eqn:E; [|reflexivity].
    cbn [zb bz Z.eqb negb]. apply validate_code_spec. apply (admitted_sound g). exact E. }
  rewrite V. cbn [Z.eqb negb].
  destruct (handle_driven op); [|reflexivity].
  destruct (bz (validate g op old new =? 0) =? 2) eqn:E2; [reflexivity|exact V].
Qed.

(* ------------------------------------------------------------------ exported forms *)
Lemma pairs_thm g op old new :
  allowed g op old new = true ->
  (qos_raw new = QoSBE -> pclass_raw new <> PriorityNone /\ pclass_raw new <> PriorityProd)
  /\ (qos_raw new = QoSLSR -> pclass_raw new = PriorityProd).
Proof. intros H. destruct (admitted_sound g op old new H) as (A & B & _). split; assumption. Qed.

Lemma whole_cpus_thm g op old new :
  allowed g op old new = true ->
  qos_raw new = QoSLSR \/ qos_raw new = QoSLSE ->
  pod_request new R_CPU <> 0 /\ milli_value (pod_request new R_CPU) mod 1000 = 0.
Proof. intros H. destruct (admitted_sound g op old new H) as (_ & _ & C & _). exact C. Qed.

Lemma whole_exact_thm q :
  (unit_value q * 1000 = milli_value q <-> milli_value q mod 1000 = 0)
  /\ (milli_value q mod 1000 = 0 <-> exists n, nano * n - 1000000 < q <= nano * n).
Proof. split; [apply whole_iff|apply whole_nano]. Qed.

Lemma batch_only_be_thm g op old new :
  allowed g op old new = true ->
  pod_request new R_BCPU <> 0 \/ pod_request new R_BMEM <> 0 -> qos_raw new = QoSBE.
Proof. intros H. destruct (admitted_sound g op old new H) as (_ & _ & _ & D & _). exact D. Qed.

Lemma immutable_thm g old new :
  allowed g OP_UPDATE old new = true ->
  qos_raw new = qos_raw old /\ pclass_raw new = pclass_raw old.
Proof. intros H. destruct (admitted_sound g OP_UPDATE old new H) as (_ & _ & _ & _ & E). apply E. reflexivity. Qed.

Lemma milli_ceiling q : 1000000 * (milli_value q - 1) < q <= 1000000 * milli_value q.
Proof. unfold milli_value. apply ceil_div_spec. lia. Qed.

(* 1.9995 CPUs (1999500 micro-cores) on an LSR/prod pod: admitted *)
Definition submilli_pod : pod :=
  mkPod [(K_QOS, QoSLSR)] (Some 9500) EmptyString []
        [mkC false [(R_CPU, 1999500000)] []] [] None AnnAbsent [].
Lemma whole_strict_refuted :
  exists p, allowed false OP_CREATE p p = true /\ qos_raw p = QoSLSR
            /\ pod_request p R_CPU mod nano <> 0.
Proof. exists submilli_pod. vm_compute. repeat split; discriminate. Qed.
