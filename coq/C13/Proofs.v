(* C13 — proofs about the model (see Properties.v for the exported statements). *)
From Coq Require Import String List ZArith Bool Lia.
From Verif Require Import Gen.Gen_consts Gen.Gen_funcs C13.Model C13.Spec.
Import ListNotations.
Open Scope Z_scope.

Lemma seqb_eq a b : seqb a b = true <-> a = b.
Proof. unfold seqb. apply String.eqb_eq. Qed.
