(* C13 — executable model of the koordinator pod admission protocol:
     pkg/webhook/pod/validating/cluster_colocation_profile.go   (validate)
     pkg/webhook/pod/mutating/cluster_colocation_profile.go      (profile_step, translate_pod)
     pkg/webhook/pod/mutating/extended_resource_spec.go          (extspec_step)
     apis/extension/{priority,priority_utils,qos,qos_utils,resource}.go (class derivation)
   Class names, QoS names, the priority bands and getPriorityClassByPriority are the
   GENERATED definitions (coq/Gen), not re-typed here.
   Quantities are exact integers in nano-units (10^-9 of a CPU / of a byte): this is the
   finest grain a resource.Quantity can hold.  Total, executable, no proofs in this file. *)
From Coq Require Import String Ascii DecimalString List ZArith Bool.
From Verif Require Import Gen.Gen_consts Gen.Gen_funcs.
Import ListNotations.
Open Scope Z_scope.

Definition seqb (a b : string) : bool := String.eqb a b.

(* ------------------------------------------------------------------ quantities *)
Definition nano : Z := 1000000000.
Definition ceil_div (a b : Z) : Z := - ((- a) / b).
(* resource.Quantity.MilliValue / Value: ceil(q*1000), ceil(q) *)
Definition milli_value (q : Z) : Z := ceil_div q 1000000.
Definition unit_value (q : Z) : Z := ceil_div q nano.

(* ------------------------------------------------------------------ resource lists *)
(* resource names (the harness maps the Go names to these ids) *)
Definition R_CPU : Z := 0.
Definition R_MEM : Z := 1.
Definition R_BCPU : Z := 2.   (* kubernetes.io/batch-cpu *)
Definition R_BMEM : Z := 3.   (* kubernetes.io/batch-memory *)
Definition R_MCPU : Z := 4.   (* kubernetes.io/mid-cpu *)
Definition R_MMEM : Z := 5.   (* kubernetes.io/mid-memory *)
(* ids >= 6: any other resource name *)

Notation reslist := (list (Z * Z)).

Fixpoint rget (k : Z) (l : reslist) : option Z :=
  match l with
  | [] => None
  | (k', v) :: t => if k =? k' then Some v else rget k t
  end.
Fixpoint rdel (k : Z) (l : reslist) : reslist :=
  match l with
  | [] => []
  | (k', v) :: t => if k =? k' then rdel k t else (k', v) :: rdel k t
  end.
Definition rset (k v : Z) (l : reslist) : reslist := (k, v) :: rdel k l.
Definition rval (k : Z) (l : reslist) : Z := match rget k l with Some v => v | None => 0 end.

(* ------------------------------------------------------------------ labels *)
Definition K_QOS : Z := 0.      (* koordinator.sh/qosClass *)
Definition K_PCLASS : Z := 1.   (* koordinator.sh/priority-class *)
Definition K_PRIO : Z := 2.     (* koordinator.sh/priority *)
(* ids >= 3: other label keys *)

Notation labels := (list (Z * string)).

Fixpoint lget (k : Z) (l : labels) : option string :=
  match l with
  | [] => None
  | (k', v) :: t => if k =? k' then Some v else lget k t
  end.
Fixpoint lset (k : Z) (v : string) (l : labels) : labels :=
  match l with
  | [] => [(k, v)]
  | (k', v') :: t => if k =? k' then (k, v) :: t else (k', v') :: lset k v t
  end.
Definition lval (k : Z) (l : labels) : string := match lget k l with Some v => v | None => EmptyString end.

(* ------------------------------------------------------------------ pods *)
Record container := mkC {
  c_sidecar : bool;        (* init container with restartPolicy Always *)
  c_req : reslist;
  c_lim : reslist }.

(* one entry of the extended-resource-spec annotation: (batch-cpu, batch-memory) of the
   requests and of the limits of one container *)
Notation econt := ((option Z * option Z) * (option Z * option Z))%type.
Notation espec := (list (Z * econt)).     (* container index (name c<i>) -> entry, ascending *)

Inductive ann := AnnAbsent | AnnBad | AnnSpec (s : espec).

(* annotation keys: 0 = node.koordinator.sh/extended-resource-spec (the summary annotation),
   ids >= 1 = any other key.  An annotation VALUE is a string; all that matters of it here is how
   it parses as an extended-resource-spec, so a value is abstracted to AnnBad (does not parse;
   the empty string is such a value) or AnnSpec s. *)
Definition A_SPEC : Z := 0.
Notation annmap := (list (Z * ann)).

Record pod := mkPod {
  p_labels : labels;
  p_prio : option Z;           (* spec.priority *)
  p_status_qos : string;       (* status.qosClass *)
  p_init : list container;
  p_ctrs : list container;
  p_overhead : reslist;        (* spec.overhead; [] = nil *)
  p_plres : option (reslist * reslist);  (* spec.resources (pod-level requests, limits); None = nil *)
  p_ann : ann;                 (* the summary annotation *)
  p_oann : annmap }.           (* every other annotation; AnnAbsent is never stored *)

Definition set_labels (l : labels) (p : pod) : pod :=
  mkPod l (p_prio p) (p_status_qos p) (p_init p) (p_ctrs p) (p_overhead p) (p_plres p) (p_ann p) (p_oann p).
Definition set_prio (v : option Z) (p : pod) : pod :=
  mkPod (p_labels p) v (p_status_qos p) (p_init p) (p_ctrs p) (p_overhead p) (p_plres p) (p_ann p) (p_oann p).
Definition set_ann (a : ann) (p : pod) : pod :=
  mkPod (p_labels p) (p_prio p) (p_status_qos p) (p_init p) (p_ctrs p) (p_overhead p) (p_plres p) a (p_oann p).
Definition set_oann (m : annmap) (p : pod) : pod :=
  mkPod (p_labels p) (p_prio p) (p_status_qos p) (p_init p) (p_ctrs p) (p_overhead p) (p_plres p) (p_ann p) m.

Fixpoint oget (k : Z) (l : annmap) : ann :=
  match l with
  | [] => AnnAbsent
  | (k', v) :: t => if k =? k' then v else oget k t
  end.
Fixpoint oset (k : Z) (v : ann) (l : annmap) : annmap :=
  match l with
  | [] => [(k, v)]
  | (k', v') :: t => if k =? k' then (k, v) :: t else (k', v') :: oset k v t
  end.
Definition aget (k : Z) (p : pod) : ann := if k =? A_SPEC then p_ann p else oget k (p_oann p).
Definition aset (k : Z) (v : ann) (p : pod) : pod :=
  if k =? A_SPEC then set_ann v p else set_oann (oset k v (p_oann p)) p.
(* the string read under a key: an absent key reads as "", which does not parse *)
Definition aval (a : ann) : ann := match a with AnnAbsent => AnnBad | _ => a end.

(* ------------------------------------------------------------------ class derivation *)
(* apis/extension/qos.go GetPodQoSClassByName *)
Definition qos_by_name (s : string) : string :=
  if seqb s QoSLSE || seqb s QoSLSR || seqb s QoSLS || seqb s QoSBE || seqb s QoSSystem
  then s else QoSNone.
(* apis/extension/priority.go GetPodPriorityClassByName *)
Definition pclass_by_name (s : string) : string :=
  if seqb s PriorityProd || seqb s PriorityMid || seqb s PriorityBatch || seqb s PriorityFree
  then s else PriorityNone.

(* GetPodQoSClassRaw *)
Definition qos_raw (p : pod) : string :=
  match lget K_QOS (p_labels p) with Some v => qos_by_name v | None => QoSNone end.
(* GetPodPriorityClassRaw: the label wins even when its value is unknown *)
Definition pclass_raw (p : pod) : string :=
  match lget K_PCLASS (p_labels p) with
  | Some v => pclass_by_name v
  | None => match p_prio p with
            | None => PriorityNone
            | Some v => getPriorityClassByPriority v
            end
  end.

(* k8s.io/kubectl/pkg/util/qos ComputePodQOS, as far as it matters here: a pod is
   BestEffort iff no container or init container has a positive cpu/memory request or limit;
   when spec.resources is set (even empty) the pod-level lists are looked at INSTEAD of the
   containers *)
Definition pos_cpu_mem (r : reslist) : bool :=
  existsb (fun kv => ((fst kv =? R_CPU) || (fst kv =? R_MEM)) && (0 <? snd kv)) r.
Definition kube_best_effort (p : pod) : bool :=
  match p_plres p with
  | Some (rq, lm) => negb (pos_cpu_mem rq || pos_cpu_mem lm)
  | None => negb (existsb (fun c => pos_cpu_mem (c_req c) || pos_cpu_mem (c_lim c)) (p_ctrs p ++ p_init p))
  end.

(* GetPodPriorityClassWithQoS *)
Definition pclass_of_qos (q : string) : string :=
  if seqb q QoSSystem || seqb q QoSLSE || seqb q QoSLSR || seqb q QoSLS then PriorityProd
  else if seqb q QoSBE then PriorityBatch
  else DefaultPriorityClass.
(* GetPodQoSClassWithKubeQoS (GetKubeQosClass pod): Guaranteed -> LSR, Burstable -> LS,
   BestEffort -> BE, anything else -> none *)
Definition qos_of_kube (p : pod) : string :=
  let s := p_status_qos p in
  if seqb s EmptyString then (if kube_best_effort p then QoSBE else QoSLS)
  else if seqb s "BestEffort" then QoSBE
  else if seqb s "Guaranteed" then QoSLSR
  else if seqb s "Burstable" then QoSLS
  else QoSNone.
Definition qos_with_default (p : pod) : string :=
  let q := qos_raw p in if seqb q QoSNone then qos_of_kube p else q.
(* GetPodPriorityClassWithDefault *)
Definition pclass_with_default (p : pod) : string :=
  let c := pclass_raw p in
  if seqb c PriorityNone then pclass_of_qos (qos_with_default p) else c.

(* ------------------------------------------------------------------ validating webhook *)
(* k8s.io/component-helpers/resource PodRequests for one resource name (absent = 0;
   quantities are non-negative once the API server's own validation has run) *)
Definition creq (r : Z) (c : container) : Z := rval r (c_req c).
Definition sum_reqs (r : Z) (cs : list container) : Z := fold_right Z.add 0 (map (creq r) cs).
Fixpoint init_walk (r : Z) (cs : list container) (side mx : Z) : Z * Z :=
  match cs with
  | [] => (side, mx)
  | c :: t =>
      if c_sidecar c
      then let side' := side + creq r c in init_walk r t side' (Z.max mx side')
      else init_walk r t side (Z.max mx (creq r c + side))
  end.
(* pod-level requests (spec.resources.requests) replace the aggregate of the containers for
   the resources supported at pod level: cpu and memory (hugepages are not modelled) *)
Definition pod_level_request (p : pod) (r : Z) : option Z :=
  match p_plres p with
  | Some (rq, _) => if (r =? R_CPU) || (r =? R_MEM) then rget r rq else None
  | None => None
  end.
Definition containers_request (p : pod) (r : Z) : Z :=
  let '(side, mx) := init_walk r (p_init p) 0 0 in
  Z.max (sum_reqs r (p_ctrs p) + side) mx.
Definition pod_request (p : pod) (r : Z) : Z :=
  match pod_level_request p r with
  | Some q => q
  | None => containers_request p r
  end + rval r (p_overhead p).

(* rule ids = bits of the verdict mask *)
Definition E_IMMUT_QOS : Z := 1.
Definition E_IMMUT_PCLASS : Z := 2.
Definition E_IMMUT_PRIO : Z := 4.
Definition E_BATCH_NEEDS_BE : Z := 8.
Definition E_PAIR_BE : Z := 16.
Definition E_PAIR_LSR : Z := 32.
Definition E_CPU_REQUIRED : Z := 64.
Definition E_CPU_INTEGER : Z := 128.

Definition bit (b : bool) (v : Z) : Z := if b then v else 0.

Definition OP_CREATE : Z := 0.
Definition OP_UPDATE : Z := 1.

(* clusterColocationProfileValidatingPod: the set of rules that reject, as a bit mask;
   the request is allowed iff the mask is 0 *)
Definition validate (skip_prio_gate : bool) (op : Z) (old new : pod) : Z :=
  let upd := op =? OP_UPDATE in
  let q := qos_raw new in
  let c := pclass_raw new in
  let cpu := pod_request new R_CPU in
  let exclusive := seqb q QoSLSR || seqb q QoSLSE in
  bit (upd && negb (seqb (qos_raw new) (qos_raw old))) E_IMMUT_QOS
  + bit (upd && negb (seqb (pclass_raw new) (pclass_raw old))) E_IMMUT_PCLASS
  + bit (upd && negb skip_prio_gate
         && negb (seqb (lval K_PRIO (p_labels new)) (lval K_PRIO (p_labels old)))) E_IMMUT_PRIO
  + bit (negb ((pod_request new R_BCPU =? 0) && (pod_request new R_BMEM =? 0))
         && negb (seqb q QoSBE)) E_BATCH_NEEDS_BE
  + bit (seqb q QoSBE && (seqb c PriorityNone || seqb c PriorityProd)) E_PAIR_BE
  + bit (seqb q QoSLSR && (seqb c PriorityNone || seqb c PriorityMid
                           || seqb c PriorityBatch || seqb c PriorityFree)) E_PAIR_LSR
  + bit (exclusive && (cpu =? 0)) E_CPU_REQUIRED
  + bit (exclusive && negb (cpu =? 0) && negb (unit_value cpu * 1000 =? milli_value cpu)) E_CPU_INTEGER.

Definition allowed (skip_prio_gate : bool) (op : Z) (old new : pod) : bool :=
  validate skip_prio_gate op old new =? 0.

(* ------------------------------------------------------------------ tier translation *)
(* extension.ResourceNameMap *)
Definition ext_name (cls : string) (native : Z) : option Z :=
  if seqb cls PriorityBatch then
    (if native =? R_CPU then Some R_BCPU else if native =? R_MEM then Some R_BMEM else None)
  else if seqb cls PriorityMid then
    (if native =? R_CPU then Some R_MCPU else if native =? R_MEM then Some R_MMEM else None)
  else None.

(* the amount written under the extended name: CPU becomes a count of milli-cores *)
Definition to_ext (native q : Z) : Z := if native =? R_CPU then milli_value q * nano else q.

(* replaceAndEraseResource *)
Definition replace_erase (cls : string) (native : Z) (l : reslist) : reslist :=
  match ext_name cls native with
  | None => l
  | Some e => match rget native l with
              | Some q => rdel native (rset e (to_ext native q) l)
              | None => l
              end
  end.

(* restrictResourceRequestAndLimit *)
Definition restrict (cls : string) (native : Z) (c : container) : container :=
  match ext_name cls native with
  | None => c
  | Some e => match rget e (c_req c), rget e (c_lim c) with
              | None, Some q => mkC (c_sidecar c) (rset e q (c_req c)) (c_lim c)
              | _, _ => c
              end
  end.

Definition translate_container (cls : string) (c : container) : container :=
  let req := replace_erase cls R_MEM (replace_erase cls R_CPU (c_req c)) in
  let lim := replace_erase cls R_MEM (replace_erase cls R_CPU (c_lim c)) in
  restrict cls R_MEM (restrict cls R_CPU (mkC (c_sidecar c) req lim)).

(* mutatePodResourceSpec for an already derived class *)
Definition translate_pod (cls : string) (p : pod) : pod :=
  if seqb cls PriorityNone || seqb cls PriorityProd then p
  else mkPod (p_labels p) (p_prio p) (p_status_qos p)
             (map (translate_container cls) (p_init p))
             (map (translate_container cls) (p_ctrs p))
             (replace_erase cls R_MEM (replace_erase cls R_CPU (p_overhead p)))
             (p_plres p) (p_ann p) (p_oann p).

(* ------------------------------------------------------------------ colocation profiles *)
Inductive selector :=
| SelNil                         (* no selector *)
| SelAll                         (* empty selector *)
| SelLabel (k : Z) (v : string)  (* matchLabels {k: v} *)
| SelErr.                        (* selector that does not convert (bad operator) *)

Inductive prob := PInt (n : Z) | PPct (n : Z) | PBad.
Inductive pcref := PcNone | PcMissing | PcValue (v : Z).

Record profile := mkProf {
  pf_name : Z;                    (* rank of the object name in string order *)
  pf_nssel : selector;
  pf_sel : selector;
  pf_prob : option prob;
  pf_skipres : bool;              (* annotation config.koordinator.sh/skip-update-resources *)
  pf_labels : labels;
  pf_lkmap : list (Z * Z);        (* labelKeysMapping old -> new *)
  pf_lsuffix : list (Z * string); (* labelSuffixes *)
  pf_qos : string;
  pf_pc : pcref;                  (* priorityClassName and the PriorityClass object it names *)
  pf_kprio : option Z;
  pf_anns : annmap;               (* spec.annotations *)
  pf_akmap : list (Z * Z) }.      (* annotationKeysMapping old -> new *)

Record env := mkEnv {
  e_ns : option labels;           (* labels of the pod's namespace; None = no such object *)
  e_rand : Z;                     (* what randIntnFn(100) returns *)
  e_gate_skipres : bool;          (* ColocationProfileSkipMutatingResources *)
  e_gate_noext : bool }.          (* DisableExtendedResourceSpec *)

(* "!matched && err == nil" is the only way a selector excludes a profile *)
Definition sel_pass (s : selector) (target : option labels) : bool :=
  match s with
  | SelLabel k v =>
      match target with
      | None => true
      | Some l => match lget k l with Some v' => seqb v' v | None => false end
      end
  | _ => true
  end.
Definition profile_matches (e : env) (p : pod) (pf : profile) : bool :=
  sel_pass (pf_nssel pf) (e_ns e) && sel_pass (pf_sel pf) (Some (p_labels p)).

Fixpoint insert_profile (x : profile) (l : list profile) : list profile :=
  match l with
  | [] => [x]
  | y :: t => if pf_name x <=? pf_name y then x :: l else y :: insert_profile x t
  end.
Definition sort_profiles (l : list profile) : list profile := fold_right insert_profile [] l.

(* shouldSkipProfile; None = error *)
Definition should_skip (e : env) (pf : profile) : option bool :=
  match pf_prob pf with
  | None => Some false
  | Some PBad => None
  | Some (PInt n) | Some (PPct n) => Some ((n =? 0) || (negb (n =? 100) && (n <? e_rand e)))
  end.

Definition dec_string (n : Z) : string := NilZero.string_of_int (Z.to_int n).

(* the annotation part of doMutateByColocationProfile: spec.annotations, then
   annotationKeysMapping (pod.Annotations[new] = pod.Annotations[old]; a missing old key reads
   as the empty string).  Independent of the label part. *)
Definition apply_profile_anns (pf : profile) (p : pod) : pod :=
  let p1 := fold_left (fun q kv => aset (fst kv) (aval (snd kv)) q) (pf_anns pf) p in
  fold_left (fun q on => aset (snd on) (aval (aget (fst on) q)) q) (pf_akmap pf) p1.

(* doMutateByColocationProfile (labels, annotations, key mappings, suffixes, QoS, priority);
   None = error *)
Definition apply_profile (pf : profile) (p0 : pod) : option pod :=
  let p := apply_profile_anns pf p0 in
  let l1 := fold_left (fun l kv => lset (fst kv) (snd kv) l) (pf_labels pf) (p_labels p) in
  let l2 := fold_left (fun l on => lset (snd on) (lval (fst on) l) l) (pf_lkmap pf) l1 in
  let l3 := fold_left (fun l ks => match lget (fst ks) l with
                                   | Some v => lset (fst ks) (v ++ snd ks)%string l
                                   | None => l end) (pf_lsuffix pf) l2 in
  let l4 := if seqb (pf_qos pf) EmptyString then l3 else lset K_QOS (pf_qos pf) l3 in
  match pf_pc pf with
  | PcMissing => None
  | pc =>
      let pr := match pc with PcValue v => Some v | _ => p_prio p end in
      let l5 := match pf_kprio pf with Some n => lset K_PRIO (dec_string n) l4 | None => l4 end in
      Some (set_prio pr (set_labels l5 p))
  end.

Fixpoint apply_profiles (e : env) (ps : list profile) (p : pod) : option pod :=
  match ps with
  | [] => Some p
  | pf :: t =>
      match should_skip e pf with
      | None => None
      | Some true => apply_profiles e t p
      | Some false => match apply_profile pf p with
                      | None => None
                      | Some p' => apply_profiles e t p'
                      end
      end
  end.

Definition translation_enabled (e : env) (matched : list profile) : bool :=
  negb (existsb pf_skipres matched || e_gate_skipres e).

(* clusterColocationProfileMutatingPod on Create *)
Definition profile_step (e : env) (ps : list profile) (p : pod) : option pod :=
  match filter (profile_matches e p) ps with
  | [] => Some p
  | matched =>
      match apply_profiles e (sort_profiles matched) p with
      | None => None
      | Some p' => if translation_enabled e matched
                   then Some (translate_pod (pclass_with_default p') p')
                   else Some p'
      end
  end.

(* ------------------------------------------------------------------ summary annotation *)
Definition cont_spec (c : container) : econt :=
  ((rget R_BCPU (c_req c), rget R_BMEM (c_req c)), (rget R_BCPU (c_lim c), rget R_BMEM (c_lim c))).
Definition econt_empty (x : econt) : bool :=
  match x with ((None, None), (None, None)) => true | _ => false end.
Fixpoint build_spec (i : Z) (cs : list container) : espec :=
  match cs with
  | [] => []
  | c :: t => if econt_empty (cont_spec c) then build_spec (i + 1) t
              else (i, cont_spec c) :: build_spec (i + 1) t
  end.

(* mutateByExtendedResources; None = error (annotation present but not parseable) *)
Definition extspec_step (e : env) (p : pod) : option pod :=
  if e_gate_noext e then Some p else
  match p_ann p with
  | AnnBad => None
  | AnnAbsent => match build_spec 0 (p_ctrs p) with
                 | [] => Some p
                 | s => Some (set_ann (AnnSpec s) p)
                 end
  | AnnSpec _ => Some (set_ann (AnnSpec (build_spec 0 (p_ctrs p))) p)
  end.

(* handleCreate / handleUpdate restricted to the two mutators of this property *)
Definition admit_pod (e : env) (op : Z) (ps : list profile) (p : pod) : option pod :=
  if op =? OP_CREATE then
    match profile_step e ps p with
    | None => None
    | Some p1 => extspec_step e p1
    end
  else if op =? OP_UPDATE then extspec_step e p
  else Some p.
