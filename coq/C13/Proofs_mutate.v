(* C13 — proofs, part M: tier translation, summary annotation, re-admission. *)
From Coq Require Import String List ZArith Bool Lia.
From Verif Require Import Lib.Wire Gen.Gen_consts Gen.Gen_funcs C13.Model C13.Spec C13.Proofs.
Import ListNotations.
Open Scope Z_scope.

(* ------------------------------------------------------------------ resource lists *)
Lemma rget_rdel k k' l : rget k (rdel k' l) = if k =? k' then None else rget k l.
Proof.
  induction l as [|[a v] t IH]; cbn [rdel rget].
  - destruct (k =? k'); reflexivity.
  - destruct (Z.eqb_spec k' a) as [E|E].
    + subst a. rewrite IH. destruct (Z.eqb_spec k k'); reflexivity.
    + cbn [rget]. rewrite IH. destruct (Z.eqb_spec k a) as [E1|E1]; [|reflexivity].
      subst a. destruct (Z.eqb_spec k k'); [congruence|reflexivity].
Qed.
Lemma rget_rset k k' v l : rget k (rset k' v l) = if k =? k' then Some v else rget k l.
Proof.
  unfold rset. cbn [rget]. destruct (Z.eqb_spec k k') as [E|E]; [reflexivity|].
  rewrite rget_rdel. destruct (Z.eqb_spec k k'); [contradiction|reflexivity].
Qed.

(* the translation table has one of three shapes *)
Definition table_batch (cls : string) : Prop :=
  forall k, ext_name cls k = if k =? R_CPU then Some R_BCPU else if k =? R_MEM then Some R_BMEM else None.
Definition table_mid (cls : string) : Prop :=
  forall k, ext_name cls k = if k =? R_CPU then Some R_MCPU else if k =? R_MEM then Some R_MMEM else None.
Definition table_none (cls : string) : Prop := forall k, ext_name cls k = None.

Lemma ext_name_cases cls :
  (cls = PriorityBatch /\ table_batch cls) \/ (cls = PriorityMid /\ table_mid cls)
  \/ (tier_class cls = false /\ table_none cls).
Proof.
  unfold table_batch, table_mid, table_none, ext_name, tier_class.
  destruct (seqb_spec cls PriorityBatch) as [E|E]; [left; split; [exact E|reflexivity]|].
  destruct (seqb_spec cls PriorityMid) as [E'|E']; [right; left; split; [exact E'|reflexivity]|].
  right; right. split; reflexivity.
Qed.

Ltac kill_eqb :=
  repeat match goal with
  | |- context [?a =? ?b] => destruct (Z.eqb_spec a b); try lia; try subst
  end.
Ltac consts := unfold R_CPU, R_MEM, R_BCPU, R_BMEM, R_MCPU, R_MMEM in *.

Definition re2 (cls : string) (l : reslist) : reslist :=
  replace_erase cls R_MEM (replace_erase cls R_CPU l).

Lemma opt_eqb_some a b : opt_eqb (Some a) (Some b) = (a =? b).
Proof. reflexivity. Qed.

(* the two replaceAndEraseResource calls on one list realise the from-scratch description *)
Lemma re2_spec cls l k : rget k (re2 cls l) = spec_res cls l k.
Proof.
  unfold re2, replace_erase, spec_res, native_of_ext.
  destruct (ext_name_cases cls) as [[_ T]|[[_ T]|[_ T]]]; rewrite !T; consts.
  - change (0 =? 0) with true. change (1 =? 0) with false. change (1 =? 1) with true. cbv iota.
    rewrite !opt_eqb_some.
    destruct (rget 0 l) as [qc|] eqn:Ec.
    + rewrite rget_rdel, rget_rset. change (1 =? 0) with false. change (1 =? 2) with false. cbv iota.
      destruct (rget 1 l) as [qm|] eqn:Em.
      * rewrite !rget_rdel, !rget_rset, !rget_rdel, !rget_rset. kill_eqb; rewrite ?Ec, ?Em; congruence.
      * rewrite !rget_rdel, !rget_rset. kill_eqb; rewrite ?Ec, ?Em; congruence.
    + destruct (rget 1 l) as [qm|] eqn:Em.
      * rewrite !rget_rdel, !rget_rset. kill_eqb; rewrite ?Ec, ?Em; congruence.
      * kill_eqb; rewrite ?Ec, ?Em; congruence.
  - change (0 =? 0) with true. change (1 =? 0) with false. change (1 =? 1) with true. cbv iota.
    rewrite !opt_eqb_some.
    destruct (rget 0 l) as [qc|] eqn:Ec.
    + rewrite rget_rdel, rget_rset. change (1 =? 0) with false. change (1 =? 4) with false. cbv iota.
      destruct (rget 1 l) as [qm|] eqn:Em.
      * rewrite !rget_rdel, !rget_rset, !rget_rdel, !rget_rset. kill_eqb; rewrite ?Ec, ?Em; congruence.
      * rewrite !rget_rdel, !rget_rset. kill_eqb; rewrite ?Ec, ?Em; congruence.
    + destruct (rget 1 l) as [qm|] eqn:Em.
      * rewrite !rget_rdel, !rget_rset. kill_eqb; rewrite ?Ec, ?Em; congruence.
      * kill_eqb; rewrite ?Ec, ?Em; congruence.
  - reflexivity.
Qed.

Lemma restrict_lim cls n c0 : c_lim (restrict cls n c0) = c_lim c0.
Proof.
  unfold restrict. destruct (ext_name cls n); [|reflexivity].
  destruct (rget z (c_req c0)); [reflexivity|]. destruct (rget z (c_lim c0)); reflexivity.
Qed.
Lemma restrict_sidecar cls n c0 : c_sidecar (restrict cls n c0) = c_sidecar c0.
Proof.
  unfold restrict. destruct (ext_name cls n); [|reflexivity].
  destruct (rget z (c_req c0)); [reflexivity|]. destruct (rget z (c_lim c0)); reflexivity.
Qed.
Lemma restrict_req cls n c0 k :
  rget k (c_req (restrict cls n c0)) =
  match ext_name cls n with
  | Some e => if k =? e
              then match rget e (c_req c0) with Some v => Some v | None => rget e (c_lim c0) end
              else rget k (c_req c0)
  | None => rget k (c_req c0)
  end.
Proof.
  unfold restrict. destruct (ext_name cls n) as [e|]; [|reflexivity].
  destruct (rget e (c_req c0)) as [v|] eqn:Er.
  - destruct (Z.eqb_spec k e); [subst; exact Er|reflexivity].
  - destruct (rget e (c_lim c0)) as [q|] eqn:El; cbn [c_req].
    + rewrite rget_rset. reflexivity.
    + destruct (Z.eqb_spec k e); [subst; exact Er|reflexivity].
Qed.

Lemma translate_container_unfold cls c :
  translate_container cls c =
  restrict cls R_MEM (restrict cls R_CPU (mkC (c_sidecar c) (re2 cls (c_req c)) (re2 cls (c_lim c)))).
Proof. reflexivity. Qed.

Lemma translate_lim_spec cls c k :
  rget k (c_lim (translate_container cls c)) = spec_res cls (c_lim c) k.
Proof. rewrite translate_container_unfold, !restrict_lim. cbn [c_lim]. apply re2_spec. Qed.

Lemma translate_sidecar cls c : c_sidecar (translate_container cls c) = c_sidecar c.
Proof. rewrite translate_container_unfold, !restrict_sidecar. reflexivity. Qed.

Lemma translate_req_spec cls c k :
  rget k (c_req (translate_container cls c)) = spec_req cls (c_req c) (c_lim c) k.
Proof.
  rewrite translate_container_unfold. unfold spec_req, native_of_ext.
  destruct (ext_name_cases cls) as [[_ T]|[[_ T]|[_ T]]]; unfold table_batch, table_mid, table_none in T; consts.
  - rewrite restrict_req, (T 1). change (1 =? 0) with false. change (1 =? 1) with true. cbv iota.
    rewrite restrict_lim, !restrict_req, !(T 0), ?(T 1). cbn [c_req c_lim].
    change (0 =? 0) with true. change (1 =? 0) with false. change (1 =? 1) with true. cbv iota.
    rewrite !re2_spec.
    rewrite !opt_eqb_some. change (3 =? 2) with false. cbv iota.
    destruct (Z.eqb_spec k 3) as [E|E].
    + subst k. change (2 =? 3) with false. change (3 =? 3) with true. cbv iota. reflexivity.
    + destruct (Z.eqb_spec k 2) as [E2|E2].
      * subst k. change (2 =? 2) with true. cbv iota. reflexivity.
      * destruct (Z.eqb_spec 2 k); [congruence|]. destruct (Z.eqb_spec 3 k); [congruence|].
        destruct (spec_res cls (c_req c) k); reflexivity.
  - rewrite restrict_req, (T 1). change (1 =? 0) with false. change (1 =? 1) with true. cbv iota.
    rewrite restrict_lim, !restrict_req, !(T 0), ?(T 1). cbn [c_req c_lim].
    change (0 =? 0) with true. change (1 =? 0) with false. change (1 =? 1) with true. cbv iota.
    rewrite !re2_spec.
    rewrite !opt_eqb_some. change (5 =? 4) with false. cbv iota.
    destruct (Z.eqb_spec k 5) as [E|E].
    + subst k. change (4 =? 5) with false. change (5 =? 5) with true. cbv iota. reflexivity.
    + destruct (Z.eqb_spec k 4) as [E2|E2].
      * subst k. change (4 =? 4) with true. cbv iota. reflexivity.
      * destruct (Z.eqb_spec 4 k); [congruence|]. destruct (Z.eqb_spec 5 k); [congruence|].
        destruct (spec_res cls (c_req c) k); reflexivity.
  - rewrite restrict_req, (T 1), restrict_req, ?T. cbn [c_req opt_eqb].
    rewrite re2_spec. destruct (spec_res cls (c_req c) k); reflexivity.
Qed.

(* ------------------------------------------------------------------ pods *)
Lemma tier_class_cases cls : tier_class cls = true -> cls = PriorityBatch \/ cls = PriorityMid.
Proof.
  unfold tier_class. intros H. apply orb_true_iff in H. destruct H as [H|H]; apply seqb_eq in H; auto.
Qed.
Lemma tier_not_none_prod cls :
  tier_class cls = true -> seqb cls PriorityNone || seqb cls PriorityProd = false.
Proof.
  intros H. apply orb_false_iff.
  destruct (tier_class_cases cls H) as [-> | ->]; split; apply seqb_neq.
  - exact batch_ne_none.
  - intro X; symmetry in X; exact (prod_ne_batch X).
  - exact mid_ne_none.
  - intro X; symmetry in X; exact (prod_ne_mid X).
Qed.

Lemma spec_res_none cls l k : table_none cls -> spec_res cls l k = rget k l.
Proof. intros T. unfold spec_res, native_of_ext. rewrite !T. reflexivity. Qed.
Lemma spec_req_none cls r l k : table_none cls -> spec_req cls r l k = rget k r.
Proof.
  intros T. unfold spec_req. rewrite spec_res_none by exact T.
  unfold native_of_ext. rewrite !T. cbn [opt_eqb]. destruct (rget k r); reflexivity.
Qed.

Lemma container_translated_ok keys cls c :
  container_translated keys cls c (translate_container cls c).
Proof. intros k _. split; [apply translate_req_spec|apply translate_lim_spec]. Qed.

Lemma container_same_when_no_tier keys cls c :
  tier_class cls = false -> container_same keys c (translate_container cls c).
Proof.
  intros H k _.
  destruct (ext_name_cases cls) as [[E _]|[[E _]|[_ T]]].
  - subst cls. unfold tier_class in H. rewrite seqb_refl in H. discriminate H.
  - subst cls. unfold tier_class in H. rewrite seqb_refl, orb_true_r in H. discriminate H.
  - rewrite translate_req_spec, translate_lim_spec, spec_req_none, spec_res_none by exact T. auto.
Qed.

Lemma Forall2_map_right {A} (R : A -> A -> Prop) (f : A -> A) (l : list A) :
  (forall a, R a (f a)) -> Forall2 R l (map f l).
Proof. intros H. induction l; cbn; constructor; auto. Qed.
Lemma Forall2_refl {A} (R : A -> A -> Prop) (l : list A) : (forall a, R a a) -> Forall2 R l l.
Proof. intros H. induction l; constructor; auto. Qed.

Lemma container_same_refl keys c : container_same keys c c.
Proof. intros k _. auto. Qed.

(* what translate_pod does to the resources, for a tier class and for any other class *)
Lemma translate_pod_tier keys cls p :
  tier_class cls = true ->
  Forall2 (container_translated keys cls) (p_init p) (p_init (translate_pod cls p))
  /\ Forall2 (container_translated keys cls) (p_ctrs p) (p_ctrs (translate_pod cls p))
  /\ (forall k, In k keys -> rget k (p_overhead (translate_pod cls p)) = spec_res cls (p_overhead p) k).
Proof.
  intros H. unfold translate_pod. rewrite (tier_not_none_prod cls H). cbn [p_init p_ctrs p_overhead].
  split; [|split].
  - apply Forall2_map_right. apply container_translated_ok.
  - apply Forall2_map_right. apply container_translated_ok.
  - intros k _. apply (re2_spec cls (p_overhead p) k).
Qed.
Lemma translate_pod_other keys cls p :
  tier_class cls = false ->
  Forall2 (container_same keys) (p_init p) (p_init (translate_pod cls p))
  /\ Forall2 (container_same keys) (p_ctrs p) (p_ctrs (translate_pod cls p))
  /\ (forall k, In k keys -> rget k (p_overhead (translate_pod cls p)) = rget k (p_overhead p)).
Proof.
  intros H. unfold translate_pod.
  destruct (seqb cls PriorityNone || seqb cls PriorityProd).
  - split; [|split]; try (apply Forall2_refl; apply container_same_refl). auto.
  - cbn [p_init p_ctrs p_overhead]. split; [|split].
    + apply Forall2_map_right. intros c. apply container_same_when_no_tier. exact H.
    + apply Forall2_map_right. intros c. apply container_same_when_no_tier. exact H.
    + intros k _. change (rget k (re2 cls (p_overhead p)) = rget k (p_overhead p)).
      rewrite re2_spec.
      destruct (ext_name_cases cls) as [[E _]|[[E _]|[_ T]]].
      * subst cls. unfold tier_class in H. rewrite seqb_refl in H. discriminate H.
      * subst cls. unfold tier_class in H. rewrite seqb_refl, orb_true_r in H. discriminate H.
      * apply spec_res_none. exact T.
Qed.

Lemma translate_pod_identity cls p :
  p_labels (translate_pod cls p) = p_labels p /\ p_prio (translate_pod cls p) = p_prio p
  /\ p_status_qos (translate_pod cls p) = p_status_qos p /\ p_ann (translate_pod cls p) = p_ann p.
Proof. unfold translate_pod. destruct (seqb cls PriorityNone || seqb cls PriorityProd); auto. Qed.
Lemma translate_pod_frame cls p :
  p_plres (translate_pod cls p) = p_plres p /\ p_oann (translate_pod cls p) = p_oann p.
Proof. unfold translate_pod. destruct (seqb cls PriorityNone || seqb cls PriorityProd); auto. Qed.

Lemma plres_same_refl keys o : plres_same keys o o.
Proof. destruct o as [[r l]|]; cbn; auto. Qed.

(* the class of a pod depends on its identity, its status QoS and its resources only *)
Lemma pclass_ext p q :
  p_status_qos q = p_status_qos p -> p_init q = p_init p -> p_ctrs q = p_ctrs p ->
  p_plres q = p_plres p -> p_prio q = p_prio p ->
  lget K_QOS (p_labels q) = lget K_QOS (p_labels p) ->
  lget K_PCLASS (p_labels q) = lget K_PCLASS (p_labels p) ->
  pclass_with_default q = pclass_with_default p.
Proof.
  intros S I C R P Q L.
  unfold pclass_with_default, pclass_raw, qos_with_default, qos_raw, qos_of_kube, kube_best_effort.
  rewrite S, I, C, R, P, Q, L. reflexivity.
Qed.

(* ------------------------------------------------------------------ the profile step *)
(* what no profile touches: status, containers, overhead, pod-level resources *)
Definition same_body (p p' : pod) : Prop :=
  p_status_qos p' = p_status_qos p /\ p_init p' = p_init p /\ p_ctrs p' = p_ctrs p
  /\ p_overhead p' = p_overhead p /\ p_plres p' = p_plres p.

Lemma same_body_refl p : same_body p p.
Proof. repeat split. Qed.
Lemma same_body_trans p q r : same_body p q -> same_body q r -> same_body p r.
Proof. unfold same_body. intuition congruence. Qed.

(* annotations written by a profile: a value is never "absent", and only the annotation
   fields change *)
Definition ann_frame (p p' : pod) : Prop :=
  same_body p p' /\ p_labels p' = p_labels p /\ p_prio p' = p_prio p
  /\ (p_ann p' = AnnAbsent -> p_ann p = AnnAbsent).
Lemma ann_frame_refl p : ann_frame p p.
Proof. repeat split; auto. Qed.
Lemma ann_frame_trans p q r : ann_frame p q -> ann_frame q r -> ann_frame p r.
Proof.
  intros (B1 & L1 & P1 & A1) (B2 & L2 & P2 & A2).
  split; [eapply same_body_trans; eassumption|].
  split; [congruence|]. split; [congruence|auto].
Qed.
Lemma aval_not_absent a : aval a <> AnnAbsent.
Proof. destruct a; discriminate. Qed.
Lemma aset_frame k a p : ann_frame p (aset k (aval a) p).
Proof.
  unfold aset. destruct (k =? A_SPEC); repeat split; cbn; auto.
  intros H. exfalso. exact (aval_not_absent a H).
Qed.
Lemma fold_aset_frame {A} (f : pod -> A -> Z) (g : pod -> A -> ann) (l : list A) : forall p,
  ann_frame p (fold_left (fun q x => aset (f q x) (aval (g q x)) q) l p).
Proof.
  induction l as [|x t IH]; intros p; cbn [fold_left]; [apply ann_frame_refl|].
  eapply ann_frame_trans; [apply aset_frame|apply IH].
Qed.
Lemma apply_profile_anns_frame pf p : ann_frame p (apply_profile_anns pf p).
Proof.
  unfold apply_profile_anns.
  eapply ann_frame_trans.
  - apply (fold_aset_frame (fun _ kv => fst kv) (fun _ kv => snd kv)).
  - apply (fold_aset_frame (fun _ on => snd on) (fun q on => aget (fst on) q)).
Qed.

Lemma apply_profile_body pf p p' :
  apply_profile pf p = Some p' -> same_body p p' /\ (p_ann p' = AnnAbsent -> p_ann p = AnnAbsent).
Proof.
  unfold apply_profile. destruct (apply_profile_anns_frame pf p) as (B & _ & _ & A).
  destruct (pf_pc pf); intros H; inversion H; subst; cbn; split; auto.
Qed.
Lemma apply_profiles_body e ps : forall p p',
  apply_profiles e ps p = Some p' -> same_body p p' /\ (p_ann p' = AnnAbsent -> p_ann p = AnnAbsent).
Proof.
  induction ps as [|pf t IH]; cbn [apply_profiles]; intros p p' H.
  - inversion H. split; [apply same_body_refl|auto].
  - destruct (should_skip e pf) as [[|]|]; [apply IH; exact H| |discriminate H].
    destruct (apply_profile pf p) as [p0|] eqn:E; [|discriminate H].
    destruct (apply_profile_body pf p p0 E) as [B0 A0]. destruct (IH p0 p' H) as [B1 A1].
    split; [eapply same_body_trans; eassumption|auto].
Qed.

Lemma profile_step_shape e ps p p1 :
  profile_step e ps p = Some p1 ->
  exists p', same_body p p' /\ (p_ann p' = AnnAbsent -> p_ann p = AnnAbsent)
    /\ p1 = (if translating e ps p then translate_pod (pclass_with_default p') p' else p').
Proof.
  unfold profile_step, translating.
  destruct (filter (profile_matches e p) ps) as [|a m] eqn:F.
  - intros H. inversion H. exists p1. split; [apply same_body_refl|split; [auto|reflexivity]].
  - destruct (apply_profiles e (sort_profiles (a :: m)) p) as [p'|] eqn:A; [|discriminate].
    intros H. exists p'. destruct (apply_profiles_body e _ p p' A) as [B AA].
    split; [exact B|split; [exact AA|]].
    destruct (translation_enabled e (a :: m)); inversion H; reflexivity.
Qed.

Lemma with_identity_class p p' p1 :
  same_body p p' -> p_labels p1 = p_labels p' -> p_prio p1 = p_prio p' ->
  pclass_with_default (with_identity p1 p) = pclass_with_default p'.
Proof.
  intros (B1 & B2 & B3 & B4 & B5) L P. symmetry.
  apply pclass_ext; unfold with_identity; cbn [p_status_qos p_init p_ctrs p_plres p_prio p_labels];
    congruence.
Qed.

Lemma profile_step_resources keys e ps p p1 :
  profile_step e ps p = Some p1 -> resources_ok keys (translating e ps p) p p1.
Proof.
  intros H. destruct (profile_step_shape e ps p p1 H) as (p' & B & _ & E).
  unfold resources_ok.
  assert (W : pclass_with_default (with_identity p1 p) = pclass_with_default p').
  { apply with_identity_class; [exact B| |]; subst p1; destruct (translating e ps p);
    try reflexivity; apply translate_pod_identity. }
  rewrite W. destruct B as (B1 & B2 & B3 & B4 & B5).
  split.
  { subst p1. destruct (translating e ps p).
    - rewrite (proj1 (translate_pod_frame _ p')), B5. apply plres_same_refl.
    - rewrite B5. apply plres_same_refl. }
  destruct (translating e ps p); cbn [andb].
  - destruct (tier_class (pclass_with_default p')) eqn:T; subst p1; rewrite <- B2, <- B3, <- B4.
    + apply translate_pod_tier. exact T.
    + apply translate_pod_other. exact T.
  - subst p1. rewrite <- B2, <- B3, <- B4.
    split; [|split]; try (apply Forall2_refl; apply container_same_refl). auto.
Qed.

(* the profile step never removes the summary annotation *)
Lemma profile_step_ann e ps p p1 :
  profile_step e ps p = Some p1 -> p_ann p1 = AnnAbsent -> p_ann p = AnnAbsent.
Proof.
  intros H. destruct (profile_step_shape e ps p p1 H) as (p' & _ & A & E).
  subst p1. destruct (translating e ps p); [|exact A].
  destruct (translate_pod_identity (pclass_with_default p') p') as (_ & _ & _ & X). rewrite X. exact A.
Qed.

(* ------------------------------------------------------------------ the summary annotation *)
Lemma extspec_shape e p p2 :
  extspec_step e p = Some p2 ->
  p_labels p2 = p_labels p /\ p_prio p2 = p_prio p /\ p_status_qos p2 = p_status_qos p
  /\ p_init p2 = p_init p /\ p_ctrs p2 = p_ctrs p /\ p_overhead p2 = p_overhead p
  /\ (e_gate_noext e = true -> p_ann p2 = p_ann p)
  /\ ann_ok (e_gate_noext e) p p2
  /\ p_plres p2 = p_plres p /\ p_oann p2 = p_oann p.
Proof.
  unfold extspec_step, ann_ok. destruct (e_gate_noext e).
  - intros H. inversion H. subst p2. repeat split; discriminate.
  - destruct (p_ann p) eqn:A; [|discriminate|].
    + destruct (build_spec 0 (p_ctrs p)) eqn:Bs; intros H; inversion H; subst p2; cbn.
      * repeat split; try discriminate. intros _. rewrite A, Bs. split; reflexivity.
      * repeat split; try discriminate. intros _. symmetry. exact Bs.
    + intros H; inversion H; subst p2; cbn. repeat split; discriminate.
Qed.

Lemma resources_ok_transfer keys en p p1 p2 :
  p_labels p2 = p_labels p1 -> p_prio p2 = p_prio p1 -> p_init p2 = p_init p1 ->
  p_ctrs p2 = p_ctrs p1 -> p_overhead p2 = p_overhead p1 -> p_plres p2 = p_plres p1 ->
  resources_ok keys en p p1 -> resources_ok keys en p p2.
Proof.
  intros L P I C O R. unfold resources_ok, with_identity. rewrite L, P, I, C, O, R. auto.
Qed.

(* main theorem of part M: every successful Create admission ends in a pod that satisfies
   the property relative to the submitted pod, for every key *)
Lemma create_mutated keys e ps p pout :
  admit_pod e OP_CREATE ps p = Some pout ->
  C13_mutated keys (translating e ps p) (e_gate_noext e) p pout.
Proof.
  unfold admit_pod. cbn [OP_CREATE Z.eqb].
  destruct (profile_step e ps p) as [p1|] eqn:S; [|discriminate].
  intros X. destruct (extspec_shape e p1 pout X) as (L & P & Q & I & C & O & _ & A & R & _).
  split.
  - eapply resources_ok_transfer; eauto. apply profile_step_resources. exact S.
  - unfold ann_ok in *. intros N. specialize (A N).
    destruct (p_ann pout); [|exact A|exact A].
    destruct A as [A1 A2]. split; [exact A1|]. exact (profile_step_ann e ps p p1 S A2).
Qed.

(* ------------------------------------------------------------------ readable corollaries *)
Lemma ext_pairs cls n e :
  ext_name cls n = Some e ->
  (n = R_CPU \/ n = R_MEM) /\ ext_name cls e = None /\ native_of_ext cls e = Some n
  /\ native_of_ext cls n = None /\ tier_class cls = true.
Proof.
  intros H. unfold native_of_ext.
  destruct (ext_name_cases cls) as [[E T]|[[E T]|[_ T]]];
    unfold table_batch, table_mid, table_none in T; rewrite !T in *; consts.
  - assert (tier_class cls = true) by (subst cls; unfold tier_class; rewrite seqb_refl; reflexivity).
    destruct (Z.eqb_spec n 0); [|destruct (Z.eqb_spec n 1); [|discriminate H]];
      inversion H; subst; cbn; auto 6.
  - assert (tier_class cls = true) by (subst cls; unfold tier_class; rewrite seqb_refl, orb_true_r; reflexivity).
    destruct (Z.eqb_spec n 0); [|destruct (Z.eqb_spec n 1); [|discriminate H]];
      inversion H; subst; cbn; auto 6.
  - discriminate H.
Qed.

(* "every container's request and limit keep their amounts (CPU in milli-cores), the native
   entries are removed", request defaulted from the limit only when absent, other names untouched *)
Lemma translate_preserves cls c n e :
  ext_name cls n = Some e ->
  let c' := translate_container cls c in
  rget n (c_req c') = None /\ rget n (c_lim c') = None
  /\ (forall q, rget n (c_lim c) = Some q -> rget e (c_lim c') = Some (to_ext n q))
  /\ (rget n (c_lim c) = None -> rget e (c_lim c') = rget e (c_lim c))
  /\ (forall q, rget n (c_req c) = Some q -> rget e (c_req c') = Some (to_ext n q))
  /\ (forall v, rget n (c_req c) = None -> rget e (c_req c) = Some v -> rget e (c_req c') = Some v)
  /\ (rget n (c_req c) = None -> rget e (c_req c) = None -> rget e (c_req c') = rget e (c_lim c')).
Proof.
  intros H c'. subst c'.
  destruct (ext_pairs cls n e H) as (_ & He & Hn & Hnn & _).
  rewrite !translate_req_spec, !translate_lim_spec. unfold spec_req, spec_res.
  rewrite H, He, Hn, Hnn.
  repeat match goal with |- _ /\ _ => split end; try reflexivity.
  - intros q Hq. rewrite Hq. reflexivity.
  - intros Hq. rewrite Hq. reflexivity.
  - intros q Hq. rewrite Hq. reflexivity.
  - intros v Hq Hv. rewrite Hq, Hv. reflexivity.
  - intros Hq Hv. rewrite Hq, Hv. reflexivity.
Qed.

Lemma translate_frame cls c k :
  ext_name cls k = None -> native_of_ext cls k = None ->
  rget k (c_req (translate_container cls c)) = rget k (c_req c)
  /\ rget k (c_lim (translate_container cls c)) = rget k (c_lim c).
Proof.
  intros H1 H2. rewrite translate_req_spec, translate_lim_spec. unfold spec_req, spec_res.
  rewrite H1, H2. destruct (rget k (c_req c)); auto.
Qed.

(* ------------------------------------------------------------------ idempotence *)
Lemma replace_erase_absent cls n l :
  (forall e, ext_name cls n = Some e -> rget n l = None) -> replace_erase cls n l = l.
Proof.
  intros H. unfold replace_erase. destruct (ext_name cls n) as [e|]; [|reflexivity].
  rewrite (H e eq_refl). reflexivity.
Qed.

Lemma translate_container_fixed cls d :
  (forall n e, ext_name cls n = Some e -> rget n (c_req d) = None /\ rget n (c_lim d) = None) ->
  (forall n e, ext_name cls n = Some e -> rget e (c_req d) = None -> rget e (c_lim d) = None) ->
  translate_container cls d = d.
Proof.
  intros A B. unfold translate_container.
  rewrite (replace_erase_absent cls R_CPU (c_req d)) by (intros e He; apply (A _ _ He)).
  rewrite (replace_erase_absent cls R_MEM (c_req d)) by (intros e He; apply (A _ _ He)).
  rewrite (replace_erase_absent cls R_CPU (c_lim d)) by (intros e He; apply (A _ _ He)).
  rewrite (replace_erase_absent cls R_MEM (c_lim d)) by (intros e He; apply (A _ _ He)).
  assert (R : forall n d0, c_req d0 = c_req d -> c_lim d0 = c_lim d -> restrict cls n d0 = d0).
  { intros n d0 E1 E2. unfold restrict. destruct (ext_name cls n) as [e|] eqn:He; [|reflexivity].
    rewrite E1, E2. destruct (rget e (c_req d)) eqn:Er; [reflexivity|].
    rewrite (B n e He Er). reflexivity. }
  rewrite (R R_CPU) by reflexivity. rewrite (R R_MEM) by reflexivity. destruct d; reflexivity.
Qed.

Lemma translate_container_idem cls c :
  translate_container cls (translate_container cls c) = translate_container cls c.
Proof.
  apply translate_container_fixed.
  - intros n e H. destruct (translate_preserves cls c n e H) as (A & B & _). split; assumption.
  - intros n e H. destruct (ext_pairs cls n e H) as (_ & He & Hn & _).
    rewrite translate_req_spec, translate_lim_spec. unfold spec_req. rewrite Hn.
    destruct (spec_res cls (c_req c) e); [discriminate|auto].
Qed.

Lemma re2_idem cls l : re2 cls (re2 cls l) = re2 cls l.
Proof.
  unfold re2 at 1.
  assert (A : forall n e, ext_name cls n = Some e -> rget n (re2 cls l) = None).
  { intros n e H. rewrite re2_spec. unfold spec_res. rewrite H. reflexivity. }
  rewrite (replace_erase_absent cls R_CPU) by (intros e He; apply (A _ _ He)).
  rewrite (replace_erase_absent cls R_MEM) by (intros e He; apply (A _ _ He)).
  reflexivity.
Qed.

Lemma translate_pod_idem cls p : translate_pod cls (translate_pod cls p) = translate_pod cls p.
Proof.
  unfold translate_pod. destruct (seqb cls PriorityNone || seqb cls PriorityProd) eqn:E; rewrite ?E; [reflexivity|].
  cbn [p_labels p_prio p_status_qos p_init p_ctrs p_overhead p_ann].
  rewrite !map_map.
  rewrite (map_ext _ _ (translate_container_idem cls) (p_init p)).
  rewrite (map_ext _ _ (translate_container_idem cls) (p_ctrs p)).
  change (replace_erase cls R_MEM (replace_erase cls R_CPU
            (replace_erase cls R_MEM (replace_erase cls R_CPU (p_overhead p)))))
    with (re2 cls (re2 cls (p_overhead p))).
  rewrite re2_idem. reflexivity.
Qed.

(* the annotation step is idempotent *)
Lemma set_ann_same p : set_ann (p_ann p) p = p.
Proof. destruct p; reflexivity. Qed.
Lemma extspec_idem e p p2 : extspec_step e p = Some p2 -> extspec_step e p2 = Some p2.
Proof.
  unfold extspec_step. destruct (e_gate_noext e); [intros H; inversion H; reflexivity|].
  destruct (p_ann p) eqn:A; [|discriminate|].
  - destruct (build_spec 0 (p_ctrs p)) eqn:Bs; intros H; inversion H; subst p2.
    + rewrite A, Bs. reflexivity.
    + cbn [set_ann p_ann p_ctrs]. rewrite Bs. reflexivity.
  - intros H; inversion H; subst p2. cbn [set_ann p_ann p_ctrs]. reflexivity.
Qed.

(* re-admission as Update changes nothing *)
Lemma readmit_update e ps p p1 :
  admit_pod e OP_CREATE ps p = Some p1 -> admit_pod e OP_UPDATE ps p1 = Some p1.
Proof.
  unfold admit_pod. cbn [OP_CREATE OP_UPDATE Z.eqb Pos.eqb].
  destruct (profile_step e ps p) as [p0|]; [|discriminate]. apply extspec_idem.
Qed.
Lemma readmit_update_any e ps p p1 :
  admit_pod e OP_UPDATE ps p = Some p1 -> admit_pod e OP_UPDATE ps p1 = Some p1.
Proof. unfold admit_pod. cbn [OP_CREATE OP_UPDATE Z.eqb Pos.eqb]. apply extspec_idem. Qed.

(* ------------------------------------------------------------------ re-admission as Create *)
Lemma pos_cpu_mem_false l : rget R_CPU l = None -> rget R_MEM l = None -> pos_cpu_mem l = false.
Proof.
  unfold pos_cpu_mem. induction l as [|[a v] t IH]; cbn [rget existsb fst snd]; [reflexivity|].
  destruct (Z.eqb_spec R_CPU a); [discriminate|]. destruct (Z.eqb_spec R_MEM a); [discriminate|].
  intros H0 H1. rewrite (IH H0 H1).
  destruct (Z.eqb_spec a R_CPU); [congruence|]. destruct (Z.eqb_spec a R_MEM); [congruence|]. reflexivity.
Qed.

Lemma tier_ext cls : tier_class cls = true ->
  exists e1 e2, ext_name cls R_CPU = Some e1 /\ ext_name cls R_MEM = Some e2.
Proof.
  intros H. destruct (ext_name_cases cls) as [[_ T]|[[_ T]|[F _]]].
  - exists R_BCPU, R_BMEM. rewrite !T. split; reflexivity.
  - exists R_MCPU, R_MMEM. rewrite !T. split; reflexivity.
  - congruence.
Qed.

Lemma existsb_map_false {A} (f : A -> bool) (g : A -> A) l :
  (forall a, f (g a) = false) -> existsb f (map g l) = false.
Proof. intros H. induction l; cbn; [reflexivity|]. rewrite H, IHl. reflexivity. Qed.

Lemma kbe_translated cls p : tier_class cls = true -> p_plres p = None ->
  kube_best_effort (translate_pod cls p) = true.
Proof.
  intros H N. unfold kube_best_effort, translate_pod. rewrite (tier_not_none_prod cls H).
  cbn [p_ctrs p_init p_plres]. rewrite N. rewrite <- map_app. rewrite existsb_map_false; [reflexivity|].
  intros c. destruct (tier_ext cls H) as (e1 & e2 & H1 & H2).
  destruct (translate_preserves cls c R_CPU e1 H1) as (A1 & B1 & _).
  destruct (translate_preserves cls c R_MEM e2 H2) as (A2 & B2 & _).
  rewrite !pos_cpu_mem_false by assumption. reflexivity.
Qed.
(* with pod-level resources the containers are not looked at *)
Lemma kbe_plres cls p x : p_plres p = Some x ->
  kube_best_effort (translate_pod cls p) = kube_best_effort p.
Proof.
  intros N. unfold kube_best_effort. rewrite (proj1 (translate_pod_frame cls p)), N. reflexivity.
Qed.

Lemma tier_prod : tier_class PriorityProd = false.
Proof. reflexivity. Qed.
Lemma tier_none : tier_class PriorityNone = false.
Proof. reflexivity. Qed.

Lemma pclass_stable p :
  tier_class (pclass_with_default p) = true ->
  pclass_with_default (translate_pod (pclass_with_default p) p) = pclass_with_default p.
Proof.
  intros H. set (cls := pclass_with_default p) in *.
  destruct (translate_pod_identity cls p) as (L & P & S & _).
  destruct (p_plres p) as [x|] eqn:PL.
  - pose proof (kbe_plres cls p x PL) as K.
    unfold pclass_with_default, pclass_raw, qos_with_default, qos_raw, qos_of_kube.
    rewrite L, P, S, K. reflexivity.
  - pose proof (kbe_translated cls p H PL) as K.
    unfold pclass_with_default, pclass_raw, qos_with_default, qos_raw, qos_of_kube in *.
    rewrite L, P, S, K.
    destruct (seqb (match lget K_PCLASS (p_labels p) with
                    | Some v => pclass_by_name v
                    | None => match p_prio p with Some v => getPriorityClassByPriority v | None => PriorityNone end
                    end) PriorityNone); [|reflexivity].
    destruct (seqb (match lget K_QOS (p_labels p) with Some v => qos_by_name v | None => QoSNone end) QoSNone);
      [|reflexivity].
    destruct (seqb (p_status_qos p) EmptyString); [|reflexivity].
    destruct (kube_best_effort p); [reflexivity|].
    (* not best-effort: the class would be prod, which is no tier class *)
    subst cls. exfalso. revert H. vm_compute. discriminate.
Qed.

Lemma translate_pod_non_tier cls p : tier_class cls = false -> translate_pod cls p = p.
Proof.
  intros H. unfold translate_pod.
  destruct (seqb cls PriorityNone || seqb cls PriorityProd); [reflexivity|].
  assert (T : table_none cls).
  { destruct (ext_name_cases cls) as [[E _]|[[E _]|[_ T]]]; [| |exact T]; subst cls; revert H; vm_compute; discriminate. }
  assert (C : forall c, translate_container cls c = c).
  { intros c. apply translate_container_fixed; intros n e He; rewrite T in He; discriminate He. }
  rewrite (map_ext _ _ C (p_init p)), (map_ext _ _ C (p_ctrs p)), !map_id.
  unfold replace_erase. rewrite !T. destruct p; reflexivity.
Qed.

Lemma pclass_set_ann a p : pclass_with_default (set_ann a p) = pclass_with_default p.
Proof. reflexivity. Qed.
Lemma translate_set_ann cls a p : translate_pod cls (set_ann a p) = set_ann a (translate_pod cls p).
Proof. unfold translate_pod. destruct (seqb cls PriorityNone || seqb cls PriorityProd); reflexivity. Qed.

Lemma extspec_is_set_ann e q p1 : extspec_step e q = Some p1 -> exists a, p1 = set_ann a q.
Proof.
  unfold extspec_step. destruct (e_gate_noext e).
  - intros H; inversion H. exists (p_ann p1). symmetry. apply set_ann_same.
  - destruct (p_ann q) eqn:A; [|discriminate|].
    + destruct (build_spec 0 (p_ctrs q)); intros H; inversion H; eauto.
      exists (p_ann p1). symmetry. apply set_ann_same.
    + intros H; inversion H; eauto.
Qed.

(* the translated pod is a fixed point of the translation for its own class *)
Lemma translated_fixed p' :
  let q1 := translate_pod (pclass_with_default p') p' in
  translate_pod (pclass_with_default q1) q1 = q1.
Proof.
  intros q1. subst q1. destruct (tier_class (pclass_with_default p')) eqn:T.
  - rewrite pclass_stable by exact T. apply translate_pod_idem.
  - rewrite (translate_pod_non_tier _ p' T). apply translate_pod_non_tier. exact T.
Qed.

(* ---------- profiles that do not write the summary annotation leave it alone ---------- *)
Lemma aset_other_ann k a p : (k =? A_SPEC) = false -> p_ann (aset k a p) = p_ann p.
Proof. intros H. unfold aset. rewrite H. reflexivity. Qed.

Lemma fold_aset_ann {A} (f : A -> Z) (g : pod -> A -> ann) (l : list A) : forall p,
  existsb (fun x => f x =? A_SPEC) l = false ->
  p_ann (fold_left (fun q x => aset (f x) (g q x) q) l p) = p_ann p.
Proof.
  induction l as [|x t IH]; intros p H; cbn [fold_left]; [reflexivity|].
  cbn [existsb] in H. apply orb_false_iff in H. destruct H as [H1 H2].
  rewrite IH by exact H2. apply aset_other_ann. exact H1.
Qed.

Lemma apply_profile_anns_ann pf p : writes_summary pf = false -> p_ann (apply_profile_anns pf p) = p_ann p.
Proof.
  unfold writes_summary, apply_profile_anns. intros H. apply orb_false_iff in H. destruct H as [H1 H2].
  rewrite (fold_aset_ann (fun on : Z * Z => snd on) (fun q on => aval (aget (fst on) q))) by exact H2.
  apply (fold_aset_ann (fun kv : Z * ann => fst kv) (fun _ kv => aval (snd kv))). exact H1.
Qed.
Lemma apply_profile_ann pf p p' :
  writes_summary pf = false -> apply_profile pf p = Some p' -> p_ann p' = p_ann p.
Proof.
  intros W. unfold apply_profile. pose proof (apply_profile_anns_ann pf p W) as A.
  destruct (pf_pc pf); intros H; inversion H; subst; cbn; exact A.
Qed.
Lemma apply_profiles_ann e ps : forall p p',
  existsb writes_summary ps = false -> apply_profiles e ps p = Some p' -> p_ann p' = p_ann p.
Proof.
  induction ps as [|pf t IH]; cbn [apply_profiles existsb]; intros p p' W H.
  - inversion H. reflexivity.
  - apply orb_false_iff in W. destruct W as [W1 W2].
    destruct (should_skip e pf) as [[|]|]; [apply IH; assumption| |discriminate H].
    destruct (apply_profile pf p) as [p0|] eqn:E; [|discriminate H].
    rewrite (IH p0 p' W2 H). apply (apply_profile_ann pf p p0 W1 E).
Qed.

Lemma In_insert_profile x y l : In x (insert_profile y l) -> x = y \/ In x l.
Proof.
  induction l as [|z t IH]; cbn [insert_profile].
  - intros [H|[]]; auto.
  - destruct (pf_name y <=? pf_name z).
    + intros [H|H]; auto.
    + intros [H|H]; [right; left; exact H|]. destruct (IH H) as [E|E]; [auto|right; right; exact E].
Qed.
Lemma In_sort_profiles x l : In x (sort_profiles l) -> In x l.
Proof.
  induction l as [|y t IH]; cbn [sort_profiles fold_right]; [auto|].
  intros H. apply In_insert_profile in H. destruct H as [H|H]; [left; congruence|right; apply IH; exact H].
Qed.
Lemma existsb_false_sort f l : existsb f l = false -> existsb f (sort_profiles l) = false.
Proof.
  intros H. destruct (existsb f (sort_profiles l)) eqn:E; [|reflexivity].
  apply existsb_exists in E. destruct E as (x & Hx & Fx).
  assert (X : existsb f l = true) by (apply existsb_exists; exists x; split; [apply In_sort_profiles; exact Hx|exact Fx]).
  congruence.
Qed.

Lemma profile_step_shape_ann e ps p p1 :
  profile_step e ps p = Some p1 -> touches_summary e ps p = false ->
  exists p', same_body p p' /\ p_ann p' = p_ann p
    /\ p1 = (if translating e ps p then translate_pod (pclass_with_default p') p' else p').
Proof.
  unfold profile_step, translating, touches_summary.
  destruct (filter (profile_matches e p) ps) as [|a m] eqn:F.
  - intros H _. inversion H. exists p1. split; [apply same_body_refl|split; reflexivity].
  - destruct (apply_profiles e (sort_profiles (a :: m)) p) as [p'|] eqn:A; [|discriminate].
    intros H W. exists p'. destruct (apply_profiles_body e _ p p' A) as [B _].
    split; [exact B|]. split; [apply (apply_profiles_ann e _ p p' (existsb_false_sort _ _ W) A)|].
    destruct (translation_enabled e (a :: m)); inversion H; reflexivity.
Qed.

Lemma pod_eq_of_body p q :
  same_body p q -> p_labels q = p_labels p -> p_prio q = p_prio p -> p_ann q = p_ann p ->
  q = set_oann (p_oann q) p.
Proof.
  intros (B1 & B2 & B3 & B4 & B5) L P A. destruct p, q; cbn in *; subst; reflexivity.
Qed.

Lemma pclass_set_oann o p : pclass_with_default (set_oann o p) = pclass_with_default p.
Proof. reflexivity. Qed.
Lemma translate_set_oann cls o p : translate_pod cls (set_oann o p) = set_oann o (translate_pod cls p).
Proof. unfold translate_pod. destruct (seqb cls PriorityNone || seqb cls PriorityProd); reflexivity. Qed.
Lemma extspec_set_oann e o p :
  extspec_step e (set_oann o p) = option_map (set_oann o) (extspec_step e p).
Proof.
  unfold extspec_step. destruct (e_gate_noext e); [reflexivity|]. cbn [set_oann p_ann p_ctrs].
  destruct (p_ann p); try reflexivity. destruct (build_spec 0 (p_ctrs p)); reflexivity.
Qed.

(* an admitted pod is a fixed point of the translation for its own class *)
Lemma admitted_fixed e ps p p1 :
  admit_pod e OP_CREATE ps p = Some p1 -> translating e ps p = true ->
  translate_pod (pclass_with_default p1) p1 = p1.
Proof.
  unfold admit_pod. cbn [OP_CREATE Z.eqb].
  destruct (profile_step e ps p) as [q1|] eqn:S1; [|discriminate]. intros X1 TR.
  destruct (profile_step_shape e ps p q1 S1) as (p' & _ & _ & E1). rewrite TR in E1.
  destruct (extspec_is_set_ann e q1 p1 X1) as (a & Ea). rewrite Ea.
  rewrite pclass_set_ann, translate_set_ann. f_equal. rewrite E1. apply translated_fixed.
Qed.

(* re-admission as Create changes nothing the property talks about, provided the re-applied
   profiles leave the pod's identity (labels, priority) alone, do not write the summary
   annotation themselves and the translation is switched the same way; annotations other
   than the summary may be rewritten by the profiles *)
Lemma readmit_create e ps p p1 p3 :
  admit_pod e OP_CREATE ps p = Some p1 ->
  admit_pod e OP_CREATE ps p1 = Some p3 ->
  p_labels p3 = p_labels p1 -> p_prio p3 = p_prio p1 ->
  translating e ps p1 = translating e ps p ->
  touches_summary e ps p1 = false ->
  p3 = set_oann (p_oann p3) p1.
Proof.
  intros A1 A3 L P TR TS.
  pose proof (readmit_update e ps p p1 A1) as U.
  unfold admit_pod in U. cbn [OP_CREATE OP_UPDATE Z.eqb Pos.eqb] in U.
  pose proof (admitted_fixed e ps p p1 A1) as FX.
  unfold admit_pod in A3. cbn [OP_CREATE Z.eqb] in A3.
  destruct (profile_step e ps p1) as [q3|] eqn:S3; [|discriminate].
  destruct (profile_step_shape_ann e ps p1 q3 S3 TS) as (p'' & B'' & AN & E3).
  destruct (extspec_shape e q3 p3 A3) as (L3 & P3 & _ & _ & _ & _ & _ & _ & _ & O3).
  assert (Lq : p_labels q3 = p_labels p'' /\ p_prio q3 = p_prio p'' /\ p_oann q3 = p_oann p'').
  { rewrite E3. destruct (translating e ps p1); [|repeat split; reflexivity].
    destruct (translate_pod_identity (pclass_with_default p'') p'') as (X1 & X2 & _).
    destruct (translate_pod_frame (pclass_with_default p'') p'') as (_ & X3). repeat split; assumption. }
  destruct Lq as (Lq & Pq & Oq).
  assert (Hp'' : p'' = set_oann (p_oann p'') p1).
  { apply pod_eq_of_body; [exact B''| | |exact AN]; congruence. }
  assert (Hq3 : q3 = set_oann (p_oann p'') p1).
  { rewrite E3, TR. destruct (translating e ps p) eqn:T; [|exact Hp''].
    rewrite Hp'' at 1 2. rewrite pclass_set_oann, translate_set_oann, (FX eq_refl). reflexivity. }
  rewrite Hq3, extspec_set_oann, U in A3. cbn [option_map] in A3. inversion A3 as [A3'].
  cbn [set_oann p_oann]. reflexivity.
Qed.

(* ------------------------------------------------------------------ Spec connection *)
Lemma opt_eqb_eq a b : opt_eqb a b = true <-> a = b.
Proof.
  destruct a, b; cbn; split; intros H; try discriminate; try reflexivity.
  - apply Z.eqb_eq in H. congruence.
  - inversion H. apply Z.eqb_refl.
Qed.

Lemma forallb2_Forall2 {A B} (f : A -> B -> bool) (R : A -> B -> Prop) :
  (forall a b, f a b = true <-> R a b) ->
  forall l1 l2, forallb2 f l1 l2 = true <-> Forall2 R l1 l2.
Proof.
  intros H. induction l1 as [|a t IH]; destruct l2 as [|b t2]; cbn [forallb2].
  - split; [constructor|reflexivity].
  - split; [discriminate|intros X; inversion X].
  - split; [discriminate|intros X; inversion X].
  - rewrite andb_true_iff, H, IH. split.
    + intros [X Y]. constructor; assumption.
    + intros X. inversion X. auto.
Qed.

Lemma container_translatedb_spec keys cls cin cout :
  container_translatedb keys cls cin cout = true <-> container_translated keys cls cin cout.
Proof.
  unfold container_translatedb, container_translated. rewrite forallb_forall.
  split; intros H k Hk; specialize (H k Hk).
  - apply andb_true_iff in H. destruct H as [H1 H2]. apply opt_eqb_eq in H1, H2. auto.
  - destruct H as [H1 H2]. apply andb_true_iff. split; apply opt_eqb_eq; assumption.
Qed.
Lemma container_sameb_spec keys cin cout :
  container_sameb keys cin cout = true <-> container_same keys cin cout.
Proof.
  unfold container_sameb, container_same. rewrite forallb_forall.
  split; intros H k Hk; specialize (H k Hk).
  - apply andb_true_iff in H. destruct H as [H1 H2]. apply opt_eqb_eq in H1, H2. auto.
  - destruct H as [H1 H2]. apply andb_true_iff. split; apply opt_eqb_eq; assumption.
Qed.

Lemma plres_sameb_spec keys a b : plres_sameb keys a b = true <-> plres_same keys a b.
Proof.
  unfold plres_sameb, plres_same. destruct a as [[r1 l1]|], b as [[r2 l2]|];
    try (split; [discriminate|contradiction]); try (split; auto; fail).
  rewrite forallb_forall. split; intros H k Hk; specialize (H k Hk).
  - apply andb_true_iff in H. destruct H as [H1 H2]. apply opt_eqb_eq in H1, H2. auto.
  - destruct H as [H1 H2]. apply andb_true_iff. split; apply opt_eqb_eq; assumption.
Qed.

Lemma resources_okb_spec keys en pin pout :
  resources_okb keys en pin pout = true <-> resources_ok keys en pin pout.
Proof.
  unfold resources_okb, resources_ok. rewrite andb_true_iff, plres_sameb_spec.
  apply and_iff_compat_l.
  destruct (en && tier_class (pclass_with_default (with_identity pout pin))).
  - rewrite !andb_true_iff, forallb_forall.
    rewrite !(forallb2_Forall2 _ _ (container_translatedb_spec keys _)).
    split.
    + intros [[A B] C]. split; [exact A|split; [exact B|]]. intros k Hk. apply opt_eqb_eq. apply C. exact Hk.
    + intros (A & B & C). split; [split; assumption|]. intros k Hk. apply opt_eqb_eq. apply C. exact Hk.
  - rewrite !andb_true_iff, forallb_forall.
    rewrite !(forallb2_Forall2 _ _ (container_sameb_spec keys)).
    split.
    + intros [[A B] C]. split; [exact A|split; [exact B|]]. intros k Hk. apply opt_eqb_eq. apply C. exact Hk.
    + intros (A & B & C). split; [split; assumption|]. intros k Hk. apply opt_eqb_eq. apply C. exact Hk.
Qed.

Lemma econt_eqb_eq x y : econt_eqb x y = true <-> x = y.
Proof.
  destruct x as [[a b] [c d]], y as [[a' b'] [c' d']]. cbn [econt_eqb].
  rewrite !andb_true_iff, !opt_eqb_eq. split.
  - intros [[[-> ->] ->] ->]. reflexivity.
  - intros H. inversion H. auto.
Qed.
Lemma espec_eqb_eq x : forall y, espec_eqb x y = true <-> x = y.
Proof.
  induction x as [|[i e] t IH]; destruct y as [|[i' e'] t']; cbn [espec_eqb].
  - split; reflexivity.
  - split; discriminate.
  - split; discriminate.
  - rewrite !andb_true_iff, Z.eqb_eq, econt_eqb_eq, IH. split.
    + intros [[-> ->] ->]. reflexivity.
    + intros H. inversion H. auto.
Qed.

Lemma ann_okb_spec noext pin pout : ann_okb noext pin pout = true <-> ann_ok noext pin pout.
Proof.
  unfold ann_okb, ann_ok. destruct noext; cbn [orb].
  - split; [discriminate|reflexivity].
  - destruct (p_ann pout).
    + rewrite andb_true_iff. unfold is_nil.
      destruct (build_spec 0 (p_ctrs pout)); destruct (p_ann pin); split;
        try (intros [X Y]; try discriminate X; try discriminate Y; auto; fail);
        try (intros H; destruct (H eq_refl) as [X Y]; try discriminate X; try discriminate Y; auto; fail).
    + split; [discriminate|]. intros H. destruct (H eq_refl).
    + rewrite espec_eqb_eq. split; auto.
Qed.

Lemma mutate_code_spec keys en noext pin pout :
  mutate_code keys en noext pin pout = 0 <-> C13_mutated keys en noext pin pout.
Proof.
  unfold mutate_code, C13_mutated. rewrite <- resources_okb_spec, <- ann_okb_spec.
  destruct (resources_okb keys en pin pout); destruct (ann_okb noext pin pout); cbn [negb];
    split; intros H; try discriminate H; try reflexivity; try (split; reflexivity);
    destruct H; discriminate.
Qed.

(* the model passes its own decision procedure, for every admission *)
Lemma create_code_zero keys e ps p pout :
  admit_pod e OP_CREATE ps p = Some pout ->
  mutate_code keys (translating e ps p) (e_gate_noext e) p pout = 0.
Proof. intros H. apply mutate_code_spec. apply create_mutated. exact H. Qed.

(* ------------------------------------------------------------------ exported forms *)
Lemma spec_matches_final e ps p pout :
  admit_pod e OP_CREATE ps p = Some pout -> ann_ok (e_gate_noext e) p pout.
Proof. intros H. apply (create_mutated KEYS e ps p pout H). Qed.

Lemma idempotent_thm e ps p p1 :
  admit_pod e OP_CREATE ps p = Some p1 ->
  admit_pod e OP_UPDATE ps p1 = Some p1
  /\ forall p2, admit_pod e OP_UPDATE ps p1 = Some p2 ->
       p2 = p1 /\ forall g op old, validate g op old p2 = validate g op old p1.
Proof.
  intros H. pose proof (readmit_update e ps p p1 H) as U. split; [exact U|].
  intros p2 H2. rewrite U in H2. inversion H2. split; reflexivity.
Qed.
