(* C13 — the wire codec of the observable: decoding what was encoded gives back the pod up to
   what the observation contains (label keys 0..4, resource names 0..6). *)
From Coq Require Import String Ascii List ZArith Bool Lia.
From Verif Require Import Lib.Wire Gen.Gen_consts Gen.Gen_funcs
  C13.Model C13.Spec C13.Codec C13.Check C13.Proofs C13.Proofs_mutate.
Import ListNotations.
Open Scope Z_scope.

Lemma firstn_app_exact {A} (b r : list A) : firstn (List.length b) (b ++ r) = b.
Proof. induction b; cbn; [destruct r; reflexivity|]. rewrite IHb. reflexivity. Qed.
Lemma skipn_app_exact {A} (b r : list A) : skipn (List.length b) (b ++ r) = r.
Proof. induction b; cbn; [reflexivity|exact IHb]. Qed.

Lemma take_list_encode b r : take_list (encode_list b ++ r) = (b, r).
Proof.
  unfold take_list, encode_list, take_n. cbn [app]. rewrite Nat2Z.id.
  rewrite firstn_app_exact, skipn_app_exact. reflexivity.
Qed.

Lemma string_zs_roundtrip s : string_of_zs (zs_of_string s) = s.
Proof.
  induction s as [|a t IH]; cbn [zs_of_string string_of_zs]; [reflexivity|].
  rewrite N2Z.id, ascii_N_embedding, IH. reflexivity.
Qed.

Lemma dec_str_enc s r : dec_str (enc_str s ++ r) = (s, r).
Proof. unfold dec_str, enc_str. rewrite take_list_encode, string_zs_roundtrip. reflexivity. Qed.

Lemma limb_roundtrip v : v / limb * limb + v mod limb = v.
Proof. unfold limb. pose proof (Z.div_mod v 1000000000000000000 ltac:(lia)). lia. Qed.

Lemma dec_amount_enc o r : dec_amount (enc_amount o ++ r) = (o, r).
Proof.
  destruct o as [v|]; cbn [enc_amount app dec_amount zb Z.eqb negb]; [|reflexivity].
  rewrite limb_roundtrip. reflexivity.
Qed.

(* ---------- projections ---------- *)
Definition proj_res (l : reslist) (keys : list Z) : reslist :=
  flat_map (fun k => match rget k l with Some v => [(k, v)] | None => [] end) keys.
Definition proj_labels (l : labels) (keys : list Z) : labels :=
  flat_map (fun k => match lget k l with Some v => [(k, v)] | None => [] end) keys.

Lemma rget_proj_notin l keys k : ~ In k keys -> rget k (proj_res l keys) = None.
Proof.
  induction keys as [|a t IH]; cbn [proj_res flat_map]; [reflexivity|].
  intros H. destruct (rget a l); cbn [app rget].
  - destruct (Z.eqb_spec k a); [exfalso; apply H; left; auto|]. apply IH. intros X. apply H. right. exact X.
  - apply IH. intros X. apply H. right. exact X.
Qed.
Lemma rget_proj l keys k : NoDup keys -> In k keys -> rget k (proj_res l keys) = rget k l.
Proof.
  induction keys as [|a t IH]; [intros _ []|].
  intros ND Hin. inversion ND as [|? ? Hna ND']; subst.
  change (proj_res l (a :: t))
    with ((match rget a l with Some v => [(a, v)] | None => [] end) ++ proj_res l t).
  destruct (Z.eq_dec k a) as [E|E].
  - subst k. destruct (rget a l) eqn:R; cbn [app rget].
    + rewrite Z.eqb_refl. reflexivity.
    + apply rget_proj_notin. exact Hna.
  - destruct Hin as [X|X]; [congruence|].
    destruct (rget a l); cbn [app rget].
    + destruct (Z.eqb_spec k a); [contradiction|]. apply IH; assumption.
    + apply IH; assumption.
Qed.
Lemma lget_proj_notin l keys k : ~ In k keys -> lget k (proj_labels l keys) = None.
Proof.
  induction keys as [|a t IH]; cbn [proj_labels flat_map]; [reflexivity|].
  intros H. destruct (lget a l); cbn [app lget].
  - destruct (Z.eqb_spec k a); [exfalso; apply H; left; auto|]. apply IH. intros X. apply H. right. exact X.
  - apply IH. intros X. apply H. right. exact X.
Qed.
Lemma lget_proj l keys k : NoDup keys -> In k keys -> lget k (proj_labels l keys) = lget k l.
Proof.
  induction keys as [|a t IH]; [intros _ []|].
  intros ND Hin. inversion ND as [|? ? Hna ND']; subst.
  change (proj_labels l (a :: t))
    with ((match lget a l with Some v => [(a, v)] | None => [] end) ++ proj_labels l t).
  destruct (Z.eq_dec k a) as [E|E].
  - subst k. destruct (lget a l) eqn:R; cbn [app lget].
    + rewrite Z.eqb_refl. reflexivity.
    + apply lget_proj_notin. exact Hna.
  - destruct Hin as [X|X]; [congruence|].
    destruct (lget a l); cbn [app lget].
    + destruct (Z.eqb_spec k a); [contradiction|]. apply IH; assumption.
    + apply IH; assumption.
Qed.

Lemma nodup_res_keys : NoDup RES_KEYS.
Proof. unfold RES_KEYS. repeat constructor; cbn; intuition lia. Qed.
Lemma nodup_label_keys : NoDup LABEL_KEYS.
Proof. unfold LABEL_KEYS. repeat constructor; cbn; intuition lia. Qed.

(* ---------- decoders undo encoders ---------- *)
Lemma dec_obs_reslist_enc l keys r :
  dec_obs_reslist keys (flat_map (fun k => enc_amount (rget k l)) keys ++ r) = (proj_res l keys, r).
Proof.
  induction keys as [|a t IH]; cbn [flat_map dec_obs_reslist app proj_res]; [reflexivity|].
  rewrite <- app_assoc, dec_amount_enc. fold (proj_res l t). rewrite IH.
  destruct (rget a l); reflexivity.
Qed.

Definition proj_container (c : container) : container :=
  mkC false (proj_res (c_req c) RES_KEYS) (proj_res (c_lim c) RES_KEYS).

Lemma dec_obs_container_enc c r :
  dec_obs_container (enc_container c ++ r) = (proj_container c, r).
Proof.
  unfold dec_obs_container, enc_container, enc_reslist. rewrite <- app_assoc.
  rewrite dec_obs_reslist_enc, dec_obs_reslist_enc. reflexivity.
Qed.

Lemma decode_many_containers cs r :
  decode_many dec_obs_container (List.length cs) (flat_map enc_container cs ++ r)
  = (map proj_container cs, r).
Proof.
  induction cs as [|c t IH]; cbn [List.length flat_map decode_many app map]; [reflexivity|].
  rewrite <- app_assoc, dec_obs_container_enc, IH. reflexivity.
Qed.
Lemma decode_seq_containers cs r :
  decode_seq dec_obs_container (enc_containers cs ++ r) = (map proj_container cs, r).
Proof.
  unfold decode_seq, enc_containers. cbn [app]. rewrite Nat2Z.id. apply decode_many_containers.
Qed.

Lemma dec_obs_labels_enc l keys r :
  dec_obs_labels keys (flat_map (enc_label l) keys ++ r) = (proj_labels l keys, r).
Proof.
  induction keys as [|a t IH]; cbn [flat_map dec_obs_labels app proj_labels]; [reflexivity|].
  unfold enc_label at 1. fold (proj_labels l t).
  destruct (lget a l) as [v|]; cbn [app]; rewrite <- app_assoc, dec_str_enc, IH; reflexivity.
Qed.

Lemma dec_opt_enc o r : dec_opt (enc_opt o ++ r) = (o, r).
Proof. destruct o; reflexivity. Qed.

Lemma dec_obs_ann_entry_enc x r : dec_obs_ann_entry (enc_ann_entry x ++ r) = (x, r).
Proof.
  destruct x as [i [[a b] [c d]]]. unfold enc_ann_entry, dec_obs_ann_entry. cbn [app].
  rewrite <- !app_assoc. rewrite !dec_amount_enc. reflexivity.
Qed.
Lemma decode_many_ann s r :
  decode_many dec_obs_ann_entry (List.length s) (flat_map enc_ann_entry s ++ r) = (s, r).
Proof.
  induction s as [|x t IH]; cbn [List.length flat_map decode_many app]; [reflexivity|].
  rewrite <- app_assoc, dec_obs_ann_entry_enc, IH. reflexivity.
Qed.
Lemma dec_obs_ann_enc a r : dec_obs_ann (enc_ann a ++ r) = (a, r).
Proof.
  destruct a as [| |s]; cbn [enc_ann app dec_obs_ann]; try reflexivity.
  unfold decode_seq. rewrite Nat2Z.id, decode_many_ann. reflexivity.
Qed.

Definition proj_plres (o : option (reslist * reslist)) : option (reslist * reslist) :=
  match o with
  | Some (rq, lm) => Some (proj_res rq RES_KEYS, proj_res lm RES_KEYS)
  | None => None
  end.
Definition proj_pod (p : pod) : pod :=
  mkPod (proj_labels (p_labels p) LABEL_KEYS) (p_prio p) EmptyString
        (map proj_container (p_init p)) (map proj_container (p_ctrs p))
        (proj_res (p_overhead p) RES_KEYS) (proj_plres (p_plres p)) (p_ann p) [].

Lemma dec_obs_plres_enc o r : dec_obs_plres (enc_plres o ++ r) = (proj_plres o, r).
Proof.
  destruct o as [[rq lm]|]; unfold enc_plres, dec_obs_plres, enc_reslist; cbn [app];
    rewrite <- app_assoc, dec_obs_reslist_enc, dec_obs_reslist_enc; reflexivity.
Qed.

Lemma dec_obs_pod_enc p r : dec_obs_pod (enc_pod p ++ r) = (proj_pod p, r).
Proof.
  unfold dec_obs_pod, enc_pod. rewrite <- !app_assoc.
  rewrite dec_obs_labels_enc, dec_opt_enc, decode_seq_containers, decode_seq_containers.
  unfold enc_reslist at 1. rewrite dec_obs_reslist_enc, dec_obs_plres_enc, dec_obs_ann_enc. reflexivity.
Qed.

(* ---------- the decision procedure cannot tell a pod from its projection ---------- *)
Lemma In_keys_res k : In k KEYS -> In k RES_KEYS.
Proof. auto. Qed.

Lemma pclass_labels_ext l l' pr s i c o pl a oa :
  lget K_QOS l' = lget K_QOS l -> lget K_PCLASS l' = lget K_PCLASS l ->
  pclass_with_default (mkPod l' pr s i c o pl a oa) = pclass_with_default (mkPod l pr s i c o pl a oa).
Proof. intros Q C. apply pclass_ext; cbn; auto. Qed.

Lemma forallb2_map_r {A B} (f g : A -> B -> bool) (h : B -> B) l1 l2 :
  (forall a b, f a (h b) = g a b) -> forallb2 f l1 (map h l2) = forallb2 g l1 l2.
Proof.
  intros H. revert l2. induction l1 as [|a t IH]; destruct l2 as [|b t2]; cbn; try reflexivity.
  rewrite H, IH. reflexivity.
Qed.

Lemma forallb_ext_in {A} (f g : A -> bool) l : (forall x, In x l -> f x = g x) -> forallb f l = forallb g l.
Proof.
  induction l as [|a t IH]; cbn; [reflexivity|]. intros H. rewrite (H a) by auto. rewrite IH; [reflexivity|].
  intros x Hx. apply H. auto.
Qed.

Lemma container_translatedb_proj cls cin c :
  container_translatedb KEYS cls cin (proj_container c) = container_translatedb KEYS cls cin c.
Proof.
  unfold container_translatedb. apply forallb_ext_in. intros k Hk. cbn [proj_container c_req c_lim].
  rewrite !rget_proj by (try apply nodup_res_keys; apply In_keys_res; exact Hk). reflexivity.
Qed.
Lemma container_sameb_proj cin c :
  container_sameb KEYS cin (proj_container c) = container_sameb KEYS cin c.
Proof.
  unfold container_sameb. apply forallb_ext_in. intros k Hk. cbn [proj_container c_req c_lim].
  rewrite !rget_proj by (try apply nodup_res_keys; apply In_keys_res; exact Hk). reflexivity.
Qed.

Lemma cont_spec_proj c : cont_spec (proj_container c) = cont_spec c.
Proof.
  unfold cont_spec. cbn [proj_container c_req c_lim].
  rewrite !rget_proj by (try apply nodup_res_keys; unfold RES_KEYS, R_BCPU, R_BMEM; cbn; auto 8). reflexivity.
Qed.
Lemma build_spec_proj cs : forall i, build_spec i (map proj_container cs) = build_spec i cs.
Proof.
  induction cs as [|c t IH]; intros i; cbn [map build_spec]; [reflexivity|].
  rewrite cont_spec_proj, IH. reflexivity.
Qed.

Lemma resources_okb_proj en pin p1 :
  resources_okb KEYS en pin (proj_pod p1) = resources_okb KEYS en pin p1.
Proof.
  unfold resources_okb.
  assert (W : pclass_with_default (with_identity (proj_pod p1) pin)
              = pclass_with_default (with_identity p1 pin)).
  { unfold with_identity, proj_pod. cbn [p_labels p_prio].
    apply pclass_labels_ext; apply lget_proj; try apply nodup_label_keys;
      unfold LABEL_KEYS, K_QOS, K_PCLASS; cbn; auto. }
  rewrite W. cbn [proj_pod p_init p_ctrs p_overhead p_plres].
  f_equal.
  { unfold plres_sameb, proj_plres. destruct (p_plres pin) as [[r1 l1]|], (p_plres p1) as [[r2 l2]|]; try reflexivity.
    apply forallb_ext_in. intros k Hk.
    rewrite !rget_proj by (try apply nodup_res_keys; apply In_keys_res; exact Hk). reflexivity. }
  destruct (en && tier_class (pclass_with_default (with_identity p1 pin))).
  - rewrite !(forallb2_map_r _ _ _ _ _ (container_translatedb_proj _)).
    f_equal. apply forallb_ext_in. intros k Hk.
    rewrite rget_proj by (try apply nodup_res_keys; apply In_keys_res; exact Hk). reflexivity.
  - rewrite !(forallb2_map_r _ _ _ _ _ container_sameb_proj).
    f_equal. apply forallb_ext_in. intros k Hk.
    rewrite rget_proj by (try apply nodup_res_keys; apply In_keys_res; exact Hk). reflexivity.
Qed.
Lemma ann_okb_proj noext pin p1 : ann_okb noext pin (proj_pod p1) = ann_okb noext pin p1.
Proof. unfold ann_okb. cbn [proj_pod p_ann p_ctrs]. rewrite build_spec_proj. reflexivity. Qed.

Lemma mutate_code_proj en noext pin p1 :
  mutate_code KEYS en noext pin (proj_pod p1) = mutate_code KEYS en noext pin p1.
Proof. unfold mutate_code. rewrite resources_okb_proj, ann_okb_proj. reflexivity. Qed.

(* ---------- re-admission as Create, up to labels outside the identity ---------- *)
Lemma translate_set_labels cls l p : translate_pod cls (set_labels l p) = set_labels l (translate_pod cls p).
Proof. unfold translate_pod. destruct (seqb cls PriorityNone || seqb cls PriorityProd); reflexivity. Qed.

Lemma extspec_set_labels e l p :
  extspec_step e (set_labels l p) = option_map (set_labels l) (extspec_step e p).
Proof.
  unfold extspec_step. destruct (e_gate_noext e); [reflexivity|]. cbn [set_labels p_ann p_ctrs].
  destruct (p_ann p); try reflexivity. destruct (build_spec 0 (p_ctrs p)); reflexivity.
Qed.

Lemma set_labels_of_body p q :
  same_body p q -> p_prio q = p_prio p -> p_ann q = p_ann p ->
  q = set_oann (p_oann q) (set_labels (p_labels q) p).
Proof. intros (B1 & B2 & B3 & B4 & B5) P A. destruct p, q; cbn in *; subst; reflexivity. Qed.

Lemma readmit_create_sem e ps p p1 p3 :
  admit_pod e OP_CREATE ps p = Some p1 ->
  admit_pod e OP_CREATE ps p1 = Some p3 ->
  lget K_QOS (p_labels p3) = lget K_QOS (p_labels p1) ->
  lget K_PCLASS (p_labels p3) = lget K_PCLASS (p_labels p1) ->
  p_prio p3 = p_prio p1 ->
  translating e ps p1 = translating e ps p ->
  touches_summary e ps p1 = false ->
  p3 = set_oann (p_oann p3) (set_labels (p_labels p3) p1).
Proof.
  intros A1 A3 Q C P TR TS.
  pose proof (readmit_update e ps p p1 A1) as U.
  unfold admit_pod in U. cbn [OP_CREATE OP_UPDATE Z.eqb Pos.eqb] in U.
  pose proof (admitted_fixed e ps p p1 A1) as FX.
  unfold admit_pod in A3. cbn [OP_CREATE Z.eqb] in A3.
  destruct (profile_step e ps p1) as [q3|] eqn:S3; [|discriminate].
  destruct (profile_step_shape_ann e ps p1 q3 S3 TS) as (p'' & B'' & AN & E3).
  destruct (extspec_shape e q3 p3 A3) as (L3 & P3 & _ & _ & _ & _ & _ & _ & _ & O3).
  assert (Lq : p_labels q3 = p_labels p'' /\ p_prio q3 = p_prio p'' /\ p_oann q3 = p_oann p'').
  { rewrite E3. destruct (translating e ps p1); [|repeat split; reflexivity].
    destruct (translate_pod_identity (pclass_with_default p'') p'') as (A & B & _).
    destruct (translate_pod_frame (pclass_with_default p'') p'') as (_ & X3). repeat split; assumption. }
  destruct Lq as (Lq & Pq & Oq).
  assert (Hp'' : p'' = set_oann (p_oann p'') (set_labels (p_labels p'') p1)).
  { apply set_labels_of_body; [exact B''|congruence|exact AN]. }
  assert (Hc : pclass_with_default p'' = pclass_with_default p1).
  { destruct B'' as (B1 & B2 & B3 & B4 & B5). apply pclass_ext; congruence. }
  assert (Hq3 : q3 = set_oann (p_oann p'') (set_labels (p_labels p'') p1)).
  { rewrite E3, TR. destruct (translating e ps p) eqn:T; [|exact Hp''].
    rewrite Hc. rewrite Hp'' at 1. rewrite translate_set_oann, translate_set_labels, (FX eq_refl). reflexivity. }
  rewrite Hq3, extspec_set_oann, extspec_set_labels, U in A3. cbn [option_map] in A3. inversion A3 as [A3'].
  cbn [set_oann set_labels p_oann p_labels]. reflexivity.
Qed.

(* ---------- the stream theorem ---------- *)
Lemma eq_listZ_eq a : forall b, eq_listZ a b = true -> a = b.
Proof.
  induction a as [|x t IH]; destruct b as [|y t2]; cbn; intros H; try discriminate; [reflexivity|].
  apply andb_true_iff in H. destruct H as [E H]. apply Z.eqb_eq in E. subst y. f_equal. apply IH. exact H.
Qed.

Lemma enc_label_ext l l' k : lget k l' = lget k l -> enc_label l' k = enc_label l k.
Proof. unfold enc_label. intros ->. reflexivity. Qed.

Lemma eq_listZ_refl' l : eq_listZ l l = true.
Proof. induction l; cbn; [reflexivity|]. rewrite Z.eqb_refl. assumption. Qed.

Lemma flat_map_ext_in' {A B} (f g : A -> list B) l :
  (forall x, In x l -> f x = g x) -> flat_map f l = flat_map g l.
Proof.
  induction l as [|a t IH]; cbn; [reflexivity|]. intros H. rewrite (H a) by auto. rewrite IH; [reflexivity|].
  intros x Hx. apply H. auto.
Qed.

Lemma identity_enc_proj p : identity_enc (proj_pod p) = identity_enc p.
Proof.
  unfold identity_enc, proj_pod. cbn [p_labels p_prio]. f_equal.
  apply flat_map_ext_in'. intros k Hk. apply enc_label_ext. apply lget_proj; [apply nodup_label_keys|exact Hk].
Qed.

(* equal identity encodings: equal lookups on the label keys and equal priority *)
Lemma identity_enc_inj p q :
  identity_enc p = identity_enc q ->
  (forall k, In k LABEL_KEYS -> lget k (p_labels p) = lget k (p_labels q)) /\ p_prio p = p_prio q.
Proof.
  intros H.
  pose proof (dec_obs_labels_enc (p_labels p) LABEL_KEYS (enc_opt (p_prio p))) as Dp.
  pose proof (dec_obs_labels_enc (p_labels q) LABEL_KEYS (enc_opt (p_prio q))) as Dq.
  unfold identity_enc in H. rewrite H in Dp.
  pose proof (eq_trans (eq_sym Dp) Dq) as E.
  pose proof (f_equal fst E) as E1. pose proof (f_equal snd E) as E2. cbn [fst snd] in E1, E2.
  split.
  - intros k Hk. rewrite <- (lget_proj (p_labels p) LABEL_KEYS k nodup_label_keys Hk).
    rewrite <- (lget_proj (p_labels q) LABEL_KEYS k nodup_label_keys Hk). rewrite E1. reflexivity.
  - pose proof (dec_opt_enc (p_prio p) []) as Op. pose proof (dec_opt_enc (p_prio q) []) as Oq.
    rewrite !app_nil_r in *. rewrite E2 in Op. rewrite Op in Oq. inversion Oq. reflexivity.
Qed.

Lemma enc_pod_set_labels l p :
  (forall k, In k LABEL_KEYS -> lget k l = lget k (p_labels p)) -> enc_pod (set_labels l p) = enc_pod p.
Proof.
  intros H. unfold enc_pod. cbn [set_labels p_labels p_prio p_init p_ctrs p_overhead p_plres p_ann].
  f_equal. apply flat_map_ext_in'. intros k Hk. apply enc_label_ext. apply H. exact Hk.
Qed.

(* input well-formedness for the stream theorem: pod selectors of the profiles only look at
   label keys that are part of the observation *)
Definition sel_key_ok (pf : profile) : bool :=
  match pf_sel pf with
  | SelLabel k _ => existsb (Z.eqb k) LABEL_KEYS
  | _ => true
  end.
Definition wf_mutate (inp : list Z) : bool :=
  match untag TAG_MUTATE inp with
  | Some body => let '(e, ps, p) := dec_mutate body in forallb sel_key_ok ps
  | None => true
  end.

Lemma profile_matches_proj e p pf :
  sel_key_ok pf = true -> profile_matches e (proj_pod p) pf = profile_matches e p pf.
Proof.
  unfold sel_key_ok, profile_matches. intros H. f_equal.
  destruct (pf_sel pf) as [| |k v|]; try reflexivity.
  cbn [sel_pass proj_pod p_labels].
  rewrite lget_proj; [reflexivity|apply nodup_label_keys|].
  apply existsb_exists in H. destruct H as (x & Hx & E). apply Z.eqb_eq in E. subst x. exact Hx.
Qed.
Lemma filter_ext_in' {A} (f g : A -> bool) l : (forall x, In x l -> f x = g x) -> filter f l = filter g l.
Proof.
  induction l as [|a t IH]; cbn; [reflexivity|]. intros H. rewrite (H a) by auto. rewrite IH; [reflexivity|].
  intros x Hx. apply H. auto.
Qed.
Lemma translating_proj e ps p :
  forallb sel_key_ok ps = true -> translating e ps (proj_pod p) = translating e ps p.
Proof.
  intros H. unfold translating.
  rewrite (filter_ext_in' (profile_matches e (proj_pod p)) (profile_matches e p)); [reflexivity|].
  intros pf Hin. apply profile_matches_proj. rewrite forallb_forall in H. apply H. exact Hin.
Qed.

Lemma judge_create_model e ps p p1 :
  admit_pod e OP_CREATE ps p = Some p1 -> judge_create e ps p (enc_result (Some p1)) = 0.
Proof.
  intros A1. cbn [enc_result judge_create zb Z.eqb negb].
  pose proof (dec_obs_pod_enc p1 []) as D. rewrite app_nil_r in D. rewrite D.
  rewrite mutate_code_proj. apply (create_code_zero KEYS e ps p p1 A1).
Qed.

Lemma touches_summary_proj e ps p :
  forallb sel_key_ok ps = true -> touches_summary e ps (proj_pod p) = touches_summary e ps p.
Proof.
  intros H. unfold touches_summary.
  rewrite (filter_ext_in' (profile_matches e (proj_pod p)) (profile_matches e p)); [reflexivity|].
  intros pf Hin. apply profile_matches_proj. rewrite forallb_forall in H. apply H. exact Hin.
Qed.

Theorem mutate_stream_holds inp : wf_mutate inp = true -> prop_mutate inp (run_mutate inp) = 0.
Proof.
  unfold wf_mutate, prop_mutate, run_mutate.
  destruct (untag TAG_MUTATE inp) as [body|]; [|reflexivity].
  unfold prop_mutate_body, run_mutate_body.
  destruct (dec_mutate body) as [[e ps] p]. intros WF.
  assert (HC : handle_pod e OP_CREATE ps p = admit_pod e OP_CREATE ps p) by reflexivity.
  rewrite HC.
  destruct (admit_pod e OP_CREATE ps p) as [p1|] eqn:A1.
  - assert (HU : handle_pod e OP_UPDATE ps p1 = Some p1) by reflexivity.
    rewrite HU, (readmit_update e ps p p1 A1).
    pose proof (judge_create_model e ps p p1 A1) as J.
    set (E3 := enc_result (admit_pod e OP_CREATE ps p1)).
    set (E1 := enc_result (Some p1)) in *.
    rewrite (take_list_encode E1 (encode_list E1 ++ encode_list E1 ++ encode_list E3 ++ encode_list E1)).
    rewrite (take_list_encode E1 (encode_list E1 ++ encode_list E3 ++ encode_list E1)).
    rewrite J. cbn [Z.eqb negb].
    rewrite (take_list_encode E1 (encode_list E3 ++ encode_list E1)).
    rewrite (take_list_encode E3 (encode_list E1)).
    pose proof (take_list_encode E1 []) as T5. rewrite app_nil_r in T5. rewrite T5.
    subst E1. cbn [enc_result].
    pose proof (dec_obs_pod_enc p1 []) as D. rewrite app_nil_r in D. rewrite D.
    rewrite (proj2 (Bool.negb_false_iff _) (eq_listZ_refl' _)).
    subst E3.
    destruct (admit_pod e OP_CREATE ps p1) as [p3|] eqn:A3; cbn [enc_result]; [|reflexivity].
    pose proof (dec_obs_pod_enc p3 []) as D3. rewrite app_nil_r in D3. rewrite D3.
    rewrite !identity_enc_proj, translating_proj, touches_summary_proj by exact WF.
    destruct (eq_listZ (identity_enc p3) (identity_enc p1)) eqn:EI; cbn [andb]; [|reflexivity].
    destruct (Bool.eqb (translating e ps p1) (translating e ps p)) eqn:ET; cbn [andb]; [|reflexivity].
    destruct (touches_summary e ps p1) eqn:TS; cbn [negb]; [reflexivity|].
    apply eq_listZ_eq in EI. apply Bool.eqb_prop in ET.
    destruct (identity_enc_inj p3 p1 EI) as [HL HP].
    assert (E3 : p3 = set_oann (p_oann p3) (set_labels (p_labels p3) p1)).
    { apply (readmit_create_sem e ps p p1 p3 A1 A3); try assumption;
        apply HL; unfold LABEL_KEYS, K_QOS, K_PCLASS; cbn; auto. }
    rewrite E3. change (enc_pod (set_oann (p_oann p3) (set_labels (p_labels p3) p1)))
      with (enc_pod (set_labels (p_labels p3) p1)).
    rewrite (enc_pod_set_labels (p_labels p3) p1 HL), eq_listZ_refl'. reflexivity.
  - rewrite (take_list_encode (enc_result None) (encode_list (enc_result None))).
    pose proof (take_list_encode (enc_result None) []) as T. rewrite app_nil_r in T. rewrite T. reflexivity.
Qed.
