(* C13 — re-admission as Create, with the hypotheses on the OUTPUT of the second admission
   (labels / priority unchanged, translation switched the same way) replaced by a structural
   condition on the INPUT profile set: profiles that only set labels, QoS class, priority and
   annotations other than the summary (no labelKeysMapping, no labelSuffixes) and whose pod
   selectors do not look at a label key that some profile writes. *)
From Coq Require Import String List ZArith Bool Lia.
From Verif Require Import Lib.Wire Gen.Gen_consts Gen.Gen_funcs
  C13.Model C13.Spec C13.Codec C13.Check C13.Proofs C13.Proofs_mutate C13.Proofs_codec.
Import ListNotations.
Open Scope Z_scope.

(* ------------------------------------------------------------------ the structural condition *)
Definition simple_profile (pf : profile) : bool := is_nil (pf_lkmap pf) && is_nil (pf_lsuffix pf).
Definition written_keys (pf : profile) : list Z :=
  map fst (pf_labels pf)
  ++ (if seqb (pf_qos pf) EmptyString then [] else [K_QOS])
  ++ (match pf_kprio pf with Some _ => [K_PRIO] | None => [] end).
Definition key_written (ps : list profile) (k : Z) : bool :=
  existsb (fun pf => existsb (Z.eqb k) (written_keys pf)) ps.
Definition sel_indep (ps : list profile) (pf : profile) : bool :=
  match pf_sel pf with
  | SelLabel k _ => negb (key_written ps k)
  | _ => true
  end.
Definition stable_profiles (ps : list profile) : bool :=
  forallb simple_profile ps && forallb (sel_indep ps) ps
  && forallb (fun pf => negb (writes_summary pf)) ps.

(* ------------------------------------------------------------------ constant-or-identity maps *)
Definition coi {A} (f : option A -> option A) : Prop :=
  (forall x, f x = x) \/ (exists v, forall x, f x = Some v).
Lemma coi_idem {A} (f : option A -> option A) x : coi f -> f (f x) = f x.
Proof. intros [H|[v H]]; [rewrite !H; reflexivity|rewrite (H (f x)), (H x); reflexivity]. Qed.
Lemma coi_id {A} : coi (fun x : option A => x).
Proof. left. reflexivity. Qed.
Lemma coi_const {A} (v : A) : coi (fun _ : option A => Some v).
Proof. right. exists v. reflexivity. Qed.
Lemma coi_comp {A} (f g : option A -> option A) : coi f -> coi g -> coi (fun x => g (f x)).
Proof.
  intros Hf [Hg|[v Hg]].
  - destruct Hf as [Hf|[w Hf]]; [left|right; exists w]; intros x; rewrite Hg, Hf; reflexivity.
  - right. exists v. intros x. apply Hg.
Qed.

(* ------------------------------------------------------------------ labels *)
Lemma lget_lset k k' v l : lget k (lset k' v l) = if k =? k' then Some v else lget k l.
Proof.
  induction l as [|[a w] t IH]; cbn [lset lget].
  - destruct (k =? k'); reflexivity.
  - destruct (Z.eqb_spec k' a) as [E|E]; cbn [lget].
    + subst a. destruct (Z.eqb_spec k k'); reflexivity.
    + rewrite IH. destruct (Z.eqb_spec k a) as [E1|E1]; [|reflexivity].
      subst a. destruct (Z.eqb_spec k k'); [congruence|reflexivity].
Qed.

(* one write, as a map on the lookup of key k *)
Definition wr (k k' : Z) (v : string) (x : option string) : option string :=
  if k =? k' then Some v else x.
Lemma coi_wr k k' v : coi (wr k k' v).
Proof. unfold wr. destruct (k =? k'); [apply coi_const|apply coi_id]. Qed.

Definition wr_list (k : Z) (ws : list (Z * string)) (x : option string) : option string :=
  fold_left (fun a kv => wr k (fst kv) (snd kv) a) ws x.
Lemma coi_wr_list k ws : coi (wr_list k ws).
Proof.
  unfold wr_list. induction ws as [|kv t IH]; cbn [fold_left]; [apply coi_id|].
  apply (coi_comp (wr k (fst kv) (snd kv)) (fun x => fold_left (fun a kv0 => wr k (fst kv0) (snd kv0) a) t x));
    [apply coi_wr|exact IH].
Qed.
Lemma lget_fold_lset k ws : forall l,
  lget k (fold_left (fun l kv => lset (fst kv) (snd kv) l) ws l) = wr_list k ws (lget k l).
Proof.
  unfold wr_list. induction ws as [|kv t IH]; intros l; cbn [fold_left]; [reflexivity|].
  rewrite IH, lget_lset. reflexivity.
Qed.
Lemma wr_list_unwritten k ws x : existsb (Z.eqb k) (map fst ws) = false -> wr_list k ws x = x.
Proof.
  unfold wr_list. revert x. induction ws as [|kv t IH]; intros x H; cbn [fold_left]; [reflexivity|].
  cbn [map existsb] in H. apply orb_false_iff in H. destruct H as [H1 H2].
  rewrite IH by exact H2. unfold wr. rewrite H1. reflexivity.
Qed.

(* the label map of one simple profile, on the lookup of key k *)
Definition pf_lmap (pf : profile) (k : Z) (x : option string) : option string :=
  let x1 := wr_list k (pf_labels pf) x in
  let x2 := if seqb (pf_qos pf) EmptyString then x1 else wr k K_QOS (pf_qos pf) x1 in
  match pf_kprio pf with Some n => wr k K_PRIO (dec_string n) x2 | None => x2 end.
Definition pf_pmap (pf : profile) (x : option Z) : option Z :=
  match pf_pc pf with PcValue v => Some v | _ => x end.

Lemma coi_pf_lmap pf k : coi (pf_lmap pf k).
Proof.
  unfold pf_lmap.
  set (f1 := wr_list k (pf_labels pf)).
  set (f2 := fun x1 : option string => if seqb (pf_qos pf) EmptyString then x1 else wr k K_QOS (pf_qos pf) x1).
  set (f3 := fun x2 : option string => match pf_kprio pf with Some n => wr k K_PRIO (dec_string n) x2 | None => x2 end).
  change (coi (fun x => f3 (f2 (f1 x)))).
  apply (coi_comp (fun x => f2 (f1 x)) f3).
  - apply (coi_comp f1 f2); [apply coi_wr_list|].
    unfold f2. destruct (seqb (pf_qos pf) EmptyString); [apply coi_id|apply coi_wr].
  - unfold f3. destruct (pf_kprio pf); [apply coi_wr|apply coi_id].
Qed.
Lemma coi_pf_pmap pf : coi (pf_pmap pf).
Proof. unfold pf_pmap. destruct (pf_pc pf); [apply coi_id|apply coi_id|apply coi_const]. Qed.

Lemma pf_lmap_unwritten pf k x : existsb (Z.eqb k) (written_keys pf) = false -> pf_lmap pf k x = x.
Proof.
  unfold written_keys, pf_lmap. rewrite !existsb_app. intros H.
  apply orb_false_iff in H. destruct H as [H1 H]. apply orb_false_iff in H. destruct H as [H2 H3].
  rewrite (wr_list_unwritten k (pf_labels pf) x H1).
  assert (X2 : (if seqb (pf_qos pf) EmptyString then x else wr k K_QOS (pf_qos pf) x) = x).
  { destruct (seqb (pf_qos pf) EmptyString); [reflexivity|].
    cbn [existsb] in H2. apply orb_false_iff in H2. unfold wr. rewrite (proj1 H2). reflexivity. }
  rewrite X2. destruct (pf_kprio pf); [|reflexivity].
  cbn [existsb] in H3. apply orb_false_iff in H3. unfold wr. rewrite (proj1 H3). reflexivity.
Qed.

Lemma is_nil_true {A} (l : list A) : is_nil l = true -> l = [].
Proof. destruct l; [reflexivity|discriminate]. Qed.

Lemma apply_profile_simple pf q q' :
  simple_profile pf = true -> apply_profile pf q = Some q' ->
  (forall k, lget k (p_labels q') = pf_lmap pf k (lget k (p_labels q)))
  /\ p_prio q' = pf_pmap pf (p_prio q).
Proof.
  unfold simple_profile. intros S. apply andb_true_iff in S. destruct S as [S1 S2].
  apply is_nil_true in S1, S2.
  unfold apply_profile. rewrite S1, S2. cbn [fold_left].
  destruct (apply_profile_anns_frame pf q) as (_ & L & P & _).
  set (q0 := apply_profile_anns pf q) in *. rewrite L, P.
  unfold pf_lmap, pf_pmap.
  destruct (pf_pc pf) as [| |v]; intros H; inversion H; subst q'; cbn [set_prio set_labels p_labels p_prio];
    (split; [|reflexivity]); intros k;
    destruct (pf_kprio pf); rewrite ?lget_lset;
    destruct (seqb (pf_qos pf) EmptyString); rewrite ?lget_lset, lget_fold_lset; reflexivity.
Qed.
(* whether a profile fails does not depend on the pod *)
Lemma apply_profile_total pf q q2 : apply_profile pf q <> None -> apply_profile pf q2 <> None.
Proof. unfold apply_profile. destruct (pf_pc pf); intros H; congruence. Qed.

(* ------------------------------------------------------------------ the profile list *)
Fixpoint ps_lmap (e : env) (ps : list profile) (k : Z) (x : option string) : option string :=
  match ps with
  | [] => x
  | pf :: t => match should_skip e pf with
               | Some false => ps_lmap e t k (pf_lmap pf k x)
               | _ => ps_lmap e t k x
               end
  end.
Fixpoint ps_pmap (e : env) (ps : list profile) (x : option Z) : option Z :=
  match ps with
  | [] => x
  | pf :: t => match should_skip e pf with
               | Some false => ps_pmap e t (pf_pmap pf x)
               | _ => ps_pmap e t x
               end
  end.
Lemma coi_ps_lmap e ps k : coi (ps_lmap e ps k).
Proof.
  induction ps as [|pf t IH]; cbn [ps_lmap]; [apply coi_id|].
  destruct (should_skip e pf) as [[|]|]; try exact IH.
  apply (coi_comp (pf_lmap pf k) (ps_lmap e t k)); [apply coi_pf_lmap|exact IH].
Qed.
Lemma coi_ps_pmap e ps : coi (ps_pmap e ps).
Proof.
  induction ps as [|pf t IH]; cbn [ps_pmap]; [apply coi_id|].
  destruct (should_skip e pf) as [[|]|]; try exact IH.
  apply (coi_comp (pf_pmap pf) (ps_pmap e t)); [apply coi_pf_pmap|exact IH].
Qed.
Lemma ps_lmap_unwritten e ps k : key_written ps k = false -> forall x, ps_lmap e ps k x = x.
Proof.
  unfold key_written. induction ps as [|pf t IH]; cbn [ps_lmap existsb]; intros H x; [reflexivity|].
  apply orb_false_iff in H. destruct H as [H1 H2].
  destruct (should_skip e pf) as [[|]|]; try (apply IH; exact H2).
  rewrite (IH H2). apply pf_lmap_unwritten. exact H1.
Qed.

Lemma apply_profiles_simple e ps : forall q q',
  forallb simple_profile ps = true -> apply_profiles e ps q = Some q' ->
  (forall k, lget k (p_labels q') = ps_lmap e ps k (lget k (p_labels q)))
  /\ p_prio q' = ps_pmap e ps (p_prio q).
Proof.
  induction ps as [|pf t IH]; cbn [apply_profiles ps_lmap ps_pmap forallb]; intros q q' S H.
  - inversion H. split; reflexivity.
  - apply andb_true_iff in S. destruct S as [S1 S2].
    destruct (should_skip e pf) as [[|]|]; [apply IH; assumption| |discriminate H].
    destruct (apply_profile pf q) as [q0|] eqn:E; [|discriminate H].
    destruct (apply_profile_simple pf q q0 S1 E) as [L0 P0].
    destruct (IH q0 q' S2 H) as [L1 P1]. split.
    + intros k. rewrite L1, L0. reflexivity.
    + rewrite P1, P0. reflexivity.
Qed.

(* ------------------------------------------------------------------ sorting keeps the conditions *)
Lemma forallb_sort f l : forallb f l = true -> forallb f (sort_profiles l) = true.
Proof.
  intros H. apply forallb_forall. intros x Hx. rewrite forallb_forall in H. apply H.
  apply In_sort_profiles. exact Hx.
Qed.
Lemma forallb_filter {A} (f g : A -> bool) l : forallb f l = true -> forallb f (filter g l) = true.
Proof.
  intros H. apply forallb_forall. intros x Hx. rewrite forallb_forall in H. apply H.
  apply filter_In in Hx. tauto.
Qed.
Lemma key_written_sub ps qs k :
  (forall pf, In pf qs -> In pf ps) -> key_written ps k = false -> key_written qs k = false.
Proof.
  unfold key_written. intros Sub H. destruct (existsb _ qs) eqn:E; [|reflexivity].
  apply existsb_exists in E. destruct E as (pf & Hin & Hw).
  assert (X : existsb (fun pf => existsb (Z.eqb k) (written_keys pf)) ps = true)
    by (apply existsb_exists; exists pf; split; [apply Sub; exact Hin|exact Hw]).
  congruence.
Qed.

(* ------------------------------------------------------------------ the theorem *)
Lemma filter_ext_in'' {A} (f g : A -> bool) l : (forall x, In x l -> f x = g x) -> filter f l = filter g l.
Proof.
  induction l as [|a t IH]; cbn; [reflexivity|]. intros H. rewrite (H a) by auto. rewrite IH; [reflexivity|].
  intros x Hx. apply H. auto.
Qed.

Lemma stable_matching e ps p p1 :
  forallb (sel_indep ps) ps = true ->
  (forall k, key_written ps k = false -> lget k (p_labels p1) = lget k (p_labels p)) ->
  filter (profile_matches e p1) ps = filter (profile_matches e p) ps.
Proof.
  intros SI H. apply filter_ext_in''. intros pf Hin.
  rewrite forallb_forall in SI. specialize (SI pf Hin).
  unfold profile_matches. f_equal. unfold sel_indep in SI.
  destruct (pf_sel pf) as [| |k v|]; try reflexivity.
  cbn [sel_pass]. rewrite (H k); [reflexivity|]. apply negb_true_iff. exact SI.
Qed.

Theorem readmit_create_stable e ps p p1 p3 :
  stable_profiles ps = true ->
  admit_pod e OP_CREATE ps p = Some p1 ->
  admit_pod e OP_CREATE ps p1 = Some p3 ->
  p3 = set_oann (p_oann p3) (set_labels (p_labels p3) p1)
  /\ (forall k, lget k (p_labels p3) = lget k (p_labels p1))
  /\ p_prio p3 = p_prio p1.
Proof.
  unfold stable_profiles. intros ST A1 A3.
  apply andb_true_iff in ST. destruct ST as [ST NW]. apply andb_true_iff in ST. destruct ST as [SP SI].
  (* shape of the two admissions *)
  pose proof A1 as A1'. pose proof A3 as A3'.
  unfold admit_pod in A1', A3'. cbn [OP_CREATE Z.eqb] in A1', A3'.
  destruct (profile_step e ps p) as [q1|] eqn:S1; [|discriminate].
  destruct (profile_step e ps p1) as [q3|] eqn:S3; [|discriminate].
  destruct (extspec_shape e q1 p1 A1') as (L1 & P1 & _).
  destruct (extspec_shape e q3 p3 A3') as (L3 & P3 & _).
  (* labels and priority after a profile step, as maps of the lookups before it *)
  assert (STEP : forall q r, profile_step e ps q = Some r ->
            (forall k, lget k (p_labels r)
                       = ps_lmap e (sort_profiles (filter (profile_matches e q) ps)) k (lget k (p_labels q)))
            /\ p_prio r = ps_pmap e (sort_profiles (filter (profile_matches e q) ps)) (p_prio q)).
  { intros q r H. unfold profile_step in H.
    destruct (filter (profile_matches e q) ps) as [|a m] eqn:F.
    - inversion H. subst r. split; reflexivity.
    - destruct (apply_profiles e (sort_profiles (a :: m)) q) as [q'|] eqn:AP; [|discriminate].
      assert (SS : forallb simple_profile (sort_profiles (a :: m)) = true).
      { apply forallb_sort. rewrite <- F. apply forallb_filter. exact SP. }
      destruct (apply_profiles_simple e _ q q' SS AP) as [LL PP].
      assert (R : p_labels r = p_labels q' /\ p_prio r = p_prio q').
      { destruct (translation_enabled e (a :: m)); inversion H; [|split; reflexivity].
        destruct (translate_pod_identity (pclass_with_default q') q') as (X1 & X2 & _). split; assumption. }
      destruct R as [R1 R2]. rewrite R1, R2. split; assumption. }
  destruct (STEP p q1 S1) as [LA PA]. destruct (STEP p1 q3 S3) as [LB PB].
  (* the same profiles match the second time *)
  assert (M : filter (profile_matches e p1) ps = filter (profile_matches e p) ps).
  { apply stable_matching; [exact SI|]. intros k Hk. rewrite L1, LA.
    apply ps_lmap_unwritten. apply (key_written_sub ps); [|exact Hk].
    intros pf Hin. apply In_sort_profiles in Hin. apply filter_In in Hin. tauto. }
  rewrite M in LB, PB.
  set (S := sort_profiles (filter (profile_matches e p) ps)) in *.
  assert (LK : forall k, lget k (p_labels p3) = lget k (p_labels p1)).
  { intros k. rewrite L3, LB, L1, LA. apply coi_idem. apply coi_ps_lmap. }
  assert (PK : p_prio p3 = p_prio p1).
  { rewrite P3, PB, P1, PA. apply coi_idem. apply coi_ps_pmap. }
  split; [|split; assumption].
  apply (readmit_create_sem e ps p p1 p3 A1 A3); try apply LK; try exact PK.
  - unfold translating. rewrite M. reflexivity.
  - unfold touches_summary. destruct (existsb writes_summary _) eqn:E; [|reflexivity].
    apply existsb_exists in E. destruct E as (pf & Hin & W). apply filter_In in Hin.
    rewrite forallb_forall in NW. specialize (NW pf (proj1 Hin)). rewrite W in NW. discriminate NW.
Qed.

(* ... and the second admission cannot fail *)
Lemma apply_profiles_total e ps : forall q q2,
  apply_profiles e ps q <> None -> apply_profiles e ps q2 <> None.
Proof.
  induction ps as [|pf t IH]; cbn [apply_profiles]; intros q q2 H; [discriminate|].
  destruct (should_skip e pf) as [[|]|]; [apply (IH q); exact H| |exact H].
  destruct (apply_profile pf q) as [q0|] eqn:E; [|contradiction].
  destruct (apply_profile pf q2) as [q20|] eqn:E2.
  - apply (IH q0). exact H.
  - exfalso. apply (apply_profile_total pf q q2); [rewrite E; discriminate|exact E2].
Qed.

Theorem readmit_create_stable_total e ps p p1 :
  stable_profiles ps = true ->
  admit_pod e OP_CREATE ps p = Some p1 ->
  exists p3, admit_pod e OP_CREATE ps p1 = Some p3.
Proof.
  intros ST A1.
  destruct (admit_pod e OP_CREATE ps p1) as [p3|] eqn:A3; [exists p3; reflexivity|exfalso].
  pose proof ST as ST'. unfold stable_profiles in ST'.
  apply andb_true_iff in ST'. destruct ST' as [ST' NW]. apply andb_true_iff in ST'. destruct ST' as [SP SI].
  pose proof A1 as A1'. unfold admit_pod in A1', A3. cbn [OP_CREATE Z.eqb] in A1', A3.
  destruct (profile_step e ps p) as [q1|] eqn:S1; [|discriminate].
  destruct (extspec_shape e q1 p1 A1') as (L1 & P1 & _).
  (* matching is the same, as in readmit_create_stable *)
  assert (LA : forall k, key_written ps k = false -> lget k (p_labels p1) = lget k (p_labels p)).
  { intros k Hk. rewrite L1. unfold profile_step in S1.
    destruct (filter (profile_matches e p) ps) as [|a m] eqn:F.
    - inversion S1. reflexivity.
    - destruct (apply_profiles e (sort_profiles (a :: m)) p) as [q'|] eqn:AP; [|discriminate].
      assert (SS : forallb simple_profile (sort_profiles (a :: m)) = true).
      { apply forallb_sort. rewrite <- F. apply forallb_filter. exact SP. }
      destruct (apply_profiles_simple e _ p q' SS AP) as [LL _].
      assert (R : p_labels q1 = p_labels q').
      { destruct (translation_enabled e (a :: m)); inversion S1; [|reflexivity].
        destruct (translate_pod_identity (pclass_with_default q') q') as (X1 & _). exact X1. }
      rewrite R, LL. apply ps_lmap_unwritten. apply (key_written_sub ps); [|exact Hk].
      intros pf Hin. apply In_sort_profiles in Hin. rewrite <- F in Hin. apply filter_In in Hin. tauto. }
  pose proof (stable_matching e ps p p1 SI LA) as M.
  (* the profile step succeeds again *)
  destruct (profile_step e ps p1) as [q3|] eqn:S3.
  - (* then the annotation step must have failed: impossible *)
    assert (TS : touches_summary e ps p1 = false).
    { unfold touches_summary. destruct (existsb writes_summary _) eqn:E; [|reflexivity].
      apply existsb_exists in E. destruct E as (pf & Hin & W). apply filter_In in Hin.
      rewrite forallb_forall in NW. specialize (NW pf (proj1 Hin)). rewrite W in NW. discriminate NW. }
    destruct (profile_step_shape_ann e ps p1 q3 S3 TS) as (p'' & _ & AN & E3).
    assert (Q3 : p_ann q3 = p_ann p1).
    { rewrite E3. destruct (translating e ps p1); [|exact AN].
      destruct (translate_pod_identity (pclass_with_default p'') p'') as (_ & _ & _ & X). congruence. }
    revert A3. unfold extspec_step. rewrite Q3.
    pose proof A1' as X1. unfold extspec_step in X1.
    destruct (e_gate_noext e); [discriminate|].
    destruct (p_ann q1) eqn:AQ; [|discriminate|].
    + destruct (build_spec 0 (p_ctrs q1)); inversion X1; subst p1; cbn [set_ann p_ann].
      * rewrite AQ. destruct (build_spec 0 (p_ctrs q3)); discriminate.
      * discriminate.
    + inversion X1; subst p1; cbn [set_ann p_ann]. discriminate.
  - unfold profile_step in S1, S3. rewrite M in S3.
    destruct (filter (profile_matches e p) ps) as [|a m]; [discriminate|].
    destruct (apply_profiles e (sort_profiles (a :: m)) p) as [q'|] eqn:AP; [|discriminate].
    destruct (apply_profiles e (sort_profiles (a :: m)) p1) as [q''|] eqn:AP1.
    + destruct (translation_enabled e (a :: m)); discriminate.
    + apply (apply_profiles_total e (sort_profiles (a :: m)) p p1); [rewrite AP; discriminate|exact AP1].
Qed.

(* ------------------------------------------------------------------ pod-level resources *)
Lemma pod_level_cpu p rq lm q :
  p_plres p = Some (rq, lm) -> rget R_CPU rq = Some q ->
  pod_request p R_CPU = q + rval R_CPU (p_overhead p).
Proof. intros H Q. unfold pod_request, pod_level_request. rewrite H. cbn [R_CPU Z.eqb orb]. rewrite Q. reflexivity. Qed.
Lemma pod_level_other p r :
  r <> R_CPU -> r <> R_MEM -> pod_request p r = containers_request p r + rval r (p_overhead p).
Proof.
  intros H1 H2. unfold pod_request, pod_level_request.
  destruct (p_plres p) as [[rq lm]|]; [|reflexivity].
  destruct (Z.eqb_spec r R_CPU); [contradiction|]. destruct (Z.eqb_spec r R_MEM); [contradiction|]. reflexivity.
Qed.
Lemma pod_level_absent p r :
  p_plres p = None -> pod_request p r = containers_request p r + rval r (p_overhead p).
Proof. intros H. unfold pod_request, pod_level_request. rewrite H. reflexivity. Qed.

(* an LSR pod whose containers ask for 1.5 CPUs but whose pod-level request is 2 CPUs *)
Definition ex_plres_pod : pod :=
  mkPod [(K_QOS, QoSLSR)] (Some PriorityProdValueMin) EmptyString []
        [mkC false [(R_CPU, 1500 * 1000000)] []] []
        (Some ([(R_CPU, 2 * nano)], [])) AnnAbsent [].
