(* C13 — what the driver evaluates per case: the property decided on the implementation's
   observable (prop_validate, prop_mutate), and the stated rule for a non-trivial case. *)
From Coq Require Import String List ZArith Bool.
From Verif Require Import Lib.Wire Gen.Gen_consts C13.Model C13.Spec C13.Codec.
Import ListNotations.
Open Scope Z_scope.

(* ------------------------------------------------------------------ validate stream *)
Definition prop_validate_body (inp obs : list Z) : Z :=
  let '(g, op, old, new) := dec_validate inp in
  match obs with
  | a :: _ :: h :: _ =>
      (* the verdict of the colocation validator, then the verdict the API server sees *)
      let c := validate_code op old new (zb a) in
      if negb (c =? 0) then c
      else if h =? 2 then 0 else validate_code op old new (zb h)
  | _ => 20
  end.
Definition prop_validate (inp obs : list Z) : Z :=
  match untag TAG_VALIDATE inp with Some body => prop_validate_body body obs | None => 0 end.

(* non-trivial: the pod carries a recognised QoS class or asks for batch resources, i.e. at
   least one rule of the protocol is exercised *)
Definition nontrivial_validate_body (inp : list Z) : bool :=
  let '(g, op, old, new) := dec_validate inp in
  negb (seqb (qos_raw new) QoSNone)
  || negb ((pod_request new R_BCPU =? 0) && (pod_request new R_BMEM =? 0)).
Definition nontrivial_validate (inp : list Z) : bool :=
  match untag TAG_VALIDATE inp with Some body => nontrivial_validate_body body | None => false end.

(* ------------------------------------------------------------------ mutate stream *)
Definition identity_enc (p : pod) : list Z :=
  flat_map (enc_label (p_labels p)) LABEL_KEYS ++ enc_opt (p_prio p).

(* 0 holds; 20 malformed observable; 21/22 a mutator changed the pod but reported "not
   mutated" (the patch would be dropped); 11 amounts/erasure/frame; 13 annotation;
   14 re-admission as Update changes something; 15 re-admission as Create changes something
   although the profiles leave the pod's identity, the summary annotation and the translation
   switch alone;
   16 re-admission as Update through the handler changes something.
   Clauses 11/13 are judged twice: on the pod left by the two mutators of the property and on
   the pod the API server ends up with after PodMutatingHandler.Handle (patch applied). *)
Definition judge_create (e : env) (ps : list profile) (p : pod) (b : list Z) : Z :=
  match b with
  | 1 :: _ => 0
  | 0 :: l1 :: l2 :: penc =>
      if zb l1 then 21 else if zb l2 then 22 else
      let '(po, _) := dec_obs_pod penc in
      mutate_code KEYS (translating e ps p) (e_gate_noext e) p po
  | _ => 20
  end.
Definition prop_mutate_body (inp obs : list Z) : Z :=
  let '(e, ps, p) := dec_mutate inp in
  let '(b1, r1) := take_list obs in
  let '(bh, rh) := take_list r1 in
  let c1 := judge_create e ps p b1 in
  if negb (c1 =? 0) then c1 else
  let ch := judge_create e ps p bh in
  if negb (ch =? 0) then ch else
  match b1 with
  | 0 :: _ :: _ :: penc =>
      let '(po, _) := dec_obs_pod penc in
      let '(b2, r2) := take_list rh in
      let '(b3, r3) := take_list r2 in
      let '(bu, _) := take_list r3 in
      if negb (eq_listZ b2 b1) then 14 else
      if negb (eq_listZ bu bh) then 16 else
      match b3 with
      | 0 :: l1' :: l2' :: penc3 =>
          let '(po3, _) := dec_obs_pod penc3 in
          if eq_listZ (identity_enc po3) (identity_enc po)
             && Bool.eqb (translating e ps po) (translating e ps p)
             && negb (touches_summary e ps po)
          then (if eq_listZ b3 b1 then 0 else 15)
          else 0
      | 1 :: _ => 0
      | _ => 20
      end
  | _ => 0
  end.

Definition prop_mutate (inp obs : list Z) : Z :=
  match untag TAG_MUTATE inp with Some body => prop_mutate_body body obs | None => 0 end.

Definition has_native (c : container) : bool :=
  match rget R_CPU (c_req c), rget R_MEM (c_req c), rget R_CPU (c_lim c), rget R_MEM (c_lim c) with
  | None, None, None, None => false
  | _, _, _, _ => true
  end.

(* non-trivial: the admission succeeds, the translation runs for a mid/batch pod and some
   container actually declares native cpu or memory *)
Definition nontrivial_mutate_body (inp : list Z) : bool :=
  let '(e, ps, p) := dec_mutate inp in
  match admit_pod e OP_CREATE ps p with
  | None => false
  | Some p1 =>
      translating e ps p
      && tier_class (pclass_with_default (with_identity p1 p))
      && existsb has_native (p_ctrs p ++ p_init p)
  end.
Definition nontrivial_mutate (inp : list Z) : bool :=
  match untag TAG_MUTATE inp with Some body => nontrivial_mutate_body body | None => false end.
