(* Helpers for the flat-integer wire format shared by all Extract.v files:
   a structured input or observable is a [list Z]; variable-length parts carry a
   length prefix. Decoders are total: malformed input decodes to defaults. *)
From Coq Require Import List ZArith Bool.
Import ListNotations.
Open Scope Z_scope.

Definition zb (z : Z) : bool := negb (z =? 0).
Definition bz (b : bool) : Z := if b then 1 else 0.

(* split off the first n elements *)
Definition take_n {A} (n : nat) (l : list A) : list A * list A := (firstn n l, skipn n l).

(* [k x1..xk rest] -> ([x1..xk], rest) *)
Definition take_list (l : list Z) : list Z * list Z :=
  match l with
  | k :: t => take_n (Z.to_nat k) t
  | [] => ([], [])
  end.

(* decode [k] records with [f : list Z -> A * list Z] *)
Fixpoint decode_many {A} (f : list Z -> A * list Z) (k : nat) (l : list Z) : list A * list Z :=
  match k with
  | O => ([], l)
  | S k' => let '(a, r) := f l in
            let '(t, r') := decode_many f k' r in (a :: t, r')
  end.

(* [k rec1 .. reck rest] *)
Definition decode_seq {A} (f : list Z -> A * list Z) (l : list Z) : list A * list Z :=
  match l with
  | k :: t => decode_many f (Z.to_nat k) t
  | [] => ([], [])
  end.

Definition hdZ (l : list Z) : Z := match l with x :: _ => x | [] => 0 end.

Definition encode_list (l : list Z) : list Z := Z.of_nat (length l) :: l.
