(* Two-dimensional resource vectors (cpu, memory) over Z with the pointwise operations the
   elastic-quota accounting uses (quotav1.Add / Subtract / Max, per-dimension clamp at 0,
   min with the quota's max, IsZero). A missing key of a Kubernetes ResourceList reads as 0.
   [vlia] decides goals that are linear arithmetic per component. *)
From Coq Require Import List ZArith Bool Lia.
Import ListNotations.
Open Scope Z_scope.

Notation vec := (Z * Z)%type.

Definition vzero : vec := (0, 0).
Definition vadd (a b : vec) : vec := (fst a + fst b, snd a + snd b).
Definition vsub (a b : vec) : vec := (fst a - fst b, snd a - snd b).
Definition vmax (a b : vec) : vec := (Z.max (fst a) (fst b), Z.max (snd a) (snd b)).
Definition vmin (a b : vec) : vec := (Z.min (fst a) (fst b), Z.min (snd a) (snd b)).
Definition vneg (a : vec) : vec := (- fst a, - snd a).
(* quotav1.IsNegative + "set those to 0" *)
Definition vclamp (a : vec) : vec := (Z.max 0 (fst a), Z.max 0 (snd a)).
Definition viszero (a : vec) : bool := (fst a =? 0) && (snd a =? 0).
Definition veqb (a b : vec) : bool := (fst a =? fst b) && (snd a =? snd b).
Definition vle (a b : vec) : Prop := fst a <= fst b /\ snd a <= snd b.
Definition vleb (a b : vec) : bool := (fst a <=? fst b) && (snd a <=? snd b).
Definition vnonneg (a : vec) : Prop := vle vzero a.
Definition vnonnegb (a : vec) : bool := vleb vzero a.

Definition vsum (l : list vec) : vec := fold_right vadd vzero l.

(* destruct every vector variable that has no body (let-bound ones are left alone) *)
Ltac vdestruct :=
  repeat match goal with
         | v : (Z * Z)%type |- _ =>
             tryif (let b := eval unfold v in v in idtac) then fail else destruct v as [? ?]
         end.

Ltac vunfold :=
  unfold vnonneg, vnonnegb, vle, vleb, veqb, viszero, vclamp, vneg, vmin, vmax, vsub, vadd, vzero in *;
  cbn [fst snd] in *.

Ltac vlia :=
  intros; vdestruct; vunfold;
  repeat match goal with
         | H : _ /\ _ |- _ => destruct H
         | H : (_, _) = (_, _) |- _ => injection H as ? ?
         | H : andb _ _ = true |- _ => apply andb_prop in H; destruct H
         end;
  repeat match goal with
         | H : (_ =? _) = true |- _ => apply Z.eqb_eq in H
         | H : (_ <=? _) = true |- _ => apply Z.leb_le in H
         end;
  try (apply andb_true_intro; split);
  try match goal with |- (_ =? _) = true => apply Z.eqb_eq end;
  try match goal with |- (_ <=? _) = true => apply Z.leb_le end;
  repeat match goal with
         | |- _ /\ _ => split
         | |- (_, _) = (_, _) => f_equal
         end; try lia.

Lemma veqb_eq a b : veqb a b = true <-> a = b.
Proof.
  destruct a, b; unfold veqb; cbn [fst snd]. rewrite andb_true_iff, !Z.eqb_eq.
  split; [intros [-> ->]; reflexivity | intros H; injection H; auto].
Qed.
Lemma veqb_refl a : veqb a a = true.
Proof. apply veqb_eq; reflexivity. Qed.
Lemma viszero_eq a : viszero a = true <-> a = vzero.
Proof.
  destruct a; unfold viszero, vzero; cbn [fst snd]. rewrite andb_true_iff, !Z.eqb_eq.
  split; [intros [-> ->]; reflexivity | intros H; injection H; auto].
Qed.
Lemma vnonnegb_iff a : vnonnegb a = true <-> vnonneg a.
Proof.
  destruct a; unfold vnonnegb, vnonneg, vleb, vle, vzero; cbn [fst snd].
  rewrite andb_true_iff, !Z.leb_le. tauto.
Qed.
Lemma vleb_iff a b : vleb a b = true <-> vle a b.
Proof.
  destruct a, b; unfold vleb, vle; cbn [fst snd]. rewrite andb_true_iff, !Z.leb_le. tauto.
Qed.

Lemma vadd_comm a b : vadd a b = vadd b a. Proof. vlia. Qed.
Lemma vadd_assoc a b c : vadd a (vadd b c) = vadd (vadd a b) c. Proof. vlia. Qed.
Lemma vadd_0_l a : vadd vzero a = a. Proof. vlia. Qed.
Lemma vadd_0_r a : vadd a vzero = a. Proof. vlia. Qed.
Lemma vsub_0_r a : vsub a vzero = a. Proof. vlia. Qed.
Lemma vsub_diag a : vsub a a = vzero. Proof. vlia. Qed.
Lemma vadd_sub a b : vadd a (vsub b a) = b. Proof. vlia. Qed.
Lemma vsub_add a b : vsub (vadd a b) b = a. Proof. vlia. Qed.
Lemma vclamp_nonneg a : vnonneg a -> vclamp a = a. Proof. vlia. Qed.
Lemma vclamp_is_nonneg a : vnonneg (vclamp a). Proof. vlia. Qed.
Lemma vnonneg_zero : vnonneg vzero. Proof. vlia. Qed.
Lemma vnonneg_add a b : vnonneg a -> vnonneg b -> vnonneg (vadd a b). Proof. vlia. Qed.
Lemma vnonneg_max_l a b : vnonneg a -> vnonneg (vmax a b). Proof. vlia. Qed.
Lemma vnonneg_min a b : vnonneg a -> vnonneg b -> vnonneg (vmin a b). Proof. vlia. Qed.

Lemma vsum_app l1 l2 : vsum (l1 ++ l2) = vadd (vsum l1) (vsum l2).
Proof.
  induction l1 as [|a l1 IH]; cbn [vsum fold_right app].
  - symmetry; apply vadd_0_l.
  - fold (vsum (l1 ++ l2)); fold (vsum l1). rewrite IH. apply vadd_assoc.
Qed.
Lemma vsum_cons a l : vsum (a :: l) = vadd a (vsum l).
Proof. reflexivity. Qed.
Lemma vsum_nonneg l : Forall vnonneg l -> vnonneg (vsum l).
Proof.
  induction 1 as [|a l Ha _ IH]; [apply vnonneg_zero|].
  rewrite vsum_cons. apply vnonneg_add; assumption.
Qed.
Lemma vsum_map_ext {A} (f g : A -> vec) l :
  (forall x, In x l -> f x = g x) -> vsum (map f l) = vsum (map g l).
Proof.
  induction l as [|a l IH]; intros H; [reflexivity|].
  cbn [map]. rewrite !vsum_cons, (H a (or_introl eq_refl)), IH; [reflexivity|].
  intros x Hx; apply H; right; exact Hx.
Qed.
Lemma vsum_map_zero {A} (f : A -> vec) l :
  (forall x, In x l -> f x = vzero) -> vsum (map f l) = vzero.
Proof.
  induction l as [|a l IH]; intros H; [reflexivity|].
  cbn [map]. rewrite vsum_cons, (H a (or_introl eq_refl)), IH; [reflexivity|].
  intros x Hx; apply H; right; exact Hx.
Qed.
