(* Stable insertion sort by a boolean order [leb]; it is a permutation, produces a
   strongly sorted list under a total transitive [leb], and the sorted result is unique among
   the permutations of a list on which [leb] is antisymmetric ([sort_by_unique]). *)
From Coq Require Import List Bool Permutation Sorted.
Import ListNotations.

Fixpoint insert_by {A} (leb : A -> A -> bool) (x : A) (l : list A) : list A :=
  match l with
  | [] => [x]
  | y :: t => if leb x y then x :: l else y :: insert_by leb x t
  end.
Definition sort_by {A} (leb : A -> A -> bool) (l : list A) : list A :=
  fold_right (insert_by leb) [] l.

Lemma in_skipn_in {A} n (l : list A) y : In y (skipn n l) -> In y l.
Proof.
  revert n. induction l as [|a t IH]; intros n H.
  - rewrite skipn_nil in H. exact H.
  - destruct n as [|n]; [exact H|]. right. eapply IH. exact H.
Qed.

Section Sort.
  Context {A : Type} (leb : A -> A -> bool).

  Definition leb_total : Prop := forall a b, leb a b = true \/ leb b a = true.
  Definition leb_trans : Prop := forall a b c, leb a b = true -> leb b c = true -> leb a c = true.
  Definition leb_antisym_on (l : list A) : Prop :=
    forall a b, In a l -> In b l -> leb a b = true -> leb b a = true -> a = b.

  Notation lt := (fun a b => leb a b = true).

  Lemma insert_by_perm x l : Permutation (insert_by leb x l) (x :: l).
  Proof.
    induction l as [|y t IH]; [apply Permutation_refl|].
    cbn [insert_by]. destruct (leb x y); [apply Permutation_refl|].
    eapply Permutation_trans; [apply perm_skip, IH|apply perm_swap].
  Qed.

  Lemma sort_by_perm l : Permutation (sort_by leb l) l.
  Proof.
    induction l as [|x l IH]; [constructor|].
    cbn [sort_by fold_right]. fold (sort_by leb l).
    eapply Permutation_trans; [apply insert_by_perm|apply perm_skip, IH].
  Qed.

  Lemma sort_by_length l : length (sort_by leb l) = length l.
  Proof. apply Permutation_length, sort_by_perm. Qed.

  Lemma sort_by_In x l : In x (sort_by leb l) <-> In x l.
  Proof.
    split; apply Permutation_in; [|apply Permutation_sym]; apply sort_by_perm.
  Qed.

  Lemma insert_by_sorted x l :
    leb_total -> leb_trans ->
    StronglySorted lt l -> StronglySorted lt (insert_by leb x l).
  Proof.
    intros Htot Htr. induction l as [|y t IH]; intro Hs.
    - cbn. constructor; constructor.
    - cbn [insert_by]. inversion Hs as [|? ? Hst Hall]; subst.
      destruct (leb x y) eqn:E.
      + constructor; [exact Hs|]. constructor; [exact E|].
        rewrite Forall_forall in *. intros z Hz. eapply Htr; [exact E|apply Hall, Hz].
      + constructor; [apply IH, Hst|].
        rewrite Forall_forall in *. intros z Hz.
        apply (Permutation_in _ (insert_by_perm x t)) in Hz. destruct Hz as [<-|Hz].
        * destruct (Htot x y) as [H|H]; [congruence|exact H].
        * apply Hall, Hz.
  Qed.

  Lemma sort_by_sorted l : leb_total -> leb_trans -> StronglySorted lt (sort_by leb l).
  Proof.
    intros Htot Htr. induction l as [|x l IH]; [constructor|].
    cbn [sort_by fold_right]. fold (sort_by leb l). apply insert_by_sorted; assumption.
  Qed.

  Lemma sorted_perm_unique l l' :
    leb_antisym_on l ->
    StronglySorted lt l -> StronglySorted lt l' -> Permutation l l' -> l = l'.
  Proof.
    revert l'. induction l as [|a t IH]; intros l' Hanti Hs Hs' HP.
    - apply Permutation_nil in HP. auto.
    - destruct l' as [|a' t']; [apply Permutation_sym, Permutation_nil in HP; discriminate|].
      inversion Hs as [|? ? Hst Hall]; subst. inversion Hs' as [|? ? Hst' Hall']; subst.
      rewrite Forall_forall in Hall, Hall'.
      assert (Ha' : In a' (a :: t)).
      { apply (Permutation_in _ (Permutation_sym HP)). left; reflexivity. }
      assert (Ha : In a (a' :: t')).
      { apply (Permutation_in _ HP). left; reflexivity. }
      assert (Heq : a = a').
      { destruct Ha as [Ha|Ha]; [auto|]. destruct Ha' as [Ha'|Ha']; [auto|].
        apply Hanti; [left; reflexivity|right; exact Ha'|apply Hall, Ha'|apply Hall', Ha]. }
      subst a'. f_equal. apply IH; try assumption.
      + intros x y Hx Hy. apply Hanti; right; assumption.
      + eapply Permutation_cons_inv; exact HP.
  Qed.

  Lemma sort_by_unique l l' :
    leb_total -> leb_trans -> leb_antisym_on l ->
    Permutation l l' -> sort_by leb l = sort_by leb l'.
  Proof.
    intros Htot Htr Hanti HP.
    apply sorted_perm_unique; try (apply sort_by_sorted; assumption).
    - intros a b Ha Hb. apply Hanti; apply sort_by_In; assumption.
    - eapply Permutation_trans; [apply sort_by_perm|].
      eapply Permutation_trans; [exact HP|apply Permutation_sym, sort_by_perm].
  Qed.

  (* elements before a cut of a sorted list precede the elements after it *)
  Lemma sorted_firstn_skipn n l x y :
    StronglySorted lt l -> In x (firstn n l) -> In y (skipn n l) -> leb x y = true.
  Proof.
    revert n. induction l as [|a t IH]; intros n Hs Hx Hy.
    - rewrite firstn_nil in Hx. destruct Hx.
    - destruct n as [|n]; [destruct Hx|].
      inversion Hs as [|? ? Hst Hall]; subst. rewrite Forall_forall in Hall.
      cbn [firstn skipn] in Hx, Hy. destruct Hx as [<-|Hx].
      + apply Hall. eapply in_skipn_in. exact Hy.
      + eapply IH; eassumption.
  Qed.
End Sort.
