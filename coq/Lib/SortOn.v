(* Insertion sort [SortX.sort_by] under an order that is total and transitive only ON the
   elements satisfying a predicate [P] (e.g. a comparator that degenerates on some inputs):
   lists all of whose elements satisfy [P] are sorted by it.  (Owner: C11.) *)
From Coq Require Import List Bool Permutation Sorted.
From Verif Require Import Lib.SortX.
Import ListNotations.

Section SortOn.
  Context {A : Type} (leb : A -> A -> bool) (P : A -> Prop).
  Notation lt := (fun a b => leb a b = true).

  Definition total_on : Prop := forall a b, P a -> P b -> leb a b = true \/ leb b a = true.
  Definition trans_on : Prop :=
    forall a b c, P a -> P b -> P c -> leb a b = true -> leb b c = true -> leb a c = true.

  Lemma insert_by_sorted_on x l :
    total_on -> trans_on -> P x -> Forall P l ->
    StronglySorted lt l -> StronglySorted lt (insert_by leb x l).
  Proof.
    intros Htot Htr Hx. induction l as [|y t IH]; intros HP Hs.
    - cbn. constructor; constructor.
    - cbn [insert_by]. inversion Hs as [|? ? Hst Hall]; subst.
      inversion HP as [|? ? Hy HPt]; subst.
      destruct (leb x y) eqn:E.
      + constructor; [exact Hs|]. constructor; [exact E|].
        rewrite Forall_forall in *. intros z Hz. eapply (Htr x y z); auto.
      + constructor; [apply IH; assumption|].
        rewrite Forall_forall in *. intros z Hz.
        apply (Permutation_in _ (insert_by_perm leb x t)) in Hz. destruct Hz as [<-|Hz].
        * destruct (Htot x y Hx Hy) as [H|H]; [congruence|exact H].
        * apply Hall, Hz.
  Qed.

  Lemma sort_by_sorted_on l :
    total_on -> trans_on -> Forall P l -> StronglySorted lt (sort_by leb l).
  Proof.
    intros Htot Htr. induction l as [|x l IH]; intros HP; [constructor|].
    inversion HP as [|? ? Hx HPl]; subst.
    cbn [sort_by fold_right]. fold (sort_by leb l). apply insert_by_sorted_on; auto.
    rewrite Forall_forall in *. intros z Hz. apply HPl.
    apply (Permutation_in _ (sort_by_perm leb l)). exact Hz.
  Qed.
End SortOn.

(* in a sorted list every element precedes every later one *)
Lemma sorted_split_lt {A} (R : A -> A -> Prop) l pre a mid b suf :
  StronglySorted R l -> l = pre ++ a :: mid ++ b :: suf -> R a b.
Proof.
  intros Hs ->. induction pre as [|x pre IH]; cbn [app] in Hs.
  - inversion Hs as [|? ? _ Hall]; subst. rewrite Forall_forall in Hall. apply Hall.
    apply in_or_app. right. left. reflexivity.
  - inversion Hs; subst. apply IH. assumption.
Qed.
