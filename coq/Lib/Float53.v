(* IEEE-754 binary64 semantics of the one floating-point expression the koordlet hooks apply to
   an integer quantity,
        int64(math.Ceil(float64(q) / ratio))          with ratio = ParseFloat("<k/100>", 64),
   as exact integer arithmetic: the correctly rounded (nearest, ties to even) 53-bit quotient,
   then the ceiling. Executable definitions plus the order/bound lemmas the properties need.
   Faithful for 0 <= q < 2^53 (float64(q) exact) and quotients below 2^53; total elsewhere
   (the lemmas hold for all arguments). No property-specific content. *)
From Coq Require Import ZArith Bool Lia.
Open Scope Z_scope.

(* exact ceiling of a / b for b > 0 *)
Definition cdiv (a b : Z) : Z := - ((- a) / b).

(* a / b (b > 0) rounded to the nearest integer, ties to even *)
Definition rne_div (a b : Z) : Z :=
  let q := a / b in let r := a mod b in
  if 2 * r <? b then q else if b <? 2 * r then q + 1 else if Z.even q then q else q + 1.

(* the quotient N/D rounded to t-ths (t = 2^j: the spacing of doubles in the binade of N/D),
   then rounded up to an integer *)
Definition ceil_rounded (D t N : Z) : Z := cdiv (rne_div (N * t) D) t.

(* ceil of the double nearest to N / D   (0 <= N, 0 < D) *)
Definition fdiv_ceil (N D : Z) : Z :=
  if N <? D then (if 0 <? N then 1 else 0)
  else ceil_rounded D (2 ^ Z.max 0 (52 - Z.log2 (N / D))) N.

(* the double nearest to the decimal k/100 (100 <= k) is  ratio_mant k / ratio_den k *)
Definition ratio_den (k : Z) : Z := 2 ^ Z.max 0 (52 - Z.log2 (k / 100)).
Definition ratio_mant (k : Z) : Z := rne_div (k * ratio_den k) 100.

(* ceil(float64(q) / double(k/100)) *)
Definition ratio_div_ceil (k q : Z) : Z := fdiv_ceil (q * ratio_den k) (ratio_mant k).

(* ---------- cdiv ---------- *)

Lemma cdiv_bounds a b : 0 < b -> a <= b * cdiv a b < a + b.
Proof.
  intro Hb. unfold cdiv.
  pose proof (Z.div_mod (- a) b ltac:(lia)) as E.
  pose proof (Z.mod_pos_bound (- a) b Hb) as M. lia.
Qed.

Lemma cdiv_mono a a' b : 0 < b -> a <= a' -> cdiv a b <= cdiv a' b.
Proof.
  intros Hb H. unfold cdiv.
  assert ((- a') / b <= (- a) / b) by (apply Z.div_le_mono; lia). lia.
Qed.

Lemma cdiv_pos a b : 0 < b -> 0 < a -> 0 < cdiv a b.
Proof. intros Hb Ha. pose proof (cdiv_bounds a b Hb). nia. Qed.

Lemma cdiv_mul c b : 0 < b -> cdiv (c * b) b = c.
Proof.
  intro Hb. unfold cdiv. replace (- (c * b)) with ((- c) * b) by lia.
  rewrite Z.div_mul by lia. lia.
Qed.

(* ---------- rne_div ---------- *)

Lemma rne_div_floor_ceil a b : 0 < b -> a / b <= rne_div a b <= a / b + 1.
Proof.
  intro Hb. unfold rne_div.
  destruct (2 * (a mod b) <? b); [lia|]. destruct (b <? 2 * (a mod b)); [lia|].
  destruct (Z.even (a / b)); lia.
Qed.

Lemma rne_div_exact c b : 0 < b -> rne_div (c * b) b = c.
Proof.
  intro Hb. unfold rne_div. rewrite Z.div_mul, Z.mod_mul by lia.
  replace (2 * 0 <? b) with true by (symmetry; apply Z.ltb_lt; lia). reflexivity.
Qed.

Lemma rne_div_mono a a' b : 0 < b -> a <= a' -> rne_div a b <= rne_div a' b.
Proof.
  intros Hb H.
  assert (Hq : a / b <= a' / b) by (apply Z.div_le_mono; lia).
  pose proof (rne_div_floor_ceil a b Hb) as B. pose proof (rne_div_floor_ceil a' b Hb) as B'.
  destruct (Z.eq_dec (a / b) (a' / b)) as [E|E]; [|lia].
  (* same integer part: the remainders are ordered and the rounding decision is monotone *)
  assert (Hr : a mod b <= a' mod b).
  { pose proof (Z.div_mod a b ltac:(lia)). pose proof (Z.div_mod a' b ltac:(lia)). rewrite E in *. lia. }
  unfold rne_div. rewrite E.
  destruct (2 * (a mod b) <? b) eqn:E1; [apply Z.ltb_lt in E1|apply Z.ltb_ge in E1];
  destruct (2 * (a' mod b) <? b) eqn:E1'; [apply Z.ltb_lt in E1'|apply Z.ltb_ge in E1'|apply Z.ltb_lt in E1'|apply Z.ltb_ge in E1'];
  destruct (b <? 2 * (a mod b)) eqn:E2; [apply Z.ltb_lt in E2|apply Z.ltb_ge in E2| apply Z.ltb_lt in E2|apply Z.ltb_ge in E2|apply Z.ltb_lt in E2|apply Z.ltb_ge in E2|apply Z.ltb_lt in E2|apply Z.ltb_ge in E2];
  destruct (b <? 2 * (a' mod b)) eqn:E2'; try (apply Z.ltb_lt in E2'); try (apply Z.ltb_ge in E2');
  destruct (Z.even (a' / b)); lia.
Qed.

Lemma rne_div_ge c a b : 0 < b -> c * b <= a -> c <= rne_div a b.
Proof.
  intros Hb H. rewrite <- (rne_div_exact c b Hb). now apply rne_div_mono.
Qed.

Lemma rne_div_le c a b : 0 < b -> a <= c * b -> rne_div a b <= c.
Proof.
  intros Hb H. rewrite <- (rne_div_exact c b Hb). now apply rne_div_mono.
Qed.

(* ---------- ceil_rounded: integers are fixed points and separate the results ---------- *)

Lemma ceil_rounded_ge D t N c : 0 < D -> 0 < t -> c * D <= N -> c <= ceil_rounded D t N.
Proof.
  intros HD Ht H. unfold ceil_rounded. rewrite <- (cdiv_mul c t Ht).
  apply cdiv_mono; [exact Ht|]. apply rne_div_ge; [exact HD|]. nia.
Qed.

Lemma ceil_rounded_le D t N c : 0 < D -> 0 < t -> N <= c * D -> ceil_rounded D t N <= c.
Proof.
  intros HD Ht H. unfold ceil_rounded. rewrite <- (cdiv_mul c t Ht).
  apply cdiv_mono; [exact Ht|]. apply rne_div_le; [exact HD|]. nia.
Qed.

Lemma ceil_rounded_mono D t N N' : 0 < D -> 0 < t -> N <= N' -> ceil_rounded D t N <= ceil_rounded D t N'.
Proof.
  intros HD Ht H. unfold ceil_rounded. apply cdiv_mono; [exact Ht|]. apply rne_div_mono; [exact HD|]. nia.
Qed.

(* ---------- fdiv_ceil ---------- *)

Lemma pow2_pos e : 0 < 2 ^ Z.max 0 e.
Proof. apply Z.pow_pos_nonneg; lia. Qed.

Lemma fdiv_ceil_ge N D c : 0 < D -> 0 < c -> c * D <= N -> c <= fdiv_ceil N D.
Proof.
  intros HD Hc H. unfold fdiv_ceil.
  replace (N <? D) with false by (symmetry; apply Z.ltb_ge; nia).
  apply ceil_rounded_ge; [exact HD|apply pow2_pos|exact H].
Qed.

Lemma fdiv_ceil_le N D c : 0 < D -> 0 < N -> N <= c * D -> fdiv_ceil N D <= c.
Proof.
  intros HD HN H. unfold fdiv_ceil.
  destruct (N <? D) eqn:E.
  - replace (0 <? N) with true by (symmetry; apply Z.ltb_lt; lia). nia.
  - apply ceil_rounded_le; [exact HD|apply pow2_pos|exact H].
Qed.

Lemma fdiv_ceil_pos N D : 0 < D -> 0 < N -> 0 < fdiv_ceil N D.
Proof.
  intros HD HN. unfold fdiv_ceil. destruct (N <? D) eqn:E.
  - replace (0 <? N) with true by (symmetry; apply Z.ltb_lt; lia). lia.
  - apply Z.ltb_ge in E.
    assert (1 <= ceil_rounded D (2 ^ Z.max 0 (52 - Z.log2 (N / D))) N)
      by (apply ceil_rounded_ge; [exact HD|apply pow2_pos|lia]). lia.
Qed.

Lemma fdiv_ceil_mono N N' D : 0 < D -> 0 <= N -> N <= N' -> fdiv_ceil N D <= fdiv_ceil N' D.
Proof.
  intros HD HN H. unfold fdiv_ceil.
  destruct (N <? D) eqn:E; [apply Z.ltb_lt in E|apply Z.ltb_ge in E].
  - destruct (N' <? D) eqn:E'; [apply Z.ltb_lt in E'|apply Z.ltb_ge in E'].
    + destruct (0 <? N) eqn:P; [apply Z.ltb_lt in P|apply Z.ltb_ge in P].
      * replace (0 <? N') with true by (symmetry; apply Z.ltb_lt; lia). lia.
      * destruct (0 <? N'); lia.
    + assert (1 <= ceil_rounded D (2 ^ Z.max 0 (52 - Z.log2 (N' / D))) N')
        by (apply ceil_rounded_ge; [exact HD|apply pow2_pos|lia]).
      destruct (0 <? N); lia.
  - replace (N' <? D) with false by (symmetry; apply Z.ltb_ge; lia).
    assert (Hq : 1 <= N / D) by (apply Z.div_le_lower_bound; lia).
    assert (Hq' : N / D <= N' / D) by (apply Z.div_le_mono; lia).
    assert (Hk : Z.log2 (N / D) <= Z.log2 (N' / D)) by (apply Z.log2_le_mono; exact Hq').
    destruct (Z.eq_dec (Z.log2 (N / D)) (Z.log2 (N' / D))) as [Ek|Ek].
    + rewrite Ek. apply ceil_rounded_mono; [exact HD|apply pow2_pos|exact H].
    + (* different binades: the power of two between them separates the results *)
      set (k := Z.log2 (N / D)) in *. set (k' := Z.log2 (N' / D)) in *.
      assert (Hk0 : 0 <= k) by apply Z.log2_nonneg.
      pose proof (Z.log2_spec (N / D) ltac:(lia)) as [_ Hup]. fold k in Hup.
      pose proof (Z.log2_spec (N' / D) ltac:(lia)) as [Hlo' _]. fold k' in Hlo'.
      assert (Hpow : 2 ^ Z.succ k <= 2 ^ k') by (apply Z.pow_le_mono_r; lia).
      set (c := 2 ^ Z.succ k) in *.
      assert (HNc : N <= c * D).
      { pose proof (Z.div_mod N D ltac:(lia)). pose proof (Z.mod_pos_bound N D HD). nia. }
      assert (HNc' : c * D <= N').
      { pose proof (Z.div_mod N' D ltac:(lia)). pose proof (Z.mod_pos_bound N' D HD). nia. }
      transitivity c.
      * apply ceil_rounded_le; [exact HD|apply pow2_pos|exact HNc].
      * apply ceil_rounded_ge; [exact HD|apply pow2_pos|exact HNc'].
Qed.

(* the result is the floor or the ceiling of the exact quotient *)
Lemma fdiv_ceil_near N D : 0 < D -> 0 < N ->
  D * (fdiv_ceil N D - 1) < N < D * (fdiv_ceil N D + 1).
Proof.
  intros HD HN.
  destruct (Z.ltb_spec N D) as [E|E].
  - unfold fdiv_ceil. replace (N <? D) with true by (symmetry; apply Z.ltb_lt; lia).
    replace (0 <? N) with true by (symmetry; apply Z.ltb_lt; lia). lia.
  - assert (H1 : N / D <= fdiv_ceil N D).
    { apply fdiv_ceil_ge; [exact HD|apply Z.div_str_pos; lia|].
      pose proof (Z.div_mod N D ltac:(lia)). pose proof (Z.mod_pos_bound N D HD). nia. }
    assert (H2 : fdiv_ceil N D <= cdiv N D).
    { apply fdiv_ceil_le; [exact HD|exact HN|]. pose proof (cdiv_bounds N D HD). nia. }
    pose proof (cdiv_bounds N D HD). pose proof (Z.div_mod N D ltac:(lia)). pose proof (Z.mod_pos_bound N D HD).
    nia.
Qed.

(* ---------- the ratio ---------- *)

Lemma ratio_den_pos k : 0 < ratio_den k.
Proof. apply pow2_pos. Qed.

Lemma ratio_mant_ge_den k : 100 <= k -> ratio_den k <= ratio_mant k.
Proof.
  intro Hk. unfold ratio_mant. pose proof (ratio_den_pos k).
  apply rne_div_ge; [lia|]. nia.
Qed.

Lemma ratio_mant_pos k : 100 <= k -> 0 < ratio_mant k.
Proof. intro Hk. pose proof (ratio_mant_ge_den k Hk). pose proof (ratio_den_pos k). lia. Qed.

(* |100 M - k T| <= 50: the double is within half a unit in the last place of the decimal *)
Lemma ratio_mant_near k : 100 <= k ->
  k * ratio_den k - 50 <= 100 * ratio_mant k <= k * ratio_den k + 50.
Proof.
  intro Hk. unfold ratio_mant, rne_div. set (a := k * ratio_den k).
  pose proof (Z.div_mod a 100 ltac:(lia)). pose proof (Z.mod_pos_bound a 100 ltac:(lia)).
  destruct (2 * (a mod 100) <? 100) eqn:E1; [apply Z.ltb_lt in E1; lia|apply Z.ltb_ge in E1].
  destruct (100 <? 2 * (a mod 100)) eqn:E2; [apply Z.ltb_lt in E2; lia|apply Z.ltb_ge in E2].
  destruct (Z.even (a / 100)); lia.
Qed.

Lemma ratio_div_ceil_pos k q : 100 <= k -> 0 < q -> 0 < ratio_div_ceil k q.
Proof.
  intros Hk Hq. unfold ratio_div_ceil. pose proof (ratio_den_pos k).
  apply fdiv_ceil_pos; [now apply ratio_mant_pos|nia].
Qed.

Lemma ratio_div_ceil_le k q : 100 <= k -> 0 < q -> ratio_div_ceil k q <= q.
Proof.
  intros Hk Hq. unfold ratio_div_ceil. pose proof (ratio_den_pos k). pose proof (ratio_mant_ge_den k Hk).
  apply fdiv_ceil_le; [now apply ratio_mant_pos|nia|nia].
Qed.

Lemma ratio_div_ceil_mono k q q' : 100 <= k -> 0 <= q -> q <= q' -> ratio_div_ceil k q <= ratio_div_ceil k q'.
Proof.
  intros Hk Hq H. unfold ratio_div_ceil. pose proof (ratio_den_pos k).
  apply fdiv_ceil_mono; [now apply ratio_mant_pos|nia|nia].
Qed.

Lemma ratio_div_ceil_near k q : 100 <= k -> 0 < q ->
  ratio_mant k * (ratio_div_ceil k q - 1) < q * ratio_den k < ratio_mant k * (ratio_div_ceil k q + 1).
Proof.
  intros Hk Hq. unfold ratio_div_ceil. pose proof (ratio_den_pos k).
  apply fdiv_ceil_near; [now apply ratio_mant_pos|nia].
Qed.

(* ---------- relation to the exact decimal quotient ---------- *)

Lemma ratio_mant_big k : 100 <= k -> k / 100 < 2 ^ 53 -> 2 ^ 52 <= ratio_mant k.
Proof.
  intros Hk Hlt. unfold ratio_mant, ratio_den.
  assert (H1 : 1 <= k / 100) by (apply Z.div_le_lower_bound; lia).
  set (j := Z.log2 (k / 100)).
  assert (Hj0 : 0 <= j) by apply Z.log2_nonneg.
  assert (Hj : j < 53) by (apply Z.log2_lt_pow2; lia).
  pose proof (Z.log2_spec (k / 100) ltac:(lia)) as [Hlo _]. fold j in Hlo.
  replace (Z.max 0 (52 - j)) with (52 - j) by lia.
  apply rne_div_ge; [lia|].
  assert (E : 2 ^ 52 = 2 ^ j * 2 ^ (52 - j)) by (rewrite <- Z.pow_add_r by lia; f_equal; lia).
  assert (0 < 2 ^ (52 - j)) by (apply Z.pow_pos_nonneg; lia).
  pose proof (Z.div_mod k 100 ltac:(lia)). pose proof (Z.mod_pos_bound k 100 ltac:(lia)).
  rewrite E. nia.
Qed.

(* for quotas up to 2^52 and any ratio the double-precision result is within 2 of the exact
   decimal quotient 100 q / k (it is the floor or ceiling of q divided by the DOUBLE ratio) *)
Lemma ratio_div_ceil_decimal k q : 100 <= k -> k / 100 < 2 ^ 53 -> 0 < q <= 2 ^ 52 ->
  100 * q - 2 * k < k * ratio_div_ceil k q < 100 * q + 2 * k.
Proof.
  intros Hk Hlt [Hq Hq52].
  pose proof (ratio_div_ceil_near k q Hk Hq) as [Hlo Hhi].
  pose proof (ratio_div_ceil_pos k q Hk Hq) as Hfpos.
  pose proof (ratio_div_ceil_le k q Hk Hq) as Hfle.
  pose proof (ratio_mant_near k Hk) as [Hn1 Hn2].
  pose proof (ratio_mant_big k Hk Hlt) as HM.
  pose proof (ratio_den_pos k) as HT.
  set (f := ratio_div_ceil k q) in *. set (M := ratio_mant k) in *. set (T := ratio_den k) in *.
  assert (HkT : 100 * 2 ^ 52 - 50 <= k * T) by lia.
  assert (E52 : 2 ^ 52 = 4503599627370496) by reflexivity. rewrite E52 in *.
  split.
  - (* 100 q T < 100 M (f+1) <= (k T + 50)(f+1) <= k T (f+1) + k T *)
    assert (A1 : 100 * (q * T) < 100 * (M * (f + 1))) by lia.
    assert (A2 : 100 * M * (f + 1) <= (k * T + 50) * (f + 1)) by (apply Z.mul_le_mono_nonneg_r; lia).
    assert (A3 : 50 * (f + 1) <= k * T) by lia.
    assert (A4 : T * (100 * q) < T * (k * (f + 1) + k)) by nia.
    assert (100 * q < k * (f + 1) + k) by (apply (Z.mul_lt_mono_pos_l T); assumption). lia.
  - (* k T (f-1) <= (100 M + 50)(f-1) < 100 q T + k T *)
    assert (B1 : 100 * (M * (f - 1)) < 100 * (q * T)) by lia.
    assert (B2 : k * T * (f - 1) <= (100 * M + 50) * (f - 1)) by (apply Z.mul_le_mono_nonneg_r; lia).
    assert (B3 : 50 * (f - 1) <= k * T) by lia.
    assert (B4 : T * (k * (f - 1)) < T * (100 * q + k)) by nia.
    assert (k * (f - 1) < 100 * q + k) by (apply (Z.mul_lt_mono_pos_l T); assumption). lia.
Qed.
