(* Facts about the score / helper functions REGENERATED from the Go source (Gen/Gen_scores.v).
   Stated over the generated definitions, so an edit of the source function (another constant, a
   flipped comparison, rounding up) is re-proved or refuted here, not sampled.
   Models that need these functions import the generated definitions and use these lemmas as their
   interface. *)
From Coq Require Import ZArith Lia Bool.
From Verif Require Import Gen.Gen_scores.
Open Scope Z_scope.

Lemma quot_bounds a b c : 0 <= a -> 0 < c -> a <= b -> 0 <= Z.quot a c <= Z.quot b c.
Proof.
  intros Ha Hc Hab. rewrite !Z.quot_div_nonneg by lia.
  split; [apply Z.div_pos; lia | apply Z.div_le_mono; lia].
Qed.

(* ---- MaxNodeScore: the scale every score below lives on *)
Lemma max_node_score_pos : 0 < MaxNodeScore.
Proof. reflexivity. Qed.

(* ---- least-requested family (loadaware, deviceshare, nodenumaresource): three copies in the source *)
Definition least_spec (r c : Z) : Z :=
  if (c =? 0) then 0 else if (c <? r) then 0 else Z.quot ((c - r) * MaxNodeScore) c.

Lemma loadaware_least_is_spec r c : loadaware_leastUsedScore r c = least_spec r c.
Proof. reflexivity. Qed.
Lemma deviceshare_least_is_spec r c : deviceshare_leastRequestedScore r c = least_spec r c.
Proof. reflexivity. Qed.
Lemma numa_least_is_spec r c : numa_leastRequestedScore r c = least_spec r c.
Proof. reflexivity. Qed.

Lemma least_range r c : 0 <= r -> 0 <= c -> 0 <= least_spec r c <= MaxNodeScore.
Proof.
  intros Hr Hc. unfold least_spec.
  destruct (Z.eqb_spec c 0) as [->|Hc0]; [unfold MaxNodeScore; lia|].
  destruct (Z.ltb_spec c r) as [Hlt|Hge]; [unfold MaxNodeScore; lia|].
  pose proof max_node_score_pos as Hm.
  rewrite Z.quot_div_nonneg by nia.
  split; [apply Z.div_pos; nia|].
  apply Z.div_le_upper_bound; nia.
Qed.

(* more requested never scores higher *)
Lemma least_antitone r r' c : 0 <= r -> r <= r' -> 0 <= c -> least_spec r' c <= least_spec r c.
Proof.
  intros Hr Hrr Hc. unfold least_spec.
  destruct (Z.eqb_spec c 0) as [->|Hc0]; [lia|].
  destruct (Z.ltb_spec c r') as [Hlt'|Hge'].
  - destruct (Z.ltb_spec c r); [lia|]. pose proof max_node_score_pos.
    rewrite Z.quot_div_nonneg by nia. apply Z.div_pos; nia.
  - destruct (Z.ltb_spec c r); [lia|]. pose proof max_node_score_pos.
    rewrite !Z.quot_div_nonneg by nia. apply Z.div_le_mono; nia.
Qed.

(* exact at the ends: an empty node scores MaxNodeScore, a full or over-full one scores 0 *)
Lemma least_empty c : 0 < c -> least_spec 0 c = MaxNodeScore.
Proof.
  intros Hc. unfold least_spec. destruct (Z.eqb_spec c 0); [lia|].
  destruct (Z.ltb_spec c 0); [lia|]. rewrite Z.sub_0_r, Z.mul_comm. apply Z.quot_mul. lia.
Qed.
Lemma least_full r c : c <= r -> least_spec r c = 0.
Proof.
  intros H. unfold least_spec. destruct (Z.eqb_spec c 0); [reflexivity|].
  destruct (Z.ltb_spec c r); [reflexivity|]. assert (r = c) as -> by lia.
  rewrite Z.sub_diag. reflexivity.
Qed.

(* ---- most-requested family (deviceshare, nodenumaresource) *)
Definition most_spec (r c : Z) : Z :=
  if (c =? 0) then 0 else Z.quot (Z.min r c * MaxNodeScore) c.

Lemma deviceshare_most_is_spec r c : deviceshare_mostRequestedScore r c = most_spec r c.
Proof.
  unfold deviceshare_mostRequestedScore, most_spec.
  destruct (Z.eqb_spec c 0); [reflexivity|].
  destruct (Z.ltb_spec c r); cbv zeta; f_equal; f_equal; lia.
Qed.
Lemma numa_most_is_spec r c : numa_mostRequestedScore r c = most_spec r c.
Proof.
  unfold numa_mostRequestedScore, most_spec.
  destruct (Z.eqb_spec c 0); [reflexivity|].
  destruct (Z.ltb_spec c r); cbv zeta; f_equal; f_equal; lia.
Qed.

Lemma most_range r c : 0 <= r -> 0 <= c -> 0 <= most_spec r c <= MaxNodeScore.
Proof.
  intros Hr Hc. unfold most_spec.
  destruct (Z.eqb_spec c 0) as [->|Hc0]; [unfold MaxNodeScore; lia|].
  pose proof max_node_score_pos as Hm.
  rewrite Z.quot_div_nonneg by nia.
  split; [apply Z.div_pos; nia|].
  apply Z.div_le_upper_bound; nia.
Qed.

Lemma most_monotone r r' c : 0 <= r -> r <= r' -> 0 <= c -> most_spec r c <= most_spec r' c.
Proof.
  intros Hr Hrr Hc. unfold most_spec.
  destruct (Z.eqb_spec c 0) as [->|Hc0]; [lia|].
  pose proof max_node_score_pos.
  rewrite !Z.quot_div_nonneg by nia. apply Z.div_le_mono; nia.
Qed.

(* the two families are complementary up to the one unit the two truncations can lose *)
Lemma least_most_complement r c :
  0 <= r <= c -> 0 < c ->
  MaxNodeScore - 1 <= least_spec r c + most_spec r c <= MaxNodeScore.
Proof.
  intros Hr Hc. unfold least_spec, most_spec.
  destruct (Z.eqb_spec c 0); [lia|]. destruct (Z.ltb_spec c r); [lia|].
  rewrite Z.min_l by lia. pose proof max_node_score_pos as Hm.
  rewrite !Z.quot_div_nonneg by nia.
  pose proof (Z.div_mod ((c - r) * MaxNodeScore) c ltac:(lia)) as E1.
  pose proof (Z.mod_pos_bound ((c - r) * MaxNodeScore) c Hc) as B1.
  pose proof (Z.div_mod (r * MaxNodeScore) c ltac:(lia)) as E2.
  pose proof (Z.mod_pos_bound (r * MaxNodeScore) c Hc) as B2.
  nia.
Qed.

(* ---- small helpers *)
Lemma MinInt64_is_min i j : MinInt64 i j = Z.min i j.
Proof. unfold MinInt64. destruct (Z.ltb_spec i j); lia. Qed.
Lemma MaxInt64_is_max i j : MaxInt64 i j = Z.max i j.
Proof. unfold MaxInt64. destruct (Z.ltb_spec j i); lia. Qed.

Lemma limiter_burst_pos b : 0 <= b -> 1 <= GetLimiterBurst b.
Proof. intros H. unfold GetLimiterBurst. destruct (Z.eqb_spec b 0); lia. Qed.
Lemma limiter_burst_id b : b <> 0 -> GetLimiterBurst b = b.
Proof. intros H. unfold GetLimiterBurst. destruct (Z.eqb_spec b 0); lia. Qed.

(* cpuevict: a window's average is trusted iff the samples cover at least a third of it *)
Lemma avg_valid_iff w i n :
  cpuevict_isAvgQueryResultValid w i n = true <-> Z.quot w 3 <= n * i.
Proof.
  unfold cpuevict_isAvgQueryResultValid. destruct (Z.ltb_spec (n * i) (Z.quot w 3)); split; intros; try lia; discriminate.
Qed.
Lemma avg_valid_monotone w i n n' :
  0 <= i -> n <= n' -> cpuevict_isAvgQueryResultValid w i n = true -> cpuevict_isAvgQueryResultValid w i n' = true.
Proof. rewrite !avg_valid_iff. intros. nia. Qed.
