(* Interleavings of threads, where a thread is a list of atomic actions.
   [interleaving ts l] : l is a merge of the threads ts that keeps each thread's own order.
   Main lemmas:
     interleaving_inv      an invariant preserved by every atomic action holds after every
                           interleaving (and after every prefix of one);
     interleaving_perm     an interleaving is a permutation of the concatenated threads;
     interleaving_length   its length is the total number of actions;
     interleaving_concat   running the threads one after the other is an interleaving. *)
From Coq Require Import List Permutation Lia.
Import ListNotations.

Section Interleave.
  Context {A : Type}.

  (* pick the head action of one non-empty thread *)
  Inductive interleaving : list (list A) -> list A -> Prop :=
  | il_done : forall ts, Forall (fun t => t = []) ts -> interleaving ts []
  | il_step : forall pre a t post l,
      interleaving (pre ++ t :: post) l ->
      interleaving (pre ++ (a :: t) :: post) (a :: l).

  Lemma interleaving_in ts l : interleaving ts l ->
    forall a, In a l -> exists t, In t ts /\ In a t.
  Proof.
    induction 1 as [ts Hnil | pre a t post l Hil IH]; intros x Hx.
    - destruct Hx.
    - destruct Hx as [->|Hx].
      + exists (x :: t). split; [apply in_or_app; right; left; reflexivity | left; reflexivity].
      + destruct (IH x Hx) as [t' [Ht' Hxt']].
        apply in_app_or in Ht'. destruct Ht' as [Ht'|[<-|Ht']].
        * exists t'. split; [apply in_or_app; left; exact Ht' | exact Hxt'].
        * exists (a :: t). split; [apply in_or_app; right; left; reflexivity | right; exact Hxt'].
        * exists t'. split; [apply in_or_app; right; right; exact Ht' | exact Hxt'].
  Qed.

  Lemma concat_all_nil (ts : list (list A)) : Forall (fun t => t = []) ts -> concat ts = [].
  Proof. induction 1 as [|t ts Ht _ IH]; simpl; [reflexivity | subst; exact IH]. Qed.

  Lemma interleaving_perm ts l : interleaving ts l -> Permutation (concat ts) l.
  Proof.
    induction 1 as [ts Hnil | pre a t post l Hil IH].
    - rewrite concat_all_nil by assumption. constructor.
    - rewrite concat_app in *. simpl in *.
      eapply Permutation_trans; [apply Permutation_sym, Permutation_middle|].
      constructor. exact IH.
  Qed.

  Lemma interleaving_length ts l : interleaving ts l -> length l = length (concat ts).
  Proof. intros H. symmetry. apply Permutation_length, interleaving_perm, H. Qed.

  Lemma interleaving_one (t : list A) : interleaving [t] t.
  Proof.
    induction t as [|a t IH].
    - constructor. repeat constructor.
    - apply (il_step [] a t []). exact IH.
  Qed.

  Lemma interleaving_cons_nil ts l : interleaving ts l -> interleaving ([] :: ts) l.
  Proof.
    induction 1 as [ts Hnil | pre a t post l Hil IH].
    - constructor. constructor; [reflexivity | assumption].
    - apply (il_step ([] :: pre) a t post). exact IH.
  Qed.

  Lemma interleaving_concat ts : interleaving ts (concat ts).
  Proof.
    induction ts as [|t ts IH]; simpl.
    - constructor. constructor.
    - induction t as [|a t IHt]; simpl.
      + apply interleaving_cons_nil, IH.
      + apply (il_step [] a t ts). exact IHt.
  Qed.

  (* ---- running actions on a state ---- *)
  Context {S : Type}.
  Variable step : S -> A -> S.

  Definition exec (s : S) (l : list A) : S := fold_left step l s.

  Lemma exec_app s l1 l2 : exec s (l1 ++ l2) = exec (exec s l1) l2.
  Proof. apply fold_left_app. Qed.

  (* an invariant preserved by every action of every thread holds after every interleaving *)
  Theorem interleaving_inv (Inv : S -> Prop) ts l :
    interleaving ts l ->
    (forall t a s, In t ts -> In a t -> Inv s -> Inv (step s a)) ->
    forall s, Inv s -> Inv (exec s l).
  Proof.
    intros Hil Hpres.
    assert (Hall : forall a, In a l -> forall s, Inv s -> Inv (step s a)).
    { intros a Ha s Hs. destruct (interleaving_in _ _ Hil a Ha) as [t [Ht Hat]]. eauto. }
    clear Hil Hpres. induction l as [|a l IH]; intros s Hs; simpl.
    - exact Hs.
    - apply IH.
      + intros b Hb. apply Hall. right. exact Hb.
      + apply Hall; [left; reflexivity | exact Hs].
  Qed.

  (* ... and after every prefix of one (every intermediate state) *)
  Theorem interleaving_inv_prefix (Inv : S -> Prop) ts l :
    interleaving ts l ->
    (forall t a s, In t ts -> In a t -> Inv s -> Inv (step s a)) ->
    forall s, Inv s -> forall p q, l = p ++ q -> Inv (exec s p).
  Proof.
    intros Hil Hpres s Hs p q ->.
    assert (Hall : forall a, In a (p ++ q) -> forall s, Inv s -> Inv (step s a)).
    { intros a Ha s' Hs'. destruct (interleaving_in _ _ Hil a Ha) as [t [Ht Hat]]. eauto. }
    clear Hil Hpres. revert s Hs. induction p as [|a p IH]; intros s Hs; simpl.
    - exact Hs.
    - apply IH.
      + intros b Hb. apply Hall. right. exact Hb.
      + apply Hall; [left; reflexivity | exact Hs].
  Qed.
End Interleave.
