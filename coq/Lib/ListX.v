(* Shared list lemmas: integer sums over lists, their invariance under permutation,
   filters/partitions, NoDup through map/filter.  No property-specific content. *)
From Coq Require Import List ZArith Bool Lia Permutation.
Import ListNotations.
Open Scope Z_scope.

Definition sumZ (l : list Z) : Z := fold_right Z.add 0 l.

Lemma sumZ_nil : sumZ [] = 0.
Proof. reflexivity. Qed.

Lemma sumZ_cons x l : sumZ (x :: l) = x + sumZ l.
Proof. reflexivity. Qed.

Lemma sumZ_app a b : sumZ (a ++ b) = sumZ a + sumZ b.
Proof.
  induction a as [|x a IH]; [reflexivity|].
  rewrite <- app_comm_cons, !sumZ_cons, IH. lia.
Qed.

Lemma sumZ_perm a b : Permutation a b -> sumZ a = sumZ b.
Proof.
  induction 1 as [|x a b _ IH|x y a|a b c _ IH1 _ IH2]; rewrite ?sumZ_cons; lia.
Qed.

Lemma sumZ_map_perm {A} (f : A -> Z) a b :
  Permutation a b -> sumZ (map f a) = sumZ (map f b).
Proof. intro H. apply sumZ_perm, Permutation_map, H. Qed.

Lemma sumZ_map_ext {A} (f g : A -> Z) l :
  (forall x, In x l -> f x = g x) -> sumZ (map f l) = sumZ (map g l).
Proof.
  induction l as [|x l IH]; intro H; [reflexivity|].
  cbn [map]. rewrite !sumZ_cons, IH, (H x) by (intros; try apply H; cbn; auto). reflexivity.
Qed.

Lemma sumZ_map_add {A} (f g : A -> Z) l :
  sumZ (map (fun x => f x + g x) l) = sumZ (map f l) + sumZ (map g l).
Proof.
  induction l as [|x l IH]; [reflexivity|].
  cbn [map]. rewrite !sumZ_cons, IH. lia.
Qed.

Lemma sumZ_map_zero {A} (f : A -> Z) l :
  (forall x, In x l -> f x = 0) -> sumZ (map f l) = 0.
Proof.
  induction l as [|x l IH]; intro H; [reflexivity|].
  cbn [map]. rewrite sumZ_cons, IH, (H x) by (intros; try apply H; cbn; auto). reflexivity.
Qed.

Lemma sumZ_map_nonneg {A} (f : A -> Z) l :
  (forall x, In x l -> 0 <= f x) -> 0 <= sumZ (map f l).
Proof.
  induction l as [|x l IH]; intro H; [cbn; lia|].
  cbn [map]. rewrite sumZ_cons.
  assert (0 <= f x) by (apply H; cbn; auto).
  assert (0 <= sumZ (map f l)) by (apply IH; intros; apply H; cbn; auto). lia.
Qed.

Lemma sumZ_map_le {A} (f g : A -> Z) l :
  (forall x, In x l -> f x <= g x) -> sumZ (map f l) <= sumZ (map g l).
Proof.
  induction l as [|x l IH]; intro H; [cbn; lia|].
  cbn [map]. rewrite !sumZ_cons.
  assert (f x <= g x) by (apply H; cbn; auto).
  assert (sumZ (map f l) <= sumZ (map g l)) by (apply IH; intros; apply H; cbn; auto). lia.
Qed.

Lemma sumZ_map_le_const {A} (f : A -> Z) c l :
  (forall x, In x l -> f x <= c) -> sumZ (map f l) <= c * Z.of_nat (length l).
Proof.
  induction l as [|x l IH]; intro H; [cbn; lia|].
  cbn [map length]. rewrite sumZ_cons.
  assert (f x <= c) by (apply H; cbn; auto).
  assert (sumZ (map f l) <= c * Z.of_nat (length l)) by (apply IH; intros; apply H; cbn; auto).
  lia.
Qed.

Lemma sumZ_map_const {A} c (l : list A) :
  sumZ (map (fun _ => c) l) = c * Z.of_nat (length l).
Proof.
  induction l as [|x l IH]; [cbn; lia|].
  cbn [map length]. rewrite sumZ_cons, IH. lia.
Qed.

(* a sum splits over a boolean partition *)
Lemma sumZ_map_filter_split {A} (p : A -> bool) (f : A -> Z) l :
  sumZ (map f l)
  = sumZ (map f (filter p l)) + sumZ (map f (filter (fun x => negb (p x)) l)).
Proof.
  induction l as [|x l IH]; [reflexivity|].
  cbn [map filter]. destruct (p x); cbn [negb map]; rewrite !sumZ_cons, IH; lia.
Qed.

Lemma sumZ_map_filter_zero {A} (p : A -> bool) (f : A -> Z) l :
  (forall x, In x l -> p x = false -> f x = 0) ->
  sumZ (map f (filter p l)) = sumZ (map f l).
Proof.
  intro H. rewrite (sumZ_map_filter_split p f l).
  rewrite (sumZ_map_zero f (filter (fun x => negb (p x)) l)); [lia|].
  intros x Hx. apply filter_In in Hx. destruct Hx as [Hin Hp].
  apply H; [exact Hin|]. destruct (p x); [discriminate|reflexivity].
Qed.

(* ---------- filter and permutations ---------- *)
Lemma filter_perm {A} (p : A -> bool) a b :
  Permutation a b -> Permutation (filter p a) (filter p b).
Proof.
  induction 1 as [|x a b _ IH|x y a|a b c _ IH1 _ IH2].
  - constructor.
  - cbn [filter]. destruct (p x); [constructor|]; exact IH.
  - cbn [filter]. destruct (p x), (p y); try apply Permutation_refl. constructor.
  - eapply Permutation_trans; eassumption.
Qed.

Lemma filter_partition_perm {A} (p : A -> bool) l :
  Permutation l (filter p l ++ filter (fun x => negb (p x)) l).
Proof.
  induction l as [|x l IH]; [constructor|].
  cbn [filter]. destruct (p x); cbn [negb].
  - rewrite <- app_comm_cons. constructor. exact IH.
  - apply Permutation_cons_app. exact IH.
Qed.

Lemma filter_ext_in {A} (p q : A -> bool) l :
  (forall x, In x l -> p x = q x) -> filter p l = filter q l.
Proof.
  induction l as [|x l IH]; intro H; [reflexivity|].
  cbn [filter]. rewrite (H x), IH by (intros; try apply H; cbn; auto). reflexivity.
Qed.

Lemma filter_length_le {A} (p : A -> bool) l : (length (filter p l) <= length l)%nat.
Proof.
  induction l as [|x l IH]; [cbn; lia|].
  cbn [filter]. destruct (p x); cbn [length]; lia.
Qed.

Lemma filter_length_lt {A} (p : A -> bool) l x :
  In x l -> p x = false -> (length (filter p l) < length l)%nat.
Proof.
  induction l as [|y l IH]; intros Hin Hp; [destruct Hin|].
  cbn [filter]. destruct Hin as [->|Hin].
  - rewrite Hp. pose proof (filter_length_le p l). cbn [length]. lia.
  - specialize (IH Hin Hp). destruct (p y); cbn [length]; lia.
Qed.

Lemma filter_map_comm {A B} (f : A -> B) (p : B -> bool) l :
  filter p (map f l) = map f (filter (fun x => p (f x)) l).
Proof.
  induction l as [|x l IH]; [reflexivity|].
  cbn [map filter]. destruct (p (f x)); cbn [map]; rewrite IH; reflexivity.
Qed.

(* ---------- NoDup through map / filter ---------- *)
Lemma NoDup_map_filter {A B} (f : A -> B) (p : A -> bool) l :
  NoDup (map f l) -> NoDup (map f (filter p l)).
Proof.
  induction l as [|x l IH]; intro H; [constructor|].
  cbn [map] in H. inversion H as [|? ? Hnin Hnd]; subst.
  cbn [filter]. destruct (p x); [|apply IH, Hnd].
  cbn [map]. constructor; [|apply IH, Hnd].
  intro Hin. apply Hnin. apply in_map_iff in Hin. destruct Hin as [y [Hy Hin]].
  apply filter_In in Hin. apply in_map_iff. exists y. tauto.
Qed.

Lemma NoDup_map_inj_in {A B} (f : A -> B) l a b :
  NoDup (map f l) -> In a l -> In b l -> f a = f b -> a = b.
Proof.
  induction l as [|x l IH]; intros Hnd Ha Hb Hf; [destruct Ha|].
  cbn [map] in Hnd. inversion Hnd as [|? ? Hnin Hnd']; subst.
  destruct Ha as [->|Ha], Hb as [->|Hb].
  - reflexivity.
  - exfalso. apply Hnin. rewrite Hf. apply in_map, Hb.
  - exfalso. apply Hnin. rewrite <- Hf. apply in_map, Ha.
  - apply IH; assumption.
Qed.

Lemma NoDup_map_perm {A B} (f : A -> B) a b :
  Permutation a b -> NoDup (map f a) -> NoDup (map f b).
Proof. intros HP. apply Permutation_NoDup, Permutation_map, HP. Qed.

Lemma NoDup_map_app_l {A B} (f : A -> B) a b : NoDup (map f (a ++ b)) -> NoDup (map f a).
Proof.
  rewrite map_app. induction (map f a) as [|x l IH]; intro H; [constructor|].
  rewrite <- app_comm_cons in H. inversion H as [|? ? Hnin Hnd]; subst.
  constructor; [|apply IH, Hnd]. intro Hin. apply Hnin, in_or_app. auto.
Qed.

Lemma NoDup_map_app_r {A B} (f : A -> B) a b : NoDup (map f (a ++ b)) -> NoDup (map f b).
Proof.
  intro H. apply (NoDup_map_app_l f b a).
  eapply NoDup_map_perm; [|exact H]. apply Permutation_app_comm.
Qed.

(* ---------- firstn / skipn ---------- *)
Lemma firstn_length_le' {A} (l : list A) n : (n <= length l)%nat -> length (firstn n l) = n.
Proof. intro H. rewrite firstn_length. lia. Qed.
