(* More about [Interleave.interleaving] (threads = lists of atomic actions):
     interleaving_filter    the P-actions of an interleaving are an interleaving of the threads' P-actions
     interleaving_single    when at most one thread is non-empty, the interleaving is that thread
     interleaving_filter_single
                            when at most one thread has P-actions, their relative order in every
                            interleaving is the one of that thread
     interleaving_expand    replacing every action by a block of finer actions: a coarse interleaving,
                            expanded, is an interleaving of the expanded threads
     interleaving_perm2     two interleavings of the same threads are permutations of each other *)
From Coq Require Import List Permutation Lia Bool.
From Verif Require Import Lib.Interleave.
Import ListNotations.

Section InterleaveX.
  Context {A : Type}.

  Lemma interleaving_filter (P : A -> bool) ts l :
    interleaving ts l -> interleaving (map (filter P) ts) (filter P l).
  Proof.
    induction 1 as [ts Hnil | pre a t post l Hil IH].
    - simpl. constructor. rewrite Forall_map. eapply Forall_impl; [|exact Hnil].
      intros t Ht. simpl in Ht. rewrite Ht. reflexivity.
    - rewrite map_app in *. simpl in *. destruct (P a).
      + apply il_step. exact IH.
      + exact IH.
  Qed.

  Definition nonemptyb (t : list A) : bool := match t with [] => false | _ => true end.
  Definition busy (ts : list (list A)) : nat := length (filter nonemptyb ts).

  Lemma busy_app a b : busy (a ++ b) = busy a + busy b.
  Proof. unfold busy. rewrite filter_app, app_length. reflexivity. Qed.

  Lemma busy_zero ts : busy ts = 0 -> Forall (fun t => t = []) ts.
  Proof.
    unfold busy. induction ts as [|t ts IH]; simpl; intros H; [constructor|].
    destruct t; simpl in H; [constructor; [reflexivity | apply IH; exact H] | discriminate].
  Qed.

  Lemma concat_nil_app (pre post : list (list A)) t :
    Forall (fun t => t = []) pre -> Forall (fun t => t = []) post -> concat (pre ++ t :: post) = t.
  Proof.
    intros H1 H2. rewrite concat_app. simpl.
    rewrite (concat_all_nil pre H1), (concat_all_nil post H2), app_nil_r. reflexivity.
  Qed.

  Lemma busy_cons t ts : busy (t :: ts) = (if nonemptyb t then 1 else 0) + busy ts.
  Proof. unfold busy. simpl. destruct (nonemptyb t); reflexivity. Qed.

  Lemma busy_nil ts : Forall (fun t => t = []) ts -> busy ts = 0.
  Proof.
    induction 1 as [|t ts Ht _ IH]; [reflexivity|]. rewrite busy_cons, IH. simpl in Ht. rewrite Ht. reflexivity.
  Qed.

  Lemma interleaving_single ts l : interleaving ts l -> busy ts <= 1 -> l = concat ts.
  Proof.
    induction 1 as [ts Hnil | pre a t post l Hil IH]; intros Hb.
    - symmetry. apply concat_all_nil. exact Hnil.
    - rewrite busy_app, busy_cons in Hb. simpl in Hb.
      assert (Hpre : busy pre = 0) by lia. assert (Hpost : busy post = 0) by lia.
      apply busy_zero in Hpre, Hpost.
      rewrite concat_nil_app by assumption.
      rewrite IH.
      + rewrite concat_nil_app by assumption. reflexivity.
      + rewrite busy_app, busy_cons, (busy_nil pre Hpre), (busy_nil post Hpost).
        destruct (nonemptyb t); simpl; lia.
  Qed.

  Lemma concat_map_filter (P : A -> bool) ts : concat (map (filter P) ts) = filter P (concat ts).
  Proof.
    induction ts as [|t ts IH]; simpl; [reflexivity|]. rewrite IH, filter_app. reflexivity.
  Qed.

  (* the relative order of the P-actions is fixed when only one thread has any *)
  Theorem interleaving_filter_single (P : A -> bool) ts l :
    interleaving ts l -> busy (map (filter P) ts) <= 1 -> filter P l = filter P (concat ts).
  Proof.
    intros Hil Hb. rewrite <- concat_map_filter.
    apply interleaving_single; [apply interleaving_filter; exact Hil | exact Hb].
  Qed.

  Lemma interleaving_perm2 ts (l1 l2 : list A) : interleaving ts l1 -> interleaving ts l2 -> Permutation l1 l2.
  Proof.
    intros H1 H2. eapply Permutation_trans; [apply Permutation_sym, interleaving_perm; exact H1|].
    apply interleaving_perm. exact H2.
  Qed.

  (* ---- refinement of actions into blocks ---- *)
  Context {B : Type}.
  Variable expand : A -> list B.

  Lemma interleaving_block (s : list B) pre t post l :
    interleaving (pre ++ t :: post) l -> interleaving (pre ++ (s ++ t) :: post) (s ++ l).
  Proof.
    induction s as [|b s IH]; intros H; simpl; [exact H|].
    apply il_step. apply IH. exact H.
  Qed.

  Theorem interleaving_expand ts l :
    interleaving ts l -> interleaving (map (flat_map expand) ts) (flat_map expand l).
  Proof.
    induction 1 as [ts Hnil | pre a t post l Hil IH].
    - simpl. constructor. rewrite Forall_map. eapply Forall_impl; [|exact Hnil].
      intros t Ht. simpl in Ht. rewrite Ht. reflexivity.
    - rewrite map_app in *. simpl in *. apply interleaving_block. exact IH.
  Qed.
End InterleaveX.
