(* Resource vectors over an ARBITRARY fixed list of dimensions (cpu, memory, extended resources, ...):
   [vec] is the type of D-tuples of Z for a dimension count D fixed once and for all ([Dim], a
   type class so that it is threaded implicitly), with the pointwise operations the elastic-quota
   accounting uses (quotav1.Add / Subtract / Max, per-dimension clamp at 0, min with the quota's
   max, IsZero). A missing key of a Kubernetes ResourceList reads as 0. Same interface as Lib/Vec2
   (which is the instance D = 2 up to isomorphism); [vlia] decides goals that are linear arithmetic
   per component, by extensionality over the component index. *)
From Coq Require Import List ZArith Bool Lia.
Import ListNotations.
Open Scope Z_scope.

Class Dim := dim : nat.

(* ---------- tuples of a given length ---------- *)

Fixpoint nvec (n : nat) : Type := match n with O => unit | S k => (Z * nvec k)%type end.

Fixpoint nconst (n : nat) (z : Z) : nvec n :=
  match n with O => tt | S k => (z, nconst k z) end.
Fixpoint nmap (n : nat) (f : Z -> Z) : nvec n -> nvec n :=
  match n with O => fun _ => tt | S k => fun a => (f (fst a), nmap k f (snd a)) end.
Fixpoint nmap2 (n : nat) (f : Z -> Z -> Z) : nvec n -> nvec n -> nvec n :=
  match n with O => fun _ _ => tt | S k => fun a b => (f (fst a) (fst b), nmap2 k f (snd a) (snd b)) end.
Fixpoint nall2 (n : nat) (f : Z -> Z -> bool) : nvec n -> nvec n -> bool :=
  match n with O => fun _ _ => true | S k => fun a b => f (fst a) (fst b) && nall2 k f (snd a) (snd b) end.
(* component i (0 beyond the last dimension) *)
Fixpoint nget (n : nat) : nvec n -> nat -> Z :=
  match n with
  | O => fun _ _ => 0
  | S k => fun a i => match i with O => fst a | S j => nget k (snd a) j end
  end.
Fixpoint nof_list (n : nat) (l : list Z) : nvec n :=
  match n with O => tt | S k => (hd 0 l, nof_list k (tl l)) end.
Fixpoint nto_list (n : nat) : nvec n -> list Z :=
  match n with O => fun _ => [] | S k => fun a => fst a :: nto_list k (snd a) end.

Lemma next n : forall a b : nvec n, (forall i, nget n a i = nget n b i) -> a = b.
Proof.
  induction n as [|k IH]; intros a b H.
  - destruct a, b. reflexivity.
  - destruct a as [x a], b as [y b]. f_equal.
    + exact (H O).
    + apply IH. intros i. exact (H (S i)).
Qed.
Lemma nget_const n z i : nget n (nconst n z) i = if Nat.ltb i n then z else 0.
Proof.
  revert i. induction n as [|k IH]; intros i; [reflexivity|]. destruct i as [|j]; [reflexivity|].
  cbn [nget nconst snd]. rewrite IH. reflexivity.
Qed.
Lemma nget_map n f a i : f 0 = 0 -> nget n (nmap n f a) i = f (nget n a i).
Proof.
  intros Hf. revert a i. induction n as [|k IH]; intros a i; [symmetry; exact Hf|].
  destruct i as [|j]; [reflexivity|]. cbn [nget nmap snd]. apply IH.
Qed.
Lemma nget_map2 n f a b i : f 0 0 = 0 -> nget n (nmap2 n f a b) i = f (nget n a i) (nget n b i).
Proof.
  intros Hf. revert a b i. induction n as [|k IH]; intros a b i; [symmetry; exact Hf|].
  destruct i as [|j]; [reflexivity|]. cbn [nget nmap2 snd]. apply IH.
Qed.
Lemma nall2_spec n f a b : f 0 0 = true ->
  nall2 n f a b = true <-> forall i, f (nget n a i) (nget n b i) = true.
Proof.
  intros Hf. revert a b. induction n as [|k IH]; intros a b.
  - split; [intros _ i; exact Hf | reflexivity].
  - cbn [nall2]. rewrite andb_true_iff, IH. split.
    + intros [H0 H] [|j]; [exact H0 | apply H].
    + intros H. split; [exact (H O) | intros j; exact (H (S j))].
Qed.
Lemma nto_list_length n a : length (nto_list n a) = n.
Proof. revert a. induction n as [|k IH]; intros a; [reflexivity|]. cbn [nto_list length]. rewrite IH. reflexivity. Qed.
Lemma nof_to_list n a : nof_list n (nto_list n a) = a.
Proof.
  revert a. induction n as [|k IH]; intros a; [destruct a; reflexivity|].
  destruct a as [x a]. cbn [nto_list nof_list hd tl fst snd]. rewrite IH. reflexivity.
Qed.

(* ---------- vectors of the fixed dimension ---------- *)

Section Vec.
  Context {D : Dim}.

  Definition vec : Type := nvec dim.

  Definition vget (a : vec) (i : nat) : Z := nget dim a i.
  Definition vzero : vec := nconst dim 0.
  Definition vadd (a b : vec) : vec := nmap2 dim Z.add a b.
  Definition vsub (a b : vec) : vec := nmap2 dim Z.sub a b.
  Definition vmax (a b : vec) : vec := nmap2 dim Z.max a b.
  Definition vmin (a b : vec) : vec := nmap2 dim Z.min a b.
  Definition vneg (a : vec) : vec := nmap dim Z.opp a.
  (* quotav1.IsNegative + "set those to 0" *)
  Definition vclamp (a : vec) : vec := nmap dim (Z.max 0) a.
  Definition veqb (a b : vec) : bool := nall2 dim Z.eqb a b.
  Definition viszero (a : vec) : bool := veqb a vzero.
  Definition vleb (a b : vec) : bool := nall2 dim Z.leb a b.
  Definition vle (a b : vec) : Prop := forall i, vget a i <= vget b i.
  Definition vnonneg (a : vec) : Prop := vle vzero a.
  Definition vnonnegb (a : vec) : bool := vleb vzero a.
  Definition vsum (l : list vec) : vec := fold_right vadd vzero l.
  (* wire format: the first [dim] integers of a list (missing ones read as 0), and back *)
  Definition vof_list (l : list Z) : vec := nof_list dim l.
  Definition vto_list (a : vec) : list Z := nto_list dim a.

  Lemma vext a b : (forall i, vget a i = vget b i) -> a = b.
  Proof. apply next. Qed.
  Lemma vget_zero i : vget vzero i = 0.
  Proof. unfold vget, vzero. rewrite nget_const. destruct (Nat.ltb i dim); reflexivity. Qed.
  Lemma vget_add a b i : vget (vadd a b) i = vget a i + vget b i.
  Proof. apply nget_map2. reflexivity. Qed.
  Lemma vget_sub a b i : vget (vsub a b) i = vget a i - vget b i.
  Proof. apply nget_map2. reflexivity. Qed.
  Lemma vget_max a b i : vget (vmax a b) i = Z.max (vget a i) (vget b i).
  Proof. apply nget_map2. reflexivity. Qed.
  Lemma vget_min a b i : vget (vmin a b) i = Z.min (vget a i) (vget b i).
  Proof. apply nget_map2. reflexivity. Qed.
  Lemma vget_neg a i : vget (vneg a) i = - vget a i.
  Proof. apply nget_map. reflexivity. Qed.
  Lemma vget_clamp a i : vget (vclamp a) i = Z.max 0 (vget a i).
  Proof. apply nget_map. reflexivity. Qed.

  Lemma veqb_eq a b : veqb a b = true <-> a = b.
  Proof.
    unfold veqb. rewrite nall2_spec by reflexivity. split.
    - intros H. apply vext. intros i. apply Z.eqb_eq. apply H.
    - intros -> i. apply Z.eqb_refl.
  Qed.
  Lemma veqb_refl a : veqb a a = true.
  Proof. apply veqb_eq; reflexivity. Qed.
  Lemma viszero_eq a : viszero a = true <-> a = vzero.
  Proof. apply veqb_eq. Qed.
  Lemma vleb_iff a b : vleb a b = true <-> vle a b.
  Proof.
    unfold vleb, vle. rewrite nall2_spec by reflexivity. split; intros H i; [apply Z.leb_le | apply Z.leb_le]; apply H.
  Qed.
  Lemma vnonnegb_iff a : vnonnegb a = true <-> vnonneg a.
  Proof. apply vleb_iff. Qed.
  Lemma vnonneg_get a : vnonneg a <-> forall i, 0 <= vget a i.
  Proof. unfold vnonneg, vle. split; intros H i; specialize (H i); rewrite vget_zero in *; exact H. Qed.

  Lemma vof_to_list a : vof_list (vto_list a) = a.
  Proof. apply nof_to_list. Qed.
  Lemma vto_list_length a : length (vto_list a) = dim.
  Proof. apply nto_list_length. Qed.
End Vec.

#[global] Hint Rewrite @vget_zero @vget_add @vget_sub @vget_max @vget_min @vget_neg @vget_clamp : vget.

(* ---------- the decision tactic ---------- *)

Ltac vprep :=
  repeat match goal with
         | H : _ /\ _ |- _ => destruct H
         | H : andb _ _ = true |- _ => apply andb_prop in H; destruct H
         | H : veqb _ _ = true |- _ => apply veqb_eq in H
         | H : viszero _ = true |- _ => apply viszero_eq in H
         | H : vnonnegb _ = true |- _ => apply vnonnegb_iff in H
         | H : vleb _ _ = true |- _ => apply vleb_iff in H
         end.

(* specialise every vector fact of the context to component [i] *)
Ltac vpoint i :=
  repeat match goal with
         | H : vnonneg ?a |- _ => let H' := fresh H in pose proof (proj1 (vnonneg_get a) H i) as H'; clear H
         | H : vle _ _ |- _ => specialize (H i)
         | H : ?a = ?b |- _ =>
             match type of a with
             | vec => apply (f_equal (fun v => vget v i)) in H; cbv beta in H
             end
         end;
  autorewrite with vget in *.

Ltac vcomp :=
  let i := fresh "i" in
  first [ apply vext; intro i
        | apply (proj2 (vnonneg_get _)); intro i
        | match goal with |- vle _ _ => intro i end ];
  vpoint i; lia.

Ltac vlia :=
  intros; vprep;
  repeat match goal with
         | |- _ /\ _ => split
         | |- andb _ _ = true => apply andb_true_intro; split
         | |- veqb _ _ = true => apply veqb_eq
         | |- viszero _ = true => apply viszero_eq
         | |- vnonnegb _ = true => apply vnonnegb_iff
         | |- vleb _ _ = true => apply vleb_iff
         end;
  vcomp.

(* ---------- the lemma interface of Lib/Vec2 ---------- *)

Section Lemmas.
  Context {D : Dim}.
  Implicit Types a b c : vec.

  Lemma vadd_comm a b : vadd a b = vadd b a. Proof. vlia. Qed.
  Lemma vadd_assoc a b c : vadd a (vadd b c) = vadd (vadd a b) c. Proof. vlia. Qed.
  Lemma vadd_0_l a : vadd vzero a = a. Proof. vlia. Qed.
  Lemma vadd_0_r a : vadd a vzero = a. Proof. vlia. Qed.
  Lemma vsub_0_r a : vsub a vzero = a. Proof. vlia. Qed.
  Lemma vsub_diag a : vsub a a = vzero. Proof. vlia. Qed.
  Lemma vadd_sub a b : vadd a (vsub b a) = b. Proof. vlia. Qed.
  Lemma vsub_add a b : vsub (vadd a b) b = a. Proof. vlia. Qed.
  Lemma vclamp_nonneg a : vnonneg a -> vclamp a = a. Proof. vlia. Qed.
  Lemma vclamp_is_nonneg a : vnonneg (vclamp a). Proof. vlia. Qed.
  Lemma vnonneg_zero : vnonneg vzero. Proof. vlia. Qed.
  Lemma vnonneg_add a b : vnonneg a -> vnonneg b -> vnonneg (vadd a b). Proof. vlia. Qed.
  Lemma vnonneg_max_l a b : vnonneg a -> vnonneg (vmax a b). Proof. vlia. Qed.
  Lemma vnonneg_min a b : vnonneg a -> vnonneg b -> vnonneg (vmin a b). Proof. vlia. Qed.

  Lemma viszero_zero : viszero vzero = true.
  Proof. apply viszero_eq. reflexivity. Qed.

  Lemma vsum_app (l1 l2 : list vec) : vsum (l1 ++ l2) = vadd (vsum l1) (vsum l2).
  Proof.
    induction l1 as [|a l1 IH]; cbn [vsum fold_right app].
    - symmetry; apply vadd_0_l.
    - fold (vsum (l1 ++ l2)); fold (vsum l1). rewrite IH. apply vadd_assoc.
  Qed.
  Lemma vsum_cons a (l : list vec) : vsum (a :: l) = vadd a (vsum l).
  Proof. reflexivity. Qed.
  Lemma vsum_nonneg (l : list vec) : Forall vnonneg l -> vnonneg (vsum l).
  Proof.
    induction 1 as [|a l Ha _ IH]; [apply vnonneg_zero|].
    rewrite vsum_cons. apply vnonneg_add; assumption.
  Qed.
  Lemma vsum_map_ext {A} (f g : A -> vec) l :
    (forall x, In x l -> f x = g x) -> vsum (map f l) = vsum (map g l).
  Proof.
    induction l as [|a l IH]; intros H; [reflexivity|].
    cbn [map]. rewrite !vsum_cons, (H a (or_introl eq_refl)), IH; [reflexivity|].
    intros x Hx; apply H; right; exact Hx.
  Qed.
  Lemma vsum_map_zero {A} (f : A -> vec) l :
    (forall x, In x l -> f x = vzero) -> vsum (map f l) = vzero.
  Proof.
    induction l as [|a l IH]; intros H; [reflexivity|].
    cbn [map]. rewrite vsum_cons, (H a (or_introl eq_refl)), IH; [apply vadd_0_l|].
    intros x Hx; apply H; right; exact Hx.
  Qed.
End Lemmas.
