(* IEEE-754 binary64 arithmetic as exact integer arithmetic (round to nearest, ties to even).
   A float is a dyadic  m * 2^e  with |m| < 2^53, not necessarily normalised; every operation
   computes the exact result and rounds it to 53 significant bits.  Subnormals, overflow, NaN and
   infinities are out of range (the callers keep magnitudes within 2^-900 .. 2^900 and never
   divide by zero).  Same construction as the soft float of coq/C18/Model.v, as a shared library
   with the comparison / sign facts the users need. *)
From Coq Require Import ZArith Bool Lia.
Open Scope Z_scope.

Notation fl := (Z * Z)%type.

(* round the dyadic m * 2^e to 53 significant bits *)
Definition norm53 (m e : Z) : fl :=
  if m =? 0 then (0, 0)
  else
    let a := Z.abs m in
    let k := Z.log2 a - 52 in
    if k <=? 0 then (m, e)
    else
      let q := Z.shiftr a k in
      let r := a - Z.shiftl q k in
      let half := Z.shiftl 1 (k - 1) in
      let up := (half <? r) || ((half =? r) && Z.odd q) in
      let q' := if up then q + 1 else q in
      ((if m <? 0 then - q' else q'), e + k).

(* round the rational n / d (n > 0, d > 0) *)
Definition rnd_pos (n d : Z) : fl :=
  let s0 := 52 + Z.log2 d - Z.log2 n in
  (* n * 2^s0 / d lies in (2^51, 2^53); one more bit if it is below 2^52 *)
  let lt := if 0 <=? s0 then Z.shiftl n s0 <? Z.shiftl d 52
            else n <? Z.shiftl d (52 - s0) in
  let s := if lt then s0 + 1 else s0 in
  let N := if 0 <=? s then Z.shiftl n s else n in
  let D := if 0 <=? s then d else Z.shiftl d (- s) in
  let '(q, r) := Z.div_eucl N D in
  let up := (D <? 2 * r) || ((D =? 2 * r) && Z.odd q) in
  (if up then q + 1 else q, - s).

Definition f0 : fl := (0, 0).
Definition f_of_int (z : Z) : fl := norm53 z 0.
(* the dyadic v / 2^s (exact when |v| < 2^53) *)
Definition f_dyadic (v s : Z) : fl := norm53 v (- s).
Definition fmul (a b : fl) : fl := norm53 (fst a * fst b) (snd a + snd b).
(* exact sum / difference on a common exponent *)
Definition falign (a b : fl) : Z * Z * Z :=
  let e := Z.min (snd a) (snd b) in
  (Z.shiftl (fst a) (snd a - e), Z.shiftl (fst b) (snd b - e), e).
Definition fadd (a b : fl) : fl := let '(x, y, e) := falign a b in norm53 (x + y) e.
Definition fsub (a b : fl) : fl := let '(x, y, e) := falign a b in norm53 (x - y) e.
Definition fdiv (a b : fl) : fl :=
  if (fst a =? 0) || (fst b =? 0) then (0, 0)
  else
    let '(q, e) := rnd_pos (Z.abs (fst a)) (Z.abs (fst b)) in
    ((if (fst a <? 0) && (0 <? fst b) || (0 <? fst a) && (fst b <? 0) then - q else q),
     e + snd a - snd b).
Definition fltb (a b : fl) : bool := let '(x, y, _) := falign a b in x <? y.
Definition fleb (a b : fl) : bool := let '(x, y, _) := falign a b in x <=? y.
Definition feqb (a b : fl) : bool := let '(x, y, _) := falign a b in x =? y.
(* Go int64(x): truncation toward zero *)
Definition ftrunc (a : fl) : Z :=
  if 0 <=? snd a then Z.shiftl (fst a) (snd a)
  else if fst a <? 0 then - Z.shiftr (- fst a) (- snd a) else Z.shiftr (fst a) (- snd a).

Definition f100 : fl := f_of_int 100.
Definition f1000 : fl := f_of_int 1000.

(* ---------- facts ---------- *)
(* comparisons against zero only look at the sign of the mantissa *)
Lemma shiftl_sign m k : 0 <= k -> (0 < Z.shiftl m k <-> 0 < m) /\ (Z.shiftl m k = 0 <-> m = 0).
Proof.
  intros Hk. rewrite Z.shiftl_mul_pow2 by assumption.
  assert (0 < 2 ^ k) by (apply Z.pow_pos_nonneg; lia). split; split; intros; nia.
Qed.

Lemma fleb_f0 a : fleb a f0 = (fst a <=? 0).
Proof.
  unfold fleb, falign, f0. cbn [fst snd].
  assert (Hk : 0 <= snd a - Z.min (snd a) 0) by lia.
  rewrite Z.shiftl_0_l.
  destruct (shiftl_sign (fst a) _ Hk) as [Hp Hz].
  destruct (Z.leb_spec (Z.shiftl (fst a) (snd a - Z.min (snd a) 0)) 0);
    destruct (Z.leb_spec (fst a) 0); try reflexivity; lia.
Qed.

Lemma fltb_f0 a : fltb f0 a = (0 <? fst a).
Proof.
  unfold fltb, falign, f0. cbn [fst snd].
  assert (Hk : 0 <= snd a - Z.min 0 (snd a)) by lia.
  rewrite Z.shiftl_0_l.
  destruct (shiftl_sign (fst a) _ Hk) as [Hp Hz].
  destruct (Z.ltb_spec 0 (Z.shiftl (fst a) (snd a - Z.min 0 (snd a))));
    destruct (Z.ltb_spec 0 (fst a)); try reflexivity; lia.
Qed.

Lemma fltb_fleb a b : fltb a b = negb (fleb b a).
Proof.
  unfold fltb, fleb, falign. rewrite (Z.min_comm (snd b) (snd a)).
  destruct (Z.ltb_spec (Z.shiftl (fst a) (snd a - Z.min (snd a) (snd b)))
                       (Z.shiftl (fst b) (snd b - Z.min (snd a) (snd b))));
    destruct (Z.leb_spec (Z.shiftl (fst b) (snd b - Z.min (snd a) (snd b)))
                         (Z.shiftl (fst a) (snd a - Z.min (snd a) (snd b)))); try reflexivity; lia.
Qed.

(* int64(x) of a float is positive only if the float is *)
Lemma ftrunc_pos a : 0 < ftrunc a -> 0 < fst a.
Proof.
  unfold ftrunc. destruct (Z.leb_spec 0 (snd a)).
  - intros Hp. apply (shiftl_sign (fst a) (snd a)); assumption.
  - destruct (Z.ltb_spec (fst a) 0); intros Hp.
    + assert (0 <= Z.shiftr (- fst a) (- snd a)) by (apply Z.shiftr_nonneg; lia). lia.
    + destruct (Z.eq_dec (fst a) 0) as [E|E]; [rewrite E, Z.shiftr_0_l in Hp; lia|lia].
Qed.
