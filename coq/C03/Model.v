(* C03 — model of elastic-quota admission:
     Plugin.PreFilter / checkQuotaRecursive / getQuotaInfoUsedLimit
       (pkg/scheduler/plugins/elasticquota/plugin.go, plugin_helper.go)
     GroupQuotaManager.ReservePod / UnreservePod / OnPodAdd / OnPodDelete / UpdateQuota /
       updateGroupDeltaUsedNoLock / refreshRuntimeNoLock
       (pkg/scheduler/plugins/elasticquota/core/group_quota_manager.go).
   Executable, total, no proofs in this file.

   Resource lists are vectors over three fixed dimensions (cpu in milli, memory, one extended
   resource); which keys a quota's max (resp. min) carries is an explicit mask.  "used" is kept
   incrementally exactly as the code does (delta added to every quota on the path, clamped at
   zero); "request" and "runtime" are recomputed from the surviving pods and quotas (the
   incremental bookkeeping of those is the subject of C01, the sharing rule that of C02, whose
   model [redistribution] is reused here level by level). *)
From Coq Require Import List ZArith Bool.
From Verif Require Import Lib.ListX C02.Model.
Import ListNotations.
Open Scope Z_scope.

(* ---------- vectors and key masks ---------- *)
Inductive dim := Cpu | Mem | Ext.
Definition dims : list dim := [Cpu; Mem; Ext].

Record vec := mkVec { v_c : Z; v_m : Z; v_e : Z }.
Record mask := mkMask { m_c : bool; m_m : bool; m_e : bool }.

Definition vget (v : vec) (d : dim) : Z :=
  match d with Cpu => v_c v | Mem => v_m v | Ext => v_e v end.
Definition mget (m : mask) (d : dim) : bool :=
  match d with Cpu => m_c m | Mem => m_m m | Ext => m_e m end.
Definition vmk (f : dim -> Z) : vec := mkVec (f Cpu) (f Mem) (f Ext).
Definition mmk (f : dim -> bool) : mask := mkMask (f Cpu) (f Mem) (f Ext).

Definition vzero : vec := mkVec 0 0 0.
Definition vadd (a b : vec) : vec := vmk (fun d => vget a d + vget b d).
(* quotav1.Add with a negated delta followed by "negative -> 0" *)
Definition vsub_clamp (a b : vec) : vec := vmk (fun d => Z.max 0 (vget a d - vget b d)).
(* quotav1.Mask(v, ResourceNames(max)) with absent = 0 *)
Definition vmask (m : mask) (v : vec) : vec := vmk (fun d => if mget m d then vget v d else 0).
Definition mask_eqb (a b : mask) : bool :=
  forallb (fun d => Bool.eqb (mget a d) (mget b d)) dims.
Definition all_dims (f : dim -> bool) : bool := forallb f dims.
(* every key of [a] is a key of [b] *)
Definition mask_subb (a b : mask) : bool :=
  forallb (fun d => negb (mget a d) || mget b d) dims.
Definition any_dim (f : dim -> bool) : bool := existsb f dims.

(* ---------- state ---------- *)
(* quota 0 is the root (koordinator-root-quota); it is never stored *)
Record quota := mkQuota {
  q_id : Z; q_parent : Z; q_lend : bool;
  q_decl : mask;                 (* keys of Spec.Max *)
  q_max : vec;
  q_mindecl : mask;              (* keys of Spec.Min *)
  q_min : vec;
  q_weight : vec;                (* shared-weight annotation *)
  q_used : vec; q_npused : vec;  (* CalculateInfo.Used / NonPreemptibleUsed *)
  q_creq : vec;                  (* the parent's RuntimeQuotaCalculator's copy of this quota's limited request *)
  q_taint : bool                 (* ghost: "used <= max" is no longer promised for this quota *)
}.

Definition set_usage (q : quota) (u n : vec) : quota :=
  mkQuota (q_id q) (q_parent q) (q_lend q) (q_decl q) (q_max q) (q_mindecl q) (q_min q) (q_weight q)
          u n (q_creq q) (q_taint q).
Definition set_creq (q : quota) (c : vec) : quota :=
  mkQuota (q_id q) (q_parent q) (q_lend q) (q_decl q) (q_max q) (q_mindecl q) (q_min q) (q_weight q)
          (q_used q) (q_npused q) c (q_taint q).
Definition set_taint (q : quota) (b : bool) : quota :=
  mkQuota (q_id q) (q_parent q) (q_lend q) (q_decl q) (q_max q) (q_mindecl q) (q_min q) (q_weight q)
          (q_used q) (q_npused q) (q_creq q) b.
Definition set_lend (q : quota) (b : bool) : quota :=
  mkQuota (q_id q) (q_parent q) b (q_decl q) (q_max q) (q_mindecl q) (q_min q) (q_weight q)
          (q_used q) (q_npused q) (q_creq q) (q_taint q).
Definition set_spec (q : quota) (mx : vec) (mindecl : mask) (mn w : vec) : quota :=
  mkQuota (q_id q) (q_parent q) (q_lend q) (q_decl q) mx mindecl mn w
          (q_used q) (q_npused q) (q_creq q) (q_taint q).

Record pod := mkPod {
  p_id : Z; p_quota : Z;
  p_req : vec; p_keys : mask;     (* requests of the pod and which keys they carry (an explicit 0 is a key) *)
  p_np : bool; p_assigned : bool;
  p_bound : bool;                 (* the pod object carries a node name (a bound pod replayed by the informer) *)
  p_term : bool }.                (* the pod object's phase is Succeeded or Failed (util.IsPodTerminated) *)

Record state := mkState { quotas : list quota; pods : list pod; total : vec }.
Record config := mkConfig { rt_on : bool; chk_parent : bool }.

(* The is-parent label is a function of the id: quotas with an even id carry is-parent=true (the
   harness names and labels them accordingly); child quotas can only be created under them, with a
   larger id than their parent (what the webhook's parent check plus creation order give).
   The KEY SET of a child's max is arbitrary when the limit is max (any quota tree, also the ones
   the webhook would refuse: an intermediate quota lacking a dimension its parent and its child
   both declare); when runtime quota is on it must be included in the parent's key set (the
   webhook's rule with ElasticQuotaEnableUpdateResourceKey; outside it the calculators drop
   dimensions, see DESIGN 11.4). *)
Definition is_parent_id (id : Z) : bool := Z.even id.

Definition init_state : state := mkState [] [] vzero.

Fixpoint find_quota (id : Z) (qs : list quota) : option quota :=
  match qs with
  | [] => None
  | q :: t => if q_id q =? id then Some q else find_quota id t
  end.
Fixpoint find_pod (id : Z) (ps : list pod) : option pod :=
  match ps with
  | [] => None
  | p :: t => if p_id p =? id then Some p else find_pod id t
  end.

(* getCurToAllParentGroupQuotaInfoNoLock (without the root): the quota, its parent, ... *)
Fixpoint path_from (fuel : nat) (qs : list quota) (id : Z) : list quota :=
  match fuel with
  | O => []
  | S f =>
    if id =? 0 then []
    else match find_quota id qs with
         | None => []
         | Some q => q :: path_from f qs (q_parent q)
         end
  end.
Definition path (st : state) (id : Z) : list quota :=
  path_from (length (quotas st)) (quotas st) id.

Definition mem_id (x : Z) (l : list Z) : bool := existsb (Z.eqb x) l.

(* ---------- request and runtime, recomputed ---------- *)
Definition children (qs : list quota) (id : Z) : list quota :=
  filter (fun c => q_parent c =? id) qs.

(* sum of the masked requests of the pods cached in quota q (pending and assigned alike) *)
Definition selfreq (ps : list pod) (q : quota) (d : dim) : Z :=
  sumZ (map (fun p => if p_quota p =? q_id q then vget (vmask (q_decl q) (p_req p)) d else 0) ps).

(* CalculateInfo.Request of q in dimension d; [limreq] is getLimitRequestNoLock *)
Fixpoint req_f (fuel : nat) (qs : list quota) (ps : list pod) (q : quota) (d : dim) : Z :=
  match fuel with
  | O => 0
  | S f =>
    let lim (c : quota) :=
      let r := req_f f qs ps c d in
      if mget (q_decl c) d then Z.min r (vget (q_max c) d) else r in
    let cr := selfreq ps q d + sumZ (map lim (children qs (q_id q))) in
    if q_lend q then cr
    else if mget (q_mindecl q) d then Z.max cr (vget (q_min q) d) else cr
  end.
Definition limreq (fuel : nat) (qs : list quota) (ps : list pod) (c : quota) (d : dim) : Z :=
  let r := req_f fuel qs ps c d in
  if mget (q_decl c) d then Z.min r (vget (q_max c) d) else r.

(* extension.GetSharedWeight: the annotation, or max when the annotation is all zero *)
Definition eff_weight (q : quota) (d : dim) : Z :=
  if all_dims (fun d' => negb (mget (q_decl q) d') || (vget (q_weight q) d' =? 0))
  then (if mget (q_decl q) d then vget (q_max q) d else 0)
  else (if mget (q_decl q) d then vget (q_weight q) d else 0).

(* what the parent's calculator holds about child c in dimension d.  The request is the
   calculator's COPY ([q_creq]): the code refreshes it whenever a request delta walks through c
   (pod add/delete below c, max/min change of c or of a descendant).  (Before fix cf84410 it was
   not refreshed when c's own min changed: findings/C03-stale-request-copy.md.) *)
Definition node_of (d : dim) (c : quota) : node :=
  mkNode (q_id c) (vget (q_creq c) d) (eff_weight c d)
         (if mget (q_mindecl c) d then vget (q_min c) d else 0) 0 (q_lend c).

(* refreshRuntimeNoLock: top-down along the path, each level shares the parent's runtime
   (the cluster total at the top) among all children of that parent *)
Fixpoint runtime_f (fuel : nat) (qs : list quota) (tot : vec) (q : quota) (d : dim) : Z :=
  match fuel with
  | O => 0
  | S f =>
    let t := if q_parent q =? 0 then vget tot d
             else match find_quota (q_parent q) qs with
                  | Some P => runtime_f f qs tot P d
                  | None => 0
                  end in
    let ns := map (node_of d) (children qs (q_parent q)) in
    match runtime_of (q_id q) (redistribution t ns) with
    | Some r => r
    | None => 0
    end
  end.
Definition runtime (st : state) (q : quota) : vec :=
  vmk (runtime_f (S (length (quotas st))) (quotas st) (total st) q).

(* getQuotaInfoUsedLimit *)
Definition limit_of (cfg : config) (st : state) (q : quota) : vec :=
  if rt_on cfg then runtime st q else q_max q.

(* ---------- admission (PreFilter) ---------- *)
(* quotav1.LessThanOrEqual(used + request, limit) on the keys the limit carries *)
Definition self_ok (q : quota) (lim mreq : vec) : bool :=
  all_dims (fun d => negb (mget (q_decl q) d) || (vget (q_used q) d + vget mreq d <=? vget lim d)).
Definition np_ok (q : quota) (mreq : vec) : bool :=
  all_dims (fun d => negb (mget (q_mindecl q) d)
                     || (vget (q_npused q) d + vget mreq d <=? vget (q_min q) d)).
(* checkQuotaRecursive: only the dimensions the (masked) pod request carries, [rk] *)
Definition anc_ok (a : quota) (lim : vec) (rk : mask) (mreq : vec) : bool :=
  all_dims (fun d => negb (mget (q_decl a) d) || negb (mget rk d)
                     || (vget (q_used a) d + vget mreq d <=? vget lim d)).
(* ResourceNames(Mask(PodRequests(pod), ResourceNames(max))) *)
Definition req_keys (q : quota) (p : pod) : mask :=
  mmk (fun d => mget (p_keys p) d && mget (q_decl q) d).

(* 0 = Success, 1 = Unschedulable *)
Definition admission (cfg : config) (st : state) (p : pod) (pth : list quota) : Z :=
  match pth with
  | [] => 2
  | q :: anc =>
    let mreq := vmask (q_decl q) (p_req p) in
    if negb (self_ok q (limit_of cfg st q) mreq) then 1
    else if p_np p && negb (np_ok q mreq) then 1
    else if chk_parent cfg
            && negb (forallb (fun a => anc_ok a (limit_of cfg st a) (req_keys q p) mreq) anc) then 1
    else 0
  end.

(* ---------- used bookkeeping (updateGroupDeltaUsedNoLock) ---------- *)
Definition upd_used (ids : list Z) (f g : vec -> vec) (qs : list quota) : list quota :=
  map (fun q => if mem_id (q_id q) ids then set_usage q (f (q_used q)) (g (q_npused q)) else q) qs.
Definition taint_ids (ids : list Z) (qs : list quota) : list quota :=
  map (fun q => if mem_id (q_id q) ids then set_taint q true else q) qs.
(* updateOneGroupRequest for every quota a request delta walks through *)
Definition refresh (ids : list Z) (qs : list quota) (ps : list pod) : list quota :=
  map (fun q => if mem_id (q_id q) ids then set_creq q (vmk (limreq (length qs) qs ps q)) else q) qs.
Definition vec_zerob (v : vec) : bool := all_dims (fun d => vget v d =? 0).
Definition set_assigned (id : Z) (b : bool) (ps : list pod) : list pod :=
  map (fun p => if p_id p =? id then mkPod (p_id p) (p_quota p) (p_req p) (p_keys p) (p_np p) b (p_bound p) (p_term p) else p) ps.
(* the preemptible label of a pod flips *)
Definition flip_np (p : pod) : pod :=
  mkPod (p_id p) (p_quota p) (p_req p) (p_keys p) (negb (p_np p)) (p_assigned p) (p_bound p) (p_term p).
Definition set_np (id : Z) (ps : list pod) : list pod :=
  map (fun p => if p_id p =? id then flip_np p else p) ps.
(* a status update: the object now carries a node name / a new phase *)
Definition with_status (p : pod) (b t : bool) : pod :=
  mkPod (p_id p) (p_quota p) (p_req p) (p_keys p) (p_np p) (p_assigned p) b t.
Definition set_status (id : Z) (b t : bool) (ps : list pod) : list pod :=
  map (fun p => if p_id p =? id then with_status p b t else p) ps.
Definition remove_pod (id : Z) (ps : list pod) : list pod :=
  filter (fun p => negb (p_id p =? id)) ps.

Definition pod_delta (st : state) (p : pod) : vec :=
  match find_quota (p_quota p) (quotas st) with
  | Some q => vmask (q_decl q) (p_req p)
  | None => vzero
  end.

(* ReservePod / the used half of OnPodAdd for a bound pod *)
Definition charge (st : state) (p : pod) : state :=
  let ids := map q_id (path st (p_quota p)) in
  let dl := pod_delta st p in
  mkState (upd_used ids (fun u => vadd u dl) (fun u => if p_np p then vadd u dl else u) (quotas st))
          (set_assigned (p_id p) true (pods st)) (total st).
(* UnreservePod / the used half of OnPodDelete *)
Definition refund (st : state) (p : pod) : list quota :=
  let ids := map q_id (path st (p_quota p)) in
  let dl := pod_delta st p in
  upd_used ids (fun u => vsub_clamp u dl) (fun u => if p_np p then vsub_clamp u dl else u) (quotas st).

(* Reserve after a PreFilter that answered [v] *)
Definition apply_attempt (st : state) (p : pod) (v : Z) : state :=
  if (v =? 0) && negb (p_assigned p) then charge st p else st.

(* ---------- usage recomputed from the pods that are currently assigned ---------- *)
Definition pod_share (st : state) (q : quota) (p : pod) : vec :=
  if p_assigned p && mem_id (q_id q) (map q_id (path st (p_quota p))) then pod_delta st p else vzero.
Definition exp_used (st : state) (q : quota) (d : dim) : Z :=
  sumZ (map (fun p => vget (pod_share st q p) d) (pods st)).
Definition exp_npused (st : state) (q : quota) (d : dim) : Z :=
  sumZ (map (fun p => if p_np p then vget (pod_share st q p) d else 0) (pods st)).

(* ---------- restart (fail-over) ---------- *)
(* what OnPodAdd decides for a replayed pod object: node name set and not terminated *)
Definition replay_flag (p : pod) : bool := p_bound p && negb (p_term p).
Definition restart_pod (p : pod) : pod :=
  mkPod (p_id p) (p_quota p) (p_req p) (p_keys p) (p_np p) (replay_flag p) (p_bound p) (p_term p).
(* quotas that are charged, by the replay, for a pod that was not assigned before (no admission) *)
Definition fresh_ids (st : state) : list Z :=
  flat_map (fun p => if negb (p_assigned p) && replay_flag p
                     then map q_id (path st (p_quota p)) else []) (pods st).

(* ---------- operations ---------- *)
Inductive op :=
| OQuotaAdd (id parent : Z) (lend : bool) (decl : mask) (mx : vec) (mindecl : mask) (mn w : vec)
| OQuotaUpdate (id : Z) (mx : vec) (mindecl : mask) (mn w : vec)
| OPodAdd (id quota : Z) (np : bool) (req : vec) (keys : mask) (term : bool)  (* unbound pod seen by the informer *)
| OAttempt (id : Z)                                     (* PreFilter, then Reserve on success *)
| OCheck (id : Z)                                       (* PreFilter alone (the cycle may go on to Reserve later) *)
| OReserve (id : Z)                                     (* Reserve alone *)
| OUnreserve (id : Z)
| OPodDelete (id : Z)
| OCapacity (t : vec)
| OPodAddBound (id quota : Z) (np : bool) (req : vec) (keys : mask) (term : bool)
    (* already-bound pod replayed by the informer (fail-over); [term]: its phase is Succeeded/Failed *)
| OQuotaFlipLend (id : Z)    (* allow-lent-resource label flipped: a META change, UpdateQuota rebuilds the whole tree *)
| OPodRelabel (id : Z)       (* pod update event that only flips the pod's preemptible label *)
| OPodStatus (id : Z) (term bind : bool)
    (* pod update event that only changes the status: new phase (terminated or not) and, when
       [bind], the node name is now set (the binding confirmed by the API server) *)
| ORestart
    (* scheduler restart / leader fail-over: a new quota manager, ReplaceQuotas with all quota
       objects, the node and then every pod object replayed through OnPodAdd.  Assignments of
       pods whose binding is not yet visible in their object are lost; bound, non-terminated pods
       are charged again without admission. *)
| ONop.

(* what is logged after every operation *)
Record obs := mkObs {
  o_status : Z;                          (* attempt: 0 admitted / 1 rejected / 2 error; -1 not run; else 0 *)
  o_limits : list (Z * vec);             (* attempt: (quota id, limit in force) for the quota and its ancestors *)
  o_dump : list (Z * (vec * vec)) }.     (* every quota: id, used, non-preemptible used *)

Definition dump (st : state) : list (Z * (vec * vec)) :=
  map (fun q => (q_id q, (q_used q, q_npused q))) (quotas st).
(* limits are reported on the declared dimensions only *)
Definition limits (cfg : config) (st : state) (pth : list quota) : list (Z * vec) :=
  map (fun q => (q_id q, vmk (fun d => if mget (q_decl q) d then vget (limit_of cfg st q) d else -1))) pth.

Definition lowers (q : quota) (mx : vec) : bool :=
  any_dim (fun d => mget (q_decl q) d && (vget mx d <? vget (q_max q) d)).

(* the request half of OnPodAdd / OnPodDelete: a non-zero masked request walks the path and
   refreshes the calculators' copies (updatePodRequestNoLock returns early on a zero delta) *)
Definition touch_request (st : state) (p : pod) (qs : list quota) (ps : list pod) : list quota :=
  if vec_zerob (pod_delta st p) then qs
  else refresh (map q_id (path st (p_quota p))) qs ps.

Definition step (cfg : config) (st : state) (o : op) : state * obs :=
  let plain st' := (st', mkObs 0 [] (dump st')) in
  let skip := (st, mkObs (-1) [] (dump st)) in
  match o with
  | OQuotaAdd id parent lend decl mx mindecl mn w =>
    let ok_parent :=
      if parent =? 0 then true
      else match find_quota parent (quotas st) with
           | Some P => (negb (rt_on cfg) || mask_subb decl (q_decl P))
                       && is_parent_id parent && (parent <? id)
           | None => false
           end in
    if (id <=? 0) || (match find_quota id (quotas st) with Some _ => true | None => false end)
       || negb ok_parent
    then skip
    else
      let qs := if chk_parent cfg then quotas st else taint_ids [parent] (quotas st) in
      let qs1 := qs ++ [mkQuota id parent lend decl mx mindecl mn w vzero vzero vzero false] in
      (* the new quota enters its parent's calculator with an empty request; the walk up from
         the parent refreshes the ancestors *)
      plain (mkState (refresh (map q_id (path st parent)) qs1 (pods st)) (pods st) (total st))
  | OQuotaUpdate id mx mindecl mn w =>
    match find_quota id (quotas st) with
    | None => skip
    | Some q0 =>
      let max_changed := any_dim (fun d => mget (q_decl q0) d && negb (vget mx d =? vget (q_max q0) d)) in
      let min_changed := negb (mask_eqb mindecl (q_mindecl q0))
                         || any_dim (fun d => mget mindecl d && negb (vget mn d =? vget (q_min q0) d)) in
      (* updateOneGroupMaxQuota: copy := min(Request, new max), Request still with the old min;
         when max or min changed the copy of this quota and of its ancestors is then refreshed *)
      let r_old := req_f (length (quotas st)) (quotas st) (pods st) q0 in
      let c_new := if max_changed
                   then vmk (fun d => if mget (q_decl q0) d then Z.min (r_old d) (vget mx d) else r_old d)
                   else q_creq q0 in
      let qs1 := map (fun q => if q_id q =? id
                               then set_taint (set_creq (set_spec q mx mindecl mn w) c_new)
                                              (q_taint q || lowers q mx)
                               else q) (quotas st) in
      let qs2 := if max_changed || min_changed
                 then refresh (id :: map q_id (path st (q_parent q0))) qs1 (pods st) else qs1 in
      plain (mkState qs2 (pods st) (total st))
    end
  | OPodAdd id qn np req keys term =>
    match find_pod id (pods st), find_quota qn (quotas st) with
    | None, Some _ =>
      let p := mkPod id qn req keys np false false term in
      let ps := pods st ++ [p] in
      plain (mkState (touch_request st p (quotas st) ps) ps (total st))
    | _, _ => skip
    end
  | OPodAddBound id qn np req keys term =>
    match find_pod id (pods st), find_quota qn (quotas st) with
    | None, Some _ =>
      let p := mkPod id qn req keys np false true term in
      let ps := pods st ++ [p] in
      (* OnPodAdd: "in case failOver": NodeName set and not terminated -> assigned, whatever the
         phase otherwise (a bound pod stays Pending while its containers are created) *)
      if term then plain (mkState (touch_request st p (quotas st) ps) ps (total st))
      else
      let qs := touch_request st p (taint_ids (map q_id (path st qn)) (quotas st)) ps in
      plain (charge (mkState qs ps (total st)) p)
    | _, _ => skip
    end
  | OAttempt id =>
    match find_pod id (pods st) with
    | None => skip
    | Some p =>
      let pth := path st (p_quota p) in
      let v := admission cfg st p pth in
      let st' := apply_attempt st p v in
      (st', mkObs v (limits cfg st pth) (dump st'))
    end
  | OCheck id =>
    match find_pod id (pods st) with
    | None => skip
    | Some p =>
      let pth := path st (p_quota p) in
      (st, mkObs (admission cfg st p pth) (limits cfg st pth) (dump st))
    end
  | OReserve id =>
    match find_pod id (pods st) with
    | None => skip
    | Some p => plain (if p_assigned p then st else charge st p)
    end
  | OUnreserve id =>
    match find_pod id (pods st) with
    | Some p =>
      if p_assigned p
      then plain (mkState (refund st p) (set_assigned id false (pods st)) (total st))
      else plain st
    | None => skip
    end
  | OPodDelete id =>
    match find_pod id (pods st) with
    | Some p =>
      let ps := remove_pod id (pods st) in
      plain (mkState (touch_request st p (if p_assigned p then refund st p else quotas st) ps)
                     ps (total st))
    | None => skip
    end
  | OQuotaFlipLend id =>
    match find_quota id (quotas st) with
    | None => skip
    | Some _ =>
      (* updateQuotaInfoFromRemote + resetQuotaNoLock: every calculator is rebuilt and every
         quota's request re-propagated bottom-up; used / non-preemptible used are carried over *)
      let qs1 := map (fun q => if q_id q =? id then set_lend q (negb (q_lend q)) else q) (quotas st) in
      plain (mkState (refresh (map q_id qs1) qs1 (pods st)) (pods st) (total st))
    end
  | OPodRelabel id =>
    match find_pod id (pods st) with
    | None => skip
    | Some p =>
      (* OnPodUpdate: the request delta is zero but the non-preemptible request changes, so the path
         is walked.  An assigned pod's request moves into / out of the non-preemptible used; a pod
         that is not assigned but carries a node name is assigned on the spot (no admission). *)
      let p' := flip_np p in
      let ps := set_np id (pods st) in
      let ids := map q_id (path st (p_quota p)) in
      let dl := pod_delta st p in
      if p_assigned p
      then plain (mkState (touch_request st p'
                             (upd_used ids (fun u => u)
                                       (fun u => if p_np p then vsub_clamp u dl else vadd u dl) (quotas st)) ps)
                          ps (total st))
      else if p_bound p && negb (p_term p)
      then plain (charge (mkState (touch_request st p' (taint_ids ids (quotas st)) ps) ps (total st)) p')
      else plain (mkState (touch_request st p' (quotas st) ps) ps (total st))
    end
  | OPodStatus id term bind =>
    match find_pod id (pods st) with
    | None => skip
    | Some p =>
      (* OnPodUpdate with an unchanged spec and labels: both request deltas are zero.  A pod that
         is already assigned stays so (also when it terminates: it holds its quota until it is
         deleted); one that is not is assigned on the spot when the new object carries a node
         name and is not terminated (no admission). *)
      let b := p_bound p || bind in
      let p' := with_status p b term in
      let ps := set_status id b term (pods st) in
      if negb (p_assigned p) && b && negb term
      then plain (charge (mkState (taint_ids (map q_id (path st (p_quota p))) (quotas st)) ps (total st)) p')
      else plain (mkState (quotas st) ps (total st))
    end
  | OCapacity t => plain (mkState (quotas st) (pods st) t)
  | ORestart =>
    let ps := map restart_pod (pods st) in
    let qs1 := taint_ids (fresh_ids st) (quotas st) in
    let st1 := mkState qs1 ps (total st) in
    let qs2 := map (fun q => set_usage q (vmk (exp_used st1 q)) (vmk (exp_npused st1 q))) qs1 in
    (* every calculator is rebuilt and every request re-propagated, as for a quota meta change *)
    plain (mkState (refresh (map q_id qs2) qs2 ps) ps (total st))
  | ONop => skip
  end.

Fixpoint run (cfg : config) (st : state) (ops : list op) : list obs :=
  match ops with
  | [] => []
  | o :: t => let '(st', ob) := step cfg st o in ob :: run cfg st' t
  end.
Fixpoint exec (cfg : config) (st : state) (ops : list op) : state :=
  match ops with
  | [] => st
  | o :: t => exec cfg (fst (step cfg st o)) t
  end.

(* ---------- ghost: the admission check whose Reserve has not happened yet ---------- *)
(* (pod id, ids of the quotas the check covered, masked request it was made for) *)
Definition snap := option (Z * (list Z * vec)).
Definition track (cfg : config) (st : state) (sn : snap) (o : op) : snap :=
  match o with
  | OCheck id =>
    match find_pod id (pods st) with
    | Some p =>
      let pth := path st (p_quota p) in
      if admission cfg st p pth =? 0 then Some (id, (map q_id pth, pod_delta st p)) else None
    | None => None
    end
  | OAttempt _ | OReserve _ | ORestart => None
  | OPodDelete id =>
    match sn with
    | Some (i, _) => if i =? id then None else sn
    | None => None
    end
  | _ => sn
  end.
