(* C03 — the non-preemptible clause read strictly (a dimension missing from min counts as 0):
   it holds of every history whose quota objects give a min for every key of max, and it is
   refuted otherwise (witness below, replayed on the real code: corpus/C03/history/np-min-absent.case). *)
From Coq Require Import List ZArith Bool Lia.
From Verif Require Import Lib.ListX C02.Model C03.Model C03.Spec C03.Proofs C03.Proofs_Runtime
     C03.Proofs_Inv C03.Proofs_Flight C03.Proofs_Step C03.Proofs_Exact C03.Proofs_Check.
Import ListNotations.
Open Scope Z_scope.

Lemma np_strictb_spec q m : np_strictb q m = true <-> np_strict q m.
Proof.
  unfold np_strictb, np_strict. rewrite all_dims_spec.
  split; intros H d; specialize (H d).
  - intro Hd. rewrite Hd in H. cbn in H. lia.
  - destruct (mget (q_decl q) d); cbn; [apply Z.leb_le; auto|reflexivity].
Qed.

Lemma min_complete_spec q :
  min_complete q = true <-> forall d, mget (q_decl q) d = true -> mget (q_mindecl q) d = true.
Proof.
  unfold min_complete. rewrite all_dims_spec. split; intros H d; specialize (H d).
  - intro Hd. rewrite Hd in H. exact H.
  - destruct (mget (q_decl q) d); cbn; [auto|reflexivity].
Qed.

Lemma np_within_strict q m : min_complete q = true -> np_within q m -> np_strict q m.
Proof.
  intros Hc H d Hd. rewrite min_complete_spec in Hc. unfold min_or0.
  rewrite (Hc d Hd). apply H. apply Hc. exact Hd.
Qed.

(* an admitted non-preemptible pod keeps non-preemptible usage within min in every declared
   dimension, PROVIDED min has an entry for each of them *)
Theorem admit_np_strict_partial cfg st p q anc :
  admission cfg st p (q :: anc) = 0 -> p_np p = true -> min_complete q = true ->
  np_strict q (vmask (q_decl q) (p_req p)).
Proof.
  intros Ha Hn Hc. apply admission_sound in Ha. destruct Ha as (_ & Hnp & _).
  apply np_within_strict; auto.
Qed.

(* without the proviso it is false: min = {cpu: 5}, max = {cpu: 10, memory: 100}; a
   non-preemptible pod asking for 50 of memory is admitted *)
Definition np_witness_ops : list op :=
  [ OCapacity (mkVec 100 100 100);
    OQuotaAdd 1 0 true (mkMask true true false) (mkVec 10 100 0) (mkMask true false false)
              (mkVec 5 0 0) (mkVec 0 0 0);
    OPodAdd 1 1 true (mkVec 2 50 0) (mkMask true true false) false;
    OAttempt 1 ].

Theorem admit_np_strict_refuted :
  exists cfg st p q anc,
    admission cfg st p (q :: anc) = 0 /\ p_np p = true /\ quota_okb q = true
    /\ ~ np_strict q (vmask (q_decl q) (p_req p)).
Proof.
  set (cfg := mkConfig false false).
  set (st := exec cfg init_state (firstn 3 np_witness_ops)).
  exists cfg, st, (mkPod 1 1 (mkVec 2 50 0) (mkMask true true false) true false false false).
  destruct (path st 1) as [|q anc] eqn:Ep; [vm_compute in Ep; discriminate|].
  exists q, anc. vm_compute in Ep. injection Ep as <- <-.
  split; [vm_compute; reflexivity|]. split; [reflexivity|]. split; [vm_compute; reflexivity|].
  intro H. specialize (H Mem eq_refl). vm_compute in H. apply H. reflexivity.
Qed.

Example np_witness_code :
  prop_code (mkConfig false false) np_witness_ops (run (mkConfig false false) init_state np_witness_ops) = 0
  /\ check_np (mkConfig false false) init_state [] np_witness_ops
              (run (mkConfig false false) init_state np_witness_ops) = 3.
Proof. vm_compute. split; reflexivity. Qed.

(* ---------- histories with complete mins ---------- *)
Definition MC (qs : list quota) : Prop := forall q, In q qs -> min_complete q = true.

Lemma MC_map h qs :
  (forall q, In q qs -> min_complete q = true -> min_complete (h q) = true) -> MC qs -> MC (map h qs).
Proof.
  intros Hh H q Hq. apply in_map_iff in Hq. destruct Hq as (x & <- & Hx). auto.
Qed.

Lemma MC_refresh ids qs ps : MC qs -> MC (refresh ids qs ps).
Proof.
  intro H. unfold refresh. apply MC_map; [|exact H]. intros q _ Hq.
  destruct (mem_id _ _); exact Hq.
Qed.
Lemma MC_upd_used ids f g qs : MC qs -> MC (upd_used ids f g qs).
Proof.
  intro H. unfold upd_used. apply MC_map; [|exact H]. intros q _ Hq.
  destruct (mem_id _ _); exact Hq.
Qed.
Lemma MC_taint ids qs : MC qs -> MC (taint_ids ids qs).
Proof.
  intro H. unfold taint_ids. apply MC_map; [|exact H]. intros q _ Hq.
  destruct (mem_id _ _); exact Hq.
Qed.
Lemma MC_touch st p qs ps : MC qs -> MC (touch_request st p qs ps).
Proof.
  intro H. unfold touch_request. destruct (vec_zerob _); [exact H|apply MC_refresh; exact H].
Qed.

Lemma MC_step cfg st o : MC (quotas st) -> mc_opb st o = true -> MC (quotas (fst (step cfg st o))).
Proof.
  intros M Hb.
  destruct o as [id parent lend decl mx mindecl mn w|id mx mindecl mn w|id qn np req keys term|id|id|id|id|id|t
                 |id qn np req keys term|id|id|id term bind| |]; unfold step, apply_attempt; cbv zeta.
  - destruct (id <=? 0); cbn [orb fst]; [exact M|].
    destruct (find_quota id (quotas st)); cbn [orb fst]; [exact M|].
    match goal with |- context [negb ?b] => destruct b end; cbn [negb fst quotas]; [|exact M].
    apply MC_refresh. intros q Hq. apply in_app_or in Hq. destruct Hq as [Hq|[<-|[]]].
    + destruct (chk_parent cfg); [apply M; exact Hq|apply (MC_taint [parent] _ M); exact Hq].
    + exact Hb.
  - destruct (find_quota id (quotas st)) as [q0|]; cbn [fst quotas]; [|exact M].
    cbn [mc_opb] in Hb. rewrite forallb_forall in Hb.
    match goal with |- MC (if ?b then refresh ?i ?l ?p else _) =>
      assert (M1 : MC l); [|destruct b; [apply MC_refresh|]; exact M1] end.
    intros q Hq. apply in_map_iff in Hq. destruct Hq as (x & <- & Hx).
    specialize (Hb x Hx). destruct (q_id x =? id); cbn [negb orb] in Hb; [exact Hb|apply M; exact Hx].
  - destruct (find_pod id (pods st)); cbn [fst]; [exact M|].
    destruct (find_quota qn (quotas st)); cbn [fst quotas]; [|exact M]. apply MC_touch. exact M.
  - destruct (find_pod id (pods st)) as [p|]; cbn [fst]; [|exact M].
    match goal with |- context [if ?b then charge st p else st] => destruct b end; [|exact M].
    unfold charge. cbn [quotas]. apply MC_upd_used. exact M.
  - destruct (find_pod id (pods st)) as [p|]; cbn [fst]; exact M.
  - destruct (find_pod id (pods st)) as [p|]; cbn [fst]; [|exact M].
    destruct (p_assigned p); [exact M|]. unfold charge. cbn [quotas]. apply MC_upd_used. exact M.
  - destruct (find_pod id (pods st)) as [p|]; cbn [fst]; [|exact M].
    destruct (p_assigned p); cbn [fst quotas]; [|exact M]. unfold refund. apply MC_upd_used. exact M.
  - destruct (find_pod id (pods st)) as [p|]; cbn [fst quotas]; [|exact M].
    apply MC_touch. destruct (p_assigned p); [unfold refund; apply MC_upd_used|]; exact M.
  - exact M.
  - destruct (find_pod id (pods st)); cbn [fst]; [exact M|].
    destruct (find_quota qn (quotas st)); cbn [fst]; [|exact M].
    destruct term; cbn [fst]; [cbn [quotas]; apply MC_touch; exact M|].
    unfold charge. cbn [quotas]. apply MC_upd_used. apply MC_touch. apply MC_taint. exact M.
  - destruct (find_quota id (quotas st)) as [q00|]; cbn [fst quotas]; [|exact M].
    apply MC_refresh. apply MC_map; [|exact M]. intros q _ Hq. destruct (q_id q =? id); exact Hq.
  - destruct (find_pod id (pods st)) as [p|]; cbn [fst]; [|exact M].
    destruct (p_assigned p); [cbn [fst quotas]; apply MC_touch; apply MC_upd_used; exact M|].
    destruct (p_bound p && negb (p_term p)); cbn [fst].
    + unfold charge. cbn [quotas]. apply MC_upd_used. apply MC_touch. apply MC_taint. exact M.
    + cbn [quotas]. apply MC_touch. exact M.
  - destruct (find_pod id (pods st)) as [p|]; cbn [fst]; [|exact M].
    match goal with |- context [if ?b then _ else _] => destruct b end; cbn [fst].
    + unfold charge. cbn [quotas]. apply MC_upd_used. apply MC_taint. exact M.
    + exact M.
  - cbn [fst quotas]. apply MC_refresh. apply MC_map; [intros q _ Hq; exact Hq|]. apply MC_taint. exact M.
  - exact M.
Qed.

Lemma check_np_attempt_model cfg st o id :
  is_check o id -> MC (quotas st) -> check_np_attempt st id (snd (step cfg st o)) = 0.
Proof.
  intros Hc M. unfold check_np_attempt.
  destruct (find_pod id (pods st)) as [p|] eqn:Ef; [|reflexivity].
  destruct (step_attempt cfg st o id p Hc Ef) as [Es _]. rewrite Es. clear Es.
  destruct (path st (p_quota p)) as [|q anc] eqn:Ep; [reflexivity|].
  destruct (admission cfg st p (q :: anc) =? 0) eqn:Ea; cbn [andb]; [|reflexivity].
  destruct (p_np p) eqn:En; cbn [andb]; [|reflexivity].
  apply Z.eqb_eq in Ea.
  assert (Hq : In q (quotas st)).
  { apply (path_from_in (length (quotas st)) _ (p_quota p)). unfold path in Ep. rewrite Ep. left. reflexivity. }
  pose proof (admit_np_strict_partial cfg st p q anc Ea En (M q Hq)) as H.
  apply np_strictb_spec in H. rewrite H. reflexivity.
Qed.

Theorem check_np_run cfg : forall ops wf st sn,
  INV cfg wf st -> FL wf st sn -> EXI wf st -> MC (quotas st) -> mc_hist cfg st ops = true ->
  check_np cfg st (dump st) ops (run cfg st ops) = 0.
Proof.
  induction ops as [|o t IH]; intros wf st sn I F X M Hb; [reflexivity|].
  cbn [mc_hist] in Hb. apply andb_true_iff in Hb. destruct Hb as [Hb1 Hb2].
  cbn [run]. destruct (step cfg st o) as [st' ob] eqn:Es. cbn [check_np].
  rewrite (sync_state_dump cfg wf st I).
  assert (Hc : match o with
               | OAttempt id | OCheck id => check_np_attempt st id ob
               | _ => 0
               end = 0).
  { destruct o; try reflexivity.
    - pose proof (check_np_attempt_model cfg st (OAttempt id) id (or_introl eq_refl) M) as H.
      rewrite Es in H. exact H.
    - pose proof (check_np_attempt_model cfg st (OCheck id) id (or_intror eq_refl) M) as H.
      rewrite Es in H. exact H. }
  rewrite Hc. cbn [Z.eqb negb].
  pose proof (force_model cfg st o) as Hfm. rewrite Es in Hfm. cbn [fst snd] in Hfm. rewrite Hfm.
  pose proof (step_dump cfg st o) as Hd. rewrite Es in Hd. cbn [fst snd] in Hd. rewrite Hd.
  pose proof (INV_step cfg wf st sn o I F X) as I'. pose proof (FL_step cfg wf st sn o I F) as F'.
  pose proof (EXI_step cfg wf st sn o I X) as X'.
  pose proof (MC_step cfg st o M Hb1) as M'.
  rewrite Es in I', F', X', M'. try rewrite Es in Hb2. cbn [fst] in I', F', X', M', Hb2.
  apply (IH _ _ _ I' F' X' M' Hb2).
Qed.

(* clause 3 can only ever answer 0 or 3 *)
Lemma check_np_range cfg : forall ops os st prev,
  check_np cfg st prev ops os = 0 \/ check_np cfg st prev ops os = 3.
Proof.
  induction ops as [|o t IH]; intros [|ob os'] st prev; cbn [check_np]; auto.
  set (c := match o with
            | OAttempt id | OCheck id => check_np_attempt (sync_state st prev) id ob
            | _ => 0
            end).
  assert (Hc : c = 0 \/ c = 3).
  { unfold c. destruct o; auto; unfold check_np_attempt;
      (destruct (find_pod _ _); auto; destruct (path _ _); auto;
       match goal with |- (if ?b then _ else _) = _ \/ _ => destruct b end; auto). }
  destruct Hc as [->| ->]; cbn [Z.eqb negb]; auto.
Qed.

Theorem prop_code_full_run cfg ops :
  prop_code_full cfg ops (run cfg init_state ops) = 0
  \/ prop_code_full cfg ops (run cfg init_state ops) = 3.
Proof.
  unfold prop_code_full. rewrite prop_code_run. cbn [Z.eqb negb]. apply check_np_range.
Qed.

Theorem prop_code_full_run_mc cfg ops :
  mc_hist cfg init_state ops = true -> prop_code_full cfg ops (run cfg init_state ops) = 0.
Proof.
  intro H. unfold prop_code_full. rewrite prop_code_run. cbn [Z.eqb negb].
  apply (check_np_run cfg ops true init_state None (INV_init cfg true) (FL_init true) (EXI_init true)); [intros q []|exact H].
Qed.
