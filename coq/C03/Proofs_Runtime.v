(* C03 — the runtime quota computed by the model never exceeds max(request copy, min);
   with a webhook-valid quota whose request copy is capped by max it never exceeds max. *)
From Coq Require Import List ZArith Bool Lia.
From Verif Require Import Lib.ListX C02.Model C03.Model C03.Spec C03.Proofs.
Import ListNotations.
Open Scope Z_scope.

(* ---------- an upper bound for C02's redistribution ---------- *)
Lemma init_runtime_le n : init_runtime n <= Z.max (request n) (eff_min n).
Proof.
  unfold init_runtime, needs_adjust.
  destruct (eff_min n <? request n) eqn:E; [apply Z.ltb_lt in E|apply Z.ltb_ge in E];
  destruct (lend n); lia.
Qed.

Definition capped (e : entry) : Prop := snd e <= request (fst e).

Lemma iterate_capped fuel : forall T W es,
  (forall e, In e es -> capped e) ->
  forall e, In e (iterate fuel T W es) -> capped e /\ In (fst e) (map fst es).
Proof.
  induction fuel as [|f IH]; intros T W es Hes e; cbn [iterate].
  - intro H. split; [apply Hes; exact H|apply in_map; exact H].
  - destruct ((W <=? 0) || (T <=? 0) || is_nil es).
    { intro H. split; [apply Hes; exact H|apply in_map; exact H]. }
    set (ds := hamilton T W (map fst es)).
    set (es1 := map (fun p => bump (fst p) (snd p)) (combine es ds)).
    assert (Hfst : forall x, In x es1 -> In (fst x) (map fst es)).
    { intros x Hx. unfold es1 in Hx. apply in_map_iff in Hx. destruct Hx as (p & <- & Hp).
      destruct p as [e0 d0]. cbn. apply in_map. apply in_combine_l in Hp. exact Hp. }
    assert (Hkeep : forall x, In x (filter unsat es1) -> capped x).
    { intros x Hx. apply filter_In in Hx. destruct Hx as [_ Hu]. unfold unsat in Hu.
      unfold capped. lia. }
    assert (Hfull : forall x, In x (map cap (filter (fun e => negb (unsat e)) es1)) ->
                              capped x /\ In (fst x) (map fst es)).
    { intros x Hx. apply in_map_iff in Hx. destruct Hx as (y & <- & Hy).
      apply filter_In in Hy. destruct Hy as [Hy _]. split.
      - unfold capped, cap. cbn. lia.
      - unfold cap. cbn. apply Hfst. exact Hy. }
    assert (Hkeep2 : forall x, In x (filter unsat es1) -> In (fst x) (map fst es)).
    { intros x Hx. apply filter_In in Hx. apply Hfst. apply Hx. }
    match goal with |- In e (if ?c then _ else _) -> _ => destruct c end.
    + intro H. apply in_app_or in H. destruct H as [H|H]; [apply Hfull; exact H|].
      destruct (IH _ _ _ Hkeep e H) as [Hc Hin]. split; [exact Hc|].
      apply in_map_iff in Hin. destruct Hin as (y & Hy & Hyin). rewrite <- Hy.
      apply Hkeep2. exact Hyin.
    + intro H. apply in_app_or in H. destruct H as [H|H]; [apply Hfull; exact H|].
      split; [apply Hkeep; exact H|apply Hkeep2; exact H].
Qed.

Lemma redistribution_upper total ns e :
  In e (redistribution total ns) ->
  In (fst e) ns /\ snd e <= Z.max (request (fst e)) (eff_min (fst e)).
Proof.
  unfold redistribution.
  set (es := map (fun n => (n, init_runtime n)) ns).
  assert (Hes : forall x, In x es -> In (fst x) ns /\ snd x = init_runtime (fst x)).
  { intros x Hx. unfold es in Hx. apply in_map_iff in Hx. destruct Hx as (n & <- & Hn).
    cbn. auto. }
  match goal with |- In e (if ?c then _ else _) -> _ => destruct c end.
  - intro H. apply in_app_or in H. destruct H as [H|H].
    + apply filter_In in H. destruct H as [H _]. destruct (Hes _ H) as [Hin Hs].
      split; [exact Hin|]. rewrite Hs. apply init_runtime_le.
    + set (adj := filter (fun e => needs_adjust (fst e)) es) in H.
      assert (Hadj : forall x, In x adj -> capped x).
      { intros x Hx. unfold adj in Hx. apply filter_In in Hx. destruct Hx as [Hx Hn].
        destruct (Hes _ Hx) as [_ Hs]. unfold capped. rewrite Hs.
        unfold init_runtime. rewrite Hn. unfold needs_adjust in Hn. lia. }
      destruct (iterate_capped _ _ _ _ Hadj e H) as [Hc Hin].
      apply in_map_iff in Hin. destruct Hin as (y & Hy & Hyin).
      unfold adj in Hyin. apply filter_In in Hyin. destruct Hyin as [Hyin _].
      split; [rewrite <- Hy; apply (Hes _ Hyin)|]. unfold capped in Hc. lia.
  - intro H. destruct (Hes _ H) as [Hin Hs]. split; [exact Hin|].
    rewrite Hs. apply init_runtime_le.
Qed.

Lemma runtime_of_some k es r :
  runtime_of k es = Some r -> exists e, In e es /\ nm (fst e) = k /\ snd e = r.
Proof.
  induction es as [|e t IH]; cbn [runtime_of]; [discriminate|].
  destruct (nm (fst e) =? k) eqn:E.
  - intro H. injection H as <-. exists e. split; [left; reflexivity|]. split; [lia|reflexivity].
  - intro H. destruct (IH H) as (x & Hx & Hk & Hr). exists x. split; [right; exact Hx|auto].
Qed.

(* ---------- the model's runtime ---------- *)
Definition min_or_zero (q : quota) (d : dim) : Z :=
  if mget (q_mindecl q) d then vget (q_min q) d else 0.

Lemma runtime_f_upper fuel qs tot q d :
  NoDup (map q_id qs) -> In q qs ->
  runtime_f fuel qs tot q d <= Z.max 0 (Z.max (vget (q_creq q) d) (min_or_zero q d)).
Proof.
  intros Hnd Hq. destruct fuel as [|f]; cbn [runtime_f]; [lia|].
  match goal with |- match runtime_of _ (redistribution ?t ?ns) with _ => _ end <= _ =>
    destruct (runtime_of (q_id q) (redistribution t ns)) as [r|] eqn:E end; [|lia].
  apply runtime_of_some in E. destruct E as (e & He & Hk & <-).
  apply redistribution_upper in He. destruct He as [Hin Hle].
  apply in_map_iff in Hin. destruct Hin as (c & Hc & Hcin).
  unfold children in Hcin. apply filter_In in Hcin. destruct Hcin as [Hcin _].
  assert (c = q) as ->.
  { rewrite <- Hc in Hk. cbn in Hk.
    pose proof (find_quota_nodup _ _ _ Hnd Hcin Hk) as H1.
    pose proof (find_quota_nodup _ _ _ Hnd Hq eq_refl) as H2. congruence. }
  rewrite <- Hc in Hle. unfold node_of, eff_min in Hle. cbn in Hle.
  unfold min_or_zero. lia.
Qed.

Lemma quota_okb_spec q :
  quota_okb q = true ->
  forall d, (mget (q_decl q) d = true -> 0 <= vget (q_max q) d)
            /\ (mget (q_mindecl q) d = true ->
                mget (q_decl q) d = true /\ 0 <= vget (q_min q) d <= vget (q_max q) d).
Proof.
  unfold quota_okb. rewrite all_dims_spec. intros H d. specialize (H d).
  apply andb_true_iff in H. destruct H as [H1 H2]. split.
  - intro Hd. rewrite Hd in H1. cbn in H1. lia.
  - intro Hm. rewrite Hm in H2. cbn in H2.
    apply andb_true_iff in H2. destruct H2 as [H2 H3].
    apply andb_true_iff in H2. destruct H2 as [H2 H4]. split; [exact H2|lia].
Qed.

(* the request copy held by the parent's calculator is capped by max (see Proofs_Inv) *)
Definition creq_capped (q : quota) : Prop :=
  forall d, mget (q_decl q) d = true -> vget (q_creq q) d <= Z.max 0 (vget (q_max q) d).

Lemma runtime_le_max st q :
  NoDup (map q_id (quotas st)) -> In q (quotas st) ->
  quota_okb q = true -> creq_capped q -> used_le_max q (runtime st q).
Proof.
  intros Hnd Hq Hok Hc d Hd. unfold runtime. rewrite vget_vmk.
  pose proof (runtime_f_upper (S (length (quotas st))) (quotas st) (total st) q d Hnd Hq) as H.
  destruct (quota_okb_spec q Hok d) as [H1 H2]. specialize (H1 Hd). specialize (Hc d Hd).
  unfold min_or_zero in H. destruct (mget (q_mindecl q) d) eqn:Em.
  - destruct (H2 eq_refl) as [_ H3]. lia.
  - lia.
Qed.

Lemma limit_le_max cfg st q :
  NoDup (map q_id (quotas st)) -> In q (quotas st) ->
  quota_okb q = true -> creq_capped q -> used_le_max q (limit_of cfg st q).
Proof.
  intros Hnd Hq Hok Hc. unfold limit_of. destruct (rt_on cfg).
  - apply runtime_le_max; assumption.
  - intros d _. lia.
Qed.
