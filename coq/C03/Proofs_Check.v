(* C03 — the decision procedure of Spec.v accepts every observation the model produces,
   for all histories; and what the decision procedure accepts satisfies the Props. *)
From Coq Require Import List ZArith Bool Lia.
From Verif Require Import Lib.ListX C02.Model C03.Model C03.Spec C03.Proofs C03.Proofs_Runtime
     C03.Proofs_Inv C03.Proofs_Flight C03.Proofs_Step C03.Proofs_Exact.
Import ListNotations.
Open Scope Z_scope.

Lemma eq_ids_refl l : eq_ids l l = true.
Proof. induction l as [|x t IH]; cbn; [reflexivity|]. rewrite Z.eqb_refl. exact IH. Qed.

Lemma used_le_maxb_spec q u : used_le_maxb q u = true <-> used_le_max q u.
Proof.
  unfold used_le_maxb, used_le_max. rewrite all_dims_spec.
  split; intros H d; specialize (H d).
  - intro Hd. rewrite Hd in H. cbn in H. lia.
  - destruct (mget (q_decl q) d); cbn; [apply Z.leb_le; auto|reflexivity].
Qed.

(* ---------- what a step logs ---------- *)
Lemma step_dump cfg st o : o_dump (snd (step cfg st o)) = dump (fst (step cfg st o)).
Proof.
  destruct o; unfold step; cbv zeta;
    repeat match goal with
           | |- context [match ?x with _ => _ end] => destruct x
           end; reflexivity.
Qed.

Lemma assocZ_dump st q :
  NoDup (map q_id (quotas st)) -> In q (quotas st) ->
  assocZ (q_id q) (dump st) = Some (q_used q, q_npused q).
Proof.
  unfold dump. generalize (quotas st) as qs.
  induction qs as [|x t IH]; intros Hnd Hin; [destruct Hin|].
  cbn [map assocZ]. inversion Hnd as [|? ? Hx Ht]; subst.
  destruct Hin as [->|Hin]; [rewrite Z.eqb_refl; reflexivity|].
  destruct (q_id x =? q_id q) eqn:E; [|apply IH; auto].
  exfalso. apply Hx. apply Z.eqb_eq in E. rewrite E. apply in_map. exact Hin.
Qed.

Lemma sync_dump st : NoDup (map q_id (quotas st)) -> sync (quotas st) (dump st) = quotas st.
Proof.
  intro Hnd. unfold sync. transitivity (map (fun q : quota => q) (quotas st)); [|apply map_id].
  apply map_ext_in. intros q Hq.
  rewrite (assocZ_dump st q Hnd Hq). apply set_usage_id.
Qed.

Lemma sync_state_dump cfg wf st : INV cfg wf st -> sync_state st (dump st) = st.
Proof.
  intro I. unfold sync_state. rewrite (sync_dump _ (inv_nodup _ _ _ I)). destruct st; reflexivity.
Qed.

(* ---------- limits as logged and as in force agree on the declared dimensions ---------- *)
Lemma assocZ_limits cfg st pth a :
  NoDup (map q_id (quotas st)) -> (forall x, In x pth -> In x (quotas st)) -> In a pth ->
  assocZ (q_id a) (limits cfg st pth)
  = Some (vmk (fun d => if mget (q_decl a) d then vget (limit_of cfg st a) d else -1)).
Proof.
  intros Hnd Hsub. unfold limits. induction pth as [|x t IH]; intro Hin; [destruct Hin|].
  cbn [map assocZ]. destruct (q_id x =? q_id a) eqn:E.
  - apply Z.eqb_eq in E.
    assert (x = a) as ->.
    { apply (nodup_id_inj _ _ _ Hnd); [apply Hsub; left; reflexivity|apply Hsub; exact Hin|exact E]. }
    reflexivity.
  - destruct Hin as [->|Hin]; [rewrite Z.eqb_refl in E; discriminate|].
    apply IH; [intros y Hy; apply Hsub; right; exact Hy|exact Hin].
Qed.

Lemma lim_of_obs_limits cfg st pth a d :
  NoDup (map q_id (quotas st)) -> (forall x, In x pth -> In x (quotas st)) -> In a pth ->
  mget (q_decl a) d = true ->
  vget (lim_of_obs cfg (limits cfg st pth) a) d = vget (limit_of cfg st a) d.
Proof.
  intros Hnd Hsub Hin Hd. unfold lim_of_obs.
  destruct (rt_on cfg) eqn:Er.
  - rewrite (assocZ_limits cfg st pth a Hnd Hsub Hin). rewrite vget_vmk, Hd. reflexivity.
  - unfold limit_of. rewrite Er. reflexivity.
Qed.

Lemma all_dims_ext f g : (forall d, f d = g d) -> all_dims f = all_dims g.
Proof. intro H. unfold all_dims, dims. cbn. rewrite !H. reflexivity. Qed.

Lemma self_ok_ext q l1 l2 m :
  (forall d, mget (q_decl q) d = true -> vget l1 d = vget l2 d) -> self_ok q l1 m = self_ok q l2 m.
Proof.
  intro H. unfold self_ok. apply all_dims_ext. intro d.
  destruct (mget (q_decl q) d) eqn:E; cbn; [rewrite (H d E)|]; reflexivity.
Qed.
Lemma anc_ok_ext a l1 l2 rk m :
  (forall d, mget (q_decl a) d = true -> vget l1 d = vget l2 d) -> anc_ok a l1 rk m = anc_ok a l2 rk m.
Proof.
  intro H. unfold anc_ok. apply all_dims_ext. intro d.
  destruct (mget (q_decl a) d) eqn:E; cbn; [rewrite (H d E)|]; reflexivity.
Qed.

Lemma forallb_ext_in' {A} (f g : A -> bool) l :
  (forall x, In x l -> f x = g x) -> forallb f l = forallb g l.
Proof.
  induction l as [|x t IH]; intro H; [reflexivity|]. cbn [forallb].
  rewrite (H x (or_introl eq_refl)), IH; [reflexivity|]. intros y Hy. apply H. right. exact Hy.
Qed.

Lemma admissibleb_ext chk p q anc l1 l2 :
  (forall a, In a (q :: anc) -> forall d, mget (q_decl a) d = true -> vget (l1 a) d = vget (l2 a) d) ->
  admissibleb chk p q anc l1 = admissibleb chk p q anc l2.
Proof.
  intro H. unfold admissibleb. cbv zeta.
  rewrite (self_ok_ext q (l1 q) (l2 q)) by (apply H; left; reflexivity).
  f_equal. f_equal. apply forallb_ext_in'. intros a Ha.
  apply anc_ok_ext. apply H. right. exact Ha.
Qed.

(* ---------- one logged step passes the check ---------- *)
Lemma limits_ids cfg st pth : map fst (limits cfg st pth) = map q_id pth.
Proof. unfold limits. induction pth as [|x t IH]; [reflexivity|]. cbn [map fst]. rewrite IH. reflexivity. Qed.

Definition is_check (o : op) (id : Z) : Prop := o = OAttempt id \/ o = OCheck id.

Lemma step_attempt cfg st o id p :
  is_check o id -> find_pod id (pods st) = Some p ->
  o_status (snd (step cfg st o)) = admission cfg st p (path st (p_quota p))
  /\ o_limits (snd (step cfg st o)) = limits cfg st (path st (p_quota p)).
Proof. intros [-> | ->] H; unfold step; rewrite H; split; reflexivity. Qed.

Lemma step_attempt_none cfg st o id :
  is_check o id -> find_pod id (pods st) = None -> o_status (snd (step cfg st o)) = -1.
Proof. intros [-> | ->] H; unfold step; rewrite H; reflexivity. Qed.

Lemma check_attempt_model cfg wf st o id :
  is_check o id -> INV cfg wf st -> check_attempt cfg st id (snd (step cfg st o)) = 0.
Proof.
  intros Hc I. unfold check_attempt.
  destruct (find_pod id (pods st)) as [p|] eqn:Ef.
  2:{ rewrite (step_attempt_none cfg st o id Hc Ef). reflexivity. }
  destruct (step_attempt cfg st o id p Hc Ef) as [Es El]. rewrite Es, El. clear Es El.
  destruct (path st (p_quota p)) as [|q anc] eqn:Ep; [reflexivity|].
  assert (Hsub : forall x, In x (q :: anc) -> In x (quotas st)).
  { intros x Hx. rewrite <- Ep in Hx. exact (path_from_in _ _ _ _ Hx). }
  pose proof (inv_nodup _ _ _ I) as Hnd.
  assert (Hlim : forall a, In a (q :: anc) -> forall d, mget (q_decl a) d = true ->
            vget (lim_of_obs cfg (limits cfg st (q :: anc)) a) d = vget (limit_of cfg st a) d).
  { intros a Ha d Hd. apply lim_of_obs_limits; auto. }
  set (S := admission cfg st p (q :: anc)).
  assert (A1 : (S =? 0) || (S =? 1) = true).
  { destruct (admission_total cfg st p q anc) as [E|E]; unfold S; rewrite E; reflexivity. }
  assert (A2 : eq_ids (map fst (limits cfg st (q :: anc))) (map q_id (q :: anc)) = true).
  { rewrite limits_ids. apply eq_ids_refl. }
  assert (A3 : forallb (fun a => negb (quota_okb a)
                                 || used_le_maxb a (lim_of_obs cfg (limits cfg st (q :: anc)) a))
                       (q :: anc) = true).
  { apply forallb_forall. intros a Ha.
    destruct (quota_okb a) eqn:Eo; cbn [negb orb]; [|reflexivity].
    apply used_le_maxb_spec. intros d Hd. rewrite (Hlim a Ha d Hd).
    apply (limit_le_max cfg st a Hnd (Hsub a Ha) Eo (inv_creq _ _ _ I a (Hsub a Ha)) d Hd). }
  rewrite A1, A2, A3. cbn [negb]. rewrite andb_false_r.
  rewrite (admissibleb_ext (chk_parent cfg) p q anc _ _ Hlim).
  unfold S. rewrite admission_spec.
  destruct (admissibleb (chk_parent cfg) p q anc (limit_of cfg st)); reflexivity.
Qed.

Lemma force_model cfg st o : force cfg st o (o_status (snd (step cfg st o))) = fst (step cfg st o).
Proof.
  destruct o; try reflexivity. unfold force, step.
  destruct (find_pod id (pods st)); reflexivity.
Qed.

Lemma usage_exact_model wf st q :
  EXI wf st -> wf = true -> In q (quotas st) -> usage_exactb st q = true.
Proof.
  intros [_ E] W Hq. specialize (E W). unfold usage_exactb, vec_eqb.
  apply andb_true_iff. split; apply all_dims_spec; intro d; rewrite vget_vmk; apply Z.eqb_eq.
  - rewrite exp_used_expq. apply (E q Hq d).
  - rewrite exp_npused_expq. apply (E q Hq d).
Qed.

Lemma check_dump_model cfg wf st :
  INV cfg wf st -> EXI wf st -> forall s l, check_dump wf st (mkObs s l (dump st)) = 0.
Proof.
  intros I X s l. unfold check_dump. cbn [o_dump].
  replace (map fst (dump st)) with (map q_id (quotas st))
    by (unfold dump; rewrite map_map; reflexivity).
  rewrite eq_ids_refl. cbn [negb].
  rewrite (sync_dump _ (inv_nodup _ _ _ I)).
  destruct wf; cbn [andb]; [|reflexivity].
  assert (H6 : forallb (usage_exactb st) (quotas st) = true).
  { apply forallb_forall. intros q Hq. apply (usage_exact_model true st q X eq_refl Hq). }
  rewrite H6. cbn [negb].
  match goal with |- (if negb ?c then _ else _) = 0 => assert (Hc : c = true); [|rewrite Hc; reflexivity] end.
  apply forallb_forall. intros q Hq. destruct (q_taint q) eqn:Et; cbn [orb]; [reflexivity|].
  apply used_le_maxb_spec. exact (inv_used _ _ _ I eq_refl q Hq Et).
Qed.

Lemma step_obs_shape cfg st o :
  exists s l, snd (step cfg st o) = mkObs s l (dump (fst (step cfg st o))).
Proof.
  exists (o_status (snd (step cfg st o))), (o_limits (snd (step cfg st o))).
  rewrite <- step_dump. destruct (snd (step cfg st o)); reflexivity.
Qed.

Lemma check_op_model cfg wf st sn o :
  INV cfg wf st -> FL wf st sn -> EXI wf st ->
  check_op cfg (wf && op_okb st sn o) st o (snd (step cfg st o)) = 0.
Proof.
  intros I F X. unfold check_op.
  assert (Hc : match o with
               | OAttempt id | OCheck id => check_attempt cfg st id (snd (step cfg st o))
               | _ => 0
               end = 0).
  { destruct o; try reflexivity; apply (check_attempt_model cfg wf); auto; [left|right]; reflexivity. }
  rewrite Hc. cbn [Z.eqb negb]. rewrite force_model.
  destruct (step_obs_shape cfg st o) as (s & l & ->).
  apply (check_dump_model cfg _ _ (INV_step cfg wf st sn o I F X) (EXI_step cfg wf st sn o I X)).
Qed.

(* ---------- all histories ---------- *)
Theorem check_run cfg : forall ops wf st sn,
  INV cfg wf st -> FL wf st sn -> EXI wf st ->
  check cfg wf st sn (dump st) ops (run cfg st ops) = 0.
Proof.
  induction ops as [|o t IH]; intros wf st sn I F X; [reflexivity|].
  cbn [run]. destruct (step cfg st o) as [st' ob] eqn:Es. cbn [check].
  rewrite (sync_state_dump cfg wf st I).
  pose proof (check_op_model cfg wf st sn o I F X) as Hc. rewrite Es in Hc. cbn [snd] in Hc.
  rewrite Hc. cbn [Z.eqb negb].
  pose proof (force_model cfg st o) as Hfm. rewrite Es in Hfm. cbn [fst snd] in Hfm. rewrite Hfm.
  pose proof (step_dump cfg st o) as Hd. rewrite Es in Hd. cbn [fst snd] in Hd. rewrite Hd.
  apply IH.
  - pose proof (INV_step cfg wf st sn o I F X) as I'. rewrite Es in I'. exact I'.
  - pose proof (FL_step cfg wf st sn o I F) as F'. rewrite Es in F'. exact F'.
  - pose proof (EXI_step cfg wf st sn o I X) as X'. rewrite Es in X'. exact X'.
Qed.

Theorem prop_code_run cfg ops : prop_code cfg ops (run cfg init_state ops) = 0.
Proof.
  unfold prop_code.
  apply (check_run cfg ops true init_state None); [apply INV_init|apply FL_init|apply EXI_init].
Qed.
