(* C03 — whatever the decision procedure of Spec.v accepts satisfies the Props of Spec.v
   (so a 0 returned on the implementation's observation means the property holds of it). *)
From Coq Require Import List ZArith Bool Lia.
From Verif Require Import Lib.ListX C02.Model C03.Model C03.Spec C03.Proofs C03.Proofs_Check.
Import ListNotations.
Open Scope Z_scope.

Lemma check_attempt_sound cfg st id ob :
  check_attempt cfg st id ob = 0 -> attempt_holds cfg st id ob.
Proof.
  unfold check_attempt, attempt_holds. intros H p q anc Hp Hpath. cbv zeta.
  rewrite Hp, Hpath in H.
  destruct ((o_status ob =? 0) || (o_status ob =? 1)); cbn [negb] in H; [|discriminate].
  destruct (eq_ids (map fst (o_limits ob)) (map q_id (q :: anc))); cbn [negb] in H; [|discriminate].
  destruct (rt_on cfg && negb (forallb (fun a => negb (quota_okb a)
              || used_le_maxb a (lim_of_obs cfg (o_limits ob) a)) (q :: anc))) eqn:E5; [discriminate|].
  destruct (admissibleb (chk_parent cfg) p q anc (lim_of_obs cfg (o_limits ob))) eqn:Eo.
  - apply admissibleb_spec in Eo. split; [intros _; exact Eo|]. split.
    + intro H1. rewrite H1 in H. cbn in H. discriminate.
    + intros Hr a Ha Hok. rewrite Hr in E5. cbn [andb] in E5. apply negb_false_iff in E5.
      rewrite forallb_forall in E5. specialize (E5 a Ha). rewrite Hok in E5. cbn [negb orb] in E5.
      apply used_le_maxb_spec. exact E5.
  - assert (Hn : ~ admissible (chk_parent cfg) p q anc (lim_of_obs cfg (o_limits ob))).
    { intro Ha. apply admissibleb_spec in Ha. congruence. }
    split.
    + intro H0. rewrite H0 in H. cbn in H. discriminate.
    + split; [intros _; exact Hn|].
      intros Hr a Ha Hok. rewrite Hr in E5. cbn [andb] in E5. apply negb_false_iff in E5.
      rewrite forallb_forall in E5. specialize (E5 a Ha). rewrite Hok in E5. cbn [negb orb] in E5.
      apply used_le_maxb_spec. exact E5.
Qed.

Lemma vec_eqb_spec a b : vec_eqb a b = true -> forall d, vget a d = vget b d.
Proof. unfold vec_eqb. rewrite all_dims_spec. intros H d. specialize (H d). lia. Qed.

Lemma check_dump_sound wf st' ob :
  check_dump wf st' ob = 0 -> wf = true -> dump_holds st' ob.
Proof.
  unfold check_dump, dump_holds. intros H Hw q Hq.
  destruct (eq_ids (map fst (o_dump ob)) (map q_id (quotas st'))); cbn [negb] in H; [|discriminate].
  rewrite Hw in H. cbn [andb] in H.
  destruct (forallb (usage_exactb st') (sync (quotas st') (o_dump ob))) eqn:E6; cbn [negb] in H; [|discriminate].
  destruct (forallb (fun q => q_taint q || used_le_maxb q (q_used q)) (sync (quotas st') (o_dump ob))) eqn:E;
    cbn [negb] in H; [|discriminate].
  rewrite forallb_forall in E6, E. split.
  - intro d. specialize (E6 q Hq). unfold usage_exactb in E6. apply andb_true_iff in E6.
    destruct E6 as [A B]. pose proof (vec_eqb_spec _ _ A d) as A'. pose proof (vec_eqb_spec _ _ B d) as B'.
    rewrite vget_vmk in A', B'. split; assumption.
  - intro Ht. specialize (E q Hq). rewrite Ht in E. cbn [orb] in E.
    apply used_le_maxb_spec. exact E.
Qed.

Lemma check_op_sound cfg wf st o ob :
  check_op cfg wf st o ob = 0 -> step_holds cfg wf st o ob.
Proof.
  unfold check_op, step_holds. intro H.
  destruct (match o with
            | OAttempt id | OCheck id => check_attempt cfg st id ob
            | _ => 0
            end =? 0) eqn:E; cbn [negb] in H.
  - split.
    + intros id [-> | ->]; apply check_attempt_sound; apply Z.eqb_eq in E; exact E.
    + apply check_dump_sound. exact H.
  - apply Z.eqb_neq in E. congruence.
Qed.

(* the Prop decided by [check] over a whole observed history *)
Fixpoint holds (cfg : config) (wf : bool) (st : state) (sn : snap) (prev : list (Z * (vec * vec)))
         (ops : list op) (os : list obs) : Prop :=
  match ops, os with
  | [], [] => True
  | o :: ops', ob :: os' =>
    let st1 := sync_state st prev in
    let wf' := wf && op_okb st1 sn o in
    step_holds cfg wf' st1 o ob
    /\ holds cfg wf' (force cfg st1 o (o_status ob)) (track cfg st1 sn o) (o_dump ob) ops' os'
  | _, _ => False
  end.

Theorem check_sound cfg : forall ops os wf st sn prev,
  check cfg wf st sn prev ops os = 0 -> holds cfg wf st sn prev ops os.
Proof.
  induction ops as [|o t IH]; intros [|ob os'] wf st sn prev; cbn [check holds]; try discriminate; auto.
  intro H.
  destruct (check_op cfg (wf && op_okb (sync_state st prev) sn o) (sync_state st prev) o ob =? 0) eqn:E;
    cbn [negb] in H.
  - apply Z.eqb_eq in E. split; [apply check_op_sound; exact E|apply IH; exact H].
  - apply Z.eqb_neq in E. congruence.
Qed.

Theorem prop_code_sound cfg ops os :
  prop_code cfg ops os = 0 -> holds cfg true init_state None [] ops os.
Proof. apply check_sound. Qed.
