(* C03 — basic lemmas: dimensions, vectors, lookups, the admission decision. *)
From Coq Require Import List ZArith Bool Lia.
From Verif Require Import Lib.ListX C02.Model C03.Model C03.Spec.
Import ListNotations.
Open Scope Z_scope.

(* ---------- dimensions ---------- *)
Lemma all_dims_spec f : all_dims f = true <-> forall d, f d = true.
Proof.
  unfold all_dims, dims. cbn [forallb]. rewrite !andb_true_iff. split.
  - intros (Hc & Hm & He & _) d. destruct d; assumption.
  - intro H. repeat split; apply H.
Qed.

Lemma all_dims_false f : all_dims f = false -> exists d, f d = false.
Proof.
  unfold all_dims, dims. cbn [forallb]. intro H.
  destruct (f Cpu) eqn:Ec; [|exists Cpu; exact Ec].
  destruct (f Mem) eqn:Em; [|exists Mem; exact Em].
  destruct (f Ext) eqn:Ee; [|exists Ext; exact Ee].
  discriminate H.
Qed.

Lemma forallb_false_exists {A} (f : A -> bool) l :
  forallb f l = false -> exists x, In x l /\ f x = false.
Proof.
  induction l as [|x t IH]; cbn [forallb]; [discriminate|].
  destruct (f x) eqn:E; cbn.
  - intro H. destruct (IH H) as (y & Hy & Hf). exists y. split; [right; exact Hy|exact Hf].
  - intros _. exists x. split; [left; reflexivity|exact E].
Qed.

Lemma any_dim_false f : any_dim f = false <-> forall d, f d = false.
Proof.
  unfold any_dim, dims. cbn [existsb]. rewrite !orb_false_iff. split.
  - intros (Hc & Hm & He & _) d. destruct d; assumption.
  - intro H. repeat split; apply H.
Qed.

Lemma vget_vmk f d : vget (vmk f) d = f d.
Proof. destruct d; reflexivity. Qed.
Lemma mget_mmk f d : mget (mmk f) d = f d.
Proof. destruct d; reflexivity. Qed.

Lemma vec_ext a b : (forall d, vget a d = vget b d) -> a = b.
Proof.
  intro H. destruct a as [a1 a2 a3], b as [b1 b2 b3].
  pose proof (H Cpu) as H1. pose proof (H Mem) as H2. pose proof (H Ext) as H3.
  cbn in H1, H2, H3. subst. reflexivity.
Qed.

Lemma vget_vadd a b d : vget (vadd a b) d = vget a d + vget b d.
Proof. unfold vadd. apply vget_vmk. Qed.
Lemma vget_vsub_clamp a b d : vget (vsub_clamp a b) d = Z.max 0 (vget a d - vget b d).
Proof. unfold vsub_clamp. apply vget_vmk. Qed.
Lemma vget_vmask m v d : vget (vmask m v) d = if mget m d then vget v d else 0.
Proof. unfold vmask. apply vget_vmk. Qed.
Lemma vget_vzero d : vget vzero d = 0.
Proof. destruct d; reflexivity. Qed.

Lemma vec_nonnegb_spec v : vec_nonnegb v = true <-> forall d, 0 <= vget v d.
Proof.
  unfold vec_nonnegb. rewrite all_dims_spec. split; intros H d; specialize (H d); lia.
Qed.

Lemma mask_eqb_spec a b : mask_eqb a b = true <-> forall d, mget a d = mget b d.
Proof.
  unfold mask_eqb. change (forallb ?f dims) with (all_dims f). rewrite all_dims_spec.
  split; intros H d; specialize (H d).
  - apply eqb_prop in H. exact H.
  - rewrite H. apply eqb_reflx.
Qed.

(* ---------- setters ---------- *)
Lemma set_usage_id q : set_usage q (q_used q) (q_npused q) = q.
Proof. destruct q; reflexivity. Qed.

(* ---------- lookups ---------- *)
Lemma find_quota_some id qs q : find_quota id qs = Some q -> In q qs /\ q_id q = id.
Proof.
  induction qs as [|x t IH]; cbn [find_quota]; [discriminate|].
  destruct (q_id x =? id) eqn:E.
  - intro H. injection H as <-. split; [left; reflexivity|lia].
  - intro H. destruct (IH H) as [Hi He]. split; [right; exact Hi|exact He].
Qed.

Lemma find_quota_none id qs : find_quota id qs = None -> ~ In id (map q_id qs).
Proof.
  induction qs as [|x t IH]; cbn [find_quota map]; [intros _ []|].
  destruct (q_id x =? id) eqn:E; [discriminate|].
  intros H [Hx|Ht]; [lia|exact (IH H Ht)].
Qed.

Lemma find_quota_nodup id qs q :
  NoDup (map q_id qs) -> In q qs -> q_id q = id -> find_quota id qs = Some q.
Proof.
  induction qs as [|x t IH]; cbn [find_quota map]; intros Hnd Hin Hid; [destruct Hin|].
  inversion Hnd as [|? ? Hx Ht]; subst.
  destruct Hin as [->|Hin].
  - rewrite Z.eqb_refl. reflexivity.
  - destruct (q_id x =? q_id q) eqn:E.
    + exfalso. apply Hx. apply Z.eqb_eq in E. rewrite E. apply in_map. exact Hin.
    + apply IH; auto.
Qed.

Lemma find_pod_some id ps p : find_pod id ps = Some p -> In p ps /\ p_id p = id.
Proof.
  induction ps as [|x t IH]; cbn [find_pod]; [discriminate|].
  destruct (p_id x =? id) eqn:E.
  - intro H. injection H as <-. split; [left; reflexivity|lia].
  - intro H. destruct (IH H) as [Hi He]. split; [right; exact Hi|exact He].
Qed.

Lemma mem_id_spec x l : mem_id x l = true <-> In x l.
Proof.
  unfold mem_id. rewrite existsb_exists. split.
  - intros (y & Hy & E). apply Z.eqb_eq in E. subst. exact Hy.
  - intro H. exists x. split; [exact H|apply Z.eqb_refl].
Qed.

(* every element of a path is a stored quota; each ancestor is the parent of the element before it *)
Lemma path_from_in fuel qs id q : In q (path_from fuel qs id) -> In q qs.
Proof.
  revert id. induction fuel as [|f IH]; intros id; cbn [path_from]; [intros []|].
  destruct (id =? 0); [intros []|].
  destruct (find_quota id qs) as [x|] eqn:E; [|intros []].
  intros [<-|H]; [apply (find_quota_some _ _ _ E)|exact (IH _ H)].
Qed.

Lemma path_from_head fuel qs id q t :
  path_from fuel qs id = q :: t -> find_quota id qs = Some q /\ id <> 0.
Proof.
  destruct fuel as [|f]; cbn [path_from]; [discriminate|].
  destruct (id =? 0) eqn:E0; [discriminate|].
  destruct (find_quota id qs) as [x|]; [|discriminate].
  intro H. injection H as -> _. split; [reflexivity|lia].
Qed.

(* every ancestor on a path is the parent of some quota of the path *)
Lemma path_from_anc fuel qs id q t a :
  path_from fuel qs id = q :: t -> In a t ->
  exists c, In c qs /\ q_parent c = q_id a /\ q_parent c <> 0.
Proof.
  revert id q t. induction fuel as [|f IH]; intros id q t; cbn [path_from]; [discriminate|].
  destruct (id =? 0); [discriminate|].
  destruct (find_quota id qs) as [x|] eqn:E; [|discriminate].
  intros H Ha. injection H as <- <-.
  destruct (path_from f qs (q_parent x)) as [|y t'] eqn:Ep; [destruct Ha|].
  destruct Ha as [->|Ha].
  - destruct (path_from_head _ _ _ _ _ Ep) as [Hf Hn].
    exists x. split; [apply (find_quota_some _ _ _ E)|].
    split; [symmetry; apply (find_quota_some _ _ _ Hf)|exact Hn].
  - exact (IH _ _ _ Ep Ha).
Qed.

(* ---------- the admission decision ---------- *)
Lemma self_ok_spec q lim mreq : self_ok q lim mreq = true <-> self_within q lim mreq.
Proof.
  unfold self_ok, self_within. rewrite all_dims_spec.
  split; intros H d; specialize (H d).
  - intro Hd. rewrite Hd in H. cbn in H. lia.
  - destruct (mget (q_decl q) d); cbn; [apply Z.leb_le; auto|reflexivity].
Qed.

Lemma np_ok_spec q mreq : np_ok q mreq = true <-> np_within q mreq.
Proof.
  unfold np_ok, np_within. rewrite all_dims_spec.
  split; intros H d; specialize (H d).
  - intro Hd. rewrite Hd in H. cbn in H. lia.
  - destruct (mget (q_mindecl q) d); cbn; [apply Z.leb_le; auto|reflexivity].
Qed.

Lemma anc_ok_spec a lim rk mreq : anc_ok a lim rk mreq = true <-> anc_within a lim rk mreq.
Proof.
  unfold anc_ok, anc_within. rewrite all_dims_spec.
  split; intros H d; specialize (H d).
  - intros Hd Hp. rewrite Hd, Hp in H. cbn in H. lia.
  - destruct (mget (q_decl a) d); cbn; [|reflexivity].
    destruct (mget rk d) eqn:E; cbn; [|reflexivity].
    apply Z.leb_le. apply H; reflexivity.
Qed.

Lemma admissibleb_spec chk p q anc lim :
  admissibleb chk p q anc lim = true <-> admissible chk p q anc lim.
Proof.
  unfold admissibleb, admissible. cbv zeta.
  rewrite !andb_true_iff, self_ok_spec. split.
  - intros [[Hs Hn] Ha]. split; [exact Hs|]. split.
    + intro Hp. rewrite Hp in Hn. cbn in Hn. apply np_ok_spec. exact Hn.
    + intro Hc. rewrite Hc in Ha. cbn in Ha. rewrite forallb_forall in Ha.
      apply Forall_forall. intros a Hin. apply anc_ok_spec. exact (Ha a Hin).
  - intros (Hs & Hn & Ha). split; [split; [exact Hs|]|].
    + destruct (p_np p); cbn [negb orb]; [|reflexivity].
      apply np_ok_spec. apply Hn. reflexivity.
    + destruct chk; cbn [negb orb]; [|reflexivity]. apply forallb_forall. intros a Hin.
      apply anc_ok_spec. specialize (Ha eq_refl). rewrite Forall_forall in Ha. exact (Ha a Hin).
Qed.

Lemma admission_spec cfg st p q anc :
  admission cfg st p (q :: anc)
  = if admissibleb (chk_parent cfg) p q anc (limit_of cfg st) then 0 else 1.
Proof.
  unfold admission, admissibleb. cbv zeta.
  destruct (self_ok q (limit_of cfg st q) (vmask (q_decl q) (p_req p))); cbn [negb andb orb]; [|reflexivity].
  destruct (p_np p); cbn [negb andb orb].
  - destruct (np_ok q (vmask (q_decl q) (p_req p))); cbn [negb andb orb]; [|reflexivity].
    destruct (chk_parent cfg); cbn [negb andb orb]; [|reflexivity].
    destruct (forallb _ anc); reflexivity.
  - destruct (chk_parent cfg); cbn [negb andb orb]; [|reflexivity].
    destruct (forallb _ anc); reflexivity.
Qed.

Lemma admission_sound cfg st p q anc :
  admission cfg st p (q :: anc) = 0 -> admissible (chk_parent cfg) p q anc (limit_of cfg st).
Proof.
  rewrite admission_spec.
  destruct (admissibleb _ p q anc _) eqn:E; [intros _; apply admissibleb_spec; exact E|discriminate].
Qed.

Lemma admission_complete cfg st p q anc :
  admission cfg st p (q :: anc) = 1 -> ~ admissible (chk_parent cfg) p q anc (limit_of cfg st).
Proof.
  rewrite admission_spec.
  destruct (admissibleb _ p q anc _) eqn:E; [discriminate|].
  intros _ H. apply admissibleb_spec in H. congruence.
Qed.

Lemma admission_total cfg st p q anc :
  admission cfg st p (q :: anc) = 0 \/ admission cfg st p (q :: anc) = 1.
Proof. rewrite admission_spec. destruct (admissibleb _ _ _ _ _); auto. Qed.

(* a rejection names the limit that would be passed *)
Definition exceeds_self (q : quota) (lim mreq : vec) : Prop :=
  exists d, mget (q_decl q) d = true /\ vget lim d < vget (q_used q) d + vget mreq d.
Definition exceeds_np (q : quota) (mreq : vec) : Prop :=
  exists d, mget (q_mindecl q) d = true /\ vget (q_min q) d < vget (q_npused q) d + vget mreq d.
Definition exceeds_anc (a : quota) (lim : vec) (rk : mask) (mreq : vec) : Prop :=
  exists d, mget (q_decl a) d = true /\ mget rk d = true
            /\ vget lim d < vget (q_used a) d + vget mreq d.

Lemma self_ok_false q lim mreq : self_ok q lim mreq = false -> exceeds_self q lim mreq.
Proof.
  unfold self_ok. intro H. apply all_dims_false in H. destruct H as [d Hd].
  exists d. destruct (mget (q_decl q) d); cbn in Hd; [|discriminate].
  split; [reflexivity|lia].
Qed.
Lemma np_ok_false q mreq : np_ok q mreq = false -> exceeds_np q mreq.
Proof.
  unfold np_ok. intro H. apply all_dims_false in H. destruct H as [d Hd].
  exists d. destruct (mget (q_mindecl q) d); cbn in Hd; [|discriminate].
  split; [reflexivity|lia].
Qed.
Lemma anc_ok_false a lim rk mreq : anc_ok a lim rk mreq = false -> exceeds_anc a lim rk mreq.
Proof.
  unfold anc_ok. intro H. apply all_dims_false in H. destruct H as [d Hd].
  exists d. destruct (mget (q_decl a) d); cbn in Hd; [|discriminate].
  destruct (mget rk d) eqn:E; cbn in Hd; [|discriminate].
  repeat split; lia.
Qed.

Lemma admission_reject_witness cfg st p q anc :
  admission cfg st p (q :: anc) = 1 ->
  let mreq := vmask (q_decl q) (p_req p) in
  exceeds_self q (limit_of cfg st q) mreq
  \/ (p_np p = true /\ exceeds_np q mreq)
  \/ (chk_parent cfg = true
      /\ exists a, In a anc /\ exceeds_anc a (limit_of cfg st a) (req_keys q p) mreq).
Proof.
  unfold admission. cbv zeta.
  destruct (self_ok q (limit_of cfg st q) (vmask (q_decl q) (p_req p))) eqn:Es; cbn [negb andb orb].
  2:{ intros _. left. apply self_ok_false. exact Es. }
  destruct (p_np p) eqn:En; cbn [negb andb orb].
  - destruct (np_ok q (vmask (q_decl q) (p_req p))) eqn:Ep; cbn [negb andb orb].
    2:{ intros _. right. left. split; [reflexivity|apply np_ok_false; exact Ep]. }
    destruct (chk_parent cfg) eqn:Ec; cbn [negb andb orb]; [|discriminate].
    destruct (forallb _ anc) eqn:Ef; cbn [negb andb orb]; [discriminate|].
    intros _. right. right. split; [reflexivity|].
    apply forallb_false_exists in Ef. destruct Ef as (a & Ha & Hf).
    exists a. split; [exact Ha|apply anc_ok_false; exact Hf].
  - destruct (chk_parent cfg) eqn:Ec; cbn [negb andb orb]; [|discriminate].
    destruct (forallb _ anc) eqn:Ef; cbn [negb andb orb]; [discriminate|].
    intros _. right. right. split; [reflexivity|].
    apply forallb_false_exists in Ef. destruct Ef as (a & Ha & Hf).
    exists a. split; [exact Ha|apply anc_ok_false; exact Hf].
Qed.
