(* C03 — proofs about the model (see Properties.v for the exported statements). *)
From Coq Require Import List ZArith Bool Lia.
From Verif Require Import Lib.ListX C02.Model C03.Model C03.Spec.
Import ListNotations.
Open Scope Z_scope.

Lemma all_dims_spec f : all_dims f = true <-> forall d, f d = true.
Proof.
  unfold all_dims, dims. cbn [forallb]. rewrite !andb_true_iff. split.
  - intros (Hc & Hm & He & _) d. destruct d; assumption.
  - intro H. repeat split; apply H.
Qed.
