(* C03 — the invariant kept by every operation of every history. *)
From Coq Require Import List ZArith Bool Lia.
From Verif Require Import Lib.ListX C02.Model C03.Model C03.Spec C03.Proofs C03.Proofs_Runtime.
Import ListNotations.
Open Scope Z_scope.

(* ---------- the invariant ---------- *)
Definition used_ok (q : quota) : Prop := q_taint q = false -> used_le_max q (q_used q).

(* when parent checking is off, a quota that has a child quota is not promised anything *)
Definition taint_parents (cfg : config) (qs : list quota) : Prop :=
  chk_parent cfg = false ->
  forall c x, In c qs -> In x qs -> q_parent c <> 0 -> q_id x = q_parent c -> q_taint x = true.
Definition parents_exist (qs : list quota) : Prop :=
  forall c, In c qs -> q_parent c <> 0 -> In (q_parent c) (map q_id qs).

Record INV (cfg : config) (wf : bool) (st : state) : Prop := mkINV {
  inv_nodup : NoDup (map q_id (quotas st));
  inv_creq : forall q, In q (quotas st) -> creq_capped q;
  inv_par : taint_parents cfg (quotas st);
  inv_pex : parents_exist (quotas st);
  inv_used : wf = true -> forall q, In q (quotas st) -> used_ok q;
  inv_ok : wf = true -> forall q, In q (quotas st) -> quota_okb q = true;
  inv_pods : wf = true -> forall p, In p (pods st) -> pod_okb (p_req p) (p_keys p) = true }.

Lemma INV_init cfg wf : INV cfg wf init_state.
Proof.
  constructor; cbn; try (intros; contradiction).
  - constructor.
  - intros _ c x [].
  - intros c [].
Qed.

(* ---------- pointwise updates of the quota table ---------- *)
(* an update that keeps identity and never clears the ghost flag *)
Definition keeps (h : quota -> quota) : Prop :=
  forall q, q_id (h q) = q_id q /\ q_parent (h q) = q_parent q
            /\ (q_taint q = true -> q_taint (h q) = true).

Lemma map_ids h qs : keeps h -> map q_id (map h qs) = map q_id qs.
Proof.
  intro K. rewrite map_map. apply map_ext. intro q. apply K.
Qed.

Lemma forall_map (P : quota -> Prop) h qs :
  (forall q, In q qs -> P q) -> (forall q, In q qs -> P q -> P (h q)) ->
  forall q, In q (map h qs) -> P q.
Proof.
  intros H1 H2 q Hq. apply in_map_iff in Hq. destruct Hq as (x & <- & Hx). auto.
Qed.

Lemma par_map cfg h qs : keeps h -> taint_parents cfg qs -> taint_parents cfg (map h qs).
Proof.
  intros K H Hc c x Hcin Hxin Hp Hid.
  apply in_map_iff in Hcin. destruct Hcin as (c0 & <- & Hc0).
  apply in_map_iff in Hxin. destruct Hxin as (x0 & <- & Hx0).
  destruct (K c0) as (_ & Kp & _). destruct (K x0) as (Ki & _ & Kt).
  apply Kt. apply (H Hc c0 x0); auto; congruence.
Qed.

Lemma pex_map h qs : keeps h -> parents_exist qs -> parents_exist (map h qs).
Proof.
  intros K H c Hcin Hp.
  apply in_map_iff in Hcin. destruct Hcin as (c0 & <- & Hc0).
  rewrite (map_ids _ _ K). destruct (K c0) as (_ & Kp & _). rewrite Kp in *. auto.
Qed.

Lemma nodup_id_inj qs a b :
  NoDup (map q_id qs) -> In a qs -> In b qs -> q_id a = q_id b -> a = b.
Proof.
  intros Hnd Ha Hb E.
  pose proof (find_quota_nodup _ _ _ Hnd Ha eq_refl) as H1.
  pose proof (find_quota_nodup _ _ _ Hnd Hb (eq_sym E)) as H2. congruence.
Qed.

(* the individual updates *)
Lemma keeps_cond (c : quota -> bool) g : keeps g -> keeps (fun q => if c q then g q else q).
Proof. intros K q. destruct (c q); [apply K|auto]. Qed.

Lemma keeps_set_usage f g : keeps (fun q => set_usage q (f q) (g q)).
Proof. intro q. cbn. auto. Qed.
Lemma keeps_set_taint_true : keeps (fun q => set_taint q true).
Proof. intro q. cbn. auto. Qed.
Lemma keeps_set_creq f : keeps (fun q => set_creq q (f q)).
Proof. intro q. cbn. auto. Qed.

Lemma keeps_upd_used ids f g : keeps (fun q => if mem_id (q_id q) ids
                                              then set_usage q (f (q_used q)) (g (q_npused q)) else q).
Proof. apply keeps_cond. apply (keeps_set_usage (fun q => f (q_used q)) (fun q => g (q_npused q))). Qed.

(* refresh: only the request copy changes, and the fresh copy is capped by max *)
Lemma limreq_capped fuel qs ps q :
  creq_capped (set_creq q (vmk (limreq fuel qs ps q))).
Proof.
  intros d Hd. change (mget (q_decl q) d = true) in Hd.
  change (vget (vmk (limreq fuel qs ps q)) d <= Z.max 0 (vget (q_max q) d)).
  rewrite vget_vmk. unfold limreq. rewrite Hd. lia.
Qed.

Section Preserve.
  Variable cfg : config.

  (* --- refresh --- *)
  Lemma INV_refresh wf ids qs ps tot :
    INV cfg wf (mkState qs ps tot) -> forall ps', (wf = true -> forall p, In p ps' -> pod_okb (p_req p) (p_keys p) = true) ->
    INV cfg wf (mkState (refresh ids qs ps') ps' tot).
  Proof.
    intros I ps' Hps. destruct I as [Hnd Hcr Hpar Hpex Hus Hok Hpo]. cbn in *.
    set (h := fun q => if mem_id (q_id q) ids then set_creq q (vmk (limreq (length qs) qs ps' q)) else q).
    assert (K : keeps h).
    { apply keeps_cond. apply (keeps_set_creq (fun q => vmk (limreq (length qs) qs ps' q))). }
    constructor; cbn; unfold refresh; fold h.
    - rewrite (map_ids _ _ K). exact Hnd.
    - apply forall_map; [exact Hcr|]. intros q _ Hq. unfold h.
      destruct (mem_id (q_id q) ids); [apply limreq_capped|exact Hq].
    - apply par_map; assumption.
    - apply pex_map; assumption.
    - intro Hw. apply forall_map; [exact (Hus Hw)|]. intros q _ Hq. unfold h.
      destruct (mem_id (q_id q) ids); exact Hq.
    - intro Hw. apply forall_map; [exact (Hok Hw)|]. intros q _ Hq. unfold h.
      destruct (mem_id (q_id q) ids); exact Hq.
    - exact Hps.
  Qed.

  (* --- tainting --- *)
  Lemma INV_taint wf ids qs ps tot :
    INV cfg wf (mkState qs ps tot) -> INV cfg wf (mkState (taint_ids ids qs) ps tot).
  Proof.
    intros I. destruct I as [Hnd Hcr Hpar Hpex Hus Hok Hpo]. cbn in *.
    set (h := fun q => if mem_id (q_id q) ids then set_taint q true else q).
    assert (K : keeps h) by (apply keeps_cond, keeps_set_taint_true).
    constructor; cbn; unfold taint_ids; fold h.
    - rewrite (map_ids _ _ K). exact Hnd.
    - apply forall_map; [exact Hcr|]. intros q _ Hq. unfold h.
      destruct (mem_id (q_id q) ids); exact Hq.
    - apply par_map; assumption.
    - apply pex_map; assumption.
    - intro Hw. apply forall_map; [exact (Hus Hw)|]. intros q _ Hq. unfold h.
      destruct (mem_id (q_id q) ids); [intro Ht; discriminate Ht|exact Hq].
    - intro Hw. apply forall_map; [exact (Hok Hw)|]. intros q _ Hq. unfold h.
      destruct (mem_id (q_id q) ids); exact Hq.
    - exact Hpo.
  Qed.

  Lemma taint_ids_tainted ids qs q :
    In q (taint_ids ids qs) -> In (q_id q) ids -> q_taint q = true.
  Proof.
    intros Hq Hid. unfold taint_ids in Hq. apply in_map_iff in Hq. destruct Hq as (x & <- & Hx).
    destruct (mem_id (q_id x) ids) eqn:E; [reflexivity|].
    exfalso. apply mem_id_spec in Hid. congruence.
  Qed.

  (* --- usage updates --- *)
  Lemma INV_upd_used wf ids f g qs ps ps' tot :
    INV cfg wf (mkState qs ps tot) ->
    (wf = true -> forall q, In q qs -> In (q_id q) ids -> q_taint q = false ->
                  used_le_max q (f (q_used q))) ->
    (wf = true -> forall p, In p ps' -> pod_okb (p_req p) (p_keys p) = true) ->
    INV cfg wf (mkState (upd_used ids f g qs) ps' tot).
  Proof.
    intros I Hnew Hps. destruct I as [Hnd Hcr Hpar Hpex Hus Hok Hpo]. cbn in *.
    set (h := fun q => if mem_id (q_id q) ids then set_usage q (f (q_used q)) (g (q_npused q)) else q).
    assert (K : keeps h) by apply keeps_upd_used.
    constructor; cbn; unfold upd_used; fold h.
    - rewrite (map_ids _ _ K). exact Hnd.
    - apply forall_map; [exact Hcr|]. intros q _ Hq. unfold h.
      destruct (mem_id (q_id q) ids); exact Hq.
    - apply par_map; assumption.
    - apply pex_map; assumption.
    - intro Hw. apply forall_map; [exact (Hus Hw)|]. intros q Hin Hq. unfold h.
      destruct (mem_id (q_id q) ids) eqn:E; [|exact Hq].
      intro Ht. cbn in Ht. apply (Hnew Hw q Hin); [apply mem_id_spec; exact E|exact Ht].
    - intro Hw. apply forall_map; [exact (Hok Hw)|]. intros q _ Hq. unfold h.
      destruct (mem_id (q_id q) ids); exact Hq.
    - exact Hps.
  Qed.
End Preserve.

(* ---------- pods ---------- *)
Lemma in_set_assigned id b ps p :
  In p (set_assigned id b ps) -> exists p0, In p0 ps /\ p_req p = p_req p0 /\ p_keys p = p_keys p0.
Proof.
  unfold set_assigned. intro H. apply in_map_iff in H. destruct H as (x & <- & Hx).
  exists x. split; [exact Hx|]. destruct (p_id x =? id); split; reflexivity.
Qed.
Lemma in_remove_pod id ps p : In p (remove_pod id ps) -> In p ps.
Proof. unfold remove_pod. intro H. apply filter_In in H. apply H. Qed.

Lemma pod_delta_path st p q anc :
  path st (p_quota p) = q :: anc -> pod_delta st p = vmask (q_decl q) (p_req p).
Proof.
  unfold path, pod_delta. intro H. apply path_from_head in H. destruct H as [H _].
  rewrite H. reflexivity.
Qed.

Lemma pod_okb_spec req keys :
  pod_okb req keys = true ->
  (forall d, 0 <= vget req d) /\ (forall d, mget keys d = false -> vget req d = 0).
Proof.
  unfold pod_okb. intro H. apply andb_true_iff in H. destruct H as [H1 H2].
  rewrite vec_nonnegb_spec in H1. rewrite all_dims_spec in H2. split; [exact H1|].
  intros d Hk. specialize (H2 d). rewrite Hk in H2. cbn in H2. lia.
Qed.

Lemma vmask_nonneg m v k : pod_okb v k = true -> forall d, 0 <= vget (vmask m v) d.
Proof.
  intros H d. rewrite vget_vmask. destruct (pod_okb_spec _ _ H) as [H1 _]. specialize (H1 d).
  destruct (mget m d); lia.
Qed.

(* outside the keys the ancestor check looks at, the masked request is zero *)
Lemma mreq_zero_outside q p d :
  pod_okb (p_req p) (p_keys p) = true -> mget (req_keys q p) d = false ->
  vget (vmask (q_decl q) (p_req p)) d = 0.
Proof.
  intros H Hk. unfold req_keys in Hk. rewrite mget_mmk in Hk. rewrite vget_vmask.
  destruct (mget (q_decl q) d); [|reflexivity].
  rewrite andb_true_r in Hk. apply (proj2 (pod_okb_spec _ _ H)). exact Hk.
Qed.

Lemma pod_delta_nonneg st p : pod_okb (p_req p) (p_keys p) = true -> forall d, 0 <= vget (pod_delta st p) d.
Proof.
  intros H d. unfold pod_delta. destruct (find_quota (p_quota p) (quotas st)).
  - apply (vmask_nonneg _ _ (p_keys p)). exact H.
  - rewrite vget_vzero. lia.
Qed.

(* ---------- refund never raises usage ---------- *)
Lemma refund_used_ok cfg st p :
  INV cfg true st -> pod_okb (p_req p) (p_keys p) = true ->
  forall q, In q (quotas st) -> q_taint q = false ->
            used_le_max q (vsub_clamp (q_used q) (pod_delta st p)).
Proof.
  intros I Hp q Hq Ht d Hd. rewrite vget_vsub_clamp.
  pose proof (inv_used _ _ _ I eq_refl q Hq Ht d Hd) as Hu.
  pose proof (inv_ok _ _ _ I eq_refl q Hq) as Hok.
  destruct (quota_okb_spec q Hok d) as [H0 _]. specialize (H0 Hd).
  pose proof (pod_delta_nonneg st p Hp d). lia.
Qed.

(* ---------- an admitted pod keeps every untainted quota of its path within max ---------- *)
Lemma charge_used_ok cfg st p q anc :
  INV cfg true st -> pod_okb (p_req p) (p_keys p) = true ->
  path st (p_quota p) = q :: anc ->
  admission cfg st p (q :: anc) = 0 ->
  forall x, In x (quotas st) -> In (q_id x) (map q_id (q :: anc)) -> q_taint x = false ->
            used_le_max x (vadd (q_used x) (pod_delta st p)).
Proof.
  intros I Hp Hpath Hadm x Hx Hid Ht.
  rewrite (pod_delta_path _ _ _ _ Hpath).
  apply admission_sound in Hadm. destruct Hadm as (Hself & _ & Hanc).
  apply in_map_iff in Hid. destruct Hid as (y & Hy & Hyin).
  assert (Hyq : In y (quotas st)) by (apply (path_from_in _ _ _ _ (eq_ind_r (fun l => In y l) Hyin Hpath))).
  assert (y = x) as -> by (apply (nodup_id_inj _ _ _ (inv_nodup _ _ _ I)); auto).
  pose proof (limit_le_max cfg st x (inv_nodup _ _ _ I) Hx (inv_ok _ _ _ I eq_refl x Hx)
                           (inv_creq _ _ _ I x Hx)) as Hlim.
  intros d Hd. rewrite vget_vadd. specialize (Hlim d Hd).
  destruct Hyin as [<-|Hyin].
  - specialize (Hself d Hd). lia.
  - destruct (chk_parent cfg) eqn:Ec.
    + specialize (Hanc eq_refl). rewrite Forall_forall in Hanc. specialize (Hanc x Hyin d Hd).
      destruct (mget (req_keys q p) d) eqn:E.
      * specialize (Hanc eq_refl). lia.
      * rewrite (mreq_zero_outside q p d Hp E).
        pose proof (inv_used _ _ _ I eq_refl x Hx Ht d Hd). lia.
    + exfalso. unfold path in Hpath.
      destruct (path_from_anc _ _ _ _ _ _ Hpath Hyin) as (c & Hc & Hpc & Hnz).
      pose proof (inv_par _ _ _ I Ec c x Hc Hx Hnz (eq_sym Hpc)). congruence.
Qed.
