(* C03 — extraction of the entry points (coq/C03/Entry.v) for the generic OCaml driver. *)
From Verif Require Import C03.Entry.
Require Extraction.
Require Import ExtrOcamlBasic.
Extraction "model.ml" run_case prop_case nontrivial_case finding_sig.
