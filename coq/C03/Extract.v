(* C03 — entry points of the extracted model for the generic OCaml driver. *)
From Coq Require Import List ZArith Bool.
From Verif Require Import Lib.Wire C03.Model C03.Spec C03.Codec.
Import ListNotations.
Open Scope Z_scope.

Definition run_case (inp : list Z) : list Z :=
  let '(cfg, ops) := decode inp in
  flat_map enc_obs (run cfg init_state ops).

Definition prop_case (inp obs : list Z) : Z :=
  let '(cfg, ops) := decode inp in
  match obs with
  | [-777777] => 99
  | _ => prop_code cfg ops (parse_obs (length ops) obs)
  end.

(* non-trivial: at least one attempt admitted and at least one rejected (by the model) *)
Definition nontrivial_case (inp : list Z) : bool :=
  let '(cfg, ops) := decode inp in
  let os := run cfg init_state ops in
  let att := map snd (filter (fun x => match fst x with OAttempt _ => true | _ => false end)
                             (combine ops os)) in
  existsb (fun o => o_status o =? 0) att && existsb (fun o => o_status o =? 1) att.

Definition finding_sig (inp obs : list Z) : Z := 0.

Require Extraction.
Require Import ExtrOcamlBasic.
Extraction "model.ml" run_case prop_case nontrivial_case finding_sig.
