(* C03 — example histories (non-vacuity of the hypotheses, necessity of the exclusions). *)
From Coq Require Import List ZArith Bool.
From Verif Require Import C02.Model C03.Model C03.Spec C03.Proofs_Hist.
Import ListNotations.
Open Scope Z_scope.

Definition v3 (a b c : Z) : vec := mkVec a b c.
Definition cm : mask := mkMask true true false.
Definition am : mask := mkMask true true true.
(* a parent with two children, pending pods, attempts (admitted and rejected), roll-back,
   a PreFilter whose Reserve comes three events later, deletion, a max raise, capacity changes *)
Definition ex_hist : list op :=
  [ OCapacity (v3 20 40 0);
    OQuotaAdd 2 0 true cm (v3 10 20 0) cm (v3 4 8 0) (v3 0 0 0);
    OQuotaAdd 3 2 true cm (v3 6 20 0) cm (v3 2 4 0) (v3 0 0 0);
    OQuotaAdd 5 2 false cm (v3 8 10 0) cm (v3 2 4 0) (v3 1 1 0);
    OPodAdd 1 3 false (v3 4 5 7) am false; OPodAdd 2 3 false (v3 3 5 0) cm false; OPodAdd 3 5 true (v3 2 2 0) cm false;
    OPodAdd 4 5 true (v3 1 3 0) cm false;
    OAttempt 1; OAttempt 2; OAttempt 3; OAttempt 4; OPodStatus 3 false true;
    OUnreserve 1; OCheck 2; OPodAdd 5 5 false (v3 1 0 0) cm false; OCapacity (v3 30 40 0); OReserve 2;
    OPodDelete 2;
    OQuotaUpdate 3 (v3 9 20 0) cm (v3 2 4 0) (v3 0 0 0);
    OQuotaFlipLend 5; OPodRelabel 3; OCapacity (v3 5 9 0); OAttempt 1; OAttempt 4; ORestart ].

Lemma ex_hist_wf_proof : forall rt chk,
  wf_hist (mkConfig rt chk) init_state None ex_hist = true
  /\ benign (mkConfig rt chk) init_state ex_hist = true.
Proof. intros [|] [|]; vm_compute; split; reflexivity. Qed.

(* verdicts of the seven attempts for the four switch combinations: both outcomes occur *)
Lemma ex_hist_verdicts_proof :
  map (fun cfg => map o_status (filter (fun o => negb (o_status o =? -1) && negb (length (o_limits o) =? 0)%nat)
                                       (run cfg init_state ex_hist)))
      [mkConfig false false; mkConfig false true; mkConfig true false; mkConfig true true]
  = [[0; 1; 0; 1; 0; 0; 0]; [0; 1; 0; 1; 0; 0; 0]; [0; 1; 0; 1; 0; 1; 1]; [0; 1; 0; 1; 0; 1; 1]].
Proof. vm_compute. reflexivity. Qed.

(* the exclusions of theorem 4 are necessary: an already-bound pod replayed by the informer is
   charged without admission ... *)
Lemma ex_bound_pod_proof :
  let st := exec (mkConfig false true) init_state
                 [OQuotaAdd 1 0 true cm (v3 4 4 0) cm (v3 0 0 0) (v3 0 0 0);
                  OPodAddBound 1 1 false (v3 9 1 0) cm false] in
  map (fun q => (q_used q, q_max q, q_taint q)) (quotas st) = [(v3 9 1 0, v3 4 4 0, true)].
Proof. vm_compute. reflexivity. Qed.

(* ... and without parent checking a parent can pass its max through its children *)
Lemma ex_parent_proof :
  let st := exec (mkConfig false false) init_state
                 [OQuotaAdd 2 0 true cm (v3 4 4 0) cm (v3 0 0 0) (v3 0 0 0);
                  OQuotaAdd 3 2 true cm (v3 4 4 0) cm (v3 0 0 0) (v3 0 0 0);
                  OQuotaAdd 5 2 true cm (v3 4 4 0) cm (v3 0 0 0) (v3 0 0 0);
                  OPodAdd 1 3 false (v3 3 1 0) cm false; OPodAdd 2 5 false (v3 3 1 0) cm false;
                  OAttempt 1; OAttempt 2] in
  map (fun q => (q_id q, q_used q, q_taint q)) (quotas st)
  = [(2, v3 6 2 0, true); (3, v3 3 1 0, false); (5, v3 3 1 0, false)].
Proof. vm_compute. reflexivity. Qed.

(* a quota tree whose key sets differ along the parent chain (org {cpu,mem,ext} -> team {cpu,mem}
   -> leaf {cpu,mem,ext}), parent check on, limit = max: the third pod is rejected by ORG's ext
   limit although the intermediate quota does not declare ext; org stays within max *)
Definition ex_sandwich : list op :=
  [ OQuotaAdd 2 0 true am (v3 100 100 2) am (v3 0 0 0) (v3 0 0 0);
    OQuotaAdd 4 2 true cm (v3 100 100 0) cm (v3 0 0 0) (v3 0 0 0);
    OQuotaAdd 5 4 true am (v3 100 100 10) am (v3 0 0 0) (v3 0 0 0);
    OPodAdd 1 5 false (v3 1 0 1) (mkMask true false true) false;
    OPodAdd 2 5 false (v3 1 0 1) (mkMask true false true) false;
    OPodAdd 3 5 false (v3 1 0 1) (mkMask true false true) false;
    OAttempt 1; OAttempt 2; OAttempt 3 ].
Lemma ex_sandwich_proof :
  let cfg := mkConfig false true in
  wf_hist cfg init_state None ex_sandwich = true /\ benign cfg init_state ex_sandwich = true
  /\ map o_status (skipn 6 (run cfg init_state ex_sandwich)) = [0; 0; 1]
  /\ map (fun q => (q_id q, q_used q, q_taint q)) (quotas (exec cfg init_state ex_sandwich))
     = [(2, v3 2 0 2, false); (4, v3 2 0 2, false); (5, v3 2 0 2, false)].
Proof. vm_compute. repeat split; reflexivity. Qed.

(* fail-over: a pod admitted and bound (still Pending) before the restart is charged again by the
   replay — without tainting its quota — so the next pod is rejected; for all four switch settings *)
Definition ex_restart : list op :=
  [ OCapacity (v3 100 100 0);
    OQuotaAdd 1 0 true cm (v3 10 10 0) cm (v3 0 0 0) (v3 0 0 0);
    OPodAdd 1 1 false (v3 6 6 0) cm false; OAttempt 1; OPodStatus 1 false true;
    OPodAdd 2 1 false (v3 3 3 0) cm false; OAttempt 2;
    ORestart;
    OPodAdd 3 1 false (v3 6 6 0) cm false; OAttempt 3 ].
Lemma ex_restart_proof : forall rt chk,
  let cfg := mkConfig rt chk in
  wf_hist cfg init_state None ex_restart = true /\ benign cfg init_state ex_restart = true
  /\ map o_status (filter (fun o => negb (length (o_limits o) =? 0)%nat) (run cfg init_state ex_restart)) = [0; 0; 1]
  /\ map (fun q => (q_used q, q_taint q)) (quotas (exec cfg init_state ex_restart)) = [(v3 6 6 0, false)].
Proof. intros [|] [|]; vm_compute; repeat split; reflexivity. Qed.
