(* C03 — example histories (non-vacuity of the hypotheses, necessity of the exclusions). *)
From Coq Require Import List ZArith Bool.
From Verif Require Import C02.Model C03.Model C03.Spec C03.Proofs_Hist.
Import ListNotations.
Open Scope Z_scope.

Definition v3 (a b c : Z) : vec := mkVec a b c.
Definition cm : mask := mkMask true true false.
Definition am : mask := mkMask true true true.
(* a parent with two children, pending pods, attempts (admitted and rejected), roll-back,
   a PreFilter whose Reserve comes three events later, deletion, a max raise, capacity changes *)
Definition ex_hist : list op :=
  [ OCapacity (v3 20 40 0);
    OQuotaAdd 2 0 true cm (v3 10 20 0) cm (v3 4 8 0) (v3 0 0 0);
    OQuotaAdd 3 2 true cm (v3 6 20 0) cm (v3 2 4 0) (v3 0 0 0);
    OQuotaAdd 5 2 false cm (v3 8 10 0) cm (v3 2 4 0) (v3 1 1 0);
    OPodAdd 1 3 false (v3 4 5 7) am; OPodAdd 2 3 false (v3 3 5 0) cm; OPodAdd 3 5 true (v3 2 2 0) cm;
    OPodAdd 4 5 true (v3 1 3 0) cm;
    OAttempt 1; OAttempt 2; OAttempt 3; OAttempt 4;
    OUnreserve 1; OCheck 2; OPodAdd 5 5 false (v3 1 0 0) cm; OCapacity (v3 30 40 0); OReserve 2;
    OPodDelete 2;
    OQuotaUpdate 3 (v3 9 20 0) cm (v3 2 4 0) (v3 0 0 0);
    OQuotaFlipLend 5; OPodRelabel 3; OCapacity (v3 5 9 0); OAttempt 1; OAttempt 4 ].

Lemma ex_hist_wf_proof : forall rt chk,
  wf_hist (mkConfig rt chk) init_state None ex_hist = true
  /\ benign (mkConfig rt chk) init_state ex_hist = true.
Proof. intros [|] [|]; vm_compute; split; reflexivity. Qed.

(* verdicts of the seven attempts for the four switch combinations: both outcomes occur *)
Lemma ex_hist_verdicts_proof :
  map (fun cfg => map o_status (filter (fun o => negb (o_status o =? -1) && negb (length (o_limits o) =? 0)%nat)
                                       (run cfg init_state ex_hist)))
      [mkConfig false false; mkConfig false true; mkConfig true false; mkConfig true true]
  = [[0; 1; 0; 1; 0; 0; 0]; [0; 1; 0; 1; 0; 0; 0]; [0; 1; 0; 1; 0; 1; 1]; [0; 1; 0; 1; 0; 1; 1]].
Proof. vm_compute. reflexivity. Qed.

(* the exclusions of theorem 4 are necessary: an already-bound pod replayed by the informer is
   charged without admission ... *)
Lemma ex_bound_pod_proof :
  let st := exec (mkConfig false true) init_state
                 [OQuotaAdd 1 0 true cm (v3 4 4 0) cm (v3 0 0 0) (v3 0 0 0);
                  OPodAddBound 1 1 false (v3 9 1 0) cm] in
  map (fun q => (q_used q, q_max q, q_taint q)) (quotas st) = [(v3 9 1 0, v3 4 4 0, true)].
Proof. vm_compute. reflexivity. Qed.

(* ... and without parent checking a parent can pass its max through its children *)
Lemma ex_parent_proof :
  let st := exec (mkConfig false false) init_state
                 [OQuotaAdd 2 0 true cm (v3 4 4 0) cm (v3 0 0 0) (v3 0 0 0);
                  OQuotaAdd 3 2 true cm (v3 4 4 0) cm (v3 0 0 0) (v3 0 0 0);
                  OQuotaAdd 5 2 true cm (v3 4 4 0) cm (v3 0 0 0) (v3 0 0 0);
                  OPodAdd 1 3 false (v3 3 1 0) cm; OPodAdd 2 5 false (v3 3 1 0) cm;
                  OAttempt 1; OAttempt 2] in
  map (fun q => (q_id q, q_used q, q_taint q)) (quotas st)
  = [(2, v3 6 2 0, true); (3, v3 3 1 0, false); (5, v3 3 1 0, false)].
Proof. vm_compute. reflexivity. Qed.
