(* C03 — statements about whole histories ([exec] from the empty state), without the ghost flag:
   which quotas are promised "used <= max", and that the promise is kept. *)
From Coq Require Import List ZArith Bool Lia.
From Verif Require Import Lib.ListX C02.Model C03.Model C03.Spec C03.Proofs C03.Proofs_Runtime
     C03.Proofs_Inv C03.Proofs_Flight C03.Proofs_Step C03.Proofs_Exact.
Import ListNotations.
Open Scope Z_scope.

Lemma ALL_exec cfg : forall ops wf st sn,
  INV cfg wf st -> FL wf st sn -> EXI wf st ->
  INV cfg (wf && wf_hist cfg st sn ops) (exec cfg st ops)
  /\ EXI (wf && wf_hist cfg st sn ops) (exec cfg st ops).
Proof.
  induction ops as [|o t IH]; intros wf st sn I F X; cbn [exec wf_hist].
  - rewrite andb_true_r. split; assumption.
  - rewrite andb_assoc. apply (IH _ _ (track cfg st sn o));
      [apply INV_step|apply FL_step|apply (EXI_step cfg wf st sn)]; assumption.
Qed.

Lemma INV_exec cfg ops wf st sn :
  INV cfg wf st -> FL wf st sn -> EXI wf st -> INV cfg (wf && wf_hist cfg st sn ops) (exec cfg st ops).
Proof. intros I F X. exact (proj1 (ALL_exec cfg ops wf st sn I F X)). Qed.

(* ---------- histories that never give up the promise ---------- *)
(* no max is lowered and no already-bound pod is replayed (or assigned by a later update event) *)
Definition benign_op (st : state) (o : op) : bool :=
  match o with
  | OPodAddBound _ _ _ _ _ term => term   (* a terminated pod is cached but never charged *)
  | OPodRelabel id =>   (* an update event assigns an unassigned pod that carries a node name *)
      match find_pod id (pods st) with
      | Some p => p_assigned p || negb (p_bound p && negb (p_term p))
      | None => true
      end
  | OPodStatus id term bind =>   (* the same through a status update *)
      match find_pod id (pods st) with
      | Some p => p_assigned p || negb ((p_bound p || bind) && negb term)
      | None => true
      end
  | OQuotaUpdate id mx _ _ _ =>
      match find_quota id (quotas st) with Some q => negb (lowers q mx) | None => true end
  | ORestart =>   (* every pod the replay charges was assigned (admitted) before *)
      forallb (fun p => p_assigned p || negb (replay_flag p)) (pods st)
  | _ => true
  end.
Fixpoint benign (cfg : config) (st : state) (ops : list op) : bool :=
  match ops with
  | [] => true
  | o :: t => benign_op st o && benign cfg (fst (step cfg st o)) t
  end.

(* the ghost flag is only ever set on a quota that has a child quota while parent checking is off *)
Definition TI (cfg : config) (qs : list quota) : Prop :=
  forall q, In q qs -> q_taint q = true ->
            chk_parent cfg = false /\ exists c, In c qs /\ q_parent c = q_id q.

Lemma TI_map cfg h qs :
  keeps h -> (forall q, In q qs -> q_taint (h q) = q_taint q) -> TI cfg qs -> TI cfg (map h qs).
Proof.
  intros K Ht H q Hq Hqt. apply in_map_iff in Hq. destruct Hq as (q0 & <- & Hq0).
  rewrite (Ht q0 Hq0) in Hqt. destruct (H q0 Hq0 Hqt) as (Hc & c & Hcin & Hcp).
  split; [exact Hc|]. exists (h c). split; [apply in_map; exact Hcin|].
  destruct (K c) as (_ & -> & _). destruct (K q0) as (-> & _ & _). exact Hcp.
Qed.

Lemma TI_refresh cfg ids qs ps : TI cfg qs -> TI cfg (refresh ids qs ps).
Proof.
  intro H. apply (TI_map cfg (refresh_fn ids qs ps)); [apply keeps_refresh_fn| |exact H].
  intros q _. unfold refresh_fn. destruct (mem_id _ _); reflexivity.
Qed.

Lemma TI_upd_used cfg ids f g qs : TI cfg qs -> TI cfg (upd_used ids f g qs).
Proof.
  intro H. unfold upd_used. apply TI_map; [apply keeps_upd_used| |exact H].
  intros q _. destruct (mem_id _ _); reflexivity.
Qed.

Lemma TI_touch cfg st p qs ps : TI cfg qs -> TI cfg (touch_request st p qs ps).
Proof.
  intro H. destruct (touch_request_map st p qs ps) as (h & K & -> & Ht).
  apply TI_map; auto.
Qed.

Lemma TI_step cfg wf st o :
  INV cfg wf st -> TI cfg (quotas st) -> benign_op st o = true ->
  TI cfg (quotas (fst (step cfg st o))).
Proof.
  intros I T Hb.
  destruct o as [id parent lend decl mx mindecl mn w|id mx mindecl mn w|id qn np req keys term|id|id|id|id|id|t
                 |id qn np req keys term|id|id|id term bind| |]; unfold step, apply_attempt; cbv zeta.
  - (* quota add *)
    destruct (id <=? 0) eqn:E0; cbn [orb fst]; [exact T|].
    destruct (find_quota id (quotas st)) eqn:Ef; cbn [orb fst]; [exact T|].
    match goal with |- context [negb ?b] => destruct b eqn:Ep end; cbn [negb fst quotas]; [|exact T].
    apply TI_refresh.
    set (nq := mkQuota id parent lend decl mx mindecl mn w vzero vzero vzero false).
    intros q Hq Hqt. apply in_app_or in Hq. destruct Hq as [Hq|[<-|[]]]; [|unfold nq in Hqt; cbn in Hqt; discriminate Hqt].
    destruct (chk_parent cfg) eqn:Ec.
    + destruct (T q Hq Hqt) as (Hc & _). congruence.
    + split; [reflexivity|].
      unfold taint_ids in Hq. apply in_map_iff in Hq. destruct Hq as (q0 & <- & Hq0).
      destruct (mem_id (q_id q0) [parent]) eqn:Em.
      * exists nq. split; [apply in_or_app; right; left; reflexivity|].
        apply mem_id_spec in Em. destruct Em as [Em|[]]. cbn. exact Em.
      * destruct (T q0 Hq0 Hqt) as (_ & c & Hcin & Hcp).
        exists (taint_fn [parent] c). split.
        -- apply in_or_app. left. unfold taint_ids. apply (in_map (taint_fn [parent])). exact Hcin.
        -- destruct (keeps_taint_fn [parent] c) as (_ & -> & _). exact Hcp.
  - (* quota update *)
    cbn [benign_op] in Hb.
    destruct (find_quota id (quotas st)) as [q0|] eqn:Ef; cbn [fst quotas]; [|exact T].
    set (h := fun q => if q_id q =? id
                       then set_taint (set_creq (set_spec q mx mindecl mn w) _)
                                      (q_taint q || lowers q mx)
                       else q).
    assert (K : keeps h).
    { intro q. unfold h. destruct (q_id q =? id); [cbn|auto].
      repeat split. intro Ht. rewrite Ht. reflexivity. }
    assert (T1 : TI cfg (map h (quotas st))).
    { apply TI_map; [exact K| |exact T]. intros q Hq. unfold h.
      destruct (q_id q =? id) eqn:E; [|reflexivity].
      assert (q = q0) as ->.
      { apply Z.eqb_eq in E. apply find_quota_some in Ef. destruct Ef as [Hf1 Hf2].
        apply (nodup_id_inj (quotas st)); [exact (inv_nodup _ _ _ I)|exact Hq|exact Hf1|congruence]. }
      change (q_taint q0 || lowers q0 mx = q_taint q0).
      apply negb_true_iff in Hb. rewrite Hb. apply orb_false_r. }
    match goal with |- TI cfg (if ?b then _ else _) => destruct b end; [apply TI_refresh|]; exact T1.
  - (* pod add *)
    destruct (find_pod id (pods st)); cbn [fst]; [exact T|].
    destruct (find_quota qn (quotas st)); cbn [fst quotas]; [|exact T].
    apply TI_touch. exact T.
  - (* attempt *)
    destruct (find_pod id (pods st)) as [p|]; cbn [fst]; [|exact T].
    match goal with |- context [if ?b then charge st p else st] => destruct b end; [|exact T].
    unfold charge. cbn [quotas]. apply TI_upd_used. exact T.
  - (* check *)
    destruct (find_pod id (pods st)) as [p|]; cbn [fst]; exact T.
  - (* reserve *)
    destruct (find_pod id (pods st)) as [p|]; cbn [fst]; [|exact T].
    destruct (p_assigned p); [exact T|]. unfold charge. cbn [quotas]. apply TI_upd_used. exact T.
  - (* unreserve *)
    destruct (find_pod id (pods st)) as [p|]; cbn [fst]; [|exact T].
    destruct (p_assigned p); cbn [fst quotas]; [|exact T].
    unfold refund. apply TI_upd_used. exact T.
  - (* pod delete *)
    destruct (find_pod id (pods st)) as [p|]; cbn [fst quotas]; [|exact T].
    apply TI_touch. destruct (p_assigned p); [unfold refund; apply TI_upd_used|]; exact T.
  - exact T.
  - (* bound pod: only a terminated one is benign *)
    cbn [benign_op] in Hb. subst term.
    destruct (find_pod id (pods st)); cbn [fst]; [exact T|].
    destruct (find_quota qn (quotas st)); cbn [fst quotas]; [|exact T].
    apply TI_touch. exact T.
  - (* allow-lent flip *)
    destruct (find_quota id (quotas st)) as [q00|]; cbn [fst quotas]; [|exact T].
    apply TI_refresh. apply TI_map; [apply neutral_keeps, neutral_flip| |exact T].
    intros q _. destruct (q_id q =? id); reflexivity.
  - (* pod relabel *)
    cbn [benign_op] in Hb.
    destruct (find_pod id (pods st)) as [p|]; cbn [fst]; [|exact T].
    destruct (p_assigned p); cbn [orb negb] in Hb.
    + cbn [fst quotas]. apply TI_touch. apply TI_upd_used. exact T.
    + destruct (p_bound p && negb (p_term p)); [discriminate Hb|]. cbn [fst quotas]. apply TI_touch. exact T.
  - (* pod status *)
    cbn [benign_op] in Hb.
    destruct (find_pod id (pods st)) as [p|]; cbn [fst]; [|exact T].
    destruct (p_assigned p); cbn [orb negb andb] in Hb |- *; [exact T|].
    destruct ((p_bound p || bind) && negb term); [discriminate Hb|]. exact T.
  - (* restart: nothing new is tainted *)
    cbn [benign_op] in Hb. cbn [fst quotas].
    apply TI_refresh.
    assert (Ef : fresh_ids st = []).
    { unfold fresh_ids. rewrite forallb_forall in Hb.
      induction (pods st) as [|p t IHp]; [reflexivity|]. cbn [flat_map].
      pose proof (Hb p (or_introl eq_refl)) as Hp.
      destruct (p_assigned p); cbn [orb negb andb] in Hp |- *.
      - apply IHp. intros x Hx. apply Hb. right. exact Hx.
      - apply negb_true_iff in Hp. rewrite Hp. cbn [app]. apply IHp. intros x Hx. apply Hb. right. exact Hx. }
    rewrite Ef.
    apply (TI_map cfg (usage_fn (mkState (taint_ids [] (quotas st)) (map restart_pod (pods st)) (total st))));
      [apply keeps_usage_fn|reflexivity|].
    unfold taint_ids. apply TI_map; [apply keeps_taint_fn| |exact T]. intros q _. reflexivity.
  - exact T.
Qed.

Lemma TI_exec cfg : forall ops wf st sn,
  INV cfg wf st -> FL wf st sn -> EXI wf st -> TI cfg (quotas st) -> benign cfg st ops = true ->
  TI cfg (quotas (exec cfg st ops)).
Proof.
  induction ops as [|o t IH]; intros wf st sn I F X T Hb; cbn [exec benign] in *; [exact T|].
  apply andb_true_iff in Hb. destruct Hb as [Hb1 Hb2].
  apply (IH (wf && op_okb st sn o) _ (track cfg st sn o));
    [apply INV_step; assumption|apply FL_step; assumption|apply (EXI_step cfg wf st sn); assumption
    |apply (TI_step cfg wf); assumption|exact Hb2].
Qed.

(* ---------- the history theorems ---------- *)
(* with the ghost flag: every quota whose flag is clear is within max *)
Theorem used_le_max_flag cfg ops :
  wf_hist cfg init_state None ops = true ->
  forall q, In q (quotas (exec cfg init_state ops)) -> q_taint q = false ->
            used_le_max q (q_used q).
Proof.
  intros Hw q Hq Ht.
  pose proof (INV_exec cfg ops true init_state None (INV_init cfg true) (FL_init true) (EXI_init true)) as I.
  rewrite Hw in I. exact (inv_used _ _ _ I eq_refl q Hq Ht).
Qed.

(* without the ghost flag *)
Theorem used_le_max_plain cfg ops :
  wf_hist cfg init_state None ops = true -> benign cfg init_state ops = true ->
  forall q, In q (quotas (exec cfg init_state ops)) ->
    (chk_parent cfg = true
     \/ forall c, In c (quotas (exec cfg init_state ops)) -> q_parent c <> q_id q) ->
    used_le_max q (q_used q).
Proof.
  intros Hw Hb q Hq Hcase.
  apply (used_le_max_flag cfg ops Hw q Hq).
  destruct (q_taint q) eqn:Et; [exfalso|reflexivity].
  assert (T : TI cfg (quotas (exec cfg init_state ops))).
  { apply (TI_exec cfg ops true init_state None (INV_init cfg true) (FL_init true) (EXI_init true)); [|exact Hb]. intros x []. }
  destruct (T q Hq Et) as (Hc & c & Hcin & Hcp).
  destruct Hcase as [Hk|Hk]; [congruence|exact (Hk c Hcin Hcp)].
Qed.

(* the limit in force (max, or the runtime quota) of a webhook-valid quota never exceeds max,
   after any history whatsoever *)
Theorem limit_le_max_hist cfg ops :
  forall q, In q (quotas (exec cfg init_state ops)) -> quota_okb q = true ->
            used_le_max q (limit_of cfg (exec cfg init_state ops) q).
Proof.
  intros q Hq Hok.
  pose proof (INV_exec cfg ops true init_state None (INV_init cfg true) (FL_init true) (EXI_init true)) as I.
  apply limit_le_max; [exact (inv_nodup _ _ _ I)|exact Hq|exact Hok|exact (inv_creq _ _ _ I q Hq)].
Qed.

(* ---------- where the ghost flag comes from ---------- *)
(* One step sets the flag of a quota only for one of the three stated reasons:
   its own max is lowered, an already-bound pod is replayed (or assigned by a label update) at or
   below it, or a child quota is created under it while parent checking is off.  (So "flag clear" in [used_le_max_flag] means
   exactly: none of these ever happened to the quota.) *)
Definition taint_reason (cfg : config) (st : state) (o : op) (i : Z) : Prop :=
  match o with
  | OQuotaUpdate id mx _ _ _ =>
      id = i /\ exists q, In q (quotas st) /\ q_id q = i /\ lowers q mx = true
  | OPodAddBound _ qn _ _ _ term => term = false /\ In i (map q_id (path st qn))
  | OQuotaAdd _ parent _ _ _ _ _ _ => parent = i /\ chk_parent cfg = false
  | OPodRelabel id =>
      exists p, find_pod id (pods st) = Some p /\ p_assigned p = false /\ p_bound p = true
                /\ p_term p = false /\ In i (map q_id (path st (p_quota p)))
  | OPodStatus id term bind =>
      exists p, find_pod id (pods st) = Some p /\ p_assigned p = false
                /\ (p_bound p || bind) = true /\ term = false
                /\ In i (map q_id (path st (p_quota p)))
  | ORestart =>
      exists p, In p (pods st) /\ p_assigned p = false /\ p_bound p = true /\ p_term p = false
                /\ In i (map q_id (path st (p_quota p)))
  | _ => False
  end.

Definition was_tainted (st : state) (i : Z) : Prop :=
  exists q, In q (quotas st) /\ q_id q = i /\ q_taint q = true.

Lemma taint_map_same h qs q' :
  (forall q, q_id (h q) = q_id q /\ q_taint (h q) = q_taint q) ->
  In q' (map h qs) -> q_taint q' = true ->
  exists q, In q qs /\ q_id q = q_id q' /\ q_taint q = true.
Proof.
  intros Hh Hq Ht. apply in_map_iff in Hq. destruct Hq as (q & <- & Hin).
  destruct (Hh q) as [Hi Htt]. exists q. rewrite Htt in Ht. auto.
Qed.

Lemma taint_refresh ids qs ps q' :
  In q' (refresh ids qs ps) -> q_taint q' = true ->
  exists q, In q qs /\ q_id q = q_id q' /\ q_taint q = true.
Proof.
  apply taint_map_same. intro q. destruct (mem_id _ _); split; reflexivity.
Qed.
Lemma taint_upd_used ids f g qs q' :
  In q' (upd_used ids f g qs) -> q_taint q' = true ->
  exists q, In q qs /\ q_id q = q_id q' /\ q_taint q = true.
Proof.
  apply taint_map_same. intro q. destruct (mem_id _ _); split; reflexivity.
Qed.
Lemma taint_touch st p qs ps q' :
  In q' (touch_request st p qs ps) -> q_taint q' = true ->
  exists q, In q qs /\ q_id q = q_id q' /\ q_taint q = true.
Proof.
  unfold touch_request. destruct (vec_zerob _); [|apply taint_refresh].
  intros H Ht. exists q'. auto.
Qed.
Lemma taint_taint_ids ids qs q' :
  In q' (taint_ids ids qs) -> q_taint q' = true ->
  (exists q, In q qs /\ q_id q = q_id q' /\ q_taint q = true) \/ In (q_id q') ids.
Proof.
  intros Hq Ht. unfold taint_ids in Hq. apply in_map_iff in Hq. destruct Hq as (q & <- & Hin).
  destruct (mem_id (q_id q) ids) eqn:E.
  - right. apply mem_id_spec. exact E.
  - left. exists q. auto.
Qed.

Theorem taint_origin cfg st o q' :
  In q' (quotas (fst (step cfg st o))) -> q_taint q' = true ->
  was_tainted st (q_id q') \/ taint_reason cfg st o (q_id q').
Proof.
  unfold was_tainted.
  destruct o as [id parent lend decl mx mindecl mn w|id mx mindecl mn w|id qn np req keys term|id|id|id|id|id|t
                 |id qn np req keys term|id|id|id term bind| |]; unfold step, apply_attempt; cbv zeta; cbn [taint_reason].
  - (* quota add *)
    destruct (id <=? 0); cbn [orb fst]; [intros H Ht; left; exists q'; auto|].
    destruct (find_quota id (quotas st)); cbn [orb fst]; [intros H Ht; left; exists q'; auto|].
    match goal with |- context [negb ?b] => destruct b end; cbn [negb fst quotas];
      [|intros H Ht; left; exists q'; auto].
    intros H Ht. destruct (taint_refresh _ _ _ _ H Ht) as (q1 & H1 & E1 & T1). rewrite <- E1.
    apply in_app_or in H1. destruct H1 as [H1|[<-|[]]]; [|discriminate T1].
    destruct (chk_parent cfg) eqn:Ec; [left; exists q1; auto|].
    destruct (taint_taint_ids _ _ _ H1 T1) as [(q0 & H0 & E0 & T0)|Hin].
    + left. exists q0. rewrite <- E0. auto.
    + right. destruct Hin as [<-|[]]. auto.
  - (* quota update *)
    destruct (find_quota id (quotas st)) as [q0|] eqn:Ef; cbn [fst quotas];
      [|intros H Ht; left; exists q'; auto].
    intros H Ht.
    match type of H with
    | In _ (if ?b then refresh ?ids ?l ?ps else _) =>
        assert (H1 : exists q1, In q1 l /\ q_id q1 = q_id q' /\ q_taint q1 = true);
        [destruct b; [apply (taint_refresh _ _ _ _ H Ht)|exists q'; auto]|]
    end.
    destruct H1 as (q1 & H1 & E1 & T1). rewrite <- E1.
    apply in_map_iff in H1. destruct H1 as (q & Hq & Hin).
    destruct (q_id q =? id) eqn:E; [|left; exists q; subst q1; auto].
    subst q1. change (q_taint q || lowers q mx = true) in T1. change (q_id (set_taint _ _)) with (q_id q).
    apply Z.eqb_eq in E. apply orb_true_iff in T1. destruct T1 as [T1|T1].
    + left. exists q. auto.
    + right. split; [symmetry; exact E|]. exists q. auto.
  - (* pod add *)
    destruct (find_pod id (pods st)); cbn [fst]; [intros H Ht; left; exists q'; auto|].
    destruct (find_quota qn (quotas st)); cbn [fst quotas]; [|intros H Ht; left; exists q'; auto].
    intros H Ht. left. apply (taint_touch _ _ _ _ _ H Ht).
  - (* attempt *)
    destruct (find_pod id (pods st)) as [p|]; cbn [fst]; [|intros H Ht; left; exists q'; auto].
    match goal with |- context [if ?b then charge st p else st] => destruct b end;
      [|intros H Ht; left; exists q'; auto].
    unfold charge. cbn [quotas]. intros H Ht. left. apply (taint_upd_used _ _ _ _ _ H Ht).
  - (* check *)
    destruct (find_pod id (pods st)); cbn [fst]; intros H Ht; left; exists q'; auto.
  - (* reserve *)
    destruct (find_pod id (pods st)) as [p|]; cbn [fst]; [|intros H Ht; left; exists q'; auto].
    destruct (p_assigned p); [intros H Ht; left; exists q'; auto|].
    unfold charge. cbn [quotas]. intros H Ht. left. apply (taint_upd_used _ _ _ _ _ H Ht).
  - (* unreserve *)
    destruct (find_pod id (pods st)) as [p|]; cbn [fst]; [|intros H Ht; left; exists q'; auto].
    destruct (p_assigned p); cbn [fst quotas]; [|intros H Ht; left; exists q'; auto].
    unfold refund. intros H Ht. left. apply (taint_upd_used _ _ _ _ _ H Ht).
  - (* pod delete *)
    destruct (find_pod id (pods st)) as [p|]; cbn [fst quotas]; [|intros H Ht; left; exists q'; auto].
    intros H Ht. destruct (taint_touch _ _ _ _ _ H Ht) as (q1 & H1 & E1 & T1). rewrite <- E1.
    destruct (p_assigned p); [|left; exists q1; auto].
    unfold refund in H1. left. apply (taint_upd_used _ _ _ _ _ H1 T1).
  - intros H Ht; left; exists q'; auto.
  - (* bound pod *)
    destruct (find_pod id (pods st)); cbn [fst]; [intros H Ht; left; exists q'; auto|].
    destruct (find_quota qn (quotas st)); cbn [fst]; [|intros H Ht; left; exists q'; auto].
    destruct term; cbn [fst].
    { cbn [quotas]. intros H Ht. left. apply (taint_touch _ _ _ _ _ H Ht). }
    unfold charge. cbn [quotas]. intros H Ht.
    destruct (taint_upd_used _ _ _ _ _ H Ht) as (q1 & H1 & E1 & T1). rewrite <- E1.
    destruct (taint_touch _ _ _ _ _ H1 T1) as (q2 & H2 & E2 & T2). rewrite <- E2.
    destruct (taint_taint_ids _ _ _ H2 T2) as [(q0 & H0 & E0 & T0)|Hin].
    + left. exists q0. auto.
    + right. split; [reflexivity|exact Hin].
  - (* allow-lent flip *)
    destruct (find_quota id (quotas st)) as [q00|]; cbn [fst quotas]; [|intros H Ht; left; exists q'; auto].
    intros H Ht. destruct (taint_refresh _ _ _ _ H Ht) as (q1 & H1 & E1 & T1). rewrite <- E1.
    left. apply (taint_map_same (fun q => if q_id q =? id then set_lend q (negb (q_lend q)) else q) (quotas st) q1);
      [|exact H1|exact T1].
    intro q. destruct (q_id q =? id); split; reflexivity.
  - (* pod relabel *)
    destruct (find_pod id (pods st)) as [p|] eqn:Ef; cbn [fst]; [|intros H Ht; left; exists q'; auto].
    destruct (p_assigned p) eqn:Ea.
    + cbn [fst quotas]. intros H Ht.
      destruct (taint_touch _ _ _ _ _ H Ht) as (q1 & H1 & E1 & T1). rewrite <- E1.
      left. apply (taint_upd_used _ _ _ _ _ H1 T1).
    + destruct (p_bound p && negb (p_term p)) eqn:Eb; cbn [fst].
      * unfold charge. cbn [quotas]. intros H Ht.
        destruct (taint_upd_used _ _ _ _ _ H Ht) as (q1 & H1 & E1 & T1). rewrite <- E1.
        destruct (taint_touch _ _ _ _ _ H1 T1) as (q2 & H2 & E2 & T2). rewrite <- E2.
        destruct (taint_taint_ids _ _ _ H2 T2) as [(q0 & H0 & E0 & T0)|Hin].
        -- left. exists q0. auto.
        -- right. exists p. apply andb_true_iff in Eb. destruct Eb as [Eb1 Eb2].
           apply negb_true_iff in Eb2. auto.
      * cbn [quotas]. intros H Ht. left. apply (taint_touch _ _ _ _ _ H Ht).
  - (* pod status *)
    destruct (find_pod id (pods st)) as [p|] eqn:Ef; cbn [fst]; [|intros H Ht; left; exists q'; auto].
    destruct (negb (p_assigned p) && (p_bound p || bind) && negb term) eqn:Ec; cbn [fst].
    + unfold charge. cbn [quotas]. intros H Ht.
      destruct (taint_upd_used _ _ _ _ _ H Ht) as (q1 & H1 & E1 & T1). rewrite <- E1.
      destruct (taint_taint_ids _ _ _ H1 T1) as [(q0 & H0 & E0 & T0)|Hin].
      * left. exists q0. auto.
      * right. exists p. apply andb_true_iff in Ec. destruct Ec as [Ec Ec3].
        apply andb_true_iff in Ec. destruct Ec as [Ec1 Ec2].
        apply negb_true_iff in Ec1, Ec3. auto.
    + cbn [quotas]. intros H Ht. left. exists q'. auto.
  - (* restart *)
    cbn [fst quotas]. intros H Ht.
    destruct (taint_refresh _ _ _ _ H Ht) as (q1 & H1 & E1 & T1). rewrite <- E1.
    apply in_map_iff in H1. destruct H1 as (q2 & <- & H2). cbn [q_id q_taint set_usage] in *.
    destruct (taint_taint_ids _ _ _ H2 T1) as [(q0 & H0 & E0 & T0)|Hin].
    + left. exists q0. auto.
    + right. unfold fresh_ids in Hin. apply in_flat_map in Hin. destruct Hin as (p & Hp & Hi).
      destruct (negb (p_assigned p) && replay_flag p) eqn:Ec; [|destruct Hi].
      apply andb_true_iff in Ec. destruct Ec as [Ec1 Ec2]. apply negb_true_iff in Ec1.
      unfold replay_flag in Ec2. apply andb_true_iff in Ec2. destruct Ec2 as [Eb Et].
      apply negb_true_iff in Et. exists p. auto.
  - intros H Ht; left; exists q'; auto.
Qed.

(* ---------- the usage figures are the from-scratch sums ---------- *)
Theorem used_exact_hist cfg ops :
  wf_hist cfg init_state None ops = true ->
  let st := exec cfg init_state ops in
  forall q, In q (quotas st) -> forall d,
    vget (q_used q) d = exp_used st q d /\ vget (q_npused q) d = exp_npused st q d.
Proof.
  intros Hw st q Hq d.
  destruct (ALL_exec cfg ops true init_state None (INV_init cfg true) (FL_init true) (EXI_init true)) as [_ [_ E]].
  rewrite Hw in E. specialize (E eq_refl q Hq d). rewrite exp_used_expq, exp_npused_expq. exact E.
Qed.
