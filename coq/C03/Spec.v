(* C03 — the property, as Props over (history, observables) and as a decision procedure
   [check] : 0 = holds, otherwise the number of the first failing clause.

   Clauses (numbers are what [check] returns):
     1  a pod was admitted although usage + request passes a limit
          (own quota: every declared dimension; non-preemptible pod: non-preemptible usage within
           min; every ancestor, when parent checking is on: the dimensions the pod requests)
     2  a pod was rejected although usage + request stays within every limit
     4  a quota whose limit was never lowered (and whose usage only ever came through admission)
        shows used above max in a declared dimension
     5  the runtime limit reported for a well-formed quota is above its max
     6  a quota's reported used (or non-preemptible used) differs from the sum of the masked requests
        of the pods that are currently assigned in its subtree — assigned according to the HISTORY
        and the verdicts the implementation itself gave.  (Without this, "used <= max" and the
        admission clauses would be about whatever figure the implementation reports.)
     3  (decided separately by [check_np], after all the others passed) a non-preemptible pod was
        admitted although non-preemptible usage + request passes min in a dimension the quota
        declares, a dimension MISSING from min counting as min = 0 (the code skips such dimensions:
        known finding, see findings/C03-np-min-absent.md)
     7..9  malformed observation (status, limits, dump do not fit the history)
   The usage figures and (when runtime quota is on) the limits are read from the OBSERVATION, the
   requests, masks, max and min from the history; nothing the model computed about usage is used. *)
From Coq Require Import List ZArith Bool.
From Verif Require Import Lib.ListX C02.Model C03.Model.
Import ListNotations.
Open Scope Z_scope.

(* ---------- admissibility of one pod against one snapshot ---------- *)
Definition self_within (q : quota) (lim mreq : vec) : Prop :=
  forall d, mget (q_decl q) d = true -> vget (q_used q) d + vget mreq d <= vget lim d.
Definition np_within (q : quota) (mreq : vec) : Prop :=
  forall d, mget (q_mindecl q) d = true -> vget (q_npused q) d + vget mreq d <= vget (q_min q) d.
Definition anc_within (a : quota) (lim : vec) (rk : mask) (mreq : vec) : Prop :=
  forall d, mget (q_decl a) d = true -> mget rk d = true ->
            vget (q_used a) d + vget mreq d <= vget lim d.

(* [lim] gives the limit in force for each quota of the path *)
Definition admissible (chk : bool) (p : pod) (q : quota) (anc : list quota) (lim : quota -> vec) : Prop :=
  let mreq := vmask (q_decl q) (p_req p) in
  self_within q (lim q) mreq
  /\ (p_np p = true -> np_within q mreq)
  /\ (chk = true -> Forall (fun a => anc_within a (lim a) (req_keys q p) mreq) anc).

Definition admissibleb (chk : bool) (p : pod) (q : quota) (anc : list quota) (lim : quota -> vec) : bool :=
  let mreq := vmask (q_decl q) (p_req p) in
  self_ok q (lim q) mreq
  && (negb (p_np p) || np_ok q mreq)
  && (negb chk || forallb (fun a => anc_ok a (lim a) (req_keys q p) mreq) anc).

(* ---------- the history invariant ---------- *)
Definition used_le_max (q : quota) (u : vec) : Prop :=
  forall d, mget (q_decl q) d = true -> vget u d <= vget (q_max q) d.
Definition used_le_maxb (q : quota) (u : vec) : bool :=
  all_dims (fun d => negb (mget (q_decl q) d) || (vget u d <=? vget (q_max q) d)).

(* a quota configuration the admission webhook accepts (C15): keys of min among the keys of max,
   0 <= min <= max *)
Definition quota_okb (q : quota) : bool :=
  all_dims (fun d => (negb (mget (q_decl q) d) || (0 <=? vget (q_max q) d))
                     && (negb (mget (q_mindecl q) d)
                         || (mget (q_decl q) d && (0 <=? vget (q_min q) d)
                             && (vget (q_min q) d <=? vget (q_max q) d)))).

Definition vec_nonnegb (v : vec) : bool := all_dims (fun d => 0 <=? vget v d).

Fixpoint eq_ids (a b : list Z) : bool :=
  match a, b with
  | [], [] => true
  | x :: a', y :: b' => (x =? y) && eq_ids a' b'
  | _, _ => false
  end.
Definition vec_eqb (a b : vec) : bool := all_dims (fun d => vget a d =? vget b d).

(* a pod object: non-negative requests, nothing requested under a key it does not carry *)
Definition pod_okb (req : vec) (keys : mask) : bool :=
  vec_nonnegb req && all_dims (fun d => mget keys d || (vget req d =? 0)).

(* well-formed operation in a state: quota objects pass the webhook's self check, pod requests are
   non-negative, and a bare Reserve belongs to the scheduling cycle whose PreFilter admitted the pod
   ([sn], the ghost of Model.track: no other PreFilter/Reserve in between, same quota path and
   same masked request as at check time).  Nothing else is assumed about ORDER or about which ids
   exist: informer events may come between a cycle's PreFilter and its Reserve. *)
Definition op_okb (st : state) (sn : snap) (o : op) : bool :=
  match o with
  | OQuotaAdd id parent lend decl mx mindecl mn w =>
      quota_okb (mkQuota id parent lend decl mx mindecl mn w vzero vzero vzero false)
  | OQuotaUpdate id mx mindecl mn w =>
      match find_quota id (quotas st) with
      | Some q => quota_okb (set_spec q mx mindecl mn w)
      | None => true
      end
  | OPodAdd _ _ _ req keys _ | OPodAddBound _ _ _ req keys _ => pod_okb req keys
  | OReserve id =>
      match find_pod id (pods st) with
      | Some p =>
          p_assigned p
          || match sn with
             | Some (i, (ids, m)) =>
                 (i =? id) && eq_ids ids (map q_id (path st (p_quota p))) && vec_eqb m (pod_delta st p)
             | None => false
             end
      | None => true
      end
  | _ => true
  end.
Fixpoint wf_hist (cfg : config) (st : state) (sn : snap) (ops : list op) : bool :=
  match ops with
  | [] => true
  | o :: t => op_okb st sn o && wf_hist cfg (fst (step cfg st o)) (track cfg st sn o) t
  end.

(* ---------- reading an observation ---------- *)
Fixpoint assocZ {A} (k : Z) (l : list (Z * A)) : option A :=
  match l with
  | [] => None
  | (k', a) :: t => if k' =? k then Some a else assocZ k t
  end.

(* the quota table with the usage figures replaced by the observed ones *)
Definition sync (qs : list quota) (dmp : list (Z * (vec * vec))) : list quota :=
  map (fun q => match assocZ (q_id q) dmp with
                | Some (u, n) => set_usage q u n
                | None => q
                end) qs.
Definition sync_state (st : state) (dmp : list (Z * (vec * vec))) : state :=
  mkState (sync (quotas st) dmp) (pods st) (total st).

Definition none_vec : vec := mkVec (-1) (-1) (-1).
Definition lim_of_obs (cfg : config) (ls : list (Z * vec)) (q : quota) : vec :=
  if rt_on cfg
  then match assocZ (q_id q) ls with Some v => v | None => none_vec end
  else q_max q.

(* ---------- one step of the decision procedure ---------- *)
(* [st]: the history so far replayed on the model, usage figures synchronised with the
   previous observation; [o]: the operation; [ob]: what was observed after it *)
Definition check_attempt (cfg : config) (st : state) (id : Z) (ob : obs) : Z :=
  match find_pod id (pods st) with
  | None => if o_status ob =? -1 then 0 else 7
  | Some p =>
    match path st (p_quota p) with
    | [] => 0
    | q :: anc =>
      if negb ((o_status ob =? 0) || (o_status ob =? 1)) then 7
      else if negb (eq_ids (map fst (o_limits ob)) (map q_id (q :: anc))) then 8
      else if rt_on cfg
              && negb (forallb (fun a => negb (quota_okb a)
                                         || used_le_maxb a (lim_of_obs cfg (o_limits ob) a)) (q :: anc))
           then 5
      else
        let ok := admissibleb (chk_parent cfg) p q anc (lim_of_obs cfg (o_limits ob)) in
        if (o_status ob =? 0) && negb ok then 1
        else if (o_status ob =? 1) && ok then 2
        else 0
    end
  end.

(* the state after [o] when the implementation answered [status] to the admission question: the
   pod is charged iff the IMPLEMENTATION admitted it (on the model's own traces this is [step]) *)
Definition force (cfg : config) (st : state) (o : op) (status : Z) : state :=
  match o with
  | OAttempt id =>
      match find_pod id (pods st) with
      | Some p => apply_attempt st p status
      | None => st
      end
  | _ => fst (step cfg st o)
  end.

Definition usage_exactb (st' : state) (q : quota) : bool :=
  vec_eqb (q_used q) (vmk (exp_used st' q)) && vec_eqb (q_npused q) (vmk (exp_npused st' q)).

(* [wf]: every operation so far was well-formed ([op_okb]); only then are clauses 4 and 6 promised *)
Definition check_dump (wf : bool) (st' : state) (ob : obs) : Z :=
  if negb (eq_ids (map fst (o_dump ob)) (map q_id (quotas st'))) then 9
  else if wf && negb (forallb (usage_exactb st') (sync (quotas st') (o_dump ob))) then 6
  else if wf && negb (forallb (fun q => q_taint q || used_le_maxb q (q_used q))
                              (sync (quotas st') (o_dump ob))) then 4
  else 0.

Definition check_op (cfg : config) (wf : bool) (st : state) (o : op) (ob : obs) : Z :=
  let c := match o with
           | OAttempt id | OCheck id => check_attempt cfg st id ob
           | _ => 0
           end in
  if negb (c =? 0) then c else check_dump wf (force cfg st o (o_status ob)) ob.

Fixpoint check (cfg : config) (wf : bool) (st : state) (sn : snap) (prev : list (Z * (vec * vec)))
         (ops : list op) (os : list obs) : Z :=
  match ops, os with
  | [], [] => 0
  | o :: ops', ob :: os' =>
    let st1 := sync_state st prev in
    let wf' := wf && op_okb st1 sn o in
    let c := check_op cfg wf' st1 o ob in
    if negb (c =? 0) then c
    else check cfg wf' (force cfg st1 o (o_status ob)) (track cfg st1 sn o) (o_dump ob) ops' os'
  | _, _ => 9
  end.

(* the property decided on an observation of a whole history *)
Definition prop_code (cfg : config) (ops : list op) (os : list obs) : Z :=
  check cfg true init_state None [] ops os.

(* ---------- the same, as a Prop over one observed step ---------- *)
Definition attempt_holds (cfg : config) (st : state) (id : Z) (ob : obs) : Prop :=
  forall p q anc, find_pod id (pods st) = Some p -> path st (p_quota p) = q :: anc ->
    let lim := lim_of_obs cfg (o_limits ob) in
    (o_status ob = 0 -> admissible (chk_parent cfg) p q anc lim)
    /\ (o_status ob = 1 -> ~ admissible (chk_parent cfg) p q anc lim)
    /\ (rt_on cfg = true -> forall a, In a (q :: anc) -> quota_okb a = true -> used_le_max a (lim a)).
Definition dump_holds (st' : state) (ob : obs) : Prop :=
  forall q, In q (sync (quotas st') (o_dump ob)) ->
    (forall d, vget (q_used q) d = exp_used st' q d /\ vget (q_npused q) d = exp_npused st' q d)
    /\ (q_taint q = false -> used_le_max q (q_used q)).
Definition step_holds (cfg : config) (wf : bool) (st : state) (o : op) (ob : obs) : Prop :=
  (forall id, o = OAttempt id \/ o = OCheck id -> attempt_holds cfg st id ob)
  /\ (wf = true -> dump_holds (force cfg st o (o_status ob)) ob).

(* ---------- the non-preemptible clause, read strictly ---------- *)
(* A dimension the quota declares (key of max) but for which min has no entry is guaranteed
   nothing: min = 0 there — this is how the runtime-quota computation itself reads a missing min.
   The admission code instead skips such a dimension (quotav1.LessThanOrEqual only looks at the
   keys of its right operand), so a non-preemptible pod may consume a resource for which its quota
   has no guarantee at all. *)
Definition min_or0 (q : quota) (d : dim) : Z :=
  if mget (q_mindecl q) d then vget (q_min q) d else 0.
Definition np_strict (q : quota) (mreq : vec) : Prop :=
  forall d, mget (q_decl q) d = true -> vget (q_npused q) d + vget mreq d <= min_or0 q d.
Definition np_strictb (q : quota) (mreq : vec) : bool :=
  all_dims (fun d => negb (mget (q_decl q) d) || (vget (q_npused q) d + vget mreq d <=? min_or0 q d)).
(* every key of max is a key of min *)
Definition min_complete (q : quota) : bool :=
  all_dims (fun d => negb (mget (q_decl q) d) || mget (q_mindecl q) d).

Definition check_np_attempt (st : state) (id : Z) (ob : obs) : Z :=
  match find_pod id (pods st) with
  | Some p =>
    match path st (p_quota p) with
    | q :: _ =>
      if (o_status ob =? 0) && p_np p && negb (np_strictb q (vmask (q_decl q) (p_req p)))
      then 3 else 0
    | [] => 0
    end
  | None => 0
  end.

Fixpoint check_np (cfg : config) (st : state) (prev : list (Z * (vec * vec)))
         (ops : list op) (os : list obs) : Z :=
  match ops, os with
  | o :: ops', ob :: os' =>
    let st1 := sync_state st prev in
    let c := match o with
             | OAttempt id | OCheck id => check_np_attempt st1 id ob
             | _ => 0
             end in
    if negb (c =? 0) then c
    else check_np cfg (force cfg st1 o (o_status ob)) (o_dump ob) ops' os'
  | _, _ => 0
  end.

(* histories in which every quota object gives a min for every key of its max *)
Definition mc_opb (st : state) (o : op) : bool :=
  match o with
  | OQuotaAdd id parent lend decl mx mindecl mn w =>
      min_complete (mkQuota id parent lend decl mx mindecl mn w vzero vzero vzero false)
  | OQuotaUpdate id mx mindecl mn w =>
      forallb (fun q => negb (q_id q =? id) || min_complete (set_spec q mx mindecl mn w)) (quotas st)
  | _ => true
  end.
Fixpoint mc_hist (cfg : config) (st : state) (ops : list op) : bool :=
  match ops with
  | [] => true
  | o :: t => mc_opb st o && mc_hist cfg (fst (step cfg st o)) t
  end.

(* the whole property on an observation: clauses 1,2,4,5,7-9 first, then clause 3 *)
Definition prop_code_full (cfg : config) (ops : list op) (os : list obs) : Z :=
  let c := prop_code cfg ops os in
  if negb (c =? 0) then c else check_np cfg init_state [] ops os.
