(* C03 — every operation preserves the invariant (for all configurations, all states). *)
From Coq Require Import List ZArith Bool Lia.
From Verif Require Import Lib.ListX C02.Model C03.Model C03.Spec C03.Proofs C03.Proofs_Runtime
     C03.Proofs_Inv C03.Proofs_Flight.
Import ListNotations.
Open Scope Z_scope.

Lemma INV_ext cfg wf st st' :
  INV cfg wf st -> quotas st' = quotas st -> pods st' = pods st -> INV cfg wf st'.
Proof.
  intros [H1 H2 H3 H4 H5 H6 H7] Eq Ep. constructor; rewrite ?Eq, ?Ep; assumption.
Qed.

Lemma INV_weaken cfg wf wf' st : INV cfg wf st -> (wf' = true -> wf = true) -> INV cfg wf' st.
Proof.
  intros [H1 H2 H3 H4 H5 H6 H7] Hw. constructor; auto.
Qed.

Lemma INV_pods cfg wf qs ps ps' tot :
  INV cfg wf (mkState qs ps tot) ->
  (wf = true -> forall p, In p ps' -> pod_okb (p_req p) (p_keys p) = true) ->
  INV cfg wf (mkState qs ps' tot).
Proof.
  intros [H1 H2 H3 H4 H5 H6 H7] Hp. constructor; cbn in *; auto.
Qed.

(* ---------- paths only depend on identities and parents ---------- *)
Lemma find_quota_map h id qs :
  (forall q, q_id (h q) = q_id q) -> find_quota id (map h qs) = option_map h (find_quota id qs).
Proof.
  intro K. induction qs as [|x t IH]; [reflexivity|].
  cbn [map find_quota]. rewrite K. destruct (q_id x =? id); [reflexivity|exact IH].
Qed.

Lemma path_from_map h fuel qs id :
  keeps h -> path_from fuel (map h qs) id = map h (path_from fuel qs id).
Proof.
  intro K. revert id. induction fuel as [|f IH]; intro id; [reflexivity|].
  cbn [path_from]. destruct (id =? 0); [reflexivity|].
  rewrite (find_quota_map h id qs (fun q => proj1 (K q))).
  destruct (find_quota id qs) as [x|]; [|reflexivity].
  cbn [option_map map]. rewrite IH. destruct (K x) as (_ & -> & _). reflexivity.
Qed.

Lemma path_ids_map h qs ps tot ps' tot' id :
  keeps h ->
  map q_id (path (mkState (map h qs) ps tot) id) = map q_id (path (mkState qs ps' tot') id).
Proof.
  intro K. unfold path. cbn [quotas]. rewrite map_length, (path_from_map h _ _ _ K).
  apply map_ids. exact K.
Qed.

Lemma keeps_compose h1 h2 : keeps h1 -> keeps h2 -> keeps (fun q => h1 (h2 q)).
Proof.
  intros K1 K2 q. destruct (K1 (h2 q)) as (A & B & C). destruct (K2 q) as (D & E & F).
  repeat split; try congruence. auto.
Qed.
Lemma keeps_id : keeps (fun q => q).
Proof. intro q. auto. Qed.

Definition refresh_fn ids qs ps : quota -> quota :=
  fun q => if mem_id (q_id q) ids then set_creq q (vmk (limreq (length qs) qs ps q)) else q.
Lemma keeps_refresh_fn ids qs ps : keeps (refresh_fn ids qs ps).
Proof. apply keeps_cond. apply (keeps_set_creq (fun q => vmk (limreq (length qs) qs ps q))). Qed.
Definition taint_fn ids : quota -> quota :=
  fun q => if mem_id (q_id q) ids then set_taint q true else q.
Lemma keeps_taint_fn ids : keeps (taint_fn ids).
Proof. apply keeps_cond, keeps_set_taint_true. Qed.

(* touch_request is a pointwise update keeping identities *)
Lemma touch_request_map st p qs ps :
  exists h, keeps h /\ touch_request st p qs ps = map h qs
            /\ (forall q, q_taint (h q) = q_taint q).
Proof.
  unfold touch_request. destruct (vec_zerob (pod_delta st p)).
  - exists (fun q => q). split; [apply keeps_id|]. split; [symmetry; apply map_id|reflexivity].
  - exists (refresh_fn (map q_id (path st (p_quota p))) qs ps).
    split; [apply keeps_refresh_fn|]. split; [reflexivity|].
    intro q. unfold refresh_fn. destruct (mem_id _ _); reflexivity.
Qed.

Lemma INV_touch cfg wf st p qs ps ps' tot :
  INV cfg wf (mkState qs ps tot) ->
  (wf = true -> forall x, In x ps' -> pod_okb (p_req x) (p_keys x) = true) ->
  INV cfg wf (mkState (touch_request st p qs ps') ps' tot).
Proof.
  intros I Hp. unfold touch_request. destruct (vec_zerob (pod_delta st p)).
  - apply (INV_pods _ _ _ _ _ _ I Hp).
  - apply (INV_refresh _ _ _ _ _ _ I _ Hp).
Qed.

Lemma NoDup_app_single {A} (l : list A) x : NoDup l -> ~ In x l -> NoDup (l ++ [x]).
Proof.
  induction l as [|a t IH]; cbn; intros Hnd Hx.
  - constructor; [intros []|constructor].
  - inversion Hnd as [|? ? Ha Ht]; subst. constructor.
    + intro H. apply in_app_or in H. destruct H as [H|[H|[]]]; [contradiction|].
      subst. apply Hx. left. reflexivity.
    + apply IH; auto.
Qed.

(* ---------- a new quota ---------- *)
Lemma INV_append cfg wf qs ps tot nq :
  INV cfg wf (mkState qs ps tot) ->
  ~ In (q_id nq) (map q_id qs) -> q_id nq <> 0 ->
  (q_parent nq <> 0 -> In (q_parent nq) (map q_id qs)) ->
  (chk_parent cfg = false -> forall x, In x qs -> q_id x = q_parent nq -> q_taint x = true) ->
  creq_capped nq ->
  (wf = true -> used_ok nq /\ quota_okb nq = true) ->
  INV cfg wf (mkState (qs ++ [nq]) ps tot).
Proof.
  intros [Hnd Hcr Hpar Hpex Hus Hok Hpo] Hfresh Hnz Hparent Htaint Hc Hw. cbn in *.
  constructor; cbn.
  - rewrite map_app. cbn. apply NoDup_app_single; assumption.
  - intros q Hq. apply in_app_or in Hq. destruct Hq as [Hq|[<-|[]]]; auto.
  - intros Hchk c x Hcin Hxin Hp Hid.
    apply in_app_or in Hcin. apply in_app_or in Hxin.
    destruct Hcin as [Hcin|[<-|[]]]; destruct Hxin as [Hxin|[<-|[]]].
    + apply (Hpar Hchk c x); auto.
    + exfalso. apply Hfresh. rewrite Hid. apply Hpex; auto.
    + apply Htaint; auto.
    + exfalso. apply Hfresh. rewrite Hid. apply Hparent. exact Hp.
  - intros c Hcin Hp. rewrite map_app. apply in_or_app.
    apply in_app_or in Hcin. destruct Hcin as [Hcin|[<-|[]]]; left; auto.
  - intros W q Hq. apply in_app_or in Hq. destruct Hq as [Hq|[<-|[]]]; [auto|apply Hw; exact W].
  - intros W q Hq. apply in_app_or in Hq. destruct Hq as [Hq|[<-|[]]]; [auto|apply Hw; exact W].
  - exact Hpo.
Qed.

Lemma taint_ids_ids ids qs : map q_id (taint_ids ids qs) = map q_id qs.
Proof. apply (map_ids (taint_fn ids)). apply keeps_taint_fn. Qed.

(* ---------- the operations one by one ---------- *)
Lemma INV_quota_add cfg wf st id parent lend decl mx mindecl mn w :
  INV cfg wf st ->
  find_quota id (quotas st) = None -> (id <=? 0) = false ->
  (parent = 0 \/ exists P, find_quota parent (quotas st) = Some P) ->
  (wf = true -> quota_okb (mkQuota id parent lend decl mx mindecl mn w vzero vzero vzero false) = true) ->
  INV cfg wf
    (mkState (refresh (map q_id (path st parent))
                ((if chk_parent cfg then quotas st else taint_ids [parent] (quotas st))
                 ++ [mkQuota id parent lend decl mx mindecl mn w vzero vzero vzero false])
                (pods st))
             (pods st) (total st)).
Proof.
  intros I Hfresh Hid Hpar Hok. destruct st as [qs0 ps tot]. cbn [quotas pods total] in *.
  set (nq := mkQuota id parent lend decl mx mindecl mn w vzero vzero vzero false) in *.
  set (qs := if chk_parent cfg then qs0 else taint_ids [parent] qs0).
  assert (Eids : map q_id qs = map q_id qs0).
  { unfold qs. destruct (chk_parent cfg); [reflexivity|apply taint_ids_ids]. }
  assert (I1 : INV cfg wf (mkState qs ps tot)).
  { unfold qs. destruct (chk_parent cfg); [exact I|apply INV_taint; exact I]. }
  apply INV_refresh with (ps := ps); [|exact (inv_pods _ _ _ I)].
  apply INV_append; try exact I1.
  - rewrite Eids. apply find_quota_none. exact Hfresh.
  - cbn. lia.
  - cbn. intro Hp. rewrite Eids. destruct Hpar as [Hpar|[P HP]]; [contradiction|].
    apply find_quota_some in HP. destruct HP as [HP1 HP2]. rewrite <- HP2. apply in_map. exact HP1.
  - intros Hc x Hx Hxid. cbn in Hxid. unfold qs in Hx. rewrite Hc in Hx.
    apply (taint_ids_tainted [parent] qs0 x Hx). left. symmetry. exact Hxid.
  - intros d _. cbn. rewrite vget_vzero. lia.
  - intro W. split; [|apply Hok; exact W].
    intros _ d Hd. cbn. rewrite vget_vzero.
    destruct (quota_okb_spec nq (Hok W) d) as [H0 _]. apply H0. exact Hd.
Qed.

Lemma INV_quota_update cfg wf st id q0 mx mindecl mn w c_new (b : bool) ids :
  INV cfg wf st -> find_quota id (quotas st) = Some q0 ->
  (wf = true -> quota_okb (set_spec q0 mx mindecl mn w) = true) ->
  (forall d, mget (q_decl q0) d = true -> vget c_new d <= Z.max 0 (vget mx d)) ->
  INV cfg wf
    (mkState
       (let qs1 := map (fun q => if q_id q =? id
                                 then set_taint (set_creq (set_spec q mx mindecl mn w) c_new)
                                                (q_taint q || lowers q mx)
                                 else q) (quotas st) in
        if b then refresh ids qs1 (pods st) else qs1)
       (pods st) (total st)).
Proof.
  intros I Hf Hok Hc. destruct st as [qs0 ps tot]. cbn [quotas pods total] in *. cbv zeta.
  set (h := fun q => if q_id q =? id
                     then set_taint (set_creq (set_spec q mx mindecl mn w) c_new)
                                    (q_taint q || lowers q mx)
                     else q).
  assert (K : keeps h).
  { intro q. unfold h. destruct (q_id q =? id); [cbn|auto].
    repeat split. intro Ht. rewrite Ht. reflexivity. }
  assert (Hq0 : forall q, In q qs0 -> (q_id q =? id) = true -> q = q0).
  { intros q Hq E. apply Z.eqb_eq in E. apply find_quota_some in Hf. destruct Hf as [Hf1 Hf2].
    apply (nodup_id_inj qs0); [exact (inv_nodup _ _ _ I)|exact Hq|exact Hf1|congruence]. }
  assert (I1 : INV cfg wf (mkState (map h qs0) ps tot)).
  { destruct I as [Hnd Hcr Hpar Hpex Hus Hokk Hpo]. cbn in *. constructor; cbn.
    - rewrite (map_ids _ _ K). exact Hnd.
    - apply forall_map; [exact Hcr|]. intros q Hq Hcq. unfold h.
      destruct (q_id q =? id) eqn:E; [|exact Hcq].
      rewrite (Hq0 q Hq E). intros d Hd. exact (Hc d Hd).
    - apply par_map; assumption.
    - apply pex_map; assumption.
    - intro W. apply forall_map; [exact (Hus W)|]. intros q Hq Hu. unfold h.
      destruct (q_id q =? id) eqn:E; [|exact Hu].
      intro Ht. change (q_taint q || lowers q mx = false) in Ht.
      apply orb_false_iff in Ht. destruct Ht as [Ht Hl].
      intros d Hd. change (vget (q_used q) d <= vget mx d).
      change (mget (q_decl q) d = true) in Hd.
      specialize (Hu Ht d Hd). unfold lowers in Hl. rewrite any_dim_false in Hl.
      specialize (Hl d). rewrite Hd in Hl. cbn in Hl. lia.
    - intro W. apply forall_map; [exact (Hokk W)|]. intros q Hq Hqo. unfold h.
      destruct (q_id q =? id) eqn:E; [|exact Hqo].
      rewrite (Hq0 q Hq E). exact (Hok W).
    - exact Hpo. }
  destruct b; [|exact I1].
  apply INV_refresh with (ps := ps); [exact I1|exact (inv_pods _ _ _ I)].
Qed.

Lemma nonneg_app ps p :
  (forall x, In x ps -> pod_okb (p_req x) (p_keys x) = true) -> pod_okb (p_req p) (p_keys p) = true ->
  forall x, In x (ps ++ [p]) -> pod_okb (p_req x) (p_keys x) = true.
Proof.
  intros H Hp x Hx. apply in_app_or in Hx. destruct Hx as [Hx|[<-|[]]]; auto.
Qed.

Lemma INV_pod_add cfg wf st p :
  INV cfg wf st -> (wf = true -> pod_okb (p_req p) (p_keys p) = true) ->
  INV cfg wf (mkState (touch_request st p (quotas st) (pods st ++ [p]))
                      (pods st ++ [p]) (total st)).
Proof.
  intros I Hr. destruct st as [qs0 ps tot]. cbn [quotas pods total] in *.
  apply INV_touch with (ps := ps); [exact I|].
  intros W. apply nonneg_app; [exact (inv_pods _ _ _ I W)|exact (Hr W)].
Qed.

Lemma nonneg_set_assigned id b ps :
  (forall x, In x ps -> pod_okb (p_req x) (p_keys x) = true) ->
  forall x, In x (set_assigned id b ps) -> pod_okb (p_req x) (p_keys x) = true.
Proof.
  intros H x Hx. apply in_set_assigned in Hx. destruct Hx as (p0 & Hp0 & Hr & Hk).
  rewrite Hr, Hk. auto.
Qed.

(* a replayed bound pod: the quotas it is charged to are exactly the ones that were tainted *)
Lemma pod_add_bound_facts qs0 ps tot p ps' :
  let st := mkState qs0 ps tot in
  let ids0 := map q_id (path st (p_quota p)) in
  let Y := touch_request st p (taint_ids ids0 qs0) ps' in
  map q_id (path (mkState Y ps' tot) (p_quota p)) = ids0
  /\ (forall x, In x Y -> In (q_id x) ids0 -> q_taint x = true).
Proof.
  intros st ids0 Y.
  destruct (touch_request_map st p (taint_ids ids0 qs0) ps') as (h & K & Eh & Ht).
  fold Y in Eh. split.
  - rewrite Eh. unfold taint_ids. rewrite map_map.
    apply (path_ids_map (fun q => h (taint_fn ids0 q))).
    apply keeps_compose; [exact K|apply keeps_taint_fn].
  - intros x Hx Hid. rewrite Eh in Hx. apply in_map_iff in Hx.
    destruct Hx as (x0 & <- & Hx0). rewrite Ht. destruct (K x0) as (Kid & _ & _).
    rewrite Kid in Hid. exact (taint_ids_tainted ids0 qs0 x0 Hx0 Hid).
Qed.

(* a pod that carries a node name is charged without admission (informer replay / fail-over) *)
Lemma INV_bound_charge cfg wf st p ps' :
  INV cfg wf st -> (wf = true -> forall x, In x ps' -> pod_okb (p_req x) (p_keys x) = true) ->
  INV cfg wf
    (charge (mkState (touch_request st p (taint_ids (map q_id (path st (p_quota p))) (quotas st)) ps')
                     ps' (total st)) p).
Proof.
  intros I Hps'. destruct st as [qs0 ps tot]. cbn [quotas pods total] in *.
  set (ids0 := map q_id (path (mkState qs0 ps tot) (p_quota p))).
  assert (I1 : INV cfg wf (mkState (touch_request (mkState qs0 ps tot) p (taint_ids ids0 qs0) ps') ps' tot)).
  { apply INV_touch with (ps := ps); [apply INV_taint; exact I|exact Hps']. }
  destruct (pod_add_bound_facts qs0 ps tot p ps') as [Eids Htn].
  fold ids0 in Eids, Htn.
  unfold charge. cbn [quotas pods total]. rewrite Eids.
  apply INV_upd_used with (ps := ps'); [exact I1| |].
  - intros W q Hq Hid Hnt. exfalso. rewrite (Htn q Hq Hid) in Hnt. discriminate Hnt.
  - intro W. apply nonneg_set_assigned. exact (Hps' W).
Qed.

Lemma INV_pod_add_bound cfg wf st id qn np req keys term :
  INV cfg wf st -> (wf = true -> pod_okb req keys = true) ->
  let p := mkPod id qn req keys np false true term in
  let ps := pods st ++ [p] in
  INV cfg wf
    (charge (mkState (touch_request st p (taint_ids (map q_id (path st qn)) (quotas st)) ps)
                     ps (total st)) p).
Proof.
  intros I Hr p ps'. apply (INV_bound_charge cfg wf st p ps' I).
  intro W. apply nonneg_app; [exact (inv_pods _ _ _ I W)|exact (Hr W)].
Qed.

(* a status update assigns an unassigned pod that carries a node name: tainted path, no request walk *)
Lemma taint_path_facts qs0 ps tot ps' i :
  let ids0 := map q_id (path (mkState qs0 ps tot) i) in
  map q_id (path (mkState (taint_ids ids0 qs0) ps' tot) i) = ids0
  /\ (forall x, In x (taint_ids ids0 qs0) -> In (q_id x) ids0 -> q_taint x = true).
Proof.
  intros ids0. split.
  - unfold taint_ids. apply (path_ids_map (taint_fn ids0)). apply keeps_taint_fn.
  - intros x Hx Hid. exact (taint_ids_tainted ids0 qs0 x Hx Hid).
Qed.

Lemma INV_taint_charge cfg wf st p ps' :
  INV cfg wf st -> (wf = true -> forall x, In x ps' -> pod_okb (p_req x) (p_keys x) = true) ->
  INV cfg wf
    (charge (mkState (taint_ids (map q_id (path st (p_quota p))) (quotas st)) ps' (total st)) p).
Proof.
  intros I Hps'. destruct st as [qs0 ps tot]. cbn [quotas pods total] in *.
  set (ids0 := map q_id (path (mkState qs0 ps tot) (p_quota p))).
  assert (I1 : INV cfg wf (mkState (taint_ids ids0 qs0) ps' tot)).
  { apply (INV_pods _ _ _ ps); [apply INV_taint; exact I|exact Hps']. }
  destruct (taint_path_facts qs0 ps tot ps' (p_quota p)) as [Eids Htn].
  fold ids0 in Eids, Htn.
  unfold charge. cbn [quotas pods total]. rewrite Eids.
  apply INV_upd_used with (ps := ps'); [exact I1| |].
  - intros W q Hq Hid Hnt. exfalso. rewrite (Htn q Hq Hid) in Hnt. discriminate Hnt.
  - intro W. apply nonneg_set_assigned. exact (Hps' W).
Qed.

Lemma in_set_status id b t ps x : In x (set_status id b t ps) ->
  exists x0, In x0 ps /\ p_req x = p_req x0 /\ p_keys x = p_keys x0 /\ p_quota x = p_quota x0.
Proof.
  unfold set_status. intro H. apply in_map_iff in H. destruct H as (y & <- & Hy).
  exists y. split; [exact Hy|]. destruct (p_id y =? id); repeat split.
Qed.
Lemma nonneg_set_status id b t ps :
  (forall x, In x ps -> pod_okb (p_req x) (p_keys x) = true) ->
  forall x, In x (set_status id b t ps) -> pod_okb (p_req x) (p_keys x) = true.
Proof.
  intros H x Hx. apply in_set_status in Hx. destruct Hx as (x0 & Hx0 & -> & -> & _). auto.
Qed.

Lemma in_set_np id ps x : In x (set_np id ps) ->
  exists x0, In x0 ps /\ p_req x = p_req x0 /\ p_keys x = p_keys x0 /\ p_quota x = p_quota x0.
Proof.
  unfold set_np. intro H. apply in_map_iff in H. destruct H as (y & <- & Hy).
  exists y. split; [exact Hy|]. destruct (p_id y =? id); repeat split.
Qed.
Lemma nonneg_set_np id ps :
  (forall x, In x ps -> pod_okb (p_req x) (p_keys x) = true) ->
  forall x, In x (set_np id ps) -> pod_okb (p_req x) (p_keys x) = true.
Proof.
  intros H x Hx. apply in_set_np in Hx. destruct Hx as (x0 & Hx0 & -> & -> & _). auto.
Qed.

Lemma INV_charge cfg wf st p q anc :
  INV cfg wf st -> In p (pods st) ->
  path st (p_quota p) = q :: anc -> admission cfg st p (q :: anc) = 0 ->
  INV cfg wf (charge st p).
Proof.
  intros I Hp Hpath Hadm. destruct st as [qs0 ps tot]. unfold charge. cbn [quotas pods total] in *.
  apply INV_upd_used with (ps := ps); [exact I| |].
  - intros W x Hx Hid Hnt. subst wf.
    rewrite Hpath in Hid.
    apply (charge_used_ok cfg (mkState qs0 ps tot) p q anc I (inv_pods _ _ _ I eq_refl p Hp)
                          Hpath Hadm x Hx Hid Hnt).
  - intro W. apply nonneg_set_assigned. exact (inv_pods _ _ _ I W).
Qed.

Lemma INV_refund cfg wf st p ps' :
  INV cfg wf st -> In p (pods st) ->
  (wf = true -> forall x, In x ps' -> pod_okb (p_req x) (p_keys x) = true) ->
  INV cfg wf (mkState (refund st p) ps' (total st)).
Proof.
  intros I Hp Hps. destruct st as [qs0 ps tot]. unfold refund. cbn [quotas pods total] in *.
  apply INV_upd_used with (ps := ps); [exact I| |exact Hps].
  intros W x Hx _ Hnt. subst wf.
  apply (refund_used_ok cfg (mkState qs0 ps tot) p I (inv_pods _ _ _ I eq_refl p Hp) x Hx Hnt).
Qed.

(* an update that touches nothing any invariant reads (the allow-lent-resource flag) *)
Definition neutral (h : quota -> quota) : Prop :=
  forall q, q_id (h q) = q_id q /\ q_parent (h q) = q_parent q /\ q_decl (h q) = q_decl q
            /\ q_max (h q) = q_max q /\ q_mindecl (h q) = q_mindecl q /\ q_min (h q) = q_min q
            /\ q_used (h q) = q_used q /\ q_npused (h q) = q_npused q
            /\ q_creq (h q) = q_creq q /\ q_taint (h q) = q_taint q.

Lemma neutral_flip id : neutral (fun q => if q_id q =? id then set_lend q (negb (q_lend q)) else q).
Proof. intro q. destruct (q_id q =? id); repeat split. Qed.

Lemma neutral_keeps h : neutral h -> keeps h.
Proof. intros N q. destruct (N q) as (A & B & _ & _ & _ & _ & _ & _ & _ & T). repeat split; auto. congruence. Qed.

Lemma INV_neutral cfg wf h qs ps tot :
  neutral h -> INV cfg wf (mkState qs ps tot) -> INV cfg wf (mkState (map h qs) ps tot).
Proof.
  intros N [Hnd Hcr Hpar Hpex Hus Hok Hpo]. cbn in *. pose proof (neutral_keeps h N) as K.
  constructor; cbn.
  - rewrite (map_ids _ _ K). exact Hnd.
  - apply forall_map; [exact Hcr|]. intros q _ Hq d Hd.
    destruct (N q) as (_ & _ & Ed & Em & _ & _ & _ & _ & Ec & _). rewrite Ed in Hd. rewrite Ec, Em. exact (Hq d Hd).
  - apply par_map; assumption.
  - apply pex_map; assumption.
  - intro W. apply forall_map; [exact (Hus W)|]. intros q _ Hq Ht d Hd.
    destruct (N q) as (_ & _ & Ed & Em & _ & _ & Eu & _ & _ & Et). rewrite Ed in Hd. rewrite Et in Ht.
    rewrite Eu, Em. exact (Hq Ht d Hd).
  - intro W. apply forall_map; [exact (Hok W)|]. intros q _ Hq.
    destruct (N q) as (_ & _ & Ed & Em & Emd & Emn & _). unfold quota_okb. rewrite Ed, Em, Emd, Emn. exact Hq.
  - exact Hpo.
Qed.

(* a bare Reserve that belongs to the cycle whose check is in flight *)
Lemma INV_charge_flight cfg wf st p ids m :
  INV cfg wf st -> In p (pods st) ->
  (wf = true -> flight_ok (quotas st) (Some (p_id p, (ids, m)))
                /\ ids = map q_id (path st (p_quota p)) /\ m = pod_delta st p) ->
  INV cfg wf (charge st p).
Proof.
  intros I Hp Hf. destruct st as [qs0 ps tot]. unfold charge. cbn [quotas pods total] in *.
  apply INV_upd_used with (ps := ps); [exact I| |].
  - intros W x Hx Hid Hnt. destruct (Hf W) as ((_ & _ & Hb) & Ei & Em). subst ids m.
    apply Hb; assumption.
  - intro W. apply nonneg_set_assigned. exact (inv_pods _ _ _ I W).
Qed.

(* ---------- every operation ---------- *)
(* the restart case needs the exactness invariant (Proofs_Exact.v) and is supplied there *)
Theorem INV_step_gen cfg wf st sn o :
  INV cfg wf st -> FL wf st sn ->
  (o = ORestart -> INV cfg wf (fst (step cfg st ORestart))) ->
  INV cfg (wf && op_okb st sn o) (fst (step cfg st o)).
Proof.
  intros I F Hre.
  assert (Iw : INV cfg (wf && op_okb st sn o) st).
  { apply (INV_weaken _ _ _ _ I). intro H. apply andb_true_iff in H. apply H. }
  assert (Hop : wf && op_okb st sn o = true -> op_okb st sn o = true).
  { intro H. apply andb_true_iff in H. apply H. }
  assert (Hwf : wf && op_okb st sn o = true -> wf = true).
  { intro H. apply andb_true_iff in H. apply H. }
  destruct o as [id parent lend decl mx mindecl mn w|id mx mindecl mn w|id qn np req keys term|id|id|id|id|id|t
                 |id qn np req keys term|id|id|id term bind| |]; unfold step, apply_attempt; cbv zeta.
  - (* quota add *)
    destruct (id <=? 0) eqn:E0; cbn [orb fst]; [exact Iw|].
    destruct (find_quota id (quotas st)) eqn:Ef; cbn [orb fst]; [exact Iw|].
    match goal with |- context [negb ?b] => destruct b eqn:Ep end; cbn [negb fst]; [|exact Iw].
    apply INV_quota_add; [exact Iw|exact Ef|exact E0| |].
    + destruct (parent =? 0) eqn:Ez; [left; lia|]. right.
      destruct (find_quota parent (quotas st)) as [P|]; [exists P; reflexivity|discriminate].
    + intro W. exact (Hop W).
  - (* quota update *)
    destruct (find_quota id (quotas st)) as [q0|] eqn:Ef; cbn [fst]; [|exact Iw].
    apply (INV_quota_update cfg _ st id q0 mx mindecl mn w); [exact Iw|exact Ef| |].
    + intro W. specialize (Hop W). cbn [op_okb] in Hop. rewrite Ef in Hop. exact Hop.
    + intros d Hd.
      match goal with |- vget (if ?c then _ else _) d <= _ => destruct c eqn:Ec end.
      * rewrite vget_vmk, Hd. lia.
      * rewrite any_dim_false in Ec. specialize (Ec d). rewrite Hd in Ec. cbn in Ec.
        apply negb_false_iff, Z.eqb_eq in Ec. rewrite Ec.
        apply find_quota_some in Ef. exact (inv_creq _ _ _ I q0 (proj1 Ef) d Hd).
  - (* pod add *)
    destruct (find_pod id (pods st)); cbn [fst]; [exact Iw|].
    destruct (find_quota qn (quotas st)); cbn [fst]; [|exact Iw].
    apply (INV_pod_add cfg _ st (mkPod id qn req keys np false false term)); [exact Iw|]. intro W. exact (Hop W).
  - (* attempt *)
    destruct (find_pod id (pods st)) as [p|] eqn:Ef; cbn [fst]; [|exact Iw].
    destruct (path st (p_quota p)) as [|q anc] eqn:Ep.
    + cbn [admission]. cbn [Z.eqb andb fst]. exact Iw.
    + destruct (admission cfg st p (q :: anc) =? 0) eqn:Ea; cbn [andb]; [|exact Iw].
      destruct (p_assigned p); cbn [negb]; [exact Iw|].
      apply Z.eqb_eq in Ea. apply find_pod_some in Ef.
      apply (INV_charge cfg _ st p q anc Iw (proj1 Ef) Ep Ea).
  - (* check *)
    destruct (find_pod id (pods st)) as [p|]; cbn [fst]; exact Iw.
  - (* reserve *)
    destruct (find_pod id (pods st)) as [p|] eqn:Ef; cbn [fst]; [|exact Iw].
    destruct (p_assigned p) eqn:Ea; [exact Iw|].
    pose proof (find_pod_some _ _ _ Ef) as [Hpin Hpid].
    apply (INV_charge_flight cfg _ st p
             (match sn with Some (_, (ids, _)) => ids | None => [] end)
             (match sn with Some (_, (_, m)) => m | None => vzero end) Iw Hpin).
    intro W. pose proof (Hop W) as Ho. cbn [op_okb] in Ho. rewrite Ef, Ea in Ho. cbn [orb] in Ho.
    destruct (F (Hwf W)) as [_ Hfl].
    destruct sn as [[i [ids m]]|]; [|discriminate Ho].
    apply andb_true_iff in Ho. destruct Ho as [Ho Hm]. apply andb_true_iff in Ho. destruct Ho as [_ Hids].
    apply eq_ids_true in Hids. apply vec_eqb_true in Hm.
    split; [exact Hfl|]. split; [exact Hids|exact Hm].
  - (* unreserve *)
    destruct (find_pod id (pods st)) as [p|] eqn:Ef; cbn [fst]; [|exact Iw].
    destruct (p_assigned p); cbn [fst]; [|exact Iw].
    apply find_pod_some in Ef.
    apply INV_refund; [exact Iw|exact (proj1 Ef)|].
    intro W. apply nonneg_set_assigned. exact (inv_pods _ _ _ Iw W).
  - (* pod delete *)
    destruct (find_pod id (pods st)) as [p|] eqn:Ef; cbn [fst]; [|exact Iw].
    apply find_pod_some in Ef.
    assert (Hrm : wf && true = true -> forall x, In x (remove_pod id (pods st)) -> pod_okb (p_req x) (p_keys x) = true).
    { intros W x Hx. apply in_remove_pod in Hx. exact (inv_pods _ _ _ Iw W x Hx). }
    apply INV_touch with (ps := pods st); [|exact Hrm].
    destruct (p_assigned p).
    + apply (INV_refund cfg _ st p (pods st) Iw (proj1 Ef)). exact (inv_pods _ _ _ Iw).
    + destruct st; exact Iw.
  - (* capacity *)
    cbn [fst]. apply (INV_ext _ _ st); [exact Iw|reflexivity|reflexivity].
  - (* bound pod *)
    destruct (find_pod id (pods st)); cbn [fst]; [exact Iw|].
    destruct (find_quota qn (quotas st)); cbn [fst]; [|exact Iw].
    destruct term; cbn [fst].
    + apply (INV_pod_add cfg _ st (mkPod id qn req keys np false true true)); [exact Iw|]. intro W. exact (Hop W).
    + apply INV_pod_add_bound; [exact Iw|]. intro W. exact (Hop W).
  - (* allow-lent flip *)
    destruct (find_quota id (quotas st)); cbn [fst]; [|exact Iw].
    destruct st as [qs0 ps tot]. cbn [quotas pods total] in *.
    apply INV_refresh with (ps := ps); [|exact (inv_pods _ _ _ Iw)].
    apply INV_neutral; [apply neutral_flip|exact Iw].
  - (* pod relabel *)
    destruct (find_pod id (pods st)) as [p|] eqn:Ef; cbn [fst]; [|exact Iw].
    assert (Hps : wf && true = true -> forall x, In x (set_np id (pods st)) -> pod_okb (p_req x) (p_keys x) = true).
    { intro W. apply nonneg_set_np. exact (inv_pods _ _ _ Iw W). }
    destruct (p_assigned p).
    + cbn [fst]. destruct st as [qs0 ps tot]. cbn [quotas pods total] in *.
      apply INV_touch with (ps := ps); [|exact Hps].
      apply INV_upd_used with (ps := ps); [exact Iw| |exact (inv_pods _ _ _ Iw)].
      intros W q Hq _ Ht. exact (inv_used _ _ _ Iw W q Hq Ht).
    + destruct (p_bound p && negb (p_term p)); cbn [fst].
      * change (p_quota p) with (p_quota (flip_np p)).
        apply (INV_bound_charge cfg _ st (flip_np p) (set_np id (pods st)) Iw Hps).
      * destruct st as [qs0 ps tot]. cbn [quotas pods total] in *.
        apply INV_touch with (ps := ps); [exact Iw|exact Hps].
  - (* pod status *)
    destruct (find_pod id (pods st)) as [p|] eqn:Ef; cbn [fst]; [|exact Iw].
    assert (Hps : wf && true = true -> forall x, In x (set_status id (p_bound p || bind) term (pods st)) ->
                                                 pod_okb (p_req x) (p_keys x) = true).
    { intro W. apply nonneg_set_status. exact (inv_pods _ _ _ Iw W). }
    match goal with |- context [if ?b then _ else _] => destruct b end; cbn [fst].
    + change (p_quota p) with (p_quota (with_status p (p_bound p || bind) term)).
      apply (INV_taint_charge cfg _ st (with_status p (p_bound p || bind) term) _ Iw Hps).
    + destruct st as [qs0 ps tot]. cbn [quotas pods total] in *.
      apply (INV_pods _ _ _ ps); [exact Iw|exact Hps].
  - (* restart *)
    cbn [op_okb]. rewrite andb_true_r. exact (Hre eq_refl).
  - exact Iw.
Qed.

(* ---------- the check in flight survives every operation ---------- *)
(* ---------- restart: the pod table ---------- *)
Lemma in_restart_pods ps x :
  In x (map restart_pod ps) ->
  exists x0, In x0 ps /\ p_req x = p_req x0 /\ p_keys x = p_keys x0 /\ p_quota x = p_quota x0.
Proof.
  intro H. apply in_map_iff in H. destruct H as (y & <- & Hy). exists y. repeat split. exact Hy.
Qed.
Lemma nonneg_restart_pods ps :
  (forall x, In x ps -> pod_okb (p_req x) (p_keys x) = true) ->
  forall x, In x (map restart_pod ps) -> pod_okb (p_req x) (p_keys x) = true.
Proof.
  intros H x Hx. apply in_restart_pods in Hx. destruct Hx as (x0 & Hx0 & -> & -> & _). auto.
Qed.
Definition usage_fn (st1 : state) : quota -> quota :=
  fun q => set_usage q (vmk (exp_used st1 q)) (vmk (exp_npused st1 q)).
Lemma keeps_usage_fn st1 : keeps (usage_fn st1).
Proof. apply (keeps_set_usage (fun q => vmk (exp_used st1 q)) (fun q => vmk (exp_npused st1 q))). Qed.
Lemma exp_used_nonneg st1 q d :
  (forall x, In x (pods st1) -> pod_okb (p_req x) (p_keys x) = true) -> 0 <= exp_used st1 q d.
Proof.
  intro H. unfold exp_used. apply sumZ_map_nonneg. intros p Hp. unfold pod_share.
  destruct (_ && _); [apply pod_delta_nonneg; exact (H p Hp)|rewrite vget_vzero; lia].
Qed.

Lemma FL_weaken wf wf' st sn : FL wf st sn -> (wf' = true -> wf = true) -> FL wf' st sn.
Proof. intros F H W. exact (F (H W)). Qed.

Lemma FL_none wf st : (wf = true -> used_nonneg (quotas st)) -> FL wf st None.
Proof. intros H W. split; [exact (H W)|exact I]. Qed.

Lemma pods_delta_nonneg cfg wf st p :
  INV cfg wf st -> wf = true -> In p (pods st) -> forall d, 0 <= vget (pod_delta st p) d.
Proof. intros I W Hp. apply pod_delta_nonneg. exact (inv_pods _ _ _ I W p Hp). Qed.

Theorem FL_step cfg wf st sn o :
  INV cfg wf st -> FL wf st sn ->
  FL (wf && op_okb st sn o) (fst (step cfg st o)) (track cfg st sn o).
Proof.
  intros I F.
  assert (Hwf : wf && op_okb st sn o = true -> wf = true).
  { intro H. apply andb_true_iff in H. apply H. }
  assert (Hop : wf && op_okb st sn o = true -> op_okb st sn o = true).
  { intro H. apply andb_true_iff in H. apply H. }
  assert (Fw : FL (wf && op_okb st sn o) st sn) by (apply (FL_weaken wf); assumption).
  destruct o as [id parent lend decl mx mindecl mn w|id mx mindecl mn w|id qn np req keys term|id|id|id|id|id|t
                 |id qn np req keys term|id|id|id term bind| |]; unfold step, apply_attempt; cbv zeta; cbn [track].
  - (* quota add *)
    destruct (id <=? 0) eqn:E0; cbn [orb fst]; [exact Fw|].
    destruct (find_quota id (quotas st)) eqn:Ef; cbn [orb fst]; [exact Fw|].
    match goal with |- context [negb ?b] => destruct b eqn:Ep end; cbn [negb fst]; [|exact Fw].
    intro W. destruct (Fw W) as [Hn Hf]. cbn [quotas].
    set (qs := if chk_parent cfg then quotas st else taint_ids [parent] (quotas st)).
    assert (Hn1 : used_nonneg qs) by (unfold qs; destruct (chk_parent cfg); [exact Hn|apply nonneg_taint; exact Hn]).
    assert (Hf1 : flight_ok qs sn) by (unfold qs; destruct (chk_parent cfg); [exact Hf|apply flight_taint; exact Hf]).
    assert (Eids : map q_id qs = map q_id (quotas st)).
    { unfold qs. destruct (chk_parent cfg); [reflexivity|apply taint_ids_ids]. }
    split.
    + apply nonneg_refresh. intros q Hq. apply in_app_or in Hq.
      destruct Hq as [Hq|[<-|[]]]; [apply Hn1; exact Hq|]. intro d. cbn. rewrite vget_vzero. lia.
    + apply flight_refresh. apply flight_append; [|exact Hf1].
      cbn [q_id]. rewrite Eids. apply find_quota_none. exact Ef.
  - (* quota update *)
    destruct (find_quota id (quotas st)) as [q0|] eqn:Ef; cbn [fst]; [|exact Fw].
    intro W. destruct (Fw W) as [Hn Hf]. cbn [quotas].
    match goal with |- used_nonneg (if ?b then refresh ?i ?l ?p else _) /\ _ =>
      assert (H1 : used_nonneg l /\ flight_ok l sn);
      [|destruct H1 as [A B]; destruct b; [split; [apply nonneg_refresh|apply flight_refresh]|split]; assumption]
    end.
    split.
    + apply nonneg_map; [|exact Hn]. intros x _ Hx. destruct (q_id x =? id); exact Hx.
    + apply flight_map; [|exact Hf]. intros x _. destruct (q_id x =? id); [|apply RL_refl].
      split; [reflexivity|]. split; [reflexivity|]. intro Ht.
      change (q_taint x || lowers x mx = false) in Ht. apply orb_false_iff in Ht. destruct Ht as [Ht Hl].
      split; [exact Ht|]. split; [intro d; cbn; lia|].
      intros d Hd. change (vget (q_max x) d <= vget mx d).
      unfold lowers in Hl. rewrite any_dim_false in Hl. specialize (Hl d). rewrite Hd in Hl.
      cbn in Hl. lia.
  - (* pod add *)
    destruct (find_pod id (pods st)); cbn [fst]; [exact Fw|].
    destruct (find_quota qn (quotas st)); cbn [fst]; [|exact Fw].
    intro W. destruct (Fw W) as [Hn Hf]. cbn [quotas].
    split; [apply nonneg_touch|apply flight_touch]; assumption.
  - (* attempt *)
    destruct (find_pod id (pods st)) as [p|] eqn:Ef; cbn [fst]; [|apply FL_none; intro W; apply (Fw W)].
    apply FL_none. intro W. destruct (Fw W) as [Hn _].
    match goal with |- context [if ?b then charge st p else st] => destruct b end; [|exact Hn].
    unfold charge. cbn [quotas]. apply nonneg_charge; [|exact Hn].
    apply find_pod_some in Ef. apply (pods_delta_nonneg cfg wf st p I (Hwf W) (proj1 Ef)).
  - (* check *)
    destruct (find_pod id (pods st)) as [p|] eqn:Ef; cbn [fst]; [|apply FL_none; intro W; apply (Fw W)].
    destruct (admission cfg st p (path st (p_quota p)) =? 0) eqn:Ea; [|apply FL_none; intro W; apply (Fw W)].
    intro W. destruct (Fw W) as [Hn _]. split; [exact Hn|].
    apply Z.eqb_eq in Ea. apply find_pod_some in Ef. destruct Ef as [Hpin _].
    pose proof (Hwf W) as Wt. subst wf.
    split; [apply (pods_delta_nonneg cfg true st p I eq_refl Hpin)|]. split.
    + intros i Hi. apply in_map_iff in Hi. destruct Hi as (y & <- & Hy). apply in_map.
      exact (path_from_in _ _ _ _ Hy).
    + destruct (path st (p_quota p)) as [|q anc] eqn:Ep; [intros x _ []|].
      intros x Hx Hid Ht.
      exact (charge_used_ok cfg st p q anc I (inv_pods _ _ _ I eq_refl p Hpin) Ep Ea x Hx Hid Ht).
  - (* reserve *)
    destruct (find_pod id (pods st)) as [p|] eqn:Ef; cbn [fst]; [|apply FL_none; intro W; apply (Fw W)].
    apply FL_none. intro W. destruct (Fw W) as [Hn _].
    destruct (p_assigned p); [exact Hn|].
    unfold charge. cbn [quotas]. apply nonneg_charge; [|exact Hn].
    apply find_pod_some in Ef. apply (pods_delta_nonneg cfg wf st p I (Hwf W) (proj1 Ef)).
  - (* unreserve *)
    destruct (find_pod id (pods st)) as [p|] eqn:Ef; cbn [fst]; [|exact Fw].
    destruct (p_assigned p); cbn [fst]; [|exact Fw].
    intro W. destruct (Fw W) as [Hn Hf]. cbn [quotas]. unfold refund.
    apply find_pod_some in Ef.
    split; [apply nonneg_refund; exact Hn|].
    apply flight_refund; [exact Hn|apply (pods_delta_nonneg cfg wf st p I (Hwf W) (proj1 Ef))|exact Hf].
  - (* pod delete *)
    destruct (find_pod id (pods st)) as [p|] eqn:Ef; cbn [fst].
    2:{ intro W. destruct (Fw W) as [Hn Hf]. split; [exact Hn|].
        destruct sn as [[i x]|]; [|exact Logic.I]. destruct (i =? id); [exact Logic.I|exact Hf]. }
    intro W. destruct (Fw W) as [Hn Hf]. cbn [quotas].
    apply find_pod_some in Ef.
    assert (H1 : used_nonneg (if p_assigned p then refund st p else quotas st)
                 /\ flight_ok (if p_assigned p then refund st p else quotas st) sn).
    { destruct (p_assigned p); [|split; assumption]. unfold refund.
      split; [apply nonneg_refund; exact Hn|].
      apply flight_refund; [exact Hn|apply (pods_delta_nonneg cfg wf st p I (Hwf W) (proj1 Ef))|exact Hf]. }
    destruct H1 as [A B]. split; [apply nonneg_touch; exact A|].
    assert (B' : flight_ok (touch_request st p (if p_assigned p then refund st p else quotas st)
                                          (remove_pod id (pods st))) sn) by (apply flight_touch; exact B).
    destruct sn as [[i x]|]; [|exact Logic.I]. destruct (i =? id); [exact Logic.I|exact B'].
  - (* capacity *)
    cbn [fst]. exact Fw.
  - (* bound pod *)
    destruct (find_pod id (pods st)); cbn [fst]; [exact Fw|].
    destruct (find_quota qn (quotas st)); cbn [fst]; [|exact Fw].
    destruct term; cbn [fst].
    { intro W. destruct (Fw W) as [Hn Hf]. cbn [quotas].
      split; [apply nonneg_touch|apply flight_touch]; assumption. }
    intro W. destruct (Fw W) as [Hn Hf].
    destruct st as [qs0 ps tot]. cbn [quotas pods total] in *.
    set (p := mkPod id qn req keys np false true false). set (ps' := ps ++ [p]).
    destruct (pod_add_bound_facts qs0 ps tot p ps') as [Eids Htn].
    change (p_quota p) with qn in Eids, Htn.
    unfold charge. cbn [quotas pods total]. change (p_quota p) with qn. rewrite Eids.
    set (ids0 := map q_id (path (mkState qs0 ps tot) qn)) in *.
    split.
    + apply nonneg_charge.
      * apply pod_delta_nonneg. exact (Hop W).
      * apply nonneg_touch. apply nonneg_taint. exact Hn.
    + apply flight_charge_tainted; [exact Htn|].
      apply flight_touch. apply flight_taint. exact Hf.
  - (* allow-lent flip *)
    destruct (find_quota id (quotas st)); cbn [fst]; [|exact Fw].
    intro W. destruct (Fw W) as [Hn Hf]. cbn [quotas].
    pose proof (neutral_flip id) as N.
    split.
    + apply nonneg_refresh. apply nonneg_map; [|exact Hn]. intros x _ Hx d.
      destruct (N x) as (_ & _ & _ & _ & _ & _ & Eu & _). rewrite Eu. apply Hx.
    + apply flight_refresh. apply flight_map; [|exact Hf]. intros x _.
      destruct (N x) as (Ei & _ & Ed & Em & _ & _ & Eu & _ & _ & Et).
      split; [exact Ei|]. split; [exact Ed|]. rewrite Et. intro Ht. split; [exact Ht|].
      rewrite Eu, Em. split; intros; lia.
  - (* pod relabel *)
    destruct (find_pod id (pods st)) as [p|] eqn:Ef; cbn [fst]; [|exact Fw].
    intro W. destruct (Fw W) as [Hn Hf].
    destruct (p_assigned p).
    + cbn [fst quotas]. split.
      * apply nonneg_touch. unfold upd_used. apply nonneg_map; [|exact Hn]. intros x _ Hx.
        destruct (mem_id _ _); exact Hx.
      * apply flight_touch. unfold upd_used. apply flight_map; [|exact Hf]. intros x _.
        destruct (mem_id _ _); [|apply RL_refl]. repeat split; auto; intros; cbn; lia.
    + destruct (p_bound p && negb (p_term p)); cbn [fst].
      * destruct st as [qs0 ps tot]. cbn [quotas pods total] in *.
        destruct (pod_add_bound_facts qs0 ps tot (flip_np p) (set_np id ps)) as [Eids Htn].
        change (p_quota (flip_np p)) with (p_quota p) in Eids, Htn.
        unfold charge. cbn [quotas pods total]. change (p_quota (flip_np p)) with (p_quota p). rewrite Eids.
        split.
        -- apply nonneg_charge.
           ++ apply pod_delta_nonneg. apply find_pod_some in Ef.
              exact (inv_pods _ _ _ I (Hwf W) p (proj1 Ef)).
           ++ apply nonneg_touch. apply nonneg_taint. exact Hn.
        -- apply flight_charge_tainted; [exact Htn|].
           apply flight_touch. apply flight_taint. exact Hf.
      * cbn [quotas]. split; [apply nonneg_touch|apply flight_touch]; assumption.
  - (* pod status *)
    destruct (find_pod id (pods st)) as [p|] eqn:Ef; cbn [fst]; [|exact Fw].
    intro W. destruct (Fw W) as [Hn Hf].
    match goal with |- context [if ?b then _ else _] => destruct b end; cbn [fst].
    + destruct st as [qs0 ps tot]. cbn [quotas pods total] in *.
      set (p' := with_status p (p_bound p || bind) term).
      destruct (taint_path_facts qs0 ps tot (set_status id (p_bound p || bind) term ps) (p_quota p)) as [Eids Htn].
      unfold charge. cbn [quotas pods total]. change (p_quota p') with (p_quota p). rewrite Eids.
      split.
      * apply nonneg_charge.
        -- apply pod_delta_nonneg. apply find_pod_some in Ef.
           exact (inv_pods _ _ _ I (Hwf W) p (proj1 Ef)).
        -- apply nonneg_taint. exact Hn.
      * apply flight_charge_tainted; [exact Htn|]. apply flight_taint. exact Hf.
    + cbn [quotas]. split; assumption.
  - (* restart *)
    cbn [fst]. apply FL_none. intro W. cbn [quotas].
    apply nonneg_refresh. apply nonneg_map with (qs := taint_ids (fresh_ids st) (quotas st)).
    + intros x _ _ d. cbn [q_used set_usage]. rewrite vget_vmk. apply exp_used_nonneg.
      cbn [pods]. apply nonneg_restart_pods. exact (inv_pods _ _ _ I (Hwf W)).
    + apply nonneg_taint. exact (proj1 (Fw W)).
  - exact Fw.
Qed.


