(* C03 — every operation preserves the invariant (for all configurations, all states). *)
From Coq Require Import List ZArith Bool Lia.
From Verif Require Import Lib.ListX C02.Model C03.Model C03.Spec C03.Proofs C03.Proofs_Runtime
     C03.Proofs_Inv.
Import ListNotations.
Open Scope Z_scope.

Lemma INV_ext cfg wf st st' :
  INV cfg wf st -> quotas st' = quotas st -> pods st' = pods st -> INV cfg wf st'.
Proof.
  intros [H1 H2 H3 H4 H5 H6 H7] Eq Ep. constructor; rewrite ?Eq, ?Ep; assumption.
Qed.

Lemma INV_weaken cfg wf wf' st : INV cfg wf st -> (wf' = true -> wf = true) -> INV cfg wf' st.
Proof.
  intros [H1 H2 H3 H4 H5 H6 H7] Hw. constructor; auto.
Qed.

Lemma INV_pods cfg wf qs ps ps' tot :
  INV cfg wf (mkState qs ps tot) ->
  (wf = true -> forall p, In p ps' -> vec_nonnegb (p_req p) = true) ->
  INV cfg wf (mkState qs ps' tot).
Proof.
  intros [H1 H2 H3 H4 H5 H6 H7] Hp. constructor; cbn in *; auto.
Qed.

(* ---------- paths only depend on identities and parents ---------- *)
Lemma find_quota_map h id qs :
  (forall q, q_id (h q) = q_id q) -> find_quota id (map h qs) = option_map h (find_quota id qs).
Proof.
  intro K. induction qs as [|x t IH]; [reflexivity|].
  cbn [map find_quota]. rewrite K. destruct (q_id x =? id); [reflexivity|exact IH].
Qed.

Lemma path_from_map h fuel qs id :
  keeps h -> path_from fuel (map h qs) id = map h (path_from fuel qs id).
Proof.
  intro K. revert id. induction fuel as [|f IH]; intro id; [reflexivity|].
  cbn [path_from]. destruct (id =? 0); [reflexivity|].
  rewrite (find_quota_map h id qs (fun q => proj1 (K q))).
  destruct (find_quota id qs) as [x|]; [|reflexivity].
  cbn [option_map map]. rewrite IH. destruct (K x) as (_ & -> & _). reflexivity.
Qed.

Lemma path_ids_map h qs ps tot ps' tot' id :
  keeps h ->
  map q_id (path (mkState (map h qs) ps tot) id) = map q_id (path (mkState qs ps' tot') id).
Proof.
  intro K. unfold path. cbn [quotas]. rewrite map_length, (path_from_map h _ _ _ K).
  apply map_ids. exact K.
Qed.

Lemma keeps_compose h1 h2 : keeps h1 -> keeps h2 -> keeps (fun q => h1 (h2 q)).
Proof.
  intros K1 K2 q. destruct (K1 (h2 q)) as (A & B & C). destruct (K2 q) as (D & E & F).
  repeat split; try congruence. auto.
Qed.
Lemma keeps_id : keeps (fun q => q).
Proof. intro q. auto. Qed.

Definition refresh_fn ids qs ps : quota -> quota :=
  fun q => if mem_id (q_id q) ids then set_creq q (vmk (limreq (length qs) qs ps q)) else q.
Lemma keeps_refresh_fn ids qs ps : keeps (refresh_fn ids qs ps).
Proof. apply keeps_cond. apply (keeps_set_creq (fun q => vmk (limreq (length qs) qs ps q))). Qed.
Definition taint_fn ids : quota -> quota :=
  fun q => if mem_id (q_id q) ids then set_taint q true else q.
Lemma keeps_taint_fn ids : keeps (taint_fn ids).
Proof. apply keeps_cond, keeps_set_taint_true. Qed.

(* touch_request is a pointwise update keeping identities *)
Lemma touch_request_map st p qs ps :
  exists h, keeps h /\ touch_request st p qs ps = map h qs
            /\ (forall q, q_taint (h q) = q_taint q).
Proof.
  unfold touch_request. destruct (vec_zerob (pod_delta st p)).
  - exists (fun q => q). split; [apply keeps_id|]. split; [symmetry; apply map_id|reflexivity].
  - exists (refresh_fn (map q_id (path st (p_quota p))) qs ps).
    split; [apply keeps_refresh_fn|]. split; [reflexivity|].
    intro q. unfold refresh_fn. destruct (mem_id _ _); reflexivity.
Qed.

Lemma INV_touch cfg wf st p qs ps ps' tot :
  INV cfg wf (mkState qs ps tot) ->
  (wf = true -> forall x, In x ps' -> vec_nonnegb (p_req x) = true) ->
  INV cfg wf (mkState (touch_request st p qs ps') ps' tot).
Proof.
  intros I Hp. unfold touch_request. destruct (vec_zerob (pod_delta st p)).
  - apply (INV_pods _ _ _ _ _ _ I Hp).
  - apply (INV_refresh _ _ _ _ _ _ I _ Hp).
Qed.

Lemma NoDup_app_single {A} (l : list A) x : NoDup l -> ~ In x l -> NoDup (l ++ [x]).
Proof.
  induction l as [|a t IH]; cbn; intros Hnd Hx.
  - constructor; [intros []|constructor].
  - inversion Hnd as [|? ? Ha Ht]; subst. constructor.
    + intro H. apply in_app_or in H. destruct H as [H|[H|[]]]; [contradiction|].
      subst. apply Hx. left. reflexivity.
    + apply IH; auto.
Qed.

(* ---------- a new quota ---------- *)
Lemma INV_append cfg wf qs ps tot nq :
  INV cfg wf (mkState qs ps tot) ->
  ~ In (q_id nq) (map q_id qs) -> q_id nq <> 0 ->
  (q_parent nq <> 0 -> In (q_parent nq) (map q_id qs)) ->
  (chk_parent cfg = false -> forall x, In x qs -> q_id x = q_parent nq -> q_taint x = true) ->
  creq_capped nq ->
  (wf = true -> used_ok nq /\ quota_okb nq = true) ->
  INV cfg wf (mkState (qs ++ [nq]) ps tot).
Proof.
  intros [Hnd Hcr Hpar Hpex Hus Hok Hpo] Hfresh Hnz Hparent Htaint Hc Hw. cbn in *.
  constructor; cbn.
  - rewrite map_app. cbn. apply NoDup_app_single; assumption.
  - intros q Hq. apply in_app_or in Hq. destruct Hq as [Hq|[<-|[]]]; auto.
  - intros Hchk c x Hcin Hxin Hp Hid.
    apply in_app_or in Hcin. apply in_app_or in Hxin.
    destruct Hcin as [Hcin|[<-|[]]]; destruct Hxin as [Hxin|[<-|[]]].
    + apply (Hpar Hchk c x); auto.
    + exfalso. apply Hfresh. rewrite Hid. apply Hpex; auto.
    + apply Htaint; auto.
    + exfalso. apply Hfresh. rewrite Hid. apply Hparent. exact Hp.
  - intros c Hcin Hp. rewrite map_app. apply in_or_app.
    apply in_app_or in Hcin. destruct Hcin as [Hcin|[<-|[]]]; left; auto.
  - intros W q Hq. apply in_app_or in Hq. destruct Hq as [Hq|[<-|[]]]; [auto|apply Hw; exact W].
  - intros W q Hq. apply in_app_or in Hq. destruct Hq as [Hq|[<-|[]]]; [auto|apply Hw; exact W].
  - exact Hpo.
Qed.
