(* C03 — the four entry points the generic driver calls, over the flat-integer wire format.
   (Extract.v only extracts them; they live here so that theorems can be stated about them.) *)
From Coq Require Import List ZArith Bool.
From Verif Require Import Lib.Wire C03.Model C03.Spec C03.Codec.
Import ListNotations.
Open Scope Z_scope.

Definition run_case (inp : list Z) : list Z :=
  let '(cfg, ops) := decode inp in
  flat_map enc_obs (run cfg init_state ops).

(* the harness logs the single integer -777777 when the implementation panicked *)
Definition is_crash (obs : list Z) : bool :=
  match obs with
  | [x] => x =? -777777
  | _ => false
  end.

Definition prop_case (inp obs : list Z) : Z :=
  let '(cfg, ops) := decode inp in
  if is_crash obs then 99
  else prop_code_full cfg ops (parse_obs (length ops) obs).

(* non-trivial: at least one attempt admitted and at least one rejected (by the model) *)
Definition nontrivial_case (inp : list Z) : bool :=
  let '(cfg, ops) := decode inp in
  let os := run cfg init_state ops in
  let att := map snd (filter (fun x => match fst x with OAttempt _ => true | _ => false end)
                             (combine ops os)) in
  existsb (fun o => o_status o =? 0) att && existsb (fun o => o_status o =? 1) att.

Fixpoint eq_listZ (a b : list Z) : bool :=
  match a, b with
  | [], [] => true
  | x :: a', y :: b' => (x =? y) && eq_listZ a' b'
  | _, _ => false
  end.

(* known-finding shapes: 1 = everything holds except clause 3 (non-preemptible pod admitted
   against a dimension missing from min) AND the implementation's whole observable for the case is
   exactly what the faithful model produces (so nothing else can hide behind the recorded shape) *)
Definition finding_sig (inp obs : list Z) : Z :=
  if (prop_case inp obs =? 3) && eq_listZ (run_case inp) obs then 1 else 0.
