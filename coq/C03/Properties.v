(* C03 — Quota admission never lets usage pass the quota's limit.  Exported theorems only. *)
From Coq Require Import List ZArith Bool.
From Verif Require Import C02.Model C03.Model C03.Spec C03.Codec C03.Entry C03.Proofs C03.Proofs_Runtime
     C03.Proofs_Inv C03.Proofs_Flight C03.Proofs_Step C03.Proofs_Exact C03.Proofs_Check C03.Proofs_Sound C03.Proofs_Hist C03.Proofs_NP C03.Proofs_Codec C03.Examples.
Import ListNotations.
Open Scope Z_scope.

(* 1. A pod is admitted only if usage + request stays within the limit in force (runtime quota, or
      max when runtime quota is off) in every dimension its quota declares; a non-preemptible pod
      only if non-preemptible usage + request stays within min; and, when parent checking is on,
      within every ancestor's limit in the dimensions (keys) the pod's request carries.  Any state,
      any switches. *)
Theorem c03_admit_sound : forall cfg st p q anc,
  admission cfg st p (q :: anc) = 0 ->
  admissible (chk_parent cfg) p q anc (limit_of cfg st).
Proof. exact admission_sound. Qed.
Print Assumptions c03_admit_sound.

(* 2. Every rejection is real: it names a quota of the path and a dimension whose limit would be passed. *)
Theorem c03_reject_complete : forall cfg st p q anc,
  admission cfg st p (q :: anc) = 1 ->
  let mreq := vmask (q_decl q) (p_req p) in
  exceeds_self q (limit_of cfg st q) mreq
  \/ (p_np p = true /\ exceeds_np q mreq)
  \/ (chk_parent cfg = true
      /\ exists a, In a anc /\ exceeds_anc a (limit_of cfg st a) (req_keys q p) mreq).
Proof. exact admission_reject_witness. Qed.
Print Assumptions c03_reject_complete.

Theorem c03_reject_not_admissible : forall cfg st p q anc,
  admission cfg st p (q :: anc) = 1 ->
  ~ admissible (chk_parent cfg) p q anc (limit_of cfg st).
Proof. exact admission_complete. Qed.
Print Assumptions c03_reject_not_admissible.

Theorem c03_verdict_total : forall cfg st p q anc,
  admission cfg st p (q :: anc) = 0 \/ admission cfg st p (q :: anc) = 1.
Proof. exact admission_total. Qed.
Print Assumptions c03_verdict_total.

(* 3. After ANY history (no hypothesis at all), the limit in force of a webhook-valid quota
      (0 <= min <= max on its keys) is within its max — the runtime quota never exceeds max. *)
Theorem c03_limit_le_max : forall cfg ops q,
  In q (quotas (exec cfg init_state ops)) -> quota_okb q = true ->
  used_le_max q (limit_of cfg (exec cfg init_state ops) q).
Proof. exact limit_le_max_hist. Qed.
Print Assumptions c03_limit_le_max.

(* 4. Hence: after any history of quota creations/updates (ARBITRARY key sets along a parent chain when
      the limit is max; included in the parent's when runtime quota is on), pod arrivals in any phase,
      scheduling attempts (PreFilter + Reserve, atomically or as two operations with any informer
      events in between), unreserves, pod deletions, pod status updates (phase changes, the node
      name appearing), preemptible relabels, allow-lent flips, capacity changes and scheduler
      RESTARTS (a new manager, ReplaceQuotas, every pod object replayed), in any order, with
      well-formed operations
      ([wf_hist]: quota objects the webhook accepts, non-negative requests, and a bare Reserve only
      for the pod whose PreFilter was the last admission decision) and in which no max is lowered
      and no pod is charged without admission ([benign]: no bound, non-terminated pod that was not
      assigned before is replayed or assigned by an update event; a restart replays only pods that
      were admitted before),
      every quota shows used <= max in every dimension it declares — for every quota when parent
      checking is on, for every quota without child quotas when it is off.  All four switch
      combinations ([cfg] is universally quantified). *)
Theorem c03_used_le_max : forall cfg ops,
  wf_hist cfg init_state None ops = true -> benign cfg init_state ops = true ->
  forall q, In q (quotas (exec cfg init_state ops)) ->
    (chk_parent cfg = true
     \/ forall c, In c (quotas (exec cfg init_state ops)) -> q_parent c <> q_id q) ->
    used_le_max q (q_used q).
Proof. exact used_le_max_plain. Qed.
Print Assumptions c03_used_le_max.

(* 4'. Per quota, without [benign]: whatever else happens in the history (other quotas' max
       lowered, bound pods replayed elsewhere), a quota whose ghost flag is clear — its own max was
       never lowered, no bound pod was replayed below it, and it has no child quota while parent
       checking is off — is within max. *)
Theorem c03_used_le_max_per_quota : forall cfg ops,
  wf_hist cfg init_state None ops = true ->
  forall q, In q (quotas (exec cfg init_state ops)) -> q_taint q = false ->
            used_le_max q (q_used q).
Proof. exact used_le_max_flag. Qed.
Print Assumptions c03_used_le_max_per_quota.

(* 4''. What the ghost flag means: one operation sets the flag of a quota only if its own max is
       lowered, an already-bound pod is replayed at or below it, or a child quota is created under
       it while parent checking is off. *)
Theorem c03_flag_origin : forall cfg st o q',
  In q' (quotas (fst (step cfg st o))) -> q_taint q' = true ->
  was_tainted st (q_id q') \/ taint_reason cfg st o (q_id q').
Proof. exact taint_origin. Qed.
Print Assumptions c03_flag_origin.

(* 4e. What "used" means: after any well-formed history the used (non-preemptible used) of every
       quota is exactly the sum of the masked requests of the (non-preemptible) pods currently
       assigned in its subtree: nothing is lost or double-counted by reserve, unreserve, deletion,
       quota creation/update or the tree rebuild of a quota meta change. *)
Theorem c03_used_exact : forall cfg ops,
  wf_hist cfg init_state None ops = true ->
  let st := exec cfg init_state ops in
  forall q, In q (quotas st) -> forall d,
    vget (q_used q) d = exp_used st q d /\ vget (q_npused q) d = exp_npused st q d.
Proof. exact used_exact_hist. Qed.
Print Assumptions c03_used_exact.

(* 5. The invariant behind 3 and 4 is kept by every single operation in every state; [FL] is the
      part about an admission check whose Reserve is still to come: whatever informer events
      happen in between, charging the pod afterwards keeps every quota the check covered within
      its max; [EXI] says the usage figures are the from-scratch sums. *)
Theorem c03_step_invariant : forall cfg wf st sn o,
  INV cfg wf st -> FL wf st sn -> EXI wf st ->
  INV cfg (wf && op_okb st sn o) (fst (step cfg st o))
  /\ FL (wf && op_okb st sn o) (fst (step cfg st o)) (track cfg st sn o)
  /\ EXI (wf && op_okb st sn o) (fst (step cfg st o)).
Proof. exact ALL_step. Qed.
Print Assumptions c03_step_invariant.

(* 5r. A restart in particular: a quota that is still promised something is charged, by the replay,
       only for pods that were assigned before; its used does not grow. *)
Theorem c03_restart_keeps_invariant : forall cfg wf st,
  INV cfg wf st -> EXI wf st ->
  INV cfg wf (fst (step cfg st ORestart)) /\ EXI wf (fst (step cfg st ORestart)).
Proof. exact restart_keeps. Qed.
Print Assumptions c03_restart_keeps_invariant.

(* 6. The decision procedure that bin/check runs on the IMPLEMENTATION's observations accepts
      everything the model produces, for all histories and all switch combinations ... *)
Theorem c03_check_accepts_model : forall cfg ops,
  prop_code cfg ops (run cfg init_state ops) = 0.
Proof. exact prop_code_run. Qed.
Print Assumptions c03_check_accepts_model.

(* ... also end to end over the flat-integer wire format, for every input whatsoever: the full
   decision procedure (clauses 1,2,4,5 and then 3) answers 0, or 3 (the known finding below) *)
Theorem c03_wire_end_to_end : forall inp,
  prop_case inp (run_case inp) = 0 \/ prop_case inp (run_case inp) = 3.
Proof. exact prop_case_run_case. Qed.
Print Assumptions c03_wire_end_to_end.

Theorem c03_wire_end_to_end_complete_min : forall inp,
  mc_hist (fst (decode inp)) init_state (snd (decode inp)) = true ->
  prop_case inp (run_case inp) = 0.
Proof. exact prop_case_run_case_mc. Qed.
Print Assumptions c03_wire_end_to_end_complete_min.

(* 7. ... and what it accepts satisfies the Props of Spec.v (soundness of the decision procedure). *)
Theorem c03_check_sound : forall cfg ops os,
  prop_code cfg ops os = 0 -> holds cfg true init_state None [] ops os.
Proof. exact prop_code_sound. Qed.
Print Assumptions c03_check_sound.

(* 8. The non-preemptible clause read strictly (a dimension the quota declares but min does not
      mention guarantees nothing, min = 0): holds when min has an entry for every key of max ... *)
Theorem c03_np_within_min_partial : forall cfg st p q anc,
  admission cfg st p (q :: anc) = 0 -> p_np p = true -> min_complete q = true ->
  np_strict q (vmask (q_decl q) (p_req p)).
Proof. exact admit_np_strict_partial. Qed.
Print Assumptions c03_np_within_min_partial.

(* ... and is FALSE of the faithful model (and of the code: corpus/C03/history/np-min-absent.case)
   otherwise: a webhook-valid quota, a non-preemptible pod admitted beyond min *)
Theorem c03_np_within_min_refuted :
  exists cfg st p q anc,
    admission cfg st p (q :: anc) = 0 /\ p_np p = true /\ quota_okb q = true
    /\ ~ np_strict q (vmask (q_decl q) (p_req p)).
Proof. exact admit_np_strict_refuted. Qed.
Print Assumptions c03_np_within_min_refuted.

(* ---------- non-vacuity (definitions in Examples.v) ---------- *)
(* ex_hist: a parent with two children, pending pods, attempts (admitted and rejected), roll-back,
   a PreFilter whose Reserve comes three events later, deletion, a max raise, capacity changes:
   it satisfies the hypotheses of theorem 4 for all four switch combinations *)
Example ex_hist_wf : forall rt chk,
  wf_hist (mkConfig rt chk) init_state None ex_hist = true
  /\ benign (mkConfig rt chk) init_state ex_hist = true.
Proof. exact ex_hist_wf_proof. Qed.

(* verdicts of its seven admission decisions for the four switch combinations: both outcomes occur *)
Example ex_hist_verdicts :
  map (fun cfg => map o_status (filter (fun o => negb (o_status o =? -1) && negb (length (o_limits o) =? 0)%nat)
                                       (run cfg init_state ex_hist)))
      [mkConfig false false; mkConfig false true; mkConfig true false; mkConfig true true]
  = [[0; 1; 0; 1; 0; 0; 0]; [0; 1; 0; 1; 0; 0; 0]; [0; 1; 0; 1; 0; 1; 1]; [0; 1; 0; 1; 0; 1; 1]].
Proof. exact ex_hist_verdicts_proof. Qed.

(* the exclusions of theorem 4 are necessary: an already-bound pod replayed by the informer is
   charged without admission ... *)
Example ex_bound_pod_bypasses_admission :
  let st := exec (mkConfig false true) init_state
                 [OQuotaAdd 1 0 true cm (v3 4 4 0) cm (v3 0 0 0) (v3 0 0 0);
                  OPodAddBound 1 1 false (v3 9 1 0) cm false] in
  map (fun q => (q_used q, q_max q, q_taint q)) (quotas st) = [(v3 9 1 0, v3 4 4 0, true)].
Proof. exact ex_bound_pod_proof. Qed.

(* ... and without parent checking a parent can pass its max through its children *)
Example ex_parent_passes_max_without_check :
  let st := exec (mkConfig false false) init_state
                 [OQuotaAdd 2 0 true cm (v3 4 4 0) cm (v3 0 0 0) (v3 0 0 0);
                  OQuotaAdd 3 2 true cm (v3 4 4 0) cm (v3 0 0 0) (v3 0 0 0);
                  OQuotaAdd 5 2 true cm (v3 4 4 0) cm (v3 0 0 0) (v3 0 0 0);
                  OPodAdd 1 3 false (v3 3 1 0) cm false; OPodAdd 2 5 false (v3 3 1 0) cm false;
                  OAttempt 1; OAttempt 2] in
  map (fun q => (q_id q, q_used q, q_taint q)) (quotas st)
  = [(2, v3 6 2 0, true); (3, v3 3 1 0, false); (5, v3 3 1 0, false)].
Proof. exact ex_parent_proof. Qed.

(* key sets that differ along a parent chain (an intermediate quota lacks a dimension its parent and
   its child declare), parent check on: the top quota's limit in that dimension is enforced *)
Example ex_sandwich_ancestor_limit :
  let cfg := mkConfig false true in
  wf_hist cfg init_state None ex_sandwich = true /\ benign cfg init_state ex_sandwich = true
  /\ map o_status (skipn 6 (run cfg init_state ex_sandwich)) = [0; 0; 1]
  /\ map (fun q => (q_id q, q_used q, q_taint q)) (quotas (exec cfg init_state ex_sandwich))
     = [(2, v3 2 0 2, false); (4, v3 2 0 2, false); (5, v3 2 0 2, false)].
Proof. exact ex_sandwich_proof. Qed.

(* a restart keeps the promise: the bound pod is charged again by the replay (its quota is not
   tainted), the pod that was only reserved loses its assignment, the next pod is rejected *)
Example ex_restart_keeps_promise : forall rt chk,
  let cfg := mkConfig rt chk in
  wf_hist cfg init_state None ex_restart = true /\ benign cfg init_state ex_restart = true
  /\ map o_status (filter (fun o => negb (length (o_limits o) =? 0)%nat) (run cfg init_state ex_restart)) = [0; 0; 1]
  /\ map (fun q => (q_used q, q_taint q)) (quotas (exec cfg init_state ex_restart)) = [(v3 6 6 0, false)].
Proof. exact ex_restart_proof. Qed.
