(* C03 — exported theorems only. *)
From Coq Require Import List ZArith Bool.
From Verif Require Import C03.Model C03.Spec C03.Proofs.
Open Scope Z_scope.

Theorem c03_all_dims_spec : forall f, all_dims f = true <-> forall d, f d = true.
Proof. exact all_dims_spec. Qed.
Print Assumptions c03_all_dims_spec.
