(* C03 — the admission check in flight: between a cycle's PreFilter and its Reserve, informer
   events may change the quota table; the bound the check established survives all of them. *)
From Coq Require Import List ZArith Bool Lia.
From Verif Require Import Lib.ListX C02.Model C03.Model C03.Spec C03.Proofs C03.Proofs_Runtime
     C03.Proofs_Inv.
Import ListNotations.
Open Scope Z_scope.

Definition used_nonneg (qs : list quota) : Prop :=
  forall q, In q qs -> forall d, 0 <= vget (q_used q) d.

(* the snapshot [sn] of Model.track: charging [m] to the quotas [ids] keeps every one of them
   that is still promised something within its max *)
Definition flight_ok (qs : list quota) (sn : snap) : Prop :=
  match sn with
  | Some (_, (ids, m)) =>
      (forall d, 0 <= vget m d)
      /\ (forall i, In i ids -> In i (map q_id qs))
      /\ (forall x, In x qs -> In (q_id x) ids -> q_taint x = false ->
                    used_le_max x (vadd (q_used x) m))
  | None => True
  end.

Definition FL (wf : bool) (st : state) (sn : snap) : Prop :=
  wf = true -> used_nonneg (quotas st) /\ flight_ok (quotas st) sn.

Lemma FL_init wf : FL wf init_state None.
Proof. intros _. split; [intros q []|exact I]. Qed.

(* x' is x after an event that cannot hurt a pending check *)
Definition RL (x x' : quota) : Prop :=
  q_id x' = q_id x /\ q_decl x' = q_decl x
  /\ (q_taint x' = false ->
      q_taint x = false
      /\ (forall d, vget (q_used x') d <= vget (q_used x) d)
      /\ (forall d, mget (q_decl x) d = true -> vget (q_max x) d <= vget (q_max x') d)).

Lemma RL_refl x : RL x x.
Proof. repeat split; auto; intros; lia. Qed.

Lemma flight_map h qs sn :
  (forall x, In x qs -> RL x (h x)) -> flight_ok qs sn -> flight_ok (map h qs) sn.
Proof.
  intros Hr H. destruct sn as [[i [ids m]]|]; [|exact I]. destruct H as (Hm & Hsub & Hb).
  assert (Eids : map q_id (map h qs) = map q_id qs).
  { rewrite map_map. apply map_ext_in. intros x Hx. apply (Hr x Hx). }
  split; [exact Hm|]. split; [rewrite Eids; exact Hsub|].
  intros x' Hx' Hid Ht. apply in_map_iff in Hx'. destruct Hx' as (x & <- & Hx).
  destruct (Hr x Hx) as (Ei & Ed & Hrest). destruct (Hrest Ht) as (Ht0 & Hu & Hmx).
  rewrite Ei in Hid. specialize (Hb x Hx Hid Ht0).
  intros d Hd. rewrite Ed in Hd. specialize (Hb d Hd). rewrite vget_vadd in *.
  specialize (Hu d). specialize (Hmx d Hd). lia.
Qed.

Lemma flight_append qs nq sn :
  ~ In (q_id nq) (map q_id qs) -> flight_ok qs sn -> flight_ok (qs ++ [nq]) sn.
Proof.
  intros Hf H. destruct sn as [[i [ids m]]|]; [|exact I]. destruct H as (Hm & Hsub & Hb).
  split; [exact Hm|]. split.
  - intros j Hj. rewrite map_app. apply in_or_app. left. apply Hsub. exact Hj.
  - intros x Hx Hid Ht. apply in_app_or in Hx. destruct Hx as [Hx|[<-|[]]]; [apply Hb; auto|].
    exfalso. apply Hf. apply Hsub. exact Hid.
Qed.

Lemma nonneg_map h qs :
  (forall x, In x qs -> (forall d, 0 <= vget (q_used x) d) -> forall d, 0 <= vget (q_used (h x)) d) ->
  used_nonneg qs -> used_nonneg (map h qs).
Proof.
  intros Hh H q Hq. apply in_map_iff in Hq. destruct Hq as (x & <- & Hx). apply Hh; auto.
Qed.

(* --- the individual updates --- *)
Lemma RL_refresh ids qs ps x :
  RL x (if mem_id (q_id x) ids then set_creq x (vmk (limreq (length qs) qs ps x)) else x).
Proof. destruct (mem_id _ _); [|apply RL_refl]. repeat split; auto; intros; cbn; lia. Qed.

Lemma RL_taint ids x : RL x (if mem_id (q_id x) ids then set_taint x true else x).
Proof.
  destruct (mem_id _ _); [|apply RL_refl]. split; [reflexivity|]. split; [reflexivity|].
  intro H. discriminate H.
Qed.

Lemma flight_refresh ids qs ps sn : flight_ok qs sn -> flight_ok (refresh ids qs ps) sn.
Proof. intro H. unfold refresh. apply flight_map; [|exact H]. intros x _. apply RL_refresh. Qed.
Lemma nonneg_refresh ids qs ps : used_nonneg qs -> used_nonneg (refresh ids qs ps).
Proof.
  intro H. unfold refresh. apply nonneg_map; [|exact H]. intros x _ Hx. destruct (mem_id _ _); exact Hx.
Qed.
Lemma flight_taint ids qs sn : flight_ok qs sn -> flight_ok (taint_ids ids qs) sn.
Proof. intro H. unfold taint_ids. apply flight_map; [|exact H]. intros x _. apply RL_taint. Qed.
Lemma nonneg_taint ids qs : used_nonneg qs -> used_nonneg (taint_ids ids qs).
Proof.
  intro H. unfold taint_ids. apply nonneg_map; [|exact H]. intros x _ Hx. destruct (mem_id _ _); exact Hx.
Qed.
Lemma flight_touch st p qs ps sn : flight_ok qs sn -> flight_ok (touch_request st p qs ps) sn.
Proof. intro H. unfold touch_request. destruct (vec_zerob _); [exact H|apply flight_refresh; exact H]. Qed.
Lemma nonneg_touch st p qs ps : used_nonneg qs -> used_nonneg (touch_request st p qs ps).
Proof. intro H. unfold touch_request. destruct (vec_zerob _); [exact H|apply nonneg_refresh; exact H]. Qed.

(* usage going down *)
Lemma flight_refund ids dl g qs sn :
  used_nonneg qs -> (forall d, 0 <= vget dl d) ->
  flight_ok qs sn -> flight_ok (upd_used ids (fun u => vsub_clamp u dl) g qs) sn.
Proof.
  intros Hn Hd H. unfold upd_used. apply flight_map; [|exact H]. intros x Hx.
  destruct (mem_id _ _); [|apply RL_refl].
  split; [reflexivity|]. split; [reflexivity|]. intro Ht. split; [exact Ht|]. split.
  - intro d. cbn. rewrite vget_vsub_clamp. specialize (Hn x Hx d). specialize (Hd d). lia.
  - intros d _. cbn. lia.
Qed.
Lemma nonneg_refund ids dl g qs :
  used_nonneg qs -> used_nonneg (upd_used ids (fun u => vsub_clamp u dl) g qs).
Proof.
  intro H. unfold upd_used. apply nonneg_map; [|exact H]. intros x _ Hx d.
  destruct (mem_id _ _); [|apply Hx]. cbn. rewrite vget_vsub_clamp. lia.
Qed.
(* usage going up by a non-negative amount keeps it non-negative *)
Lemma nonneg_charge ids dl g qs :
  (forall d, 0 <= vget dl d) -> used_nonneg qs -> used_nonneg (upd_used ids (fun u => vadd u dl) g qs).
Proof.
  intros Hd H. unfold upd_used. apply nonneg_map; [|exact H]. intros x _ Hx d.
  destruct (mem_id _ _); [|apply Hx]. cbn. rewrite vget_vadd. specialize (Hx d). specialize (Hd d). lia.
Qed.
(* usage going up only on quotas that are promised nothing any more *)
Lemma flight_charge_tainted ids f g qs sn :
  (forall x, In x qs -> In (q_id x) ids -> q_taint x = true) ->
  flight_ok qs sn -> flight_ok (upd_used ids f g qs) sn.
Proof.
  intros Ht H. unfold upd_used. apply flight_map; [|exact H]. intros x Hx.
  destruct (mem_id (q_id x) ids) eqn:E; [|apply RL_refl].
  split; [reflexivity|]. split; [reflexivity|]. intro Hc. cbn in Hc.
  apply mem_id_spec in E. rewrite (Ht x Hx E) in Hc. discriminate Hc.
Qed.

Lemma eq_ids_true a : forall b, eq_ids a b = true -> a = b.
Proof.
  induction a as [|x t IH]; intros [|y u]; cbn; try discriminate; auto.
  intro H. apply andb_true_iff in H. destruct H as [H1 H2]. apply Z.eqb_eq in H1.
  rewrite H1, (IH u H2). reflexivity.
Qed.
Lemma vec_eqb_true a b : vec_eqb a b = true -> a = b.
Proof.
  unfold vec_eqb. rewrite all_dims_spec. intro H. apply vec_ext. intro d. specialize (H d). lia.
Qed.
