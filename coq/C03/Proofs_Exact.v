(* C03 — the incrementally kept usage figures equal the from-scratch sums over the pods that are
   currently assigned (clause 6 of Spec.v), for every well-formed history. *)
From Coq Require Import List ZArith Bool Lia.
From Verif Require Import Lib.ListX C02.Model C03.Model C03.Spec C03.Proofs C03.Proofs_Runtime
     C03.Proofs_Inv C03.Proofs_Flight C03.Proofs_Step.
Import ListNotations.
Open Scope Z_scope.

(* ---------- paths do not depend on fuel once there is enough of it ---------- *)
Definition ord (qs : list quota) : Prop := forall q, In q qs -> q_parent q < q_id q.
Definition cnt (qs : list quota) (i : Z) : nat := length (filter (fun q => q_id q <=? i) qs).

Lemma cnt_le_length qs i : (cnt qs i <= length qs)%nat.
Proof. apply filter_length_le. Qed.

Lemma cnt_mono qs a b : a <= b -> (cnt qs a <= cnt qs b)%nat.
Proof.
  intro H. unfold cnt. induction qs as [|y t IH]; [cbn; lia|]. cbn [filter].
  destruct (q_id y <=? a) eqn:E1.
  - replace (q_id y <=? b) with true by (symmetry; apply Z.leb_le; apply Z.leb_le in E1; lia).
    cbn [length]. lia.
  - destruct (q_id y <=? b); cbn [length]; lia.
Qed.

Lemma cnt_lt qs q : In q qs -> q_parent q < q_id q -> (cnt qs (q_parent q) < cnt qs (q_id q))%nat.
Proof.
  intros Hin Hlt. induction qs as [|x t IH]; [destruct Hin|].
  assert (Hm : (cnt t (q_parent q) <= cnt t (q_id q))%nat) by (apply cnt_mono; lia).
  unfold cnt in *. cbn [filter]. destruct Hin as [->|Hin].
  - replace (q_id q <=? q_parent q) with false by (symmetry; apply Z.leb_gt; lia).
    rewrite Z.leb_refl. cbn [length]. lia.
  - specialize (IH Hin). destruct (q_id x <=? q_parent q) eqn:E1.
    + replace (q_id x <=? q_id q) with true by (symmetry; apply Z.leb_le; apply Z.leb_le in E1; lia).
      cbn [length]. lia.
    + destruct (q_id x <=? q_id q); cbn [length]; lia.
Qed.

Lemma path_fuel qs : ord qs -> forall f g i,
  (cnt qs i <= f)%nat -> (cnt qs i <= g)%nat -> path_from f qs i = path_from g qs i.
Proof.
  intros Ho.
  assert (Hz : forall g i, cnt qs i = O -> path_from g qs i = []).
  { intros [|g] i Hc; [reflexivity|]. cbn [path_from]. destruct (i =? 0); [reflexivity|].
    destruct (find_quota i qs) as [q|] eqn:E; [|reflexivity]. exfalso.
    apply find_quota_some in E. destruct E as [Hin Hid]. unfold cnt in Hc.
    assert (In q (filter (fun y => q_id y <=? i) qs)) by (apply filter_In; split; [exact Hin|apply Z.leb_le; lia]).
    destruct (filter _ qs); [contradiction|discriminate]. }
  induction f as [|f IH]; intros g i Hf Hg.
  - assert (cnt qs i = O) by lia. rewrite (Hz g i H). reflexivity.
  - destruct g as [|g].
    + assert (cnt qs i = O) by lia. rewrite (Hz (S f) i H). reflexivity.
    + cbn [path_from]. destruct (i =? 0); [reflexivity|].
      destruct (find_quota i qs) as [q|] eqn:E; [|reflexivity]. f_equal.
      apply find_quota_some in E. destruct E as [Hin Hid].
      pose proof (cnt_lt qs q Hin (Ho q Hin)) as Hl. rewrite Hid in Hl.
      apply IH; lia.
Qed.

(* ---------- quota-table reading used by the from-scratch sums ---------- *)
Definition pidsq (qs : list quota) (i : Z) : list Z := map q_id (path_from (length qs) qs i).
Definition deltaq (qs : list quota) (p : pod) : vec :=
  match find_quota (p_quota p) qs with
  | Some q => vmask (q_decl q) (p_req p)
  | None => vzero
  end.

Lemma pidsq_path st i : map q_id (path st i) = pidsq (quotas st) i.
Proof. reflexivity. Qed.
Lemma deltaq_delta st p : pod_delta st p = deltaq (quotas st) p.
Proof. reflexivity. Qed.

Definition keepsd (h : quota -> quota) : Prop := keeps h /\ forall q, q_decl (h q) = q_decl q.

Lemma pidsq_map h qs i : keeps h -> pidsq (map h qs) i = pidsq qs i.
Proof.
  intro K. unfold pidsq. rewrite map_length, (path_from_map h _ _ _ K). apply map_ids. exact K.
Qed.
Lemma deltaq_map h qs p : keepsd h -> deltaq (map h qs) p = deltaq qs p.
Proof.
  intros [K Kd]. unfold deltaq. rewrite (find_quota_map h _ _ (fun q => proj1 (K q))).
  destruct (find_quota (p_quota p) qs) as [q|]; cbn [option_map]; [rewrite Kd|]; reflexivity.
Qed.

Lemma find_quota_app_l i qs nq q : find_quota i qs = Some q -> find_quota i (qs ++ [nq]) = Some q.
Proof.
  induction qs as [|x t IH]; cbn [find_quota app]; [discriminate|].
  destruct (q_id x =? i); [auto|exact IH].
Qed.
Lemma find_quota_in i qs : In i (map q_id qs) -> exists q, find_quota i qs = Some q.
Proof.
  induction qs as [|x t IH]; cbn [map find_quota]; [intros []|].
  intros [H|H]; [rewrite H, Z.eqb_refl; eauto|].
  destruct (q_id x =? i); [eauto|apply IH; exact H].
Qed.

Lemma path_from_app f qs nq : parents_exist qs -> forall i,
  (i = 0 \/ In i (map q_id qs)) -> path_from f (qs ++ [nq]) i = path_from f qs i.
Proof.
  intros Hp. induction f as [|f IH]; intros i Hi; [reflexivity|].
  cbn [path_from]. destruct (i =? 0) eqn:E0; [reflexivity|].
  destruct Hi as [Hi|Hi]; [lia|].
  destruct (find_quota_in i qs Hi) as [q Hq]. rewrite Hq, (find_quota_app_l _ _ nq _ Hq).
  f_equal. apply IH. apply find_quota_some in Hq. destruct Hq as [Hin _].
  destruct (Z.eq_dec (q_parent q) 0) as [E|E]; [left; exact E|right; apply Hp; assumption].
Qed.

Lemma pidsq_app qs nq i :
  ord qs -> parents_exist qs -> (i = 0 \/ In i (map q_id qs)) -> pidsq (qs ++ [nq]) i = pidsq qs i.
Proof.
  intros Ho Hp Hi. unfold pidsq. rewrite (path_from_app _ qs nq Hp i Hi). f_equal.
  rewrite app_length. cbn [length].
  apply (path_fuel qs Ho); pose proof (cnt_le_length qs i); lia.
Qed.
Lemma deltaq_app qs nq p : In (p_quota p) (map q_id qs) -> deltaq (qs ++ [nq]) p = deltaq qs p.
Proof.
  intro Hi. unfold deltaq. destruct (find_quota_in _ _ Hi) as [q Hq].
  rewrite Hq, (find_quota_app_l _ _ nq _ Hq). reflexivity.
Qed.
Lemma pidsq_sub qs i j : In j (pidsq qs i) -> In j (map q_id qs).
Proof.
  unfold pidsq. intro H. apply in_map_iff in H. destruct H as (q & <- & Hq).
  apply in_map. exact (path_from_in _ _ _ _ Hq).
Qed.

(* ---------- the from-scratch sums, for "used" (sel = all pods) and "non-preemptible used" ---------- *)
Definition shareq (sel : pod -> bool) (qs : list quota) (i : Z) (p : pod) (d : dim) : Z :=
  if sel p && p_assigned p && mem_id i (pidsq qs (p_quota p)) then vget (deltaq qs p) d else 0.
Definition expq (sel : pod -> bool) (qs : list quota) (ps : list pod) (i : Z) (d : dim) : Z :=
  sumZ (map (fun p => shareq sel qs i p d) ps).
Definition sel_all (p : pod) : bool := true.

Lemma exp_used_expq st q d : exp_used st q d = expq sel_all (quotas st) (pods st) (q_id q) d.
Proof.
  unfold exp_used, expq. f_equal. apply map_ext. intro p. unfold pod_share, shareq, sel_all.
  cbn [andb]. rewrite pidsq_path, deltaq_delta.
  destruct (p_assigned p && mem_id (q_id q) (pidsq (quotas st) (p_quota p))); [reflexivity|apply vget_vzero].
Qed.
Lemma exp_npused_expq st q d : exp_npused st q d = expq p_np (quotas st) (pods st) (q_id q) d.
Proof.
  unfold exp_npused, expq. f_equal. apply map_ext. intro p. unfold pod_share, shareq.
  rewrite pidsq_path, deltaq_delta. destruct (p_np p); cbn [andb]; [|reflexivity].
  destruct (p_assigned p && mem_id (q_id q) (pidsq (quotas st) (p_quota p))); [reflexivity|apply vget_vzero].
Qed.

Definition EXQ (qs : list quota) (ps : list pod) : Prop :=
  forall q, In q qs -> forall d,
    vget (q_used q) d = expq sel_all qs ps (q_id q) d
    /\ vget (q_npused q) d = expq p_np qs ps (q_id q) d.

(* structural part: ids grow along paths, pod ids are unique, pods sit in existing quotas *)
Record STR (st : state) : Prop := mkSTR {
  str_ord : ord (quotas st);
  str_pnd : NoDup (map p_id (pods st));
  str_pq : forall p, In p (pods st) -> In (p_quota p) (map q_id (quotas st)) }.
Definition EXI (wf : bool) (st : state) : Prop :=
  STR st /\ (wf = true -> EXQ (quotas st) (pods st)).

Lemma EXI_init wf : EXI wf init_state.
Proof.
  split; [constructor; cbn; [intros q []|constructor|intros p []]|]. intros _ q [].
Qed.

Lemma expq_map sel h qs ps i d : keepsd h -> expq sel (map h qs) ps i d = expq sel qs ps i d.
Proof.
  intro K. unfold expq. f_equal. apply map_ext. intro p. unfold shareq.
  rewrite (pidsq_map h qs _ (proj1 K)), (deltaq_map h qs p K). reflexivity.
Qed.

Lemma EXQ_map h qs ps :
  keepsd h -> (forall q, q_used (h q) = q_used q /\ q_npused (h q) = q_npused q) ->
  EXQ qs ps -> EXQ (map h qs) ps.
Proof.
  intros K Hu H q' Hq' d. apply in_map_iff in Hq'. destruct Hq' as (q & <- & Hq).
  destruct (Hu q) as [-> ->]. rewrite !(expq_map _ h qs ps _ d K).
  destruct K as [K _]. destruct (K q) as (-> & _). exact (H q Hq d).
Qed.

(* ---------- sums over the pod list ---------- *)
Definition setp (p : pod) (b : bool) : pod := mkPod (p_id p) (p_quota p) (p_req p) (p_keys p) (p_np p) b (p_bound p) (p_term p).

Lemma find_pod_none id ps : find_pod id ps = None -> ~ In id (map p_id ps).
Proof.
  induction ps as [|x t IH]; cbn [find_pod map]; [intros _ []|].
  destruct (p_id x =? id) eqn:E; [discriminate|]. intros H [Hx|Ht]; [lia|exact (IH H Ht)].
Qed.

Lemma sum_set_assigned (G : pod -> Z) id b ps p :
  NoDup (map p_id ps) -> find_pod id ps = Some p ->
  sumZ (map G (set_assigned id b ps)) = sumZ (map G ps) - G p + G (setp p b).
Proof.
  unfold set_assigned. induction ps as [|x t IH]; cbn [find_pod map]; intros Hnd Hf; [discriminate|].
  inversion Hnd as [|? ? Hx Ht]; subst. rewrite !sumZ_cons.
  destruct (p_id x =? id) eqn:E.
  - injection Hf as <-. apply Z.eqb_eq in E.
    assert (Hrest : map (fun p0 => if p_id p0 =? id then setp p0 b else p0) t = t).
    { rewrite <- (map_id t) at 2. apply map_ext_in. intros y Hy.
      destruct (p_id y =? id) eqn:Ey; [|reflexivity]. exfalso. apply Hx.
      apply Z.eqb_eq in Ey. rewrite E, <- Ey. apply in_map. exact Hy. }
    unfold setp in Hrest. rewrite Hrest. unfold setp. lia.
  - rewrite (IH Ht Hf). lia.
Qed.

Lemma sum_remove_pod (G : pod -> Z) id ps p :
  NoDup (map p_id ps) -> find_pod id ps = Some p ->
  sumZ (map G (remove_pod id ps)) = sumZ (map G ps) - G p.
Proof.
  unfold remove_pod. induction ps as [|x t IH]; cbn [find_pod map filter]; intros Hnd Hf; [discriminate|].
  inversion Hnd as [|? ? Hx Ht]; subst. rewrite sumZ_cons.
  destruct (p_id x =? id) eqn:E; cbn [negb].
  - injection Hf as <-. apply Z.eqb_eq in E.
    assert (Hrest : filter (fun p0 => negb (p_id p0 =? id)) t = t).
    { clear - Hx E. induction t as [|y t IH]; [reflexivity|]. cbn [filter].
      destruct (p_id y =? id) eqn:Ey; cbn [negb].
      - exfalso. apply Hx. apply Z.eqb_eq in Ey. rewrite E, <- Ey. left. reflexivity.
      - f_equal. apply IH. intro H. apply Hx. right. exact H. }
    rewrite Hrest. lia.
  - cbn [map]. rewrite sumZ_cons, (IH Ht Hf). lia.
Qed.

Lemma sum_ge_term (G : pod -> Z) ps p :
  (forall x, In x ps -> 0 <= G x) -> In p ps -> G p <= sumZ (map G ps).
Proof.
  induction ps as [|x t IH]; intros Hn Hin; [destruct Hin|]. cbn [map]. rewrite sumZ_cons.
  assert (0 <= sumZ (map G t)) by (apply sumZ_map_nonneg; intros; apply Hn; right; assumption).
  destruct Hin as [->|Hin]; [lia|].
  assert (0 <= G x) by (apply Hn; left; reflexivity).
  assert (G p <= sumZ (map G t)) by (apply IH; [intros; apply Hn; right; assumption|exact Hin]). lia.
Qed.

(* the share of a pod only depends on its quota, request, class and flag *)
Lemma shareq_setp sel qs i p b d :
  (forall x y, p_np x = p_np y -> sel x = sel y) ->
  shareq sel qs i (setp p b) d
  = if sel p && b && mem_id i (pidsq qs (p_quota p)) then vget (deltaq qs p) d else 0.
Proof.
  intro Hs. unfold shareq, setp. cbn [p_assigned p_quota]. unfold deltaq. cbn [p_quota p_req].
  rewrite (Hs (mkPod (p_id p) (p_quota p) (p_req p) (p_keys p) (p_np p) b (p_bound p) (p_term p)) p eq_refl). reflexivity.
Qed.
Lemma sel_all_np x y : p_np x = p_np y -> sel_all x = sel_all y.
Proof. reflexivity. Qed.
Lemma sel_np_np x y : p_np x = p_np y -> p_np x = p_np y.
Proof. auto. Qed.

(* ---------- charging and refunding one pod ---------- *)
Section Charge.
  Variables (qs : list quota) (ps : list pod) (id : Z) (p : pod).
  Hypothesis Hnd : NoDup (map p_id ps).
  Hypothesis Hf : find_pod id ps = Some p.
  Let ids := pidsq qs (p_quota p).
  Let dl := deltaq qs p.

  Let hc := fun q => if mem_id (q_id q) ids
                     then set_usage q (vadd (q_used q) dl) (if p_np p then vadd (q_npused q) dl else q_npused q)
                     else q.
  Let hr := fun q => if mem_id (q_id q) ids
                     then set_usage q (vsub_clamp (q_used q) dl)
                                    (if p_np p then vsub_clamp (q_npused q) dl else q_npused q)
                     else q.
  Lemma upd_charge_eq :
    upd_used ids (fun u => vadd u dl) (fun u => if p_np p then vadd u dl else u) qs = map hc qs.
  Proof. reflexivity. Qed.
  Lemma upd_refund_eq :
    upd_used ids (fun u => vsub_clamp u dl) (fun u => if p_np p then vsub_clamp u dl else u) qs = map hr qs.
  Proof. reflexivity. Qed.
  Lemma keepsd_hc : keepsd hc.
  Proof.
    split; [|intro q; unfold hc; destruct (mem_id _ _); reflexivity].
    intro q. unfold hc. destruct (mem_id _ _); cbn; auto.
  Qed.
  Lemma keepsd_hr : keepsd hr.
  Proof.
    split; [|intro q; unfold hr; destruct (mem_id _ _); reflexivity].
    intro q. unfold hr. destruct (mem_id _ _); cbn; auto.
  Qed.
  Lemma hc_id q : q_id (hc q) = q_id q.
  Proof. unfold hc. destruct (mem_id _ _); reflexivity. Qed.
  Lemma hr_id q : q_id (hr q) = q_id q.
  Proof. unfold hr. destruct (mem_id _ _); reflexivity. Qed.

  Lemma EXQ_charge :
    p_assigned p = false -> EXQ qs ps ->
    EXQ (upd_used ids (fun u => vadd u dl) (fun u => if p_np p then vadd u dl else u) qs)
        (set_assigned id true ps).
  Proof.
    intros Ha H. rewrite upd_charge_eq. intros q' Hq' d.
    apply in_map_iff in Hq'. destruct Hq' as (q & <- & Hq).
    rewrite !(expq_map _ hc qs _ _ d keepsd_hc), hc_id.
    destruct (H q Hq d) as [Hu Hn].
    unfold expq. rewrite !(sum_set_assigned _ id true ps p Hnd Hf).
    rewrite (shareq_setp sel_all qs _ p true d sel_all_np), (shareq_setp p_np qs _ p true d sel_np_np).
    assert (Z1 : shareq sel_all qs (q_id q) p d = 0) by (unfold shareq; rewrite Ha, andb_false_r; reflexivity).
    assert (Z2 : shareq p_np qs (q_id q) p d = 0) by (unfold shareq; rewrite Ha, andb_false_r; reflexivity).
    rewrite Z1, Z2. fold (expq sel_all qs ps (q_id q) d) (expq p_np qs ps (q_id q) d). fold ids dl.
    rewrite <- Hu, <- Hn. unfold hc, sel_all. cbn [andb].
    destruct (mem_id (q_id q) ids) eqn:E; cbn [q_used q_npused set_usage].
    - destruct (p_np p); cbn [andb]; rewrite ?vget_vadd; split; lia.
    - rewrite andb_false_r. split; lia.
  Qed.

  Hypothesis Hpos : forall x, In x ps -> forall d, 0 <= vget (deltaq qs x) d.

  Lemma share_le sel i d :
    (forall x, In x ps -> 0 <= shareq sel qs i x d) /\ shareq sel qs i p d <= expq sel qs ps i d.
  Proof.
    assert (Hn : forall x, In x ps -> 0 <= shareq sel qs i x d).
    { intros x Hx. unfold shareq. destruct (_ && _ && _); [apply Hpos; exact Hx|lia]. }
    split; [exact Hn|]. unfold expq.
    apply (sum_ge_term (fun x => shareq sel qs i x d) ps p Hn). apply (find_pod_some _ _ _ Hf).
  Qed.

  (* used after a refund, whatever then happens to the pod (flag cleared, or pod removed) *)
  Lemma refund_values q d :
    p_assigned p = true -> EXQ qs ps -> In q qs ->
    vget (q_used (hr q)) d = expq sel_all qs ps (q_id q) d - shareq sel_all qs (q_id q) p d
    /\ vget (q_npused (hr q)) d = expq p_np qs ps (q_id q) d - shareq p_np qs (q_id q) p d.
  Proof.
    intros Ha H Hq. unfold hr. destruct (H q Hq d) as [Hu Hn].
    pose proof (proj2 (share_le sel_all (q_id q) d)) as L1.
    pose proof (proj2 (share_le p_np (q_id q) d)) as L2.
    unfold shareq in L1, L2 |- *. change (sel_all p) with true in L1 |- *.
    rewrite Ha in L1, L2 |- *. cbn [andb] in L1, L2 |- *.
    fold ids dl in L1, L2 |- *.
    destruct (mem_id (q_id q) ids) eqn:E; cbn [q_used q_npused set_usage].
    - rewrite ?andb_true_r in L2 |- *.
      destruct (p_np p); cbn [andb] in L2 |- *; rewrite ?vget_vsub_clamp; split; lia.
    - rewrite ?andb_false_r in L2 |- *. split; lia.
  Qed.

  Lemma EXQ_refund_unassign :
    p_assigned p = true -> EXQ qs ps ->
    EXQ (upd_used ids (fun u => vsub_clamp u dl) (fun u => if p_np p then vsub_clamp u dl else u) qs)
        (set_assigned id false ps).
  Proof.
    intros Ha H. rewrite upd_refund_eq. intros q' Hq' d.
    apply in_map_iff in Hq'. destruct Hq' as (q & <- & Hq).
    rewrite !(expq_map _ hr qs _ _ d keepsd_hr), hr_id.
    destruct (refund_values q d Ha H Hq) as [Hu Hn]. rewrite Hu, Hn.
    unfold expq. rewrite !(sum_set_assigned _ id false ps p Hnd Hf).
    rewrite (shareq_setp sel_all qs _ p false d sel_all_np), (shareq_setp p_np qs _ p false d sel_np_np).
    rewrite !andb_false_r. cbn [andb]. split; lia.
  Qed.

  Lemma EXQ_refund_remove :
    p_assigned p = true -> EXQ qs ps ->
    EXQ (upd_used ids (fun u => vsub_clamp u dl) (fun u => if p_np p then vsub_clamp u dl else u) qs)
        (remove_pod id ps).
  Proof.
    intros Ha H. rewrite upd_refund_eq. intros q' Hq' d.
    apply in_map_iff in Hq'. destruct Hq' as (q & <- & Hq).
    rewrite !(expq_map _ hr qs _ _ d keepsd_hr), hr_id.
    destruct (refund_values q d Ha H Hq) as [Hu Hn]. rewrite Hu, Hn.
    unfold expq. rewrite !(sum_remove_pod _ id ps p Hnd Hf). split; lia.
  Qed.

  (* removing a pod that is not assigned changes no sum *)
  Lemma EXQ_remove_unassigned : p_assigned p = false -> EXQ qs ps -> EXQ qs (remove_pod id ps).
  Proof.
    intros Ha H q Hq d. destruct (H q Hq d) as [Hu Hn]. rewrite Hu, Hn. unfold expq.
    rewrite !(sum_remove_pod _ id ps p Hnd Hf). unfold shareq. rewrite Ha, !andb_false_r. cbn [andb]. split; lia.
  Qed.
End Charge.

(* ---------- a pod's preemptible label flips ---------- *)
Lemma sum_set_np (G : pod -> Z) id ps p :
  NoDup (map p_id ps) -> find_pod id ps = Some p ->
  sumZ (map G (set_np id ps)) = sumZ (map G ps) - G p + G (flip_np p).
Proof.
  unfold set_np. induction ps as [|x t IH]; cbn [find_pod map]; intros Hnd Hf; [discriminate|].
  inversion Hnd as [|? ? Hx Ht]; subst. rewrite !sumZ_cons.
  destruct (p_id x =? id) eqn:E.
  - injection Hf as <-. apply Z.eqb_eq in E.
    assert (Hrest : map (fun p0 => if p_id p0 =? id then flip_np p0 else p0) t = t).
    { rewrite <- (map_id t) at 2. apply map_ext_in. intros y Hy.
      destruct (p_id y =? id) eqn:Ey; [|reflexivity]. exfalso. apply Hx.
      apply Z.eqb_eq in Ey. rewrite E, <- Ey. apply in_map. exact Hy. }
    rewrite Hrest. lia.
  - rewrite (IH Ht Hf). lia.
Qed.

Lemma shareq_all_flip qs i p d : shareq sel_all qs i (flip_np p) d = shareq sel_all qs i p d.
Proof. reflexivity. Qed.
Lemma shareq_np_flip qs i p d :
  shareq p_np qs i (flip_np p) d
  = if negb (p_np p) && p_assigned p && mem_id i (pidsq qs (p_quota p)) then vget (deltaq qs p) d else 0.
Proof. reflexivity. Qed.

Lemma EXQ_set_np_unassigned qs ps id p :
  NoDup (map p_id ps) -> find_pod id ps = Some p -> p_assigned p = false ->
  EXQ qs ps -> EXQ qs (set_np id ps).
Proof.
  intros Hnd Hf Ha H q Hq d. destruct (H q Hq d) as [Hu Hn]. rewrite Hu, Hn. unfold expq.
  rewrite !(sum_set_np _ id ps p Hnd Hf), shareq_all_flip, shareq_np_flip.
  assert (Z1 : shareq sel_all qs (q_id q) p d = 0) by (unfold shareq; rewrite Ha, andb_false_r; reflexivity).
  assert (Z3 : shareq p_np qs (q_id q) p d = 0) by (unfold shareq; rewrite Ha, andb_false_r; reflexivity).
  assert (Z2 : (if negb (p_np p) && p_assigned p && mem_id (q_id q) (pidsq qs (p_quota p))
                then vget (deltaq qs p) d else 0) = 0) by (rewrite Ha, andb_false_r; reflexivity).
  rewrite Z1, Z2, Z3. split; rewrite Z.sub_0_r, Z.add_0_r; reflexivity.
Qed.

Lemma EXQ_relabel_assigned qs ps id p :
  NoDup (map p_id ps) -> find_pod id ps = Some p -> p_assigned p = true ->
  (forall x, In x ps -> forall d, 0 <= vget (deltaq qs x) d) ->
  EXQ qs ps ->
  EXQ (upd_used (pidsq qs (p_quota p)) (fun u => u)
                (fun u => if p_np p then vsub_clamp u (deltaq qs p) else vadd u (deltaq qs p)) qs)
      (set_np id ps).
Proof.
  intros Hnd Hf Ha Hpos H.
  set (ids := pidsq qs (p_quota p)). set (dl := deltaq qs p).
  set (h := fun q => if mem_id (q_id q) ids
                     then set_usage q (q_used q) (if p_np p then vsub_clamp (q_npused q) dl else vadd (q_npused q) dl)
                     else q).
  assert (Eh : upd_used ids (fun u => u) (fun u => if p_np p then vsub_clamp u dl else vadd u dl) qs = map h qs)
    by reflexivity.
  assert (K : keepsd h).
  { split; [|intro q; unfold h; destruct (mem_id _ _); reflexivity].
    intro q. unfold h. destruct (mem_id _ _); cbn; auto. }
  assert (Hid : forall q, q_id (h q) = q_id q) by (intro q; unfold h; destruct (mem_id _ _); reflexivity).
  rewrite Eh. intros q' Hq' d. apply in_map_iff in Hq'. destruct Hq' as (q & <- & Hq).
  rewrite !(expq_map _ h qs _ _ d K), Hid.
  destruct (H q Hq d) as [Hu Hn].
  pose proof (proj2 (share_le qs ps id p Hf Hpos p_np (q_id q) d)) as L.
  unfold expq. rewrite !(sum_set_np _ id ps p Hnd Hf), shareq_all_flip, shareq_np_flip.
  fold (expq sel_all qs ps (q_id q) d) (expq p_np qs ps (q_id q) d).
  unfold shareq in L |- *. rewrite Ha in L |- *. fold ids dl in L |- *.
  rewrite <- Hn in L. rewrite <- Hu, <- Hn. unfold h.
  destruct (mem_id (q_id q) ids) eqn:E; cbn [q_used q_npused set_usage].
  - rewrite ?andb_true_r in L |- *.
    destruct (p_np p); cbn [andb negb] in L |- *; rewrite ?vget_vsub_clamp, ?vget_vadd; split; lia.
  - destruct (p_np p); cbn [andb negb]; split; lia.
Qed.

(* a status update (node name, phase) changes no sum *)
Lemma expq_set_status sel qs ps id b t i d :
  (forall x, sel (with_status x b t) = sel x) ->
  expq sel qs (set_status id b t ps) i d = expq sel qs ps i d.
Proof.
  intro Hs. unfold expq, set_status. rewrite map_map. f_equal. apply map_ext. intro x.
  destruct (p_id x =? id); [|reflexivity]. unfold shareq. rewrite Hs. reflexivity.
Qed.
Lemma EXQ_set_status qs ps id b t : EXQ qs ps -> EXQ qs (set_status id b t ps).
Proof.
  intros H q Hq d. rewrite !expq_set_status by reflexivity. exact (H q Hq d).
Qed.
Lemma find_pod_set_status id b t ps p :
  find_pod id ps = Some p -> find_pod id (set_status id b t ps) = Some (with_status p b t).
Proof.
  induction ps as [|x r IH]; cbn [find_pod set_status map]; [discriminate|].
  destruct (p_id x =? id) eqn:E.
  - intro H. injection H as <-. cbn [with_status p_id]. rewrite E. reflexivity.
  - rewrite E. exact IH.
Qed.

(* a new, unassigned pod changes no sum *)
Lemma EXQ_pod_add qs ps p : p_assigned p = false -> EXQ qs ps -> EXQ qs (ps ++ [p]).
Proof.
  intros Ha H q Hq d. destruct (H q Hq d) as [Hu Hn]. rewrite Hu, Hn. unfold expq.
  rewrite !map_app, !sumZ_app. cbn [map]. rewrite !sumZ_cons, sumZ_nil.
  unfold shareq. rewrite Ha, !andb_false_r. cbn [andb]. split; lia.
Qed.

(* a new quota is in nobody's path *)
Lemma EXQ_quota_add qs ps nq :
  ord qs -> parents_exist qs -> ~ In (q_id nq) (map q_id qs) ->
  (forall p, In p ps -> In (p_quota p) (map q_id qs)) ->
  q_used nq = vzero -> q_npused nq = vzero ->
  EXQ qs ps -> EXQ (qs ++ [nq]) ps.
Proof.
  intros Ho Hp Hfresh Hpq Hu0 Hn0 H.
  assert (Hexp : forall sel i d, expq sel (qs ++ [nq]) ps i d = expq sel qs ps i d).
  { intros sel i d. unfold expq. f_equal. apply map_ext_in. intros p Hpin. unfold shareq.
    rewrite (pidsq_app qs nq _ Ho Hp (or_intror (Hpq p Hpin))), (deltaq_app qs nq p (Hpq p Hpin)).
    reflexivity. }
  intros q Hq d. rewrite !Hexp. apply in_app_or in Hq. destruct Hq as [Hq|[<-|[]]]; [exact (H q Hq d)|].
  rewrite Hu0, Hn0, vget_vzero.
  assert (Z : forall sel, expq sel qs ps (q_id nq) d = 0).
  { intro sel. unfold expq. apply sumZ_map_zero. intros p Hpin. unfold shareq.
    destruct (mem_id (q_id nq) (pidsq qs (p_quota p))) eqn:E; [|rewrite andb_false_r; reflexivity].
    exfalso. apply Hfresh. apply mem_id_spec in E. exact (pidsq_sub _ _ _ E). }
  rewrite !Z. split; reflexivity.
Qed.

(* ---------- every operation keeps the figures exact ---------- *)
Lemma STR_map h qs ps t : keeps h -> STR (mkState qs ps t) -> STR (mkState (map h qs) ps t).
Proof.
  intros K [Ho Hn Hq]. cbn in *. constructor; cbn.
  - intros q Hin. apply in_map_iff in Hin. destruct Hin as (x & <- & Hx).
    destruct (K x) as (-> & -> & _). apply Ho. exact Hx.
  - exact Hn.
  - rewrite (map_ids _ _ K). exact Hq.
Qed.

Definition same_usage (h : quota -> quota) : Prop :=
  forall q, q_used (h q) = q_used q /\ q_npused (h q) = q_npused q.

Lemma EXI_map wf h qs ps t :
  keepsd h -> same_usage h -> EXI wf (mkState qs ps t) -> EXI wf (mkState (map h qs) ps t).
Proof.
  intros K U [S E]. split; [apply STR_map; [exact (proj1 K)|exact S]|].
  intro W. cbn [quotas pods]. apply EXQ_map; [exact K|exact U|exact (E W)].
Qed.

Lemma keepsd_refresh ids qs ps : keepsd (refresh_fn ids qs ps) /\ same_usage (refresh_fn ids qs ps).
Proof.
  split; [split; [apply keeps_refresh_fn|]|]; intro q; unfold refresh_fn; destruct (mem_id _ _); auto.
Qed.
Lemma keepsd_taint ids : keepsd (taint_fn ids) /\ same_usage (taint_fn ids).
Proof.
  split; [split; [apply keeps_taint_fn|]|]; intro q; unfold taint_fn; destruct (mem_id _ _); auto.
Qed.

Lemma EXI_refresh wf ids qs ps t : EXI wf (mkState qs ps t) -> EXI wf (mkState (refresh ids qs ps) ps t).
Proof. intro H. destruct (keepsd_refresh ids qs ps). apply (EXI_map wf (refresh_fn ids qs ps)); assumption. Qed.
Lemma EXI_taint wf ids qs ps t : EXI wf (mkState qs ps t) -> EXI wf (mkState (taint_ids ids qs) ps t).
Proof. intro H. destruct (keepsd_taint ids). apply (EXI_map wf (taint_fn ids)); assumption. Qed.
Lemma EXI_touch wf st p qs ps t : EXI wf (mkState qs ps t) -> EXI wf (mkState (touch_request st p qs ps) ps t).
Proof. intro H. unfold touch_request. destruct (vec_zerob _); [exact H|apply EXI_refresh; exact H]. Qed.

Lemma EXI_weaken wf wf' st : EXI wf st -> (wf' = true -> wf = true) -> EXI wf' st.
Proof. intros [S E] H. split; [exact S|]. intro W. exact (E (H W)). Qed.

Lemma find_pod_app_new id ps p :
  find_pod id ps = None -> p_id p = id -> find_pod id (ps ++ [p]) = Some p.
Proof.
  intros Hn Hp. induction ps as [|x t IH]; cbn [find_pod app].
  - rewrite Hp, Z.eqb_refl. reflexivity.
  - cbn [find_pod] in Hn. destruct (p_id x =? id); [discriminate|auto].
Qed.

Lemma pods_pos cfg st :
  INV cfg true st -> forall x, In x (pods st) -> forall d, 0 <= vget (deltaq (quotas st) x) d.
Proof.
  intros I x Hx d. rewrite <- deltaq_delta. apply pod_delta_nonneg. exact (inv_pods _ _ _ I eq_refl x Hx).
Qed.

Lemma NoDup_set_assigned id b ps : map p_id (set_assigned id b ps) = map p_id ps.
Proof.
  unfold set_assigned. rewrite map_map. apply map_ext. intro p. destruct (p_id p =? id); reflexivity.
Qed.
Lemma in_set_assigned_quota id b ps p : In p (set_assigned id b ps) -> exists p0, In p0 ps /\ p_quota p = p_quota p0.
Proof.
  unfold set_assigned. intro H. apply in_map_iff in H. destruct H as (x & <- & Hx).
  exists x. split; [exact Hx|]. destruct (p_id x =? id); reflexivity.
Qed.
Lemma NoDup_remove_pod id ps : NoDup (map p_id ps) -> NoDup (map p_id (remove_pod id ps)).
Proof.
  unfold remove_pod. induction ps as [|x t IH]; intro H; [constructor|].
  inversion H as [|? ? Hx Ht]; subst. cbn [filter].
  destruct (negb (p_id x =? id)); [|apply IH; exact Ht].
  cbn [map]. constructor; [|apply IH; exact Ht].
  intro Hin. apply Hx. apply in_map_iff in Hin. destruct Hin as (y & Ey & Hy).
  apply filter_In in Hy. rewrite <- Ey. apply in_map. apply Hy.
Qed.

Lemma upd_used_ids ids f g qs : map q_id (upd_used ids f g qs) = map q_id qs.
Proof. unfold upd_used. apply (map_ids _ _ (keeps_upd_used ids f g)). Qed.

Lemma EXI_charge wf st p :
  EXI wf st -> find_pod (p_id p) (pods st) = Some p -> p_assigned p = false -> EXI wf (charge st p).
Proof.
  intros [[Ho Hn Hq] E] Hf Ha. unfold charge. split.
  - constructor; cbn [quotas pods].
    + intros q Hin. unfold upd_used in Hin. apply in_map_iff in Hin. destruct Hin as (x & <- & Hx).
      destruct (mem_id _ _); cbn; apply Ho; exact Hx.
    + rewrite NoDup_set_assigned. exact Hn.
    + intros x Hx. apply in_set_assigned_quota in Hx. destruct Hx as (x0 & Hx0 & ->).
      rewrite upd_used_ids. apply Hq. exact Hx0.
  - intro W. cbn [quotas pods]. rewrite pidsq_path, deltaq_delta.
    apply EXQ_charge; auto.
Qed.

Lemma EXI_refund_unassign cfg st p :
  INV cfg true st -> EXI true st -> find_pod (p_id p) (pods st) = Some p -> p_assigned p = true ->
  EXI true (mkState (refund st p) (set_assigned (p_id p) false (pods st)) (total st)).
Proof.
  intros I [[Ho Hn Hq] E] Hf Ha. unfold refund. split.
  - constructor; cbn [quotas pods].
    + intros q Hin. unfold upd_used in Hin. apply in_map_iff in Hin. destruct Hin as (x & <- & Hx).
      destruct (mem_id _ _); cbn; apply Ho; exact Hx.
    + rewrite NoDup_set_assigned. exact Hn.
    + intros x Hx. apply in_set_assigned_quota in Hx. destruct Hx as (x0 & Hx0 & ->).
      rewrite upd_used_ids. apply Hq. exact Hx0.
  - intros _. cbn [quotas pods]. rewrite pidsq_path, deltaq_delta.
    apply EXQ_refund_unassign; auto. apply (pods_pos cfg st I).
Qed.

Lemma EXI_refund_remove cfg st p :
  INV cfg true st -> EXI true st -> find_pod (p_id p) (pods st) = Some p -> p_assigned p = true ->
  EXI true (mkState (refund st p) (remove_pod (p_id p) (pods st)) (total st)).
Proof.
  intros I [[Ho Hn Hq] E] Hf Ha. unfold refund. split.
  - constructor; cbn [quotas pods].
    + intros q Hin. unfold upd_used in Hin. apply in_map_iff in Hin. destruct Hin as (x & <- & Hx).
      destruct (mem_id _ _); cbn; apply Ho; exact Hx.
    + apply NoDup_remove_pod. exact Hn.
    + intros x Hx. apply in_remove_pod in Hx.
      rewrite upd_used_ids. apply Hq. exact Hx.
  - intros _. cbn [quotas pods]. rewrite pidsq_path, deltaq_delta.
    apply EXQ_refund_remove; auto. apply (pods_pos cfg st I).
Qed.

(* when wf is false only the structural part has to be carried *)
Lemma STR_upd_used ids f g st ps' :
  STR st -> NoDup (map p_id ps') -> (forall x, In x ps' -> exists x0, In x0 (pods st) /\ p_quota x = p_quota x0) ->
  STR (mkState (upd_used ids f g (quotas st)) ps' (total st)).
Proof.
  intros [Ho Hn Hq] Hn' Hsub. constructor; cbn [quotas pods].
  - intros q Hin. unfold upd_used in Hin. apply in_map_iff in Hin. destruct Hin as (x & <- & Hx).
    destruct (mem_id _ _); cbn; apply Ho; exact Hx.
  - exact Hn'.
  - intros x Hx. destruct (Hsub x Hx) as (x0 & Hx0 & ->).
    rewrite upd_used_ids. apply Hq. exact Hx0.
Qed.

(* ---------- restart ---------- *)
Lemma keepsd_usage st1 : keepsd (usage_fn st1).
Proof. split; [apply keeps_usage_fn|reflexivity]. Qed.

Lemma shareq_restart sel qs i p d :
  (forall x y, p_np x = p_np y -> sel x = sel y) ->
  shareq sel qs i (restart_pod p) d
  = if sel p && replay_flag p && mem_id i (pidsq qs (p_quota p)) then vget (deltaq qs p) d else 0.
Proof.
  intro Hs. unfold shareq, restart_pod. cbn [p_assigned p_quota]. unfold deltaq. cbn [p_quota p_req].
  rewrite (Hs (mkPod (p_id p) (p_quota p) (p_req p) (p_keys p) (p_np p) (replay_flag p) (p_bound p) (p_term p)) p eq_refl).
  reflexivity.
Qed.

(* the state a restart produces, as pointwise updates of the quota table *)
Definition restart_fn (st : state) : quota -> quota :=
  let ps := map restart_pod (pods st) in
  let qs1 := taint_ids (fresh_ids st) (quotas st) in
  let st1 := mkState qs1 ps (total st) in
  let qs2 := map (usage_fn st1) qs1 in
  fun q => refresh_fn (map q_id qs2) qs2 ps (usage_fn st1 (taint_fn (fresh_ids st) q)).
Lemma restart_quotas cfg st :
  quotas (fst (step cfg st ORestart)) = map (restart_fn st) (quotas st).
Proof.
  unfold step, restart_fn. cbn [fst quotas]. unfold refresh, taint_ids. rewrite !map_map. reflexivity.
Qed.
Lemma keepsd_restart_fn st : keepsd (restart_fn st).
Proof.
  unfold restart_fn. cbv zeta. split.
  - apply keeps_compose; [apply keeps_refresh_fn|]. apply keeps_compose; [apply keeps_usage_fn|apply keeps_taint_fn].
  - intro q. destruct (keepsd_refresh (map q_id (map (usage_fn (mkState (taint_ids (fresh_ids st) (quotas st)) (map restart_pod (pods st)) (total st))) (taint_ids (fresh_ids st) (quotas st))))
                         (map (usage_fn (mkState (taint_ids (fresh_ids st) (quotas st)) (map restart_pod (pods st)) (total st))) (taint_ids (fresh_ids st) (quotas st)))
                         (map restart_pod (pods st))) as [[_ Kd] _].
    rewrite Kd. destruct (keepsd_taint (fresh_ids st)) as [[_ Kt] _]. cbn. apply Kt.
Qed.

(* used after a restart is the from-scratch sum over the replayed pods *)
Lemma restart_used st q d :
  vget (q_used (restart_fn st q)) d = expq sel_all (quotas st) (map restart_pod (pods st)) (q_id q) d
  /\ vget (q_npused (restart_fn st q)) d = expq p_np (quotas st) (map restart_pod (pods st)) (q_id q) d.
Proof.
  unfold restart_fn. cbv zeta.
  set (ps := map restart_pod (pods st)). set (tids := fresh_ids st).
  set (st1 := mkState (taint_ids tids (quotas st)) ps (total st)).
  destruct (keepsd_refresh (map q_id (map (usage_fn st1) (taint_ids tids (quotas st))))
                           (map (usage_fn st1) (taint_ids tids (quotas st))) ps) as [_ U].
  destruct (U (usage_fn st1 (taint_fn tids q))) as [-> ->].
  unfold usage_fn. cbn [q_used q_npused set_usage]. rewrite !vget_vmk.
  rewrite exp_used_expq, exp_npused_expq. unfold st1. cbn [quotas pods]. unfold taint_ids.
  rewrite !(expq_map _ (taint_fn tids) (quotas st) ps _ d (proj1 (keepsd_taint tids))).
  destruct (keeps_taint_fn tids q) as (-> & _). split; reflexivity.
Qed.

Lemma restart_pods_ids ps : map p_id (map restart_pod ps) = map p_id ps.
Proof. rewrite map_map. apply map_ext. reflexivity. Qed.

Lemma EXI_restart cfg wf st : EXI wf st -> EXI wf (fst (step cfg st ORestart)).
Proof.
  intros [[Ho Hn Hq] _]. pose proof (restart_quotas cfg st) as Eq.
  assert (Ep : pods (fst (step cfg st ORestart)) = map restart_pod (pods st)) by reflexivity.
  destruct (keepsd_restart_fn st) as [K Kd]. split.
  - constructor.
    + rewrite Eq. intros q Hin. apply in_map_iff in Hin. destruct Hin as (x & <- & Hx).
      destruct (K x) as (-> & -> & _). apply Ho. exact Hx.
    + rewrite Ep, restart_pods_ids. exact Hn.
    + rewrite Ep, Eq, (map_ids _ _ K). intros x Hx. apply in_restart_pods in Hx.
      destruct Hx as (x0 & Hx0 & _ & _ & ->). apply Hq. exact Hx0.
  - intros _. rewrite Eq, Ep. intros q' Hq' d. apply in_map_iff in Hq'. destruct Hq' as (q & <- & Hqin).
    rewrite !(expq_map _ (restart_fn st) (quotas st) _ _ d (keepsd_restart_fn st)).
    destruct (K q) as (-> & _). apply restart_used.
Qed.

(* an update of the usage figures that stays within max wherever something is still promised *)
Lemma INV_set_usage cfg wf f g qs ps tot :
  INV cfg wf (mkState qs ps tot) ->
  (wf = true -> forall q, In q qs -> q_taint q = false -> used_le_max q (f q)) ->
  INV cfg wf (mkState (map (fun q => set_usage q (f q) (g q)) qs) ps tot).
Proof.
  intros I Hnew. destruct I as [Hnd Hcr Hpar Hpex Hus Hok Hpo]. cbn in *.
  set (h := fun q => set_usage q (f q) (g q)).
  assert (K : keeps h) by apply keeps_set_usage.
  constructor; cbn.
  - rewrite (map_ids _ _ K). exact Hnd.
  - apply forall_map; [exact Hcr|]. intros q _ Hq. exact Hq.
  - apply par_map; assumption.
  - apply pex_map; assumption.
  - intro Hw. apply forall_map; [exact (Hus Hw)|]. intros q Hin _ Ht. exact (Hnew Hw q Hin Ht).
  - intro Hw. apply forall_map; [exact (Hok Hw)|]. intros q _ Hq. exact Hq.
  - exact Hpo.
Qed.

Lemma in_fresh_ids st p i :
  In p (pods st) -> p_assigned p = false -> replay_flag p = true ->
  In i (map q_id (path st (p_quota p))) -> In i (fresh_ids st).
Proof.
  intros Hp Ha Hr Hi. unfold fresh_ids. apply in_flat_map. exists p. split; [exact Hp|].
  rewrite Ha, Hr. exact Hi.
Qed.

(* Restart keeps the invariant: a quota that is still promised something is charged only for pods
   that were assigned (admitted) before, so its new used is at most its old one. *)
Lemma INV_restart cfg wf st : INV cfg wf st -> EXI wf st -> INV cfg wf (fst (step cfg st ORestart)).
Proof.
  intros I X. unfold step. cbn [fst]. destruct st as [qs0 ps tot]. cbn [quotas pods total].
  set (st := mkState qs0 ps tot) in *.
  set (ps' := map restart_pod ps). set (tids := fresh_ids st).
  set (st1 := mkState (taint_ids tids qs0) ps' tot).
  assert (Hps' : wf = true -> forall x, In x ps' -> pod_okb (p_req x) (p_keys x) = true).
  { intro W. apply nonneg_restart_pods. exact (inv_pods _ _ _ I W). }
  assert (I1 : INV cfg wf st1).
  { apply (INV_pods _ _ _ ps); [apply INV_taint; exact I|exact Hps']. }
  apply INV_refresh with (ps := ps'); [|exact Hps'].
  apply (INV_set_usage cfg wf (fun q => vmk (exp_used st1 q)) (fun q => vmk (exp_npused st1 q))); [exact I1|].
  intros W q1 Hq1 Ht d Hd. subst wf. rewrite vget_vmk.
  unfold taint_ids in Hq1. apply in_map_iff in Hq1. destruct Hq1 as (q & <- & Hq).
  unfold taint_fn in Ht, Hd |- *.
  destruct (mem_id (q_id q) tids) eqn:Em; [discriminate Ht|].
  rewrite exp_used_expq. unfold st1. cbn [quotas pods]. unfold taint_ids.
  rewrite (expq_map _ (taint_fn tids) qs0 ps' _ d (proj1 (keepsd_taint tids))).
  pose proof (inv_used _ _ _ I eq_refl q Hq Ht d Hd) as Hu.
  destruct X as [_ E]. destruct (E eq_refl q Hq d) as [Eu _]. cbn [quotas pods] in Eu.
  rewrite Eu in Hu. eapply Z.le_trans; [|exact Hu].
  unfold expq, ps'. rewrite map_map. apply sumZ_map_le. intros p Hp.
  rewrite (shareq_restart sel_all qs0 _ p d sel_all_np). unfold shareq, sel_all. cbn [andb].
  pose proof (pods_pos cfg st I p Hp d) as Hpos.
  change (quotas st) with qs0 in *.
  destruct (p_assigned p) eqn:Ea; cbn [andb].
  - destruct (replay_flag p); cbn [andb]; destruct (mem_id (q_id q) (pidsq qs0 (p_quota p))); lia.
  - destruct (replay_flag p) eqn:Er; cbn [andb]; [|lia].
    destruct (mem_id (q_id q) (pidsq qs0 (p_quota p))) eqn:Emm; [|lia].
    exfalso. apply mem_id_spec in Emm.
    assert (Hin : In (q_id q) tids).
    { apply (in_fresh_ids st p); auto. }
    apply mem_id_spec in Hin. congruence.
Qed.

Lemma restart_keeps : forall cfg wf st,
  INV cfg wf st -> EXI wf st ->
  INV cfg wf (fst (step cfg st ORestart)) /\ EXI wf (fst (step cfg st ORestart)).
Proof. intros cfg wf st I X. split; [exact (INV_restart cfg wf st I X)|exact (EXI_restart cfg wf st X)]. Qed.

Theorem INV_step cfg wf st sn o :
  INV cfg wf st -> FL wf st sn -> EXI wf st -> INV cfg (wf && op_okb st sn o) (fst (step cfg st o)).
Proof.
  intros I F X. apply INV_step_gen; [exact I|exact F|]. intros _. apply INV_restart; assumption.
Qed.

Theorem EXI_step cfg wf st sn o :
  INV cfg wf st -> EXI wf st -> EXI (wf && op_okb st sn o) (fst (step cfg st o)).
Proof.
  intros I X.
  assert (Hwf : wf && op_okb st sn o = true -> wf = true) by (intro H; apply andb_true_iff in H; apply H).
  assert (Xw : EXI (wf && op_okb st sn o) st) by (apply (EXI_weaken wf); assumption).
  assert (Iw : INV cfg (wf && op_okb st sn o) st) by (apply (INV_weaken _ wf); assumption).
  (* reduce to wf' = true / false uniformly: in the false case only STR matters *)
  destruct o as [id parent lend decl mx mindecl mn w|id mx mindecl mn w|id qn np req keys term|id|id|id|id|id|t
                 |id qn np req keys term|id|id|id term bind| |]; unfold step, apply_attempt; cbv zeta.
  - (* quota add *)
    destruct (id <=? 0) eqn:E0; cbn [orb fst]; [exact Xw|].
    destruct (find_quota id (quotas st)) eqn:Ef; cbn [orb fst]; [exact Xw|].
    match goal with |- context [negb ?b] => destruct b eqn:Ep end; cbn [negb fst]; [|exact Xw].
    destruct st as [qs0 ps tot]. cbn [quotas pods total] in *.
    set (nq := mkQuota id parent lend decl mx mindecl mn w vzero vzero vzero false).
    set (qs := if chk_parent cfg then qs0 else taint_ids [parent] qs0).
    apply EXI_refresh.
    assert (X1 : EXI (wf && op_okb (mkState qs0 ps tot) sn (OQuotaAdd id parent lend decl mx mindecl mn w))
                     (mkState qs ps tot)).
    { unfold qs. destruct (chk_parent cfg); [exact Xw|apply EXI_taint; exact Xw]. }
    assert (I1 : INV cfg (wf && op_okb (mkState qs0 ps tot) sn (OQuotaAdd id parent lend decl mx mindecl mn w))
                     (mkState qs ps tot)).
    { unfold qs. destruct (chk_parent cfg); [exact Iw|apply INV_taint; exact Iw]. }
    assert (Eids : map q_id qs = map q_id qs0).
    { unfold qs. destruct (chk_parent cfg); [reflexivity|apply taint_ids_ids]. }
    assert (Hfresh : ~ In (q_id nq) (map q_id qs)).
    { rewrite Eids. apply find_quota_none. exact Ef. }
    destruct X1 as [[Ho Hn Hq] E]. cbn [quotas pods] in *.
    assert (Hpar : q_parent nq < q_id nq).
    { cbn. destruct (parent =? 0) eqn:Ez; [lia|].
      destruct (find_quota parent qs0); [|discriminate Ep].
      apply andb_true_iff in Ep. destruct Ep as [_ Ep]. lia. }
    split.
    + constructor; cbn [quotas pods].
      * intros q Hin. apply in_app_or in Hin. destruct Hin as [Hin|[<-|[]]]; [apply Ho; exact Hin|exact Hpar].
      * exact Hn.
      * intros x Hx. rewrite map_app. apply in_or_app. left. apply Hq. exact Hx.
    + intro W. apply EXQ_quota_add; auto.
      exact (inv_pex _ _ _ I1).
  - (* quota update *)
    destruct (find_quota id (quotas st)) as [q0|] eqn:Ef; cbn [fst]; [|exact Xw].
    destruct st as [qs0 ps tot]. cbn [quotas pods total] in *.
    match goal with |- EXI _ (mkState (if ?b then refresh ?i ?l ?p else _) _ _) =>
      assert (X1 : EXI (wf && op_okb (mkState qs0 ps tot) sn (OQuotaUpdate id mx mindecl mn w)) (mkState l ps tot));
      [|destruct b; [apply EXI_refresh|]; exact X1] end.
    apply EXI_map; [| |exact Xw].
    + split; [|intro q; destruct (q_id q =? id); reflexivity].
      intro q. destruct (q_id q =? id); [cbn|auto]. repeat split. intro Ht. rewrite Ht. reflexivity.
    + intro q. destruct (q_id q =? id); split; reflexivity.
  - (* pod add *)
    destruct (find_pod id (pods st)) eqn:Efp; cbn [fst]; [exact Xw|].
    destruct (find_quota qn (quotas st)) as [q0|] eqn:Efq; cbn [fst]; [|exact Xw].
    destruct st as [qs0 ps tot]. cbn [quotas pods total] in *.
    apply EXI_touch. destruct Xw as [[Ho Hn Hq] E]. cbn [quotas pods] in *. split.
    + constructor; cbn [quotas pods]; [exact Ho| |].
      * rewrite map_app. cbn. apply NoDup_app_single; [exact Hn|apply find_pod_none; exact Efp].
      * intros x Hx. apply in_app_or in Hx. destruct Hx as [Hx|[<-|[]]]; [apply Hq; exact Hx|].
        cbn. apply find_quota_some in Efq. destruct Efq as [Hin <-]. apply in_map. exact Hin.
    + intro W. apply EXQ_pod_add; [reflexivity|exact (E W)].
  - (* attempt *)
    destruct (find_pod id (pods st)) as [p|] eqn:Ef; cbn [fst]; [|exact Xw].
    destruct (admission cfg st p (path st (p_quota p)) =? 0); cbn [andb]; [|exact Xw].
    destruct (p_assigned p) eqn:Ea; cbn [negb]; [exact Xw|].
    pose proof (find_pod_some _ _ _ Ef) as [_ Hid]. rewrite <- Hid in Ef.
    apply EXI_charge; assumption.
  - (* check *)
    destruct (find_pod id (pods st)); cbn [fst]; exact Xw.
  - (* reserve *)
    destruct (find_pod id (pods st)) as [p|] eqn:Ef; cbn [fst]; [|exact Xw].
    destruct (p_assigned p) eqn:Ea; [exact Xw|].
    pose proof (find_pod_some _ _ _ Ef) as [_ Hid]. rewrite <- Hid in Ef.
    apply EXI_charge; assumption.
  - (* unreserve *)
    destruct (find_pod id (pods st)) as [p|] eqn:Ef; cbn [fst]; [|exact Xw].
    destruct (p_assigned p) eqn:Ea; cbn [fst]; [|exact Xw].
    pose proof (find_pod_some _ _ _ Ef) as [_ Hid]. subst id.
    destruct (wf && op_okb st sn (OUnreserve (p_id p))) eqn:W.
    + pose proof (Hwf eq_refl) as Wt. subst wf.
      apply (EXI_refund_unassign cfg st p I X Ef Ea).
    + split; [|discriminate]. unfold refund.
      apply STR_upd_used; [exact (proj1 X)|rewrite NoDup_set_assigned; exact (str_pnd _ (proj1 X))|].
      intros x Hx. apply (in_set_assigned_quota _ _ _ _ Hx).
  - (* pod delete *)
    destruct (find_pod id (pods st)) as [p|] eqn:Ef; cbn [fst]; [|exact Xw].
    pose proof (find_pod_some _ _ _ Ef) as [Hpin Hid]. subst id.
    destruct st as [qs0 ps tot]. cbn [quotas pods total] in *.
    apply EXI_touch.
    destruct (p_assigned p) eqn:Ea.
    + destruct (wf && op_okb (mkState qs0 ps tot) sn (OPodDelete (p_id p))) eqn:W.
      * pose proof (Hwf eq_refl) as Wt. subst wf.
        apply (EXI_refund_remove cfg (mkState qs0 ps tot) p I X Ef Ea).
      * split; [|discriminate]. unfold refund.
        apply (STR_upd_used _ _ _ (mkState qs0 ps tot)); [exact (proj1 X)|apply NoDup_remove_pod; exact (str_pnd _ (proj1 X))|].
        intros x Hx. exists x. split; [apply (in_remove_pod _ _ _ Hx)|reflexivity].
    + destruct Xw as [[Ho Hn Hq] E]. cbn [quotas pods] in *. split.
      * constructor; cbn [quotas pods]; [exact Ho|apply NoDup_remove_pod; exact Hn|].
        intros x Hx. apply Hq. apply (in_remove_pod _ _ _ Hx).
      * intro W. apply (EXQ_remove_unassigned qs0 ps (p_id p) p Hn Ef Ea (E W)).
  - (* capacity *)
    cbn [fst]. destruct Xw as [[Ho Hn Hq] E]. split; [constructor; assumption|exact E].
  - (* bound pod *)
    destruct (find_pod id (pods st)) eqn:Efp; cbn [fst]; [exact Xw|].
    destruct (find_quota qn (quotas st)) as [q0|] eqn:Efq; cbn [fst]; [|exact Xw].
    destruct st as [qs0 ps tot]. cbn [quotas pods total] in *.
    destruct term; cbn [fst].
    { apply EXI_touch. destruct Xw as [[Ho Hn Hq] E]. cbn [quotas pods] in *. split.
      + constructor; cbn [quotas pods]; [exact Ho| |].
        * rewrite map_app. cbn. apply NoDup_app_single; [exact Hn|apply find_pod_none; exact Efp].
        * intros x Hx. apply in_app_or in Hx. destruct Hx as [Hx|[<-|[]]]; [apply Hq; exact Hx|].
          cbn. apply find_quota_some in Efq. destruct Efq as [Hin <-]. apply in_map. exact Hin.
      + intro W. apply EXQ_pod_add; [reflexivity|exact (E W)]. }
    set (p := mkPod id qn req keys np false true false).
    apply EXI_charge; [|cbn [pods]; apply find_pod_app_new; [exact Efp|reflexivity]|reflexivity].
    apply EXI_touch. apply EXI_taint with (ids := map q_id (path (mkState qs0 ps tot) qn)) in Xw.
    destruct Xw as [[Ho Hn Hq] E]. cbn [quotas pods] in *. split.
    + constructor; cbn [quotas pods]; [exact Ho| |].
      * rewrite map_app. cbn. apply NoDup_app_single; [exact Hn|apply find_pod_none; exact Efp].
      * intros x Hx. apply in_app_or in Hx. destruct Hx as [Hx|[<-|[]]]; [apply Hq; exact Hx|].
        cbn. rewrite taint_ids_ids. apply find_quota_some in Efq. destruct Efq as [Hin <-]. apply in_map. exact Hin.
    + intro W. apply EXQ_pod_add; [reflexivity|exact (E W)].
  - (* allow-lent flip *)
    destruct (find_quota id (quotas st)) as [q00|]; cbn [fst]; [|exact Xw].
    destruct st as [qs0 ps tot]. cbn [quotas pods total] in *.
    apply EXI_refresh. apply EXI_map; [| |exact Xw].
    + split; [apply neutral_keeps, neutral_flip|]. intro q. destruct (q_id q =? id); reflexivity.
    + intro q. destruct (q_id q =? id); split; reflexivity.
  - (* pod relabel *)
    destruct (find_pod id (pods st)) as [p|] eqn:Ef; cbn [fst]; [|exact Xw].
    pose proof (find_pod_some _ _ _ Ef) as [Hpin Hid].
    destruct st as [qs0 ps tot]. cbn [quotas pods total] in *.
    assert (Hids : map p_id (set_np id ps) = map p_id ps).
    { unfold set_np. rewrite map_map. apply map_ext. intro x. destruct (p_id x =? id); reflexivity. }
    assert (Hsub : forall x, In x (set_np id ps) -> exists x0, In x0 ps /\ p_quota x = p_quota x0).
    { intros x Hx. apply in_set_np in Hx. destruct Hx as (x0 & Hx0 & _ & _ & Hq). eauto. }
    assert (S' : forall qs', map q_id qs' = map q_id qs0 -> ord qs' -> STR (mkState qs' (set_np id ps) tot)).
    { intros qs' Eq Ho'. destruct Xw as [[Ho Hn Hq] _]. cbn [quotas pods] in *.
      constructor; cbn [quotas pods]; [exact Ho'|rewrite Hids; exact Hn|].
      intros x Hx. destruct (Hsub x Hx) as (x0 & Hx0 & ->). rewrite Eq. apply Hq. exact Hx0. }
    destruct (p_assigned p) eqn:Ea.
    + cbn [fst]. apply EXI_touch.
      destruct (wf && op_okb (mkState qs0 ps tot) sn (OPodRelabel id)) eqn:W.
      * pose proof (Hwf eq_refl) as Wt. subst wf. destruct X as [[Ho Hn Hq] E]. cbn [quotas pods] in *.
        split.
        -- apply S'; [apply upd_used_ids|].
           intros q Hin. unfold upd_used in Hin. apply in_map_iff in Hin. destruct Hin as (x & <- & Hx).
           destruct (mem_id _ _); cbn; apply Ho; exact Hx.
        -- intros _. cbn [quotas pods].
           change (map q_id (path (mkState qs0 ps tot) (p_quota p))) with (pidsq qs0 (p_quota p)).
           change (pod_delta (mkState qs0 ps tot) p) with (deltaq qs0 p).
           apply EXQ_relabel_assigned; auto. apply (pods_pos cfg (mkState qs0 ps tot) I).
      * split; [|discriminate]. apply S'; [apply upd_used_ids|].
        destruct X as [[Ho _ _] _]. cbn [quotas] in Ho.
        intros q Hin. unfold upd_used in Hin. apply in_map_iff in Hin. destruct Hin as (x & <- & Hx).
        destruct (mem_id _ _); cbn; apply Ho; exact Hx.
    + assert (X1 : EXI (wf && op_okb (mkState qs0 ps tot) sn (OPodRelabel id)) (mkState qs0 (set_np id ps) tot)).
      { destruct Xw as [[Ho Hn Hq] E]. cbn [quotas pods] in *. split.
        - apply S'; [reflexivity|exact Ho].
        - intro W. cbn [quotas pods]. apply (EXQ_set_np_unassigned qs0 ps id p Hn Ef Ea (E W)). }
      destruct (p_bound p && negb (p_term p)); cbn [fst].
      * apply EXI_charge.
        -- apply EXI_touch. apply EXI_taint. exact X1.
        -- cbn [pods p_id flip_np]. rewrite Hid. clear - Ef.
           induction ps as [|x t IH]; cbn [find_pod set_np map] in *; [discriminate|].
           destruct (p_id x =? id) eqn:E.
           ++ injection Ef as <-. cbn [flip_np p_id]. rewrite E. reflexivity.
           ++ rewrite E. apply IH. exact Ef.
        -- exact Ea.
      * apply EXI_touch. exact X1.
  - (* pod status *)
    destruct (find_pod id (pods st)) as [p|] eqn:Ef; cbn [fst]; [|exact Xw].
    pose proof (find_pod_some _ _ _ Ef) as [Hpin Hid].
    destruct st as [qs0 ps tot]. cbn [quotas pods total] in *.
    set (b := p_bound p || bind).
    assert (X1 : EXI (wf && op_okb (mkState qs0 ps tot) sn (OPodStatus id term bind))
                     (mkState qs0 (set_status id b term ps) tot)).
    { destruct Xw as [[Ho Hn Hq] E]. cbn [quotas pods] in *. split.
      - constructor; cbn [quotas pods]; [exact Ho| |].
        + replace (map p_id (set_status id b term ps)) with (map p_id ps); [exact Hn|].
          unfold set_status. rewrite map_map. apply map_ext. intro x. destruct (p_id x =? id); reflexivity.
        + intros x Hx. apply in_set_status in Hx. destruct Hx as (x0 & Hx0 & _ & _ & ->). apply Hq. exact Hx0.
      - intro W. cbn [quotas pods]. apply EXQ_set_status. exact (E W). }
    destruct (negb (p_assigned p) && b && negb term) eqn:Ec; cbn [fst]; [|exact X1].
    apply EXI_charge.
    + apply EXI_taint. exact X1.
    + cbn [pods p_id with_status]. rewrite Hid. apply find_pod_set_status. exact Ef.
    + cbn [with_status p_assigned]. destruct (p_assigned p); [discriminate Ec|reflexivity].
  - (* restart *)
    apply (EXI_restart cfg _ st Xw).
  - exact Xw.
Qed.

Theorem ALL_step : forall cfg wf st sn o,
  INV cfg wf st -> FL wf st sn -> EXI wf st ->
  INV cfg (wf && op_okb st sn o) (fst (step cfg st o))
  /\ FL (wf && op_okb st sn o) (fst (step cfg st o)) (track cfg st sn o)
  /\ EXI (wf && op_okb st sn o) (fst (step cfg st o)).
Proof.
  intros cfg wf st sn o I F X. split; [exact (INV_step cfg wf st sn o I F X)|].
  split; [exact (FL_step cfg wf st sn o I F)|exact (EXI_step cfg wf st sn o I X)].
Qed.
