(* C03 — flat-integer wire format of histories and observations.
   input :  rt_on chk_parent n  then n records of 16 integers  (opcode a1 .. a15)
     1 QuotaAdd     id parent lend d1 d2 d3 max1 max2 max3 min1 min2 min3 w1 w2 w3   (min = -1: key absent)
     2 QuotaUpdate  id _ _ _ _ _ max1 max2 max3 min1 min2 min3 w1 w2 w3
     3 PodAdd       id quota np r1 r2 r3 phase                    (r = -1: the pod has no such key;
                    phase: 0 none, 1 Pending, 2 Running, 3 Succeeded, 4 Failed — the model keeps "terminated" = 3 <= phase)
     4 Attempt id   5 Unreserve id   6 PodDelete id   7 Capacity t1 t2 t3
     8 PodAddBound  id quota np r1 r2 r3 phase
     9 Check id (PreFilter alone)   10 Reserve id (Reserve alone)   11 FlipLend id (allow-lent-resource label flipped)
     12 PodRelabel id (pod update flipping only the preemptible label)
     14 Restart (scheduler restart: ReplaceQuotas + node + every pod object replayed through OnPodAdd)
     13 PodStatus id phase bind (pod update changing only the status phase and, bind <> 0, setting the node name)
   observation, per operation:
     status  nl (id l1 l2 l3)*nl  nd (id u1 u2 u3 n1 n2 n3)*nd *)
From Coq Require Import List ZArith Bool.
From Verif Require Import Lib.Wire C03.Model.
Import ListNotations.
Open Scope Z_scope.

Definition dec_op (l : list Z) : op * list Z :=
  match l with
  | c :: a1 :: a2 :: a3 :: a4 :: a5 :: a6 :: a7 :: a8 :: a9 :: a10 :: a11 :: a12 :: a13 :: a14 :: a15 :: t =>
    let mx := mkVec a7 a8 a9 in
    let mindecl := mkMask (0 <=? a10) (0 <=? a11) (0 <=? a12) in
    let mn := mkVec (Z.max 0 a10) (Z.max 0 a11) (Z.max 0 a12) in
    let w := mkVec a13 a14 a15 in
    ((if c =? 1 then OQuotaAdd a1 a2 (zb a3) (mkMask (zb a4) (zb a5) (zb a6)) mx mindecl mn w
      else if c =? 2 then OQuotaUpdate a1 mx mindecl mn w
      else if c =? 3 then OPodAdd a1 a2 (zb a3) (mkVec (Z.max 0 a4) (Z.max 0 a5) (Z.max 0 a6))
                                  (mkMask (0 <=? a4) (0 <=? a5) (0 <=? a6)) (3 <=? a7)
      else if c =? 4 then OAttempt a1
      else if c =? 5 then OUnreserve a1
      else if c =? 6 then OPodDelete a1
      else if c =? 7 then OCapacity (mkVec a1 a2 a3)
      else if c =? 8 then OPodAddBound a1 a2 (zb a3) (mkVec (Z.max 0 a4) (Z.max 0 a5) (Z.max 0 a6))
                                       (mkMask (0 <=? a4) (0 <=? a5) (0 <=? a6)) (3 <=? a7)
      else if c =? 9 then OCheck a1
      else if c =? 10 then OReserve a1
      else if c =? 11 then OQuotaFlipLend a1
      else if c =? 12 then OPodRelabel a1
      else if c =? 13 then OPodStatus a1 (3 <=? a2) (zb a3)
      else if c =? 14 then ORestart
      else ONop), t)
  | _ => (ONop, [])
  end.

Definition decode (inp : list Z) : config * list op :=
  match inp with
  | rt :: chk :: t => (mkConfig (zb rt) (zb chk), fst (decode_seq dec_op t))
  | _ => (mkConfig false false, [])
  end.

Definition enc_vec (v : vec) : list Z := [v_c v; v_m v; v_e v].
Definition enc_obs (o : obs) : list Z :=
  o_status o
  :: Z.of_nat (length (o_limits o))
  :: flat_map (fun e : Z * vec => fst e :: enc_vec (snd e)) (o_limits o)
  ++ Z.of_nat (length (o_dump o))
  :: flat_map (fun e : Z * (vec * vec) => fst e :: enc_vec (fst (snd e)) ++ enc_vec (snd (snd e))) (o_dump o).

Definition dec_lim (l : list Z) : (Z * vec) * list Z :=
  match l with
  | i :: a :: b :: c :: t => ((i, mkVec a b c), t)
  | _ => ((-1, mkVec 0 0 0), [])
  end.
Definition dec_dmp (l : list Z) : (Z * (vec * vec)) * list Z :=
  match l with
  | i :: a :: b :: c :: x :: y :: z :: t => ((i, (mkVec a b c, mkVec x y z)), t)
  | _ => ((-1, (mkVec 0 0 0, mkVec 0 0 0)), [])
  end.
Definition dec_obs (l : list Z) : obs * list Z :=
  match l with
  | s :: t =>
    let '(ls, t1) := decode_seq dec_lim t in
    let '(ds, t2) := decode_seq dec_dmp t1 in
    (mkObs s ls ds, t2)
  | [] => (mkObs (-2) [] [], [])
  end.
(* as many observations as there are operations *)
Definition parse_obs (k : nat) (l : list Z) : list obs := fst (decode_many dec_obs k l).
